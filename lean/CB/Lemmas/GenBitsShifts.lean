/-
  CB.Lemmas.GenBitsShifts — what the translated shift / bit-query WORD functions mean and what ONE ROUND of each translated
  shift loop is (CB/Gen/Shifts.lean: `impl Limb { shl, shl1, shr, shr1, bits, leading_zeros, trailing_zeros, trailing_ones,
  bitor }` and the limb loops of `Uint::{overflowing_shl1, shl_limb, shr1_with_carry}`, regenerated from /repo's source
  (src/limb/{shl,shr,bits,bit_or}.rs, src/uint/{shl,shr}.rs) on every run by tools/translate.py).

  This is the only file that looks at the generated TEXT of the shift layer: every lemma unfolds the generated definitions
  (`rw [Uint.overflowing_shl1_loop1]`, `simp only [gen_defs]`) and, where the two sides are not already identical, decides
  the words with `bv_decide` (through `shift_congr`, which keeps the recursive call and `List.set` folded and compares
  their arguments; the limbs read by a round are opaque words to the decision procedure).  So renaming locals, splitting or
  merging `let`s and equivalent rewrites of the word arithmetic of a round still check, while a changed index, a dropped
  carry, a wrong shift amount make a round lemma fail.  The inductions over the limb count that use these rounds are in
  CB/Lemmas/GenShifts.lean (no `bv_decide`).  Independent of CB/Gen/Chains.lean and CB/Gen/DivLimb.lean on purpose: a change
  in the add/sub/division source must not break the obligations of C05.

  `bv_decide` file: its name matches `*Bits*`.
-/
import CB.Gen.Shifts
import CB.Lemmas.GenBitsChoice
import CB.Model.Bits
import CB.Lemmas.C05Bits
import Std.Tactic.BVDecide
namespace CB.GenBits
open CB CB.Shift CB.Bits CB.Gen CB.Gen.Shifts

/-- `bv_decide` modulo congruence (the device of GenBitsChains.lean, repeated here so that this file does not depend on
    the translation of the add/sub chains) -/
syntax "shift_congr " num : tactic
macro_rules | `(tactic| shift_congr $n) => do
  match n.getNat with
  | 0 => `(tactic| first | with_reducible rfl | bv_decide | (simp only [gen_defs] <;> (try simp only [BitVec.mul_comm]) <;> bv_decide) | bv_decide)
  | k + 1 =>
    let m := Lean.Syntax.mkNumLit (toString k)
    `(tactic| first | with_reducible rfl | bv_decide | (with_reducible congr 1 <;> shift_congr $m) | (simp only [gen_defs] <;> (try simp only [BitVec.mul_comm]) <;> bv_decide) | bv_decide)

/-- closes what is left of a round lemma after the generated loop has been unfolded once -/
macro "shift_round_eq" : tactic => `(tactic| ((try simp only [gen_defs]) <;> (try simp only [BitVec.mul_comm]) <;> shift_congr 6))

/-! ## `impl Limb`: meanings of the thin word functions -/

/-- `Limb::shl(shift)` / `Limb::shr(shift)` of the source: the word shifted by `shift mod 64` (release semantics) -/
theorem limb_shl_meaning (x : BitVec 64) (s : BitVec 32) : Limb.shl x s = x <<< (s % 64#32) := by
  shift_round_eq
theorem limb_shr_meaning (x : BitVec 64) (s : BitVec 32) : Limb.shr x s = x >>> (s % 64#32) := by
  shift_round_eq
/-- `Limb::shl1`: `(x << 1, top bit)`; the pair is the 65-bit value `2·x` -/
theorem limb_shl1_meaning (x : BitVec 64) :
    Limb.shl1 x = (x <<< 1, x >>> 63) ∧
    ((Limb.shl1 x).2.setWidth 128 <<< 64) ||| (Limb.shl1 x).1.setWidth 128 = x.setWidth 128 <<< 1 := by
  constructor
  · shift_round_eq
  · simp only [gen_defs]; (try simp only [BitVec.mul_comm]); bv_decide
/-- `Limb::shr1`: `(x >> 1, bit 0 moved to the top)` -/
theorem limb_shr1_meaning (x : BitVec 64) :
    Limb.shr1 x = (x >>> 1, x <<< 63) ∧
    ((Limb.shr1 x).1.setWidth 128 <<< 64) ||| (Limb.shr1 x).2.setWidth 128 = x.setWidth 128 <<< 63 := by
  constructor
  · shift_round_eq
  · simp only [gen_defs]; (try simp only [BitVec.mul_comm]); bv_decide
theorem limb_bitor_meaning (x y : BitVec 64) : Limb.bitor x y = x ||| y := by
  shift_round_eq
/-- `Limb::leading_zeros`, `Limb::bits`, `Limb::trailing_zeros`, `Limb::trailing_ones` are the word primitives
    (`u64::leading_zeros` = `BitVec.clz`, `u64::trailing_zeros` = `BitVec.ctz`, `trailing_ones` = `ctz` of the complement) -/
theorem limb_leading_zeros_meaning (x : BitVec 64) : Limb.leading_zeros x = (BitVec.clz x).setWidth 32 := by
  shift_round_eq
theorem limb_bits_meaning (x : BitVec 64) : Limb.bits x = 64#32 - (BitVec.clz x).setWidth 32 := by
  shift_round_eq
theorem limb_trailing_zeros_meaning (x : BitVec 64) : Limb.trailing_zeros x = (BitVec.ctz x).setWidth 32 := by
  shift_round_eq
theorem limb_trailing_ones_meaning (x : BitVec 64) : Limb.trailing_ones x = (BitVec.ctz (~~~x)).setWidth 32 := by
  shift_round_eq

/-! ## word bridges: the `Nat` model of CB/Model/Shift.lean on `toNat`s is the translated word function -/

theorem wshl_bv (x : BitVec 64) (s : Nat) : wshl x.toNat s = (x <<< s).toNat := by
  rw [wshl, BitVec.toNat_shiftLeft, Nat.shiftLeft_eq, B_eq_pow]
theorem wshr_bv (x : BitVec 64) (s : Nat) : wshr x.toNat s = (x >>> s).toNat := by
  rw [wshr, BitVec.toNat_ushiftRight, Nat.shiftRight_eq_div_pow]

theorem mod64_toNat (s : BitVec 32) : (s % 64#32).toNat = s.toNat % 64 := by
  rw [BitVec.toNat_umod]; rfl

/-- `Limb::shl` / `Limb::shr` for a shift below 64 (outside, the model says "panic") -/
theorem limbShl_bridge (x : BitVec 64) (s : BitVec 32) (hs : s.toNat < 64) :
    limbShl x.toNat s.toNat = some (Limb.shl x s).toNat := by
  rw [limb_shl_meaning, limbShl, if_pos hs, BitVec.shiftLeft_eq', mod64_toNat, Nat.mod_eq_of_lt hs, wshl_bv]
theorem limbShr_bridge (x : BitVec 64) (s : BitVec 32) (hs : s.toNat < 64) :
    limbShr x.toNat s.toNat = some (Limb.shr x s).toNat := by
  rw [limb_shr_meaning, limbShr, if_pos hs, BitVec.ushiftRight_eq', mod64_toNat, Nat.mod_eq_of_lt hs, wshr_bv]
theorem limbShl1_bridge (x : BitVec 64) : limbShl1 x.toNat = ((Limb.shl1 x).1.toNat, (Limb.shl1 x).2.toNat) := by
  rw [(limb_shl1_meaning x).1, limbShl1, wshl_bv, wshr_bv]
theorem limbShr1_bridge (x : BitVec 64) : limbShr1 x.toNat = ((Limb.shr1 x).1.toNat, (Limb.shr1 x).2.toNat) := by
  rw [(limb_shr1_meaning x).1, limbShr1, wshl_bv, wshr_bv]

/-- the model's `Word::leading_zeros` is `BitVec.clz` -/
theorem wlz_bv (x : BitVec 64) : wlz x.toNat = (BitVec.clz x).toNat := by
  by_cases h0 : x = 0#64
  · subst h0; decide
  · have hx : x.toNat ≠ 0 := fun h => h0 (BitVec.eq_of_toNat_eq (by simpa using h))
    have hlt : (BitVec.clz x).toNat < 64 := by
      have := (BitVec.clz_lt_iff_ne_zero (x := x)).mpr h0
      simpa [BitVec.lt_def] using this
    have h1 := BitVec.two_pow_sub_clz_le_toNat_of_ne_zero (x := x) (by decide) h0
    have h2 := BitVec.toNat_lt_two_pow_sub_clz (x := x)
    have hl : Nat.log2 x.toNat = 63 - (BitVec.clz x).toNat := by
      rw [Nat.log2_eq_iff hx]
      refine ⟨h1, ?_⟩
      have e : 63 - (BitVec.clz x).toNat + 1 = 64 - (BitVec.clz x).toNat := by omega
      rw [e]; exact h2
    simp only [wlz, bitlen, hx, if_false, hl]
    omega

theorem clz_le_64 (x : BitVec 64) : (BitVec.clz x).toNat ≤ 64 := by
  have := BitVec.clz_le (x := x); simpa [BitVec.le_def] using this

/-- `Limb::leading_zeros` / `Limb::bits` of the source are the model's `wlz` / `limbBits` -/
theorem limbLeadingZeros_bridge (x : BitVec 64) : wlz x.toNat = (Limb.leading_zeros x).toNat := by
  have := clz_le_64 x
  rw [limb_leading_zeros_meaning, BitVec.toNat_setWidth, Nat.mod_eq_of_lt (by omega), wlz_bv]
theorem limbBits_bridge (x : BitVec 64) : limbBits x.toNat = (Limb.bits x).toNat := by
  have h := clz_le_64 x
  have e : (64#32 : BitVec 32).toNat = 64 := rfl
  rw [limb_bits_meaning, limbBits, wlz_bv, BitVec.toNat_sub, BitVec.toNat_setWidth, e,
    Nat.mod_eq_of_lt (by omega : (BitVec.clz x).toNat < 2 ^ 32)]
  omega

/-! ## the `u32` choice helpers used by `shl_limb` -/

theorem fromU32Nonzero_bridge (s : BitVec 32) : fromU32Nonzero s.toNat = (Choice.from_u32_nonzero s).toNat := by
  have hs : s.toNat < TWO32 := s.isLt
  rw [fromU32Nonzero_spec hs, from_u32_nonzero_meaning, ofBool_toNat]
  congr 1
  by_cases h : s = 0#32
  · subst h; rfl
  · have : s.toNat ≠ 0 := fun h0 => h (BitVec.eq_of_toNat_eq (by simpa using h0))
    simp [h, this]

theorem ifTrueWord_bridge (c x : BitVec 64) : ifTrueWord c.toNat x.toNat = (Choice.if_true_word c x).toNat := by
  have e : Choice.if_true_word c x = x &&& c := by simp only [gen_defs] <;> bv_decide
  rw [e, ifTrueWord, BitVec.toNat_and]

theorem ifTrueU32_bridge (c : BitVec 64) (x : BitVec 32) : ifTrueU32 c.toNat x.toNat = (Choice.if_true_u32 c x).toNat := by
  have e : Choice.if_true_u32 c x = x &&& c.setWidth 32 := by simp only [gen_defs] <;> bv_decide
  rw [e, ifTrueU32, BitVec.toNat_and, BitVec.toNat_setWidth]
  rfl

/-! ## `Uint::overflowing_shl1` -/

theorem shl1_loop_zero (L : Nat) (a : List (BitVec 64)) (i : Nat) (ret : List (BitVec 64)) (c : BitVec 64) :
    Uint.overflowing_shl1_loop1 L a 0 i ret c = (ret, c) := by
  rw [Uint.overflowing_shl1_loop1]

theorem shl1_loop_succ (L : Nat) (a : List (BitVec 64)) (n i : Nat) (ret : List (BitVec 64)) (c : BitVec 64) (h : i < L) :
    Uint.overflowing_shl1_loop1 L a (n + 1) i ret c =
      Uint.overflowing_shl1_loop1 L a n (i + 1) (ret.set i ((Limb.shl1 (a.getD i 0#64)).1 ||| c))
        (Limb.shl1 (a.getD i 0#64)).2 := by
  rw [Uint.overflowing_shl1_loop1, if_pos h] <;> shift_round_eq

theorem shl1_eq_loop (L : Nat) (a : List (BitVec 64)) :
    Uint.overflowing_shl1 L a = Uint.overflowing_shl1_loop1 L a L 0 (List.replicate L 0#64) 0#64 := by
  shift_round_eq

/-! ## `Uint::shr1_with_carry`, `Uint::shr1` -/

theorem shr1_loop_zero (L : Nat) (a : List (BitVec 64)) (ret : List (BitVec 64)) (c : BitVec 64) :
    Uint.shr1_with_carry_loop1 L a 0 ret c = (ret, c) := by
  rw [Uint.shr1_with_carry_loop1]

theorem shr1_loop_succ (L : Nat) (a : List (BitVec 64)) (n : Nat) (ret : List (BitVec 64)) (c : BitVec 64) :
    Uint.shr1_with_carry_loop1 L a (n + 1) ret c =
      Uint.shr1_with_carry_loop1 L a n (ret.set n ((Limb.shr1 (a.getD n 0#64)).1 ||| c)) (Limb.shr1 (a.getD n 0#64)).2 := by
  rw [Uint.shr1_with_carry_loop1] <;> shift_round_eq

theorem shr1_with_carry_eq_loop (L : Nat) (a : List (BitVec 64)) :
    Uint.shr1_with_carry L a =
      ((Uint.shr1_with_carry_loop1 L a L (List.replicate L 0#64) 0#64).1,
       Choice.from_word_lsb ((Uint.shr1_with_carry_loop1 L a L (List.replicate L 0#64) 0#64).2 >>> 63)) := by
  shift_round_eq

theorem shr1_eq (L : Nat) (a : List (BitVec 64)) : Uint.shr1 L a = (Uint.shr1_with_carry L a).1 := by
  shift_round_eq

/-- `ConstChoice::from_word_lsb` of the source on a word is the model's `fromWordLsb` (as in GenBitsChains.lean) -/
theorem fromWordLsb_bridge' (x : BitVec 64) : fromWordLsb x.toNat = (Choice.from_word_lsb x).toNat := by
  have e : Choice.from_word_lsb x = -x := by simp only [gen_defs] <;> bv_decide
  rw [e, fromWordLsb, wneg_bv]

/-! ## `Uint::shl_limb` -/

theorem shl_limb_loop_zero (L : Nat) (a : List (BitVec 64)) (nz : BitVec 64) (ls rs : BitVec 32) (i : Nat)
    (limbs : List (BitVec 64)) : Uint.shl_limb_loop1 L a nz ls rs 0 i limbs = limbs := by
  rw [Uint.shl_limb_loop1]

theorem shl_limb_loop_succ (L : Nat) (a : List (BitVec 64)) (nz : BitVec 64) (ls rs : BitVec 32) (n i : Nat)
    (limbs : List (BitVec 64)) (h : i < L) :
    Uint.shl_limb_loop1 L a nz ls rs (n + 1) i limbs =
      Uint.shl_limb_loop1 L a nz ls rs n (i + 1)
        (limbs.set i (((a.getD i 0#64) <<< (ls % 64#32)) ||| Choice.if_true_word nz ((a.getD (i - 1) 0#64) >>> (rs % 64#32)))) := by
  rw [Uint.shl_limb_loop1, if_pos h] <;> shift_round_eq

theorem shl_limb_eq_loop (L : Nat) (a : List (BitVec 64)) (s : BitVec 32) :
    Uint.shl_limb L a s =
      (Uint.shl_limb_loop1 L a (Choice.from_u32_nonzero s) s (Choice.if_true_u32 (Choice.from_u32_nonzero s) (64#32 - s))
          (L - 1) 1 ((List.replicate L 0#64).set 0 ((a.getD 0 0#64) <<< (s % 64#32))),
       Choice.if_true_word (Choice.from_u32_nonzero s) ((a.getD (L - 1) 0#64) >>> ((64#32 - s) % 64#32))) := by
  shift_round_eq

/-! ## `Uint::overflowing_shl_vartime` (limb move, then the sub-limb carry pass) -/

theorem shlv_loop1_zero (L : Nat) (a : List (BitVec 64)) (k i : Nat) (limbs : List (BitVec 64)) :
    Uint.overflowing_shl_vartime_loop1 L a k 0 i limbs = limbs := by
  rw [Uint.overflowing_shl_vartime_loop1]

theorem shlv_loop1_succ (L : Nat) (a : List (BitVec 64)) (k n i : Nat) (limbs : List (BitVec 64)) (h : i < L) :
    Uint.overflowing_shl_vartime_loop1 L a k (n + 1) i limbs =
      Uint.overflowing_shl_vartime_loop1 L a k n (i + 1) (limbs.set i (a.getD (i - k) 0#64)) := by
  rw [Uint.overflowing_shl_vartime_loop1, if_pos h] <;> shift_round_eq

theorem shlv_loop2_zero (L : Nat) (rem : BitVec 32) (i : Nat) (limbs : List (BitVec 64)) (c : BitVec 64) :
    Uint.overflowing_shl_vartime_loop2 L rem 0 i limbs c = (limbs, c) := by
  rw [Uint.overflowing_shl_vartime_loop2]

theorem shlv_loop2_succ (L : Nat) (rem : BitVec 32) (n i : Nat) (limbs : List (BitVec 64)) (c : BitVec 64) (h : i < L) :
    Uint.overflowing_shl_vartime_loop2 L rem (n + 1) i limbs c =
      Uint.overflowing_shl_vartime_loop2 L rem n (i + 1)
        (limbs.set i (((limbs.getD i 0#64) <<< (rem % 64#32)) ||| c)) ((limbs.getD i 0#64) >>> ((64#32 - rem) % 64#32)) := by
  rw [Uint.overflowing_shl_vartime_loop2, if_pos h] <;> shift_round_eq

/-- the function around the two loops: overflow test, limb count and bit count of the shift, early exit for a whole-limb
    shift; a `ConstCtOption` is the pair (value, is_some mask) -/
theorem shlv_eq (L : Nat) (a : List (BitVec 64)) (s : BitVec 32) :
    Uint.overflowing_shl_vartime L a s =
      if s ≥ BitVec.ofNat 32 (64 * L) then (List.replicate L 0#64, 0#64) else
      if s % 64#32 = 0#32 then
        (Uint.overflowing_shl_vartime_loop1 L a (s / 64#32).toNat (L - (s / 64#32).toNat) (s / 64#32).toNat
          (List.replicate L 0#64), ~~~0#64)
      else
        ((Uint.overflowing_shl_vartime_loop2 L (s % 64#32) (L - (s / 64#32).toNat) (s / 64#32).toNat
          (Uint.overflowing_shl_vartime_loop1 L a (s / 64#32).toNat (L - (s / 64#32).toNat) (s / 64#32).toNat
            (List.replicate L 0#64)) 0#64).1, ~~~0#64) := by
  simp only [Uint.overflowing_shl_vartime, decide_eq_true_eq, beq_iff_eq] <;> shift_congr 8

/-! ## `Uint::overflowing_shr_vartime` -/

theorem shrv_loop1_zero (L : Nat) (a : List (BitVec 64)) (k i : Nat) (limbs : List (BitVec 64)) :
    Uint.overflowing_shr_vartime_loop1 L a k 0 i limbs = limbs := by
  rw [Uint.overflowing_shr_vartime_loop1]

theorem shrv_loop1_succ (L : Nat) (a : List (BitVec 64)) (k n i : Nat) (limbs : List (BitVec 64)) (h : i < L - k) :
    Uint.overflowing_shr_vartime_loop1 L a k (n + 1) i limbs =
      Uint.overflowing_shr_vartime_loop1 L a k n (i + 1) (limbs.set i (a.getD (i + k) 0#64)) := by
  rw [Uint.overflowing_shr_vartime_loop1, if_pos h] <;> shift_round_eq

theorem shrv_loop2_zero (L : Nat) (rem : BitVec 32) (limbs : List (BitVec 64)) (c : BitVec 64) :
    Uint.overflowing_shr_vartime_loop2 L rem 0 limbs c = (limbs, c) := by
  rw [Uint.overflowing_shr_vartime_loop2]

theorem shrv_loop2_succ (L : Nat) (rem : BitVec 32) (n : Nat) (limbs : List (BitVec 64)) (c : BitVec 64) :
    Uint.overflowing_shr_vartime_loop2 L rem (n + 1) limbs c =
      Uint.overflowing_shr_vartime_loop2 L rem n
        (limbs.set n (((limbs.getD n 0#64) >>> (rem % 64#32)) ||| c)) ((limbs.getD n 0#64) <<< ((64#32 - rem) % 64#32)) := by
  rw [Uint.overflowing_shr_vartime_loop2] <;> shift_round_eq

theorem shrv_eq (L : Nat) (a : List (BitVec 64)) (s : BitVec 32) :
    Uint.overflowing_shr_vartime L a s =
      if s ≥ BitVec.ofNat 32 (64 * L) then (List.replicate L 0#64, 0#64) else
      if s % 64#32 = 0#32 then
        (Uint.overflowing_shr_vartime_loop1 L a (s / 64#32).toNat (L - (s / 64#32).toNat) 0 (List.replicate L 0#64), ~~~0#64)
      else
        ((Uint.overflowing_shr_vartime_loop2 L (s % 64#32) (L - (s / 64#32).toNat)
          (Uint.overflowing_shr_vartime_loop1 L a (s / 64#32).toNat (L - (s / 64#32).toNat) 0 (List.replicate L 0#64))
          0#64).1, ~~~0#64) := by
  simp only [Uint.overflowing_shr_vartime, decide_eq_true_eq, beq_iff_eq] <;> shift_congr 8

/-! ## `Limb::select`, `Uint::select` (src/limb/cmp.rs, src/uint/cmp.rs; used by the ladder and by `unwrap_or`) -/

theorem limb_select_meaning (a b c : BitVec 64) : Limb.select a b c = a ^^^ (c &&& (a ^^^ b)) := by
  shift_round_eq

theorem select_loop_zero (L : Nat) (a b : List (BitVec 64)) (c : BitVec 64) (i : Nat) (limbs : List (BitVec 64)) :
    Uint.select_loop1 L a b c 0 i limbs = limbs := by
  rw [Uint.select_loop1]

theorem select_loop_succ (L : Nat) (a b : List (BitVec 64)) (c : BitVec 64) (n i : Nat) (limbs : List (BitVec 64))
    (h : i < L) :
    Uint.select_loop1 L a b c (n + 1) i limbs =
      Uint.select_loop1 L a b c n (i + 1)
        (limbs.set i ((a.getD i 0#64) ^^^ (c &&& ((a.getD i 0#64) ^^^ (b.getD i 0#64))))) := by
  rw [Uint.select_loop1, if_pos h] <;> shift_round_eq

theorem select_eq_loop (L : Nat) (a b : List (BitVec 64)) (c : BitVec 64) :
    Uint.select L a b c = Uint.select_loop1 L a b c L 0 (List.replicate L 0#64) := by
  shift_round_eq

/-! ## the constant-time ladder `Uint::overflowing_shl` / `overflowing_shr` -/

theorem oshl_loop_zero (L : Nat) (sh sb : BitVec 32) (i : Nat) (r : List (BitVec 64)) :
    Uint.overflowing_shl_loop1 L sh sb 0 i r = r := by
  rw [Uint.overflowing_shl_loop1]

/-- one round: select between the running value and its shift by `1 << i`, on bit `i` of the (reduced) shift; the inner
    `.expect(..)` of the source is the value component (that it cannot fail is proved on the model, GenShiftsLadder.lean) -/
theorem oshl_loop_succ (L : Nat) (sh sb : BitVec 32) (n i : Nat) (r : List (BitVec 64)) (h : i < sb.toNat) :
    Uint.overflowing_shl_loop1 L sh sb (n + 1) i r =
      Uint.overflowing_shl_loop1 L sh sb n (i + 1)
        (Uint.select L r (Uint.overflowing_shl_vartime L r (1#32 <<< (i % 32))).1
          (Choice.from_u32_lsb ((sh >>> (i % 32)) &&& 1#32))) := by
  rw [Uint.overflowing_shl_loop1, if_pos h] <;> shift_congr 6

theorem oshl_eq (L : Nat) (a : List (BitVec 64)) (s : BitVec 32) :
    Uint.overflowing_shl L a s =
      (Uint.select L
        (Uint.overflowing_shl_loop1 L (s % BitVec.ofNat 32 (64 * L)) (32#32 - BitVec.clz (BitVec.ofNat 32 (64 * L) - 1#32))
          (32#32 - BitVec.clz (BitVec.ofNat 32 (64 * L) - 1#32)).toNat 0 a)
        (List.replicate L 0#64) (~~~(Choice.from_u32_lt s (BitVec.ofNat 32 (64 * L)))),
       Choice.from_u32_lt s (BitVec.ofNat 32 (64 * L))) := by
  simp only [Uint.overflowing_shl, Choice.not] <;> shift_congr 8

theorem oshr_loop_zero (L : Nat) (sh sb : BitVec 32) (i : Nat) (r : List (BitVec 64)) :
    Uint.overflowing_shr_loop1 L sh sb 0 i r = r := by
  rw [Uint.overflowing_shr_loop1]

theorem oshr_loop_succ (L : Nat) (sh sb : BitVec 32) (n i : Nat) (r : List (BitVec 64)) (h : i < sb.toNat) :
    Uint.overflowing_shr_loop1 L sh sb (n + 1) i r =
      Uint.overflowing_shr_loop1 L sh sb n (i + 1)
        (Uint.select L r (Uint.overflowing_shr_vartime L r (1#32 <<< (i % 32))).1
          (Choice.from_u32_lsb ((sh >>> (i % 32)) &&& 1#32))) := by
  rw [Uint.overflowing_shr_loop1, if_pos h] <;> shift_congr 6

theorem oshr_eq (L : Nat) (a : List (BitVec 64)) (s : BitVec 32) :
    Uint.overflowing_shr L a s =
      (Uint.select L
        (Uint.overflowing_shr_loop1 L (s % BitVec.ofNat 32 (64 * L)) (32#32 - BitVec.clz (BitVec.ofNat 32 (64 * L) - 1#32))
          (32#32 - BitVec.clz (BitVec.ofNat 32 (64 * L) - 1#32)).toNat 0 a)
        (List.replicate L 0#64) (~~~(Choice.from_u32_lt s (BitVec.ofNat 32 (64 * L)))),
       Choice.from_u32_lt s (BitVec.ofNat 32 (64 * L))) := by
  simp only [Uint.overflowing_shr, Choice.not] <;> shift_congr 8

/-! ## the thin wrappers (`expect` = the value, `unwrap_or(def)` = `Uint::select(&def, &value, is_some)`) -/

theorem shl_vartime_eq (L : Nat) (a : List (BitVec 64)) (s : BitVec 32) :
    Uint.shl_vartime L a s = (Uint.overflowing_shl_vartime L a s).1 := by
  simp only [Uint.shl_vartime] <;> shift_congr 4
theorem shr_vartime_eq (L : Nat) (a : List (BitVec 64)) (s : BitVec 32) :
    Uint.shr_vartime L a s = (Uint.overflowing_shr_vartime L a s).1 := by
  simp only [Uint.shr_vartime] <;> shift_congr 4
theorem shl_eq (L : Nat) (a : List (BitVec 64)) (s : BitVec 32) :
    Uint.shl L a s = (Uint.overflowing_shl L a s).1 := by
  simp only [Uint.shl] <;> shift_congr 4
theorem shr_eq (L : Nat) (a : List (BitVec 64)) (s : BitVec 32) :
    Uint.shr L a s = (Uint.overflowing_shr L a s).1 := by
  simp only [Uint.shr] <;> shift_congr 4
theorem wrapping_shl_vartime_eq (L : Nat) (a : List (BitVec 64)) (s : BitVec 32) :
    Uint.wrapping_shl_vartime L a s =
      Uint.select L (List.replicate L 0#64) (Uint.overflowing_shl_vartime L a s).1 (Uint.overflowing_shl_vartime L a s).2 := by
  simp only [Uint.wrapping_shl_vartime] <;> shift_congr 4
theorem wrapping_shr_vartime_eq (L : Nat) (a : List (BitVec 64)) (s : BitVec 32) :
    Uint.wrapping_shr_vartime L a s =
      Uint.select L (List.replicate L 0#64) (Uint.overflowing_shr_vartime L a s).1 (Uint.overflowing_shr_vartime L a s).2 := by
  simp only [Uint.wrapping_shr_vartime] <;> shift_congr 4
theorem wrapping_shl_eq (L : Nat) (a : List (BitVec 64)) (s : BitVec 32) :
    Uint.wrapping_shl L a s =
      Uint.select L (List.replicate L 0#64) (Uint.overflowing_shl L a s).1 (Uint.overflowing_shl L a s).2 := by
  simp only [Uint.wrapping_shl] <;> shift_congr 4
theorem wrapping_shr_eq (L : Nat) (a : List (BitVec 64)) (s : BitVec 32) :
    Uint.wrapping_shr L a s =
      Uint.select L (List.replicate L 0#64) (Uint.overflowing_shr L a s).1 (Uint.overflowing_shr L a s).2 := by
  simp only [Uint.wrapping_shr] <;> shift_congr 4

/-! ## `u32` facts for the ladder -/

/-- `u32::leading_zeros` (`BitVec.clz` at width 32) is the model's `u32lz` -/
theorem u32lz_bv (x : BitVec 32) : u32lz x.toNat = (BitVec.clz x).toNat := by
  by_cases h0 : x = 0#32
  · subst h0; decide
  · have hx : x.toNat ≠ 0 := fun h => h0 (BitVec.eq_of_toNat_eq (by simpa using h))
    have hlt : (BitVec.clz x).toNat < 32 := by
      have := (BitVec.clz_lt_iff_ne_zero (x := x)).mpr h0
      simpa [BitVec.lt_def] using this
    have h1 := BitVec.two_pow_sub_clz_le_toNat_of_ne_zero (x := x) (by decide) h0
    have h2 := BitVec.toNat_lt_two_pow_sub_clz (x := x)
    have hl : Nat.log2 x.toNat = 31 - (BitVec.clz x).toNat := by
      rw [Nat.log2_eq_iff hx]
      refine ⟨h1, ?_⟩
      have e : 31 - (BitVec.clz x).toNat + 1 = 32 - (BitVec.clz x).toNat := by omega
      rw [e]; exact h2
    simp only [u32lz, bitlen, hx, if_false, hl]
    omega

theorem fromU32Lt_bridge (x y : BitVec 32) : fromU32Lt x.toNat y.toNat = (Choice.from_u32_lt x y).toNat := by
  rw [fromU32Lt_spec x.isLt y.isLt, from_u32_lt_meaning, ofBool_toNat]
  simp only [BitVec.lt_def]

theorem fromU32Lsb_bridge (x : BitVec 32) : fromU32Lsb x.toNat = (Choice.from_u32_lsb x).toNat := by
  have e : Choice.from_u32_lsb x = -(x.setWidth 64) := by simp only [gen_defs] <;> bv_decide
  have h : x.toNat < 2 ^ 64 := Nat.lt_trans x.isLt (by decide)
  rw [e, fromU32Lsb, ← wneg_bv, BitVec.toNat_setWidth, Nat.mod_eq_of_lt h]

theorem choiceNot_bridge' (x : BitVec 64) : choiceNot x.toNat = (~~~x).toNat := by
  rw [choiceNot, wnot_bv]

/-! ## the bit queries over a slice `&[Limb]` (src/uint/bits.rs): one round of each loop -/

theorem lz_loop_zero (limbs : List (BitVec 64)) (c : BitVec 32) (ne : BitVec 64) :
    Bits.leading_zeros_loop1 limbs 0 c ne = (c, ne) := by
  rw [Bits.leading_zeros_loop1]

theorem lz_loop_succ (limbs : List (BitVec 64)) (n : Nat) (c : BitVec 32) (ne : BitVec 64) :
    Bits.leading_zeros_loop1 limbs (n + 1) c ne =
      Bits.leading_zeros_loop1 limbs n (c + Choice.if_true_u32 ne (Limb.leading_zeros (limbs.getD n 0#64)))
        (ne &&& ~~~(Choice.from_word_nonzero (limbs.getD n 0#64))) := by
  rw [Bits.leading_zeros_loop1] <;> (simp only [Choice.and, Choice.not] <;> shift_congr 6)

theorem lz_eq (limbs : List (BitVec 64)) :
    Bits.leading_zeros limbs = (Bits.leading_zeros_loop1 limbs limbs.length 0#32 (~~~0#64)).1 := by
  simp only [Bits.leading_zeros] <;> shift_congr 6

theorem tz_loop_zero (limbs : List (BitVec 64)) (i : Nat) (c : BitVec 32) (ne : BitVec 64) :
    Bits.trailing_zeros_loop1 limbs 0 i c ne = (c, ne) := by
  rw [Bits.trailing_zeros_loop1]

theorem tz_loop_succ (limbs : List (BitVec 64)) (n i : Nat) (c : BitVec 32) (ne : BitVec 64) (h : i < limbs.length) :
    Bits.trailing_zeros_loop1 limbs (n + 1) i c ne =
      Bits.trailing_zeros_loop1 limbs n (i + 1) (c + Choice.if_true_u32 ne (Limb.trailing_zeros (limbs.getD i 0#64)))
        (ne &&& ~~~(Choice.from_word_nonzero (limbs.getD i 0#64))) := by
  rw [Bits.trailing_zeros_loop1, if_pos h] <;> (simp only [Choice.and, Choice.not] <;> shift_congr 6)

theorem tz_eq (limbs : List (BitVec 64)) :
    Bits.trailing_zeros limbs = (Bits.trailing_zeros_loop1 limbs limbs.length 0 0#32 (~~~0#64)).1 := by
  simp only [Bits.trailing_zeros] <;> shift_congr 6

theorem to_loop_zero (limbs : List (BitVec 64)) (i : Nat) (c : BitVec 32) (ne : BitVec 64) :
    Bits.trailing_ones_loop1 limbs 0 i c ne = (c, ne) := by
  rw [Bits.trailing_ones_loop1]

theorem to_loop_succ (limbs : List (BitVec 64)) (n i : Nat) (c : BitVec 32) (ne : BitVec 64) (h : i < limbs.length) :
    Bits.trailing_ones_loop1 limbs (n + 1) i c ne =
      Bits.trailing_ones_loop1 limbs n (i + 1) (c + Choice.if_true_u32 ne (Limb.trailing_ones (limbs.getD i 0#64)))
        (ne &&& Choice.from_word_eq (limbs.getD i 0#64) (~~~0#64)) := by
  rw [Bits.trailing_ones_loop1, if_pos h] <;> (simp only [Choice.and] <;> shift_congr 6)

theorem to_eq (limbs : List (BitVec 64)) :
    Bits.trailing_ones limbs = (Bits.trailing_ones_loop1 limbs limbs.length 0 0#32 (~~~0#64)).1 := by
  simp only [Bits.trailing_ones] <;> shift_congr 6

theorem bit_loop_zero (limbs : List (BitVec 64)) (lm : BitVec 32) (im : BitVec 64) (i : Nat) (r : BitVec 64) :
    Bits.bit_loop1 limbs lm im 0 i r = r := by
  rw [Bits.bit_loop1]

theorem bit_loop_succ (limbs : List (BitVec 64)) (lm : BitVec 32) (im : BitVec 64) (n i : Nat) (r : BitVec 64)
    (h : i < limbs.length) :
    Bits.bit_loop1 limbs lm im (n + 1) i r =
      Bits.bit_loop1 limbs lm im n (i + 1)
        (r ||| Choice.if_true_word (Choice.from_u32_eq (BitVec.ofNat 32 i) lm) ((limbs.getD i 0#64) &&& im)) := by
  rw [Bits.bit_loop1, if_pos h] <;> shift_congr 6

theorem bit_eq (limbs : List (BitVec 64)) (idx : BitVec 32) :
    Bits.bit limbs idx =
      Choice.from_word_lsb
        ((Bits.bit_loop1 limbs (idx / 64#32) (1#64 <<< (idx % 64#32)) limbs.length 0 0#64) >>> (idx % 64#32)) := by
  simp only [Bits.bit] <;> shift_congr 8

theorem fromU32Eq_bridge (x y : BitVec 32) : fromU32Eq x.toNat y.toNat = (Choice.from_u32_eq x y).toNat := by
  rw [fromU32Eq_spec x.isLt y.isLt, from_u32_eq_meaning, ofBool_toNat]
  congr 1
  by_cases h : x = y
  · subst h; simp
  · have : x.toNat ≠ y.toNat := fun h0 => h (BitVec.eq_of_toNat_eq h0)
    simp [h, this]

theorem fromWordNonzero_bridge' (x : BitVec 64) : fromWordNonzero x.toNat = (Choice.from_word_nonzero x).toNat :=
  fromWordNonzero_bridge x
theorem fromWordEq_bridge' (x y : BitVec 64) : fromWordEq x.toNat y.toNat = (Choice.from_word_eq x y).toNat :=
  fromWordEq_bridge x y

end CB.GenBits
