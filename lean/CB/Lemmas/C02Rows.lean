/-
  CB.Lemmas.C02Rows — the two inner loops of Knuth's step D4–D6 as written in div.rs
  (multiply-subtract row with `mac`/`sbb`, masked add-back row with `adc`): exact value equations,
  and the combined effect of one quotient digit (`knuthRow`).
-/
import CB.Lemmas.Chains
import CB.Lemmas.C02Div2by1
import CB.Model.Div
import Mathlib.Tactic.Linarith
import Mathlib.Tactic.Ring
import Mathlib.Tactic.LinearCombination
import Mathlib.Tactic.Zify
namespace CB.Div
open CB

theorem mulSubRow_cons (x y quo carry borrow : Nat) (xs ys : List Nat) :
    mulSubRow (x :: xs) (y :: ys) quo carry borrow =
      ((sbb x (mac 0 y quo carry).1 borrow).1 ::
         (mulSubRow xs ys quo (mac 0 y quo carry).2 (sbb x (mac 0 y quo carry).1 borrow).2).1,
       (mulSubRow xs ys quo (mac 0 y quo carry).2 (sbb x (mac 0 y quo carry).1 borrow).2).2.1,
       (mulSubRow xs ys quo (mac 0 y quo carry).2 (sbb x (mac 0 y quo carry).1 borrow).2).2.2) := rfl

theorem addBackRow_cons (x y m carry : Nat) (xs ys : List Nat) :
    addBackRow (x :: xs) (y :: ys) m carry =
      ((adc x (selectWord 0 y m) carry).1 :: (addBackRow xs ys m (adc x (selectWord 0 y m) carry).2).1,
       (addBackRow xs ys m (adc x (selectWord 0 y m) carry).2).2) := rfl

/-- **T02.1a** multiply-subtract row: `x' + quo·y + carry_in + borrow_in = x + Bⁿ·(carry_out + borrow_out)`. -/
theorem mulSubRow_spec {xs ys : List Nat} {quo carry borrow : Nat} (hx : WF xs) (hy : WF ys)
    (hq : quo < B) (hc : carry < B) (hb : borrow < B) (hl : xs.length = ys.length) :
    val (mulSubRow xs ys quo carry borrow).1 + quo * val ys + carry + borrow / HALF =
      val xs + B ^ xs.length * ((mulSubRow xs ys quo carry borrow).2.1 + (mulSubRow xs ys quo carry borrow).2.2 / HALF) ∧
    (mulSubRow xs ys quo carry borrow).2.1 < B ∧ (mulSubRow xs ys quo carry borrow).2.2 < B ∧
    WF (mulSubRow xs ys quo carry borrow).1 ∧ (mulSubRow xs ys quo carry borrow).1.length = xs.length := by
  induction xs generalizing ys carry borrow with
  | nil =>
    cases ys with
    | nil => simp [mulSubRow, hc, hb, WF_nil]
    | cons _ _ => simp at hl
  | cons x xs ih =>
    cases ys with
    | nil => simp at hl
    | cons y ys =>
      have ⟨hx0, hxs⟩ := WF_cons.mp hx
      have ⟨hy0, hys⟩ := WF_cons.mp hy
      have hm := mac_spec (a := 0) (show (0:Nat) < B by decide) hy0 hq hc
      obtain ⟨hm1, hm2, hm3⟩ := hm
      have hs := sbb_spec hx0 hm2 hb
      obtain ⟨hs1, hs2, hs3⟩ := hs
      have hb' : (sbb x (mac 0 y quo carry).1 borrow).2 < B := by
        rcases hs2 with h | h <;> rw [h] <;> decide
      have ⟨i1, i2, i3, i4, i5⟩ := ih (ys := ys) (carry := (mac 0 y quo carry).2)
        (borrow := (sbb x (mac 0 y quo carry).1 borrow).2) hxs hys hm3 hb' (by simpa using hl)
      rw [mulSubRow_cons]
      refine ⟨?_, i2, i3, WF_cons.mpr ⟨hs1, i4⟩, by simp [i5]⟩
      simp only [val_cons, List.length_cons, Nat.pow_succ]
      generalize (mulSubRow xs ys quo (mac 0 y quo carry).2 (sbb x (mac 0 y quo carry).1 borrow).2) = R at *
      generalize (sbb x (mac 0 y quo carry).1 borrow) = S at *
      generalize (mac 0 y quo carry) = M at *
      zify at i1 hm1 hs3 ⊢
      linear_combination (B:ℤ) * i1 - hm1 + hs3

theorem val_map_select_zero {ys : List Nat} (hy : WF ys) :
    ys.map (fun y => selectWord 0 y 0) = List.replicate ys.length 0 := by
  induction ys with
  | nil => rfl
  | cons y ys ih =>
    have ⟨hy0, hys⟩ := WF_cons.mp hy
    simp only [List.map_cons, List.length_cons, List.replicate_succ, ih hys,
      selectWord_zero (show (0:Nat) < B by decide) hy0]

/-- **T02.1b** masked add-back row: `x' + Bⁿ·carry_out = x + (mask ? y : 0) + carry_in`. -/
theorem addBackRow_spec {xs ys : List Nat} {carry : Nat} (p : Bool) (hx : WF xs) (hy : WF ys)
    (hl : xs.length = ys.length) :
    val (addBackRow xs ys (mask p) carry).1 + B ^ xs.length * (addBackRow xs ys (mask p) carry).2 =
      val xs + (if p then val ys else 0) + carry ∧
    WF (addBackRow xs ys (mask p) carry).1 ∧ (addBackRow xs ys (mask p) carry).1.length = xs.length := by
  induction xs generalizing ys carry with
  | nil =>
    cases ys with
    | nil => cases p <;> simp [addBackRow, WF_nil]
    | cons _ _ => simp at hl
  | cons x xs ih =>
    cases ys with
    | nil => simp at hl
    | cons y ys =>
      have ⟨hx0, hxs⟩ := WF_cons.mp hx
      have ⟨hy0, hys⟩ := WF_cons.mp hy
      have hsel : selectWord 0 y (mask p) = if p then y else 0 :=
        selectWord_spec p (show (0:Nat) < B by decide) hy0
      have ha := adc_spec x (selectWord 0 y (mask p)) carry
      have ⟨i1, i2, i3⟩ := ih (ys := ys) (carry := (adc x (selectWord 0 y (mask p)) carry).2) hxs hys (by simpa using hl)
      rw [addBackRow_cons]
      refine ⟨?_, WF_cons.mpr ⟨ha.2, i2⟩, by simp [i3]⟩
      simp only [val_cons, List.length_cons, Nat.pow_succ]
      rw [hsel] at ha i1 ⊢
      obtain ⟨ha1, _⟩ := ha
      generalize (addBackRow xs ys (mask p) (adc x (if p then y else 0) carry).2) = R at *
      generalize (adc x (if p then y else 0) carry) = A at *
      cases p
      · simp only [Bool.false_eq_true, if_false] at *
        zify at i1 ha1 ⊢
        linear_combination (B:ℤ) * i1 + ha1
      · simp only [if_true] at *
        zify at i1 ha1 ⊢
        linear_combination (B:ℤ) * i1 + ha1

theorem mask_HALF (p : Bool) : mask p / HALF = if p then 1 else 0 := by cases p <;> decide

/-- **T02.4 (row part)** one quotient digit: with `W = x_hi·Bⁿ + x` the current window, `Y = y`
    the divisor row, `q` the true digit (`q·Y ≤ W < (q+1)·Y`) and an estimate `quo ∈ {q, q+1}`,
    the multiply-subtract, the borrow test on `x_hi` and the masked add-back leave exactly
    `W − q·Y` in the row, and the mask tells whether the estimate was one too large. -/
theorem knuthRow_spec {xs ys : List Nat} {xHi quo q : Nat} (hx : WF xs) (hy : WF ys)
    (hl : xs.length = ys.length) (hxHi : xHi < B) (hq : quo < B)
    (hlo : q * val ys ≤ val xs + B ^ xs.length * xHi)
    (hhi : val xs + B ^ xs.length * xHi < (q + 1) * val ys)
    (hest : quo = q ∨ quo = q + 1) :
    val (knuthRow xs ys xHi quo).1 + q * val ys = val xs + B ^ xs.length * xHi ∧
    (knuthRow xs ys xHi quo).2 = mask (decide (quo = q + 1)) ∧
    WF (knuthRow xs ys xHi quo).1 ∧ (knuthRow xs ys xHi quo).1.length = xs.length := by
  have ⟨m1, m2, m3, m4, m5⟩ := mulSubRow_spec (carry := 0) (borrow := 0) hx hy hq (by decide) (by decide) hl
  have h0 : (0:Nat) / HALF = 0 := by decide
  simp only [Nat.add_zero, Nat.zero_div] at m1
  have hs := sbb_spec hxHi m2 m3
  obtain ⟨s1, s2, s3⟩ := hs
  have hYlt := val_lt hy
  have hr1lt := val_lt m4
  rw [m5] at hr1lt
  rw [← hl] at hYlt
  rw [knuthRow, knuthBorrow, fromWordMask]
  generalize hR : mulSubRow xs ys quo 0 0 = R at *
  generalize hS : sbb xHi R.2.1 R.2.2 = S at *
  generalize hK : B ^ xs.length = K at *
  have hKpos : 0 < K := by rw [← hK]; exact Nat.pow_pos B_pos
  rcases hest with he | he
  · -- estimate exact: no borrow, nothing added back
    subst he
    have hnb : S.2 = 0 := by
      rcases s2 with h | h
      · exact h
      · exfalso
        rw [h] at s3
        have : WMAX / HALF = 1 := by decide
        rw [this] at s3
        have h1 : xHi + 1 ≤ R.2.1 + R.2.2 / HALF := by omega
        have h2 := Nat.mul_le_mul_left K h1
        rw [Nat.mul_add, Nat.mul_one] at h2
        omega
    have hz : S.2 / HALF = 0 := by rw [hnb]; decide
    rw [hz, Nat.mul_zero, Nat.add_zero] at s3
    have hm : S.2 = mask false := by rw [hnb]; rfl
    rw [hm]
    have ⟨a1, a2, a3⟩ := addBackRow_spec (carry := 0) false m4 hy (by rw [m5, hl])
    simp only [Bool.false_eq_true, if_false, Nat.add_zero] at a1
    rw [m5] at a1 a3
    rw [hK] at a1
    refine ⟨?_, by simp, a2, a3⟩
    -- W - quo·Y = val R.1 + K·(xHi - c - b) and 0 ≤ W - quo·Y < Y < K
    have hdiff : val R.1 + K * xHi = val xs + K * xHi - quo * val ys + K * (R.2.1 + R.2.2 / HALF) := by omega
    have hle : R.2.1 + R.2.2 / HALF ≤ xHi := by omega
    have hlt2 : val xs + K * xHi - quo * val ys < K := by
      rw [Nat.add_mul, Nat.one_mul] at hhi; omega
    have heq : R.2.1 + R.2.2 / HALF = xHi := by
      by_contra hne
      have : R.2.1 + R.2.2 / HALF + 1 ≤ xHi := by omega
      have : K * (R.2.1 + R.2.2 / HALF + 1) ≤ K * xHi := Nat.mul_le_mul_left K this
      rw [Nat.mul_add, Nat.mul_one] at this
      omega
    have haz : (addBackRow R.1 ys (mask false) 0).2 = 0 := by
      by_contra hne
      have : K * 1 ≤ K * (addBackRow R.1 ys (mask false) 0).2 := Nat.mul_le_mul_left K (by omega)
      omega
    rw [haz, Nat.mul_zero, Nat.add_zero] at a1
    rw [a1, ← heq]; omega
  · -- estimate one too large: borrow, add back once
    subst he
    rw [Nat.add_mul, Nat.one_mul] at hhi m1
    have hbr : S.2 = WMAX := by
      rcases s2 with h | h
      · exfalso
        rw [h] at s3
        rw [h0, Nat.mul_zero, Nat.add_zero] at s3
        have : K * (R.2.1 + R.2.2 / HALF) ≤ K * xHi := Nat.mul_le_mul_left K (by omega)
        omega
      · exact h
    have hm : S.2 = mask true := by rw [hbr]; rfl
    rw [hm]
    have ⟨a1, a2, a3⟩ := addBackRow_spec (carry := 0) true m4 hy (by rw [m5, hl])
    simp only [if_true, Nat.add_zero] at a1
    rw [m5] at a1 a3
    rw [hK] at a1
    refine ⟨?_, by simp, a2, a3⟩
    have hone : WMAX / HALF = 1 := by decide
    rw [hbr, hone, Nat.mul_one] at s3
    -- c + b - xHi = 1
    have hge : xHi + 1 ≤ R.2.1 + R.2.2 / HALF := by omega
    have heq : R.2.1 + R.2.2 / HALF = xHi + 1 := by
      by_contra hne
      have : xHi + 2 ≤ R.2.1 + R.2.2 / HALF := by omega
      have : K * (xHi + 2) ≤ K * (R.2.1 + R.2.2 / HALF) := Nat.mul_le_mul_left K this
      rw [Nat.mul_add] at this
      omega
    rw [heq, Nat.mul_add, Nat.mul_one] at m1
    have hc1 : (addBackRow R.1 ys (mask true) 0).2 = 1 := by
      have hle1 : (addBackRow R.1 ys (mask true) 0).2 ≤ 1 := by
        by_contra hne
        have : K * 2 ≤ K * (addBackRow R.1 ys (mask true) 0).2 := Nat.mul_le_mul_left K (by omega)
        omega
      have hra := val_lt a2
      rw [a3, hK] at hra
      by_contra hne
      have : (addBackRow R.1 ys (mask true) 0).2 = 0 := by omega
      rw [this, Nat.mul_zero, Nat.add_zero] at a1
      omega
    rw [hc1, Nat.mul_one] at a1
    dsimp only
    omega

end CB.Div
