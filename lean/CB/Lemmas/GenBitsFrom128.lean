/-
  CB.Lemmas.GenBitsFrom128 — what the translated `Uint::from_u128` says (CB/Gen/Encoding.lean, namespace CB.Gen.Encoding.Uint,
  regenerated from src/uint/from.rs on every run): the two copy loops over the one-limb values `lo = U64::from_u64(n & 0xff..ff)`
  and `hi = U64::from_u64(n >> 64)` write limbs 0 and 1 of a zeroed `LIMBS`-limb array; its `assert!`s (its own
  `LIMBS >= 16 / Limb::BYTES` and those of the two `U64::from_u64` calls at limb count 1) hold exactly when `LIMBS ≥ 2`.
  Then the bridge to the hand-written model `fromU128` of CB/Model/Encoding.lean (the one `Int::from_i128` of C13 goes through),
  for EVERY limb count.  Method: CB/Lemmas/GenBitsChains.lean.

  `bv_decide` file: its name matches `*Bits*`.
-/
import CB.Lemmas.GenEncodingFrom
import CB.Lemmas.GenBitsChains
namespace CB.GenBits
open CB CB.Gen CB.Gen.Encoding CB.Encoding CB.GenChains

/-- `U64::from_u64(x)`: the translated conversion at limb count 1 is the one-limb list -/
theorem from_u64_one (x : BitVec 64) : Uint.from_u64 1 x = [x] := by
  simp only [gen_defs] <;> rfl

/-- the translated `Uint::from_u128`: limb 0 = the low word, limb 1 = the high word of `n`, the rest zero -/
theorem from_u128_eq (L : Nat) (n : BitVec 128) :
    Uint.from_u128 L n = ((List.replicate L 0#64).set 0 (n.setWidth 64)).set 1 ((n >>> 64).setWidth 64) := by
  unfold Uint.from_u128
  simp only [from_u64_one, List.length_cons, List.length_nil, Nat.zero_add, Uint.from_u128_loop1, Uint.from_u128_loop2,
    Nat.lt_add_one, if_true, Nat.add_zero, List.getD_cons_zero]
  all_goals chain_congr 6

/-- the translated `assert!`s of `from_u128` (with those of the two `U64::from_u64` calls): `LIMBS ≥ 2` -/
theorem from_u128_asserts_eq (L : Nat) (n : BitVec 128) : Uint.from_u128_asserts L n = decide (L ≥ 2) := by
  simp [gen_defs]

/-- **`Uint::from_u128`**: the model returns `none` exactly when the translated `assert!`s fail, otherwise the limbs the
    translated body builds -/
theorem from_u128_bridge (L : Nat) (n : BitVec 128) :
    fromU128 L n.toNat = if Uint.from_u128_asserts L n then some (nats (Uint.from_u128 L n)) else none := by
  rw [GenEncoding.fromU128_eq, from_u128_asserts_eq, from_u128_eq]

end CB.GenBits
