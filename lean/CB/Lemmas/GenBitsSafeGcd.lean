/-
  CB.Lemmas.GenBitsSafeGcd — the straight-line part of the word-level core of safegcd, proved about the definitions
  that tools/translate.py regenerates from /repo's current source on every run (CB/Gen/SafeGcd.lean: `iterations`,
  `inv_mod2_62`, the nested `min` of `jump`; src/modular/safegcd.rs, 64-bit configuration).

  Part 1 (meaning, `bv_decide`): `iterations f g` of the source is `(49·max(f,g) + (80 if max < 46 else 57)) / 17` in `u32`
  arithmetic, for ALL pairs of `u32`s; `min` is the signed minimum.
  Part 2 (bridges): the hand-written `Nat` models `CB.SafeGcd.iterations`, `CB.SafeGcd.invMod2_62` ARE the translated
  source functions (`iterations`: on the exact range where the `u32` arithmetic does not wrap).
  (`bv_decide` file: its name matches `*Bits*`.)
-/
import CB.Gen.SafeGcd
import CB.Lemmas.GenBits
import CB.Lemmas.C10Newton
import Std.Tactic.BVDecide
-- the fallback branches of `first | .. | ..` run only after a rewrite of the source
set_option linter.unusedTactic false
set_option linter.unreachableTactic false
namespace CB.GenBits
open CB.Gen

/-! ## `iterations` -/

/-- `iterations` of the source on ALL pairs of `u32`s, in `u32` arithmetic (the `ConstChoice` selects decided) -/
theorem iterations_meaning (f g : BitVec 32) :
    Gen.SafeGcd.iterations f g =
      ((49#32 * (if f < g then g else f) + (if (if f < g then g else f) < 46#32 then 80#32 else 57#32)) / 17#32).setWidth 64 := by
  have hsel : ∀ x y a b : BitVec 32, Choice.select_u32 (Choice.from_u32_lt x y) a b = if x < y then b else a := by
    intro x y a b
    simp only [gen_defs]; bv_decide
  unfold Gen.SafeGcd.iterations
  -- syntactically the canonical form, or: the numerator up to the order of its terms (decided; the division is kept
  -- out of the SAT problem)
  first
    | (simp only [hsel]; done)
    | (simp only [hsel]
       refine congrArg (BitVec.setWidth 64) (congrArg (· / 17#32) ?_)
       generalize (if f < g then g else f) = d
       bv_decide)

/-- largest bit count for which `49·d + 57` still fits a `u32` -/
def iterMax : Nat := 87652392

/-- the model's `iterations` IS the translated source on the exact range where the `u32` arithmetic does not wrap:
    `max(f, g) ≤ 87652392` (`49·87652393 + 57 ≥ 2^32`); the callers pass bit counts `≤ 62·LIMBS` -/
theorem iterations_bridge (f g : BitVec 32) (hf : f.toNat ≤ iterMax) (hg : g.toNat ≤ iterMax) :
    (Gen.SafeGcd.iterations f g).toNat = CB.SafeGcd.iterations f.toNat g.toNat := by
  rw [iterations_meaning]
  unfold iterMax at hf hg
  have hm : (if f < g then g else f).toNat = (if f.toNat < g.toNat then g.toNat else f.toNat) := by
    by_cases h : f < g
    · rw [if_pos h, if_pos (BitVec.lt_def.mp h)]
    · rw [if_neg h, if_neg (fun h' => h (BitVec.lt_def.mpr h'))]
  generalize hd : (if f < g then g else f) = d at hm
  have hdle : d.toNat ≤ 87652392 := by rw [hm]; split <;> omega
  have ha : (if d < 46#32 then 80#32 else 57#32).toNat = (if d.toNat < 46 then 80 else 57) := by
    by_cases h : d < 46#32
    · rw [if_pos h, if_pos (by have := BitVec.lt_def.mp h; simpa using this)]; rfl
    · rw [if_neg h, if_neg (fun h' => h (BitVec.lt_def.mpr (by simpa using h')))]; rfl
  have hlt : 49 * d.toNat + (if d.toNat < 46 then 80 else 57) < 2 ^ 32 := by split <;> omega
  rw [BitVec.toNat_setWidth, BitVec.toNat_udiv, BitVec.toNat_add, BitVec.toNat_mul, ha]
  have e49 : (49#32).toNat = 49 := rfl
  have e17 : (17#32).toNat = 17 := rfl
  rw [e49, e17]
  have h1 : 49 * d.toNat % 2 ^ 32 = 49 * d.toNat := Nat.mod_eq_of_lt (by split at hlt <;> omega)
  rw [h1, Nat.mod_eq_of_lt hlt]
  have h2 : (49 * d.toNat + (if d.toNat < 46 then 80 else 57)) / 17 < 2 ^ 64 := by
    have : (49 * d.toNat + (if d.toNat < 46 then 80 else 57)) / 17 ≤ 49 * d.toNat + (if d.toNat < 46 then 80 else 57) :=
      Nat.div_le_self _ _
    omega
  rw [Nat.mod_eq_of_lt h2, hm]
  rfl

/-- outside that range the `u32` arithmetic of the source wraps: the smallest such bit count -/
theorem iterations_wraps_beyond :
    (Gen.SafeGcd.iterations (BitVec.ofNat 32 (iterMax + 1)) 0#32).toNat ≠ CB.SafeGcd.iterations (iterMax + 1) 0 := by
  decide

/-! ## `min` (the nested `const fn` of `jump`) -/

theorem min_meaning (a b : BitVec 64) : Gen.SafeGcd.min a b = if BitVec.slt b a then b else a := by
  simp only [gen_defs]

/-! ## `inv_mod2_62` -/

private theorem mulU (a b : BitVec 64) : (a * b).toNat = (a.toNat * b.toNat) % CB.SafeGcd.U64 := BitVec.toNat_mul a b
private theorem add1U (a : BitVec 64) : (a + 1#64).toNat = (a.toNat + 1) % CB.SafeGcd.U64 := BitVec.toNat_add a 1#64
private theorem sub1U (a : BitVec 64) : (1#64 - a).toNat = (1 + CB.SafeGcd.U64 - a.toNat) % CB.SafeGcd.U64 := by
  rw [BitVec.toNat_sub]
  have : a.toNat < 2 ^ 64 := a.isLt
  have e1 : (1#64).toNat = 1 := rfl
  rw [e1]
  show (2 ^ 64 - a.toNat + 1) % 2 ^ 64 = (1 + 2 ^ 64 - a.toNat) % 2 ^ 64
  congr 1; omega

/-- the Newton iteration of `inv_mod2_62` on the lowest word, as `u64` operations (canonical form) -/
def invCanon (v : BitVec 64) : BitVec 64 :=
  let x := (v * 3#64) ^^^ 2#64
  let y := 1#64 - x * v
  let x1 := x * (y + 1#64)
  let y1 := y * y
  let x2 := x1 * (y1 + 1#64)
  let y2 := y1 * y1
  let x3 := x2 * (y2 + 1#64)
  let y3 := y2 * y2
  (x3 * (y3 + 1#64)) &&& ((~~~0#64) >>> 2)

/-- `inv_mod2_62` of the source is that iteration on `value[0]` (64-bit configuration), up to the order of the operands
    of the commutative operations (no SAT call: 8 chained 64-bit multipliers) -/
theorem inv_mod2_62_canon (value : List (BitVec 64)) :
    Gen.SafeGcd.inv_mod2_62 value = invCanon (value.getD 0 0#64) := by
  first
    | (simp only [gen_defs, invCanon]; done)
    | (simp only [gen_defs, invCanon]; ac_rfl)

/-- the model's `invMod2_62` IS the translated source (64-bit configuration: the lowest word; `as i64` of a value
    `< 2^62` is the value), on every slice of words -/
theorem inv_mod2_62_bridge (value : List (BitVec 64)) :
    ((Gen.SafeGcd.inv_mod2_62 value).toInt) = CB.SafeGcd.invMod2_62 (value.map BitVec.toNat) := by
  have hhd : (value.map BitVec.toNat).headD 0 = (value.getD 0 0#64).toNat := by
    cases value <;> simp
  rw [inv_mod2_62_canon]
  have hnat : (invCanon (value.getD 0 0#64)).toNat =
      ((CB.SafeGcd.invMod2_62 (value.map BitVec.toNat)).toNat) := by
    unfold CB.SafeGcd.invMod2_62
    simp only [invCanon, hhd, Int.toNat_natCast]
    generalize value.getD 0 0#64 = v
    simp only [BitVec.toNat_and, mulU, add1U, sub1U, BitVec.toNat_xor]
    rfl
  have hlt : (invCanon (value.getD 0 0#64)).toNat < 2 ^ 62 := by
    simp only [invCanon]
    rw [BitVec.toNat_and]
    exact Nat.lt_of_le_of_lt Nat.and_le_right (by decide)
  have hnn : 0 ≤ CB.SafeGcd.invMod2_62 (value.map BitVec.toNat) := by
    unfold CB.SafeGcd.invMod2_62; exact Int.natCast_nonneg _
  rw [BitVec.toInt_eq_toNat_of_lt (by omega), hnat, Int.toNat_of_nonneg hnn]

end CB.GenBits
