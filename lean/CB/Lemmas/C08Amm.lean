/-
  CB.Lemmas.C08Amm — "almost Montgomery multiplication" (src/modular/boxed_monty_form/mul.rs): value equations of
  `add_mul_carry`, `add_mul_carry_and_shift`, the CIOS loop, `conditional_sub`, and the three facts the source
  calls "discovered via randomized tests, not proven".
-/
import CB.Lemmas.C08Inv
namespace CB.Monty
open CB

/-! ### the two limb chains -/

theorem addMulCarry_cons (z x y c : Nat) (zs xs : List Nat) :
    addMulCarry (z :: zs) (x :: xs) y c =
      ((mac z x y c).1 :: (addMulCarry zs xs y (mac z x y c).2).1, (addMulCarry zs xs y (mac z x y c).2).2) := rfl

theorem shiftChain_eq (z x : List Nat) (y c : Nat) : shiftChain z x y c = addMulCarry z x y c := by
  induction z generalizing x c with
  | nil => cases x <;> rfl
  | cons a zs ih =>
    cases x with
    | nil => rfl
    | cons b xs => simp only [shiftChain, addMulCarry, ih]

/-- `add_mul_carry`: `z + x·y + c` exactly, carry is a word. -/
theorem addMulCarry_spec {y : Nat} (hy : y < B) :
    ∀ (z x : List Nat) (c : Nat), WF z → WF x → c < B → z.length = x.length →
      val (addMulCarry z x y c).1 + B ^ z.length * (addMulCarry z x y c).2 = val z + val x * y + c ∧
      WF (addMulCarry z x y c).1 ∧ (addMulCarry z x y c).1.length = z.length ∧
      (addMulCarry z x y c).2 < B := by
  intro z
  induction z with
  | nil =>
    intro x c _ _ hc hl
    cases x with
    | nil => simp [addMulCarry, hc, WF_nil]
    | cons _ _ => simp at hl
  | cons a zs ih =>
    intro x c hz hx hc hl
    cases x with
    | nil => simp at hl
    | cons b xs =>
      have ⟨ha, hzs⟩ := WF_cons.mp hz
      have ⟨hb, hxs⟩ := WF_cons.mp hx
      have ⟨m1, m2, m3⟩ := mac_spec ha hb hy hc
      have ⟨i1, i2, i3, i4⟩ := ih xs (mac a b y c).2 hzs hxs m3 (by simpa using hl)
      rw [addMulCarry_cons]
      refine ⟨?_, WF_cons.mpr ⟨m2, i2⟩, by simp [i3], i4⟩
      simp only [val_cons, List.length_cons, Nat.pow_succ]
      linear_combination m1 + B * i1

/-- `add_mul_carry_and_shift` when the low limb of `z + x·y` vanishes: `B·(shifted + B^(n-1)·carry) = z + x·y`. -/
theorem addMulCarryAndShift_spec {y z0 x0 : Nat} {zt xt : List Nat} (hy : y < B)
    (hz : WF (z0 :: zt)) (hx : WF (x0 :: xt)) (hl : zt.length = xt.length)
    (hlow : (z0 + x0 * y) % B = 0) :
    B * (val (addMulCarryAndShift (z0 :: zt) (x0 :: xt) y).1 +
          B ^ zt.length * (addMulCarryAndShift (z0 :: zt) (x0 :: xt) y).2)
        = val (z0 :: zt) + val (x0 :: xt) * y ∧
    WF (addMulCarryAndShift (z0 :: zt) (x0 :: xt) y).1 ∧
    (addMulCarryAndShift (z0 :: zt) (x0 :: xt) y).1.length = zt.length ∧
    (addMulCarryAndShift (z0 :: zt) (x0 :: xt) y).2 < B := by
  have ⟨hz0, hzt⟩ := WF_cons.mp hz
  have ⟨hx0, hxt⟩ := WF_cons.mp hx
  have ⟨m1, _, m3⟩ := mac_spec hz0 hx0 hy B_pos
  have hlow' : (mac z0 x0 y 0).1 = 0 := by
    have e : (mac z0 x0 y 0).1 = (z0 + x0 * y) % B := by simp only [mac, Nat.add_zero, Nat.mod_mod]
    rw [e, hlow]
  rw [hlow'] at m1
  simp only [addMulCarryAndShift, List.headD_cons, List.tail_cons, shiftChain_eq]
  have ⟨i1, i2, i3, i4⟩ := addMulCarry_spec hy zt xt (mac z0 x0 y 0).2 hzt hxt m3 hl
  refine ⟨?_, i2, i3, i4⟩
  simp only [val_cons]
  linear_combination B * i1 + m1

/-! ### one CIOS iteration -/

theorem overflowingAdd_spec (a b : Nat) :
    (overflowingAdd a b).1 + B * (overflowingAdd a b).2 = a + b ∧ (overflowingAdd a b).1 < B := by
  simp only [overflowingAdd]
  exact ⟨Nat.mod_add_div _ _, Nat.mod_lt _ B_pos⟩

/-- the state invariant of the loop: `Z = z + B^n·ts`, `z` an `n`-limb value, `ts ≤ 1`, `Z < x + m`. -/
structure AmmSt (n X M : Nat) (z : List Nat) (ts : Nat) : Prop where
  wf : WF z
  len : z.length = n
  ts1 : ts ≤ 1
  bound : val z + B ^ n * ts < X + M

theorem ammLoop_nil (x m : List Nat) (k : Nat) (z : List Nat) (ts : Nat) :
    ammLoop x m k [] z ts = (z, ts) := rfl
theorem ammLoop_cons (x m : List Nat) (k y : Nat) (ys z : List Nat) (ts : Nat) :
    ammLoop x m k (y :: ys) z ts = ammLoop x m k ys
      (ammReduce m k (addMulCarry z x y 0).1 (addMulCarry z x y 0).2 ts).1
      (ammReduce m k (addMulCarry z x y 0).1 (addMulCarry z x y 0).2 ts).2 := rfl

/-- the reduction half of an iteration: from `A = z1 + B^n·(ts + c)` to `(A + t·M)/B`. -/
theorem ammReduce_spec {n X k m0 : Nat} {mt z1 : List Nat} {c ts y : Nat}
    (hm0 : m0 < B) (hmt : WF mt) (hk : (k * m0 + 1) % B = 0) (hn : mt.length + 1 = n)
    (hz1 : WF z1) (hl : z1.length = n) (hc : c < B) (hts : ts ≤ 1) (hy : y < B)
    (hX : X < B ^ n) (hM : val (m0 :: mt) < B ^ n)
    (hA : ∃ Z, Z < X + val (m0 :: mt) ∧ val z1 + B ^ n * (ts + c) = Z + X * y) :
    ∃ t, t < B ∧
      (val (ammReduce (m0 :: mt) k z1 c ts).1 + B ^ n * (ammReduce (m0 :: mt) k z1 c ts).2) * B
        = val z1 + B ^ n * (ts + c) + t * val (m0 :: mt) ∧
      AmmSt n X (val (m0 :: mt)) (ammReduce (m0 :: mt) k z1 c ts).1 (ammReduce (m0 :: mt) k z1 c ts).2 := by
  obtain ⟨Z, hZ, hAeq⟩ := hA
  cases z1 with
  | nil => simp at hl; omega
  | cons a zt =>
    have ⟨ha, hzt⟩ := WF_cons.mp hz1
    have hzl : zt.length = mt.length := by simp at hl; omega
    have ht : wmul a k < B := Nat.mod_lt _ B_pos
    have hlow : (a + m0 * wmul a k) % B = 0 := by
      have := lowlimb_cancel ha hm0 hk
      rw [Nat.mul_comm m0, this, Nat.mul_mod_right]
    have ⟨s1, s2, s3, s4⟩ := addMulCarryAndShift_spec (y := wmul a k) ht hz1 (WF_cons.mpr ⟨hm0, hmt⟩) hzl hlow
    have ⟨o1, o2⟩ := overflowingAdd_spec ts c
    have ⟨p1, p2⟩ := overflowingAdd_spec (overflowingAdd ts c).1 (addMulCarryAndShift (a :: zt) (m0 :: mt) (wmul a k)).2
    simp only [ammReduce, List.headD_cons]
    generalize (overflowingAdd ts c).1 = ts' at *
    generalize (overflowingAdd ts c).2 = c2 at *
    generalize (addMulCarryAndShift (a :: zt) (m0 :: mt) (wmul a k)).1 = sh at *
    generalize (addMulCarryAndShift (a :: zt) (m0 :: mt) (wmul a k)).2 = c3 at *
    generalize (overflowingAdd ts' c3).1 = top at *
    generalize (overflowingAdd ts' c3).2 = c4 at *
    have hc2 : c2 ≤ 1 := by simp only [B_def] at *; omega
    have hc4 : c4 ≤ 1 := by simp only [B_def] at *; omega
    have hw : wadd c2 c4 = c2 + c4 := by
      simp only [wadd]; exact Nat.mod_eq_of_lt (by simp only [B_def]; omega)
    rw [hw]
    have hpow : B ^ n = B ^ zt.length * B := by rw [← hn, ← hzl, Nat.pow_succ]
    have hval : val (sh ++ [top]) = val sh + B ^ zt.length * top := by
      rw [val_append, s3]; simp
    have hwf : WF (sh ++ [top]) := WF_append.mpr ⟨s2, WF_cons.mpr ⟨p2, WF_nil⟩⟩
    have hlen : (sh ++ [top]).length = n := by simp [s3, hzl, hn]
    -- the exact step equation
    have hstep : (val (sh ++ [top]) + B ^ n * (c2 + c4)) * B
        = val (a :: zt) + B ^ n * (ts + c) + wmul a k * val (m0 :: mt) := by
      rw [hval, hpow]
      linear_combination s1 + B ^ zt.length * B * p1 + B ^ zt.length * B * o1
    refine ⟨wmul a k, ht, hstep, hwf, hlen, ?_, ?_⟩
    · -- new ts ≤ 1 because the new Z is < X + M < 2·B^n
      have hlt := val_lt hwf
      rw [hlen] at hlt
      have hb : (val (sh ++ [top]) + B ^ n * (c2 + c4)) * B < (X + val (m0 :: mt)) * B := by
        rw [hstep, hAeq]
        have h1 : X * y ≤ X * (B - 1) := Nat.mul_le_mul_left _ (by omega)
        have h2 : wmul a k * val (m0 :: mt) ≤ (B - 1) * val (m0 :: mt) := Nat.mul_le_mul_right _ (by omega)
        have e1 : X * (B - 1) + X = X * B := by
          have : B - 1 + 1 = B := by have := B_pos; omega
          rw [← Nat.mul_succ, Nat.succ_eq_add_one, this]
        have e2 : (B - 1) * val (m0 :: mt) + val (m0 :: mt) = val (m0 :: mt) * B := by
          have : B - 1 + 1 = B := by have := B_pos; omega
          rw [← Nat.succ_mul, Nat.succ_eq_add_one, this, Nat.mul_comm]
        rw [Nat.add_mul]
        omega
      have hb' := Nat.lt_of_mul_lt_mul_right hb
      generalize B ^ n = K at *
      rcases Nat.lt_or_ge (c2 + c4) 2 with h | h
      · omega
      · exfalso
        have : K * 2 ≤ K * (c2 + c4) := Nat.mul_le_mul_left _ h
        omega
    · have hb : (val (sh ++ [top]) + B ^ n * (c2 + c4)) * B < (X + val (m0 :: mt)) * B := by
        rw [hstep, hAeq]
        have h1 : X * y ≤ X * (B - 1) := Nat.mul_le_mul_left _ (by omega)
        have h2 : wmul a k * val (m0 :: mt) ≤ (B - 1) * val (m0 :: mt) := Nat.mul_le_mul_right _ (by omega)
        have e1 : X * (B - 1) + X = X * B := by
          have : B - 1 + 1 = B := by have := B_pos; omega
          rw [← Nat.mul_succ, Nat.succ_eq_add_one, this]
        have e2 : (B - 1) * val (m0 :: mt) + val (m0 :: mt) = val (m0 :: mt) * B := by
          have : B - 1 + 1 = B := by have := B_pos; omega
          rw [← Nat.succ_mul, Nat.succ_eq_add_one, this, Nat.mul_comm]
        rw [Nat.add_mul]
        omega
      exact Nat.lt_of_mul_lt_mul_right hb

/-! ### the loops -/

section
variable {n X k m0 : Nat} {mt x : List Nat}

/-- the CIOS loop over the limbs `ys` of `y`: `Z'·B^|ys| = Z + x·val ys + q·m` with `q < B^|ys|`,
    and the state invariant (`ts ≤ 1`, `Z' < x + m`) is maintained. -/
theorem ammLoop_spec (hm0 : m0 < B) (hmt : WF mt) (hk : (k * m0 + 1) % B = 0) (hn : mt.length + 1 = n)
    (hx : WF x) (hxl : x.length = n) (hX : val x = X) (hM : val (m0 :: mt) < B ^ n) :
    ∀ (ys z : List Nat) (ts : Nat), WF ys → AmmSt n X (val (m0 :: mt)) z ts →
      ∃ q, q < B ^ ys.length ∧
        (val (ammLoop x (m0 :: mt) k ys z ts).1 + B ^ n * (ammLoop x (m0 :: mt) k ys z ts).2) * B ^ ys.length
          = val z + B ^ n * ts + X * val ys + q * val (m0 :: mt) ∧
        AmmSt n X (val (m0 :: mt)) (ammLoop x (m0 :: mt) k ys z ts).1 (ammLoop x (m0 :: mt) k ys z ts).2 := by
  have hXlt : X < B ^ n := by rw [← hX, ← hxl]; exact val_lt hx
  intro ys
  induction ys with
  | nil =>
    intro z ts _ st
    exact ⟨0, by simp, by simp [ammLoop_nil], st⟩
  | cons y ys ih =>
    intro z ts hys st
    have ⟨hy, hys'⟩ := WF_cons.mp hys
    have ⟨a1, a2, a3, a4⟩ := addMulCarry_spec hy z x 0 st.wf hx B_pos (by rw [st.len, hxl])
    rw [st.len, hX, Nat.add_zero] at a1
    rw [st.len] at a3
    have hA : ∃ Z, Z < X + val (m0 :: mt) ∧
        val (addMulCarry z x y 0).1 + B ^ n * (ts + (addMulCarry z x y 0).2) = Z + X * y :=
      ⟨val z + B ^ n * ts, st.bound, by rw [Nat.mul_add]; omega⟩
    have ⟨t, ht, e, st'⟩ := ammReduce_spec (X := X) (y := y) hm0 hmt hk hn a2 a3 a4 st.ts1 hy hXlt hM hA
    rw [ammLoop_cons]
    generalize ammReduce (m0 :: mt) k (addMulCarry z x y 0).1 (addMulCarry z x y 0).2 ts = R at *
    have ⟨q, hq, e2, st2⟩ := ih R.1 R.2 hys' st'
    refine ⟨t + B * q, ?_, ?_, st2⟩
    · simp only [List.length_cons, Nat.pow_succ]
      have : B * (q + 1) ≤ B * B ^ ys.length := Nat.mul_le_mul_left B hq
      rw [Nat.mul_comm (B ^ ys.length) B]
      rw [Nat.mul_add] at this
      omega
    · generalize val (m0 :: mt) = M at *
      simp only [List.length_cons, Nat.pow_succ, val_cons]
      rw [← Nat.mul_assoc, e2]
      have e' : val R.1 * B + B ^ n * R.2 * B
          = val (addMulCarry z x y 0).1 + B ^ n * (ts + (addMulCarry z x y 0).2) + t * M := by
        rw [← e]; ring
      rw [Nat.mul_add] at e'
      linear_combination e' + a1

theorem ammOneLoop_zero (k : Nat) (m : List Nat) (b : Bool) (z : List Nat) (ts : Nat) :
    ammOneLoop x m k 0 b z ts = (z, ts) := rfl
theorem ammOneLoop_succ (k : Nat) (m : List Nat) (fuel : Nat) (b : Bool) (z : List Nat) (ts : Nat) :
    ammOneLoop x m k (fuel + 1) b z ts = ammOneLoop x m k fuel false
      (ammReduce m k (if b then (addMulCarry z x 1 0).1 else z) (if b then (addMulCarry z x 1 0).2 else 0) ts).1
      (ammReduce m k (if b then (addMulCarry z x 1 0).1 else z) (if b then (addMulCarry z x 1 0).2 else 0) ts).2 := rfl

/-- the loop of `almost_montgomery_mul_by_one`: the same with `y = 1` (first iteration) and `0` afterwards. -/
theorem ammOneLoop_spec (hm0 : m0 < B) (hmt : WF mt) (hk : (k * m0 + 1) % B = 0) (hn : mt.length + 1 = n)
    (hx : WF x) (hxl : x.length = n) (hX : val x = X) (hM : val (m0 :: mt) < B ^ n) :
    ∀ (fuel : Nat) (b : Bool) (z : List Nat) (ts : Nat), AmmSt n X (val (m0 :: mt)) z ts →
      ∃ q, q < B ^ fuel ∧
        (val (ammOneLoop x (m0 :: mt) k fuel b z ts).1 + B ^ n * (ammOneLoop x (m0 :: mt) k fuel b z ts).2) * B ^ fuel
          = val z + B ^ n * ts + X * (if b ∧ 0 < fuel then 1 else 0) + q * val (m0 :: mt) ∧
        AmmSt n X (val (m0 :: mt)) (ammOneLoop x (m0 :: mt) k fuel b z ts).1
          (ammOneLoop x (m0 :: mt) k fuel b z ts).2 := by
  have hXlt : X < B ^ n := by rw [← hX, ← hxl]; exact val_lt hx
  have h1 : (1 : Nat) < B := by decide
  intro fuel
  induction fuel with
  | zero =>
    intro b z ts st
    exact ⟨0, by simp, by simp [ammOneLoop_zero], st⟩
  | succ fuel ih =>
    intro b z ts st
    rw [ammOneLoop_succ]
    -- the add_mul_carry phase, as `(z1, c)` with `z1 + B^n·c = z + x·y₀`
    have hphase : ∃ y0, y0 < B ∧ y0 = (if b then 1 else 0) ∧
        val (if b then (addMulCarry z x 1 0).1 else z) + B ^ n * (if b then (addMulCarry z x 1 0).2 else 0)
          = val z + X * y0 ∧
        WF (if b then (addMulCarry z x 1 0).1 else z) ∧ (if b then (addMulCarry z x 1 0).1 else z).length = n ∧
        (if b then (addMulCarry z x 1 0).2 else 0) < B := by
      cases b
      · exact ⟨0, B_pos, rfl, by simp, st.wf, st.len, B_pos⟩
      · have ⟨a1, a2, a3, a4⟩ := addMulCarry_spec h1 z x 0 st.wf hx B_pos (by rw [st.len, hxl])
        rw [st.len, hX, Nat.add_zero] at a1
        rw [st.len] at a3
        exact ⟨1, h1, rfl, a1, a2, a3, a4⟩
    obtain ⟨y0, hy0, hy0e, a1, a2, a3, a4⟩ := hphase
    generalize (if b then (addMulCarry z x 1 0).1 else z) = z1 at *
    generalize (if b then (addMulCarry z x 1 0).2 else 0) = c at *
    have hA : ∃ Z, Z < X + val (m0 :: mt) ∧ val z1 + B ^ n * (ts + c) = Z + X * y0 :=
      ⟨val z + B ^ n * ts, st.bound, by rw [Nat.mul_add]; omega⟩
    have ⟨t, ht, e, st'⟩ := ammReduce_spec (X := X) (y := y0) hm0 hmt hk hn a2 a3 a4 st.ts1 hy0 hXlt hM hA
    generalize ammReduce (m0 :: mt) k z1 c ts = R at *
    have ⟨q, hq, e2, st2⟩ := ih false R.1 R.2 st'
    refine ⟨t + B * q, ?_, ?_, st2⟩
    · simp only [Nat.pow_succ]
      have : B * (q + 1) ≤ B * B ^ fuel := Nat.mul_le_mul_left B hq
      rw [Nat.mul_comm (B ^ fuel) B]
      rw [Nat.mul_add] at this
      omega
    · simp only [Nat.pow_succ]
      rw [← Nat.mul_assoc, e2]
      simp only [Bool.false_eq_true, false_and, if_false, Nat.mul_zero, Nat.add_zero, Nat.zero_lt_succ, and_true]
      have e' : val R.1 * B + B ^ n * R.2 * B = val z1 + B ^ n * (ts + c) + t * val (m0 :: mt) := by
        rw [← e]; ring
      rw [Nat.mul_add] at e'
      rw [← hy0e]
      linear_combination e' + a1

end

/-! ### `conditional_sub` and the whole functions -/

theorem fromWordLsb_zero : fromWordLsb 0 = 0 := by decide
theorem fromWordLsb_one : fromWordLsb 1 = WMAX := by decide

/-- `conditional_sub(z, m, from_word_lsb(ts))` on a loop state: the result is `Z − ts·m`, an `n`-limb value. -/
theorem conditionalSub_spec {n X : Nat} {z ms : List Nat} {ts : Nat} (hn : 0 < n) (hms : WF ms)
    (hml : ms.length = n) (hX : X < B ^ n) (st : AmmSt n X (val ms) z ts) :
    val (conditionalSub z ms (fromWordLsb ts)) + ts * val ms = val z + B ^ n * ts ∧
    WF (conditionalSub z ms (fromWordLsb ts)) ∧ (conditionalSub z ms (fromWordLsb ts)).length = n := by
  have hzlt := val_lt st.wf
  rw [st.len] at hzlt
  have h0 : (0 : Nat) / HALF = 0 := by decide
  have h1 : WMAX / HALF = 1 := by decide
  have hne : z ≠ [] := by
    intro h; have := st.len; rw [h] at this; simp at this; omega
  have hb := st.bound
  simp only [conditionalSub]
  rcases Nat.le_one_iff_eq_zero_or_eq_one.mp st.ts1 with h | h
  · subst h
    rw [fromWordLsb_zero, bitandLimb_zero]
    have hl : z.length = (uzero ms.length).length := by simp [uzero, st.len, hml]
    have ⟨s1, _, s3⟩ := usbb_spec st.wf (uzero_WF ms.length) B_pos hl
    have sw := usbb_WF z (uzero ms.length) 0
    have sl := usbb_length z (uzero ms.length) 0 hl
    have solt := val_lt sw
    rw [sl, st.len] at solt
    simp only [val_uzero, h0, Nat.add_zero, st.len] at s1
    refine ⟨?_, sw, by rw [sl, st.len]⟩
    generalize B ^ n = K at *
    rcases s3 hne with hb' | hb' <;> rw [hb'] at s1
    · rw [h0] at s1; omega
    · rw [h1] at s1; omega
  · subst h
    rw [fromWordLsb_one, bitandLimb_max hms]
    have hl : z.length = ms.length := by rw [st.len, hml]
    have ⟨s1, _, s3⟩ := usbb_spec st.wf hms B_pos hl
    have sw := usbb_WF z ms 0
    have sl := usbb_length z ms 0 hl
    have solt := val_lt sw
    rw [sl, st.len] at solt
    simp only [h0, Nat.add_zero, st.len] at s1
    refine ⟨?_, sw, by rw [sl, st.len]⟩
    generalize B ^ n = K at *
    rcases s3 hne with hb' | hb' <;> rw [hb'] at s1
    · rw [h0] at s1; omega
    · rw [h1] at s1; omega

theorem AmmSt_init {n X M : Nat} (hM : 0 < M) : AmmSt n X M (uzero n) 0 :=
  ⟨uzero_WF n, by simp [uzero], by omega, by rw [val_uzero]; omega⟩

/-- T08.4: `almost_montgomery_mul` for arbitrary (unreduced) `n`-limb `x`, `y`:
    `z·B^n ≡ x·y (mod m)`, `z` is an `n`-limb value and `z·B^n < x·y + B^n·m` (hence
    `⌊z/m⌋ ≤ min(⌊x/m⌋, ⌊y/m⌋) + 1`, see `amm_floor_bound`). -/
theorem amm_spec {x y ms : List Nat} {k : Nat} (hx : WF x) (hy : WF y) (hms : WF ms)
    (hxl : x.length = ms.length) (hyl : y.length = ms.length) (hk : (k * val ms + 1) % B = 0) :
    (val (almostMontgomeryMul x y ms k) * B ^ ms.length) % val ms = (val x * val y) % val ms ∧
    val (almostMontgomeryMul x y ms k) * B ^ ms.length < val x * val y + B ^ ms.length * val ms ∧
    WF (almostMontgomeryMul x y ms k) ∧ (almostMontgomeryMul x y ms k).length = ms.length := by
  cases ms with
  | nil =>
    simp only [val_nil, Nat.mul_zero, Nat.zero_add] at hk
    exact absurd hk (by decide)
  | cons m0 mt =>
    have ⟨hm0, hmt⟩ := WF_cons.mp hms
    have hk0 := negInv_low hk
    have hMlt := val_lt hms
    have hMpos : 0 < val (m0 :: mt) := by
      rcases Nat.eq_zero_or_pos (val (m0 :: mt)) with h | h
      · rw [h, Nat.mul_zero, Nat.zero_add] at hk; exact absurd hk (by decide)
      · exact h
    have hXlt := val_lt hx
    rw [hxl] at hXlt
    generalize hn : (m0 :: mt).length = n at *
    have hn' : mt.length + 1 = n := by simpa using hn
    have ⟨q, hq, e, st⟩ := ammLoop_spec (X := val x) hm0 hmt hk0 hn' hx hxl rfl hMlt y (uzero n) 0 hy
      (AmmSt_init hMpos)
    rw [hyl, val_uzero, Nat.mul_zero, Nat.add_zero, Nat.zero_add] at e
    rw [hyl] at hq
    have ⟨c1, c2, c3⟩ := conditionalSub_spec (by omega) hms hn hXlt st
    simp only [almostMontgomeryMul, hn]
    generalize ammLoop x (m0 :: mt) k y (uzero n) 0 = L at *
    generalize conditionalSub L.1 (m0 :: mt) (fromWordLsb L.2) = A at *
    refine ⟨?_, ?_, c2, c3⟩
    · have e3 : val A * B ^ n + (L.2 * B ^ n) * val (m0 :: mt) = val x * val y + q * val (m0 :: mt) := by
        rw [← e, ← c1]; ring
      have : (val A * B ^ n) % val (m0 :: mt) = (val A * B ^ n + (L.2 * B ^ n) * val (m0 :: mt)) % val (m0 :: mt) :=
        (Nat.add_mul_mod_self_right _ _ _).symm
      rw [this, e3, Nat.add_mul_mod_self_right]
    · have h1 : val A * B ^ n ≤ (val L.1 + B ^ n * L.2) * B ^ n :=
        Nat.mul_le_mul_right _ (by rw [← c1]; exact Nat.le_add_right _ _)
      have h2 : q * val (m0 :: mt) < B ^ n * val (m0 :: mt) := Nat.mul_lt_mul_of_pos_right hq hMpos
      rw [e] at h1
      omega

/-- `almost_montgomery_mul_by_one` for an arbitrary `n`-limb `x`: `z·B^n ≡ x (mod m)` and `z·B^n < x + B^n·m`. -/
theorem ammOne_spec {x ms : List Nat} {k : Nat} (hx : WF x) (hms : WF ms)
    (hxl : x.length = ms.length) (hk : (k * val ms + 1) % B = 0) :
    (val (almostMontgomeryMulByOne x ms k) * B ^ ms.length) % val ms = val x % val ms ∧
    val (almostMontgomeryMulByOne x ms k) * B ^ ms.length < val x + B ^ ms.length * val ms ∧
    WF (almostMontgomeryMulByOne x ms k) ∧ (almostMontgomeryMulByOne x ms k).length = ms.length := by
  cases ms with
  | nil =>
    simp only [val_nil, Nat.mul_zero, Nat.zero_add] at hk
    exact absurd hk (by decide)
  | cons m0 mt =>
    have ⟨hm0, hmt⟩ := WF_cons.mp hms
    have hk0 := negInv_low hk
    have hMlt := val_lt hms
    have hMpos : 0 < val (m0 :: mt) := by
      rcases Nat.eq_zero_or_pos (val (m0 :: mt)) with h | h
      · rw [h, Nat.mul_zero, Nat.zero_add] at hk; exact absurd hk (by decide)
      · exact h
    have hXlt := val_lt hx
    rw [hxl] at hXlt
    generalize hn : (m0 :: mt).length = n at *
    have hn' : mt.length + 1 = n := by simpa using hn
    have ⟨q, hq, e, st⟩ := ammOneLoop_spec (X := val x) hm0 hmt hk0 hn' hx hxl rfl hMlt n true (uzero n) 0
      (AmmSt_init hMpos)
    have hnpos : 0 < n := by omega
    simp only [hnpos, and_self, if_true, val_uzero, Nat.mul_zero, Nat.add_zero, Nat.zero_add, Nat.mul_one] at e
    have ⟨c1, c2, c3⟩ := conditionalSub_spec hnpos hms hn hXlt st
    simp only [almostMontgomeryMulByOne, hn]
    generalize ammOneLoop x (m0 :: mt) k n true (uzero n) 0 = L at *
    generalize conditionalSub L.1 (m0 :: mt) (fromWordLsb L.2) = A at *
    refine ⟨?_, ?_, c2, c3⟩
    · have e3 : val A * B ^ n + (L.2 * B ^ n) * val (m0 :: mt) = val x + q * val (m0 :: mt) := by
        rw [← e, ← c1]; ring
      have : (val A * B ^ n) % val (m0 :: mt) = (val A * B ^ n + (L.2 * B ^ n) * val (m0 :: mt)) % val (m0 :: mt) :=
        (Nat.add_mul_mod_self_right _ _ _).symm
      rw [this, e3, Nat.add_mul_mod_self_right]
    · have h1 : val A * B ^ n ≤ (val L.1 + B ^ n * L.2) * B ^ n :=
        Nat.mul_le_mul_right _ (by rw [← c1]; exact Nat.le_add_right _ _)
      have h2 : q * val (m0 :: mt) < B ^ n * val (m0 :: mt) := Nat.mul_lt_mul_of_pos_right hq hMpos
      rw [e] at h1
      omega

/-! ### consequences used by the history invariant -/

theorem bSubAssign_zero_eq {a p : List Nat} (ha : WF a) (hp : WF p) (hl : a.length = p.length)
    (hne : a ≠ []) : bSubAssignModWithCarry a 0 p p = subModWithCarry a 0 p p := by
  have ⟨_, _, s3⟩ := usbb_spec ha hp B_pos hl
  obtain ⟨b, hb⟩ := borrow_is_mask (s3 hne)
  rw [bSubAssign_unfold, condAdc_fst _ _ p _ rfl]
  simp only [subModWithCarry]
  rw [hb]
  have : nzMask (wnot (wneg 0) &&& mask b) = wnot (wneg 0) &&& mask b := by cases b <;> decide
  rw [this]

/-- a value `A < 2m` with `A·K ≡ T` is brought below `m` by the single `sub_assign_mod_with_carry(0, m, m)`. -/
theorem final_sub_spec {A ms : List Nat} {T : Nat} (hA : WF A) (hms : WF ms) (hl : A.length = ms.length)
    (hlt : val A < 2 * val ms) (hc : (val A * B ^ ms.length) % val ms = T % val ms) (hpos : 0 < val ms) :
    val (bSubAssignModWithCarry A 0 ms ms) < val ms ∧
    (val (bSubAssignModWithCarry A 0 ms ms) * B ^ ms.length) % val ms = T % val ms ∧
    WF (bSubAssignModWithCarry A 0 ms ms) ∧ (bSubAssignModWithCarry A 0 ms ms).length = ms.length := by
  have hne : A ≠ [] := by
    intro h; subst h
    have : ms = [] := List.length_eq_zero_iff.mp hl.symm
    subst this; simp at hpos
  rw [bSubAssign_zero_eq hA hms hl hne]
  have ⟨r1, r2, r3, r4⟩ := subModWithCarry_spec (carry := 0) hA hms hl (by omega)
    (by rw [Nat.mul_zero, Nat.add_zero]; exact hlt)
  rw [Nat.mul_zero, Nat.add_zero] at r1
  refine ⟨r2, ?_, r3, by rw [r4, hl]⟩
  rw [← hc]
  split at r1
  · have : val A = val (subModWithCarry A 0 ms ms) + val ms := by omega
    rw [this, Nat.add_mul, Nat.add_mod, Nat.mul_mod_right, Nat.add_zero, Nat.mod_mod]
  · rw [r1]

/-- T08.4 consequence: boxed `mul`/`square` (AMM followed by ONE conditional subtraction) is canonical as soon
    as one operand is reduced. Discharges `AmmMulOK`. -/
theorem ammMulOK_holds {n m k : Nat} (hm : m < B ^ n) (hk : (k * m + 1) % B = 0) : AmmMulOK n m k := by
  intro a b ha hb hal hbl hab
  have hms : WF (toLimbs n m) := toLimbs_WF _ _
  have hml : (toLimbs n m).length = n := toLimbs_length _ _
  have hmv : val (toLimbs n m) = m := val_toLimbs_lt hm
  have hpos : 0 < m := by
    rcases Nat.eq_zero_or_pos m with h | h
    · rw [h, Nat.mul_zero, Nat.zero_add] at hk; exact absurd hk (by decide)
    · exact h
  have ⟨c, bd, w, l⟩ := @amm_spec a b (toLimbs n m) k ha hb hms (by rw [hal, hml]) (by rw [hbl, hml])
    (by rw [hmv]; exact hk)
  rw [hmv, hml] at c bd
  rw [hml] at l
  have halt := val_lt ha
  have hblt := val_lt hb
  rw [hal] at halt
  rw [hbl] at hblt
  have hK := Bpow_pos n
  -- one operand reduced ⇒ x·y < m·B^n ⇒ A < 2m
  have hprod : val a * val b < B ^ n * m := by
    rcases hab with h | h
    · calc val a * val b ≤ val a * B ^ n := Nat.mul_le_mul_left _ (Nat.le_of_lt hblt)
        _ < m * B ^ n := Nat.mul_lt_mul_of_pos_right h hK
        _ = B ^ n * m := Nat.mul_comm _ _
    · calc val a * val b ≤ B ^ n * val b := Nat.mul_le_mul_right _ (Nat.le_of_lt halt)
        _ < B ^ n * m := Nat.mul_lt_mul_of_pos_left h hK
  have hlt : val (almostMontgomeryMul a b (toLimbs n m) k) < 2 * m := by
    have : val (almostMontgomeryMul a b (toLimbs n m) k) * B ^ n < 2 * m * B ^ n := by
      have : 2 * m * B ^ n = B ^ n * m + B ^ n * m := by ring
      omega
    exact Nat.lt_of_mul_lt_mul_right this
  have := @final_sub_spec (almostMontgomeryMul a b (toLimbs n m) k) (toLimbs n m) (val a * val b) w hms
    (by rw [l, hml]) (by rw [hmv]; exact hlt) (by rw [hmv, hml]; exact c) (by rw [hmv]; exact hpos)
  rw [hmv, hml] at this
  exact this

/-- T08.4 consequence: `mul_by_one` of a reduced value is fully reduced without any subtraction.
    Discharges `AmmOneOK`. -/
theorem ammOneOK_holds {n m k : Nat} (hm : m < B ^ n) (hk : (k * m + 1) % B = 0) : AmmOneOK n m k := by
  intro a ha hal hav
  have hms : WF (toLimbs n m) := toLimbs_WF _ _
  have hml : (toLimbs n m).length = n := toLimbs_length _ _
  have hmv : val (toLimbs n m) = m := val_toLimbs_lt hm
  have ⟨c, bd, w, l⟩ := @ammOne_spec a (toLimbs n m) k ha hms (by rw [hal, hml]) (by rw [hmv]; exact hk)
  rw [hmv, hml] at c bd
  rw [hml] at l
  simp only [bRetrieve]
  refine ⟨?_, c, w, l⟩
  have hK := Bpow_pos n
  have : val (almostMontgomeryMulByOne a (toLimbs n m) k) * B ^ n < m * B ^ n := by
    have h1 : B ^ n * m = m * B ^ n := Nat.mul_comm _ _
    have h2 : m ≤ m * B ^ n := Nat.le_mul_of_pos_right _ hK
    -- A·K < a + K·m with a < m, and A·K ≡ … ; if A ≥ m then A·K ≥ m·K, so a + K·m > m·K forces nothing: use a < m ≤ K
    rcases Nat.lt_or_ge (val (almostMontgomeryMulByOne a (toLimbs n m) k)) m with h | h
    · exact Nat.mul_lt_mul_of_pos_right h hK
    · exfalso
      -- A ≥ m: then (A − m)·K < a < m ≤ … and (A·K − a) is a multiple of m … derive contradiction via congruence
      have hge : m * B ^ n ≤ val (almostMontgomeryMulByOne a (toLimbs n m) k) * B ^ n :=
        Nat.mul_le_mul_right _ h
      -- A·K ≡ a (mod m) and m·K ≡ 0, so A·K − m·K ≡ a; but 0 ≤ A·K − m·K < a < m forces A·K − m·K = a mod m = itself
      have hd : val (almostMontgomeryMulByOne a (toLimbs n m) k) * B ^ n - m * B ^ n < val a := by omega
      have hmod : (val (almostMontgomeryMulByOne a (toLimbs n m) k) * B ^ n - m * B ^ n) % m = val a % m := by
        have : val (almostMontgomeryMulByOne a (toLimbs n m) k) * B ^ n
            = (val (almostMontgomeryMulByOne a (toLimbs n m) k) * B ^ n - m * B ^ n) + B ^ n * m := by omega
        rw [this, Nat.add_mul_mod_self_right] at c
        exact c
      rw [Nat.mod_eq_of_lt (by omega), Nat.mod_eq_of_lt hav] at hmod
      omega
  exact Nat.lt_of_mul_lt_mul_right this

/-- the property the source states as "discovered via randomized tests": with `f(v) = ⌊v/m⌋`,
    `f(AMM(x, y)) ≤ min(f(x), f(y)) + 1` for arbitrary `n`-limb `x`, `y`. -/
theorem amm_floor_bound {x y ms : List Nat} {k : Nat} (hx : WF x) (hy : WF y) (hms : WF ms)
    (hxl : x.length = ms.length) (hyl : y.length = ms.length) (hk : (k * val ms + 1) % B = 0) :
    val (almostMontgomeryMul x y ms k) / val ms ≤ min (val x / val ms) (val y / val ms) + 1 := by
  have ⟨_, bd, _, _⟩ := amm_spec hx hy hms hxl hyl hk
  have hpos : 0 < val ms := by
    rcases Nat.eq_zero_or_pos (val ms) with h | h
    · rw [h, Nat.mul_zero, Nat.zero_add] at hk; exact absurd hk (by decide)
    · exact h
  have hK := Bpow_pos ms.length
  have hxlt := val_lt hx
  have hylt := val_lt hy
  rw [hxl] at hxlt
  rw [hyl] at hylt
  generalize val (almostMontgomeryMul x y ms k) = A at *
  generalize val ms = M at *
  generalize B ^ ms.length = K at *
  generalize val x = X at *
  generalize val y = Y at *
  -- generic: if V < (j+1)·M and W < K then A·K < W·V + K·M gives A < (j+2)·M
  have key : ∀ V W : Nat, W < K → A * K < W * V + K * M → A / M ≤ V / M + 1 := by
    intro V W hW hb
    have hV : V < (V / M + 1) * M := by
      have := Nat.div_add_mod V M
      have := Nat.mod_lt V hpos
      rw [Nat.add_mul, Nat.one_mul, Nat.mul_comm]; omega
    have h1 : W * V ≤ K * V := Nat.mul_le_mul_right _ (Nat.le_of_lt hW)
    have h2 : K * V < K * ((V / M + 1) * M) := Nat.mul_lt_mul_of_pos_left hV hK
    have h3 : A * K < ((V / M + 2) * M) * K := by
      have : ((V / M + 2) * M) * K = K * ((V / M + 1) * M) + K * M := by ring
      omega
    have h4 : A < (V / M + 2) * M := Nat.lt_of_mul_lt_mul_right h3
    exact Nat.le_of_lt_succ ((Nat.div_lt_iff_lt_mul hpos).mpr h4)
  have k1 := key Y X hxlt bd
  have k2 := key X Y hylt (by rw [Nat.mul_comm Y X]; exact bd)
  omega

end CB.Monty
