/-
  CB.Lemmas.C13Resize — `Int::resize` (sign extension / truncation) and the conversions from primitives.
-/
import CB.Lemmas.C13Int
set_option linter.unusedVariables false
namespace CB.SInt
open CB

theorem val_append (l r : List Nat) : val (l ++ r) = val l + B ^ l.length * val r := by
  induction l with
  | nil => simp
  | cons x xs ih =>
    simp only [List.cons_append, val_cons, List.length_cons, ih, Nat.pow_succ]
    ring

theorem WF_append {l r : List Nat} (hl : WF l) (hr : WF r) : WF (l ++ r) := by
  intro x hx
  rcases List.mem_append.mp hx with h | h
  · exact hl x h
  · exact hr x h

theorem WF_take {l : List Nat} (h : WF l) (t : Nat) : WF (l.take t) :=
  fun x hx => h x (List.mem_of_mem_take hx)

theorem val_take {l : List Nat} (h : WF l) (t : Nat) : val (l.take t) = val l % B ^ t := by
  induction l generalizing t with
  | nil => simp
  | cons x xs ih =>
    have ⟨hx, hxs⟩ := WF_cons.mp h
    cases t with
    | zero => simp [Nat.mod_one]
    | succ t =>
      simp only [List.take_succ_cons, val_cons, ih hxs, Nat.pow_succ]
      rw [Nat.mul_comm (B ^ t) B, Nat.mod_mul, Nat.add_mul_mod_self_left, Nat.mod_eq_of_lt hx,
        Nat.add_mul_div_left _ _ B_pos, Nat.div_eq_of_lt hx, Nat.zero_add]

theorem val_replicate_fill (k : Nat) (p : Bool) :
    WF (List.replicate k (if p then WMAX else 0)) ∧
    val (List.replicate k (if p then WMAX else 0)) = (if p then B ^ k - 1 else 0) := by
  cases p
  · exact ⟨uzero_WF k, val_uzero k⟩
  · refine ⟨umax_WF k, ?_⟩
    have := val_umax k
    simp only [if_true]
    show val (umax k) = _
    omega

/-- `Int::resize`: the value modulo `2^(64·T)` re-signed — sign extension when widening (the value is
    kept), truncation when narrowing. -/
theorem resize_spec {a : List Nat} (ha : WF a) (t : Nat) :
    WF (iResize a t) ∧ (iResize a t).length = t ∧ toInt (iResize a t) = wrapS t (toInt a) := by
  have hv := val_lt ha
  have hneg := isNegative_spec ha
  have hfill : selectWord 0 WMAX (isNegative a) =
      if decide (B ^ a.length ≤ 2 * val a) then WMAX else 0 := by
    rw [hneg, selectWord_spec _ (by decide) (by decide)]
  by_cases hlt : t < a.length
  · -- truncation
    have e : iResize a t = a.take t ++ List.replicate 0 (selectWord 0 WMAX (isNegative a)) := by
      unfold iResize; simp only [hlt, if_true, Nat.sub_self]
    rw [e, List.replicate_zero, List.append_nil]
    have hw := WF_take ha t
    have hl : (a.take t).length = t := by rw [List.length_take]; omega
    refine ⟨hw, hl, ?_⟩
    rw [toInt_eq_wrapS hw, hl, val_take ha t]
    have hsplit : B ^ a.length = B ^ t * B ^ (a.length - t) := Bpow_mono (Nat.le_of_lt hlt)
    have hdm := Nat.mod_add_div (val a) (B ^ t)
    have h1 : ((val a % B ^ t : Nat) : Int) =
        (val a : Int) + ((B ^ t : Nat) : Int) * (-((val a / B ^ t : Nat) : Int)) := by
      have : ((val a % B ^ t + B ^ t * (val a / B ^ t) : Nat) : Int) = (val a : Int) := by rw [hdm]
      push_cast at this ⊢
      linarith
    rw [h1, wrapS_add_mul]
    rcases toInt_cases a with ⟨_, h2⟩ | ⟨_, h2⟩
    · rw [h2, hsplit]
      have : (val a : Int) - ((B ^ t * B ^ (a.length - t) : Nat) : Int) =
          (val a : Int) + ((B ^ t : Nat) : Int) * (-((B ^ (a.length - t) : Nat) : Int)) := by
        push_cast; ring
      rw [this, wrapS_add_mul]
    · rw [h2]
  · -- sign extension
    have hle : a.length ≤ t := Nat.le_of_not_lt hlt
    have e : iResize a t = a ++ List.replicate (t - a.length) (selectWord 0 WMAX (isNegative a)) := by
      unfold iResize; simp only [hlt, if_false, List.take_length]
    obtain ⟨f1, f2⟩ := val_replicate_fill (t - a.length) (decide (B ^ a.length ≤ 2 * val a))
    rw [e, hfill]
    have hw := WF_append ha f1
    have hl : (a ++ List.replicate (t - a.length) (if decide (B ^ a.length ≤ 2 * val a) then WMAX else 0)).length = t := by
      rw [List.length_append, List.length_replicate]; omega
    refine ⟨hw, hl, ?_⟩
    rw [toInt_eq_wrapS hw, hl, val_append, f2]
    have hsplit : B ^ t = B ^ a.length * B ^ (t - a.length) := Bpow_mono hle
    have hpos := Bpow_pos' (t - a.length)
    rcases toInt_cases a with ⟨c, h2⟩ | ⟨c, h2⟩
    · simp only [c, decide_true, if_true]
      rw [h2]
      have : ((val a + B ^ a.length * (B ^ (t - a.length) - 1) : Nat) : Int) =
          ((val a : Int) - ((B ^ a.length : Nat) : Int)) + ((B ^ t : Nat) : Int) * 1 := by
        rw [hsplit]
        push_cast [Nat.cast_sub hpos]
        ring
      rw [this, wrapS_add_mul]
    · have c' : ¬ (B ^ a.length ≤ 2 * val a) := by omega
      simp only [c', decide_false, Bool.false_eq_true, if_false, Nat.mul_zero, Nat.add_zero]
      rw [h2]

/-- widening (or same width) keeps the value -/
theorem resize_widen {a : List Nat} (ha : WF a) {t : Nat} (hle : a.length ≤ t) :
    toInt (iResize a t) = toInt a := by
  rw [(resize_spec ha t).2.2]
  apply wrapS_of_inRange
  have h := toInt_inRange ha
  have hB : B ^ a.length ≤ B ^ t := Nat.pow_le_pow_right B_pos hle
  unfold InRange at *
  omega

/-- the signed reading of a `k`-bit pattern -/
def sprim (k x : Nat) : Int := if 2 ^ (k - 1) ≤ x then (x : Int) - ((2 ^ k : Nat) : Int) else (x : Int)

/-- `Int::from_i8 / i16 / i32 / i64`: the primitive's value, for every `LIMBS ≥ 1` -/
theorem fromPrim_spec {k x n : Nat} (hk : 0 < k) (hk64 : k ≤ 64) (hx : x < 2 ^ k) (hn : 0 < n) :
    toInt (iFromPrim k x n) = sprim k x ∧ (iFromPrim k x n).length = n := by
  have hK : 2 ^ k ≤ B := by rw [B_eq_pow]; exact Nat.pow_le_pow_right (by decide) hk64
  have hK2 : 2 ^ k = 2 * 2 ^ (k - 1) := by
    rw [← Nat.pow_succ']; congr 1; omega
  have hw : sextWord k x < B := by
    unfold sextWord; simp only [Nat.mod_eq_of_lt hx]; split <;> omega
  have hwf : WF [sextWord k x] := WF_cons.mpr ⟨hw, WF_nil⟩
  have e : iFromPrim k x n = iResize [sextWord k x] n := rfl
  rw [e]
  refine ⟨?_, (resize_spec hwf n).2.1⟩
  rw [resize_widen hwf (by simp only [List.length_cons, List.length_nil]; omega)]
  unfold sprim
  have hval : val [sextWord k x] = sextWord k x := by simp
  rcases toInt_cases [sextWord k x] with ⟨c, h2⟩ | ⟨c, h2⟩ <;>
    rw [h2, hval] <;> rw [hval] at c <;>
    simp only [List.length_cons, List.length_nil, Nat.zero_add, Nat.pow_one] at c ⊢ <;>
    unfold sextWord at c ⊢ <;> simp only [Nat.mod_eq_of_lt hx] at c ⊢ <;>
    generalize 2 ^ (k - 1) = K' at * <;> generalize 2 ^ k = K at * <;>
    split at c <;> simp only [*, if_true, if_false] <;> omega

/-- `Int::from_i128`: the primitive's value, for every `LIMBS ≥ 2` -/
theorem fromI128_spec {x n : Nat} (hx : x < 2 ^ 128) (hn : 2 ≤ n) :
    toInt (iFromI128 x n) = sprim 128 x ∧ (iFromI128 x n).length = n := by
  have hB2 : B ^ 2 = 2 ^ 128 := by decide
  have hwf : WF (toLimbs 2 x) := toLimbs_WF 2 x
  have hl : (toLimbs 2 x).length = 2 := toLimbs_length 2 x
  have hv : val (toLimbs 2 x) = x := by rw [val_toLimbs, hB2, Nat.mod_eq_of_lt hx]
  have e : iFromI128 x n = iResize (toLimbs 2 x) n := rfl
  rw [e]
  refine ⟨?_, (resize_spec hwf n).2.1⟩
  rw [resize_widen hwf (by rw [hl]; exact hn)]
  unfold sprim
  have h127 : (2 : Nat) ^ (128 - 1) * 2 = 2 ^ 128 := by decide
  rcases toInt_cases (toLimbs 2 x) with ⟨c, h2⟩ | ⟨c, h2⟩ <;> rw [h2, hv] <;> rw [hl, hv, hB2] at c
  · rw [if_pos (by omega), hl, hB2]
  · rw [if_neg (by omega)]

end CB.SInt
