/-
  CB.Lemmas.C14Div — helper lemmas of property C14: magnitudes and signs of the operands, the unsigned
  division at value level, `Int.tdiv/tmod` and `Int.fdiv/fmod` through magnitudes.
-/
import CB.Lemmas.C13Int
import CB.Model.IntDiv
set_option linter.unusedVariables false
namespace CB.IntDiv
open CB CB.SInt

/-- the unsigned division at value level (`Uint::div_rem(_vartime)`, exactness = C02) -/
theorem uDivRem_spec {n d : List Nat} (hn : WF n) (hd : WF d) (hd0 : val d ≠ 0) :
    WF (uDivRem n d).1 ∧ (uDivRem n d).1.length = n.length ∧ val (uDivRem n d).1 = val n / val d ∧
    WF (uDivRem n d).2 ∧ (uDivRem n d).2.length = d.length ∧ val (uDivRem n d).2 = val n % val d := by
  have h1 : val n / val d < B ^ n.length := Nat.lt_of_le_of_lt (Nat.div_le_self _ _) (val_lt hn)
  have h2 : val n % val d < B ^ d.length :=
    Nat.lt_trans (Nat.mod_lt _ (Nat.pos_of_ne_zero hd0)) (val_lt hd)
  obtain ⟨a1, a2, a3⟩ := toLimbs_small h1
  obtain ⟨b1, b2, b3⟩ := toLimbs_small h2
  exact ⟨a1, a2, a3, b1, b2, b3⟩

/-- truncating division through magnitudes -/
theorem tdiv_tmod_mag {A D : Int} {an dn : Nat}
    (hA : (A < 0 ∧ A = -(an : Int)) ∨ (0 ≤ A ∧ A = (an : Int)))
    (hD : (D < 0 ∧ D = -(dn : Int)) ∨ (0 ≤ D ∧ D = (dn : Int))) :
    Int.tdiv A D = (if ¬(A < 0 ↔ D < 0) then -((an / dn : Nat) : Int) else ((an / dn : Nat) : Int)) ∧
    Int.tmod A D = (if A < 0 then -((an % dn : Nat) : Int) else ((an % dn : Nat) : Int)) := by
  rcases hA with ⟨ca, ea⟩ | ⟨ca, ea⟩ <;> rcases hD with ⟨cd, ed⟩ | ⟨cd, ed⟩
  · have hc : (A < 0 ↔ D < 0) := ⟨fun _ => cd, fun _ => ca⟩
    rw [if_neg (not_not.mpr hc), if_pos ca, ea, ed, Int.neg_tdiv, Int.tdiv_neg, Int.neg_tmod, Int.tmod_neg,
      ← Int.ofNat_tdiv, ← Int.ofNat_tmod]
    exact ⟨by ring, rfl⟩
  · have hc : ¬(A < 0 ↔ D < 0) := fun h => absurd (h.mp ca) (by omega)
    rw [if_pos hc, if_pos ca, ea, ed, Int.neg_tdiv, Int.neg_tmod, ← Int.ofNat_tdiv, ← Int.ofNat_tmod]
    exact ⟨rfl, rfl⟩
  · have hc : ¬(A < 0 ↔ D < 0) := fun h => absurd (h.mpr cd) (by omega)
    rw [if_pos hc, if_neg (by omega), ea, ed, Int.tdiv_neg, Int.tmod_neg, ← Int.ofNat_tdiv, ← Int.ofNat_tmod]
    exact ⟨rfl, rfl⟩
  · have hc : (A < 0 ↔ D < 0) := ⟨fun h => by omega, fun h => by omega⟩
    rw [if_neg (not_not.mpr hc), if_neg (by omega), ea, ed, ← Int.ofNat_tdiv, ← Int.ofNat_tmod]
    exact ⟨rfl, rfl⟩

theorem mag_ne_zero {d : List Nat} (hd : WF d) (hd0 : toInt d ≠ 0) : val (absSign d).1 ≠ 0 := by
  obtain ⟨_, _, _, c, _, _⟩ := mag_view hd
  rcases c with ⟨_, e⟩ | ⟨_, e⟩ <;> omega

/-- `Int::checked_div_rem(_vartime)` -/
theorem checkedDivRem_spec {n d : List Nat} (hn : WF n) (hd : WF d) (hne : n ≠ []) (hd0 : toInt d ≠ 0) :
    (iCheckedDivRem n d).1.2 = mask (decide (InRange n.length (Int.tdiv (toInt n) (toInt d)))) ∧
    toInt (iCheckedDivRem n d).1.1 = wrapS n.length (Int.tdiv (toInt n) (toInt d)) ∧
    toInt (iCheckedDivRem n d).2 = Int.tmod (toInt n) (toInt d) := by
  obtain ⟨wn, ln, sn, cA, bA, _⟩ := mag_view hn
  obtain ⟨wd, ld, sd, cD, bD, _⟩ := mag_view hd
  have hdn0 := mag_ne_zero hd hd0
  obtain ⟨q1, q2, q3, r1, r2, r3⟩ := uDivRem_spec wn wd hdn0
  obtain ⟨t1, t2⟩ := tdiv_tmod_mag cA cD
  have qne : (uDivRem (absSign n).1 (absSign d).1).1 ≠ [] := by
    intro h; rw [h] at q2; simp at q2; exact hne (List.length_eq_zero_iff.mp (by omega))
  have e1 : (iCheckedDivRem n d).1 = newFromAbsSign (uDivRem (absSign n).1 (absSign d).1).1
      (cne (absSign n).2 (absSign d).2) := rfl
  have e2 : (iCheckedDivRem n d).2 = wrappingNegIf (uDivRem (absSign n).1 (absSign d).1).2 (absSign n).2 := rfl
  rw [e1, e2, sn, sd, cne_dec]
  obtain ⟨f1, f2⟩ := newFromAbsSign_spec (decide (¬(toInt n < 0 ↔ toInt d < 0))) q1 qne
  rw [q2, ln, q3] at f1 f2
  have hx : (if decide (¬(toInt n < 0 ↔ toInt d < 0)) = true then
      -((val (absSign n).1 / val (absSign d).1 : Nat) : Int)
      else ((val (absSign n).1 / val (absSign d).1 : Nat) : Int)) = Int.tdiv (toInt n) (toInt d) := by
    rw [t1]; by_cases hc : (toInt n < 0 ↔ toInt d < 0) <;> simp [hc]
  rw [hx] at f1 f2
  refine ⟨f1, f2, ?_⟩
  have hsmall : 2 * val (uDivRem (absSign n).1 (absSign d).1).2 <
      B ^ (uDivRem (absSign n).1 (absSign d).1).2.length := by
    rw [r2, r3, ld]
    have := Nat.mod_lt (val (absSign n).1) (Nat.pos_of_ne_zero hdn0)
    omega
  rw [negIf_small _ r1 hsmall, r3, t2]
  by_cases hc : toInt n < 0 <;> simp [hc]

theorem natAbs_view (A : Int) :
    (A < 0 ∧ A = -((A.natAbs : Nat) : Int)) ∨ (0 ≤ A ∧ A = ((A.natAbs : Nat) : Int)) := by omega

/-- what "truncating division" means: identity, remainder bound, remainder sign -/
theorem tdiv_tmod_facts (A D : Int) (hD : D ≠ 0) :
    D * Int.tdiv A D + Int.tmod A D = A ∧ (Int.tmod A D).natAbs < D.natAbs ∧
    (0 ≤ A → 0 ≤ Int.tmod A D) ∧ (A ≤ 0 → Int.tmod A D ≤ 0) := by
  obtain ⟨_, t2⟩ := tdiv_tmod_mag (natAbs_view A) (natAbs_view D)
  have hlt : A.natAbs % D.natAbs < D.natAbs := Nat.mod_lt _ (by omega)
  have hR0 : A = 0 → A.natAbs % D.natAbs = 0 := by intro h; subst h; simp
  generalize A.natAbs % D.natAbs = R at *
  refine ⟨Int.mul_tdiv_add_tmod A D, ?_, fun h => ?_, fun h => ?_⟩ <;> rw [t2] <;> split
  · simp only [Int.natAbs_neg, Int.natAbs_natCast]; exact hlt
  · simp only [Int.natAbs_natCast]; exact hlt
  all_goals omega

theorem fmod_neg_neg (a b : Int) : Int.fmod (-a) (-b) = - Int.fmod a b := by
  rw [Int.fmod_def, Int.fmod_def, Int.neg_fdiv_neg]; ring

/-- what "flooring division" means: identity, remainder bound, remainder takes the divisor's sign -/
theorem fdiv_fmod_facts (A D : Int) (hD : D ≠ 0) :
    D * Int.fdiv A D + Int.fmod A D = A ∧ (Int.fmod A D).natAbs < D.natAbs ∧
    (0 < D → 0 ≤ Int.fmod A D) ∧ (D < 0 → Int.fmod A D ≤ 0) := by
  refine ⟨Int.mul_fdiv_add_fmod A D, ?_⟩
  by_cases h : 0 < D
  · have e := Int.fmod_eq_emod_of_nonneg A (Int.le_of_lt h)
    have h1 := Int.emod_nonneg A hD
    have h2 := Int.emod_lt_of_pos A h
    rw [e]; omega
  · have hneg : 0 < -D := by omega
    have e := Int.fmod_eq_emod_of_nonneg (-A) (Int.le_of_lt hneg)
    have h1 := Int.emod_nonneg (-A) (b := -D) (by omega)
    have h2 := Int.emod_lt_of_pos (-A) hneg
    have := fmod_neg_neg A D
    omega

/-- the truncated quotient leaves `[MIN, MAX]` exactly for `MIN / -1` -/
theorem tdiv_inRange_iff {N : Nat} {A D : Int} (hA : InRange N A) (hD : D ≠ 0) :
    InRange N (Int.tdiv A D) ↔ ¬(2 * A = -((B ^ N : Nat) : Int) ∧ D = -1) := by
  obtain ⟨t1, _⟩ := tdiv_tmod_mag (natAbs_view A) (natAbs_view D)
  unfold InRange at *
  have hq : A.natAbs / D.natAbs ≤ A.natAbs := Nat.div_le_self _ _
  by_cases h1 : D.natAbs = 1
  · rw [h1, Nat.div_one] at t1
    rw [t1]; split <;> omega
  · have h2 : 2 ≤ D.natAbs := by omega
    have h3 : (A.natAbs / D.natAbs) * 2 ≤ A.natAbs :=
      Nat.le_trans (Nat.mul_le_mul_left _ h2) (Nat.div_mul_le_self _ _)
    rw [t1]; split <;> omega

/-- `Int::div_rem_uint(_vartime)`: truncating division by an unsigned divisor. The quotient always fits;
    the remainder is exact whenever it fits `Int<RHS_LIMBS>` — always for `LIMBS ≤ RHS_LIMBS`. -/
theorem divRemUint_spec {n d : List Nat} (hn : WF n) (hd : WF d) (hne : n ≠ []) (hd0 : val d ≠ 0) :
    toInt (iDivRemUint n d).1 = Int.tdiv (toInt n) (val d : Int) ∧
    toInt (iDivRemUint n d).2 = wrapS d.length (Int.tmod (toInt n) (val d : Int)) ∧
    (n.length ≤ d.length → InRange d.length (Int.tmod (toInt n) (val d : Int))) := by
  obtain ⟨wn, ln, sn, cA, bA, bA'⟩ := mag_view hn
  obtain ⟨q1, q2, q3, r1, r2, r3⟩ := uDivRem_spec wn hd hd0
  have cD : ((val d : Int) < 0 ∧ (val d : Int) = -((val d : Nat) : Int)) ∨
      (0 ≤ (val d : Int) ∧ (val d : Int) = ((val d : Nat) : Int)) := Or.inr ⟨by omega, rfl⟩
  obtain ⟨t1, t2⟩ := tdiv_tmod_mag cA cD
  have e1 : (iDivRemUint n d).1 = wrappingNegIf (uDivRem (absSign n).1 d).1 (absSign n).2 := rfl
  have e2 : (iDivRemUint n d).2 = wrappingNegIf (uDivRem (absSign n).1 d).2 (absSign n).2 := rfl
  have hq : val (absSign n).1 / val d ≤ val (absSign n).1 := Nat.div_le_self _ _
  have hr : val (absSign n).1 % val d ≤ val (absSign n).1 := Nat.mod_le _ _
  have hnd : ¬ ((val d : Int) < 0) := by omega
  refine ⟨?_, ?_, ?_⟩
  · rw [e1, sn, negIf_mag _ q1 (by
      rw [q2, q3, ln]
      by_cases hc : toInt n < 0
      · simp only [hc, decide_true, if_true]; omega
      · simp only [hc, decide_false, Bool.false_eq_true, if_false]; have := bA' (by omega); omega),
      q3, t1]
    by_cases hc : toInt n < 0 <;> simp [hc, hnd]
  · rw [e2, sn, negIf_wrap _ r1, r2, r3, t2]
    by_cases hc : toInt n < 0 <;> simp [hc]
  · intro hle
    have hB : B ^ n.length ≤ B ^ d.length := Nat.pow_le_pow_right B_pos hle
    rw [t2]
    unfold InRange
    generalize val (absSign n).1 % val d = R at *
    by_cases hc : toInt n < 0
    · simp only [hc, if_true]; omega
    · simp only [hc, if_false]; have := bA' (by omega); omega

/-- the floor adjustment shared by all flooring flavours: quotient `+1` and remainder `d - r`
    exactly when `modify`; plain values otherwise -/
theorem floor_adjust {q r dm : List Nat} {Q R dv : Nat} (p : Bool)
    (q1 : WF q) (qne : q ≠ []) (q3 : val q = Q) (r1 : WF r) (r3 : val r = R) (d1 : WF dm)
    (dl : dm.length = r.length) (d3 : val dm = dv) (hR : R < dv) (hQ : p = true → Q + 1 < B ^ q.length) :
    WF (uselect q (wrappingAdd q (uone q.length)) (mask p)) ∧
    (uselect q (wrappingAdd q (uone q.length)) (mask p)).length = q.length ∧
    val (uselect q (wrappingAdd q (uone q.length)) (mask p)) = (if p then Q + 1 else Q) ∧
    WF (uselect r (wrappingSub dm r) (mask p)) ∧
    (uselect r (wrappingSub dm r) (mask p)).length = r.length ∧
    val (uselect r (wrappingSub dm r) (mask p)) = (if p then dv - R else R) := by
  obtain ⟨k, hk⟩ : ∃ k, q.length = k + 1 := ⟨q.length - 1, by
    have := List.length_pos_iff.mpr qne; omega⟩
  obtain ⟨o1, o2, o3⟩ := uone_spec k
  have hl1 : q.length = (uone q.length).length := by rw [hk, o2]
  have wa : WF (wrappingAdd q (uone q.length)) := uadc_WF _ _ _
  have la : (wrappingAdd q (uone q.length)).length = q.length := uadc_length _ _ _ hl1
  have va := P04.wrapping_add_spec (a := q) (b := uone q.length) hl1
  have ws : WF (wrappingSub dm r) := usbb_WF _ _ _
  have ls : (wrappingSub dm r).length = r.length := by rw [← dl]; exact usbb_length _ _ _ dl
  have vs := P04.wrapping_sub_spec d1 r1 dl
  have hdm := val_lt d1
  rw [uselect_spec p q1 wa la.symm, uselect_spec p r1 ws ls.symm]
  cases p
  · simp only [Bool.false_eq_true, if_false]
    exact ⟨q1, trivial, q3, r1, trivial, r3⟩
  · simp only [if_true]
    refine ⟨wa, la, ?_, ws, ls, ?_⟩
    · rw [va, q3, hk, o3, ← hk, Nat.mod_eq_of_lt (hQ rfl)]
    · rw [vs, d3, r3]
      have : dv + B ^ dm.length - R = (dv - R) + B ^ dm.length := by omega
      rw [this, Nat.add_mod_right, Nat.mod_eq_of_lt (by omega)]

/-- `Int::div_rem_floor_uint(_vartime)`: flooring division by an unsigned divisor; the remainder is the
    normalized one, in `[0, d)`. -/
theorem divRemFloorUint_spec {n d : List Nat} (hn : WF n) (hd : WF d) (hne : n ≠ []) (hd0 : val d ≠ 0) :
    toInt (iDivRemFloorUint n d).1 = Int.fdiv (toInt n) (val d : Int) ∧
    ((val (iDivRemFloorUint n d).2 : Nat) : Int) = Int.fmod (toInt n) (val d : Int) ∧
    WF (iDivRemFloorUint n d).2 ∧ (iDivRemFloorUint n d).2.length = d.length := by
  obtain ⟨wn, ln, sn, cA, bA, bA'⟩ := mag_view hn
  obtain ⟨q1, q2, q3, r1, r2, r3⟩ := uDivRem_spec wn hd hd0
  have qne : (uDivRem (absSign n).1 d).1 ≠ [] := by
    intro h; rw [h] at q2; simp at q2; exact hne (List.length_eq_zero_iff.mp (by omega))
  have hdpos : 0 < val d := Nat.pos_of_ne_zero hd0
  have hR : val (absSign n).1 % val d < val d := Nat.mod_lt _ hdpos
  have hdm := Nat.div_add_mod (val (absSign n).1) (val d)
  have hmod : isNonzero (uDivRem (absSign n).1 d).2 = mask (decide (val (absSign n).1 % val d ≠ 0)) := by
    rw [isNonzero_spec r1, r3]
  have e1 : (iDivRemFloorUint n d).1 = wrappingNegIf
      (uselect (uDivRem (absSign n).1 d).1
        (wrappingAdd (uDivRem (absSign n).1 d).1 (uone (uDivRem (absSign n).1 d).1.length))
        (cand (isNonzero (uDivRem (absSign n).1 d).2) (absSign n).2)) (absSign n).2 := rfl
  have e2 : (iDivRemFloorUint n d).2 = uselect (uDivRem (absSign n).1 d).2
      (wrappingSub d (uDivRem (absSign n).1 d).2)
      (cand (isNonzero (uDivRem (absSign n).1 d).2) (absSign n).2) := rfl
  rw [e1, e2, hmod, sn, cand_dec]
  have hQ : decide (val (absSign n).1 % val d ≠ 0 ∧ toInt n < 0) = true →
      val (absSign n).1 / val d + 1 < B ^ (uDivRem (absSign n).1 d).1.length := by
    intro hp
    have ⟨hp1, hp2⟩ := of_decide_eq_true hp
    rw [q2, ln]
    have h2 : 2 ≤ val d := by omega
    have h3 : val (absSign n).1 / val d * 2 ≤ val (absSign n).1 :=
      Nat.le_trans (Nat.mul_le_mul_left _ h2) (Nat.div_mul_le_self _ _)
    have hB : 2 ≤ B ^ n.length := by
      obtain ⟨H, hH, hHp⟩ := Bpow_even (List.length_pos_iff.mpr hne); omega
    omega
  obtain ⟨a1, a2, a3, b1, b2, b3⟩ := floor_adjust _ q1 qne q3 r1 r3 hd r2.symm rfl hR hQ
  have hdI : (0 : Int) < (val d : Int) := by exact_mod_cast hdpos
  generalize hQv : val (absSign n).1 / val d = Q at *
  generalize hRv : val (absSign n).1 % val d = R at *
  have hdmI : ((val d : Nat) : Int) * (Q : Int) + (R : Int) = ((val (absSign n).1 : Nat) : Int) := by
    exact_mod_cast hdm
  have hQle : Q ≤ val (absSign n).1 := by rw [← hQv]; exact Nat.div_le_self _ _
  by_cases hc : toInt n < 0
  · by_cases hr0 : R = 0
    · have hp : decide (R ≠ 0 ∧ toInt n < 0) = false := by simp [hr0]
      rw [hp] at a1 a2 a3 b1 b2 b3 ⊢
      simp only [Bool.false_eq_true, if_false] at a3 b3
      have hneg := negIf_mag (decide (toInt n < 0)) a1 (by
        rw [a2, a3, q2, ln]; simp only [hc, decide_true, if_true]; omega)
      simp only [hc, decide_true, if_true] at hneg
      have hu := (Int.fdiv_fmod_unique (a := toInt n) (q := -(Q : Int)) (r := (R : Int)) hdI).mpr
        ⟨by rcases cA with ⟨_, e⟩ | ⟨_, e⟩ <;> [skip; omega]
            have : ((val d : Nat) : Int) * (-(Q : Int)) = -(((val d : Nat) : Int) * (Q : Int)) := by ring
            omega, by omega, by omega⟩
      simp only [hc, decide_true] at hneg ⊢
      exact ⟨by rw [hneg, a3]; exact hu.1.symm, by rw [b3]; exact hu.2.symm, b1, by rw [b2, r2]⟩
    · have hp : decide (R ≠ 0 ∧ toInt n < 0) = true := by simp [hr0, hc]
      rw [hp] at a1 a2 a3 b1 b2 b3 ⊢
      simp only [if_true] at a3 b3
      have hQ' := hQ hp
      rw [q2, ln] at hQ'
      have h2 : 2 ≤ val d := by omega
      have h3 : Q * 2 ≤ val (absSign n).1 := by
        rw [← hQv]; exact Nat.le_trans (Nat.mul_le_mul_left _ h2) (Nat.div_mul_le_self _ _)
      have hR1 : 1 ≤ R := by omega
      have hneg := negIf_mag (decide (toInt n < 0)) a1 (by
        rw [a2, a3, q2, ln]; simp only [hc, decide_true, if_true]
        have : R ≤ val (absSign n).1 := by rw [← hRv]; exact Nat.mod_le _ _
        omega)
      simp only [hc, decide_true, if_true] at hneg
      have hu := (Int.fdiv_fmod_unique (a := toInt n) (q := -((Q : Int) + 1)) (r := ((val d : Nat) : Int) - (R : Int)) hdI).mpr
        ⟨by rcases cA with ⟨_, e⟩ | ⟨_, e⟩ <;> [skip; omega]
            have : ((val d : Nat) : Int) * (-((Q : Int) + 1)) = -(((val d : Nat) : Int) * (Q : Int)) - ((val d : Nat) : Int) := by ring
            omega, by omega, by omega⟩
      simp only [hc, decide_true] at hneg ⊢
      refine ⟨by rw [hneg, a3]; push_cast; exact hu.1.symm, ?_, b1, by rw [b2, r2]⟩
      rw [b3, Nat.cast_sub (Nat.le_of_lt hR)]; exact hu.2.symm
  · have hp : decide (R ≠ 0 ∧ toInt n < 0) = false := by simp [hc]
    rw [hp] at a1 a2 a3 b1 b2 b3 ⊢
    simp only [Bool.false_eq_true, if_false] at a3 b3
    have hsm := bA' (by omega)
    have hneg := negIf_mag (decide (toInt n < 0)) a1 (by
      rw [a2, a3, q2, ln]; simp only [hc, decide_false, Bool.false_eq_true, if_false]; omega)
    simp only [hc, decide_false, Bool.false_eq_true, if_false] at hneg
    have hu := (Int.fdiv_fmod_unique (a := toInt n) (q := (Q : Int)) (r := (R : Int)) hdI).mpr
      ⟨by rcases cA with ⟨_, e⟩ | ⟨_, e⟩ <;> [omega; skip]
          omega, by omega, by omega⟩
    simp only [hc, decide_false] at hneg ⊢
    exact ⟨by rw [hneg, a3]; exact hu.1.symm, by rw [b3]; exact hu.2.symm, b1, by rw [b2, r2]⟩

/-- flooring division by a positive divisor through magnitudes -/
theorem fdiv_fmod_pos {an dn : Nat} (hdn : 0 < dn) :
    Int.fdiv (an : Int) (dn : Int) = ((an / dn : Nat) : Int) ∧
    Int.fmod (an : Int) (dn : Int) = ((an % dn : Nat) : Int) ∧
    Int.fdiv (-(an : Int)) (dn : Int) = -(((if an % dn ≠ 0 then an / dn + 1 else an / dn) : Nat) : Int) ∧
    Int.fmod (-(an : Int)) (dn : Int) = (((if an % dn ≠ 0 then dn - an % dn else an % dn) : Nat) : Int) := by
  have hdI : (0 : Int) < (dn : Int) := by exact_mod_cast hdn
  have hdm := Nat.div_add_mod an dn
  have hR : an % dn < dn := Nat.mod_lt _ hdn
  generalize an / dn = Q at *
  generalize an % dn = R at *
  have hdmI : (dn : Int) * (Q : Int) + (R : Int) = (an : Int) := by exact_mod_cast hdm
  have u1 := (Int.fdiv_fmod_unique (a := (an : Int)) (q := (Q : Int)) (r := (R : Int)) hdI).mpr
    ⟨by omega, by omega, by omega⟩
  refine ⟨u1.1, u1.2, ?_⟩
  by_cases hr0 : R = 0
  · simp only [hr0, ne_eq, not_true_eq_false, if_false]
    have u2 := (Int.fdiv_fmod_unique (a := -(an : Int)) (q := -(Q : Int)) (r := 0) hdI).mpr
      ⟨by have : (dn : Int) * (-(Q : Int)) = -((dn : Int) * (Q : Int)) := by ring
          omega, by omega, by omega⟩
    exact ⟨u2.1, by simpa using u2.2⟩
  · simp only [ne_eq, hr0, not_false_eq_true, if_true]
    have u2 := (Int.fdiv_fmod_unique (a := -(an : Int)) (q := -((Q : Int) + 1)) (r := (dn : Int) - (R : Int)) hdI).mpr
      ⟨by have : (dn : Int) * (-((Q : Int) + 1)) = -((dn : Int) * (Q : Int)) - (dn : Int) := by ring
          omega, by omega, by omega⟩
    refine ⟨by rw [u2.1]; push_cast; ring, ?_⟩
    rw [u2.2, Nat.cast_sub (Nat.le_of_lt hR)]

/-- flooring division through magnitudes, all four sign combinations -/
theorem fdiv_fmod_mag {A D : Int} {an dn : Nat} (hdn : 0 < dn)
    (hA : (A < 0 ∧ A = -(an : Int)) ∨ (0 ≤ A ∧ A = (an : Int)))
    (hD : (D < 0 ∧ D = -(dn : Int)) ∨ (0 ≤ D ∧ D = (dn : Int))) :
    Int.fdiv A D =
      (if ¬(A < 0 ↔ D < 0) then -(((if an % dn ≠ 0 then an / dn + 1 else an / dn) : Nat) : Int)
       else ((an / dn : Nat) : Int)) ∧
    Int.fmod A D =
      (if ¬(A < 0 ↔ D < 0) then
        (if D < 0 then -(((if an % dn ≠ 0 then dn - an % dn else an % dn) : Nat) : Int)
         else (((if an % dn ≠ 0 then dn - an % dn else an % dn) : Nat) : Int))
       else (if D < 0 then -((an % dn : Nat) : Int) else ((an % dn : Nat) : Int))) := by
  obtain ⟨p1, p2, p3, p4⟩ := fdiv_fmod_pos (an := an) hdn
  rcases hA with ⟨ca, ea⟩ | ⟨ca, ea⟩ <;> rcases hD with ⟨cd, ed⟩ | ⟨cd, ed⟩
  · have hc : (A < 0 ↔ D < 0) := ⟨fun _ => cd, fun _ => ca⟩
    rw [if_neg (not_not.mpr hc), if_neg (not_not.mpr hc), if_pos cd, ea, ed, Int.neg_fdiv_neg, fmod_neg_neg, p1, p2]
    exact ⟨rfl, rfl⟩
  · have hc : ¬(A < 0 ↔ D < 0) := fun h => absurd (h.mp ca) (by omega)
    rw [if_pos hc, if_pos hc, if_neg (show ¬ D < 0 by omega), ea, ed, p3, p4]
    exact ⟨rfl, rfl⟩
  · have hc : ¬(A < 0 ↔ D < 0) := fun h => absurd (h.mpr cd) (by omega)
    have e1 : Int.fdiv (an : Int) (-(dn : Int)) = Int.fdiv (-(an : Int)) (dn : Int) := by
      rw [← Int.neg_fdiv_neg, Int.neg_neg]
    have e2 : Int.fmod (an : Int) (-(dn : Int)) = - Int.fmod (-(an : Int)) (dn : Int) := by
      rw [← fmod_neg_neg, Int.neg_neg]
    rw [if_pos hc, if_pos hc, if_pos cd, ea, ed, e1, e2, p3, p4]
    exact ⟨rfl, rfl⟩
  · have hc : (A < 0 ↔ D < 0) := ⟨fun h => by omega, fun h => by omega⟩
    rw [if_neg (not_not.mpr hc), if_neg (not_not.mpr hc), if_neg (show ¬ D < 0 by omega), ea, ed, p1, p2]
    exact ⟨rfl, rfl⟩

/-- `Int::checked_div_rem_floor(_vartime)` AS WRITTEN: the quotient is the floored quotient (`none`
    exactly when it does not fit), the remainder is `fmod` for a non-negative dividend and `-fmod` for a
    negative one (re-signed by "signs oppose" instead of the divisor's sign). -/
theorem checkedDivRemFloor_spec {n d : List Nat} (hn : WF n) (hd : WF d) (hne : n ≠ []) (hd0 : toInt d ≠ 0) :
    (iCheckedDivRemFloor n d).1.2 = mask (decide (InRange n.length (Int.fdiv (toInt n) (toInt d)))) ∧
    toInt (iCheckedDivRemFloor n d).1.1 = wrapS n.length (Int.fdiv (toInt n) (toInt d)) ∧
    toInt (iCheckedDivRemFloor n d).2 =
      (if toInt n < 0 then - Int.fmod (toInt n) (toInt d) else Int.fmod (toInt n) (toInt d)) := by
  obtain ⟨wn, ln, sn, cA, bA, bA'⟩ := mag_view hn
  obtain ⟨wd, ld, sd, cD, bD, _⟩ := mag_view hd
  have hdn0 := mag_ne_zero hd hd0
  have hdpos : 0 < val (absSign d).1 := Nat.pos_of_ne_zero hdn0
  obtain ⟨q1, q2, q3, r1, r2, r3⟩ := uDivRem_spec wn wd hdn0
  obtain ⟨t1, t2⟩ := fdiv_fmod_mag hdpos cA cD
  have qne : (uDivRem (absSign n).1 (absSign d).1).1 ≠ [] := by
    intro h; rw [h] at q2; simp at q2; exact hne (List.length_eq_zero_iff.mp (by omega))
  have hR : val (absSign n).1 % val (absSign d).1 < val (absSign d).1 := Nat.mod_lt _ hdpos
  have hmod : isNonzero (uDivRem (absSign n).1 (absSign d).1).2 =
      mask (decide (val (absSign n).1 % val (absSign d).1 ≠ 0)) := by
    rw [isNonzero_spec r1, r3]
  have e1 : (iCheckedDivRemFloor n d).1 = newFromAbsSign
      (uselect (uDivRem (absSign n).1 (absSign d).1).1
        (wrappingAdd (uDivRem (absSign n).1 (absSign d).1).1 (uone (uDivRem (absSign n).1 (absSign d).1).1.length))
        (cand (isNonzero (uDivRem (absSign n).1 (absSign d).1).2) (cxor (absSign n).2 (absSign d).2)))
      (cxor (absSign n).2 (absSign d).2) := rfl
  have e2 : (iCheckedDivRemFloor n d).2 = wrappingNegIf
      (uselect (uDivRem (absSign n).1 (absSign d).1).2
        (wrappingSub (absSign d).1 (uDivRem (absSign n).1 (absSign d).1).2)
        (cand (isNonzero (uDivRem (absSign n).1 (absSign d).1).2) (cxor (absSign n).2 (absSign d).2)))
      (cxor (absSign n).2 (absSign d).2) := rfl
  rw [e1, e2, hmod, sn, sd, cxor_dec, cand_dec]
  have hB : 2 ≤ B ^ n.length := by
    obtain ⟨H, hH, hHp⟩ := Bpow_even (List.length_pos_iff.mpr hne); omega
  have hQ : decide (val (absSign n).1 % val (absSign d).1 ≠ 0 ∧ ¬(toInt n < 0 ↔ toInt d < 0)) = true →
      val (absSign n).1 / val (absSign d).1 + 1 < B ^ (uDivRem (absSign n).1 (absSign d).1).1.length := by
    intro hp
    have ⟨hp1, hp2⟩ := of_decide_eq_true hp
    rw [q2, ln]
    have h2 : 2 ≤ val (absSign d).1 := by omega
    have h3 : val (absSign n).1 / val (absSign d).1 * 2 ≤ val (absSign n).1 :=
      Nat.le_trans (Nat.mul_le_mul_left _ h2) (Nat.div_mul_le_self _ _)
    omega
  obtain ⟨a1, a2, a3, b1, b2, b3⟩ := floor_adjust _ q1 qne q3 r1 r3 wd r2.symm rfl hR hQ
  have ane : (uselect (uDivRem (absSign n).1 (absSign d).1).1
        (wrappingAdd (uDivRem (absSign n).1 (absSign d).1).1 (uone (uDivRem (absSign n).1 (absSign d).1).1.length))
        (mask (decide (val (absSign n).1 % val (absSign d).1 ≠ 0 ∧ ¬(toInt n < 0 ↔ toInt d < 0))))) ≠ [] := by
    intro h; rw [h] at a2; exact qne (List.length_eq_zero_iff.mp a2.symm)
  obtain ⟨f1, f2⟩ := newFromAbsSign_spec (decide (¬(toInt n < 0 ↔ toInt d < 0))) a1 ane
  rw [a3, a2, q2, ln] at f1 f2
  have hsmall : 2 * val (uselect (uDivRem (absSign n).1 (absSign d).1).2
        (wrappingSub (absSign d).1 (uDivRem (absSign n).1 (absSign d).1).2)
        (mask (decide (val (absSign n).1 % val (absSign d).1 ≠ 0 ∧ ¬(toInt n < 0 ↔ toInt d < 0))))) <
      B ^ (uselect (uDivRem (absSign n).1 (absSign d).1).2
        (wrappingSub (absSign d).1 (uDivRem (absSign n).1 (absSign d).1).2)
        (mask (decide (val (absSign n).1 % val (absSign d).1 ≠ 0 ∧ ¬(toInt n < 0 ↔ toInt d < 0))))).length := by
    rw [b2, b3, r2, ld]
    by_cases hp : decide (val (absSign n).1 % val (absSign d).1 ≠ 0 ∧ ¬(toInt n < 0 ↔ toInt d < 0)) = true
    · have := (of_decide_eq_true hp).1; rw [if_pos hp]; omega
    · rw [if_neg hp]; omega
  have g := negIf_small (decide (¬(toInt n < 0 ↔ toInt d < 0))) b1 hsmall
  rw [b3] at g
  rw [g]
  clear g hsmall ane e1 e2 hmod
  generalize val (absSign n).1 / val (absSign d).1 = Q at *
  generalize val (absSign n).1 % val (absSign d).1 = R at *
  have hx : (if decide (¬(toInt n < 0 ↔ toInt d < 0)) = true then
        -(((if decide (R ≠ 0 ∧ ¬(toInt n < 0 ↔ toInt d < 0)) = true then Q + 1 else Q : Nat)) : Int)
      else (((if decide (R ≠ 0 ∧ ¬(toInt n < 0 ↔ toInt d < 0)) = true then Q + 1 else Q : Nat)) : Int)) =
      Int.fdiv (toInt n) (toInt d) := by
    rw [t1]
    by_cases hc : (toInt n < 0 ↔ toInt d < 0) <;> by_cases hr : R = 0 <;> simp [hc, hr]
  rw [hx] at f1 f2
  rw [q2, ln]
  refine ⟨f1, f2, ?_⟩
  rw [t2]
  by_cases hc : (toInt n < 0 ↔ toInt d < 0) <;> by_cases hr : R = 0 <;>
    by_cases hn0 : toInt n < 0 <;> by_cases hd1 : toInt d < 0 <;> simp [hc, hr, hn0, hd1]

end CB.IntDiv
