/-
  CB.Lemmas.C16Digits — positional digit lists (`digitsLe`, `digitsVal`, `beValBase`) and the bridge
  between a limb list and the digits of its value in a base `b` with `b ^ k = B`
  (bytes: 256, 8; hex digits: 16, 16; bits: 2, 64).
-/
import CB.Model.Encoding
import CB.Lemmas.Limbs
namespace CB.Encoding

/-! ### digitsLe / digitsVal -/

@[simp] theorem digitsLe_zero (b x : Nat) : digitsLe b 0 x = [] := rfl
theorem digitsLe_succ (b k x : Nat) : digitsLe b (k + 1) x = x % b :: digitsLe b k (x / b) := rfl
@[simp] theorem digitsVal_nil (b : Nat) : digitsVal b [] = 0 := rfl
@[simp] theorem digitsVal_cons (b d : Nat) (ds : List Nat) :
    digitsVal b (d :: ds) = d + b * digitsVal b ds := rfl

@[simp] theorem digitsLe_length (b k x : Nat) : (digitsLe b k x).length = k := by
  induction k generalizing x with
  | zero => rfl
  | succ k ih => simp [digitsLe_succ, ih]

theorem digitsLe_lt {b : Nat} (hb : 0 < b) (k x : Nat) : ∀ d ∈ digitsLe b k x, d < b := by
  induction k generalizing x with
  | zero => intro d h; cases h
  | succ k ih =>
    intro d h
    rw [digitsLe_succ] at h
    cases h with
    | head => exact Nat.mod_lt _ hb
    | tail _ h => exact ih _ d h

theorem digitsVal_digitsLe (b k x : Nat) : digitsVal b (digitsLe b k x) = x % b ^ k := by
  induction k generalizing x with
  | zero => simp [Nat.mod_one]
  | succ k ih =>
    rw [digitsLe_succ, digitsVal_cons, ih, Nat.pow_succ, Nat.mul_comm (b ^ k) b, Nat.mod_mul]

theorem digitsVal_lt {b : Nat} {ds : List Nat} (h : ∀ d ∈ ds, d < b) :
    digitsVal b ds < b ^ ds.length := by
  induction ds with
  | nil => simp
  | cons d ds ih =>
    have hd := h d List.mem_cons_self
    have := ih (fun e he => h e (List.mem_cons_of_mem _ he))
    simp only [digitsVal_cons, List.length_cons, Nat.pow_succ]
    have h2 : b * (digitsVal b ds + 1) ≤ b * b ^ ds.length := Nat.mul_le_mul_left b this
    rw [Nat.mul_comm (b ^ ds.length) b]
    rw [Nat.mul_add] at h2
    omega

theorem digitsLe_digitsVal {b : Nat} {ds : List Nat} (h : ∀ d ∈ ds, d < b) :
    digitsLe b ds.length (digitsVal b ds) = ds := by
  induction ds with
  | nil => rfl
  | cons d ds ih =>
    have hd := h d List.mem_cons_self
    have hb : 0 < b := Nat.lt_of_le_of_lt (Nat.zero_le _) hd
    simp only [List.length_cons, digitsLe_succ, digitsVal_cons]
    rw [Nat.add_mul_mod_self_left, Nat.mod_eq_of_lt hd, Nat.add_mul_div_left _ _ hb,
      Nat.div_eq_of_lt hd, Nat.zero_add, ih (fun e he => h e (List.mem_cons_of_mem _ he))]

theorem digitsVal_append (b : Nat) (xs ys : List Nat) :
    digitsVal b (xs ++ ys) = digitsVal b xs + b ^ xs.length * digitsVal b ys := by
  induction xs with
  | nil => simp
  | cons x xs ih =>
    simp only [List.cons_append, digitsVal_cons, ih, List.length_cons, Nat.pow_succ, Nat.mul_add]
    rw [Nat.mul_comm (b ^ xs.length) b, Nat.mul_assoc, Nat.add_assoc]

theorem digitsLe_append (b j k x : Nat) :
    digitsLe b (j + k) x = digitsLe b j x ++ digitsLe b k (x / b ^ j) := by
  induction j generalizing x with
  | zero => simp
  | succ j ih =>
    rw [Nat.add_right_comm, digitsLe_succ, digitsLe_succ, ih, List.cons_append, Nat.pow_succ,
      Nat.mul_comm (b ^ j) b, Nat.div_div_eq_div_mul]

theorem digitsLe_add_mul (b k x y : Nat) : digitsLe b k (x + b ^ k * y) = digitsLe b k x := by
  induction k generalizing x y with
  | zero => rfl
  | succ k ih =>
    by_cases hb : b = 0
    · subst hb; simp [digitsLe_succ, Nat.pow_succ]
    have hb : 0 < b := Nat.pos_of_ne_zero hb
    rw [digitsLe_succ, digitsLe_succ]
    have e : x + b ^ (k + 1) * y = x + b * (b ^ k * y) := by
      rw [Nat.pow_succ, Nat.mul_comm (b ^ k) b, Nat.mul_assoc]
    rw [e, Nat.add_mul_mod_self_left, Nat.add_mul_div_left _ _ hb, ih]

theorem digitsLe_getElem? (b k x i : Nat) :
    (digitsLe b k x)[i]? = if i < k then some (x / b ^ i % b) else none := by
  induction k generalizing x i with
  | zero => simp
  | succ k ih =>
    rw [digitsLe_succ]
    cases i with
    | zero => simp
    | succ i =>
      rw [List.getElem?_cons_succ, ih, Nat.pow_succ, Nat.mul_comm (b ^ i) b, Nat.div_div_eq_div_mul]
      simp

theorem digitsVal_replicate_zero (b n : Nat) : digitsVal b (List.replicate n 0) = 0 := by
  induction n with
  | zero => rfl
  | succ n ih => simp [List.replicate_succ, ih]

/-! ### big-endian Horner value -/

theorem foldl_horner (b : Nat) (ds : List Nat) (acc : Nat) :
    ds.foldl (fun a d => a * b + d) acc = acc * b ^ ds.length + digitsVal b ds.reverse := by
  induction ds generalizing acc with
  | nil => simp
  | cons d ds ih =>
    rw [List.foldl_cons, ih, List.reverse_cons, digitsVal_append, List.length_reverse,
      List.length_cons, Nat.pow_succ]
    simp only [digitsVal_cons, digitsVal_nil, Nat.mul_zero, Nat.add_zero]
    rw [Nat.add_mul, Nat.mul_assoc, Nat.mul_comm b (b ^ ds.length), Nat.mul_comm d]
    omega

theorem beValBase_eq (b : Nat) (ds : List Nat) : beValBase b ds = digitsVal b ds.reverse := by
  simp [beValBase, foldl_horner]

theorem beVal_eq (bs : List Nat) : beVal bs = leVal bs.reverse := beValBase_eq 256 bs

/-! ### spec lists are the digit lists -/

theorem specLe_eq (b k x : Nat) :
    ((List.range k).map fun i => x / b ^ i % b) = digitsLe b k x := by
  apply List.ext_getElem?
  intro i
  rw [digitsLe_getElem?]
  by_cases h : i < k
  · simp [h]
  · simp [h]

theorem specBe_eq (b k x : Nat) :
    ((List.range k).map fun i => x / b ^ (k - 1 - i) % b) = (digitsLe b k x).reverse := by
  apply List.ext_getElem?
  intro i
  by_cases h : i < k
  · rw [List.getElem?_reverse (by simpa using h), digitsLe_getElem?]
    have : k - 1 - i < k := by omega
    simp [h, this]
  · have h1 : (digitsLe b k x).reverse.length ≤ i := by simp; omega
    rw [List.getElem?_eq_none h1]
    simp [h]

theorem specLeBytes_eq (k x : Nat) : specLeBytes k x = digitsLe 256 k x := specLe_eq 256 k x
theorem specBeBytes_eq (k x : Nat) : specBeBytes k x = (digitsLe 256 k x).reverse := specBe_eq 256 k x

/-! ### limbs ↔ digits: `k` digits per limb when `b ^ k = B` -/

theorem val_append (xs ys : List Nat) : val (xs ++ ys) = val xs + B ^ xs.length * val ys := by
  induction xs with
  | nil => simp
  | cons x xs ih =>
    simp only [List.cons_append, val_cons, ih, List.length_cons, Nat.pow_succ, Nat.mul_add]
    rw [Nat.mul_comm (B ^ xs.length) B, Nat.mul_assoc, Nat.add_assoc]

theorem val_replicate_zero (n : Nat) : val (List.replicate n 0) = 0 := by
  induction n with
  | zero => rfl
  | succ n ih => simp [List.replicate_succ, ih]

theorem WF_append {xs ys : List Nat} : WF (xs ++ ys) ↔ WF xs ∧ WF ys := by
  simp only [WF, List.mem_append]
  constructor
  · intro h; exact ⟨fun x hx => h x (Or.inl hx), fun x hx => h x (Or.inr hx)⟩
  · rintro ⟨h1, h2⟩ x (hx | hx)
    · exact h1 x hx
    · exact h2 x hx

theorem WF_replicate {n w : Nat} (hw : w < B) : WF (List.replicate n w) := by
  intro x hx
  rw [List.mem_replicate] at hx
  rw [hx.2]; exact hw

theorem WF_reverse {l : List Nat} : WF l.reverse ↔ WF l := by
  simp [WF]

/-- the digit lists of the limbs, concatenated little-endian, are the digits of the value -/
theorem limbs_digits {b k : Nat} (hbk : b ^ k = B) {l : List Nat} (h : WF l) :
    (l.map (digitsLe b k)).flatten = digitsLe b (k * l.length) (val l) := by
  induction l with
  | nil => simp
  | cons x xs ih =>
    have ⟨hx, hxs⟩ := WF_cons.mp h
    rw [List.map_cons, List.flatten_cons, ih hxs, List.length_cons, Nat.mul_succ, Nat.add_comm,
      digitsLe_append, val_cons, hbk]
    congr 1
    · rw [← hbk, digitsLe_add_mul]
    · rw [Nat.add_mul_div_left _ _ B_pos, Nat.div_eq_of_lt hx, Nat.zero_add]

/-- big-endian version: most significant limb first, each limb's digits most significant first -/
theorem limbs_digits_be {b k : Nat} (hbk : b ^ k = B) {l : List Nat} (h : WF l) :
    (l.reverse.map fun w => (digitsLe b k w).reverse).flatten
      = (digitsLe b (k * l.length) (val l)).reverse := by
  rw [← limbs_digits hbk h, List.reverse_flatten, List.map_map, List.map_reverse]
  rfl

theorem B_eq_256 : (256 : Nat) ^ 8 = B := by decide
theorem B_eq_16 : (16 : Nat) ^ 16 = B := by decide
theorem B_eq_2 : (2 : Nat) ^ 64 = B := by decide

theorem val_eq_digitsVal {b k : Nat} (hbk : b ^ k = B) (l : List Nat) :
    val l = digitsVal (b ^ k) l := by
  induction l with
  | nil => rfl
  | cons x xs ih => simp [ih, hbk]

theorem val_take (l : List Nat) (t : Nat) (h : WF l) : val (l.take t) = val l % B ^ t := by
  induction l generalizing t with
  | nil => simp
  | cons x xs ih =>
    have ⟨hx, hxs⟩ := WF_cons.mp h
    cases t with
    | zero => simp [Nat.mod_one]
    | succ t =>
      rw [List.take_succ_cons, val_cons, val_cons, ih t hxs, Nat.pow_succ, Nat.mul_comm (B ^ t) B,
        Nat.mod_mul, Nat.add_mul_mod_self_left, Nat.mod_eq_of_lt hx, Nat.add_mul_div_left _ _ B_pos,
        Nat.div_eq_of_lt hx, Nat.zero_add]

theorem val_drop (l : List Nat) (t : Nat) (h : WF l) : val (l.drop t) = val l / B ^ t := by
  induction l generalizing t with
  | nil => simp
  | cons x xs ih =>
    have ⟨hx, hxs⟩ := WF_cons.mp h
    cases t with
    | zero => simp
    | succ t =>
      rw [List.drop_succ_cons, ih t hxs, val_cons, Nat.pow_succ, Nat.mul_comm (B ^ t) B,
        ← Nat.div_div_eq_div_mul, Nat.add_mul_div_left _ _ B_pos, Nat.div_eq_of_lt hx, Nat.zero_add]

theorem WF_take {l : List Nat} (h : WF l) (t : Nat) : WF (l.take t) :=
  fun x hx => h x (List.mem_of_mem_take hx)
theorem WF_drop {l : List Nat} (h : WF l) (t : Nat) : WF (l.drop t) :=
  fun x hx => h x (List.mem_of_mem_drop hx)

/-- a well-formed `n`-limb list is determined by its value -/
theorem eq_toLimbs {l : List Nat} {n v : Nat} (h : WF l) (hl : l.length = n) (hv : val l = v) :
    l = toLimbs n v := by
  rw [← hl, ← hv, toLimbs_val h]

end CB.Encoding
