/-
  CB.Lemmas.C01Leak2 — trace lemmas for the extension round of property C01 (multiplication: schoolbook squaring,
  fixed-size Karatsuba, dispatch; concat/split/resize; Uint helpers).  Same scheme as C01Leak.lean:
      fT pub := (f pub <no secrets>).tr          f_tr : (f pub secrets).tr = fT pub
  Higher-order bodies (`karaMulStep h mulHalf`) get a lemma relative to the trace `T` of the callee.
-/
import CB.Lemmas.C01Leak
namespace CB.Leak
open Sec

/-! ### helpers -/
def unotT (n : Nat) : Trace := (unot n []).tr
@[simp] theorem unot_tr (n : Nat) (a : List Sec) : (unot n a).tr = unotT n := by
  unfold unotT unot; leak_loop

def ubitxorT (n : Nat) : Trace := (ubitxor n [] []).tr
@[simp] theorem ubitxor_tr (n : Nat) (a b : List Sec) : (ubitxor n a b).tr = ubitxorT n := by
  unfold ubitxorT ubitxor; leak_loop

@[simp] theorem wrappingSub_tr (n : Nat) (a b : List Sec) : (wrappingSub n a b).tr = usbbT n := by
  unfold wrappingSub; leak_simp; rw [usbb_tr]
@[simp] theorem wrappingNeg_tr (n : Nat) (a : List Sec) : (wrappingNeg n a).tr = unegT n := by
  unfold wrappingNeg; leak_simp; rw [uneg_tr]

def wrappingNegIfT (n : Nat) : Trace := (wrappingNegIf n [] zero).tr
@[simp] theorem wrappingNegIf_tr (n : Nat) (a : List Sec) (c : Sec) : (wrappingNegIf n a c).tr = wrappingNegIfT n := by
  unfold wrappingNegIfT wrappingNegIf; leak_simp; simp only [wrappingNeg_tr, uselect_tr]

@[simp] theorem ulte_tr (n : Nat) (a b : List Sec) : (ulte n a b).tr = usbbT n := by
  unfold ulte; leak_simp; rw [ugt_tr]

/-! ### concat / split / resize -/
def concatMixedT (l h o : Nat) : Trace := (concatMixed l h o [] []).tr
@[simp] theorem concatMixed_tr (l h o : Nat) (a b : List Sec) : (concatMixed l h o a b).tr = concatMixedT l h o := by
  unfold concatMixedT concatMixed; leak_loop

def splitMixedT (n l h : Nat) : Trace := (splitMixed n l h []).tr
@[simp] theorem splitMixed_tr (n l h : Nat) (a : List Sec) : (splitMixed n l h a).tr = splitMixedT n l h := by
  unfold splitMixedT splitMixed; leak_loop

def resizeT (n t : Nat) : Trace := (resize n t []).tr
@[simp] theorem resize_tr (n t : Nat) (a : List Sec) : (resize n t a).tr = resizeT n t := by
  unfold resizeT resize; leak_loop

/-! ### schoolbook squaring -/
def sqInnerT (n i : Nat) : Trace := (sqInner n i zero [] ([], [])).tr
@[simp] theorem sqInner_tr (n i : Nat) (x : Sec) (a : List Sec) (lh : List Sec × List Sec) :
    (sqInner n i x a lh).tr = sqInnerT n i := by
  unfold sqInnerT sqInner; leak_loop

def sqTriangleT (n : Nat) : Trace := (sqTriangle n []).tr
@[simp] theorem sqTriangle_tr (n : Nat) (a : List Sec) : (sqTriangle n a).tr = sqTriangleT n := by
  unfold sqTriangleT sqTriangle
  apply forRange_tr_congr; intro i s s'; leak_simp; simp only [sqInner_tr]

def sqDoubleLoopT (n : Nat) : Trace := (sqDoubleLoop n [] zero).tr
@[simp] theorem sqDoubleLoop_tr (n : Nat) (w : List Sec) (c : Sec) : (sqDoubleLoop n w c).tr = sqDoubleLoopT n := by
  unfold sqDoubleLoopT sqDoubleLoop; leak_loop

def sqDoubleT (n : Nat) : Trace := (sqDouble n ([], [])).tr
@[simp] theorem sqDouble_tr (n : Nat) (lh : List Sec × List Sec) : (sqDouble n lh).tr = sqDoubleT n := by
  unfold sqDoubleT sqDouble; leak_simp; simp only [sqDoubleLoop_tr]

def sqDiagonalT (n : Nat) : Trace := (sqDiagonal n [] ([], [])).tr
@[simp] theorem sqDiagonal_tr (n : Nat) (a : List Sec) (lh : List Sec × List Sec) : (sqDiagonal n a lh).tr = sqDiagonalT n := by
  unfold sqDiagonalT sqDiagonal; leak_simp; leak_loop

def squareSchoolbookT (n : Nat) : Trace := (squareSchoolbook n []).tr
@[simp] theorem squareSchoolbook_tr (n : Nat) (a : List Sec) : (squareSchoolbook n a).tr = squareSchoolbookT n := by
  unfold squareSchoolbookT squareSchoolbook; leak_simp; simp only [sqTriangle_tr, sqDouble_tr, sqDiagonal_tr]

/-! ### fixed-size Karatsuba -/
def karaDiffLoopT (h : Nat) : Trace := (karaDiffLoop h [] [] [] []).tr
@[simp] theorem karaDiffLoop_tr (h : Nat) (a b c d : List Sec) : (karaDiffLoop h a b c d).tr = karaDiffLoopT h := by
  unfold karaDiffLoopT karaDiffLoop; leak_loop

def notIfT (h : Nat) : Trace := (notIf h [] zero).tr
@[simp] theorem notIf_tr (h : Nat) (r : List Sec) (c : Sec) : (notIf h r c).tr = notIfT h := by
  unfold notIfT notIf; leak_simp; simp only [unot_tr, uselect_tr]

/-- the public trace of a Karatsuba step whose three half-size products have trace `T` -/
def karaMulStepT (h : Nat) (T : Trace) : Trace := (karaMulStep h (fun _ _ => ⟨([], []), T⟩) [] []).tr

theorem karaMulStep_tr (h : Nat) (m : List Sec → List Sec → L (List Sec × List Sec)) (T : Trace)
    (hm : ∀ a b, (m a b).tr = T) (x y : List Sec) : (karaMulStep h m x y).tr = karaMulStepT h T := by
  unfold karaMulStepT karaMulStep; leak_simp
  simp only [hm, karaDiffLoop_tr, wrappingNeg_tr, uselect_tr, notIf_tr, uadc_tr, concatMixed_tr]

def karaSqStepT (h : Nat) (T : Trace) : Trace := (karaSqStep h (fun _ => ⟨([], []), T⟩) []).tr

theorem karaSqStep_tr (h : Nat) (m : List Sec → L (List Sec × List Sec)) (T : Trace)
    (hm : ∀ a, (m a).tr = T) (x : List Sec) : (karaSqStep h m x).tr = karaSqStepT h T := by
  unfold karaSqStepT karaSqStep; leak_simp
  simp only [hm, usbb_tr, wrappingNeg_tr, uselect_tr, uadc_tr, concatMixed_tr]

/-- the public trace of `UintKaratsubaMul::<chain.head>::multiply` -/
def karaMulChainT : List Nat → Trace
  | _ :: half :: rest => karaMulStepT half (karaMulChainT (half :: rest))
  | [s] => mulSchoolbookT s s
  | [] => []

@[simp] theorem karaMulChain_tr : ∀ (ch : List Nat) (x y : List Sec), (karaMulChain ch x y).tr = karaMulChainT ch
  | [], _, _ => rfl
  | [s], x, y => by rw [karaMulChain, karaMulChainT, mulSchoolbook_tr]
  | _ :: half :: rest, x, y => by
    rw [karaMulChain, karaMulChainT]
    exact karaMulStep_tr half _ _ (fun a b => karaMulChain_tr (half :: rest) a b) x y

def karaSqChainT : List Nat → Trace
  | _ :: half :: rest => karaSqStepT half (karaSqChainT (half :: rest))
  | [s] => squareSchoolbookT s
  | [] => []

@[simp] theorem karaSqChain_tr : ∀ (ch : List Nat) (x : List Sec), (karaSqChain ch x).tr = karaSqChainT ch
  | [], _ => rfl
  | [s], x => by rw [karaSqChain, karaSqChainT, squareSchoolbook_tr]
  | _ :: half :: rest, x => by
    rw [karaSqChain, karaSqChainT]
    exact karaSqStep_tr half _ _ (fun a => karaSqChain_tr (half :: rest) a) x

def splitMulT (n m : Nat) : Trace := (splitMul n m [] []).tr
@[simp] theorem splitMul_tr (n m : Nat) (a b : List Sec) : (splitMul n m a b).tr = splitMulT n m := by
  unfold splitMulT splitMul; leak_simp; simp only [karaMulChain_tr, resize_tr, mulSchoolbook_tr]

def squareWideT (n : Nat) : Trace := (squareWide n []).tr
@[simp] theorem squareWide_tr (n : Nat) (a : List Sec) : (squareWide n a).tr = squareWideT n := by
  unfold squareWideT squareWide; leak_simp; simp only [karaSqChain_tr, resize_tr, squareSchoolbook_tr]

@[simp] theorem wrappingMul_tr (n m : Nat) (a b : List Sec) : (wrappingMul n m a b).tr = splitMulT n m := by
  unfold wrappingMul; leak_simp; rw [splitMul_tr]

def checkedMulT (n m : Nat) : Trace := (checkedMul n m [] []).tr
@[simp] theorem checkedMul_tr (n m : Nat) (a b : List Sec) : (checkedMul n m a b).tr = checkedMulT n m := by
  unfold checkedMulT checkedMul; leak_simp; simp only [splitMul_tr, isNonzero_tr]

def saturatingMulT (n m : Nat) : Trace := (saturatingMul n m [] []).tr
@[simp] theorem saturatingMul_tr (n m : Nat) (a b : List Sec) : (saturatingMul n m a b).tr = saturatingMulT n m := by
  unfold saturatingMulT saturatingMul; leak_simp; simp only [splitMul_tr, isNonzero_tr, uselect_tr]

def checkedSquareT (n : Nat) : Trace := (checkedSquare n []).tr
@[simp] theorem checkedSquare_tr (n : Nat) (a : List Sec) : (checkedSquare n a).tr = checkedSquareT n := by
  unfold checkedSquareT checkedSquare; leak_simp; simp only [squareWide_tr, ueq_tr]

end CB.Leak
