/-
  CB.Lemmas.C08Inv64 — the value-level word inverse `inv64` (Newton iteration) used by the parameter
  constructors of `CB.Model.Monty` really is the inverse modulo 2^64 of an odd word.
-/
import CB.Model.Monty
import CB.Lemmas.Limbs
import Mathlib.Data.ZMod.Basic
import Mathlib.Tactic.Ring
import Mathlib.Tactic.LinearCombination
namespace CB.Monty
open CB

/-- one Newton step `x ↦ x·(2 − m₀·x) mod 2^64`, as written in `inv64` -/
def newtonStep (m0 x : Nat) : Nat := (x * ((B + 2 - (m0 * x) % B) % B)) % B

theorem inv64_eq (m0 : Nat) :
    inv64 m0 = newtonStep m0 (newtonStep m0 (newtonStep m0 (newtonStep m0 (newtonStep m0 (m0 % B))))) := rfl

theorem cast_B : ((B : Nat) : ZMod B) = 0 := ZMod.natCast_self B

theorem cast_newtonStep (m0 x : Nat) :
    ((newtonStep m0 x : Nat) : ZMod B) = (x : ZMod B) * (2 - (m0 : ZMod B) * (x : ZMod B)) := by
  have hle : (m0 * x) % B ≤ B + 2 := Nat.le_trans (Nat.le_of_lt (Nat.mod_lt _ B_pos)) (Nat.le_add_right _ _)
  simp only [newtonStep]
  rw [ZMod.natCast_mod, Nat.cast_mul, ZMod.natCast_mod, Nat.cast_sub hle, Nat.cast_add, cast_B,
    ZMod.natCast_mod, Nat.cast_mul]
  simp

/-- quadratic convergence: `a·x = 1 + c·e` ⇒ `a·x' = 1 + c²·(−e²)` -/
theorem newton_lift {R : Type} [CommRing R] (a x c e : R) (h : a * x = 1 + c * e) :
    a * (x * (2 - a * x)) = 1 + (c * c) * (-(e * e)) := by
  rw [show a * (x * (2 - a * x)) = (a * x) * (2 - a * x) by ring, h]; ring

theorem odd_sq (t : Nat) : (2 * t + 1) * (2 * t + 1) = 1 + 8 * (t * (t + 1) / 2) := by
  have : t * (t + 1) % 2 = 0 := by
    rcases Nat.mod_two_eq_zero_or_one t with h | h <;> simp [Nat.mul_mod, Nat.add_mod, h]
  have h2 : 2 * (t * (t + 1) / 2) = t * (t + 1) := by omega
  calc (2 * t + 1) * (2 * t + 1) = 1 + 4 * (t * (t + 1)) := by ring
    _ = 1 + 4 * (2 * (t * (t + 1) / 2)) := by rw [h2]
    _ = 1 + 8 * (t * (t + 1) / 2) := by ring

/-- `inv64` is the inverse of an odd word modulo 2^64. -/
theorem inv64_spec (m0 : Nat) (hodd : m0 % 2 = 1) : (m0 * inv64 m0) % B = 1 := by
  have key : ((m0 * inv64 m0 : Nat) : ZMod B) = ((1 : Nat) : ZMod B) := by
    set a : ZMod B := (m0 : ZMod B) with ha
    -- start: a·a = 1 + 8·e₀
    obtain ⟨t, ht⟩ : ∃ t, m0 = 2 * t + 1 := ⟨m0 / 2, by omega⟩
    have h0 : a * ((m0 % B : Nat) : ZMod B) = 1 + 8 * ((t * (t + 1) / 2 : Nat) : ZMod B) := by
      rw [ZMod.natCast_mod, ← ha]
      have := congrArg (fun v : Nat => (v : ZMod B)) (odd_sq t)
      simp only [Nat.cast_mul, Nat.cast_add, Nat.cast_one, Nat.cast_ofNat] at this
      rw [ha, ht]; push_cast; linear_combination this
    rw [inv64_eq, Nat.cast_mul, ← ha]
    have s1 := newton_lift a _ _ _ h0
    rw [← cast_newtonStep] at s1
    have s2 := newton_lift a _ _ _ s1
    rw [← cast_newtonStep] at s2
    have s3 := newton_lift a _ _ _ s2
    rw [← cast_newtonStep] at s3
    have s4 := newton_lift a _ _ _ s3
    rw [← cast_newtonStep] at s4
    have s5 := newton_lift a _ _ _ s4
    rw [← cast_newtonStep] at s5
    rw [s5]
    -- the coefficient is 8^32 = 2^96 = 2^64 · 2^32 = 0
    have hz : ((8 : ZMod B) * 8 * (8 * 8) * (8 * 8 * (8 * 8)) * (8 * 8 * (8 * 8) * (8 * 8 * (8 * 8))) *
        (8 * 8 * (8 * 8) * (8 * 8 * (8 * 8)) * (8 * 8 * (8 * 8) * (8 * 8 * (8 * 8))))) = 0 := by
      have : ((8 : ZMod B) * 8 * (8 * 8) * (8 * 8 * (8 * 8)) * (8 * 8 * (8 * 8) * (8 * 8 * (8 * 8))) *
          (8 * 8 * (8 * 8) * (8 * 8 * (8 * 8)) * (8 * 8 * (8 * 8) * (8 * 8 * (8 * 8)))))
          = ((B : Nat) : ZMod B) * 4294967296 := by
        rw [B_def]; push_cast; norm_num
      rw [this, cast_B, zero_mul]
    rw [hz]; simp
  have := (ZMod.natCast_eq_natCast_iff' _ _ _).mp key
  rw [this]; decide

end CB.Monty
