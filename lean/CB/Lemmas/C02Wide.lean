/-
  CB.Lemmas.C02Wide — `Uint::rem_wide_vartime`: the two phases of its loop and the limb short cut.
-/
import CB.Lemmas.C02Rem
namespace CB.Div
open CB

theorem rwRow_eq_vtRow (rc : Reciprocal) (y : List Nat) (yc xi : Nat) (x : List Nat) (xHi : Nat) :
    rwRow rc y yc xi x xHi = ((vtRow rc y yc xi x xHi).1, (vtRow rc y yc xi x xHi).2.1) := by
  unfold rwRow vtRow
  rfl

theorem rwPhase2_zero (rc : Reciprocal) (y : List Nat) (yc : Nat) (st : List Nat × Nat) :
    rwPhase2 rc y yc 0 st = rwRow rc y yc (yc - 1) st.1 st.2 := rfl
theorem rwPhase2_succ (rc : Reciprocal) (y : List Nat) (yc k : Nat) (st : List Nat × Nat) :
    rwPhase2 rc y yc (k + 1) st =
      rwPhase2 rc y yc k ((rwRow rc y yc (yc + k) st.1 st.2).1.set (yc + k) 0, (rwRow rc y yc (yc + k) st.1 st.2).2) := rfl
theorem rwPhase1_nil (rc : Reciprocal) (y : List Nat) (yc L : Nat) (st : List Nat × Nat) :
    rwPhase1 rc y yc L [] st = st := rfl
theorem rwPhase1_cons (rc : Reciprocal) (y : List Nat) (yc L w : Nat) (rest : List Nat) (st : List Nat × Nat) :
    rwPhase1 rc y yc L (w :: rest) st =
      rwPhase1 rc y yc L rest (w :: (rwRow rc y yc (L - 1) st.1 st.2).1.take (L - 1), (rwRow rc y yc (L - 1) st.1 st.2).2) := rfl

theorem zeros_snoc (k : Nat) (Q : List Nat) : zeros k ++ 0 :: Q = zeros (k + 1) ++ Q := by
  unfold zeros
  rw [List.replicate_succ', List.append_assoc]; rfl

/-- second phase of `rem_wide_vartime`: the vartime loop with the digits discarded (zeroed) -/
theorem rwPhase2_spec {rc : Reciprocal} (ok : RcOK rc) {y : List Nat} {yc : Nat}
    (hyc : 2 ≤ yc) (hyl : y.length = yc) (hy : WF y) (hv1 : y.getD (yc - 1) 0 = rc.divisorNormalized) :
    ∀ (k : Nat) (lo win Q : List Nat) (xHi : Nat), lo.length = k → win.length = yc → WF lo → WF win →
      xHi < B → val win + B ^ yc * xHi < val y * B →
      ∃ r, (rwPhase2 rc y yc k (lo ++ win ++ Q, xHi)).1 =
          r ++ [(rwPhase2 rc y yc k (lo ++ win ++ Q, xHi)).2] ++ zeros k ++ Q ∧ r.length = yc - 1 ∧ WF r ∧
        (rwPhase2 rc y yc k (lo ++ win ++ Q, xHi)).2 < B ∧
        val r + B ^ (yc - 1) * (rwPhase2 rc y yc k (lo ++ win ++ Q, xHi)).2 =
          (val (lo ++ win) + B ^ (k + yc) * xHi) % val y := by
  have hYpos : 0 < val y := by
    obtain ⟨ey, _⟩ := val_top2 hyc hyl hy
    rw [hv1] at ey
    have h1 : 0 < rc.divisorNormalized := Nat.lt_of_lt_of_le (by decide) ok.h1
    have h2 : 0 < B ^ (yc - 2) * (B * rc.divisorNormalized) := Nat.mul_pos (Nat.pow_pos B_pos) (Nat.mul_pos B_pos h1)
    rw [ey, Nat.mul_add]; omega
  intro k
  induction k with
  | zero =>
    intro lo win Q xHi hlo hwin hwlo hw hxHi hW
    have hlo0 : lo = [] := List.length_eq_zero_iff.mp hlo
    subst hlo0
    obtain ⟨rl, rt, h1, h2, h3, h4, h5⟩ := vtRow_struct (lo := []) (Q := Q) (k := 0) (xi := yc - 1) ok hyc hyl hy hv1 rfl hwin (by omega) hw hxHi hW
    rw [rwPhase2_zero, rwRow_eq_vtRow, h5]
    refine ⟨rl, by simp [zeros], h1, h2, h3, by simpa using h4⟩
  | succ k ih =>
    intro lo win Q xHi hlo hwin hwlo hw hxHi hW
    obtain ⟨rl, rt, h1, h2, h3, h4, h5⟩ := vtRow_struct (Q := Q) (k := k + 1) (xi := yc + k) ok hyc hyl hy hv1 hlo hwin (by omega) hw hxHi hW
    have hdec := snoc_decomp hlo
    generalize hlo' : lo.take k = lo' at hdec
    generalize hw0 : lo.getD k 0 = w at hdec
    have hwlt : w < B := by rw [← hw0]; exact getD_lt hwlo k
    have hlo'l : lo'.length = k := by rw [← hlo']; simp [hlo]
    have hlo'wf : WF lo' := by rw [← hlo']; exact WF_take hwlo k
    have hmod := Nat.mod_lt (val win + B ^ yc * xHi) hYpos
    have hnext : (lo ++ (rl ++ [rt]) ++ Q).set (yc + k) 0 = lo' ++ (w :: rl) ++ (0 :: Q) := by
      have := set_mid_last lo rl Q rt 0
      have e : lo.length + rl.length = yc + k := by omega
      rw [e] at this
      rw [this, hdec]; simp
    have hW' : val (w :: rl) + B ^ yc * rt < val y * B := by
      have e : B ^ yc = B * B ^ (yc - 1) := by
        have : yc = (yc - 1) + 1 := by omega
        conv => lhs; rw [this]
        rw [Nat.pow_succ, Nat.mul_comm]
      have e2 : val (w :: rl) + B ^ yc * rt = w + B * (val rl + B ^ (yc - 1) * rt) := by
        rw [val_cons, e]; ring
      rw [e2, h4]
      have : B * ((val win + B ^ yc * xHi) % val y + 1) ≤ B * val y := Nat.mul_le_mul_left B hmod
      rw [Nat.mul_add, Nat.mul_one, Nat.mul_comm B (val y)] at this
      omega
    obtain ⟨r, i1, i2, i4, i6, i7⟩ :=
      ih lo' (w :: rl) (0 :: Q) rt hlo'l (by simp [h1]; omega) hlo'wf (WF_cons.mpr ⟨hwlt, h2⟩) h3 hW'
    have hst : rwPhase2 rc y yc (k + 1) (lo ++ win ++ Q, xHi) = rwPhase2 rc y yc k (lo' ++ (w :: rl) ++ (0 :: Q), rt) := by
      rw [rwPhase2_succ, rwRow_eq_vtRow]; simp only [h5, hnext]
    rw [hst]
    have hN' : val (lo' ++ w :: rl) + B ^ (k + yc) * rt =
        val lo + B ^ (k + 1) * ((val win + B ^ yc * xHi) % val y) := by
      rw [← h4]
      conv => rhs; rw [hdec]
      rw [val_append, val_append, hlo'l, val_cons, val_cons, val_nil]
      have e : B ^ (k + yc) = B ^ (k + 1) * B ^ (yc - 1) := by
        rw [← Nat.pow_add]; congr 1; omega
      rw [e, Nat.pow_succ]; ring
    have hN : val (lo ++ win) + B ^ (k + 1 + yc) * xHi = val lo + B ^ (k + 1) * (val win + B ^ yc * xHi) := by
      rw [val_append, hlo, Nat.pow_add]; ring
    have hp := peel_digit (lo := val lo) (K := B ^ (k + 1)) (W := val win + B ^ yc * xHi) hYpos
    rw [hN'] at i7
    refine ⟨r, ?_, i2, i4, i6, ?_⟩
    · rw [i1, List.append_assoc _ (zeros k), zeros_snoc, ← List.append_assoc]
    · rw [i7, hN, hp.2]


theorem mod_congr_step {a a' c b n : Nat} (h : a % n = a' % n) : (a * c + b) % n = (a' * c + b) % n := by
  rw [Nat.add_mod, Nat.mul_mod, h, ← Nat.mul_mod, ← Nat.add_mod]

/-- first phase of `rem_wide_vartime`: one row at the top, then shift `x` one limb up and pull in the
    next lower limb; the `L + 1`-limb number `T = x_hi·B^L + x` is replaced by `w + B·(T mod Y·B^(L−yc))`. -/
theorem rwPhase1_spec {rc : Reciprocal} (ok : RcOK rc) {y : List Nat} {yc L : Nat}
    (hyc : 2 ≤ yc) (hyl : y.length = yc) (hy : WF y) (hv1 : y.getD (yc - 1) 0 = rc.divisorNormalized)
    (hL : yc ≤ L) :
    ∀ (ws x : List Nat) (xHi : Nat), WF ws → x.length = L → WF x → xHi < B →
      val x + B ^ L * xHi < val y * B ^ (L - yc) * B →
      (rwPhase1 rc y yc L ws (x, xHi)).1.length = L ∧ WF (rwPhase1 rc y yc L ws (x, xHi)).1 ∧
      (rwPhase1 rc y yc L ws (x, xHi)).2 < B ∧
      val (rwPhase1 rc y yc L ws (x, xHi)).1 + B ^ L * (rwPhase1 rc y yc L ws (x, xHi)).2 <
        val y * B ^ (L - yc) * B ∧
      (val (rwPhase1 rc y yc L ws (x, xHi)).1 + B ^ L * (rwPhase1 rc y yc L ws (x, xHi)).2) % (val y * B ^ (L - yc)) =
        ((val x + B ^ L * xHi) * B ^ ws.length + val ws.reverse) % (val y * B ^ (L - yc)) := by
  intro ws
  induction ws with
  | nil =>
    intro x xHi _ hxl hx hxHi hT
    rw [rwPhase1_nil]
    exact ⟨hxl, hx, hxHi, hT, by simp⟩
  | cons w rest ih =>
    intro x xHi hws hxl hx hxHi hT
    have ⟨hw0, hrest⟩ := WF_cons.mp hws
    have hxsplit : x = x.take (L - yc) ++ x.drop (L - yc) ++ [] := by simp
    have hlol : (x.take (L - yc)).length = L - yc := by simp [hxl]
    have hwinl : (x.drop (L - yc)).length = yc := by simp [hxl]; omega
    have hBL : B ^ L = B ^ (L - yc) * B ^ yc := by rw [← Nat.pow_add]; congr 1; omega
    have hKpos : 0 < B ^ (L - yc) := Nat.pow_pos B_pos
    have hTx : val x + B ^ L * xHi =
        val (x.take (L - yc)) + B ^ (L - yc) * (val (x.drop (L - yc)) + B ^ yc * xHi) := by
      have := val_take_drop x (L - yc)
      rw [hlol] at this
      rw [this, hBL]; ring
    have hW : val (x.drop (L - yc)) + B ^ yc * xHi < val y * B := by
      rw [hTx] at hT
      have h1 : B ^ (L - yc) * (val (x.drop (L - yc)) + B ^ yc * xHi) < B ^ (L - yc) * (val y * B) := by
        have e : val y * B ^ (L - yc) * B = B ^ (L - yc) * (val y * B) := by ring
        omega
      exact Nat.lt_of_mul_lt_mul_left h1
    obtain ⟨rl, rt, h1, h2, h3, h4, h5⟩ := vtRow_struct (Q := []) (k := L - yc) (xi := L - 1) ok hyc hyl hy hv1
      hlol hwinl (by omega) (WF_drop hx _) hxHi hW
    rw [← hxsplit] at h5
    have hlow : WF (x.take (L - yc)) := WF_take hx _
    have hlolt := val_lt hlow
    rw [hlol] at hlolt
    generalize hlo : x.take (L - yc) = lo at *
    generalize hwin : x.drop (L - yc) = win at *
    have htake : (lo ++ (rl ++ [rt]) ++ []).take (L - 1) = lo ++ rl := by
      have : lo ++ (rl ++ [rt]) ++ [] = (lo ++ rl) ++ [rt] := by simp
      rw [this]; exact List.take_left' (by simp [hlol, h1]; omega)
    have hstep : rwPhase1 rc y yc L (w :: rest) (x, xHi) = rwPhase1 rc y yc L rest (w :: (lo ++ rl), rt) := by
      rw [rwPhase1_cons, rwRow_eq_vtRow]; simp only [h5, htake]
    rw [hstep]
    have hx'l : (w :: (lo ++ rl)).length = L := by simp [hlol, h1]; omega
    have hx'w : WF (w :: (lo ++ rl)) := WF_cons.mpr ⟨hw0, WF_append.mpr ⟨hlow, h2⟩⟩
    have hYpos : 0 < val y := by
      rcases Nat.eq_zero_or_pos (val y) with h | h
      · rw [h] at hW; simp at hW
      · exact h
    have hYkpos : 0 < B ^ (L - yc) * val y := Nat.mul_pos hKpos hYpos
    have hYk : val y * B ^ (L - yc) = B ^ (L - yc) * val y := Nat.mul_comm _ _
    have hBL2 : B ^ L = B * (B ^ (L - yc) * B ^ (yc - 1)) := by
      rw [← Nat.pow_add, ← Nat.pow_succ']; congr 1; omega
    have hT'' : val (w :: (lo ++ rl)) + B ^ L * rt =
        w + B * ((val x + B ^ L * xHi) % (B ^ (L - yc) * val y)) := by
      have e1 : (val x + B ^ L * xHi) % (B ^ (L - yc) * val y) =
          val lo + B ^ (L - yc) * (val rl + B ^ (yc - 1) * rt) := by
        rw [hTx, mod_split hlolt hYpos, h4]
      rw [e1, val_cons, val_append, hlol, hBL2]
      generalize B ^ (L - yc) = K
      generalize B ^ (yc - 1) = K2
      generalize val lo = a
      generalize val rl = b
      ring
    have hmodlt := Nat.mod_lt (val x + B ^ L * xHi) hYkpos
    generalize hTd : val x + B ^ L * xHi = T at *
    have hT''lt : val (w :: (lo ++ rl)) + B ^ L * rt < val y * B ^ (L - yc) * B := by
      rw [hT'', hYk]
      have : B * (T % (B ^ (L - yc) * val y) + 1) ≤ B * (B ^ (L - yc) * val y) := Nat.mul_le_mul_left B hmodlt
      rw [Nat.mul_add, Nat.mul_one, Nat.mul_comm B (B ^ (L - yc) * val y)] at this
      omega
    obtain ⟨j1, j2, j3, j4, j5⟩ := ih (w :: (lo ++ rl)) rt hrest hx'l hx'w h3 hT''lt
    refine ⟨j1, j2, j3, j4, ?_⟩
    rw [j5, hT'', hYk]
    have hc : (w + B * (T % (B ^ (L - yc) * val y))) % (B ^ (L - yc) * val y) = (w + B * T) % (B ^ (L - yc) * val y) := by
      rw [Nat.add_mod, Nat.mul_mod, Nat.mod_mod, ← Nat.mul_mod, ← Nat.add_mod]
    rw [mod_congr_step hc]
    congr 1
    rw [List.reverse_cons, val_append, List.length_reverse, List.length_cons, Nat.pow_succ]
    simp only [val_cons, val_nil, Nat.mul_zero, Nat.add_zero]
    generalize B ^ rest.length = K
    generalize val rest.reverse = V
    ring


/-- OR-ing a carry `c < 2^s` into a limb shifted left by `s` is an addition -/
theorem or_carry {x c s : Nat} (hs : s < 64) (hc : c < 2 ^ s) :
    ((x <<< s) % B) ||| c = (x <<< s) % B + c ∧ (x <<< s) % B + c < B := by
  have hB := B_split (Nat.le_of_lt hs)
  have h1 : (x <<< s) % B = (x % 2 ^ (64 - s)) <<< s := by
    rw [Nat.shiftLeft_eq, Nat.shiftLeft_eq, hB, Nat.mul_mod_mul_right]
  rw [h1]
  refine ⟨(Nat.shiftLeft_add_eq_or_of_lt hc _).symm, ?_⟩
  rw [Nat.shiftLeft_eq, hB]
  have hm : x % 2 ^ (64 - s) < 2 ^ (64 - s) := Nat.mod_lt _ (Nat.pow_pos (by decide))
  have : (x % 2 ^ (64 - s) + 1) * 2 ^ s ≤ 2 ^ (64 - s) * 2 ^ s := Nat.mul_le_mul_right _ hm
  rw [Nat.add_mul, Nat.one_mul] at this
  omega

theorem val_set0 {l : List Nat} (v : Nat) (hne : l ≠ []) : val (l.set 0 v) + l.getD 0 0 = val l + v := by
  cases l with
  | nil => exact absurd rfl hne
  | cons h t => simp [val]; omega

theorem WF_set {l : List Nat} (hl : WF l) {v : Nat} (hv : v < B) (i : Nat) : WF (l.set i v) := by
  intro x hx
  rcases List.mem_or_eq_of_mem_set hx with h | h
  · exact hl x h
  · rw [h]; exact hv

/-- the first limb of `shl_limb_vartime` (`shift > 0`) has its low `shift` bits clear -/
theorem shlVt_first {a : List Nat} {s : Nat} (hs0 : s ≠ 0) (hne : a ≠ []) :
    (shlLimbVartime a s a.length).1.getD 0 0 = ((a.getD 0 0) <<< s) % B := by
  cases a with
  | nil => exact absurd rfl hne
  | cons h t =>
    simp only [shlLimbVartime, if_neg hs0, List.take_length, shlVtLoop_cons, Nat.sub_self]
    simp


/-- the Knuth part of `rem_wide_vartime` (`2 ≤ yc`) -/
theorem remWide_core {rc : Reciprocal} (ok : RcOK rc) {Yl : List Nat} {yc L s : Nat} {lower upper : List Nat}
    (hyc : 2 ≤ yc) (hL : yc ≤ L) (hs : s < 64)
    (hyl : Yl.length = yc) (hy : WF Yl) (hv1 : Yl.getD (yc - 1) 0 = rc.divisorNormalized)
    (hYn : HALF * B ^ (yc - 1) ≤ val Yl)
    (hlo : WF lower) (hup : WF upper) (hlol : lower.length = L) (hupl : upper.length = L) :
    let lo := shlLimbVartime lower s L
    let up := shlLimbVartime upper s L
    let x := if s > 0 then up.1.set 0 ((up.1.getD 0 0) ||| lo.2) else up.1
    let st := rwPhase2 rc Yl yc (L - yc) (rwPhase1 rc Yl yc L lo.1.reverse (x, up.2))
    val (shrLimbVartime st.1 s yc) = ((val lower + B ^ L * val upper) * 2 ^ s) % val Yl / 2 ^ s ∧
    WF (shrLimbVartime st.1 s yc) ∧ (shrLimbVartime st.1 s yc).length = L := by
  intro lo up x st
  have hLpos : 0 < L := by omega
  have hlne : lower ≠ [] := by intro h; rw [h] at hlol; simp at hlol; omega
  have hune : upper ≠ [] := by intro h; rw [h] at hupl; simp at hupl; omega
  obtain ⟨a1, a2, a3, a4⟩ := shlLimbVartime_full hs hlo hlne
  obtain ⟨b1, b2, b3, b4⟩ := shlLimbVartime_full hs hup hune
  rw [hlol] at a1 a2 a3 a4
  rw [hupl] at b1 b2 b3 b4
  have hlo_def : lo = shlLimbVartime lower s L := rfl
  have hup_def : up = shlLimbVartime upper s L := rfl
  rw [← hlo_def] at a1 a2 a3 a4
  rw [← hup_def] at b1 b2 b3 b4
  have hpos : 0 < 2 ^ s := Nat.pow_pos (by decide)
  have hupne : up.1 ≠ [] := by intro h; rw [h] at b3; simp at b3; omega
  -- x
  have hx : WF x ∧ x.length = L ∧ val x = val up.1 + lo.2 := by
    by_cases h0 : s = 0
    · have : ¬ s > 0 := by omega
      have hz : lo.2 = 0 := by rw [h0] at a4; simpa using a4
      simp only [x, if_neg this, hz, Nat.add_zero]
      exact ⟨b2, b3, by first | rfl | trivial⟩
    · have hsp : s > 0 := Nat.pos_of_ne_zero h0
      have hfirst : up.1.getD 0 0 = ((upper.getD 0 0) <<< s) % B := by
        rw [hup_def, ← hupl]; exact shlVt_first h0 hune
      obtain ⟨o1, o2⟩ := or_carry (x := upper.getD 0 0) hs a4
      simp only [x, if_pos hsp]
      rw [hfirst, o1]
      refine ⟨WF_set b2 o2 0, by simp [b3], ?_⟩
      have := val_set0 (((upper.getD 0 0) <<< s) % B + lo.2) hupne
      rw [hfirst] at this
      omega
  obtain ⟨x1, x2, x3⟩ := hx
  have hHB : 2 ^ s ≤ HALF := by
    have : HALF = 2 ^ 63 := by decide
    rw [this]; exact Nat.pow_le_pow_right (by decide) (by omega)
  have hup2 : up.2 < B := Nat.lt_of_lt_of_le b4 (Nat.le_trans hHB (by decide))
  have hBL : B ^ L = B ^ (yc - 1) * B ^ (L - yc) * B := by
    rw [← Nat.pow_add, ← Nat.pow_succ]; congr 1; omega
  have hT0 : val x + B ^ L * up.2 = val upper * 2 ^ s + lo.2 := by rw [x3]; omega
  have hT0lt : val x + B ^ L * up.2 < val Yl * B ^ (L - yc) * B := by
    rw [hT0]
    have h1 : val upper < B ^ L := by have := val_lt hup; rwa [hupl] at this
    have h2 : (val upper + 1) * 2 ^ s ≤ B ^ L * 2 ^ s := Nat.mul_le_mul_right _ h1
    have h3 : B ^ L * 2 ^ s ≤ B ^ L * HALF := Nat.mul_le_mul_left _ hHB
    have h4 : HALF * B ^ (yc - 1) * (B ^ (L - yc) * B) ≤ val Yl * (B ^ (L - yc) * B) := Nat.mul_le_mul_right _ hYn
    have e : HALF * B ^ (yc - 1) * (B ^ (L - yc) * B) = B ^ L * HALF := by rw [hBL]; ring
    rw [Nat.add_mul, Nat.one_mul] at h2
    rw [Nat.mul_assoc]
    omega
  obtain ⟨p1, p2, p3, p4, p5⟩ := rwPhase1_spec ok hyc hyl hy hv1 hL lo.1.reverse x up.2
    (WF_reverse.mpr a2) x2 x1 hup2 hT0lt
  rw [List.reverse_reverse, List.length_reverse, a3] at p5
  generalize hst1 : rwPhase1 rc Yl yc L lo.1.reverse (x, up.2) = st1 at *
  -- phase 2
  have hsplit : st1 = (st1.1.take (L - yc) ++ st1.1.drop (L - yc) ++ [], st1.2) := by simp
  have hlol2 : (st1.1.take (L - yc)).length = L - yc := by simp [p1]
  have hwinl : (st1.1.drop (L - yc)).length = yc := by simp [p1]; omega
  have hBL2 : B ^ L = B ^ (L - yc) * B ^ yc := by rw [← Nat.pow_add]; congr 1; omega
  have hT1 : val st1.1 + B ^ L * st1.2 =
      val (st1.1.take (L - yc)) + B ^ (L - yc) * (val (st1.1.drop (L - yc)) + B ^ yc * st1.2) := by
    have := val_take_drop st1.1 (L - yc)
    rw [hlol2] at this
    rw [this, hBL2]; ring
  have hW : val (st1.1.drop (L - yc)) + B ^ yc * st1.2 < val Yl * B := by
    rw [hT1] at p4
    have h1 : B ^ (L - yc) * (val (st1.1.drop (L - yc)) + B ^ yc * st1.2) < B ^ (L - yc) * (val Yl * B) := by
      have e : val Yl * B ^ (L - yc) * B = B ^ (L - yc) * (val Yl * B) := by ring
      omega
    exact Nat.lt_of_mul_lt_mul_left h1
  obtain ⟨r, q1, q2, q3, q4, q5⟩ := rwPhase2_spec ok hyc hyl hy hv1 (L - yc) _ _ [] st1.2 hlol2 hwinl
    (WF_take p2 _) (WF_drop p2 _) p3 hW
  rw [← hsplit] at q1 q4 q5
  rw [List.take_append_drop, show L - yc + yc = L by omega] at q5
  have hst : st = rwPhase2 rc Yl yc (L - yc) st1 := by rw [← hst1]
  rw [← hst] at q1 q4 q5
  -- the value
  have hdvd : val Yl ∣ val Yl * B ^ (L - yc) := Dvd.intro _ rfl
  have hN : (val upper * 2 ^ s + lo.2) * B ^ L + val lo.1 = (val lower + B ^ L * val upper) * 2 ^ s := by
    zify at a1 ⊢
    linear_combination a1
  have hval : val r + B ^ (yc - 1) * st.2 = ((val lower + B ^ L * val upper) * 2 ^ s) % val Yl := by
    rw [q5, ← Nat.mod_mod_of_dvd _ hdvd, p5, hT0, hN, Nat.mod_mod_of_dvd _ hdvd]
  have hstw : WF st.1 := by
    rw [q1]; exact WF_append.mpr ⟨WF_append.mpr ⟨WF_append.mpr ⟨q3, WF_cons.mpr ⟨q4, WF_nil⟩⟩, zeros_WF _⟩, WF_nil⟩
  have hstl : st.1.length = L := by rw [q1]; simp [q2, zeros_length]; omega
  have hdz : val (st.1.drop yc) = 0 := by
    rw [q1, List.append_nil, List.drop_left' (by simp [q2]; omega), val_zeros]
  obtain ⟨s1, s2, s3⟩ := shrLimbVartime_low (m := yc) hs hstw (by omega) hdz
  refine ⟨?_, s2, by rw [s3, hstl]⟩
  rw [s1, ← hval, q1, List.append_nil, val_append, val_zeros, Nat.mul_zero, Nat.add_zero, val_append, q2]
  simp [val]

theorem shlLimb_first {a : List Nat} {s : Nat} (hne : a ≠ []) :
    (shlLimb a s).1.getD 0 0 = ((a.getD 0 0) <<< s) % B := by
  cases a with
  | nil => exact absurd rfl hne
  | cons h t => rfl

theorem orLimb0_spec {l : List Nat} {c : Nat} (hne : l ≠ []) :
    orLimb0 l c = l.set 0 ((l.getD 0 0) ||| c) := by
  cases l with
  | nil => exact absurd rfl hne
  | cons h t => rfl

/-- `rem_limb_with_reciprocal_wide((lo, hi), reciprocal)` -/
theorem remLimbWide_spec {rc : Reciprocal} (ok : RcOK rc) {d : Nat} (hs : rc.shift < 64)
    (hdn : rc.divisorNormalized = d * 2 ^ rc.shift) (hd0 : 0 < d)
    {lo hi : List Nat} (hlo : WF lo) (hhi : WF hi) (hl : hi.length = lo.length) (hne : hi ≠ []) :
    remLimbWithReciprocalWide lo hi rc = (val lo + B ^ lo.length * val hi) % d := by
  obtain ⟨l1, l2, l3, l4⟩ := shlLimb_spec hs hlo
  obtain ⟨h1, h2, h3, h4⟩ := shlLimb_spec hs hhi
  have hpos : 0 < 2 ^ rc.shift := Nat.pow_pos (by decide)
  have hdnpos : 0 < rc.divisorNormalized := Nat.lt_of_lt_of_le (by decide) ok.h1
  have hpow : 2 ^ rc.shift ≤ rc.divisorNormalized := by
    rw [hdn]; exact Nat.le_mul_of_pos_left _ hd0
  have hfirst := shlLimb_first (s := rc.shift) hne
  have hSne : (shlLimb hi rc.shift).1 ≠ [] := by
    intro h; rw [h] at h3; simp at h3
    exact hne (List.length_eq_zero_iff.mp h3.symm)
  obtain ⟨o1, o2⟩ := or_carry (x := hi.getD 0 0) hs l4
  unfold remLimbWithReciprocalWide
  simp only []
  rw [orLimb0_spec hSne, hfirst, o1]
  generalize hLS : shlLimb lo rc.shift = LS at *
  generalize hHS : shlLimb hi rc.shift = HS at *
  have hxw : WF (HS.1.set 0 ((hi.getD 0 0) <<< rc.shift % B + LS.2)) := WF_set h2 o2 0
  have hxv := val_set0 ((hi.getD 0 0) <<< rc.shift % B + LS.2) hSne
  rw [hfirst] at hxv
  have hxl : (HS.1.set 0 ((hi.getD 0 0) <<< rc.shift % B + LS.2)).length = lo.length := by simp [h3, hl]
  generalize hX : HS.1.set 0 ((hi.getD 0 0) <<< rc.shift % B + LS.2) = X at *
  have hxval : val X = val HS.1 + LS.2 := by omega
  obtain ⟨_, e1, _, _⟩ := divLimbLoopRev_spec ok (us := X.reverse) (r := HS.2) (WF_reverse.mpr hxw)
    (Nat.lt_of_lt_of_le h4 hpow)
  rw [remLimbLoopRev_eq rc X.reverse HS.2, e1, List.reverse_reverse, List.length_reverse, hxl]
  obtain ⟨_, e2, _, _⟩ := divLimbLoopRev_spec ok (us := LS.1.reverse)
    (r := (HS.2 * B ^ lo.length + val X) % rc.divisorNormalized) (WF_reverse.mpr l2) (Nat.mod_lt _ hdnpos)
  rw [remLimbLoopRev_eq, e2, List.reverse_reverse, List.length_reverse, l3]
  rw [mod_congr_step (Nat.mod_mod _ _), Nat.shiftRight_eq_div_pow]
  have hN : (HS.2 * B ^ lo.length + val X) * B ^ lo.length + val LS.1 =
      (val lo + B ^ lo.length * val hi) * 2 ^ rc.shift := by
    rw [hxval]
    rw [hl] at h1
    zify at l1 h1 ⊢
    linear_combination l1 + (B:ℤ) ^ lo.length * h1
  rw [hN, hdn, Nat.mul_mod_mul_right, Nat.mul_div_cancel _ hpos]

/-- **T02.7d** `Uint::rem_wide_vartime((lower, upper), rhs)` -/
theorem remWideVartime_spec (H : HRecip) {lower upper d : List Nat} (hlo : WF lower) (hup : WF upper)
    (hd : WF d) (hll : lower.length = d.length) (hul : upper.length = d.length) (hd0 : val d ≠ 0) :
    remWideVartime lower upper d =
      toLimbs d.length ((val lower + B ^ d.length * val upper) % val d) := by
  obtain ⟨f1, f2, f3, f4⟩ := yc_facts hd hd0 rfl rfl
  obtain ⟨s, hs⟩ : ∃ s, s = (64 - bitLen (val d) % 64) % 64 := ⟨_, rfl⟩
  obtain ⟨n1, n2, n3, n4⟩ := norm_facts hd0 rfl rfl hs
  have hpos : 0 < 2 ^ s := Nat.pow_pos (by decide)
  have hdne : d ≠ [] := by intro h; rw [h] at hd0; exact hd0 rfl
  have hLpos : 0 < d.length := List.length_pos_iff.mpr hdne
  unfold remWideVartime
  simp only [← hs]
  generalize hyc : (bitLen (val d) + 63) / 64 = yc at *
  by_cases h1 : yc = 1
  · rw [if_pos h1]
    subst h1
    have hv := single_limb_val hd (by simpa using f4) hdne
    have hd0' : 0 < d.getD 0 0 := by omega
    obtain ⟨ok, e1, e2⟩ := Reciprocal_new_ok H hd0' (getD_lt hd 0)
    obtain ⟨z1, _, _⟩ := leadingZeros_spec hd0' (getD_lt hd 0)
    have hune : upper ≠ [] := by intro h; rw [h] at hul; simp at hul; omega
    rw [remLimbWide_spec ok (by rw [e2]; exact z1) (by rw [e1, e2]) hd0' hlo hup (by rw [hul, hll]) hune,
      hll, hv]
  · rw [if_neg h1]
    have hyc2 : 2 ≤ yc := by omega
    obtain ⟨y1, y2, y3, y4⟩ := shlLimbVartime_low n1 hd (by omega) f2 n4
    have hy0 : (shlLimbVartime d s yc).1.getD (yc - 1) 0 = ((shlLimbVartime d s yc).1.take yc).getD (yc - 1) 0 :=
      (getD_take (by omega)).symm
    have htop := top_limb_normalized (by omega) y3 y2 (by rw [y1]; exact n3)
    obtain ⟨ok, hdn⟩ := Reciprocal_new_normalized H htop (getD_lt y2 (yc - 1))
    have hcore := remWide_core (s := s) ok hyc2 f2 n1 y3 y2 hdn.symm (by rw [y1]; exact n3) hlo hup hll hul
    simp only [] at hcore
    obtain ⟨c1, c2, c3⟩ := hcore
    rw [hy0]
    apply eq_toLimbs c2 c3
    rw [c1, y1, Nat.mul_mod_mul_right, Nat.mul_div_cancel _ hpos]

end CB.Div
