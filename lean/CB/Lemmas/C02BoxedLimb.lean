/-
  CB.Lemmas.C02BoxedLimb — `BoxedUint::rem_limb` (shift on the fly) equals the fixed-width routine;
  `BoxedUint::rem_vartime`.
-/
import CB.Lemmas.C02Wide
namespace CB.Div
open CB

/-- the shifted limbs, most significant first, as the boxed `rem_limb` computes them on the fly -/
def shiftedRev (s r nz : Nat) : List Nat → List Nat
  | [] => []
  | [u0] => [(u0 <<< s) % B]
  | uj :: ujm1 :: rest => (((uj <<< s) % B) ||| ((ujm1 >>> r) &&& nz)) :: shiftedRev s r nz (ujm1 :: rest)

theorem boxedRemLimbLoopG_eq (f : Nat → Nat → Nat) (s r nz : Nat) :
    ∀ (rv : List Nat) (hi : Nat),
      boxedRemLimbLoopG f s r nz rv hi = (shiftedRev s r nz rv).foldl f hi := by
  intro rv
  induction rv with
  | nil => intro hi; simp only [boxedRemLimbLoopG, shiftedRev, List.foldl_nil]
  | cons uj rest ih =>
    intro hi
    cases rest with
    | nil => simp only [boxedRemLimbLoopG, shiftedRev, List.foldl_cons, List.foldl_nil]
    | cons ujm1 rest =>
      simp only [boxedRemLimbLoopG, shiftedRev, List.foldl_cons]
      exact ih _

theorem boxedRemLimbLoop_eq (rc : Reciprocal) (s r nz : Nat) (rv : List Nat) (hi : Nat) :
    boxedRemLimbLoop rc s r nz rv hi = remLimbLoopRev rc (shiftedRev s r nz rv) hi := by
  unfold boxedRemLimbLoop remLimbLoopRev
  exact boxedRemLimbLoopG_eq _ s r nz rv hi

/-- appending one more (lower) limb `prev` below `a`: the former lowest shifted limb picks up the bits
    shifted out of `prev`, and `prev`'s own shifted limb is appended -/
theorem shiftedRev_snoc (s r nz : Nat) : ∀ (l : List Nat) (a : Nat),
    ∃ front, shiftedRev s r nz (l ++ [a]) = front ++ [(a <<< s) % B] ∧
      ∀ prev, shiftedRev s r nz (l ++ [a, prev]) =
        front ++ [((a <<< s) % B) ||| ((prev >>> r) &&& nz), (prev <<< s) % B] := by
  intro l
  induction l with
  | nil =>
    intro a
    refine ⟨[], by simp only [List.nil_append, shiftedRev], ?_⟩
    intro prev
    simp only [List.nil_append, shiftedRev]
  | cons u l ih =>
    intro a
    obtain ⟨front, h1, h2⟩ := ih a
    cases l with
    | nil =>
      refine ⟨[((u <<< s) % B) ||| ((a >>> r) &&& nz)], ?_, ?_⟩
      · simp only [List.cons_append, List.nil_append, shiftedRev]
      · intro prev
        simp only [List.cons_append, List.nil_append, shiftedRev]
    | cons v t =>
      refine ⟨(((u <<< s) % B) ||| ((v >>> r) &&& nz)) :: front, ?_, ?_⟩
      · have e : u :: v :: t ++ [a] = u :: v :: (t ++ [a]) := rfl
        have e' : shiftedRev s r nz (u :: v :: (t ++ [a])) =
            (((u <<< s) % B) ||| ((v >>> r) &&& nz)) :: shiftedRev s r nz (v :: (t ++ [a])) := by
          simp only [shiftedRev]
        rw [e, e']
        have : v :: (t ++ [a]) = v :: t ++ [a] := rfl
        rw [this, h1]; rfl
      · intro prev
        have e : u :: v :: t ++ [a, prev] = u :: v :: (t ++ [a, prev]) := rfl
        have e' : shiftedRev s r nz (u :: v :: (t ++ [a, prev])) =
            (((u <<< s) % B) ||| ((v >>> r) &&& nz)) :: shiftedRev s r nz (v :: (t ++ [a, prev])) := by
          simp only [shiftedRev]
        rw [e, e']
        have : v :: (t ++ [a, prev]) = v :: t ++ [a, prev] := rfl
        rw [this, h2 prev]; rfl

theorem shiftedRev_eq (s r nz : Nat) : ∀ (xs : List Nat) (prev : Nat),
    shiftedRev s r nz (xs.reverse ++ [prev]) =
      (shlLimbLoop s r nz prev xs).reverse ++ [(prev <<< s) % B] := by
  intro xs
  induction xs with
  | nil => intro prev; simp only [List.reverse_nil, List.nil_append, shiftedRev, shlLimbLoop]
  | cons a xs ih =>
    intro prev
    obtain ⟨front, h1, h2⟩ := shiftedRev_snoc s r nz xs.reverse a
    have hf : front = (shlLimbLoop s r nz a xs).reverse :=
      List.append_cancel_right (h1.symm.trans (ih a))
    have e : (a :: xs).reverse ++ [prev] = xs.reverse ++ [a, prev] := by simp
    rw [e, h2 prev, hf, shlLimbLoop_cons, List.reverse_cons]
    simp

/-- boxed on-the-fly `rem_limb_with_reciprocal` computes the same as the fixed-width routine -/
theorem boxedRemLimbWithReciprocal_eq (u : List Nat) (rc : Reciprocal) :
    boxedRemLimbWithReciprocal u rc = remLimbWithReciprocal u rc := by
  cases u with
  | nil =>
    simp only [boxedRemLimbWithReciprocal, remLimbWithReciprocal, shlLimb, boxedRemLimbLoop_eq,
      List.reverse_nil, shiftedRev, remLimbLoopRev_nil, List.getLastD_nil, Nat.zero_shiftRight, Nat.zero_and]
  | cons x0 xs =>
    have hrev : (x0 :: xs).reverse = xs.reverse ++ [x0] := List.reverse_cons
    have hsh : shlLimb (x0 :: xs) rc.shift =
        (((x0 <<< rc.shift) % B) :: shlLimbLoop rc.shift (if rc.shift = 0 then 0 else 64 - rc.shift)
            (nzMask rc.shift) x0 xs,
         (((x0 :: xs).getLastD 0) >>> ((64 - rc.shift) % 64)) &&& nzMask rc.shift) := rfl
    unfold boxedRemLimbWithReciprocal remLimbWithReciprocal
    simp only []
    rw [boxedRemLimbLoop_eq, hrev, shiftedRev_eq, hsh]
    simp only [List.reverse_cons]

theorem boxedRemLimb_spec (H : HRecip) {d : Nat} (hd0 : 0 < d) (hd : d < B) {u : List Nat} (hu : WF u) :
    boxedRemLimb u d = val u % d := by
  obtain ⟨_, _, e3⟩ := divRemLimb_spec H hd0 hd hu
  unfold boxedRemLimb
  rw [boxedRemLimbWithReciprocal_eq]
  exact e3

/-- `BoxedUint::rem_vartime` (any two precisions) -/
theorem boxedRemVartime_spec (H : HRecip) {n d : List Nat} (hn : WF n) (hd : WF d) (hd0 : val d ≠ 0) :
    boxedRemVartime n d = toLimbs d.length (val n % val d) := by
  obtain ⟨f1, f2, f3, f4⟩ := yc_facts hd hd0 rfl rfl
  obtain ⟨t1, t2, t3, t4⟩ := take_yc hd hd0 rfl
  unfold boxedRemVartime
  simp only []
  generalize hyc : (bitLen (val d) + 63) / 64 = yc at *
  by_cases h1 : yc = 1
  · rw [if_pos h1]
    subst h1
    have hne : d ≠ [] := by intro h; rw [h] at hd0; exact hd0 rfl
    have hv := single_limb_val hd (by simpa using f4) hne
    have hd0' : 0 < d.getD 0 0 := by omega
    have hdlt := getD_lt hd 0
    rw [boxedRemLimb_spec H hd0' hdlt hn, hv]
    have hlt : val n % d.getD 0 0 < B := Nat.lt_trans (Nat.mod_lt _ hd0') hdlt
    apply eq_toLimbs (WF_cons.mpr ⟨hlt, zeros_WF _⟩)
    · simp [zeros_length]; omega
    · rw [val_cons, val_zeros]; simp
  · rw [if_neg h1]
    have hrlt : val n % val d < B ^ yc := Nat.lt_trans (Nat.mod_lt _ (by omega)) f4
    by_cases h2 : yc > n.length
    · rw [if_pos h2]
      have hlt : val n < val d := by
        have := val_lt hn
        have : B ^ n.length ≤ B ^ (yc - 1) := Nat.pow_le_pow_right B_pos (by omega)
        omega
      rw [Nat.mod_eq_of_lt hlt]
      apply eq_toLimbs (WF_append.mpr ⟨hn, zeros_WF _⟩)
      · simp [zeros_length]; omega
      · simp [val_append, val_zeros]
    · rw [if_neg h2]
      unfold divRemVartimeInPlace
      simp only [t2]
      rw [if_neg h2]
      have hcore := divRemVartimeCore_spec H hn t3 (by rw [t1]; exact hd0) (dbits := bitLen (val (d.take yc)))
        (yc := yc) rfl (by rw [t1]; exact hyc.symm) (by omega) (by omega)
      rw [hcore, t1, t2, t4]
      apply eq_toLimbs (WF_append.mpr ⟨toLimbs_WF _ _, zeros_WF _⟩)
      · simp [toLimbs_length, zeros_length]; omega
      · rw [val_append, val_zeros, Nat.mul_zero, Nat.add_zero, val_toLimbs, Nat.mod_eq_of_lt hrlt]

end CB.Div
