/-
  CB.Lemmas.GenSafeGcdJump — `jump` of src/modular/safegcd.rs (CB/Gen/SafeGcd.lean: `jump`, `jump_loop1`, regenerated from
  /repo's current source on every run) IS the hand-written `Int` model `CB.SafeGcd.jump` (CB/Model/SafeGcd.lean), on which
  the C10 theorems (`jump_spec`, `jump_full`: the matrix of 62 divsteps) are built.

  The translated loop works on two's-complement patterns with the WRAPPING release semantics of `+ - * <<` on `i64` /
  `i128`; the model on `Int`, wrapping only where the source says so.  The patterns of the model's values (`BitVec.ofInt`)
  are a ring homomorphic image, so bounds are needed exactly at the non-ring operations (`trailing_zeros`, `>>`, `min`,
  `delta > 0`, `as i128`): `round` is the ONE-ROUND lemma under those bounds, `loop_bridge` the induction over the rounds
  with the invariant of CB/Lemmas/C10Jump.lean supplying the bounds.
-/
import CB.Gen.SafeGcd
import CB.Lemmas.GenBitsSafeGcd
import CB.Lemmas.C10Jump
-- the fallback branches of `first | .. | ..` run only after a rewrite of the source
set_option linter.unusedTactic false
set_option linter.unreachableTactic false
namespace CB.GenSafeGcd
open CB.SafeGcd CB.InvMod2k

/-! ### patterns of integers -/

theorem toInt_ofInt64 {x : Int} (h1 : -(2 ^ 63) ≤ x) (h2 : x < 2 ^ 63) : (BitVec.ofInt 64 x).toInt = x :=
  BitVec.toInt_ofInt_eq_self (by decide) (by simpa using h1) (by simpa using h2)

theorem toInt_ofInt128 {x : Int} (h1 : -(2 ^ 127) ≤ x) (h2 : x < 2 ^ 127) : (BitVec.ofInt 128 x).toInt = x :=
  BitVec.toInt_ofInt_eq_self (by decide) (by simpa using h1) (by simpa using h2)

theorem ofInt_wrapI64 (x : Int) : BitVec.ofInt 64 (wrapI64 x) = BitVec.ofInt 64 x := by
  apply BitVec.eq_of_toNat_eq
  simp only [BitVec.toNat_ofInt]
  congr 1
  unfold wrapI64
  simp only
  split <;> omega

theorem setWidth_ofInt128 (x : Int) : (BitVec.ofInt 128 x).setWidth 64 = BitVec.ofInt 64 x := by
  apply BitVec.eq_of_toNat_eq
  simp only [BitVec.toNat_setWidth, BitVec.toNat_ofInt]
  omega

theorem signExtend_ofInt64 {x : Int} (h1 : -(2 ^ 63) ≤ x) (h2 : x < 2 ^ 63) :
    (BitVec.ofInt 64 x).signExtend 128 = BitVec.ofInt 128 x := by
  apply BitVec.eq_of_toInt_eq
  rw [BitVec.toInt_signExtend_of_le (by decide), toInt_ofInt64 h1 h2, toInt_ofInt128 (by omega) (by omega)]

theorem toNat_ofInt64 (x : Int) : (BitVec.ofInt 64 x).toNat = toU64 x := by
  simp only [BitVec.toNat_ofInt, toU64]
  rfl

theorem ofNat_eq_ofInt (w n : Nat) : BitVec.ofNat w n = BitVec.ofInt w (n : Int) := rfl

/-! ### `trailing_zeros` -/

set_option maxRecDepth 8000 in
theorem ctz_zero128 : (BitVec.ctz (0#128)).toNat = 128 := by decide

/-- divisibility characterisation of `BitVec.ctz` of a non-zero pattern -/
theorem ctz_spec {w : Nat} {x : BitVec w} (hx : x ≠ 0#w) :
    2 ^ x.ctz.toNat ∣ x.toNat ∧ x.toNat / 2 ^ x.ctz.toNat % 2 = 1 := by
  constructor
  · apply Nat.dvd_of_mod_eq_zero
    apply Nat.eq_of_testBit_eq
    intro i
    rw [Nat.testBit_mod_two_pow, Nat.zero_testBit]
    by_cases hi : i < x.ctz.toNat
    · have := BitVec.getLsbD_false_of_lt_ctz hi
      rw [BitVec.getLsbD] at this
      simp [this]
    · simp [hi]
  · have := BitVec.getLsbD_true_ctz_of_ne_zero hx
    rw [BitVec.getLsbD, Nat.testBit_eq_decide_div_mod_eq] at this
    simpa using this

theorem ctz_ofInt128 {g : Int} (h1 : -(2 ^ 127) ≤ g) (h2 : g < 2 ^ 127) :
    (BitVec.ctz (BitVec.ofInt 128 g)).toNat = tz128 g := by
  have hb : g.natAbs < 2 ^ 128 := by omega
  by_cases h0 : g = 0
  · subst h0
    show (BitVec.ctz (0#128)).toNat = _
    rw [ctz_zero128]; unfold tz128; exact (tzNat_zero 128).symm
  · have hx : BitVec.ofInt 128 g ≠ 0#128 := by
      intro h
      have := congrArg BitVec.toInt h
      rw [toInt_ofInt128 h1 h2] at this
      exact h0 (by simpa using this)
    obtain ⟨hd, ho⟩ := ctz_spec hx
    generalize hc : (BitVec.ctz (BitVec.ofInt 128 g)).toNat = c at hd ho
    have hc128 : c < 128 := by
      have := (BitVec.ctz_lt_iff_ne_zero (x := BitVec.ofInt 128 g)).mpr hx
      rw [BitVec.lt_def] at this
      rw [hc] at this
      simpa using this
    -- divisibility of the pattern transfers to `g`
    have hnat : ((BitVec.ofInt 128 g).toNat : Int) = g % 2 ^ 128 := by
      rw [BitVec.toNat_ofInt]; exact Int.toNat_of_nonneg (Int.emod_nonneg _ (by norm_num))
    have hdvd : ∀ k, k ≤ 128 → ((2 : Int) ^ k ∣ g ↔ 2 ^ k ∣ (BitVec.ofInt 128 g).toNat) := by
      intro k hk
      have hk2 : (2 : Int) ^ k ∣ 2 ^ 128 := pow_dvd_pow 2 hk
      have e : (((2 ^ k : Nat) : Int)) = (2 : Int) ^ k := by push_cast; rfl
      rw [← Int.natCast_dvd_natCast, hnat, e]
      rw [Int.dvd_iff_emod_eq_zero, Int.dvd_iff_emod_eq_zero, Int.emod_emod_of_dvd _ hk2]
    have hcd : (2 : Int) ^ c ∣ g := (hdvd c (by omega)).mpr hd
    have hle : c ≤ tz128 g := le_tz128_of_dvd hb (by omega) hcd
    by_contra hne
    have hlt : c + 1 ≤ tz128 g := by omega
    have h2 : (2 : Int) ^ (c + 1) ∣ g := pow_tz128_dvd hb hlt
    have h3 := (hdvd (c + 1) (by omega)).mp h2
    obtain ⟨q, hq⟩ := h3
    rw [hq, pow_succ, Nat.mul_assoc, Nat.mul_div_cancel_left _ (by positivity)] at ho
    omega

/-! ### the non-ring operations of one round -/

/-- the local `min` on in-range values -/
theorem min_ofInt {a b : Int} (ha1 : -(2 ^ 63) ≤ a) (ha2 : a < 2 ^ 63) (hb1 : -(2 ^ 63) ≤ b) (hb2 : b < 2 ^ 63) :
    Gen.SafeGcd.min (BitVec.ofInt 64 a) (BitVec.ofInt 64 b) = BitVec.ofInt 64 (imin a b) := by
  rw [GenBits.min_meaning, BitVec.slt_eq_decide, toInt_ofInt64 ha1 ha2, toInt_ofInt64 hb1 hb2]
  unfold imin
  by_cases h : a > b
  · rw [if_pos h, if_pos (by simpa using h)]
  · rw [if_neg h, if_neg (by simpa using h)]

theorem slt_zero_ofInt {d : Int} (h1 : -(2 ^ 63) ≤ d) (h2 : d < 2 ^ 63) :
    (BitVec.slt 0#64 (BitVec.ofInt 64 d) = true) ↔ d > 0 := by
  rw [BitVec.slt_eq_decide, toInt_ofInt64 h1 h2]
  simp

/-- `g >> zeros` on `i128` (arithmetic; the amount is taken modulo 128) -/
theorem sshiftRight_ofInt128 {g : Int} (h1 : -(2 ^ 127) ≤ g) (h2 : g < 2 ^ 127) {z : Nat} (hz : z < 128) :
    BitVec.sshiftRight (BitVec.ofInt 128 g) (BitVec.ofNat 64 z % 128#64).toNat = BitVec.ofInt 128 (g / 2 ^ z) := by
  have hzz : (BitVec.ofNat 64 z % 128#64).toNat = z := by
    rw [BitVec.toNat_umod, BitVec.toNat_ofNat]
    show z % 2 ^ 64 % 128 = z
    omega
  rw [hzz]
  apply BitVec.eq_of_toInt_eq
  rw [BitVec.toInt_sshiftRight, toInt_ofInt128 h1 h2, Int.shiftRight_eq_div_pow]
  have hp : (0 : Int) < 2 ^ z := by positivity
  have hq1 : -(2 ^ 127) ≤ g / 2 ^ z := by
    have : -(2 ^ 127 : Int) * 2 ^ z ≤ g := by nlinarith [hp]
    exact Int.le_ediv_of_mul_le hp this
  have hq2 : g / 2 ^ z < 2 ^ 127 := by
    apply Int.ediv_lt_of_lt_mul hp
    nlinarith [hp]
  rw [toInt_ofInt128 hq1 hq2]
  norm_cast

/-- `x << zeros` on `i64` (release semantics: wraps; the amount is taken modulo 64) -/
theorem shiftLeft_ofInt64 (a : Int) {z : Nat} (hz : z < 64) :
    BitVec.ofInt 64 a <<< (BitVec.ofNat 64 z % 64#64) = BitVec.ofInt 64 (wrapI64 (a * 2 ^ z)) := by
  have hzz : (BitVec.ofNat 64 z % 64#64).toNat = z := by
    rw [BitVec.toNat_umod, BitVec.toNat_ofNat]
    show z % 2 ^ 64 % 64 = z
    omega
  rw [BitVec.shiftLeft_eq', hzz, ofInt_wrapI64, BitVec.shiftLeft_eq_mul_twoPow, BitVec.ofInt_mul]
  congr 1
  apply BitVec.eq_of_toNat_eq
  rw [BitVec.toNat_twoPow_of_lt hz, BitVec.toNat_ofInt]
  have : ((2 : Int) ^ z) % ((2 ^ 64 : Nat) : Int) = 2 ^ z := Int.emod_eq_of_lt (by positivity) (by
    exact_mod_cast (Nat.pow_lt_pow_right (by norm_num) hz : 2 ^ z < 2 ^ 64))
  rw [this]
  norm_cast

theorem ofNat_sub64 {a b : Nat} (h : b ≤ a) (ha : a < 2 ^ 64) :
    BitVec.ofNat 64 a - BitVec.ofNat 64 b = BitVec.ofNat 64 (a - b) := by
  apply BitVec.eq_of_toNat_eq
  rw [BitVec.toNat_sub]
  simp only [BitVec.toNat_ofNat]
  omega

theorem ofNat_beq_zero {a : Nat} (ha : a < 2 ^ 64) : ((BitVec.ofNat 64 a == 0#64) = true) ↔ a = 0 := by
  rw [beq_iff_eq]
  constructor
  · intro h
    have := congrArg BitVec.toNat h
    simp only [BitVec.toNat_ofNat] at this
    omega
  · intro h; subst h; rfl

theorem ofInt_sub64 (a b : Int) : BitVec.ofInt 64 a - BitVec.ofInt 64 b = BitVec.ofInt 64 (a - b) := by
  rw [BitVec.sub_eq_add_neg, ← BitVec.ofInt_neg, ← BitVec.ofInt_add, Int.sub_eq_add_neg]

theorem mask_toNat {j : Nat} (h1 : 1 ≤ j) (h5 : j ≤ 5) :
    ((1#64 <<< (BitVec.ofNat 64 j % 64#64)) - 1#64).toNat = 2 ^ j - 1 := by
  have : j = 1 ∨ j = 2 ∨ j = 3 ∨ j = 4 ∨ j = 5 := by omega
  rcases this with rfl | rfl | rfl | rfl | rfl <;> rfl

/-- `mask = (1 << min(min(steps, 1 - delta), 5)) - 1; w = (g as i64).wrapping_mul(f.wrapping_mul(3) ^ 28) & mask` -/
theorem w_ofInt (s : JS) (hs1 : 1 ≤ s.steps) (hs2 : s.steps ≤ 62) (hd1 : s.delta ≤ 0) (hd2 : -(2 ^ 63) + 2 ≤ s.delta) :
    ((BitVec.ofInt 128 s.g).setWidth 64 * ((BitVec.ofInt 64 s.f * 3#64) ^^^ 28#64)) &&&
      ((1#64 <<< ((Gen.SafeGcd.min (Gen.SafeGcd.min (BitVec.ofNat 64 s.steps) (1#64 - BitVec.ofInt 64 s.delta)) 5#64)
        % 64#64)) - 1#64) = BitVec.ofNat 64 (jumpW s) := by
  obtain ⟨hj1, hj5, _⟩ := jumpJ_bounds s hd1 hs1
  have hmin : Gen.SafeGcd.min (Gen.SafeGcd.min (BitVec.ofNat 64 s.steps) (1#64 - BitVec.ofInt 64 s.delta)) 5#64 =
      BitVec.ofNat 64 (jumpJ s) := by
    have e1 : (1#64 : BitVec 64) = BitVec.ofInt 64 1 := rfl
    have e5 : (5#64 : BitVec 64) = BitVec.ofInt 64 5 := rfl
    rw [e1, e5, ofInt_sub64, ofNat_eq_ofInt, min_ofInt (by omega) (by omega) (by omega) (by omega)]
    have hb : -(2 ^ 63 : Int) ≤ imin (s.steps : Nat) (1 - s.delta) ∧ imin (s.steps : Nat) (1 - s.delta) < 2 ^ 63 := by
      unfold imin; split <;> omega
    rw [min_ofInt hb.1 hb.2 (by omega) (by omega), ofNat_eq_ofInt]
    congr 1
    unfold jumpJ
    have : 0 ≤ imin (imin (s.steps : Nat) (1 - s.delta)) 5 := by
      unfold imin; split <;> split <;> omega
    omega
  rw [hmin]
  have hA : ((BitVec.ofInt 128 s.g).setWidth 64 * ((BitVec.ofInt 64 s.f * 3#64) ^^^ 28#64)).toNat =
      (toU64 s.g * (((toU64 s.f * 3) % U64) ^^^ 28)) % U64 := by
    rw [setWidth_ofInt128, BitVec.toNat_mul, BitVec.toNat_xor, BitVec.toNat_mul, toNat_ofInt64, toNat_ofInt64]; rfl
  apply BitVec.eq_of_toNat_eq
  rw [BitVec.toNat_and, mask_toNat hj1 hj5, hA, BitVec.toNat_ofNat]
  have hlt := jumpW_lt s
  have h32 : 2 ^ jumpJ s ≤ 2 ^ 5 := Nat.pow_le_pow_right (by norm_num) hj5
  have hw64 : jumpW s < 2 ^ 64 := by omega
  rw [Nat.mod_eq_of_lt hw64]
  rfl

/-! ### one round of the translated loop = one round of the model -/

abbrev BMat := (BitVec 64 × BitVec 64) × (BitVec 64 × BitVec 64)
/-- the `i64` patterns of a model matrix, in the shape of the translated `Matrix = [[i64; 2]; 2]` -/
def bmat (t : Mat) : BMat :=
  ((BitVec.ofInt 64 t.t00, BitVec.ofInt 64 t.t01), (BitVec.ofInt 64 t.t10, BitVec.ofInt 64 t.t11))
/-- the patterns of a model state, in the order of the translated loop state `(f, g, delta, steps, t)` -/
def bstate (s : JS) : BitVec 64 × BitVec 128 × BitVec 64 × BitVec 64 × BMat :=
  (BitVec.ofInt 64 s.f, BitVec.ofInt 128 s.g, BitVec.ofInt 64 s.delta, BitVec.ofNat 64 s.steps, bmat s.t)
/-- the translated loop started from the patterns of a model state -/
def genLoop (n : Nat) (s : JS) : BitVec 64 × BitVec 128 × BitVec 64 × BitVec 64 × BMat :=
  Gen.SafeGcd.jump_loop1 n (BitVec.ofInt 64 s.f) (BitVec.ofInt 128 s.g) (BitVec.ofInt 64 s.delta)
    (BitVec.ofNat 64 s.steps) (bmat s.t)

theorem zeros_eq (s : JS) (hs : s.steps ≤ 62) (hg1 : -(2 ^ 127) ≤ s.g) (hg2 : s.g < 2 ^ 127) :
    Gen.SafeGcd.min (BitVec.ofNat 64 s.steps) (((BitVec.ctz (BitVec.ofInt 128 s.g)).setWidth 32).setWidth 64) =
      BitVec.ofNat 64 (jzeros s) := by
  have htz := ctz_ofInt128 hg1 hg2
  have hle := tz128_le s.g
  have e : ((BitVec.ctz (BitVec.ofInt 128 s.g)).setWidth 32).setWidth 64 = BitVec.ofNat 64 (tz128 s.g) := by
    apply BitVec.eq_of_toNat_eq
    rw [BitVec.toNat_setWidth, BitVec.toNat_setWidth, htz, BitVec.toNat_ofNat]
    omega
  rw [e, ofNat_eq_ofInt, ofNat_eq_ofInt, min_ofInt (by omega) (by omega) (by omega) (by omega), ofNat_eq_ofInt]
  congr 1
  unfold imin jzeros
  split <;> split <;> omega

theorem wrapI64_range (x : Int) : -(2 ^ 63) ≤ wrapI64 x ∧ wrapI64 x < 2 ^ 63 := by
  unfold wrapI64
  simp only
  split <;> omega

/-- the second half of a round (`mask`, `w`, `t[1] = ..`, `g += w·f`, next round) on the patterns of a model state -/
theorem add_stage (n : Nat) (s : JS) (hs1 : 1 ≤ s.steps) (hs2 : s.steps ≤ 62) (hd1 : s.delta ≤ 0)
    (hd2 : -(2 ^ 63) + 2 ≤ s.delta) (hf1 : -(2 ^ 63) ≤ s.f) (hf2 : s.f < 2 ^ 63) :
    Gen.SafeGcd.jump_loop1 n (BitVec.ofInt 64 s.f)
      (BitVec.ofInt 128 s.g + (((BitVec.ofInt 128 s.g).setWidth 64 * ((BitVec.ofInt 64 s.f * 3#64) ^^^ 28#64)) &&&
        ((1#64 <<< ((Gen.SafeGcd.min (Gen.SafeGcd.min (BitVec.ofNat 64 s.steps) (1#64 - BitVec.ofInt 64 s.delta)) 5#64)
          % 64#64)) - 1#64)).signExtend 128 * (BitVec.ofInt 64 s.f).signExtend 128)
      (BitVec.ofInt 64 s.delta) (BitVec.ofNat 64 s.steps)
      ((BitVec.ofInt 64 s.t.t00, BitVec.ofInt 64 s.t.t01),
        (BitVec.ofInt 64 s.t.t00 * (((BitVec.ofInt 128 s.g).setWidth 64 * ((BitVec.ofInt 64 s.f * 3#64) ^^^ 28#64)) &&&
          ((1#64 <<< ((Gen.SafeGcd.min (Gen.SafeGcd.min (BitVec.ofNat 64 s.steps) (1#64 - BitVec.ofInt 64 s.delta)) 5#64)
            % 64#64)) - 1#64)) + BitVec.ofInt 64 s.t.t10,
         BitVec.ofInt 64 s.t.t01 * (((BitVec.ofInt 128 s.g).setWidth 64 * ((BitVec.ofInt 64 s.f * 3#64) ^^^ 28#64)) &&&
          ((1#64 <<< ((Gen.SafeGcd.min (Gen.SafeGcd.min (BitVec.ofNat 64 s.steps) (1#64 - BitVec.ofInt 64 s.delta)) 5#64)
            % 64#64)) - 1#64)) + BitVec.ofInt 64 s.t.t11)) =
    genLoop n (jumpAdd s) := by
  rw [w_ofInt s hs1 hs2 hd1 hd2]
  obtain ⟨_, hj5, _⟩ := jumpJ_bounds s hd1 hs1
  have hlt := jumpW_lt s
  have h32 : 2 ^ jumpJ s ≤ 2 ^ 5 := Nat.pow_le_pow_right (by norm_num) hj5
  rw [ofNat_eq_ofInt 64 (jumpW s), signExtend_ofInt64 (by omega) (by omega), signExtend_ofInt64 hf1 hf2]
  unfold genLoop jumpAdd bmat
  simp only [BitVec.ofInt_add, BitVec.ofInt_mul]

/-- one round of the loop of `jump` as `i64` / `i128` operations — the CANONICAL form of the loop body (the recursive call
    is the translated loop itself); `loop_unfold` ties the generated body to it up to `let`-structure and the order of the
    operands of commutative operations, so that every lemma below is about this form -/
def roundBV (n : Nat) (f : BitVec 64) (g : BitVec 128) (delta steps : BitVec 64) (t : BMat) :
    BitVec 64 × BitVec 128 × BitVec 64 × BitVec 64 × BMat :=
  let zeros := Gen.SafeGcd.min steps (((BitVec.ctz g).setWidth 32).setWidth 64)
  let steps1 := steps - zeros
  let delta1 := delta + zeros
  let g1 := BitVec.sshiftRight g (zeros % 128#64).toNat
  let t1 : BMat := ((t.1.1 <<< (zeros % 64#64), t.1.2 <<< (zeros % 64#64)), t.2)
  if (steps1 == 0#64) = true then (f, g1, delta1, steps1, t1) else
  let p : BitVec 64 × BitVec 128 × BitVec 64 × BMat :=
    if (BitVec.slt 0#64 delta1) = true then
      (g1.setWidth 64, (-f).signExtend 128, -delta1, (t1.2, (-t1.1.1, -t1.1.2)))
    else (f, g1, delta1, t1)
  let w := (p.2.1.setWidth 64 * ((p.1 * 3#64) ^^^ 28#64)) &&&
    ((1#64 <<< ((Gen.SafeGcd.min (Gen.SafeGcd.min steps1 (1#64 - p.2.2.1)) 5#64) % 64#64)) - 1#64)
  Gen.SafeGcd.jump_loop1 n p.1 (p.2.1 + w.signExtend 128 * p.1.signExtend 128) p.2.2.1 steps1
    (p.2.2.2.1, (p.2.2.2.1.1 * w + p.2.2.2.2.1, p.2.2.2.1.2 * w + p.2.2.2.2.2))

/-- the generated loop body IS the canonical round (definitionally, or after reordering commutative operands) -/
theorem loop_unfold (n : Nat) (f : BitVec 64) (g : BitVec 128) (delta steps : BitVec 64) (t : BMat) :
    Gen.SafeGcd.jump_loop1 (n + 1) f g delta steps t = roundBV n f g delta steps t := by
  rw [Gen.SafeGcd.jump_loop1]
  first
    | rfl
    | (simp only [roundBV]; done)
    | (simp only [roundBV]; ac_rfl)

/-- the generated `jump` is: the loop with fuel 64 on `(f[0] as i64, g[0] as i128, delta, 62, identity)`, then `(delta, t)` -/
theorem jump_unfold (f g : List (BitVec 64)) (delta : BitVec 64) :
    Gen.SafeGcd.jump f g delta =
      ((Gen.SafeGcd.jump_loop1 64 (f.getD 0 0#64) ((g.getD 0 0#64).setWidth 128) delta 62#64
          ((1#64, 0#64), (0#64, 1#64))).2.2.1,
       (Gen.SafeGcd.jump_loop1 64 (f.getD 0 0#64) ((g.getD 0 0#64).setWidth 128) delta 62#64
          ((1#64, 0#64), (0#64, 1#64))).2.2.2.2) := by
  first
    | rfl
    | (simp only [Gen.SafeGcd.jump]; done)

theorem round (n : Nat) (s : JS) (hs : s.steps ≤ 62) (hg1 : -(2 ^ 127) ≤ s.g) (hg2 : s.g < 2 ^ 127)
    (hf1 : -(2 ^ 63) < s.f) (hf2 : s.f < 2 ^ 63) (hd1 : -(2 ^ 63) + 64 ≤ s.delta) (hd2 : s.delta ≤ 2 ^ 63 - 64) :
    genLoop (n + 1) s =
      if (jumpShift s).steps = 0 then bstate (jumpShift s) else genLoop n (jumpAdd (jumpSwap (jumpShift s))) := by
  have hzs := jzeros_le_steps s
  generalize hz : jzeros s = z at hzs
  have e_steps : BitVec.ofNat 64 s.steps - BitVec.ofNat 64 z = BitVec.ofNat 64 (s.steps - z) :=
    ofNat_sub64 hzs (by omega)
  have e_delta : BitVec.ofInt 64 s.delta + BitVec.ofNat 64 z = BitVec.ofInt 64 (s.delta + (z : Nat)) := by
    rw [BitVec.ofInt_add]; rfl
  have e_g : BitVec.sshiftRight (BitVec.ofInt 128 s.g) (BitVec.ofNat 64 z % 128#64).toNat =
      BitVec.ofInt 128 (s.g / 2 ^ z) := sshiftRight_ofInt128 hg1 hg2 (by omega)
  have e_t00 := shiftLeft_ofInt64 s.t.t00 (z := z) (by omega)
  have e_t01 := shiftLeft_ofInt64 s.t.t01 (z := z) (by omega)
  have e_brk : ((BitVec.ofNat 64 (s.steps - z) == 0#64) = true) = (s.steps - z = 0) :=
    propext (ofNat_beq_zero (by omega))
  have e_pos : ((0#64).slt (BitVec.ofInt 64 (s.delta + (z : Nat))) = true) = (s.delta + (z : Nat) > 0) :=
    propext (slt_zero_ofInt (by omega) (by omega))
  have hshift : jumpShift s = ⟨s.steps - z, s.delta + (z : Nat), s.f, s.g / 2 ^ z,
      ⟨wrapI64 (s.t.t00 * 2 ^ z), wrapI64 (s.t.t01 * 2 ^ z), s.t.t10, s.t.t11⟩⟩ := by
    unfold jumpShift; rw [hz]
  unfold genLoop
  rw [loop_unfold]
  simp only [roundBV, zeros_eq s hs hg1 hg2, hz, bmat, e_steps, e_delta, e_g, e_t00, e_t01, e_brk, e_pos, hshift]
  by_cases hb : s.steps - z = 0
  · simp only [hb, if_true, bstate, bmat]
  · simp only [hb, if_false]
    by_cases hp : s.delta + (z : Nat) > 0
    · simp only [hp, if_true]
      have hwr := wrapI64_range (s.g / 2 ^ z)
      have e_f2 : BitVec.setWidth 64 (BitVec.ofInt 128 (s.g / 2 ^ z)) = BitVec.ofInt 64 (wrapI64 (s.g / 2 ^ z)) := by
        rw [setWidth_ofInt128, ofInt_wrapI64]
      have e_g2 : BitVec.signExtend 128 (BitVec.ofInt 64 (-s.f)) = BitVec.ofInt 128 (-s.f) :=
        signExtend_ofInt64 (by omega) (by omega)
      have hsw : jumpSwap ⟨s.steps - z, s.delta + (z : Nat), s.f, s.g / 2 ^ z,
          ⟨wrapI64 (s.t.t00 * 2 ^ z), wrapI64 (s.t.t01 * 2 ^ z), s.t.t10, s.t.t11⟩⟩ =
          ⟨s.steps - z, -(s.delta + (z : Nat)), wrapI64 (s.g / 2 ^ z), -s.f,
            ⟨s.t.t10, s.t.t11, -wrapI64 (s.t.t00 * 2 ^ z), -wrapI64 (s.t.t01 * 2 ^ z)⟩⟩ := by
        unfold jumpSwap
        simp only [hp, if_true]
      rw [hsw]
      simp only [e_f2, ← BitVec.ofInt_neg]
      simp only [e_g2]
      have := add_stage n ⟨s.steps - z, -(s.delta + (z : Nat)), wrapI64 (s.g / 2 ^ z), -s.f,
            ⟨s.t.t10, s.t.t11, -wrapI64 (s.t.t00 * 2 ^ z), -wrapI64 (s.t.t01 * 2 ^ z)⟩⟩
            (by show 1 ≤ s.steps - z; omega) (by show s.steps - z ≤ 62; omega)
            (by show -(s.delta + (z : Nat)) ≤ 0; omega) (by show -(2 ^ 63) + 2 ≤ -(s.delta + (z : Nat)); omega) hwr.1 hwr.2
      simp only [] at this
      exact this
    · simp only [hp, if_false]
      have hsw : jumpSwap ⟨s.steps - z, s.delta + (z : Nat), s.f, s.g / 2 ^ z,
          ⟨wrapI64 (s.t.t00 * 2 ^ z), wrapI64 (s.t.t01 * 2 ^ z), s.t.t10, s.t.t11⟩⟩ =
          ⟨s.steps - z, s.delta + (z : Nat), s.f, s.g / 2 ^ z,
          ⟨wrapI64 (s.t.t00 * 2 ^ z), wrapI64 (s.t.t01 * 2 ^ z), s.t.t10, s.t.t11⟩⟩ := by
        unfold jumpSwap
        simp only [hp, if_false]
      rw [hsw]
      have := add_stage n ⟨s.steps - z, s.delta + (z : Nat), s.f, s.g / 2 ^ z,
          ⟨wrapI64 (s.t.t00 * 2 ^ z), wrapI64 (s.t.t01 * 2 ^ z), s.t.t10, s.t.t11⟩⟩
            (by show 1 ≤ s.steps - z; omega) (by show s.steps - z ≤ 62; omega)
            (by show s.delta + (z : Nat) ≤ 0; omega) (by show -(2 ^ 63) + 2 ≤ s.delta + (z : Nat); omega)
            (by show -(2 ^ 63) ≤ s.f; omega) (by show s.f < 2 ^ 63; omega)
      simp only [] at this
      exact this

/-! ### induction over the rounds -/

/-- the loop-head invariant of CB/Lemmas/C10Jump.lean keeps `f` inside `i64` and `g` well inside `i128` -/
theorem JH_bounds {f0 g0 : Int} {s : JS} (h : JH f0 g0 s) (hf0 : |f0| ≤ 2 ^ 62) (hg0 : |g0| ≤ 2 ^ 62) :
    |s.f| ≤ 2 ^ 62 ∧ |s.g| ≤ 2 ^ 124 := by
  have hP : (0 : Int) < 2 ^ (62 - s.steps) := by positivity
  constructor
  · have := lin_bound hP h.r0 (C := 1) (by rw [mul_one]; exact h.b0) hf0 hg0
    simpa using this
  · have hb := lin_bound hP h.r1 h.b1 hf0 hg0
    have hz : (2 : Int) ^ jzeros s ≤ 2 ^ 62 :=
      pow_le_pow_right₀ (by norm_num) (le_trans (jzeros_le_steps s) h.hs)
    calc |s.g| ≤ 2 ^ jzeros s * 2 ^ 62 := hb
      _ ≤ 2 ^ 62 * 2 ^ 62 := mul_le_mul_of_nonneg_right hz (by positivity)
      _ = 2 ^ 124 := by norm_num

/-- The translated `loop { .. break .. }` (fuel-recursive `jump_loop1`) started from the patterns of a model state
    that satisfies the loop-head invariant computes the patterns of the model's `jumpLoop`, for EVERY fuel: no `i64` /
    `i128` operation of the source wraps on the way (`delta` stays within `2^62 + 62` of zero). -/
theorem loop_bridge {f0 g0 : Int} (hf0 : |f0| ≤ 2 ^ 62) (hg0 : |g0| ≤ 2 ^ 62) :
    ∀ n s, JH f0 g0 s → (s.f % 2 = 1 ∨ 0 < s.delta) →
      s.delta ≤ 2 ^ 62 + 62 - (s.steps : Nat) → -(2 ^ 62 + 62 - (s.steps : Nat)) ≤ s.delta →
      genLoop n s = bstate (jumpLoop n s) ∧
        (jumpLoop n s).delta ≤ 2 ^ 62 + 62 - ((jumpLoop n s).steps : Nat) ∧
        -(2 ^ 62 + 62 - ((jumpLoop n s).steps : Nat)) ≤ (jumpLoop n s).delta := by
  intro n
  induction n with
  | zero => intro s _ _ hdu hdl; exact ⟨rfl, hdu, hdl⟩
  | succ n ih =>
    intro s h hpre hdu hdl
    obtain ⟨hfb, hgb⟩ := JH_bounds h hf0 hg0
    have hfa := abs_le.mp hfb
    have hga := abs_le.mp hgb
    have hs62 := h.hs
    rw [round n s hs62 (by linarith [hga.1]) (by linarith [hga.2]) (by linarith [hfa.1]) (by linarith [hfa.2])
      (by omega) (by omega)]
    have e : jumpLoop (n + 1) s =
        if (jumpShift s).steps = 0 then jumpShift s
        else jumpLoop n (jumpAdd (jumpSwap (jumpShift s))) := rfl
    rw [e]
    obtain ⟨hT1, hf1, hst1, hdl1, hg1⟩ := jumpShift_inv h hf0 hg0
    by_cases hdone : (jumpShift s).steps = 0
    · rw [if_pos hdone, if_pos hdone]
      refine ⟨rfl, ?_, ?_⟩
      · rw [hdl1, hst1]; have := jzeros_le_steps s; omega
      · rw [hdl1, hst1]; have := jzeros_le_steps s; omega
    · rw [if_neg hdone, if_neg hdone]
      have hs1 : 1 ≤ (jumpShift s).steps := by omega
      have hz_lt : jzeros s < s.steps := by omega
      have hz_tz : jzeros s = tz128 s.g := by
        by_cases hc : s.steps > tz128 s.g
        · unfold jzeros; rw [if_pos hc]
        · have : jzeros s = s.steps := by unfold jzeros; rw [if_neg hc]
          omega
      have hgb' := h.g_bound hf0 hg0
      have hgne : s.g ≠ 0 := by
        intro h0
        have : tz128 s.g = 128 := by unfold tz128; rw [h0]; exact tzNat_zero 128
        omega
      have hg1odd : (jumpShift s).g % 2 = 1 := by
        have : (jumpShift s).g = s.g / 2 ^ tz128 s.g := by
          show s.g / 2 ^ jzeros s = _; rw [hz_tz]
        rw [this]; exact div_tz128_odd hgb' hgne
      obtain ⟨hT2, hst2, hdl2, hf2⟩ := jumpSwap_inv hT1 hf0 hg0
      have hf2odd : (jumpSwap (jumpShift s)).f % 2 = 1 := by
        rw [hf2]
        by_cases hd : (jumpShift s).delta > 0
        · rw [if_pos hd]; exact hg1odd
        · rw [if_neg hd, hf1]
          rcases hpre with hp | hp
          · exact hp
          · exfalso; rw [hdl1] at hd; omega
      have hs2 : 1 ≤ (jumpSwap (jumpShift s)).steps := by rw [hst2]; exact hs1
      obtain ⟨hH3, _⟩ := jumpAdd_inv hT2 hf0 hg0 hf2odd hdl2 hs2
      have e3 : (jumpAdd (jumpSwap (jumpShift s))).steps = s.steps - jzeros s := by
        show (jumpSwap (jumpShift s)).steps = _; rw [hst2, hst1]
      have ed3 : (jumpAdd (jumpSwap (jumpShift s))).delta =
          if s.delta + (jzeros s : Nat) > 0 then -(s.delta + (jzeros s : Nat)) else s.delta + (jzeros s : Nat) := by
        show (jumpSwap (jumpShift s)).delta = _
        unfold jumpSwap
        rw [hdl1]
        split <;> rfl
      apply ih _ hH3 (Or.inl hf2odd)
      · rw [e3, ed3]; split <;> omega
      · rw [e3, ed3]; split <;> omega

/-! ### `jump` as a whole -/

/-- `jump` of the source IS the model's `jump`: for low words `< 2^62` (the 62-bit limbs of an `UnsatInt`), `f` odd or
    `delta > 0` (the callers' invariant, as in `jump_spec`) and `|delta| ≤ 2^62` (the callers start from `delta = 1` and
    every call moves it by at most 62), the translated function returns the `i64` patterns of the model's `(delta, matrix)`;
    the fuel 64 given to the translated `loop` is the model's `jumpFuel`, within which `jump_spec` proves `steps = 0`,
    i.e. the `break`, is reached. -/
theorem jump_bridge (f g : List (BitVec 64)) (delta : BitVec 64)
    (hfl : (f.getD 0 0#64).toNat < 2 ^ 62) (hgl : (g.getD 0 0#64).toNat < 2 ^ 62)
    (hpre : (f.getD 0 0#64).toNat % 2 = 1 ∨ 0 < delta.toInt)
    (hd1 : -(2 ^ 62) ≤ delta.toInt) (hd2 : delta.toInt ≤ 2 ^ 62) :
    Gen.SafeGcd.jump f g delta =
      (BitVec.ofInt 64 (CB.SafeGcd.jump (f.map BitVec.toNat) (g.map BitVec.toNat) delta.toInt).1,
        bmat (CB.SafeGcd.jump (f.map BitVec.toNat) (g.map BitVec.toNat) delta.toInt).2) ∧
    -(2 ^ 62 + 62) ≤ (CB.SafeGcd.jump (f.map BitVec.toNat) (g.map BitVec.toNat) delta.toInt).1 ∧
    (CB.SafeGcd.jump (f.map BitVec.toNat) (g.map BitVec.toNat) delta.toInt).1 ≤ 2 ^ 62 + 62 := by
  have hhf : (f.map BitVec.toNat).headD 0 = (f.getD 0 0#64).toNat := by cases f <;> simp
  have hhg : (g.map BitVec.toNat).headD 0 = (g.getD 0 0#64).toNat := by cases g <;> simp
  generalize hfv : f.getD 0 0#64 = fw at *
  generalize hgv : g.getD 0 0#64 = gw at *
  have hwf : wrapI64 ((fw.toNat : Nat) : Int) = fw.toNat := by
    apply wrapI64_of_bound <;> omega
  let s0 : JS := ⟨62, delta.toInt, ((fw.toNat : Nat) : Int), ((gw.toNat : Nat) : Int), ⟨1, 0, 0, 1⟩⟩
  have hjump : CB.SafeGcd.jump (f.map BitVec.toNat) (g.map BitVec.toNat) delta.toInt =
      ((jumpLoop 64 s0).delta, (jumpLoop 64 s0).t) := by
    unfold CB.SafeGcd.jump
    simp only [hhf, hhg, hwf]
    rfl
  have hf0 : |((fw.toNat : Nat) : Int)| ≤ 2 ^ 62 := by
    rw [abs_of_nonneg (Int.natCast_nonneg _)]; exact_mod_cast (le_of_lt hfl)
  have hg0 : |((gw.toNat : Nat) : Int)| ≤ 2 ^ 62 := by
    rw [abs_of_nonneg (Int.natCast_nonneg _)]; exact_mod_cast (le_of_lt hgl)
  have hH : JH (fw.toNat : Nat) (gw.toNat : Nat) s0 := by
    refine ⟨le_refl 62, ?_, ?_, ?_, ?_, ?_⟩
    · show (1 : Int) * (fw.toNat : Nat) + 0 * (gw.toNat : Nat) = 2 ^ (62 - 62) * (fw.toNat : Nat); norm_num
    · show (0 : Int) * (fw.toNat : Nat) + 1 * (gw.toNat : Nat) = 2 ^ (62 - 62) * (gw.toNat : Nat); norm_num
    · show |(1 : Int)| + |(0 : Int)| ≤ 2 ^ (62 - 62); norm_num
    · show |(0 : Int)| + |(1 : Int)| ≤ 2 ^ (62 - 62) * 2 ^ jzeros s0
      have : (1 : Int) ≤ 2 ^ jzeros s0 := one_le_pow₀ (by norm_num)
      norm_num; exact this
    · show (1 : Int) * 1 - 0 * 0 = 2 ^ (62 - 62); norm_num
  have hpre0 : s0.f % 2 = 1 ∨ 0 < s0.delta := by
    rcases hpre with h | h
    · left; show ((fw.toNat : Nat) : Int) % 2 = 1; omega
    · right; exact h
  obtain ⟨hloop, hdu, hdl⟩ := loop_bridge hf0 hg0 64 s0 hH hpre0
    (by show delta.toInt ≤ 2 ^ 62 + 62 - ((62 : Nat) : Int); omega)
    (by show -(2 ^ 62 + 62 - ((62 : Nat) : Int)) ≤ delta.toInt; omega)
  have hgen : Gen.SafeGcd.jump f g delta = ((genLoop 64 s0).2.2.1, (genLoop 64 s0).2.2.2.2) := by
    rw [jump_unfold]
    unfold genLoop
    simp only [hfv, hgv]
    have e1 : BitVec.ofInt 64 s0.f = fw := by
      show BitVec.ofInt 64 ((fw.toNat : Nat) : Int) = fw
      rw [BitVec.ofInt_natCast, BitVec.ofNat_toNat, BitVec.setWidth_eq]
    have e2 : BitVec.ofInt 128 s0.g = gw.setWidth 128 := by
      show BitVec.ofInt 128 ((gw.toNat : Nat) : Int) = gw.setWidth 128
      rw [BitVec.ofInt_natCast, BitVec.ofNat_toNat]
    have e3 : BitVec.ofInt 64 s0.delta = delta := BitVec.ofInt_toInt
    rw [e1, e2, e3]
    rfl
  rw [hgen, hloop, hjump]
  refine ⟨rfl, ?_, ?_⟩
  · show -(2 ^ 62 + 62) ≤ (jumpLoop 64 s0).delta; omega
  · show (jumpLoop 64 s0).delta ≤ 2 ^ 62 + 62; omega

/-! ### the fuel: once the `break` has been taken, more fuel changes nothing -/

theorem steps_add_swap (x : JS) : (jumpAdd (jumpSwap x)).steps = x.steps := by
  show (jumpSwap x).steps = x.steps
  unfold jumpSwap; split <;> rfl

/-- a run of the model loop that ended with `steps = 0` after at least one round ended in the `break` branch: one more
    unit of fuel gives the same state -/
theorem jumpLoop_stable_succ : ∀ n s, (jumpLoop (n + 1) s).steps = 0 → jumpLoop (n + 2) s = jumpLoop (n + 1) s := by
  intro n
  induction n with
  | zero =>
    intro s h
    have e1 : jumpLoop 1 s = if (jumpShift s).steps = 0 then jumpShift s else jumpAdd (jumpSwap (jumpShift s)) := rfl
    have e2 : jumpLoop 2 s = if (jumpShift s).steps = 0 then jumpShift s
        else jumpLoop 1 (jumpAdd (jumpSwap (jumpShift s))) := rfl
    by_cases hd : (jumpShift s).steps = 0
    · rw [e1, e2, if_pos hd, if_pos hd]
    · rw [e1, if_neg hd, steps_add_swap] at h; exact absurd h hd
  | succ n ih =>
    intro s h
    have e1 : jumpLoop (n + 2) s = if (jumpShift s).steps = 0 then jumpShift s
        else jumpLoop (n + 1) (jumpAdd (jumpSwap (jumpShift s))) := rfl
    have e2 : jumpLoop (n + 3) s = if (jumpShift s).steps = 0 then jumpShift s
        else jumpLoop (n + 2) (jumpAdd (jumpSwap (jumpShift s))) := rfl
    by_cases hd : (jumpShift s).steps = 0
    · rw [e1, e2, if_pos hd, if_pos hd]
    · rw [e1, if_neg hd] at h
      rw [e1, e2, if_neg hd, if_neg hd]
      exact ih _ h

theorem jumpLoop_stable (n : Nat) (s : JS) (h : (jumpLoop (n + 1) s).steps = 0) :
    ∀ k, jumpLoop (n + 1 + k) s = jumpLoop (n + 1) s := by
  intro k
  induction k with
  | zero => rfl
  | succ k ih =>
    have : (jumpLoop (n + k + 1) s).steps = 0 := by
      have e : n + k + 1 = n + 1 + k := by omega
      rw [e, ih]; exact h
    have e2 : n + 1 + (k + 1) = (n + k) + 2 := by omega
    have e3 : n + 1 + k = (n + k) + 1 := by omega
    rw [e2, jumpLoop_stable_succ (n + k) s this, ← e3, ih]

/-- The fuel 64 given to the translated `loop` SUFFICES: under the hypotheses of `jump_bridge` the `break` is reached
    within it (the model's `steps = 0`), and the translated loop returns the same state for every larger fuel. -/
theorem jump_fuel_suffices (fw gw delta : BitVec 64) (hfl : fw.toNat < 2 ^ 62) (hgl : gw.toNat < 2 ^ 62)
    (hpre : fw.toNat % 2 = 1 ∨ 0 < delta.toInt) (hd1 : -(2 ^ 62) ≤ delta.toInt) (hd2 : delta.toInt ≤ 2 ^ 62) (k : Nat) :
    Gen.SafeGcd.jump_loop1 (64 + k) fw (gw.setWidth 128) delta 62#64 ((1#64, 0#64), (0#64, 1#64)) =
      Gen.SafeGcd.jump_loop1 64 fw (gw.setWidth 128) delta 62#64 ((1#64, 0#64), (0#64, 1#64)) ∧
    (Gen.SafeGcd.jump_loop1 64 fw (gw.setWidth 128) delta 62#64 ((1#64, 0#64), (0#64, 1#64))).2.2.2.1 = 0#64 := by
  let s0 : JS := ⟨62, delta.toInt, ((fw.toNat : Nat) : Int), ((gw.toNat : Nat) : Int), ⟨1, 0, 0, 1⟩⟩
  have hf0 : |((fw.toNat : Nat) : Int)| ≤ 2 ^ 62 := by
    rw [abs_of_nonneg (Int.natCast_nonneg _)]; exact_mod_cast (le_of_lt hfl)
  have hg0 : |((gw.toNat : Nat) : Int)| ≤ 2 ^ 62 := by
    rw [abs_of_nonneg (Int.natCast_nonneg _)]; exact_mod_cast (le_of_lt hgl)
  have hH : JH (fw.toNat : Nat) (gw.toNat : Nat) s0 := by
    refine ⟨le_refl 62, ?_, ?_, ?_, ?_, ?_⟩
    · show (1 : Int) * (fw.toNat : Nat) + 0 * (gw.toNat : Nat) = 2 ^ (62 - 62) * (fw.toNat : Nat); norm_num
    · show (0 : Int) * (fw.toNat : Nat) + 1 * (gw.toNat : Nat) = 2 ^ (62 - 62) * (gw.toNat : Nat); norm_num
    · show |(1 : Int)| + |(0 : Int)| ≤ 2 ^ (62 - 62); norm_num
    · show |(0 : Int)| + |(1 : Int)| ≤ 2 ^ (62 - 62) * 2 ^ jzeros s0
      have : (1 : Int) ≤ 2 ^ jzeros s0 := one_le_pow₀ (by norm_num)
      norm_num; exact this
    · show (1 : Int) * 1 - 0 * 0 = 2 ^ (62 - 62); norm_num
  have hpre0 : s0.f % 2 = 1 ∨ 0 < s0.delta := by
    rcases hpre with h | h
    · left; show ((fw.toNat : Nat) : Int) % 2 = 1; omega
    · right; exact h
  have hb1 : s0.delta ≤ 2 ^ 62 + 62 - (s0.steps : Nat) := by
    show delta.toInt ≤ 2 ^ 62 + 62 - ((62 : Nat) : Int); omega
  have hb2 : -(2 ^ 62 + 62 - (s0.steps : Nat)) ≤ s0.delta := by
    show -(2 ^ 62 + 62 - ((62 : Nat) : Int)) ≤ delta.toInt; omega
  have hgen : ∀ n, Gen.SafeGcd.jump_loop1 n fw (gw.setWidth 128) delta 62#64 ((1#64, 0#64), (0#64, 1#64)) =
      genLoop n s0 := by
    intro n
    unfold genLoop
    have e1 : BitVec.ofInt 64 s0.f = fw := by
      show BitVec.ofInt 64 ((fw.toNat : Nat) : Int) = fw
      rw [BitVec.ofInt_natCast, BitVec.ofNat_toNat, BitVec.setWidth_eq]
    have e2 : BitVec.ofInt 128 s0.g = gw.setWidth 128 := by
      show BitVec.ofInt 128 ((gw.toNat : Nat) : Int) = gw.setWidth 128
      rw [BitVec.ofInt_natCast, BitVec.ofNat_toNat]
    have e3 : BitVec.ofInt 64 s0.delta = delta := BitVec.ofInt_toInt
    rw [e1, e2, e3]
    rfl
  have hfu : s0.steps + 1 + (if tz128 s0.g = 0 then 1 else 0) ≤ 64 := by
    show 62 + 1 + (if tz128 s0.g = 0 then 1 else 0) ≤ 64; split <;> omega
  obtain ⟨_, hst, _⟩ := jumpLoop_inv hf0 hg0 0 0 64 s0 hH hpre0 hfu
  have hstab := jumpLoop_stable 63 s0 hst k
  rw [hgen, hgen, (loop_bridge hf0 hg0 (64 + k) s0 hH hpre0 hb1 hb2).1, (loop_bridge hf0 hg0 64 s0 hH hpre0 hb1 hb2).1]
  refine ⟨by rw [show 64 + k = 63 + 1 + k from rfl, hstab], ?_⟩
  show BitVec.ofNat 64 (jumpLoop 64 s0).steps = 0#64
  rw [hst]

/-- `jump_bridge` read through `toInt`: every component of the translated result IS the model's component (the matrix
    entries are within `2^62` by `jump_spec`, the new `delta` within `2^62 + 62`: the patterns are faithful) -/
theorem jump_bridge_toInt (f g : List (BitVec 64)) (delta : BitVec 64)
    (hfl : (f.getD 0 0#64).toNat < 2 ^ 62) (hgl : (g.getD 0 0#64).toNat < 2 ^ 62)
    (hpre : (f.getD 0 0#64).toNat % 2 = 1 ∨ 0 < delta.toInt)
    (hd1 : -(2 ^ 62) ≤ delta.toInt) (hd2 : delta.toInt ≤ 2 ^ 62) :
    (Gen.SafeGcd.jump f g delta).1.toInt = (CB.SafeGcd.jump (f.map BitVec.toNat) (g.map BitVec.toNat) delta.toInt).1 ∧
    (Gen.SafeGcd.jump f g delta).2.1.1.toInt = (CB.SafeGcd.jump (f.map BitVec.toNat) (g.map BitVec.toNat) delta.toInt).2.t00 ∧
    (Gen.SafeGcd.jump f g delta).2.1.2.toInt = (CB.SafeGcd.jump (f.map BitVec.toNat) (g.map BitVec.toNat) delta.toInt).2.t01 ∧
    (Gen.SafeGcd.jump f g delta).2.2.1.toInt = (CB.SafeGcd.jump (f.map BitVec.toNat) (g.map BitVec.toNat) delta.toInt).2.t10 ∧
    (Gen.SafeGcd.jump f g delta).2.2.2.toInt = (CB.SafeGcd.jump (f.map BitVec.toNat) (g.map BitVec.toNat) delta.toInt).2.t11 := by
  obtain ⟨hb, hl, hu⟩ := jump_bridge f g delta hfl hgl hpre hd1 hd2
  have hhf : (f.map BitVec.toNat).headD 0 = (f.getD 0 0#64).toNat := by cases f <;> simp
  have hhg : (g.map BitVec.toNat).headD 0 = (g.getD 0 0#64).toNat := by cases g <;> simp
  obtain ⟨_, _, _, _, b0, b1, _, _⟩ := jump_spec (f.map BitVec.toNat) (g.map BitVec.toNat) delta.toInt
    (by rw [hhf]; exact hfl) (by rw [hhg]; exact hgl) (by rw [hhf]; exact hpre)
  rw [hb]
  generalize CB.SafeGcd.jump (f.map BitVec.toNat) (g.map BitVec.toNat) delta.toInt = r at *
  have a00 := abs_nonneg r.2.t00
  have a01 := abs_nonneg r.2.t01
  have a10 := abs_nonneg r.2.t10
  have a11 := abs_nonneg r.2.t11
  have c00 := abs_le.mp (show |r.2.t00| ≤ 2 ^ 62 by linarith)
  have c01 := abs_le.mp (show |r.2.t01| ≤ 2 ^ 62 by linarith)
  have c10 := abs_le.mp (show |r.2.t10| ≤ 2 ^ 62 by linarith)
  have c11 := abs_le.mp (show |r.2.t11| ≤ 2 ^ 62 by linarith)
  refine ⟨toInt_ofInt64 (by omega) (by omega), ?_, ?_, ?_, ?_⟩
  · exact toInt_ofInt64 (by linarith [c00.1]) (by linarith [c00.2])
  · exact toInt_ofInt64 (by linarith [c01.1]) (by linarith [c01.2])
  · exact toInt_ofInt64 (by linarith [c10.1]) (by linarith [c10.2])
  · exact toInt_ofInt64 (by linarith [c11.1]) (by linarith [c11.2])

end CB.GenSafeGcd
