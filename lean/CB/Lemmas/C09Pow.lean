/-
  CB.Lemmas.C09Pow — the fixed-width ladder invariant for property C09.
  Uses property C08's facts about Montgomery multiplication (`CB.Monty.mulMont_spec`, i.e. T08.1 `redc_spec`
  + the value-level wide product) and `retrieveMont_spec`.
-/
import CB.Lemmas.C09Digits
import CB.Props.C08
namespace CB.Pow
open CB CB.Monty

/-- `z` is THE canonical Montgomery representative of the residue of `V`: an `n`-limb value equal to
    `V·B^n mod m`. -/
structure Rep (ms z : List Nat) (V : Nat) : Prop where
  wf : WF z
  len : z.length = ms.length
  eq : val z = (V * B ^ ms.length) % val ms

/-- standing assumptions on the modulus / `mod_neg_inv` (what `Odd<_>` + the params constructors give). -/
structure ModOK (ms : List Nat) (k : Nat) : Prop where
  wf : WF ms
  k : (k * val ms + 1) % B = 0
  pos : 0 < val ms

theorem ModOK.odd {ms k} (h : ModOK ms k) : val ms % 2 = 1 := CB.P08.neg_inv_forces_odd k _ h.k

theorem Rep.lt {ms z V k} (h : Rep ms z V) (hm : ModOK ms k) : val z < val ms := by
  rw [h.eq]; exact Nat.mod_lt _ hm.pos

theorem Rep.congr {ms z V W} (h : Rep ms z V) (e : V = W) : Rep ms z W := e ▸ h

/-- Montgomery multiplication multiplies the denoted residues (C08: `mulMont_spec`). -/
theorem Rep.mul {ms z w k V W} (hm : ModOK ms k) (hz : Rep ms z V) (hw : Rep ms w W) :
    Rep ms (mulMont z w ms k) (V * W) := by
  have ⟨h1, h2, h3, h4⟩ := mulMont_spec hz.wf hw.wf hm.wf hz.len hw.len hm.k (hz.lt hm)
  refine ⟨h3, h4, ?_⟩
  apply cancel_mod (coprime_Bpow_of_odd hm.odd ms.length) h1 (Nat.mod_lt _ hm.pos)
  rw [h2, hz.eq, hw.eq]
  show (V * B ^ ms.length % val ms * (W * B ^ ms.length % val ms)) ≡
      ((V * W * B ^ ms.length) % val ms * B ^ ms.length) [MOD val ms]
  calc V * B ^ ms.length % val ms * (W * B ^ ms.length % val ms)
      ≡ (V * B ^ ms.length) * (W * B ^ ms.length) [MOD val ms] :=
        (Nat.mod_modEq _ _).mul (Nat.mod_modEq _ _)
    _ = (V * W * B ^ ms.length) * B ^ ms.length := by ring
    _ ≡ (V * W * B ^ ms.length) % val ms * B ^ ms.length [MOD val ms] :=
        ((Nat.mod_modEq _ _).mul_right _).symm

theorem Rep.square {ms z k V} (hm : ModOK ms k) (hz : Rep ms z V) :
    Rep ms (squareMont z ms k) (V * V) := Rep.mul hm hz hz

/-- `retrieve()` of a canonical representative is the residue. -/
theorem Rep.retrieve {ms z k V} (hm : ModOK ms k) (hz : Rep ms z V) :
    val (retrieveMont z ms k) = V % val ms ∧ WF (retrieveMont z ms k) ∧
    (retrieveMont z ms k).length = ms.length := by
  have ⟨h1, h2, h3, h4⟩ := retrieveMont_spec hz.wf hm.wf hz.len hm.k (hz.lt hm)
  refine ⟨?_, h3, h4⟩
  apply cancel_mod (coprime_Bpow_of_odd hm.odd ms.length) h1 (Nat.mod_lt _ hm.pos)
  rw [h2, hz.eq, Nat.mod_mod]
  exact ((Nat.mod_modEq V (val ms)).mul_right _).symm

/-! ### `squareLoop` -/

theorem squareLoop_four {ms z k V} (hm : ModOK ms k) (hz : Rep ms z V) :
    Rep ms (squareLoop ms k WINDOW z) (V ^ 16) := by
  have h1 := Rep.square hm hz
  have h2 := Rep.square hm h1
  have h3 := Rep.square hm h2
  have h4 := Rep.square hm h3
  have : squareLoop ms k WINDOW z = squareMont (squareMont (squareMont (squareMont z ms k) ms k) ms k) ms k := rfl
  rw [this]
  exact h4.congr (by ring)

/-! ### the table -/

/-- the table holds the canonical representatives of `X^0 … X^15`. -/
structure TableRep (ms : List Nat) (powers : List (List Nat)) (X : Nat) : Prop where
  len : powers.length = 16
  rep : ∀ j, j < 16 → Rep ms (powers.getD j []) (X ^ j)

theorem getD_set_eq' {α} (l : List α) (i : Nat) (a d : α) (h : i < l.length) : (l.set i a).getD i d = a := by
  simp [List.getD_eq_getElem?_getD, h]

theorem getD_set_ne' {α} (l : List α) (i j : Nat) (a d : α) (h : i ≠ j) : (l.set i a).getD j d = l.getD j d := by
  simp [List.getD_eq_getElem?_getD, h]

theorem powersLoop_spec {ms x k X} (hm : ModOK ms k) (hx : Rep ms x X) :
    ∀ (fuel i : Nat) (p : List (List Nat)), 1 ≤ i → fuel + i = 16 → p.length = 16 →
      (∀ j, j < i → Rep ms (p.getD j []) (X ^ j)) →
      TableRep ms (powersLoop x ms k fuel i p) X := by
  intro fuel
  induction fuel with
  | zero =>
    intro i p _ hi hl hrep
    have : i = 16 := by omega
    subst this
    exact ⟨hl, hrep⟩
  | succ f ih =>
    intro i p h1 hi hl hrep
    show TableRep ms (powersLoop x ms k f (i + 1) (p.set i (mulMont (p.getD (i - 1) []) x ms k))) X
    apply ih (i + 1) _ (by omega) (by omega) (by simp [hl])
    intro j hj
    by_cases hji : j = i
    · subst hji
      rw [getD_set_eq' _ _ _ _ (by omega)]
      have := Rep.mul hm (hrep (j - 1) (by omega)) hx
      refine this.congr ?_
      have : j = (j - 1) + 1 := by omega
      conv => rhs; rw [this, Nat.pow_succ]
    · rw [getD_set_ne' _ _ _ _ _ (Ne.symm hji)]
      exact hrep j (by omega)

theorem computePowers_spec {ms x one k X} (hm : ModOK ms k) (hx : Rep ms x X) (hone : Rep ms one 1) :
    TableRep ms (computePowers x ms one k) X := by
  unfold computePowers
  rw [TABLE_eq]
  apply powersLoop_spec hm hx 14 2 _ (by omega) rfl (by simp)
  intro j hj
  have : j = 0 ∨ j = 1 := by omega
  rcases this with h | h <;> subst h
  · exact hone.congr (by simp)
  · exact hx.congr (by simp)

/-! ### constant-time lookup -/

theorem lookupLoop_spec {n : Nat} (powers : List (List Nat)) (idx : Nat) (hidx : idx < 16)
    (hp : ∀ j, j < 16 → WF (powers.getD j []) ∧ (powers.getD j []).length = n) :
    ∀ (fuel j : Nat) (power : List Nat), fuel + j = 16 → WF power → power.length = n →
      lookupLoop powers idx fuel j power = if j ≤ idx then powers.getD idx [] else power := by
  intro fuel
  induction fuel with
  | zero =>
    intro j power hj _ _
    have : ¬ j ≤ idx := by omega
    simp [lookupLoop, this]
  | succ f ih =>
    intro j power hj hw hl
    have hjB : j < B := by simp only [B_def]; omega
    have hiB : idx < B := by simp only [B_def]; omega
    have ⟨hpw, hpl⟩ := hp j (by omega)
    show lookupLoop powers idx f (j + 1) (uselect power (powers.getD j []) (fromWordEq j idx)) = _
    rw [fromWordEq_spec hjB hiB, uselect_spec _ hw hpw (by rw [hl, hpl])]
    by_cases hji : j = idx
    · subst hji
      simp only [decide_true, if_true, Nat.le_refl]
      rw [ih (j + 1) _ (by omega) hpw hpl]
      simp
    · simp only [hji, decide_false, Bool.false_eq_true, if_false]
      rw [ih (j + 1) _ (by omega) hw hl]
      by_cases h : j ≤ idx
      · have : j + 1 ≤ idx := by omega
        simp [h, this]
      · have : ¬ j + 1 ≤ idx := by omega
        simp [h, this]

theorem lookup_spec {ms powers X} (ht : TableRep ms powers X) (idx : Nat) (hidx : idx < 16) :
    lookup powers idx = powers.getD idx [] := by
  have hp : ∀ j, j < 16 → WF (powers.getD j []) ∧ (powers.getD j []).length = ms.length :=
    fun j hj => ⟨(ht.rep j hj).wf, (ht.rep j hj).len⟩
  unfold lookup
  rw [TABLE_eq, lookupLoop_spec powers idx hidx hp 15 1 _ rfl (hp 0 (by omega)).1 (hp 0 (by omega)).2]
  by_cases h : 1 ≤ idx
  · simp [h]
  · have : idx = 0 := by omega
    subst this; simp

/-! ### spec-side products -/

/-- `Π Xᵢ ^ f(eᵢ)` over the (base residue, exponent value) pairs. -/
def prodPow (f : Nat → Nat) : List (Nat × Nat) → Nat
  | [] => 1
  | Xe :: rest => Xe.1 ^ f Xe.2 * prodPow f rest

theorem prodPow_zero {f : Nat → Nat} (hf : ∀ e, f e = 0) (l : List (Nat × Nat)) : prodPow f l = 1 := by
  induction l with
  | nil => rfl
  | cons a r ih => simp [prodPow, hf, ih]

theorem prodPow_split {f g d : Nat → Nat} (h : ∀ e, f e = 16 * g e + d e) (l : List (Nat × Nat)) :
    prodPow f l = prodPow g l ^ 16 * prodPow d l := by
  induction l with
  | nil => simp [prodPow]
  | cons a r ih =>
    simp only [prodPow, ih, h]
    ring

theorem prodPow_congr {f g : Nat → Nat} (h : ∀ e, f e = g e) (l : List (Nat × Nat)) :
    prodPow f l = prodPow g l := by
  have : f = g := funext h
  rw [this]

/-! ### the term loop, window loop, limb loop -/

/-- a (table, exponent limbs) pair matches a (base residue, exponent value) pair. -/
def TermOK (ms : List Nat) (pe : List (List Nat) × List Nat) (Xe : Nat × Nat) : Prop :=
  TableRep ms pe.1 Xe.1 ∧ WF pe.2 ∧ val pe.2 = Xe.2

theorem termLoop_spec {ms k} (hm : ModOK ms k) (ln wn : Nat) (first : Bool) (mask : Nat) (D : Nat → Nat)
    (hD : ∀ el : List Nat, WF el → windowIdx el ln wn first mask = D (val el)) (hD16 : ∀ e, D e < 16)
    {pes : List (List (List Nat) × List Nat)} {XEs : List (Nat × Nat)}
    (hterms : List.Forall₂ (TermOK ms) pes XEs) :
    ∀ {z V}, Rep ms z V → Rep ms (termLoop ms k ln wn first mask pes z) (V * prodPow D XEs) := by
  induction hterms with
  | nil => intro z V hz; exact hz.congr (by simp [prodPow])
  | @cons pe Xe pes' XEs' h _ ih =>
    intro z V hz
    obtain ⟨ht, hew, hev⟩ := h
    show Rep ms (termLoop ms k ln wn first mask pes'
      (mulMont z (lookup pe.1 (windowIdx pe.2 ln wn first mask)) ms k)) _
    rw [hD _ hew, hev, lookup_spec ht _ (hD16 _)]
    have := ih (Rep.mul hm hz (ht.rep _ (hD16 Xe.2)))
    exact this.congr (by simp only [prodPow]; ring)

/-- the `Start` geometry of `exponent_bits = bits > 0`. -/
theorem startOf_geometry (bits : Nat) (hb : 0 < bits) :
    let st := startOf WINDOW bits
    bits = 64 * st.limb + 4 * st.window + ((bits - 1) % 64 % 4) + 1 ∧ st.window ≤ 15 ∧
    st.mask = 2 ^ ((bits - 1) % 64 % 4 + 1) - 1 := by
  simp only [startOf, WINDOW_eq, LIMB_BITS_eq, mask_eq]
  refine ⟨by omega, by omega, trivial⟩

/-- the index the ladder extracts at window `(ln, wn)` is the digit of `e mod 2^bits` at that position,
    for every window the loops visit. -/
theorem windowIdx_digit (bits : Nat) (hb : 0 < bits) (ln wn : Nat) (hwn : wn ≤ 15)
    (hvisit : (ln = (startOf WINDOW bits).limb ∧ wn ≤ (startOf WINDOW bits).window) ∨
              ln < (startOf WINDOW bits).limb)
    (el : List Nat) (hel : WF el) :
    windowIdx el ln wn (ln == (startOf WINDOW bits).limb && wn == (startOf WINDOW bits).window)
      (startOf WINDOW bits).mask = pre (val el) bits (64 * ln + 4 * wn) % 16 := by
  have ⟨hg, hw15, hmask⟩ := startOf_geometry bits hb
  generalize hs : (bits - 1) % 64 % 4 = s at hg hmask
  have hs3 : s ≤ 3 := by omega
  generalize startOf WINDOW bits = st at *
  unfold windowIdx
  rw [WINDOW_eq, WINDOW_MASK_eq, window_digit hel ln wn hwn]
  by_cases hfirst : ln = st.limb ∧ wn = st.window
  · obtain ⟨h1, h2⟩ := hfirst
    subst h1 h2
    simp only [beq_self_eq_true, Bool.and_self, if_true]
    rw [hmask, Nat.and_two_pow_sub_one_eq_mod]
    exact (digit_top (by omega) hs3).symm
  · have hf : (ln == st.limb && wn == st.window) = false := by
      by_cases h1 : ln = st.limb
      · have h2 : wn ≠ st.window := fun h => hfirst ⟨h1, h⟩
        simp [h2]
      · simp [h1]
    rw [hf]
    simp only [Bool.false_eq_true, if_false]
    refine (digit_full ?_).symm
    rcases hvisit with ⟨h1, h2⟩ | h
    · have : wn ≠ st.window := fun h => hfirst ⟨h1, h⟩
      omega
    · omega

/-- the accumulated product when the ladder stands above bit position `p`. -/
def PP (bits p : Nat) (XEs : List (Nat × Nat)) : Nat := prodPow (fun e => pre e bits p) XEs

theorem windowBody_spec {ms k} (hm : ModOK ms k) (bits : Nat) (hb : 0 < bits)
    {pes XEs} (hterms : List.Forall₂ (TermOK ms) pes XEs) (ln wn : Nat) (hwn : wn ≤ 15)
    (hvisit : (ln = (startOf WINDOW bits).limb ∧ wn ≤ (startOf WINDOW bits).window) ∨
              ln < (startOf WINDOW bits).limb)
    {z} (hz : Rep ms z (PP bits (64 * ln + 4 * wn + 4) XEs)) :
    Rep ms (windowBody pes ms k (startOf WINDOW bits) ln wn z) (PP bits (64 * ln + 4 * wn) XEs) := by
  have hsplit : PP bits (64 * ln + 4 * wn) XEs =
      PP bits (64 * ln + 4 * wn + 4) XEs ^ 16 * prodPow (fun e => pre e bits (64 * ln + 4 * wn) % 16) XEs :=
    prodPow_split (fun e => pre_step e bits _) XEs
  have hD := windowIdx_digit bits hb ln wn hwn hvisit
  have ⟨hg, _, _⟩ := startOf_geometry bits hb
  unfold windowBody
  generalize hfirst : (ln == (startOf WINDOW bits).limb && wn == (startOf WINDOW bits).window) = first at hD
  simp only []
  cases first with
  | true =>
    simp only [Bool.not_true, Bool.false_eq_true, if_false]
    have hf : ln = (startOf WINDOW bits).limb ∧ wn = (startOf WINDOW bits).window := by
      simpa using hfirst
    have hone : PP bits (64 * ln + 4 * wn + 4) XEs = 1 :=
      prodPow_zero (fun e => pre_eq_zero (by rw [hf.1, hf.2]; omega)) XEs
    have := termLoop_spec hm ln wn true _ (fun e => pre e bits (64 * ln + 4 * wn) % 16) hD
      (fun e => Nat.mod_lt _ (by decide)) hterms hz
    refine this.congr ?_
    rw [hsplit, hone]; simp
  | false =>
    simp only [Bool.not_false, if_true]
    have := termLoop_spec hm ln wn false _ (fun e => pre e bits (64 * ln + 4 * wn) % 16) hD
      (fun e => Nat.mod_lt _ (by decide)) hterms (squareLoop_four hm hz)
    exact this.congr hsplit.symm

theorem windowLoop_spec {ms k} (hm : ModOK ms k) (bits : Nat) (hb : 0 < bits)
    {pes XEs} (hterms : List.Forall₂ (TermOK ms) pes XEs) (ln : Nat) :
    ∀ (wn : Nat), ((ln = (startOf WINDOW bits).limb ∧ wn ≤ (startOf WINDOW bits).window + 1) ∨
        (ln < (startOf WINDOW bits).limb ∧ wn ≤ 16)) →
      ∀ {z}, Rep ms z (PP bits (64 * ln + 4 * wn) XEs) →
      Rep ms (windowLoop pes ms k (startOf WINDOW bits) ln wn z) (PP bits (64 * ln) XEs) := by
  have ⟨_, hw15, _⟩ := startOf_geometry bits hb
  intro wn
  induction wn with
  | zero => intro _ z hz; exact hz
  | succ w ih =>
    intro hcap z hz
    show Rep ms (windowLoop pes ms k (startOf WINDOW bits) ln w
      (windowBody pes ms k (startOf WINDOW bits) ln w z)) _
    apply ih (by omega)
    apply windowBody_spec hm bits hb hterms ln w (by omega) (by omega)
    exact hz.congr (by congr 1)

theorem limbLoop_spec {ms k} (hm : ModOK ms k) (bits : Nat) (hb : 0 < bits)
    {pes XEs} (hterms : List.Forall₂ (TermOK ms) pes XEs) :
    ∀ (ln : Nat), ln ≤ (startOf WINDOW bits).limb + 1 →
      ∀ {z}, Rep ms z (PP bits (64 * ln) XEs) →
      Rep ms (limbLoop pes ms k (startOf WINDOW bits) ln z) (PP bits 0 XEs) := by
  have ⟨hg, hw15, _⟩ := startOf_geometry bits hb
  intro ln
  induction ln with
  | zero => intro _ z hz; exact hz
  | succ l ih =>
    intro hle z hz
    show Rep ms (limbLoop pes ms k (startOf WINDOW bits) l
      (windowLoop pes ms k (startOf WINDOW bits) l
        (if l == (startOf WINDOW bits).limb then (startOf WINDOW bits).window + 1 else LIMB_BITS / WINDOW) z)) _
    apply ih (by omega)
    by_cases hl : l = (startOf WINDOW bits).limb
    · simp only [hl, beq_self_eq_true, if_true]
      apply windowLoop_spec hm bits hb hterms _ _ (Or.inl ⟨rfl, Nat.le_refl _⟩)
      refine hz.congr ?_
      unfold PP
      rw [prodPow_zero (fun e => pre_eq_zero (by omega)), prodPow_zero (fun e => pre_eq_zero (by omega))]
    · have hne : (l == (startOf WINDOW bits).limb) = false := by simp [hl]
      simp only [hne, Bool.false_eq_true, if_false]
      have h16 : LIMB_BITS / WINDOW = 16 := rfl
      rw [h16]
      apply windowLoop_spec hm bits hb hterms _ _ (Or.inr ⟨by omega, Nat.le_refl _⟩)
      exact hz.congr (by congr 1)

theorem multiExpInternal_spec {ms one k} (hm : ModOK ms k) (hone : Rep ms one 1) (bits : Nat) (hb : 0 < bits)
    {pes XEs} (hterms : List.Forall₂ (TermOK ms) pes XEs) :
    Rep ms (multiExpInternal pes bits ms one k) (prodPow (fun e => e % 2 ^ bits) XEs) := by
  have ⟨hg, _, _⟩ := startOf_geometry bits hb
  unfold multiExpInternal
  have := limbLoop_spec hm bits hb hterms ((startOf WINDOW bits).limb + 1) (Nat.le_refl _)
    (z := one) (hone.congr (by
      unfold PP
      rw [prodPow_zero (fun e => pre_eq_zero (by omega))]))
  refine this.congr ?_
  unfold PP
  exact prodPow_congr (fun e => pre_zero_pos e bits) XEs

/-! ### the public entry points -/

/-- a (Montgomery form, exponent limbs) pair matches a (base residue, exponent value) pair. -/
def BaseOK (ms : List Nat) (be : List Nat × List Nat) (Xe : Nat × Nat) : Prop :=
  Rep ms be.1 Xe.1 ∧ WF be.2 ∧ val be.2 = Xe.2

theorem tables_ok {ms one k} (hm : ModOK ms k) (hone : Rep ms one 1)
    {bes : List (List Nat × List Nat)} {XEs : List (Nat × Nat)} (h : List.Forall₂ (BaseOK ms) bes XEs) :
    List.Forall₂ (TermOK ms) (bes.map fun be => (computePowers be.1 ms one k, be.2)) XEs := by
  induction h with
  | nil => exact List.Forall₂.nil
  | cons h _ ih => exact List.Forall₂.cons ⟨computePowers_spec hm h.1 hone, h.2.1, h.2.2⟩ ih

theorem multiExpArray_spec {ms one k} (hm : ModOK ms k) (hone : Rep ms one 1) (bits : Nat)
    {bes XEs} (h : List.Forall₂ (BaseOK ms) bes XEs) :
    Rep ms (multiExpArray bes bits ms one k) (prodPow (fun e => e % 2 ^ bits) XEs) := by
  unfold multiExpArray
  by_cases hb : bits = 0
  · subst hb
    simp only [if_true]
    exact hone.congr (prodPow_zero (fun e => by simp [Nat.mod_one]) XEs).symm
  · simp only [hb, if_false]
    exact multiExpInternal_spec hm hone bits (Nat.pos_of_ne_zero hb) (tables_ok hm hone h)

/-- the spec-side product reduces to the recursive `multiSpec` of the model file. -/
theorem prodPow_mod (m bits : Nat) (XEs : List (Nat × Nat)) :
    prodPow (fun e => e % 2 ^ bits) XEs % m = multiSpec m bits XEs := by
  induction XEs with
  | nil => rfl
  | cons a r ih =>
    obtain ⟨X, e⟩ := a
    simp only [prodPow, multiSpec]
    rw [← Nat.mul_mod_mod, ih]

/-! ### the driver's square-and-multiply L0 is `x ^ e % m` -/

theorem modPowFuel_eq (m : Nat) : ∀ (fuel x e : Nat), e < 2 ^ fuel → modPowFuel m fuel x e = x ^ e % m := by
  intro fuel
  induction fuel with
  | zero =>
    intro x e he
    have : e = 0 := by simpa using he
    subst this; simp [modPowFuel]
  | succ f ih =>
    intro x e he
    unfold modPowFuel
    by_cases h0 : e = 0
    · subst h0; simp
    · simp only [h0, if_false]
      have hlt : e / 2 < 2 ^ f := by
        rw [Nat.div_lt_iff_lt_mul (by decide)]; rw [Nat.pow_succ] at he; exact he
      have hsq : ((x * x) % m) ^ (e / 2) % m = (x * x) ^ (e / 2) % m := by rw [← Nat.pow_mod]
      have hxx : (x * x) ^ (e / 2) = x ^ (2 * (e / 2)) := by rw [Nat.pow_mul, Nat.pow_two]
      rw [ih _ _ hlt, hsq, hxx]
      by_cases h1 : e % 2 = 1
      · simp only [h1, if_true]
        have : e = 2 * (e / 2) + 1 := by omega
        conv => rhs; rw [this, Nat.pow_succ, Nat.mul_comm]
        rw [Nat.mul_mod_mod]
      · simp only [h1, if_false]
        have : e = 2 * (e / 2) := by omega
        conv => rhs; rw [this]

theorem modPow_eq (m x e : Nat) : modPow m x e = x ^ e % m := by
  unfold modPow
  exact modPowFuel_eq m _ x e Nat.lt_log2_self

end CB.Pow
