/-
  CB.Lemmas.C17Round — decoders applied to canonical numerals (round trip at limb level) and the
  remaining clauses of the boxed parse with precision.
-/
import CB.Lemmas.C17Aligned
import CB.Lemmas.C17Div
namespace CB.Radix
open CB

/-- `radix_decode_str` for every supported radix (dispatch on 2 / 4 / 16) -/
theorem decodeStr_correct {radix : Nat} (h2 : 2 ≤ radix) (h36 : radix ≤ 36) (s : List Nat)
    (cap : Option Nat) : DecodeCorrect radix s cap (decodeStr radix s ⟨cap, []⟩) := by
  by_cases ha : radix = 2 ∨ radix = 4 ∨ radix = 16
  · rw [decodeStr_aligned ha]; exact decodeAligned_correct ha s cap
  · rw [decodeStr_batch h2 h36 ha]; exact decodeDigits_correct h2 h36 s cap

/-- `from_str_radix_with_precision_vartime` is the fixed-capacity parse followed by the
`bits_precision < bits()` test -/
theorem boxedFromStrPrec_eq (radix p : Nat) (s : List Nat) :
    boxedFromStrPrec radix p s =
      match uintFromStr (precLimbs p) radix s with
      | .error e => .error e
      | .ok limbs => if p < bitLen (val limbs) then .error .precision else .ok limbs := by
  unfold boxedFromStrPrec uintFromStr
  simp only
  cases hd : decodeStr radix s ⟨some (precLimbs p), []⟩ <;> rfl

theorem two_pow_le_prec (p : Nat) : 2 ^ p ≤ B ^ precLimbs p := by
  rw [B_eq_pow, ← Nat.pow_mul]
  apply Nat.pow_le_pow_right (by omega)
  unfold precLimbs; omega

/-- with precision: a non-numeral is never accepted, and an accepted value is the numeral's value,
below `2^bits_precision`, in exactly `⌈p/64⌉` (at least one) limbs — never wrapped or truncated -/
theorem boxedFromStrPrec_sound {radix p : Nat} (h2 : 2 ≤ radix) (h36 : radix ≤ 36) (s : List Nat) :
    (specParse radix s = .error .invalidDigit →
      boxedFromStrPrec radix p s = .error .invalidDigit ∨ boxedFromStrPrec radix p s = .error .inputSize) ∧
    (∀ l, boxedFromStrPrec radix p s = .ok l →
      ∃ v, specParse radix s = .ok v ∧ v < 2 ^ p ∧ l = toLimbs (precLimbs p) v) := by
  have hu := uintFromStr_of_correct (decodeStr_correct h2 h36 s (some (precLimbs p)))
  refine ⟨?_, ?_⟩
  · intro hs
    rw [boxedFromStrPrec_eq]
    rcases hu.2.2.2.1 hs with h | h <;> rw [h] <;> simp
  · intro l hl
    rw [boxedFromStrPrec_eq] at hl
    cases hd : uintFromStr (precLimbs p) radix s with
    | error e => rw [hd] at hl; exact absurd hl (by simp)
    | ok limbs =>
      rw [hd] at hl
      simp only at hl
      obtain ⟨v, hv, hlt, hlv⟩ := hu.2.2.2.2 limbs hd
      by_cases hb : p < bitLen (val limbs)
      · rw [if_pos hb] at hl; exact absurd hl (by simp)
      · rw [if_neg hb] at hl
        injection hl with hl
        refine ⟨v, hv, ?_, by rw [← hl, hlv]⟩
        rw [hlv, val_toLimbs, Nat.mod_eq_of_lt hlt] at hb
        exact (bitLen_le_iff v p).mp (by omega)

end CB.Radix
