/-
  CB.Lemmas.C16Cover — helper lemmas of the C16 coverage round: the exact behaviour of the bincode/serdect
  frame decoder on ARBITRARY byte strings, and the value of a limb list after a store through a mutable
  word view.  Core Lean only.
-/
import CB.Lemmas.C16Bytes
namespace CB.Encoding
open CB

/-- `serdeDeserialize` on any byte string: an error unless at least `8 + 8n` bytes are present and the
    little-endian `u64` prefix announces exactly `8n`; then the next `8n` bytes, little endian; the rest is ignored -/
theorem serdeDeserialize_spec (n : Nat) {bs : List Nat} (hb : Bytes bs) :
    serdeDeserialize n bs =
      if bs.length < 8 + 8 * n ∨ leVal (bs.take 8) ≠ 8 * n then none
      else some (toLimbs n (leVal ((bs.drop 8).take (8 * n)))) := by
  unfold serdeDeserialize
  by_cases h8 : bs.length < 8
  · rw [if_pos h8, if_pos (Or.inl (by omega))]
  · rw [if_neg h8]
    simp only
    have hdl : (bs.drop 8).length = bs.length - 8 := List.length_drop
    by_cases hlen : leVal (bs.take 8) = 8 * n
    · rw [hlen]
      by_cases hshort : (bs.drop 8).length < 8 * n
      · rw [if_pos hshort, if_pos (Or.inl (by omega))]
      · rw [if_neg hshort, if_neg (fun h => h rfl), if_neg (by
          intro h; rcases h with h | h
          · omega
          · exact h rfl)]
        rw [fromLeSlice_spec (Bytes_take (Bytes_drop hb 8) (8 * n))]
        rw [if_pos (by rw [List.length_take]; omega)]
    · rw [if_pos (Or.inr hlen)]
      by_cases hshort : (bs.drop 8).length < leVal (bs.take 8)
      · rw [if_pos hshort]
      · rw [if_neg hshort, if_pos hlen]

/-- trailing bytes are not looked at -/
theorem serdeDeserialize_append {l : List Nat} (h : WF l) (hn : 8 * l.length < B) (tail : List Nat) :
    serdeDeserialize l.length (serdeSerialize l ++ tail) = some l := by
  have hlen : (uintToLeBytes l).length = 8 * l.length := by rw [uintToLeBytes_eq h]; simp
  have hpre : (digitsLe 256 8 (8 * l.length)).length = 8 := by simp
  unfold serdeSerialize serdeDeserialize
  have hv : leVal (digitsLe 256 8 (8 * l.length)) = 8 * l.length := by
    unfold leVal; rw [digitsVal_digitsLe, B_eq_256]; exact Nat.mod_eq_of_lt hn
  have e1 : ((digitsLe 256 8 (8 * l.length) ++ uintToLeBytes l) ++ tail).take 8 = digitsLe 256 8 (8 * l.length) := by
    rw [List.append_assoc]; exact List.take_left' hpre
  have e2 : ((digitsLe 256 8 (8 * l.length) ++ uintToLeBytes l) ++ tail).drop 8 = uintToLeBytes l ++ tail := by
    rw [List.append_assoc]; exact List.drop_left' hpre
  have h1 : ¬ (((digitsLe 256 8 (8 * l.length) ++ uintToLeBytes l) ++ tail).length < 8) := by
    simp only [List.length_append, hpre]; omega
  rw [if_neg h1]
  simp only [e1, e2, hv]
  rw [if_neg (by simp only [List.length_append, hlen]; omega), if_neg (fun hne => hne rfl)]
  rw [← hlen, List.take_left' rfl]
  exact fromLeSlice_toLe h

/-! ### a store through `as_words_mut` / `as_limbs_mut` / `AsMut` -/

theorem setWord_length (l : List Nat) (i w : Nat) : (setWord l i w).length = l.length := by
  unfold setWord; simp

theorem setWord_WF {l : List Nat} (h : WF l) (i : Nat) {w : Nat} (hw : w < B) : WF (setWord l i w) := by
  unfold setWord
  intro x hx
  rcases List.mem_or_eq_of_mem_set hx with hx | hx
  · exact h x hx
  · rw [hx]; exact hw

/-- additive form: the old limb `i` (= `val l / B^i % B`) is replaced by `w` -/
theorem setWord_val_add : ∀ {l : List Nat}, WF l → ∀ {i : Nat}, i < l.length → ∀ (w : Nat),
    val (setWord l i w) + val l / B ^ i % B * B ^ i = val l + w * B ^ i
  | [], _, i, hi, _ => by simp at hi
  | x :: xs, h, 0, _, w => by
    have ⟨hx, _⟩ := WF_cons.mp h
    show val (w :: xs) + val (x :: xs) / B ^ 0 % B * B ^ 0 = val (x :: xs) + w * B ^ 0
    simp only [val_cons, Nat.pow_zero, Nat.div_one, Nat.mul_one]
    rw [Nat.add_mul_mod_self_left, Nat.mod_eq_of_lt hx]
    omega
  | x :: xs, h, i + 1, hi, w => by
    have ⟨hx, hxs⟩ := WF_cons.mp h
    have ih := setWord_val_add hxs (i := i) (by simpa using hi) w
    show val (x :: setWord xs i w) + val (x :: xs) / B ^ (i + 1) % B * B ^ (i + 1) = val (x :: xs) + w * B ^ (i + 1)
    simp only [val_cons]
    have hd : (x + B * val xs) / B ^ (i + 1) = val xs / B ^ i := by
      rw [Nat.pow_succ, Nat.mul_comm (B ^ i) B, ← Nat.div_div_eq_div_mul, Nat.add_mul_div_left _ _ B_pos,
        Nat.div_eq_of_lt hx, Nat.zero_add]
    rw [hd, Nat.pow_succ]
    have e := congrArg (B * ·) ih
    simp only [Nat.mul_add] at e
    generalize hq : val xs / B ^ i % B = q at *
    generalize hp : B ^ i = p at *
    have c1 : q * (p * B) = B * (q * p) := by
      rw [Nat.mul_comm p B, ← Nat.mul_assoc, Nat.mul_comm q B, Nat.mul_assoc]
    have c2 : w * (p * B) = B * (w * p) := by
      rw [Nat.mul_comm p B, ← Nat.mul_assoc, Nat.mul_comm w B, Nat.mul_assoc]
    rw [c1, c2]
    omega

/-- the form the driver prints as L0 -/
theorem setWord_val {l : List Nat} (h : WF l) {i : Nat} (hi : i < l.length) (w : Nat) :
    val (setWord l i w) = val l - val l / B ^ i % B * B ^ i + w * B ^ i := by
  have ha := setWord_val_add h hi w
  have hle : val l / B ^ i % B * B ^ i ≤ val l :=
    Nat.le_trans (Nat.mul_le_mul_right _ (Nat.mod_le _ _)) (Nat.div_mul_le_self _ _)
  omega

end CB.Encoding
