/-
  CB.Lemmas.C11Twins — helper lemmas for the checked twins of CB.Model.Panic (property C11):
  the primitive checked operations, the ConstChoice constructors, shl_limb, bits_vartime, the
  inversion panic classes.
-/
import CB.Model.Panic
import CB.Lemmas.Limbs
import CB.Lemmas.WordBits
namespace CB.Panic
open CB CB.Div

/-! ### the primitive checked operations in their domain -/

theorem dassert_true (p : Profile) (msg : String) : dassert p true msg = .ok () := by
  simp [dassert]

theorem dassert_of (p : Profile) {c : Bool} (h : c = true) (msg : String) : dassert p c msg = .ok () := by
  subst h; simp [dassert]

theorem dassert_release (c : Bool) (msg : String) : dassert release c msg = .ok () := by
  simp [dassert, release]

theorem check_of {c : Bool} (h : c = true) (msg : String) : check c msg = .ok () := by
  subst h; rfl

theorem addW_ok (p : Profile) {a b : Nat} (h : a + b < B) : addW p a b = .ok (a + b) := by
  simp [addW, h]
theorem addWW_ok (p : Profile) {a b : Nat} (h : a + b < B * B) : addWW p a b = .ok (a + b) := by
  simp [addWW, h]
theorem mulWW_ok (p : Profile) {a b : Nat} (h : a * b < B * B) : mulWW p a b = .ok (a * b) := by
  simp [mulWW, h]
theorem shlW_ok (p : Profile) (a : Nat) {s : Nat} (h : s < 64) : shlW p a s = .ok ((a <<< s) % B) := by
  simp [shlW, h]
theorem shrW_ok (p : Profile) (a : Nat) {s : Nat} (h : s < 64) : shrW p a s = .ok (a >>> s) := by
  simp [shrW, h]
theorem subU_ok (p : Profile) (m : Nat) {a b : Nat} (h : b ≤ a) : subU p m a b = .ok (a - b) := by
  simp [subU, h]

theorem mul_lt_BB {a b : Nat} (ha : a ≤ B) (hb : b < B) : a * b < B * B := by
  have h1 : a * b ≤ B * b := Nat.mul_le_mul_right b ha
  have h2 : B * b < B * B := Nat.mul_lt_mul_of_pos_left hb B_pos
  omega

/-! ### ConstChoice constructors: total on words -/

theorem div_half_lt_two {x : Nat} (hx : x < B) : x / HALF < 2 := by
  simp only [B_def, HALF_def] at *; omega

theorem fromWordLsbD_of_lt_two (p : Profile) {w : Nat} (h : w < 2) :
    fromWordLsbD p w = .ok (fromWordLsb w) := by
  have : (w == 0 || w == 1) = true := by
    rcases (by omega : w = 0 ∨ w = 1) with h | h <;> subst h <;> rfl
  simp [fromWordLsbD, dassert_of p this, bind, Except.bind, pure, Except.pure]

theorem fromWordMaskD_ok (p : Profile) {w : Nat} (h : w = 0 ∨ w = WMAX) :
    fromWordMaskD p w = .ok w := by
  have : (w == 0 || w == WMAX) = true := by rcases h with h | h <;> subst h <;> rfl
  simp [fromWordMaskD, fromWordMask, dassert_of p this, bind, Except.bind, pure, Except.pure]

theorem fromWordMsbD_total (p : Profile) {w : Nat} (hw : w < B) :
    fromWordMsbD p w = .ok (fromWordLsb (w / HALF)) :=
  fromWordLsbD_of_lt_two p (div_half_lt_two hw)

theorem wneg_lt (x : Nat) : wneg x < B := Nat.mod_lt _ B_pos
theorem wnot_lt (x : Nat) : wnot x < B := by
  simp only [wnot, WMAX_def, B_def]; omega
theorem wsub_lt (a b : Nat) : wsub a b < B := Nat.mod_lt _ B_pos
theorem wadd_lt (a b : Nat) : wadd a b < B := Nat.mod_lt _ B_pos

theorem fromWordNonzeroD_total (p : Profile) {x : Nat} (hx : x < B) :
    fromWordNonzeroD p x = .ok (fromWordNonzero x) :=
  fromWordLsbD_of_lt_two p (div_half_lt_two (or_lt_B hx (wneg_lt x)))

theorem fromWordEqD_total (p : Profile) {x y : Nat} (hx : x < B) (hy : y < B) :
    fromWordEqD p x y = .ok (fromWordEq x y) := by
  simp [fromWordEqD, fromWordNonzeroD_total p (xor_lt_B hx hy), fromWordEq, bind, Except.bind, pure,
    Except.pure]

theorem fromWordLtD_total (p : Profile) {x y : Nat} (hy : y < B) :
    fromWordLtD p x y = .ok (fromWordLt x y) :=
  fromWordLsbD_of_lt_two p (div_half_lt_two
    (or_lt_B (Nat.lt_of_le_of_lt Nat.and_le_right hy) (Nat.lt_of_le_of_lt Nat.and_le_right (wsub_lt x y))))

theorem fromWordLeD_total (p : Profile) {x y : Nat} (hy : y < B) :
    fromWordLeD p x y = .ok (fromWordLe x y) :=
  fromWordLsbD_of_lt_two p (div_half_lt_two
    (Nat.lt_of_le_of_lt Nat.and_le_left (or_lt_B (wnot_lt x) hy)))

/-! ### `shl_limb` -/

theorem shlLimbLoopD_ok (p : Profile) {lshift rshift : Nat} (nz : Nat) (hl : lshift < 64) (hr : rshift < 64) :
    ∀ (xs : List Nat) (prev : Nat),
      shlLimbLoopD p lshift rshift nz prev xs = .ok (Div.shlLimbLoop lshift rshift nz prev xs)
  | [], _ => rfl
  | x :: xs, prev => by
    simp [shlLimbLoopD, shlW_ok p x hl, shrW_ok p prev hr, shlLimbLoopD_ok p nz hl hr xs x,
      Div.shlLimbLoop, bind, Except.bind, pure, Except.pure]

/-! ### `bits_vartime` -/

theorem bitsScan_le (l : List Nat) : ∀ (fuel i : Nat), bitsScan l fuel i ≤ i
  | 0, _ => Nat.le_refl _
  | fuel + 1, i => by
    simp only [bitsScan]
    split
    · exact Nat.le_trans (bitsScan_le l fuel (i - 1)) (Nat.sub_le _ _)
    · exact Nat.le_refl _

theorem idx_ok {l : List Nat} {i : Nat} (h : i < l.length) : idx l i = .ok (l.getD i 0) := by
  simp [idx, List.getD, List.getElem?_eq_getElem h]

theorem idx_err {l : List Nat} {i : Nat} (h : l.length ≤ i) : idx l i = .error "index out of bounds" := by
  simp [idx, List.getElem?_eq_none h]

/-! ### inversion panic classes (pre-fix forms) -/

theorem tzW_zero : ∀ w, tzW w 0 = w
  | 0 => rfl
  | w + 1 => by simp [tzW, tzW_zero w]; omega

/-- for `0 < m < 2^w`: the trailing-zero count is below the width and the odd part is odd -/
theorem tzW_spec : ∀ (w m : Nat), 0 < m → m < 2 ^ w →
    tzW w m < w ∧ (m / 2 ^ (tzW w m)) % 2 = 1
  | 0, m, h0, h1 => by simp at h1; omega
  | w + 1, m, h0, h1 => by
    by_cases hodd : m % 2 = 1
    · simp [tzW, hodd]
    · have h2 : 0 < m / 2 := by omega
      have h3 : m / 2 < 2 ^ w := by rw [Nat.pow_succ] at h1; omega
      obtain ⟨ih1, ih2⟩ := tzW_spec w (m / 2) h2 h3
      simp only [tzW, hodd, if_false]
      refine ⟨by omega, ?_⟩
      rw [Nat.add_comm 1, Nat.pow_succ, Nat.mul_comm, ← Nat.div_div_eq_div_mul]
      exact ih2

theorem invMod2kVartimeOldD_isPanic (w : Nat) : ∀ (fuel i : Nat), i ≤ w →
    isPanic (invMod2kVartimeOldD w fuel i) = decide (w < i + fuel)
  | 0, i, h => by simp [invMod2kVartimeOldD, isPanic]; omega
  | fuel + 1, i, h => by
    by_cases hi : i < w
    · simp only [invMod2kVartimeOldD, check, hi, decide_true, if_true, bind, Except.bind]
      rw [invMod2kVartimeOldD_isPanic w fuel (i + 1) (by omega)]
      congr 1; apply propext; omega
    · simp only [invMod2kVartimeOldD, check, hi, decide_false, bind, Except.bind]
      simp [isPanic]; omega

end CB.Panic
