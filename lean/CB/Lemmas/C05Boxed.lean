/-
  CB.Lemmas.C05Boxed — `BoxedUint` shifts (`sh?_vartime_into` with a zeroed destination, the
  `overflowing_sh?_assign` ladder) coincide with the fixed-width forms.
-/
import CB.Lemmas.C05Ladder
namespace CB.Shift
open CB CB.Bits

theorem boxedShlInto_zero (a : List Nat) (s : Nat) :
    boxedShlInto (uzero a.length) a s =
      if s < 64 * a.length then some (overflowingShlVartime a s).1 else none := by
  unfold boxedShlInto overflowingShlVartime
  by_cases h : s < 64 * a.length
  · have hk : s / 64 ≤ a.length := by omega
    have hm : (uzero a.length).take (s / 64) ++ a.take (a.length - s / 64) = shlMove a (s / 64) := by
      rw [shlMove_eq hk]; unfold uzero; rw [List.take_replicate, Nat.min_eq_left hk]
    simp only [ge_iff_le, Nat.not_le.mpr h, if_false, h, if_true, hm]
    by_cases hr : s % 64 = 0 <;> simp [hr]
  · simp [h, Nat.not_lt.mp h]

/-- the ascending carry pass of the boxed right shift computes the same limbs as the descending pass -/
theorem shrAsc_eq (r : Nat) (l : List Nat) : shrAsc r l = (shrCarry r l 0).1 := by
  induction l with
  | nil => rfl
  | cons x xs ih =>
    cases xs with
    | nil => simp [shrAsc, shrCarry]
    | cons y t =>
      rw [shrAsc, ih, shrCarry_cons r x (y :: t)]
      simp only [shrCarry_cons r y t]

theorem boxedShrInto_zero (a : List Nat) (s : Nat) :
    boxedShrInto (uzero a.length) a s =
      if s < 64 * a.length then some (overflowingShrVartime a s).1 else none := by
  unfold boxedShrInto overflowingShrVartime
  by_cases h : s < 64 * a.length
  · have hk : s / 64 ≤ a.length := by omega
    have hm : a.drop (s / 64) ++ (uzero a.length).drop (a.length - s / 64) = shrMove a (s / 64) 0 := by
      unfold shrMove uzero; rw [List.drop_replicate]; congr 2; omega
    simp only [ge_iff_le, Nat.not_le.mpr h, if_false, h, if_true, hm]
    by_cases hr : s % 64 = 0
    · simp [hr]
    · simp only [hr, if_false, shrAsc_eq]
  · simp [h, Nat.not_lt.mp h]

theorem choiceMask_eq (b : Nat) : choiceMask (b % 2) = mask (decide (b % 2 = 1)) := by
  unfold choiceMask mask
  by_cases h : b % 2 = 1
  · simp [h]
  · have : b % 2 = 0 := by omega
    simp [this]

theorem boxedShlLadder_spec {n : Nat} (shift k i : Nat) (r : List Nat)
    (hr : WF r ∧ r.length = n) (hsteps : ∀ j, i ≤ j → j < i + k → 2 ^ j < 64 * n) :
    boxedShlLadder shift k i r = some (overflowingShlVartime r ((shift / 2 ^ i % 2 ^ k) * 2 ^ i)).1 := by
  refine ladder_generic (L := boxedShlLadder) (fun t r => (overflowingShlVartime r t).1)
    (fun r => WF r ∧ r.length = n) (64 * n) (fun _ _ _ => rfl) ?_ (fun r hr => shlV_zero hr.1)
    (fun r t1 t2 hr => shlV_add hr t1 t2)
    (fun r t hr => ⟨(shlV_val hr.1 t).2.2, by rw [(shlV_val hr.1 t).2.1, hr.2]⟩) k i r shift hr hsteps
  intro shift k i r hr hi
  have hlt : 2 ^ i < 64 * r.length := by rw [hr.2]; exact hi
  have hspec := overflowingShlVartime_spec hr.1 hlt
  show (match boxedShlInto (uzero r.length) r (2 ^ i) with
    | none => none
    | some t => boxedShlLadder shift k (i + 1) (uselect r t (choiceMask ((shift / 2 ^ i) % 2)))) = _
  rw [boxedShlInto_zero, if_pos hlt]
  simp only
  rw [choiceMask_eq, uselect_spec _ hr.1 hspec.2.2.2 hspec.2.2.1.symm]
  by_cases hb : shift / 2 ^ i % 2 = 1 <;> simp [hb]

theorem boxedShrLadder_spec {n : Nat} (shift k i : Nat) (r : List Nat)
    (hr : WF r ∧ r.length = n) (hsteps : ∀ j, i ≤ j → j < i + k → 2 ^ j < 64 * n) :
    boxedShrLadder shift k i r = some (overflowingShrVartime r ((shift / 2 ^ i % 2 ^ k) * 2 ^ i)).1 := by
  refine ladder_generic (L := boxedShrLadder) (fun t r => (overflowingShrVartime r t).1)
    (fun r => WF r ∧ r.length = n) (64 * n) (fun _ _ _ => rfl) ?_ (fun r hr => shrV_zero hr.1)
    (fun r t1 t2 hr => shrV_add hr t1 t2)
    (fun r t hr => ⟨(shrV_val hr.1 t).2.2, by rw [(shrV_val hr.1 t).2.1, hr.2]⟩) k i r shift hr hsteps
  intro shift k i r hr hi
  have hlt : 2 ^ i < 64 * r.length := by rw [hr.2]; exact hi
  have hspec := overflowingShrVartime_spec hr.1 hlt
  show (match boxedShrInto (uzero r.length) r (2 ^ i) with
    | none => none
    | some t => boxedShrLadder shift k (i + 1) (uselect r t (choiceMask ((shift / 2 ^ i) % 2)))) = _
  rw [boxedShrInto_zero, if_pos hlt]
  simp only
  rw [choiceMask_eq, uselect_spec _ hr.1 hspec.2.2.2 hspec.2.2.1.symm]
  by_cases hb : shift / 2 ^ i % 2 = 1 <;> simp [hb]

theorem boxedOverflowingShl_spec {a : List Nat} (ha : WF a) (hn0 : a ≠ []) (hn : 64 * a.length ≤ TWO32)
    (s : Nat) :
    boxedOverflowingShl a s = some ((overflowingShlVartime a s).1, decide (64 * a.length ≤ s)) := by
  have hlen : 0 < a.length := List.length_pos_iff.mpr hn0
  have hbits : 0 < 64 * a.length := by omega
  unfold boxedOverflowingShl
  simp only
  have hl := boxedShlLadder_spec (s % (64 * a.length)) (shiftBits (64 * a.length)) 0 a ⟨ha, rfl⟩
    (fun j _ hj => step_lt_bits hbits hn (by omega))
  rw [Nat.pow_zero, Nat.div_one, Nat.mul_one, Nat.mod_eq_of_lt (reduced_lt hbits hn)] at hl
  rw [hl]
  by_cases h : s < 64 * a.length
  · simp [h, Nat.mod_eq_of_lt h, Nat.not_le.mpr h]
  · have h' := Nat.not_lt.mp h
    simp [h, h', overflowingShlVartime_overflow a h']

theorem boxedOverflowingShr_spec {a : List Nat} (ha : WF a) (hn0 : a ≠ []) (hn : 64 * a.length ≤ TWO32)
    (s : Nat) :
    boxedOverflowingShr a s = some ((overflowingShrVartime a s).1, decide (64 * a.length ≤ s)) := by
  have hlen : 0 < a.length := List.length_pos_iff.mpr hn0
  have hbits : 0 < 64 * a.length := by omega
  unfold boxedOverflowingShr
  simp only
  have hl := boxedShrLadder_spec (s % (64 * a.length)) (shiftBits (64 * a.length)) 0 a ⟨ha, rfl⟩
    (fun j _ hj => step_lt_bits hbits hn (by omega))
  rw [Nat.pow_zero, Nat.div_one, Nat.mul_one, Nat.mod_eq_of_lt (reduced_lt hbits hn)] at hl
  rw [hl]
  by_cases h : s < 64 * a.length
  · simp [h, Nat.mod_eq_of_lt h, Nat.not_le.mpr h]
  · have h' := Nat.not_lt.mp h
    simp [h, h', overflowingShrVartime_overflow a h']

end CB.Shift
