/-
  CB.Lemmas.C10Unsat — arithmetic of `UnsatInt` (62-bit limbs, two's complement) as modelled in
  CB.Model.SafeGcd: value equations of `add`, `mul` by `i64`, `neg`, `shr`, `is_negative`.
-/
import CB.Lemmas.C10Jump
namespace CB.SafeGcd

/-- 2^62 -/
def Q : Nat := 2 ^ 62
theorem Q_def : Q = 4611686018427387904 := by decide
theorem Q_pos : 0 < Q := by decide
theorem MASK_Q : MASK = Q - 1 := by decide
theorem two_pow_LB : 2 ^ LB = Q := rfl

def WF62 (l : List Nat) : Prop := ∀ x ∈ l, x < Q

theorem WF62_nil : WF62 [] := by intro x h; cases h
theorem WF62_cons {x : Nat} {xs : List Nat} : WF62 (x :: xs) ↔ x < Q ∧ WF62 xs := by
  constructor
  · intro h; exact ⟨h x List.mem_cons_self, fun y hy => h y (List.mem_cons_of_mem _ hy)⟩
  · rintro ⟨h1, h2⟩ y hy
    rcases List.mem_cons.mp hy with rfl | hy
    · exact h1
    · exact h2 y hy

@[simp] theorem uvalN_nil : uvalN [] = 0 := rfl
theorem uvalN_cons (x : Nat) (xs : List Nat) : uvalN (x :: xs) = x + Q * uvalN xs := rfl

theorem uvalN_lt {l : List Nat} (h : WF62 l) : uvalN l < Q ^ l.length := by
  induction l with
  | nil => simp
  | cons x xs ih =>
    obtain ⟨hx, hxs⟩ := WF62_cons.mp h
    have := ih hxs
    rw [uvalN_cons, List.length_cons, pow_succ]
    have : Q * uvalN xs ≤ Q * (Q ^ xs.length - 1) := Nat.mul_le_mul_left Q (by omega)
    have e : Q * (Q ^ xs.length - 1) = Q ^ xs.length * Q - Q := by
      rw [Nat.mul_sub, Nat.mul_one, Nat.mul_comm]
    have hp : 0 < Q ^ xs.length := Nat.pow_pos Q_pos
    have : Q ≤ Q ^ xs.length * Q := Nat.le_mul_of_pos_left Q hp
    omega

theorem and_MASK (x : Nat) : x &&& MASK = x % Q := by
  rw [MASK_Q]; exact Nat.and_two_pow_sub_one_eq_mod x 62

theorem shr_LB (x : Nat) : x >>> LB = x / Q := Nat.shiftRight_eq_div_pow x 62

/-- `r + Q·(s mod M) = (r + Q·s) mod (Q·M)` for a limb `r < Q` -/
theorem limb_mod {r s M : Nat} (hr : r < Q) (hM : 0 < M) : r + Q * (s % M) = (r + Q * s) % (Q * M) := by
  have h1 : Q * (s % M) = (Q * s) % (Q * M) := (Nat.mul_mod_mul_left Q s M).symm
  have h2 : s % M ≤ M - 1 := by have := Nat.mod_lt s hM; omega
  have h3 : Q * (s % M) ≤ Q * (M - 1) := Nat.mul_le_mul_left Q h2
  have h4 : Q * (M - 1) = Q * M - Q := by rw [Nat.mul_sub, Nat.mul_one]
  have h5 : Q ≤ Q * M := Nat.le_mul_of_pos_right Q hM
  have hlt : r + Q * (s % M) < Q * M := by omega
  rw [← Nat.add_mod_mod, ← h1, Nat.mod_eq_of_lt hlt]

/-! ### add -/

theorem uaddC_cons (a b c : Nat) (as bs : List Nat) :
    uaddC (a :: as) (b :: bs) c = ((a + b + c) &&& MASK) :: uaddC as bs ((a + b + c) >>> LB) := rfl

theorem uaddC_spec : ∀ (a b : List Nat) (c : Nat), a.length = b.length →
    (uaddC a b c).length = a.length ∧ WF62 (uaddC a b c) ∧
    uvalN (uaddC a b c) = (uvalN a + uvalN b + c) % Q ^ a.length := by
  intro a
  induction a with
  | nil => intro b c h; cases b <;> simp_all [uaddC, WF62_nil, Nat.mod_one]
  | cons x xs ih =>
    intro b c h
    cases b with
    | nil => simp at h
    | cons y ys =>
      have hl : xs.length = ys.length := by simpa using h
      obtain ⟨i1, i2, i3⟩ := ih ys ((x + y + c) >>> LB) hl
      rw [uaddC_cons]
      refine ⟨by simp [i1], ?_, ?_⟩
      · exact WF62_cons.mpr ⟨by rw [and_MASK]; exact Nat.mod_lt _ Q_pos, i2⟩
      · rw [uvalN_cons, i3, and_MASK, shr_LB, List.length_cons, pow_succ, Nat.mul_comm (Q ^ xs.length) Q,
          limb_mod (Nat.mod_lt _ Q_pos) (Nat.pow_pos Q_pos)]
        congr 1
        rw [uvalN_cons, uvalN_cons]
        have := Nat.mod_add_div (x + y + c) Q
        generalize (x + y + c) % Q = r at *
        generalize (x + y + c) / Q = q at *
        generalize uvalN xs = A at *
        generalize uvalN ys = B at *
        have e : Q * (A + B + q) = Q * A + Q * B + Q * q := by ring
        omega

theorem uadd_spec (a b : List Nat) (h : a.length = b.length) :
    (uadd a b).length = a.length ∧ WF62 (uadd a b) ∧
    uvalN (uadd a b) = (uvalN a + uvalN b) % Q ^ a.length := by
  have := uaddC_spec a b 0 h
  simpa [uadd] using this

/-! ### neg -/

theorem xor_mask62 {x : Nat} (h : x < Q) : x ^^^ MASK = Q - 1 - x := by
  have := @BitVec.toNat_not 62 (BitVec.ofNat 62 x)
  rw [BitVec.not_def, BitVec.toNat_xor, BitVec.toNat_allOnes, BitVec.toNat_ofNat,
    Nat.mod_eq_of_lt (show x < 2 ^ 62 from h)] at this
  rw [MASK_Q, Nat.xor_comm]; exact this

theorem unegC_cons (x c : Nat) (xs : List Nat) :
    unegC (x :: xs) c = (((x ^^^ MASK) + c) &&& MASK) :: unegC xs (((x ^^^ MASK) + c) >>> LB) := rfl

/-- `!a + c` limb-wise -/
theorem unegC_spec : ∀ (a : List Nat) (c : Nat), WF62 a →
    (unegC a c).length = a.length ∧ WF62 (unegC a c) ∧
    uvalN (unegC a c) = (Q ^ a.length - 1 - uvalN a + c) % Q ^ a.length := by
  intro a
  induction a with
  | nil => intro c _; simp [unegC, WF62_nil, Nat.mod_one]
  | cons x xs ih =>
    intro c h
    obtain ⟨hx, hxs⟩ := WF62_cons.mp h
    obtain ⟨i1, i2, i3⟩ := ih (((x ^^^ MASK) + c) >>> LB) hxs
    rw [unegC_cons]
    refine ⟨by simp [i1], ?_, ?_⟩
    · exact WF62_cons.mpr ⟨by rw [and_MASK]; exact Nat.mod_lt _ Q_pos, i2⟩
    · rw [uvalN_cons, i3, and_MASK, shr_LB, List.length_cons, pow_succ, Nat.mul_comm (Q ^ xs.length) Q,
        limb_mod (Nat.mod_lt _ Q_pos) (Nat.pow_pos Q_pos), xor_mask62 hx]
      congr 1
      rw [uvalN_cons]
      have hlt := uvalN_lt hxs
      have := Nat.mod_add_div (Q - 1 - x + c) Q
      generalize (Q - 1 - x + c) % Q = r at *
      generalize (Q - 1 - x + c) / Q = q at *
      generalize uvalN xs = A at *
      generalize hP : Q ^ xs.length = P at *
      have e1 : (P - 1 - A + q) + (1 + A) = P + q := by omega
      have e : Q * (P - 1 - A + q) + (Q + Q * A) = Q * P + Q * q := by
        have h : Q * ((P - 1 - A + q) + (1 + A)) = Q * (P + q) := by rw [e1]
        rw [← Nat.mul_add Q P q, ← h]; ring
      have hQA : Q * A ≤ Q * (P - 1) := Nat.mul_le_mul_left Q (by omega)
      have hQP : Q * (P - 1) = Q * P - Q := by rw [Nat.mul_sub, Nat.mul_one]
      have hQle : Q ≤ Q * P := Nat.le_mul_of_pos_right Q (by omega)
      omega

theorem uneg_spec (a : List Nat) (h : WF62 a) :
    (uneg a).length = a.length ∧ WF62 (uneg a) ∧
    uvalN (uneg a) = (Q ^ a.length - uvalN a) % Q ^ a.length := by
  obtain ⟨h1, h2, h3⟩ := unegC_spec a 1 h
  refine ⟨h1, h2, ?_⟩
  show uvalN (unegC a 1) = _
  rw [h3]
  have := uvalN_lt h
  congr 1; omega

/-! ### mul by `i64` -/

theorem umulC_cons (x o mask carry : Nat) (xs : List Nat) :
    umulC (x :: xs) o mask carry =
      (((carry + (x ^^^ mask) * o) % U64) &&& MASK) ::
        umulC xs o mask (((carry + (x ^^^ mask) * o) >>> LB) % U64) := rfl

theorem U64_def : U64 = 18446744073709551616 := by decide

theorem umulC_spec : ∀ (a : List Nat) (o mask carry : Nat), WF62 (a.map (· ^^^ mask)) →
    o ≤ 2 ^ 63 → carry < U64 →
    (umulC a o mask carry).length = a.length ∧ WF62 (umulC a o mask carry) ∧
    uvalN (umulC a o mask carry) = (carry + uvalN (a.map (· ^^^ mask)) * o) % Q ^ a.length := by
  intro a
  induction a with
  | nil => intro o mask carry _ _ _; simp [umulC, WF62_nil, Nat.mod_one]
  | cons x xs ih =>
    intro o mask carry h ho hc
    rw [List.map_cons] at h
    obtain ⟨hx, hxs⟩ := WF62_cons.mp h
    generalize hy : x ^^^ mask = y at *
    -- the running sum fits u128 and its carry fits u64
    have hyo : y * o ≤ (Q - 1) * 2 ^ 63 := Nat.mul_le_mul (by omega) ho
    have hsum : (carry + y * o) / Q < U64 := by
      rw [Nat.div_lt_iff_lt_mul Q_pos]
      rw [U64_def, Q_def] at *
      omega
    obtain ⟨i1, i2, i3⟩ := ih o mask (((carry + y * o) >>> LB) % U64) hxs ho (Nat.mod_lt _ (by rw [U64_def]; omega))
    rw [umulC_cons, hy]
    refine ⟨by simp [i1], ?_, ?_⟩
    · exact WF62_cons.mpr ⟨by rw [and_MASK]; exact Nat.mod_lt _ Q_pos, i2⟩
    · have hlimb : ((carry + y * o) % U64) &&& MASK = (carry + y * o) % Q := by
        rw [and_MASK]
        exact Nat.mod_mod_of_dvd _ (by rw [U64_def, Q_def]; exact ⟨4, by norm_num⟩)
      have hcar : ((carry + y * o) >>> LB) % U64 = (carry + y * o) / Q := by
        rw [shr_LB]; exact Nat.mod_eq_of_lt hsum
      rw [uvalN_cons, i3, hlimb, hcar, List.length_cons, pow_succ, Nat.mul_comm (Q ^ xs.length) Q,
        limb_mod (Nat.mod_lt _ Q_pos) (Nat.pow_pos Q_pos)]
      congr 1
      rw [List.map_cons, hy, uvalN_cons]
      have := Nat.mod_add_div (carry + y * o) Q
      generalize (carry + y * o) % Q = r at *
      generalize (carry + y * o) / Q = q at *
      generalize uvalN (List.map (fun x => x ^^^ mask) xs) = Y at *
      have e : Q * (q + Y * o) = Q * q + Q * Y * o := by ring
      have e2 : (y + Q * Y) * o = y * o + Q * Y * o := by ring
      rw [e, e2]; omega

theorem map_xor_zero (a : List Nat) : a.map (· ^^^ 0) = a := by
  induction a with
  | nil => rfl
  | cons x xs ih => simp [ih]

theorem uvalN_compl : ∀ (a : List Nat), WF62 a →
    WF62 (a.map (· ^^^ MASK)) ∧ uvalN (a.map (· ^^^ MASK)) = Q ^ a.length - 1 - uvalN a := by
  intro a
  induction a with
  | nil => intro _; simp [WF62_nil]
  | cons x xs ih =>
    intro h
    obtain ⟨hx, hxs⟩ := WF62_cons.mp h
    obtain ⟨i1, i2⟩ := ih hxs
    rw [List.map_cons, xor_mask62 hx]
    refine ⟨WF62_cons.mpr ⟨by omega, i1⟩, ?_⟩
    rw [uvalN_cons, i2, uvalN_cons, List.length_cons, pow_succ]
    have hlt := uvalN_lt hxs
    generalize uvalN xs = A at *
    generalize Q ^ xs.length = P at *
    have e : Q * (P - 1 - A) + (Q + Q * A) = P * Q := by
      have h1 : (P - 1 - A) + (1 + A) = P := by omega
      have h2 : Q * ((P - 1 - A) + (1 + A)) = Q * P := by rw [h1]
      rw [Nat.mul_comm P Q, ← h2]; ring
    omega

/-- `mul`: the limbs of `a·t` modulo `2^(62n)`, for `|t| ≤ 2^63` (covers every matrix entry and
    `md`/`me`). -/
theorem umul_spec (a : List Nat) (t : Int) (h : WF62 a) (ht1 : -(2 ^ 63) ≤ t) (ht2 : t ≤ 2 ^ 63) :
    (umul a t).length = a.length ∧ WF62 (umul a t) ∧
    ((uvalN (umul a t) : Nat) : Int) ≡ (uvalN a : Nat) * t [ZMOD ((Q ^ a.length : Nat) : Int)] := by
  unfold umul
  by_cases hneg : t < 0
  · rw [if_pos hneg]
    obtain ⟨c1, c2⟩ := uvalN_compl a h
    have ho : (-t).toNat ≤ 2 ^ 63 := by omega
    have hcar : toU64 (-t) = (-t).toNat := by
      unfold toU64
      rw [Int.emod_eq_of_lt (by omega) (by omega)]
    have hc : toU64 (-t) < U64 := by rw [hcar, U64_def]; omega
    obtain ⟨i1, i2, i3⟩ := umulC_spec a (-t).toNat MASK (toU64 (-t)) c1 ho hc
    refine ⟨i1, i2, ?_⟩
    rw [i3, c2, hcar]
    have hlt := uvalN_lt h
    generalize uvalN a = A at *
    generalize Q ^ a.length = P at *
    have hP : 0 < P := by omega
    have e : (-t).toNat + (P - 1 - A) * (-t).toNat = (P - A) * (-t).toNat := by
      have : P - A = (P - 1 - A) + 1 := by omega
      rw [this]; ring
    rw [e]
    have hcast : (((P - A) * (-t).toNat : Nat) : Int) = ((P : Int) - A) * (-t) := by
      rw [Nat.cast_mul, Nat.cast_sub (by omega), Int.toNat_of_nonneg (by omega)]
    have h1 : ((((P - A) * (-t).toNat) % P : Nat) : Int) ≡ (((P - A) * (-t).toNat : Nat) : Int) [ZMOD (P : Int)] := by
      rw [Int.natCast_mod]; exact Int.mod_modEq _ _
    refine h1.trans ?_
    rw [hcast]
    have : ((P : Int) - A) * (-t) = (A : Int) * t + (P : Int) * (-t) := by ring
    rw [this]
    exact Int.modEq_iff_dvd.mpr ⟨t, by ring⟩
  · rw [if_neg hneg]
    have ho : t.toNat ≤ 2 ^ 63 := by omega
    obtain ⟨i1, i2, i3⟩ := umulC_spec a t.toNat 0 0 (by rw [map_xor_zero]; exact h) ho (by rw [U64_def]; omega)
    refine ⟨i1, i2, ?_⟩
    rw [i3, map_xor_zero, Nat.zero_add, Int.natCast_mod]
    have : ((uvalN a * t.toNat : Nat) : Int) = (uvalN a : Nat) * t := by
      rw [Nat.cast_mul, Int.toNat_of_nonneg (by omega)]
    rw [this]
    exact Int.mod_modEq _ _

/-! ### sign, signed value, `shr` -/

theorem half_mask : MASK >>> 1 = 2 ^ 61 - 1 := by decide

theorem uvalN_append (a : List Nat) (t : Nat) : uvalN (a ++ [t]) = uvalN a + Q ^ a.length * t := by
  induction a with
  | nil => simp [uvalN_cons]
  | cons x xs ih =>
    rw [List.cons_append, uvalN_cons, ih, uvalN_cons, List.length_cons, pow_succ]; ring

theorem getLastD_snoc (l : List Nat) (t d : Nat) : (l ++ [t]).getLastD d = t := by
  induction l generalizing d with
  | nil => rfl
  | cons y ys ih => rw [List.cons_append, List.getLastD_cons]; exact ih y

theorem uisNeg_append (a : List Nat) (t : Nat) : uisNeg (a ++ [t]) = decide (t > 2 ^ 61 - 1) := by
  unfold uisNeg
  rw [half_mask, getLastD_snoc]

theorem uisNeg_cons_append (x : Nat) (a : List Nat) (t : Nat) :
    uisNeg (x :: (a ++ [t])) = uisNeg (a ++ [t]) := by
  unfold uisNeg
  rw [← List.cons_append, getLastD_snoc, getLastD_snoc]

theorem Q_half : Q = 2 * 2 ^ 61 := by decide

/-- sign test = comparison of the unsigned value with half the range -/
theorem uisNeg_iff (a : List Nat) (t : Nat) (ha : WF62 a) :
    uisNeg (a ++ [t]) = true ↔ Q ^ (a.length + 1) ≤ 2 * uvalN (a ++ [t]) := by
  rw [uisNeg_append, uvalN_append, show Q ^ (a.length + 1) = Q ^ a.length * Q from pow_succ Q a.length]
  have hlt := uvalN_lt ha
  generalize uvalN a = A at *
  generalize Q ^ a.length = P at *
  simp only [gt_iff_lt, decide_eq_true_eq]
  have hQ : Q = 2 * 2305843009213693952 := by decide
  have h61 : (2 : Nat) ^ 61 - 1 = 2305843009213693951 := by norm_num
  rw [hQ, h61]
  clear hQ h61
  constructor
  · intro h
    have : P * 2305843009213693952 ≤ P * t := Nat.mul_le_mul_left P (by omega)
    linarith
  · intro h
    by_contra hc
    have ht : t ≤ 2305843009213693951 := by omega
    have h1 : P * t ≤ P * 2305843009213693951 := Nat.mul_le_mul_left P ht
    linarith

theorem uval_eq (a : List Nat) :
    uval a = (uvalN a : Int) - (if uisNeg a then ((Q ^ a.length : Nat) : Int) else 0) := by
  unfold uval
  have : ((2 : Int) ^ (LB * a.length)) = ((Q ^ a.length : Nat) : Int) := by
    rw [LB_eq, pow_mul]; push_cast; rfl
  split <;> simp [this]

/-- a nonempty list splits into its body and its top limb -/
theorem exists_append_of_ne_nil : ∀ (l : List Nat), l ≠ [] → ∃ a t, l = a ++ [t] := by
  intro l h
  exact ⟨l.dropLast, l.getLast h, (List.dropLast_append_getLast h).symm⟩

theorem WF62_append {a : List Nat} {t : Nat} : WF62 (a ++ [t]) ↔ WF62 a ∧ t < Q := by
  constructor
  · intro h
    exact ⟨fun x hx => h x (List.mem_append_left _ hx), h t (by simp)⟩
  · rintro ⟨h1, h2⟩ x hx
    rcases List.mem_append.mp hx with h | h
    · exact h1 x h
    · simp at h; rw [h]; exact h2

/-- range of the signed value -/
theorem uval_range (l : List Nat) (h : WF62 l) (hne : l ≠ []) :
    -((Q ^ l.length : Nat) : Int) ≤ 2 * uval l ∧ 2 * uval l < ((Q ^ l.length : Nat) : Int) ∧
    uval l ≡ (uvalN l : Int) [ZMOD ((Q ^ l.length : Nat) : Int)] := by
  obtain ⟨a, t, rfl⟩ := exists_append_of_ne_nil l hne
  obtain ⟨ha, _⟩ := WF62_append.mp h
  have hiff := uisNeg_iff a t ha
  have hlt := uvalN_lt h
  rw [uval_eq]
  rw [List.length_append, List.length_singleton] at *
  generalize uvalN (a ++ [t]) = V at *
  generalize Q ^ (a.length + 1) = P at *
  by_cases hn : uisNeg (a ++ [t]) = true
  · have := hiff.mp hn
    rw [if_pos hn]
    refine ⟨by omega, by omega, ?_⟩
    exact Int.modEq_iff_dvd.mpr ⟨1, by ring⟩
  · have : ¬ P ≤ 2 * V := fun h => hn (hiff.mpr h)
    rw [if_neg hn]
    refine ⟨by omega, by omega, ?_⟩
    simp

/-- two's-complement read-back: a well-formed limb list whose unsigned value is congruent to `X`
    and `X` within the signed range *is* `X` -/
theorem uval_of_modEq (l : List Nat) (h : WF62 l) (hne : l ≠ []) (X : Int)
    (hX : (uvalN l : Int) ≡ X [ZMOD ((Q ^ l.length : Nat) : Int)])
    (h1 : -((Q ^ l.length : Nat) : Int) ≤ 2 * X) (h2 : 2 * X < ((Q ^ l.length : Nat) : Int)) :
    uval l = X := by
  obtain ⟨r1, r2, r3⟩ := uval_range l h hne
  have hm := r3.trans hX
  have hd := (Int.modEq_iff_dvd.mp hm)
  obtain ⟨k, hk⟩ := hd
  generalize ((Q ^ l.length : Nat) : Int) = P at *
  have hP : 0 < P := by omega
  -- |X - uval l| < P and P ∣ it
  have hk0 : k = 0 := by
    by_contra hne0
    rcases lt_or_gt_of_ne hne0 with hlt | hgt
    · have : P * k ≤ P * (-1) := mul_le_mul_of_nonneg_left (by omega) (le_of_lt hP)
      omega
    · have : P * 1 ≤ P * k := mul_le_mul_of_nonneg_left (by omega) (le_of_lt hP)
      omega
  rw [hk0, mul_zero] at hk
  omega

theorem ushr_eq (a : List Nat) (x t : Nat) :
    ushr (x :: (a ++ [t])) = a ++ [t] ++ [if t > 2 ^ 61 - 1 then MASK else 0] := by
  unfold ushr
  rw [uisNeg_cons_append, uisNeg_append]
  simp

/-- `shr`: exact arithmetic shift by one limb (`n ≥ 2` limbs) -/
theorem ushr_spec (l : List Nat) (h : WF62 l) (hlen : 2 ≤ l.length) :
    (ushr l).length = l.length ∧ WF62 (ushr l) ∧ uval (ushr l) = uval l / (Q : Int) := by
  match l, hlen with
  | x :: rest, hlen =>
    have hne : rest ≠ [] := by intro h0; rw [h0] at hlen; simp at hlen
    obtain ⟨a, t, rfl⟩ := exists_append_of_ne_nil rest hne
    obtain ⟨hx, hrest⟩ := WF62_cons.mp h
    obtain ⟨ha, ht⟩ := WF62_append.mp hrest
    rw [ushr_eq]
    have hW : WF62 (a ++ [t] ++ [if t > 2 ^ 61 - 1 then MASK else 0]) := by
      apply WF62_append.mpr
      refine ⟨hrest, ?_⟩
      split
      · rw [MASK_Q]; have := Q_pos; omega
      · exact Q_pos
    refine ⟨by simp, hW, ?_⟩
    -- values
    have hV1 : uvalN (x :: (a ++ [t])) = x + Q * uvalN (a ++ [t]) := uvalN_cons _ _
    have hN1 : uisNeg (x :: (a ++ [t])) = uisNeg (a ++ [t]) := uisNeg_cons_append x a t
    rw [uval_eq, uval_eq (x :: (a ++ [t])), hN1, uvalN_append (a ++ [t]), uisNeg_append (a ++ [t]), hV1,
      uisNeg_append]
    have hl1 : (a ++ [t]).length = a.length + 1 := by simp
    have hl2 : (a ++ [t] ++ [if t > 2 ^ 61 - 1 then MASK else 0]).length = a.length + 1 + 1 := by simp
    have hl3 : (x :: (a ++ [t])).length = a.length + 1 + 1 := by simp
    rw [hl1, hl2, hl3]
    have hlt := uvalN_lt hrest
    rw [hl1] at hlt
    generalize uvalN (a ++ [t]) = V at *
    generalize hP : Q ^ (a.length + 1) = P at *
    have hPQ : Q ^ (a.length + 1 + 1) = P * Q := by rw [pow_succ, hP]
    rw [hPQ]
    have hQ := Q_pos
    by_cases hn : t > 2 ^ 61 - 1
    · simp only [hn, decide_true, if_true, MASK_Q]
      have hm : (2 ^ 61 - 1 < Q - 1) := by rw [Q_def]; norm_num
      simp only [hm, decide_true, if_true]
      push_cast
      rw [Nat.cast_sub (by omega)]
      push_cast
      have e : ((x : Int) + (Q : Int) * V - (P : Int) * Q) = x + (Q : Int) * ((V : Int) - P) := by ring
      rw [e, Int.add_mul_ediv_left _ _ (by omega : (Q : Int) ≠ 0)]
      have : (x : Int) / (Q : Int) = 0 := Int.ediv_eq_zero_of_lt (by omega) (by omega)
      rw [this]; ring
    · simp only [hn, decide_false, Bool.false_eq_true, if_false]
      have hm : ¬ (0 > 2 ^ 61 - 1) := by norm_num
      simp only [hm, decide_false, Bool.false_eq_true, if_false]
      push_cast
      simp only [mul_zero, add_zero, sub_zero]
      rw [Int.add_mul_ediv_left _ _ (by omega : (Q : Int) ≠ 0)]
      have : (x : Int) / (Q : Int) = 0 := Int.ediv_eq_zero_of_lt (by omega) (by omega)
      rw [this]; ring

/-! ### linear combinations (the bodies of `fg` and `de`) -/

theorem umul_modEq (a : List Nat) (t : Int) (h : WF62 a) (hne : a ≠ []) (ht1 : -(2 ^ 63) ≤ t) (ht2 : t ≤ 2 ^ 63) :
    (umul a t).length = a.length ∧ WF62 (umul a t) ∧
    ((uvalN (umul a t) : Nat) : Int) ≡ uval a * t [ZMOD ((Q ^ a.length : Nat) : Int)] := by
  obtain ⟨h1, h2, h3⟩ := umul_spec a t h ht1 ht2
  refine ⟨h1, h2, h3.trans ?_⟩
  exact Int.ModEq.mul_right _ (uval_range a h hne).2.2.symm

/-- `x.mul(a).add(&y.mul(b))` -/
theorem lincomb2 (x y : List Nat) (a b : Int) (hx : WF62 x) (hy : WF62 y) (hl : x.length = y.length)
    (hne : x ≠ []) (ha1 : -(2 ^ 63) ≤ a) (ha2 : a ≤ 2 ^ 63) (hb1 : -(2 ^ 63) ≤ b) (hb2 : b ≤ 2 ^ 63) :
    (uadd (umul x a) (umul y b)).length = x.length ∧ WF62 (uadd (umul x a) (umul y b)) ∧
    ((uvalN (uadd (umul x a) (umul y b)) : Nat) : Int) ≡ uval x * a + uval y * b
      [ZMOD ((Q ^ x.length : Nat) : Int)] := by
  have hney : y ≠ [] := by intro h0; rw [h0] at hl; exact hne (List.length_eq_zero_iff.mp hl)
  obtain ⟨p1, p2, p3⟩ := umul_modEq x a hx hne ha1 ha2
  obtain ⟨q1, q2, q3⟩ := umul_modEq y b hy hney hb1 hb2
  obtain ⟨r1, r2, r3⟩ := uadd_spec (umul x a) (umul y b) (by rw [p1, q1, hl])
  refine ⟨by rw [r1, p1], r2, ?_⟩
  rw [r3, p1, Int.natCast_mod]
  refine (Int.mod_modEq _ _).trans ?_
  push_cast
  rw [← hl] at q3
  exact Int.ModEq.add p3 q3

/-- `x.mul(a).add(&y.mul(b)).add(&z.mul(c))` -/
theorem lincomb3 (x y z : List Nat) (a b c : Int) (hx : WF62 x) (hy : WF62 y) (hz : WF62 z)
    (hl : x.length = y.length) (hl2 : x.length = z.length)
    (hne : x ≠ []) (ha1 : -(2 ^ 63) ≤ a) (ha2 : a ≤ 2 ^ 63) (hb1 : -(2 ^ 63) ≤ b) (hb2 : b ≤ 2 ^ 63)
    (hc1 : -(2 ^ 63) ≤ c) (hc2 : c ≤ 2 ^ 63) :
    (uadd (uadd (umul x a) (umul y b)) (umul z c)).length = x.length ∧
    WF62 (uadd (uadd (umul x a) (umul y b)) (umul z c)) ∧
    ((uvalN (uadd (uadd (umul x a) (umul y b)) (umul z c)) : Nat) : Int)
      ≡ uval x * a + uval y * b + uval z * c [ZMOD ((Q ^ x.length : Nat) : Int)] := by
  have hnez : z ≠ [] := by intro h0; rw [h0] at hl2; exact hne (List.length_eq_zero_iff.mp hl2)
  obtain ⟨p1, p2, p3⟩ := lincomb2 x y a b hx hy hl hne ha1 ha2 hb1 hb2
  obtain ⟨q1, q2, q3⟩ := umul_modEq z c hz hnez hc1 hc2
  obtain ⟨r1, r2, r3⟩ := uadd_spec (uadd (umul x a) (umul y b)) (umul z c) (by rw [p1, q1, hl2])
  refine ⟨by rw [r1, p1], r2, ?_⟩
  rw [r3, p1, Int.natCast_mod]
  refine (Int.mod_modEq _ _).trans ?_
  push_cast
  rw [← hl2] at q3
  exact Int.ModEq.add p3 q3

/-- read-back after the shift: if the (wrapped) combination `s` represents `X` within range, then
    `s.shr()` is exactly `⌊X / 2^62⌋` -/
theorem shr_readback (s : List Nat) (hs : WF62 s) (hlen : 2 ≤ s.length) (X : Int)
    (hX : (uvalN s : Int) ≡ X [ZMOD ((Q ^ s.length : Nat) : Int)])
    (h1 : -((Q ^ s.length : Nat) : Int) ≤ 2 * X) (h2 : 2 * X < ((Q ^ s.length : Nat) : Int)) :
    (ushr s).length = s.length ∧ WF62 (ushr s) ∧ uval (ushr s) = X / (Q : Int) := by
  have hne : s ≠ [] := by intro h0; rw [h0] at hlen; simp at hlen
  obtain ⟨a1, a2, a3⟩ := ushr_spec s hs hlen
  refine ⟨a1, a2, ?_⟩
  rw [a3, uval_of_modEq s hs hne X hX h1 h2]

/-- T10.4(d) `fg`: with both rows of `T` bounded by `2^62` in absolute sum and `T·(F, G)` inside the
    signed range of the limbs, the outputs are exactly `⌊(t00·F + t01·G)/2^62⌋`, `⌊(t10·F + t11·G)/2^62⌋`. -/
theorem fg_spec (f g : List Nat) (t : Mat) (hf : WF62 f) (hg : WF62 g) (hl : f.length = g.length)
    (hlen : 2 ≤ f.length)
    (hb0 : |t.t00| + |t.t01| ≤ 2 ^ 62) (hb1 : |t.t10| + |t.t11| ≤ 2 ^ 62)
    (hr0a : -((Q ^ f.length : Nat) : Int) ≤ 2 * (t.t00 * uval f + t.t01 * uval g))
    (hr0b : 2 * (t.t00 * uval f + t.t01 * uval g) < ((Q ^ f.length : Nat) : Int))
    (hr1a : -((Q ^ f.length : Nat) : Int) ≤ 2 * (t.t10 * uval f + t.t11 * uval g))
    (hr1b : 2 * (t.t10 * uval f + t.t11 * uval g) < ((Q ^ f.length : Nat) : Int)) :
    (fg f g t).1.length = f.length ∧ WF62 (fg f g t).1 ∧
    uval (fg f g t).1 = (t.t00 * uval f + t.t01 * uval g) / (Q : Int) ∧
    (fg f g t).2.length = f.length ∧ WF62 (fg f g t).2 ∧
    uval (fg f g t).2 = (t.t10 * uval f + t.t11 * uval g) / (Q : Int) := by
  have hne : f ≠ [] := by intro h0; rw [h0] at hlen; simp at hlen
  have e00 := abs_le.mp (le_trans (le_add_of_nonneg_right (abs_nonneg t.t01)) hb0)
  have e01 := abs_le.mp (le_trans (le_add_of_nonneg_left (abs_nonneg t.t00)) hb0)
  have e10 := abs_le.mp (le_trans (le_add_of_nonneg_right (abs_nonneg t.t11)) hb1)
  have e11 := abs_le.mp (le_trans (le_add_of_nonneg_left (abs_nonneg t.t10)) hb1)
  obtain ⟨p1, p2, p3⟩ := lincomb2 f g t.t00 t.t01 hf hg hl hne (by linarith [e00.1]) (by linarith [e00.2])
    (by linarith [e01.1]) (by linarith [e01.2])
  obtain ⟨q1, q2, q3⟩ := lincomb2 f g t.t10 t.t11 hf hg hl hne (by linarith [e10.1]) (by linarith [e10.2])
    (by linarith [e11.1]) (by linarith [e11.2])
  have c0 : uval f * t.t00 + uval g * t.t01 = t.t00 * uval f + t.t01 * uval g := by ring
  have c1 : uval f * t.t10 + uval g * t.t11 = t.t10 * uval f + t.t11 * uval g := by ring
  rw [c0] at p3; rw [c1] at q3
  obtain ⟨a1, a2, a3⟩ := shr_readback _ p2 (by rw [p1]; exact hlen) (t.t00 * uval f + t.t01 * uval g)
    (by rw [p1]; exact p3)
    (by rw [p1]; exact hr0a) (by rw [p1]; exact hr0b)
  obtain ⟨b1, b2, b3⟩ := shr_readback _ q2 (by rw [q1]; exact hlen) (t.t10 * uval f + t.t11 * uval g)
    (by rw [q1]; exact q3)
    (by rw [q1]; exact hr1a) (by rw [q1]; exact hr1b)
  exact ⟨by rw [← p1]; exact a1, a2, a3, by rw [← q1]; exact b1, b2, b3⟩

end CB.SafeGcd
