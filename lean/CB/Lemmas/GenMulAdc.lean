/-
  CB.Lemmas.GenMulAdc — the hand-written model of the boxed row accumulate (`macRowAdc`, `adcMulRows`, `adcMulLimbs` of
  CB/Model/Mul.lean, on which T03.7 is proved) IS the translated source `adc_mul_limbs` (src/uint/mul/karatsuba.rs;
  CB/Gen/MulRows.lean, namespace `CB.Gen.MulRows.Karatsuba`), for EVERY pair of limb counts and every accumulator content; and
  the model's `uintMulLimbs` / `uintSquareLimbs` are the translated const-generic wrappers `uint_mul_limbs` /
  `uint_square_limbs` at `LIMBS = lhs.len()`, `RHS_LIMBS = rhs.len()` (what their `debug_assert!` says).

  Two inductions over the fuel of the translated loops (invariant `counter + fuel = bound`):
    inner: after the remaining rounds and the `adc` of the row carry and the running carry into position `i + rhs.len()`,
           `out` = (first `i + j` limbs) ++ `macRowAdc xi (limbs from i + j on) (rhs from j on) carry2 carry`, same carry out;
    outer: `out` = (first `i` limbs) ++ `adcMulRows (lhs from i on) rhs (limbs from i on) carry`, same carry out.
  One round of each loop from CB/Lemmas/GenBitsMulAdc.lean, one word from `mac_bridge` / `adc_bridge`.  No `bv_decide` here.
-/
import CB.Lemmas.GenBitsMulAdc
import CB.Lemmas.GenMulSq
import CB.Lemmas.C03Boxed
namespace CB.GenMulAdc
open CB CB.Gen CB.GenBits CB.GenChains CB.Mul CB.GenMulRows CB.Karatsuba

theorem macRowAdc_length (xi : Nat) (w ys : List Nat) (c2 c : Nat) : (macRowAdc xi w ys c2 c).1.length = w.length := by
  induction w generalizing ys c2 with
  | nil => cases ys <;> simp [macRowAdc]
  | cons o os ih =>
    cases ys with
    | nil => simp [macRowAdc]
    | cons y ys => simp [macRowAdc_cons, ih]

theorem macRowAdc_nil_right (xi o : Nat) (os : List Nat) (c2 c : Nat) :
    macRowAdc xi (o :: os) [] c2 c = ((CB.adc o c2 c).1 :: os, (CB.adc o c2 c).2) := rfl

/-! ## the inner loop, with the epilogue `(out[i + j], carry) = out[i + j].adc(carry2, carry)` -/

theorem adc_inner_bridge (rhs : List (BitVec 64)) (i : Nat) (xi : BitVec 64) (c : BitVec 64) :
    ∀ (n j : Nat) (out : List (BitVec 64)) (c2 : BitVec 64), j + n = rhs.length → i + rhs.length < out.length →
      (MulRows.Karatsuba.adc_mul_limbs_loop2 rhs i xi n j out c2).1.length = out.length ∧
      nats ((MulRows.Karatsuba.adc_mul_limbs_loop2 rhs i xi n j out c2).1.set (i + rhs.length)
          (Prim.adc ((MulRows.Karatsuba.adc_mul_limbs_loop2 rhs i xi n j out c2).1.getD (i + rhs.length) 0#64)
            (MulRows.Karatsuba.adc_mul_limbs_loop2 rhs i xi n j out c2).2 c).1) =
        nats (out.take (i + j)) ++
          (macRowAdc xi.toNat (nats (out.drop (i + j))) (nats (rhs.drop j)) c2.toNat c.toNat).1 ∧
      (Prim.adc ((MulRows.Karatsuba.adc_mul_limbs_loop2 rhs i xi n j out c2).1.getD (i + rhs.length) 0#64)
            (MulRows.Karatsuba.adc_mul_limbs_loop2 rhs i xi n j out c2).2 c).2.toNat =
        (macRowAdc xi.toNat (nats (out.drop (i + j))) (nats (rhs.drop j)) c2.toNat c.toNat).2 := by
  intro n
  induction n with
  | zero =>
    intro j out c2 hj hb
    have hj' : j = rhs.length := by omega
    subst hj'
    rw [adc_inner_zero]
    dsimp only
    have hd : out.drop (i + rhs.length) = out.getD (i + rhs.length) 0#64 :: out.drop (i + rhs.length + 1) :=
      drop_eq_getD_cons _ _ hb
    rw [List.drop_of_length_le (Nat.le_refl _), List.set_eq_take_append_cons_drop, if_pos hb, hd]
    simp only [nats, List.map_append, List.map_cons, List.map_nil, macRowAdc_nil_right, adc_bridge, and_self]
  | succ n ih =>
    intro j out c2 hj hb
    have hj' : j < rhs.length := by omega
    have hlen : i + j < out.length := by omega
    obtain ⟨ih1, ih2, ih3⟩ := ih (j + 1) (out.set (i + j) (Prim.mac (out.getD (i + j) 0#64) xi (rhs.getD j 0#64) c2).1)
      (Prim.mac (out.getD (i + j) 0#64) xi (rhs.getD j 0#64) c2).2 (by omega) (by rw [List.length_set]; exact hb)
    rw [adc_inner_succ rhs i xi n j out c2 hj']
    refine ⟨by rw [ih1, List.length_set], ?_, ?_⟩
    · rw [ih2, drop_eq_getD_cons out (i + j) hlen, drop_eq_getD_cons rhs j hj',
        ← Nat.add_assoc, take_set_succ out (i + j) _ hlen, List.drop_set_of_lt (by omega)]
      simp only [nats, List.map_cons, List.map_append, List.map_nil, macRowAdc_cons, mac_bridge,
        List.append_assoc, List.cons_append, List.nil_append]
    · rw [ih3, drop_eq_getD_cons out (i + j) hlen, drop_eq_getD_cons rhs j hj',
        ← Nat.add_assoc, List.drop_set_of_lt (by omega)]
      simp only [nats, List.map_cons, macRowAdc_cons, mac_bridge]

/-! ## the outer loop -/

theorem adc_outer_bridge (lhs rhs : List (BitVec 64)) :
    ∀ (n i : Nat) (out : List (BitVec 64)) (c : BitVec 64), i + n = lhs.length → out.length = lhs.length + rhs.length →
      (MulRows.Karatsuba.adc_mul_limbs_loop1 lhs rhs n i out c).1.length = out.length ∧
      nats (MulRows.Karatsuba.adc_mul_limbs_loop1 lhs rhs n i out c).1 =
        nats (out.take i) ++ (adcMulRows (nats (lhs.drop i)) (nats rhs) (nats (out.drop i)) c.toNat).1 ∧
      (MulRows.Karatsuba.adc_mul_limbs_loop1 lhs rhs n i out c).2.toNat =
        (adcMulRows (nats (lhs.drop i)) (nats rhs) (nats (out.drop i)) c.toNat).2 := by
  intro n
  induction n with
  | zero =>
    intro i out c hi hl
    have : i = lhs.length := by omega
    subst this
    rw [adc_outer_zero, List.drop_of_length_le (Nat.le_refl _)]
    simp only [nats, List.map_nil, adcMulRows, ← List.map_append, List.take_append_drop, and_self]
  | succ n ih =>
    intro i out c hi hl
    have hi' : i < lhs.length := by omega
    obtain ⟨r1, r2, r3⟩ := adc_inner_bridge rhs i (lhs.getD i 0#64) c rhs.length 0 out 0#64 (by omega) (by omega)
    rw [adc_outer_succ lhs rhs n i out c hi']
    generalize MulRows.Karatsuba.adc_mul_limbs_loop2 rhs i (lhs.getD i 0#64) rhs.length 0 out 0#64 = R at r1 r2 r3 ⊢
    generalize Prim.adc (R.1.getD (i + rhs.length) 0#64) R.2 c = A at r2 r3 ⊢
    obtain ⟨j1, j2, j3⟩ := ih (i + 1) (R.1.set (i + rhs.length) A.1) A.2 (by omega) (by rw [List.length_set, r1]; exact hl)
    simp only [Nat.add_zero, List.drop_zero] at r2 r3
    have hM := macRowAdc_length (lhs.getD i 0#64).toNat (nats (out.drop i)) (nats rhs) (0#64 : BitVec 64).toNat c.toNat
    have hdl : (nats (out.drop i)).length = lhs.length + rhs.length - i := by simp [nats, hl]
    have e0 : (0#64 : BitVec 64).toNat = 0 := rfl
    rw [e0] at r2 r3 hM
    have hT : (List.map BitVec.toNat (out.take i)).length = i := by
      simp only [List.length_map, List.length_take, hl]; omega
    refine ⟨by rw [j1, List.length_set, r1], ?_, ?_⟩
    · rw [j2, drop_eq_getD_cons lhs i hi']
      simp only [nats, List.map_cons] at r2 r3 hM hdl ⊢
      rw [adcMulRows_cons, ← r3]
      generalize macRowAdc (lhs.getD i 0#64).toNat (List.map BitVec.toNat (out.drop i)) (List.map BitVec.toNat rhs) 0 c.toNat = M
        at r2 r3 hM ⊢
      rcases M with ⟨M1, M2⟩
      cases M1 with
      | nil => simp only [List.length_nil] at hM; omega
      | cons o os =>
        simp only [List.map_take, List.map_drop, r2] at hT ⊢
        generalize List.take i (List.map BitVec.toNat out) = T at hT ⊢
        subst hT
        rw [List.take_length_add_append, List.drop_length_add_append]
        simp only [List.take_succ_cons, List.take_zero, List.drop_succ_cons, List.drop_zero, List.append_assoc,
          List.cons_append, List.nil_append]
    · rw [j3, drop_eq_getD_cons lhs i hi']
      simp only [nats, List.map_cons] at r2 r3 hM hdl ⊢
      rw [adcMulRows_cons, ← r3]
      generalize macRowAdc (lhs.getD i 0#64).toNat (List.map BitVec.toNat (out.drop i)) (List.map BitVec.toNat rhs) 0 c.toNat = M
        at r2 r3 hM ⊢
      rcases M with ⟨M1, M2⟩
      cases M1 with
      | nil => simp only [List.length_nil] at hM; omega
      | cons o os =>
        simp only [List.map_take, List.map_drop, r2] at hT ⊢
        generalize List.take i (List.map BitVec.toNat out) = T at hT ⊢
        subst hT
        rw [List.drop_length_add_append]
        simp only [List.drop_succ_cons, List.drop_zero]

/-! ## the function -/

/-- **`adc_mul_limbs`** on ANY accumulator of the length the source insists on (it panics unless
    `lhs.len() + rhs.len() == out.len()`): the model's `adcMulLimbs` is the translated source — the new accumulator and
    the returned carry —, for every pair of limb counts -/
theorem adcMulLimbs_bridge (a b out : List (BitVec 64)) (hl : out.length = a.length + b.length) :
    adcMulLimbs (nats a) (nats b) (nats out) =
        (nats (MulRows.Karatsuba.adc_mul_limbs a b out).1, (MulRows.Karatsuba.adc_mul_limbs a b out).2.toNat) ∧
      (MulRows.Karatsuba.adc_mul_limbs a b out).1.length = out.length := by
  obtain ⟨h1, h2, h3⟩ := adc_outer_bridge a b a.length 0 out 0#64 (by omega) hl
  rw [adc_mul_limbs_eq_loop]
  refine ⟨?_, h1⟩
  rw [h2, h3]
  simp only [List.take_zero, List.drop_zero, nats, List.map_nil, List.nil_append, adcMulLimbs]
  rfl

/-! ## the const-generic wrappers -/

/-- `uint_mul_limbs::<LIMBS, RHS_LIMBS>(lhs, rhs)` with `LIMBS = lhs.len()`, `RHS_LIMBS = rhs.len()` (its `debug_assert!`) -/
theorem uintMulLimbs_wrap_bridge (a b : List (BitVec 64)) :
    uintMulLimbs (nats a) (nats b) =
      (nats (MulRows.Wrap.uint_mul_limbs a.length b.length a b).1, nats (MulRows.Wrap.uint_mul_limbs a.length b.length a b).2) := by
  rw [uint_mul_limbs_eq, uintMulLimbs_bridge]

/-- `uint_square_limbs::<LIMBS>(limbs)` with `LIMBS = limbs.len()` (else `schoolbook_squaring` panics) -/
theorem uintSquareLimbs_wrap_bridge (a : List (BitVec 64)) :
    uintSquareLimbs (nats a) =
      (nats (MulRows.Wrap.uint_square_limbs a.length a).1, nats (MulRows.Wrap.uint_square_limbs a.length a).2) := by
  rw [uint_square_limbs_eq, GenMulSq.uintSquareLimbs_bridge]

end CB.GenMulAdc
