/-
  CB.Lemmas.C04Wrap — (coverage round) `Checked<T>` / `Wrapping<T>` trait forms and the `Limb` assigning forms of
  CB.Model.WrapForms.
-/
import CB.Lemmas.C04Forms
import CB.Lemmas.C06Num
import CB.Model.WrapForms
namespace CB.WrapForms
open CB CB.Cmp CB.AddSub CB.NumTests

theorem maskOfBit_bool (p : Bool) : maskOfBit (if p then 1 else 0) = mask p := by
  cases p <;> decide

theorem selectU8_spec {a b : Nat} (ha : a ≤ 1) (hb : b ≤ 1) (p : Bool) :
    selectU8 a b (if p then 1 else 0) = if p then b else a := by
  have ha' : a = 0 ∨ a = 1 := by omega
  have hb' : b = 0 ∨ b = 1 := by omega
  rcases ha' with rfl | rfl <;> rcases hb' with rfl | rfl <;> cases p <;> decide

/-- `CtOption::conditional_select` (hence `Checked::conditional_select`) returns exactly the chosen operand:
    value AND mask, never a mixture. -/
theorem ctoptSelect_spec {a b : CtOpt} (p : Bool) (ha : WF a.1) (hb : WF b.1) (h : a.1.length = b.1.length)
    (hsa : a.2 ≤ 1) (hsb : b.2 ≤ 1) :
    ctoptSelect a b (if p then 1 else 0) = if p then b else a := by
  unfold ctoptSelect
  rw [maskOfBit_bool, uselect_spec p ha hb h, selectU8_spec hsa hsb]
  cases p <;> rfl

theorem and_bit_left {c : Nat} (hc : c ≤ 1) : 1 &&& 1 &&& c = c := by
  have : c = 0 ∨ c = 1 := by omega
  rcases this with rfl | rfl <;> decide

/-- `CtOption::ct_eq` (hence `Checked::ct_eq`): equal exactly when both are none, or both are some with equal
    values — i.e. when an observer sees the same thing. -/
theorem ctoptEq_spec {a b : CtOpt} (ha : WF a.1) (hb : WF b.1) (h : a.1.length = b.1.length)
    (hsa : a.2 ≤ 1) (hsb : b.2 ≤ 1) :
    ctoptEq a b = if view a = view b then 1 else 0 := by
  obtain ⟨av, as⟩ := a
  obtain ⟨bv, bs⟩ := b
  simp only at ha hb h hsa hsb
  unfold ctoptEq view
  simp only
  rw [ueq_spec ha hb h, choiceBit_mask]
  have hsa' : as = 0 ∨ as = 1 := by omega
  have hsb' : bs = 0 ∨ bs = 1 := by omega
  rcases hsa' with rfl | rfl <;> rcases hsb' with rfl | rfl
  · simp [choiceNot8]
  · simp [choiceNot8]
  · simp [choiceNot8]
  · by_cases hv : val av = val bv
    · simp [hv, choiceNot8]
    · simp [hv, choiceNot8]

/-- `Checked<Limb> += rhs`: some exactly when both sides are some and the true sum is a word; the value is the sum. -/
theorem limbCheckedAddAssign_spec {a b sa sb : Nat} (ha : a < B) (hb : b < B) (hsa : sa ≤ 1) (hsb : sb ≤ 1) :
    (limbCheckedAddAssign (a, sa) (b, sb)).2 = (if sa = 1 ∧ sb = 1 ∧ a + b < B then 1 else 0) ∧
    (limbCheckedAddAssign (a, sa) (b, sb)).1 = (a + b) % B := by
  unfold limbCheckedAddAssign adc
  refine ⟨?_, by simp only [Nat.add_zero]⟩
  simp only [Nat.add_zero]
  have hc : (a + b) / B < B := by simp only [B_def] at *; omega
  rw [fromWordEq_spec hc (by decide), choiceBit_mask]
  have hdiv : ((a + b) / B = 0) ↔ a + b < B := Nat.div_eq_zero_iff_lt B_pos
  have hsa' : sa = 0 ∨ sa = 1 := by omega
  have hsb' : sb = 0 ∨ sb = 1 := by omega
  by_cases hlt : a + b < B
  · have : (a + b) / B = 0 := hdiv.mpr hlt
    rcases hsa' with rfl | rfl <;> rcases hsb' with rfl | rfl <;> simp [this, hlt]
  · have : ¬ (a + b) / B = 0 := fun e => hlt (hdiv.mp e)
    rcases hsa' with rfl | rfl <;> rcases hsb' with rfl | rfl <;> simp [this, hlt]

/-- `Checked<Limb> -= rhs`: some exactly when both sides are some and `b ≤ a`; the value is the wrapped difference. -/
theorem limbCheckedSubAssign_spec {a b sa sb : Nat} (ha : a < B) (hb : b < B) (hsa : sa ≤ 1) (hsb : sb ≤ 1) :
    (limbCheckedSubAssign (a, sa) (b, sb)).2 = (if sa = 1 ∧ sb = 1 ∧ b ≤ a then 1 else 0) ∧
    (b ≤ a → (limbCheckedSubAssign (a, sa) (b, sb)).1 = a - b) := by
  have ⟨h1, h2, h3⟩ := sbb_spec ha hb (show (0 : Nat) < B by decide)
  unfold limbCheckedSubAssign
  simp only
  have hz : (0 : Nat) / HALF = 0 := by decide
  rw [hz, Nat.add_zero] at h3
  have hbw : (sbb a b 0).2 < B := by rcases h2 with e | e <;> rw [e] <;> decide
  rw [fromWordEq_spec hbw (by decide), choiceBit_mask]
  have hsa' : sa = 0 ∨ sa = 1 := by omega
  have hsb' : sb = 0 ∨ sb = 1 := by omega
  rcases h2 with e | e
  · rw [e] at h3
    have hle : b ≤ a := by simp only [show (0 : Nat) / HALF = 0 by decide] at h3; omega
    refine ⟨?_, fun _ => by simp only [show (0 : Nat) / HALF = 0 by decide] at h3; omega⟩
    rcases hsa' with rfl | rfl <;> rcases hsb' with rfl | rfl <;> simp [e, hle]
  · rw [e] at h3
    have hw : WMAX / HALF = 1 := by decide
    rw [hw] at h3
    have hnle : ¬ b ≤ a := by simp only [B_def] at *; omega
    refine ⟨?_, fun h => absurd h hnle⟩
    have hne : ¬ WMAX = 0 := by decide
    rcases hsa' with rfl | rfl <;> rcases hsb' with rfl | rfl <;> simp [e, hnle, hne]

end CB.WrapForms
