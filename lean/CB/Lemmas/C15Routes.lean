/-
  CB.Lemmas.C15Routes — helper lemmas for the route-equality theorems of C15:
  boxed loops that zero-pad / truncate to a common length are the fixed loops when the operands already
  have that length.
-/
import CB.Lemmas.C04Forms
import CB.Lemmas.C05Boxed
import CB.Lemmas.C05Query
import CB.Lemmas.C05Wide
import CB.Model.Bits
namespace CB.Routes
open CB CB.Cmp CB.AddSub CB.Shift CB.Bits

theorem pad_self {n : Nat} {l : List Nat} (h : n ≤ l.length) : pad n l = l := by
  unfold pad
  have : n - l.length = 0 := by omega
  rw [this]; simp

/-- `BoxedUint::adc` on operands of one precision is the `Uint::adc` loop, limb for limb, carry included -/
theorem badc_eq_uadc {a b : List Nat} (c : Nat) (h : a.length = b.length) : badc a b c = uadc a b c := by
  unfold badc
  simp only []
  rw [pad_self (by omega), pad_self (by omega)]

theorem bsbb_eq_usbb {a b : List Nat} (bw : Nat) (h : a.length = b.length) : bsbb a b bw = usbb a b bw := by
  unfold bsbb
  simp only []
  rw [pad_self (by omega), pad_self (by omega)]

theorem rhsFor_self {self rhs : List Nat} (h : self.length = rhs.length) : rhsFor self rhs = rhs := by
  unfold rhsFor
  rw [pad_self (by omega), h]
  exact List.take_length

theorem mapLimbs_and {a b : List Nat} (h : a.length = b.length) : mapLimbs (· &&& ·) a b = ubitand a b := by
  induction a generalizing b with
  | nil => cases b with
    | nil => simp [mapLimbs, ubitand, ubitor, ubitxor]
    | cons y ys => simp at h
  | cons x xs ih => cases b with
    | nil => simp at h
    | cons y ys =>
      simp only [List.length_cons, Nat.add_right_cancel_iff] at h
      simp only [mapLimbs, ubitand, ih h]

theorem mapLimbs_or {a b : List Nat} (h : a.length = b.length) : mapLimbs (· ||| ·) a b = ubitor a b := by
  induction a generalizing b with
  | nil => cases b with
    | nil => simp [mapLimbs, ubitand, ubitor, ubitxor]
    | cons y ys => simp at h
  | cons x xs ih => cases b with
    | nil => simp at h
    | cons y ys =>
      simp only [List.length_cons, Nat.add_right_cancel_iff] at h
      simp only [mapLimbs, ubitor, ih h]

theorem mapLimbs_xor {a b : List Nat} (h : a.length = b.length) : mapLimbs (· ^^^ ·) a b = ubitxor a b := by
  induction a generalizing b with
  | nil => cases b with
    | nil => simp [mapLimbs, ubitand, ubitor, ubitxor]
    | cons y ys => simp at h
  | cons x xs ih => cases b with
    | nil => simp at h
    | cons y ys =>
      simp only [List.length_cons, Nat.add_right_cancel_iff] at h
      simp only [mapLimbs, ubitxor, ih h]

theorem mapLimbs_length (f : Nat → Nat → Nat) (a b : List Nat) :
    (mapLimbs f a b).length = max a.length b.length := by
  induction a generalizing b with
  | nil =>
    induction b with
    | nil => simp [mapLimbs]
    | cons y ys ih => simp only [mapLimbs, List.length_cons, ih]; simp
  | cons x xs ih => cases b with
    | nil => simp only [mapLimbs, List.length_cons, ih]; simp
    | cons y ys => simp only [mapLimbs, List.length_cons, ih]; omega

/-- `expect` of the vartime shift: panic exactly for `s ≥ BITS` -/
theorem expect_shlV {a : List Nat} (ha : WF a) (s : Nat) :
    expect (overflowingShlVartime a s) =
      if s < 64 * a.length then some (overflowingShlVartime a s).1 else none := by
  by_cases h : s < 64 * a.length
  · rw [if_pos h]; exact expect_mk (overflowingShlVartime_spec ha h).1
  · rw [if_neg h, overflowingShlVartime_overflow a (Nat.not_lt.mp h)]; exact expect_none rfl

theorem expect_shrV {a : List Nat} (ha : WF a) (s : Nat) :
    expect (overflowingShrVartime a s) =
      if s < 64 * a.length then some (overflowingShrVartime a s).1 else none := by
  by_cases h : s < 64 * a.length
  · rw [if_pos h]; exact expect_mk (overflowingShrVartime_spec ha h).1
  · rw [if_neg h, overflowingShrVartime_overflow a (Nat.not_lt.mp h)]; exact expect_none rfl

end CB.Routes
