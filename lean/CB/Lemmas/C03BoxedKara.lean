/-
  CB.Lemmas.C03BoxedKara — in-place range additions, the six addition loops (`kCombine`), the trailing
  passes and the induction for `karatsuba_mul_limbs` / `karatsuba_square_limbs` (helper lemmas of C03).
-/
import CB.Lemmas.C03Boxed
namespace CB.Karatsuba
open CB CB.Mul

theorem getRange_length (out : List Nat) (s len : Nat) (h : s + len ≤ out.length) :
    (getRange out s len).length = len := by
  unfold getRange; rw [List.length_take, List.length_drop]; omega

theorem getRange_WF {out : List Nat} (h : WF out) (s len : Nat) : WF (getRange out s len) :=
  WF_take (WF_drop h s) len

/-- a buffer as prefix, range, suffix -/
theorem val_three (out : List Nat) (s len : Nat) (h : s + len ≤ out.length) :
    val out = val (out.take s) + B ^ s * val (getRange out s len)
      + B ^ (s + len) * val (out.drop (s + len)) := by
  have e1 : out = out.take s ++ (getRange out s len ++ out.drop (s + len)) := by
    unfold getRange
    rw [← List.drop_drop, List.take_append_drop, List.take_append_drop]
  have l1 : (out.take s).length = s := by rw [List.length_take]; omega
  conv => lhs; rw [e1]
  rw [val_append, val_append, l1, getRange_length out s len h, Nat.pow_add]
  ring

theorem setRange_spec (out : List Nat) (s : Nat) (new : List Nat) (h : s + new.length ≤ out.length) :
    val (setRange out s new) = val (out.take s) + B ^ s * val new
      + B ^ (s + new.length) * val (out.drop (s + new.length)) ∧
    (setRange out s new).length = out.length := by
  have l1 : (out.take s).length = s := by rw [List.length_take]; omega
  unfold setRange
  refine ⟨?_, ?_⟩
  · rw [List.append_assoc, val_append, val_append, l1, Nat.pow_add]; ring
  · simp only [List.length_append, l1, List.length_drop]; omega

theorem setRange_WF {out new : List Nat} (ho : WF out) (hn : WF new) (s : Nat) : WF (setRange out s new) :=
  WF_append.mpr ⟨WF_append.mpr ⟨WF_take ho s, hn⟩, WF_drop ho _⟩

theorem setRange_drop (out : List Nat) (s : Nat) (new : List Nat) (k : Nat)
    (h : s + new.length ≤ out.length) (hk : s + new.length ≤ k) :
    (setRange out s new).drop k = out.drop k := by
  have l1 : (out.take s ++ new).length = s + new.length := by
    rw [List.length_append, List.length_take]; omega
  unfold setRange
  rw [List.drop_append, l1, List.drop_eq_nil_of_le (by omega), List.nil_append, List.drop_drop]
  congr 1; omega

/-- one addition loop `out[s + i] += z[i]` with carry -/
theorem addAt_spec {out z : List Nat} (s c : Nat) (ho : WF out) (hz : WF z)
    (h : s + z.length ≤ out.length) :
    val (addAt out s z c).1 + B ^ (s + z.length) * (addAt out s z c).2 = val out + B ^ s * (val z + c) ∧
    WF (addAt out s z c).1 ∧ (addAt out s z c).1.length = out.length ∧ (addAt out s z c).2 ≤ c + 1 ∧
    (∀ k, s + z.length ≤ k → (addAt out s z c).1.drop k = out.drop k) := by
  have gl := getRange_length out s z.length h
  have gw := getRange_WF ho s z.length
  have ⟨e, w, l, cb⟩ := uadc_facts c gw hz gl rfl
  unfold addAt
  simp only
  generalize uadc (getRange out s z.length) z c = A at *
  have ⟨v1, v2⟩ := setRange_spec out s A.1 (by rw [l]; exact h)
  refine ⟨?_, setRange_WF ho w s, v2, cb, fun k hk => setRange_drop out s A.1 k (by rw [l]; exact h) (by rw [l]; exact hk)⟩
  rw [v1, l, val_three out s z.length h, Nat.pow_add]
  generalize B ^ s = S at *
  generalize B ^ z.length = Z at *
  linear_combination S * e

/-- The six addition loops: `out + c0 + z0•(1 + b) + z2•(b + b²)` exactly, as a `|out|`-limb number plus
    the final carry at `b⁴`; no `carry.wrapping_add(carry2)` wraps (carries ≤ 7); limbs from `2·size`
    on are untouched. -/
theorem kCombine_spec {out z0 z2 : List Nat} {half size c0 : Nat} (ho : WF out) (hz0 : WF z0) (hz2 : WF z2)
    (hs : size = 2 * half) (l0 : z0.length = size) (l2 : z2.length = size) (hl : 2 * size ≤ out.length)
    (hc : c0 ≤ 1) :
    val (kCombine out z0 z2 half size c0).1 + B ^ (2 * size) * (kCombine out z0 z2 half size c0).2
      = val out + c0 + (1 + B ^ half) * val z0 + (B ^ half + B ^ size) * val z2 ∧
    WF (kCombine out z0 z2 half size c0).1 ∧ (kCombine out z0 z2 half size c0).1.length = out.length ∧
    (kCombine out z0 z2 half size c0).1.drop (2 * size) = out.drop (2 * size) := by
  subst hs
  have ⟨w0l, w0h, l0l, l0h, e0⟩ := split_halves hz0 l0
  have ⟨w2l, w2h, l2l, l2h, e2⟩ := split_halves hz2 l2
  unfold kCombine
  simp only
  have ⟨ea, wa, la, ca, da⟩ := addAt_spec 0 c0 ho hz0 (by omega)
  generalize addAt out 0 z0 c0 = A at *
  have ⟨eb, wb, lb, cb, db⟩ := addAt_spec half 0 wa w0l (by omega)
  generalize addAt A.1 half (z0.take half) 0 = Bb at *
  have n1 : wadd A.2 Bb.2 = A.2 + Bb.2 := wadd_small (by simp only [B_def]; omega)
  rw [n1]
  have ⟨ec, wc, lc, cc, dc⟩ := addAt_spec (half + half) (A.2 + Bb.2) wb w0h (by omega)
  generalize addAt Bb.1 (half + half) (z0.drop half) (A.2 + Bb.2) = C at *
  have ⟨ed, wd, ld, cd, dd⟩ := addAt_spec half 0 wc hz2 (by omega)
  generalize addAt C.1 half z2 0 = D at *
  have n2 : wadd C.2 D.2 = C.2 + D.2 := wadd_small (by simp only [B_def]; omega)
  rw [n2]
  have ⟨ee, we, le, ce, de⟩ := addAt_spec (2 * half) 0 wd w2l (by omega)
  generalize addAt D.1 (2 * half) (z2.take half) 0 = E at *
  have n3 : wadd (C.2 + D.2) E.2 = C.2 + D.2 + E.2 := wadd_small (by simp only [B_def]; omega)
  rw [n3]
  have ⟨ef, wf, lf, cf, df⟩ := addAt_spec (half + 2 * half) (C.2 + D.2 + E.2) we w2h (by omega)
  generalize addAt E.1 (half + 2 * half) (z2.drop half) (C.2 + D.2 + E.2) = F at *
  refine ⟨?_, wf, by omega, ?_⟩
  · rw [l0l] at eb; rw [l0h] at ec; rw [l2l] at ee; rw [l2h] at ef
    rw [l0] at ea; rw [l2] at ed
    have p1 : B ^ (2 * half) = B ^ half * B ^ half := by rw [← Nat.pow_add]; congr 1; omega
    have p2 : B ^ (half + half) = B ^ half * B ^ half := by rw [← Nat.pow_add]
    have p3 : B ^ (half + 2 * half) = B ^ half * B ^ half * B ^ half := by
      rw [← Nat.pow_add, ← Nat.pow_add]; congr 1; omega
    have p4 : B ^ (2 * (2 * half)) = B ^ half * B ^ half * B ^ half * B ^ half := by
      rw [← Nat.pow_add, ← Nat.pow_add, ← Nat.pow_add]; congr 1; omega
    have p5 : B ^ (half + half + half) = B ^ half * B ^ half * B ^ half := by
      rw [← Nat.pow_add, ← Nat.pow_add]
    have p6 : B ^ (half + 2 * half + half) = B ^ half * B ^ half * B ^ half * B ^ half := by
      rw [← Nat.pow_add, ← Nat.pow_add, ← Nat.pow_add]; congr 1; omega
    have p7 : B ^ (2 * half + half) = B ^ half * B ^ half * B ^ half := by
      rw [← Nat.pow_add, ← Nat.pow_add]; congr 1; omega
    have p0 : B ^ (0 + 2 * half) = B ^ half * B ^ half := by rw [Nat.zero_add, p1]
    simp only [p0, p1, p2, p3, p4, p5, p6, p7, Nat.pow_zero, Nat.one_mul] at *
    generalize B ^ half = K at *
    linear_combination ea + eb + ec + ed + ee + ef + K * e0.symm + K * K * e2.symm
  · rw [df _ (by omega), de _ (by omega), dd _ (by omega), dc _ (by omega), db _ (by omega),
      da _ (by omega)]

/-! ### `conditional_wrapping_neg_assign` -/

theorem wnot_lt {x : Nat} : wnot x < B := by simp only [wnot, WMAX_def, B_def]; omega

theorem condNegLoop_true (l : List Nat) (c : Nat) (hl : WF l) :
    condNegLoop l (mask true) c = (negLoop l c).1 := by
  induction l generalizing c with
  | nil => rfl
  | cons x xs ih =>
    have ⟨hx, hxs⟩ := WF_cons.mp hl
    have hs : selectWord x (wnot x) (mask true) = wnot x := by
      rw [selectWord_spec true hx wnot_lt]; rfl
    simp only [condNegLoop, negLoop, hs, ih _ hxs]

theorem condNegLoop_false (l : List Nat) (hl : WF l) : condNegLoop l (mask false) 0 = l := by
  induction l with
  | nil => rfl
  | cons x xs ih =>
    have ⟨hx, hxs⟩ := WF_cons.mp hl
    have hs : selectWord x (wnot x) (mask false) = x := by
      rw [selectWord_spec false hx wnot_lt]; rfl
    simp only [condNegLoop, hs, Nat.add_zero, Nat.mod_eq_of_lt hx, Nat.div_eq_of_lt hx, ih hxs]

/-- `conditional_wrapping_neg_assign(l, choice)` = `select(l, l.wrapping_neg(), choice)` -/
theorem condNeg_eq (l : List Nat) (p : Bool) (hl : WF l) :
    condNeg l (mask p) = if p then wrappingNeg l else l := by
  unfold condNeg
  rw [selectWord_01]
  cases p
  · simp only [Bool.false_eq_true, if_false]; exact condNegLoop_false l hl
  · simp only [if_true]; rw [condNegLoop_true l 1 hl]; rfl

/-- the boxed `|a - b|` (sbb loop + conditional negation) is the fixed one -/
theorem condNeg_absd {a b : List Nat} (ha : WF a) (hb : WF b) (hl : a.length = b.length) :
    condNeg (usbb a b 0).1 (fromWordMask (usbb a b 0).2) = absd a b := by
  have ⟨s1, _⟩ := sub_value_borrow ha hb hl
  have hW := usbb_WF a b 0
  have ⟨w1, w2, _⟩ := wrappingNeg_spec hW
  unfold absd fromWordMask
  rw [s1, condNeg_eq _ _ hW, uselect_spec _ hW w1 w2.symm]

theorem wrappingNeg_zero {a : List Nat} (ha : WF a) (h0 : val a = 0) : val (wrappingNeg a) = 0 := by
  have ⟨n1, n2, n3, n4⟩ := negLoop_spec ha (Nat.le_refl 1)
  have hlt := val_lt n3
  rw [n4] at hlt
  show val (negLoop a 1).1 = 0
  rw [h0] at n1
  have hK : 0 < B ^ a.length := Nat.pow_pos B_pos
  generalize B ^ a.length = K at *
  generalize (negLoop a 1).2 = c at *
  have hc : c = 0 ∨ c = 1 := by omega
  rcases hc with h | h <;> subst h <;> omega

/-- congruence argument: a value below `Q` that agrees with `P < Q` modulo `Q` is `P` -/
theorem mod_finish {T P Q c e : Nat} (hT : T < Q) (hP : P < Q) (h : T + Q * c = e * Q + P) : T = P := by
  have h1 : (T + Q * c) % Q = T := by rw [Nat.add_mul_mod_self_left, Nat.mod_eq_of_lt hT]
  have h2 : (e * Q + P) % Q = P := by
    rw [Nat.add_comm, Nat.mul_comm, Nat.add_mul_mod_self_left, Nat.mod_eq_of_lt hP]
  rw [← h1, h, h2]

/-! ### `karatsuba_square_limbs`, all lengths, every fuel -/

theorem uzero_take (n k : Nat) : (uzero n).take k = uzero (min k n) := by simp [uzero, List.take_replicate]
theorem uzero_drop (n k : Nat) : (uzero n).drop k = uzero (n - k) := by simp [uzero, List.drop_replicate]

/-- a value written into a zero buffer -/
theorem setRange_zero (total s : Nat) (z : List Nat) (hz : WF z) (h : s + z.length ≤ total) :
    val (setRange (uzero total) s z) = B ^ s * val z ∧ WF (setRange (uzero total) s z) ∧
    (setRange (uzero total) s z).length = total := by
  have ⟨v, l⟩ := setRange_spec (uzero total) s z (by rw [uzero_length]; exact h)
  refine ⟨?_, setRange_WF (uzero_WF _) hz s, by rw [l, uzero_length]⟩
  rw [v, uzero_take, uzero_drop, val_uzero, val_uzero]; simp

theorem karaSquareLimbs_spec : ∀ (fuel : Nat) (x : List Nat), WF x →
    val (karaSquareLimbs fuel x) = val x * val x ∧ WF (karaSquareLimbs fuel x) ∧
    (karaSquareLimbs fuel x).length = 2 * x.length
  | 0, x, hx => schoolbookSquare_spec x hx
  | fuel + 1, x, hx => by
    unfold karaSquareLimbs
    simp only
    split
    · exact schoolbookSquare_spec x hx
    · rename_i hcond
      have heven : x.length % 2 = 0 := by omega
      have hsz : x.length = 2 * (x.length / 2) := by omega
      generalize hh : x.length / 2 = half at *
      have ⟨wx0, wx1, lx0, lx1, ex⟩ := split_halves hx hsz
      rw [condNeg_absd wx0 wx1 (by rw [lx0, lx1])]
      have ⟨_, wd, ld, d1, d2⟩ := absd_spec wx0 wx1 (by rw [lx0, lx1])
      rw [lx0] at ld
      have ⟨z1v, z1w, z1l⟩ := karaSquareLimbs_spec fuel _ wd
      have ⟨z0v, z0w, z0l⟩ := karaSquareLimbs_spec fuel _ wx0
      have ⟨z2v, z2w, z2l⟩ := karaSquareLimbs_spec fuel _ wx1
      rw [ld] at z1l; rw [lx0] at z0l; rw [lx1] at z2l
      have ⟨sv, sw, sl⟩ := setRange_zero (2 * x.length) half _ z1w (by rw [z1l]; omega)
      have ⟨nw, nl, ne⟩ := unot_spec sw
      rw [sl] at nl ne
      have ⟨k1, k2, k3, _⟩ := kCombine_spec (half := half) (size := x.length) (c0 := 1) nw z0w z2w hsz
        (by rw [z0l, ← hsz]) (by rw [z2l, ← hsz]) (by rw [nl]) (Nat.le_refl 1)
      rw [nl] at k3
      refine ⟨?_, k2, k3⟩
      have hcase : val (absd (x.take half) (x.drop half)) + val (x.drop half) = val (x.take half) ∨
          val (absd (x.take half) (x.drop half)) + val (x.take half) = val (x.drop half) := by
        by_cases c : val (x.take half) < val (x.drop half)
        · exact Or.inr (d1 c)
        · exact Or.inl (d2 c)
      have idq := sq_identity_halves (B ^ half) _ _ _ hcase
      have hlt := val_lt_pow k2 k3
      have hxx : val x * val x < B ^ (2 * x.length) := by
        have h := val_lt hx
        have := Nat.mul_lt_mul'' h h
        rwa [← Nat.pow_add, ← Nat.two_mul] at this
      apply mod_finish (c := (kCombine _ _ _ half x.length 1).2) (e := 1) hlt hxx
      rw [k1, z0v, z2v, ex]
      rw [sv, z1v] at ne
      have p2 : B ^ x.length = B ^ half * B ^ half := by rw [← Nat.pow_add]; congr 1; omega
      have p4 : B ^ (2 * x.length) = B ^ half * B ^ half * B ^ half * B ^ half := by
        rw [← Nat.pow_add, ← Nat.pow_add, ← Nat.pow_add]; congr 1; omega
      rw [p4] at ne ⊢
      rw [p2]
      generalize B ^ half = K at *
      generalize val (unot _) = N at *
      linear_combination ne + idq

/-! ### trailing-limb passes of `karatsuba_mul_limbs` -/

theorem propCarry_spec (l : List Nat) (c : Nat) :
    ∃ co, val (propCarry l c) + B ^ l.length * co = val l + c ∧ WF (propCarry l c) ∧
      (propCarry l c).length = l.length := by
  induction l generalizing c with
  | nil => exact ⟨c, by simp [propCarry], WF_nil, rfl⟩
  | cons o os ih =>
    obtain ⟨co, i1, i2, i3⟩ := ih (adc o 0 c).2
    have ⟨a1, a2⟩ := adc_spec o 0 c
    refine ⟨co, ?_, WF_cons.mpr ⟨a2, i2⟩, by simp [propCarry, i3]⟩
    simp only [propCarry, val_cons, List.length_cons, Nat.pow_succ]
    linear_combination B * i1 + a1

/-- updating a range in place: `out'` differs from `out` by `B^s·(new − old range)` -/
theorem setRange_update (out : List Nat) (s : Nat) (new : List Nat) (h : s + new.length ≤ out.length) :
    val (setRange out s new) + B ^ s * val (getRange out s new.length) = val out + B ^ s * val new := by
  rw [(setRange_spec out s new h).1, val_three out s new.length h]; ring

/-- the `xt` pass: `adc_mul_limbs(xt, rhs, &mut out[size..])`, its carry (dropped by the code) is 0
    whenever the sum fits the buffer -/
theorem xtPass_spec {out xt rhs : List Nat} {size : Nat} (ho : WF out) (hx : WF xt) (hr : WF rhs)
    (hs : size ≤ out.length) (hl : out.length - size = xt.length + rhs.length)
    (hfit : val out + B ^ size * (val xt * val rhs) < B ^ out.length) :
    val (setRange out size (adcMulLimbs xt rhs (out.drop size)).1) = val out + B ^ size * (val xt * val rhs) ∧
    WF (setRange out size (adcMulLimbs xt rhs (out.drop size)).1) ∧
    (setRange out size (adcMulLimbs xt rhs (out.drop size)).1).length = out.length := by
  have hdl : (out.drop size).length = xt.length + rhs.length := by rw [List.length_drop]; exact hl
  have ⟨a1, a2, a3, _⟩ := adcMulLimbs_spec xt rhs (out.drop size) hx hr (WF_drop ho size) hdl
  generalize adcMulLimbs xt rhs (out.drop size) = R at *
  have hnl : size + R.1.length = out.length := by rw [a3, hdl]; omega
  have ⟨v, l⟩ := setRange_spec out size R.1 (by omega)
  have hW := setRange_WF ho a2 size
  refine ⟨?_, hW, l⟩
  have e := val_take_drop out size
  rw [Nat.min_eq_left hs] at e
  rw [hnl, List.drop_length, val_nil, Nat.mul_zero, Nat.add_zero] at v
  have hlt := val_lt_pow hW l
  have hpow : B ^ out.length = B ^ size * B ^ (out.drop size).length := by
    rw [← Nat.pow_add, List.length_drop]; congr 1; omega
  have key : val (setRange out size R.1) + B ^ out.length * R.2 = val out + B ^ size * (val xt * val rhs) := by
    rw [v, e, hpow]
    generalize B ^ size = S at *
    generalize B ^ (out.drop size).length = Q at *
    linear_combination S * a1
  exact (fits_no_carry hlt hfit key).1

/-- the `yt` pass: `carry = adc_mul_limbs(yt, x, &mut out[size..end_pos])`, then the carry is propagated
    through `out[end_pos..]`; the last carry out is 0 whenever the sum fits the buffer -/
theorem ytPass_spec {out yt x : List Nat} {size : Nat} (ho : WF out) (hy : WF yt) (hx : WF x)
    (hxl : x.length = size) (hl : 2 * size + yt.length ≤ out.length)
    (hfit : val out + B ^ size * (val yt * val x) < B ^ out.length) :
    val (setRange (setRange out size (adcMulLimbs yt x (getRange out size (size + yt.length))).1)
          (2 * size + yt.length)
          (propCarry ((setRange out size (adcMulLimbs yt x (getRange out size (size + yt.length))).1).drop
            (2 * size + yt.length)) (adcMulLimbs yt x (getRange out size (size + yt.length))).2))
      = val out + B ^ size * (val yt * val x) ∧
    WF (setRange (setRange out size (adcMulLimbs yt x (getRange out size (size + yt.length))).1)
          (2 * size + yt.length)
          (propCarry ((setRange out size (adcMulLimbs yt x (getRange out size (size + yt.length))).1).drop
            (2 * size + yt.length)) (adcMulLimbs yt x (getRange out size (size + yt.length))).2)) ∧
    (setRange (setRange out size (adcMulLimbs yt x (getRange out size (size + yt.length))).1)
          (2 * size + yt.length)
          (propCarry ((setRange out size (adcMulLimbs yt x (getRange out size (size + yt.length))).1).drop
            (2 * size + yt.length)) (adcMulLimbs yt x (getRange out size (size + yt.length))).2)).length
      = out.length := by
  have gl := getRange_length out size (size + yt.length) (by omega)
  have gw := getRange_WF ho size (size + yt.length)
  have ⟨a1, a2, a3, _⟩ := adcMulLimbs_spec yt x _ hy hx gw (by rw [gl, hxl]; omega)
  have u := setRange_update out size (adcMulLimbs yt x (getRange out size (size + yt.length))).1
    (by rw [a3, gl]; omega)
  rw [a3, gl] at u
  rw [gl] at a1
  generalize adcMulLimbs yt x (getRange out size (size + yt.length)) = R at *
  have ⟨_, l1⟩ := setRange_spec out size R.1 (by rw [a3, gl]; omega)
  have w1 := setRange_WF ho a2 size
  generalize setRange out size R.1 = O1 at *
  obtain ⟨co, p1, p2, p3⟩ := propCarry_spec (O1.drop (2 * size + yt.length)) R.2
  generalize propCarry (O1.drop (2 * size + yt.length)) R.2 = P at *
  have hpl : 2 * size + yt.length + P.length = O1.length := by rw [p3, List.length_drop]; omega
  have ⟨v2, l2⟩ := setRange_spec O1 (2 * size + yt.length) P (by omega)
  have w2 := setRange_WF w1 p2 (2 * size + yt.length)
  refine ⟨?_, w2, by rw [l2, l1]⟩
  rw [hpl, List.drop_length, val_nil, Nat.mul_zero, Nat.add_zero] at v2
  have e := val_take_drop O1 (2 * size + yt.length)
  rw [Nat.min_eq_left (by omega)] at e
  have hlt := val_lt_pow w2 (l2.trans l1)
  have hpow : B ^ out.length = B ^ (2 * size + yt.length) * B ^ (O1.drop (2 * size + yt.length)).length := by
    rw [← Nat.pow_add, List.length_drop]; congr 1; omega
  have hpow2 : B ^ (2 * size + yt.length) = B ^ size * B ^ (size + yt.length) := by
    rw [← Nat.pow_add]; congr 1; omega
  have key : val (setRange O1 (2 * size + yt.length) P) + B ^ out.length * co
      = val out + B ^ size * (val yt * val x) := by
    rw [v2, hpow]
    rw [hpow2] at e ⊢
    generalize B ^ size = S at *
    generalize B ^ (size + yt.length) = M at *
    generalize B ^ (O1.drop (2 * size + yt.length)).length = Q at *
    linear_combination S * M * p1 + u + e.symm + S * a1
  exact (fits_no_carry hlt hfit key).1

theorem mul_fits {a b : List Nat} (ha : WF a) (hb : WF b) : val a * val b < B ^ (a.length + b.length) := by
  rw [Nat.pow_add]; exact Nat.mul_lt_mul'' (val_lt ha) (val_lt hb)

/-- both trailing-limb passes: from `x·y` (the `size`-limb prefixes) to `lhs·rhs` -/
theorem kTrail_spec {out lhs rhs : List Nat} {size : Nat} (ho : WF out) (hL : WF lhs) (hR : WF rhs)
    (hol : out.length = lhs.length + rhs.length) (hsl : size ≤ lhs.length) (hsr : size ≤ rhs.length)
    (hv : val out = val (lhs.take size) * val (rhs.take size)) :
    val (kTrail out size lhs rhs) = val lhs * val rhs ∧ WF (kTrail out size lhs rhs) ∧
    (kTrail out size lhs rhs).length = out.length := by
  have eL := val_take_drop lhs size
  have eR := val_take_drop rhs size
  rw [Nat.min_eq_left hsl] at eL
  rw [Nat.min_eq_left hsr] at eR
  have hxl : (lhs.take size).length = size := by rw [List.length_take]; omega
  have hfitT := mul_fits hL hR
  rw [← hol] at hfitT
  unfold kTrail
  simp only
  -- stage 1: the xt pass
  have st1 : ∀ o9, o9 = (if (lhs.drop size).isEmpty then out else
        setRange out size (adcMulLimbs (lhs.drop size) rhs (out.drop size)).1) →
      val o9 = val out + B ^ size * (val (lhs.drop size) * val rhs) ∧ WF o9 ∧ o9.length = out.length := by
    intro o9 h9
    by_cases he : (lhs.drop size).isEmpty = true
    · rw [if_pos he] at h9
      have : lhs.drop size = [] := List.isEmpty_iff.mp he
      subst h9
      rw [this]; simp [ho]
    · rw [if_neg he] at h9
      subst h9
      apply xtPass_spec ho (WF_drop hL size) hR (by omega) (by rw [List.length_drop]; omega)
      rw [hv]
      rw [eL, eR] at hfitT
      generalize val (lhs.take size) = X at *
      generalize val (rhs.take size) = Y at *
      generalize val (lhs.drop size) = XT at *
      generalize val (rhs.drop size) = YT at *
      rw [eR]
      generalize B ^ size = S at *
      have : (X + S * XT) * (Y + S * YT) = X * Y + S * (XT * (Y + S * YT)) + X * (S * YT) := by ring
      omega
  obtain ⟨v9, w9, l9⟩ := st1 _ rfl
  generalize (if (lhs.drop size).isEmpty then out else
        setRange out size (adcMulLimbs (lhs.drop size) rhs (out.drop size)).1) = O9 at *
  have tot : val O9 + B ^ size * (val (rhs.drop size) * val (lhs.take size)) = val lhs * val rhs := by
    rw [v9, hv, eL, eR]; ring
  by_cases he : (rhs.drop size).isEmpty = true
  · rw [if_pos he]
    have : rhs.drop size = [] := List.isEmpty_iff.mp he
    rw [this] at tot
    simp only [val_nil, Nat.zero_mul, Nat.mul_zero, Nat.add_zero] at tot
    exact ⟨tot, w9, l9⟩
  · rw [if_neg he]
    have hlen : 2 * size + (rhs.drop size).length - size = size + (rhs.drop size).length := by omega
    rw [hlen]
    have ⟨y1, y2, y3⟩ := ytPass_spec (yt := rhs.drop size) (x := lhs.take size) (size := size) w9
      (WF_drop hR size) (WF_take hL size) hxl (by rw [l9, hol, List.length_drop]; omega)
      (by rw [tot, l9]; exact hfitT)
    exact ⟨y1.trans tot, y2, y3.trans l9⟩

/-! ### `karatsuba_mul_limbs`, all lengths, every fuel -/

theorem karaMulLimbs_spec : ∀ (fuel : Nat) (lhs rhs : List Nat), WF lhs → WF rhs →
    val (karaMulLimbs fuel lhs rhs) = val lhs * val rhs ∧ WF (karaMulLimbs fuel lhs rhs) ∧
    (karaMulLimbs fuel lhs rhs).length = lhs.length + rhs.length
  | 0, lhs, rhs, hL, hR => by
    have h := adcMulLimbs_zero lhs rhs hL hR
    exact ⟨h.1, h.2.1, h.2.2.1⟩
  | fuel + 1, lhs, rhs, hL, hR => by
    unfold karaMulLimbs
    simp only
    generalize hsz : (if min lhs.length rhs.length % 2 = 1 then min lhs.length rhs.length - 1
          else min lhs.length rhs.length) = size
    have hsl : size ≤ lhs.length := by rw [← hsz]; split <;> omega
    have hsr : size ≤ rhs.length := by rw [← hsz]; split <;> omega
    have heven : size % 2 = 0 := by rw [← hsz]; split <;> omega
    split
    · have h := adcMulLimbs_zero lhs rhs hL hR
      exact ⟨h.1, h.2.1, h.2.2.1⟩
    · rename_i hcond
      have hs2 : size = 2 * (size / 2) := by omega
      generalize hh : size / 2 = half at *
      have wx := WF_take hL size
      have wy := WF_take hR size
      have lx : (lhs.take size).length = 2 * half := by rw [List.length_take]; omega
      have ly : (rhs.take size).length = 2 * half := by rw [List.length_take]; omega
      have ⟨wx0, wx1, lx0, lx1, ex⟩ := split_halves wx lx
      have ⟨wy0, wy1, ly0, ly1, ey⟩ := split_halves wy ly
      rw [condNeg_absd wx0 wx1 (by rw [lx0, lx1]), condNeg_absd wy1 wy0 (by rw [ly1, ly0])]
      have ⟨bx, wdx, ldx, dx1, dx2⟩ := absd_spec wx0 wx1 (by rw [lx0, lx1])
      have ⟨by_, wdy, ldy, dy1, dy2⟩ := absd_spec wy1 wy0 (by rw [ly1, ly0])
      rw [lx0] at ldx
      rw [ly1] at ldy
      have ⟨z1v, z1w, z1l⟩ := karaMulLimbs_spec fuel _ _ wdx wdy
      have ⟨z0v, z0w, z0l⟩ := karaMulLimbs_spec fuel _ _ wx0 wy0
      have ⟨z2v, z2w, z2l⟩ := karaMulLimbs_spec fuel _ _ wx1 wy1
      rw [ldx, ldy] at z1l; rw [lx0, ly0] at z0l; rw [lx1, ly1] at z2l
      have hm : fromWordMask (usbb ((lhs.take size).take half) ((lhs.take size).drop half) 0).2 ^^^
          fromWordMask (usbb ((rhs.take size).drop half) ((rhs.take size).take half) 0).2
          = mask (decide (val ((lhs.take size).take half) < val ((lhs.take size).drop half)) !=
              decide (val ((rhs.take size).drop half) < val ((rhs.take size).take half))) := by
        unfold fromWordMask; rw [bx, by_, mask_xor]
      rw [hm]
      -- |z1| in the zeroed buffer
      have ⟨sv, sw, sl⟩ := setRange_zero (lhs.length + rhs.length) half _ z1w (by rw [z1l]; omega)
      generalize setRange (uzero (lhs.length + rhs.length)) half
        (karaMulLimbs fuel (absd ((lhs.take size).take half) ((lhs.take size).drop half))
          (absd ((rhs.take size).drop half) ((rhs.take size).take half))) = O1 at *
      rw [z1v] at sv
      have hD0 := val_lt_pow wdx ldx
      have hD1 := val_lt_pow wdy ldy
      have hK : 0 < B ^ half := Nat.pow_pos B_pos
      have p4 : B ^ (2 * size) = B ^ half * B ^ half * B ^ half * B ^ half := by
        rw [← Nat.pow_add, ← Nat.pow_add, ← Nat.pow_add]; congr 1; omega
      have p2 : B ^ size = B ^ half * B ^ half := by rw [← Nat.pow_add]; congr 1; omega
      have ⟨td1, td2⟩ := take_drop_divmod sw (n := 2 * size) (by rw [sl]; omega)
      have hO1lt : val O1 < B ^ (2 * size) := by
        rw [sv, p4]
        have h1 : val (absd ((lhs.take size).take half) ((lhs.take size).drop half)) *
            val (absd ((rhs.take size).drop half) ((rhs.take size).take half)) < B ^ half * B ^ half :=
          Nat.mul_lt_mul'' hD0 hD1
        have h2 := Nat.mul_lt_mul_of_pos_left h1 hK
        have h3 : B ^ half * (B ^ half * B ^ half) ≤ B ^ half * (B ^ half * B ^ half) * B ^ half :=
          Nat.le_mul_of_pos_right _ hK
        have h4 : B ^ half * B ^ half * B ^ half * B ^ half = B ^ half * (B ^ half * B ^ half) * B ^ half := by
          ring
        rw [h4]
        exact Nat.lt_of_lt_of_le h2 h3
      rw [Nat.mod_eq_of_lt hO1lt] at td1
      rw [Nat.div_eq_of_lt hO1lt] at td2
      have wl1 := WF_take sw (2 * size)
      have ll1 : (O1.take (2 * size)).length = 2 * size := by rw [List.length_take, sl]; omega
      rw [condNeg_eq _ _ wl1]
      -- the conditionally negated low part
      have hlow : ∃ low2, (if (decide (val ((lhs.take size).take half) < val ((lhs.take size).drop half)) !=
              decide (val ((rhs.take size).drop half) < val ((rhs.take size).take half))) = true
            then wrappingNeg (O1.take (2 * size)) else O1.take (2 * size)) = low2 ∧ WF low2 ∧
          low2.length = 2 * size ∧
          (((decide (val ((lhs.take size).take half) < val ((lhs.take size).drop half)) !=
              decide (val ((rhs.take size).drop half) < val ((rhs.take size).take half))) = false ∧
              val low2 = val O1) ∨
           ((decide (val ((lhs.take size).take half) < val ((lhs.take size).drop half)) !=
              decide (val ((rhs.take size).drop half) < val ((rhs.take size).take half))) = true ∧
              ∃ e, val low2 + val O1 = e * B ^ (2 * size))) := by
        have ⟨n1, n2, n3⟩ := wrappingNeg_spec wl1
        by_cases hp : (decide (val ((lhs.take size).take half) < val ((lhs.take size).drop half)) !=
              decide (val ((rhs.take size).drop half) < val ((rhs.take size).take half))) = true
        · rw [if_pos hp]
          refine ⟨_, rfl, n1, by rw [n2, ll1], Or.inr ⟨hp, ?_⟩⟩
          rcases Nat.eq_zero_or_pos (val (O1.take (2 * size))) with h0 | h0
          · exact ⟨0, by rw [wrappingNeg_zero wl1 h0, ← td1, h0]; simp⟩
          · exact ⟨1, by rw [← td1, n3 h0, ll1]; simp⟩
        · rw [if_neg hp]
          exact ⟨_, rfl, wl1, ll1, Or.inl ⟨by simpa using hp, td1⟩⟩
      obtain ⟨low2, hlow2, wl2, ll2, hcaseP⟩ := hlow
      rw [hlow2]
      have ⟨v2, l2⟩ := setRange_spec O1 0 low2 (by rw [ll2, sl]; omega)
      have w2 := setRange_WF sw wl2 0
      have d2 := setRange_drop O1 0 low2 (2 * size) (by rw [ll2, sl]; omega) (by rw [ll2]; omega)
      simp only [List.take_zero, val_nil, Nat.pow_zero, Nat.one_mul, Nat.zero_add, ll2, td2,
        Nat.mul_zero, Nat.add_zero] at v2
      generalize setRange O1 0 low2 = O2 at *
      -- the six addition loops
      have ⟨k1, k2, k3, k4⟩ := kCombine_spec (half := half) (size := size) (c0 := 0) w2 z0w z2w hs2
        (by rw [z0l]; omega) (by rw [z2l]; omega) (by rw [l2, sl]; omega) (by decide)
      generalize kCombine O2 _ _ half size 0 = R at *
      rw [d2] at k4
      have e8 := val_take_drop R.1 (2 * size)
      rw [Nat.min_eq_left (by rw [k3, l2, sl]; omega), k4, td2, Nat.mul_zero, Nat.add_zero] at e8
      have hRlt : val R.1 < B ^ (2 * size) := by
        rw [e8]
        exact val_lt_pow (WF_take k2 _) (by rw [List.length_take, k3, l2, sl]; omega)
      have hxy : val (lhs.take size) * val (rhs.take size) < B ^ (2 * size) := by
        have := mul_fits wx wy
        rwa [lx, ly, show 2 * half + 2 * half = 2 * size by omega] at this
      -- the Karatsuba identity
      have hRv : val R.1 = val (lhs.take size) * val (rhs.take size) := by
        rcases hcaseP with ⟨hp, hv⟩ | ⟨hp, e, hv⟩
        · have hcase : (val (absd ((lhs.take size).take half) ((lhs.take size).drop half)) +
                val ((lhs.take size).drop half) = val ((lhs.take size).take half) ∧
              val (absd ((rhs.take size).drop half) ((rhs.take size).take half)) +
                val ((rhs.take size).take half) = val ((rhs.take size).drop half)) ∨
            (val (absd ((lhs.take size).take half) ((lhs.take size).drop half)) +
                val ((lhs.take size).take half) = val ((lhs.take size).drop half) ∧
              val (absd ((rhs.take size).drop half) ((rhs.take size).take half)) +
                val ((rhs.take size).drop half) = val ((rhs.take size).take half)) := by
            by_cases c1 : val ((lhs.take size).take half) < val ((lhs.take size).drop half)
            · have c2 : val ((rhs.take size).drop half) < val ((rhs.take size).take half) := by
                by_contra c2; simp [c1, c2] at hp
              exact Or.inr ⟨dx1 c1, dy1 c2⟩
            · have c2 : ¬ val ((rhs.take size).drop half) < val ((rhs.take size).take half) := by
                intro c2; simp [c1, c2] at hp
              exact Or.inl ⟨dx2 c1, dy2 c2⟩
          have idp := kara_identity_pos (B ^ half) _ _ _ _ _ _ hcase
          apply mod_finish (c := R.2) (e := 0) hRlt hxy
          rw [k1, v2, hv, sv, z0v, z2v, ex, ey, p2]
          generalize B ^ half = K at *
          linear_combination idp
        · have hcase : (val (absd ((lhs.take size).take half) ((lhs.take size).drop half)) +
                val ((lhs.take size).drop half) = val ((lhs.take size).take half) ∧
              val (absd ((rhs.take size).drop half) ((rhs.take size).take half)) +
                val ((rhs.take size).drop half) = val ((rhs.take size).take half)) ∨
            (val (absd ((lhs.take size).take half) ((lhs.take size).drop half)) +
                val ((lhs.take size).take half) = val ((lhs.take size).drop half) ∧
              val (absd ((rhs.take size).drop half) ((rhs.take size).take half)) +
                val ((rhs.take size).take half) = val ((rhs.take size).drop half)) := by
            by_cases c1 : val ((lhs.take size).take half) < val ((lhs.take size).drop half)
            · have c2 : ¬ val ((rhs.take size).drop half) < val ((rhs.take size).take half) := by
                intro c2; simp [c1, c2] at hp
              exact Or.inr ⟨dx1 c1, dy2 c2⟩
            · have c2 : val ((rhs.take size).drop half) < val ((rhs.take size).take half) := by
                by_contra c2; simp [c1, c2] at hp
              exact Or.inl ⟨dx2 c1, dy1 c2⟩
          have idn := kara_identity_neg (B ^ half) _ _ _ _ _ _ hcase
          apply mod_finish (c := R.2) (e := e) hRlt hxy
          have k1' : val R.1 + B ^ (2 * size) * R.2 + val O1 = e * B ^ (2 * size) +
              val (lhs.take size) * val (rhs.take size) + val O1 := by
            rw [k1, v2, z0v, z2v, ex, ey, p2]
            rw [sv] at hv ⊢
            generalize B ^ (2 * size) = Q at *
            generalize B ^ half = K at *
            linear_combination hv + idn
          omega
      -- trailing limbs
      have ⟨t1, t2, t3⟩ := kTrail_spec (size := size) k2 hL hR (by rw [k3, l2, sl]) hsl hsr hRv
      exact ⟨t1, t2, by rw [t3, k3, l2, sl]⟩

end CB.Karatsuba
