/-
  CB.Lemmas.GenMulSq — the hand-written model of schoolbook squaring (`sqRows`, `shl1Loop`, `sqDiagLoop`,
  `schoolbookSquare`, `uintSquareLimbs` of CB/Model/Mul.lean, on which T03.3 and the squaring forms above it are proved)
  IS the translated source `schoolbook_squaring` (CB/Gen/MulRows.lean, regenerated from src/uint/mul.rs on every run),
  for EVERY limb count.

  As for the multiplication (CB/Lemmas/GenMulRows.lean) the source writes into two slices `lo`, `hi` chosen by an index
  test, the model works on the one buffer `lo ++ hi` (`sqGet_eq`, `sqSet_eq`).  One induction over the fuel per translated
  loop (invariant `counter + fuel = bound`):
    pass 1 inner (`while j < i`):  `lo ++ hi` with the carry stored at `2 i` = (first `i + j` limbs) ++ `macRowSet xi ..`
    pass 1 outer (from `i = 1`):   `lo ++ hi` = (first `i` limbs) ++ `sqRows (limbs below i) (limbs from i on) ..`
    pass 2 (the two doubling loops, one generic induction `dbl_bridge` instantiated twice): `shl1Loop`
    pass 3 (the diagonal):         `lo ++ hi` = (first `2 i` limbs) ++ `sqDiagLoop (limbs from i on) ..`
  One round of each translated loop is taken from CB/Lemmas/GenBitsMulSq.lean (the only file that reads the generated
  text), one word of the model from `mac_bridge` / `overflowingAdd_bridge`.  No `bv_decide` in this file.
-/
import CB.Lemmas.GenBitsMulSq
import CB.Lemmas.GenMulRows
namespace CB.GenMulSq
open CB CB.Gen CB.GenBits CB.GenChains CB.Mul CB.GenMulRows

/-! ## list / address facts -/

theorem take_succ_getD (l : List (BitVec 64)) (i : Nat) (h : i < l.length) :
    l.take (i + 1) = l.take i ++ [l.getD i 0#64] := by
  have e : l.getD i 0#64 = l[i] := by simp [List.getD, h]
  rw [e, List.take_succ_eq_append_getElem h]

theorem take_drop_getD (l : List (BitVec 64)) (i j : Nat) (hj : j < i) (hi : i ≤ l.length) :
    (l.take i).drop j = l.getD j 0#64 :: (l.take i).drop (j + 1) := by
  have h1 : j < (l.take i).length := by rw [List.length_take]; omega
  rw [drop_eq_getD_cons (l.take i) j h1]
  congr 1
  simp only [List.getD_eq_getElem?_getD, List.getElem?_take, if_pos hj]

theorem sqGet_eq (len : Nat) (lo hi : List (BitVec 64)) (k : Nat) (hl : lo.length = len) :
    sqGet len lo hi k = (lo ++ hi).getD k 0#64 := by
  subst hl; exact split_getD lo hi k

theorem sqSet_eq (len : Nat) (lo hi : List (BitVec 64)) (k : Nat) (v : BitVec 64) (hl : lo.length = len) :
    sqSetLo len lo k v ++ sqSetHi len hi k v = (lo ++ hi).set k v := by
  subst hl; exact split_set lo hi k v

theorem sqSetLo_length (len : Nat) (lo : List (BitVec 64)) (k : Nat) (v : BitVec 64) :
    (sqSetLo len lo k v).length = lo.length := by
  unfold sqSetLo; split <;> simp

theorem sqSetHi_length (len : Nat) (hi : List (BitVec 64)) (k : Nat) (v : BitVec 64) :
    (sqSetHi len hi k v).length = hi.length := by
  unfold sqSetHi; split <;> simp

theorem getD_set_ne (l : List (BitVec 64)) (i j : Nat) (v : BitVec 64) (h : i ≠ j) :
    (l.set i v).getD j 0#64 = l.getD j 0#64 := by
  simp only [List.getD_eq_getElem?_getD, List.getElem?_set_ne h]

/-! ## pass 1: the off-diagonal rows -/

theorem sq_inner_bridge (limbs : List (BitVec 64)) (i : Nat) (xi : BitVec 64) (hil : i ≤ limbs.length) :
    ∀ (n j : Nat) (lo hi : List (BitVec 64)) (c : BitVec 64), j + n = i → lo.length = limbs.length →
      2 * i < lo.length + hi.length →
      (MulRows.schoolbook_squaring_loop2 limbs i xi n j lo hi c).1.length = limbs.length ∧
      (MulRows.schoolbook_squaring_loop2 limbs i xi n j lo hi c).2.1.length = hi.length ∧
      nats (((MulRows.schoolbook_squaring_loop2 limbs i xi n j lo hi c).1 ++
             (MulRows.schoolbook_squaring_loop2 limbs i xi n j lo hi c).2.1).set (2 * i)
             (MulRows.schoolbook_squaring_loop2 limbs i xi n j lo hi c).2.2) =
        nats ((lo ++ hi).take (i + j)) ++
          macRowSet xi.toNat (nats ((lo ++ hi).drop (i + j))) (nats ((limbs.take i).drop j)) c.toNat := by
  intro n
  induction n with
  | zero =>
    intro j lo hi c hj hl hb
    have hj' : j = i := by omega
    subst hj'
    rw [sq_inner_zero]
    refine ⟨hl, rfl, ?_⟩
    dsimp only
    have hlen : j + j < (lo ++ hi).length := by simp only [List.length_append]; omega
    have e : (limbs.take j).drop j = [] :=
      List.drop_of_length_le (by rw [List.length_take]; exact Nat.min_le_left _ _)
    rw [e, Nat.two_mul, List.set_eq_take_append_cons_drop, if_pos hlen]
    have hd : (lo ++ hi).drop (j + j) = (lo ++ hi).getD (j + j) 0#64 :: (lo ++ hi).drop (j + j + 1) :=
      drop_eq_getD_cons _ _ hlen
    rw [hd]
    simp only [nats, List.map_append, List.map_cons, List.map_nil, macRowSet_nil_right]
  | succ n ih =>
    intro j lo hi c hj hl hb
    have hj' : j < i := by omega
    have hlen : i + j < (lo ++ hi).length := by simp only [List.length_append]; omega
    have hround := sq_inner_succ limbs i xi n j lo hi c hj'
    rw [sqGet_eq _ lo hi _ hl] at hround
    obtain ⟨ih1, ih2, ih3⟩ := ih (j + 1)
      (sqSetLo limbs.length lo (i + j) (Prim.mac ((lo ++ hi).getD (i + j) 0#64) xi (limbs.getD j 0#64) c).1)
      (sqSetHi limbs.length hi (i + j) (Prim.mac ((lo ++ hi).getD (i + j) 0#64) xi (limbs.getD j 0#64) c).1)
      (Prim.mac ((lo ++ hi).getD (i + j) 0#64) xi (limbs.getD j 0#64) c).2
      (by omega) (by rw [sqSetLo_length]; exact hl) (by rw [sqSetLo_length, sqSetHi_length]; exact hb)
    rw [hround]
    refine ⟨ih1, by rw [ih2, sqSetHi_length], ?_⟩
    rw [ih3, sqSet_eq _ _ _ _ _ hl, drop_eq_getD_cons (lo ++ hi) (i + j) hlen, take_drop_getD limbs i j hj' hil,
      ← Nat.add_assoc, take_set_succ (lo ++ hi) (i + j) _ hlen, List.drop_set_of_lt (by omega)]
    simp only [nats, List.map_cons, List.map_append, List.map_nil, macRowSet_cons, mac_bridge,
      List.append_assoc, List.cons_append, List.nil_append]

theorem sq_rows_bridge (limbs : List (BitVec 64)) :
    ∀ (n i : Nat) (lo hi : List (BitVec 64)), i + n = limbs.length → lo.length = limbs.length →
      hi.length = limbs.length →
      (MulRows.schoolbook_squaring_loop1 limbs n i lo hi).1.length = limbs.length ∧
      (MulRows.schoolbook_squaring_loop1 limbs n i lo hi).2.length = limbs.length ∧
      nats ((MulRows.schoolbook_squaring_loop1 limbs n i lo hi).1 ++
            (MulRows.schoolbook_squaring_loop1 limbs n i lo hi).2) =
        nats ((lo ++ hi).take i) ++
          sqRows (nats (limbs.take i)) (nats (limbs.drop i)) (nats ((lo ++ hi).drop i)) := by
  intro n
  induction n with
  | zero =>
    intro i lo hi hi' hl hh
    have : i = limbs.length := by omega
    subst this
    rw [sq_rows_zero, List.drop_of_length_le (Nat.le_refl _)]
    refine ⟨hl, hh, ?_⟩
    simp only [nats, List.map_nil, sqRows, ← List.map_append, List.take_append_drop]
  | succ n ih =>
    intro i lo hi hi' hl hh
    have hi'' : i < limbs.length := by omega
    obtain ⟨r1, r2, r3⟩ := sq_inner_bridge limbs i (limbs.getD i 0#64) (by omega) i 0 lo hi 0#64 (by omega) hl (by omega)
    rw [sq_rows_succ limbs n i lo hi hi'']
    generalize MulRows.schoolbook_squaring_loop2 limbs i (limbs.getD i 0#64) i 0 lo hi 0#64 = R at r1 r2 r3 ⊢
    have hs := sqSet_eq limbs.length R.1 R.2.1 (2 * i) R.2.2 r1
    obtain ⟨j1, j2, j3⟩ := ih (i + 1) (sqSetLo limbs.length R.1 (2 * i) R.2.2) (sqSetHi limbs.length R.2.1 (2 * i) R.2.2)
      (by omega) (by rw [sqSetLo_length]; exact r1) (by rw [sqSetHi_length, r2]; exact hh)
    refine ⟨j1, j2, ?_⟩
    rw [j3, hs]
    simp only [Nat.add_zero, List.drop_zero] at r3
    have hM := macRowSet_length (limbs.getD i 0#64).toNat (nats ((lo ++ hi).drop i)) (nats (limbs.take i)) (0#64 : BitVec 64).toNat
    have hdl : (nats ((lo ++ hi).drop i)).length = limbs.length + limbs.length - i := by
      simp [nats, hl, hh]
    rw [drop_eq_getD_cons limbs i hi'', take_succ_getD limbs i hi'']
    simp only [nats, List.map_cons, List.map_append, List.map_nil] at r3 hM hdl ⊢
    rw [sqRows_cons]
    have e0 : (0#64 : BitVec 64).toNat = 0 := rfl
    rw [e0] at r3 hM
    generalize macRowSet (limbs.getD i 0#64).toNat (List.map BitVec.toNat ((lo ++ hi).drop i))
      (List.map BitVec.toNat (limbs.take i)) 0 = M at r3 hM ⊢
    cases M with
    | nil => simp only [List.length_nil] at hM; omega
    | cons o os =>
      have hT : (List.map BitVec.toNat ((lo ++ hi).take i)).length = i := by
        simp only [List.length_map, List.length_take, List.length_append, hl, hh]; omega
      simp only [List.map_take, List.map_drop, r3] at hT ⊢
      generalize List.take i (List.map BitVec.toNat (lo ++ hi)) = T at hT ⊢
      subst hT
      rw [List.take_length_add_append, List.drop_length_add_append]
      simp only [List.take_succ_cons, List.take_zero, List.drop_succ_cons, List.drop_zero, List.append_assoc,
        List.cons_append, List.nil_append]

/-! ## pass 2: the doubling loops -/

theorem shl1_or_toNat (x c : BitVec 64) : ((x <<< 1) ||| c).toNat = (x.toNat * 2) % B ||| c.toNat := by
  simp only [BitVec.toNat_or, BitVec.toNat_shiftLeft, Nat.shiftLeft_eq, B_def]

theorem shr63_toNat (x : BitVec 64) : (x >>> 63).toNat = x.toNat / HALF := by
  simp only [BitVec.toNat_ushiftRight, Nat.shiftRight_eq_div_pow, HALF_def]

theorem shl1Loop_cons (l : Nat) (ls : List Nat) (c : Nat) :
    shl1Loop (l :: ls) c = (((l * 2) % B ||| c) :: (shl1Loop ls (l / HALF)).1, (shl1Loop ls (l / HALF)).2) := rfl

theorem shl1Loop_append (a b : List Nat) (c : Nat) :
    shl1Loop (a ++ b) c =
      ((shl1Loop a c).1 ++ (shl1Loop b (shl1Loop a c).2).1, (shl1Loop b (shl1Loop a c).2).2) := by
  induction a generalizing c with
  | nil => simp [shl1Loop]
  | cons x xs ih => simp only [List.cons_append, shl1Loop_cons, ih]

/-- any loop whose round is `(l[i].0, carry) = ((l[i].0 << 1) | carry.0, l[i] >> 63)` for `i < m` is the model's `shl1Loop`
    on the limbs `i .. m` (the limbs from `m` on stay) -/
theorem dbl_bridge (m : Nat) (f : Nat → Nat → List (BitVec 64) → BitVec 64 → List (BitVec 64) × BitVec 64)
    (hz : ∀ i l c, f 0 i l c = (l, c))
    (hs : ∀ n i l c, i < m → f (n + 1) i l c =
      f n (i + 1) (l.set i (((l.getD i 0#64) <<< 1) ||| c)) ((l.getD i 0#64) >>> 63)) :
    ∀ (n i : Nat) (l : List (BitVec 64)) (c : BitVec 64), i + n = m → m ≤ l.length →
      (f n i l c).1.length = l.length ∧
      nats (f n i l c).1 =
        nats (l.take i) ++ (shl1Loop (nats ((l.drop i).take n)) c.toNat).1 ++ nats (l.drop m) ∧
      (f n i l c).2.toNat = (shl1Loop (nats ((l.drop i).take n)) c.toNat).2 := by
  intro n
  induction n with
  | zero =>
    intro i l c hi hm
    have : i = m := by omega
    subst this
    rw [hz]
    refine ⟨rfl, ?_, ?_⟩
    · simp only [List.take_zero, nats, List.map_nil, shl1Loop, List.append_nil, ← List.map_append, List.take_append_drop]
    · simp only [List.take_zero, nats, List.map_nil, shl1Loop]
  | succ n ih =>
    intro i l c hi hm
    have him : i < m := by omega
    have hil : i < l.length := by omega
    rw [hs n i l c him]
    obtain ⟨j1, j2, j3⟩ := ih (i + 1) (l.set i (((l.getD i 0#64) <<< 1) ||| c)) ((l.getD i 0#64) >>> 63) (by omega)
      (by rw [List.length_set]; exact hm)
    refine ⟨by rw [j1, List.length_set], ?_, ?_⟩
    · rw [j2, take_set_succ l i _ hil, List.drop_set_of_lt (by omega), List.drop_set_of_lt him,
        drop_eq_getD_cons l i hil, List.take_succ_cons]
      simp only [nats, List.map_cons, List.map_append, List.map_nil, shl1Loop_cons, shl1_or_toNat, shr63_toNat,
        List.append_assoc, List.cons_append, List.nil_append]
    · rw [j3, List.drop_set_of_lt (by omega), drop_eq_getD_cons l i hil, List.take_succ_cons]
      simp only [nats, List.map_cons, shl1Loop_cons, shr63_toNat]

/-! ## pass 3: the diagonal -/

theorem sqDiagLoop_nil (out : List Nat) (c : Nat) : sqDiagLoop [] out c = (out, c) := by
  simp [sqDiagLoop]

theorem sq_diag_bridge (limbs : List (BitVec 64)) :
    ∀ (n i : Nat) (lo hi : List (BitVec 64)) (c : BitVec 64), i + n = limbs.length → lo.length = limbs.length →
      hi.length = limbs.length →
      (MulRows.schoolbook_squaring_loop5 limbs n i lo hi c).1.length = limbs.length ∧
      (MulRows.schoolbook_squaring_loop5 limbs n i lo hi c).2.1.length = limbs.length ∧
      nats ((MulRows.schoolbook_squaring_loop5 limbs n i lo hi c).1 ++
            (MulRows.schoolbook_squaring_loop5 limbs n i lo hi c).2.1) =
        nats ((lo ++ hi).take (2 * i)) ++
          (sqDiagLoop (nats (limbs.drop i)) (nats ((lo ++ hi).drop (2 * i))) c.toNat).1 := by
  intro n
  induction n with
  | zero =>
    intro i lo hi c hi' hl hh
    have : i = limbs.length := by omega
    subst this
    rw [sq_diag_zero, List.drop_of_length_le (Nat.le_refl _)]
    refine ⟨hl, hh, ?_⟩
    simp only [nats, List.map_nil, sqDiagLoop_nil, ← List.map_append, List.take_append_drop]
  | succ n ih =>
    intro i lo hi c hi' hl hh
    have hil : i < limbs.length := by omega
    have hW : (lo ++ hi).length = limbs.length + limbs.length := by simp only [List.length_append, hl, hh]
    have h0 : 2 * i < (lo ++ hi).length := by omega
    have h1 : 2 * i + 1 < (lo ++ hi).length := by omega
    rw [sq_diag_succ limbs n i lo hi c hil, sqGet_eq _ lo hi _ hl]
    generalize hm : Prim.mac ((lo ++ hi).getD (2 * i) 0#64) (limbs.getD i 0#64) (limbs.getD i 0#64) c = m
    have hs1 := sqSet_eq limbs.length lo hi (2 * i) m.1 hl
    have l1 : (sqSetLo limbs.length lo (2 * i) m.1).length = limbs.length := by rw [sqSetLo_length]; exact hl
    have l2 : (sqSetHi limbs.length hi (2 * i) m.1).length = limbs.length := by rw [sqSetHi_length]; exact hh
    generalize sqSetLo limbs.length lo (2 * i) m.1 = lo1 at hs1 l1 ⊢
    generalize sqSetHi limbs.length hi (2 * i) m.1 = hi1 at hs1 l2 ⊢
    rw [sqGet_eq _ lo1 hi1 _ l1, hs1, getD_set_ne _ _ _ _ (by omega)]
    generalize ha : Prim.overflowing_add ((lo ++ hi).getD (2 * i + 1) 0#64) m.2 = a
    have hs2 := sqSet_eq limbs.length lo1 hi1 (2 * i + 1) a.1 l1
    obtain ⟨j1, j2, j3⟩ := ih (i + 1) (sqSetLo limbs.length lo1 (2 * i + 1) a.1) (sqSetHi limbs.length hi1 (2 * i + 1) a.1) a.2
      (by omega) (by rw [sqSetLo_length]; exact l1) (by rw [sqSetHi_length]; exact l2)
    refine ⟨j1, j2, ?_⟩
    rw [j3, hs2, hs1]
    have e2 : 2 * (i + 1) = 2 * i + 1 + 1 := by omega
    rw [e2, take_set_succ _ (2 * i + 1) a.1 (by rw [List.length_set]; exact h1), take_set_succ _ (2 * i) m.1 h0,
      List.drop_set_of_lt (by omega), List.drop_set_of_lt (by omega),
      drop_eq_getD_cons limbs i hil, drop_eq_getD_cons (lo ++ hi) (2 * i) h0, drop_eq_getD_cons (lo ++ hi) (2 * i + 1) h1]
    simp only [nats, List.map_cons, List.map_append, List.map_nil, sqDiagLoop_cons, mac_bridge, hm,
      overflowingAdd_bridge, ha, List.append_assoc, List.cons_append, List.nil_append]

/-! ## the function: `schoolbook_squaring` on zeroed buffers, `uint_square_limbs`' use of it -/

/-- **`schoolbook_squaring`** on zeroed `lo` / `hi` of `limbs.len()` limbs each (how `uint_square_limbs` and `square_limbs`
    call it): the model's `schoolbookSquare` is the translated source, for every limb count (for 0 limbs, where the Rust
    underflows `limbs.len() - 1`, both are empty) -/
theorem schoolbookSquare_bridge (a : List (BitVec 64)) :
    schoolbookSquare (nats a) =
        nats ((MulRows.schoolbook_squaring a (List.replicate a.length 0#64) (List.replicate a.length 0#64)).1 ++
              (MulRows.schoolbook_squaring a (List.replicate a.length 0#64) (List.replicate a.length 0#64)).2) ∧
      (MulRows.schoolbook_squaring a (List.replicate a.length 0#64) (List.replicate a.length 0#64)).1.length = a.length ∧
      (MulRows.schoolbook_squaring a (List.replicate a.length 0#64) (List.replicate a.length 0#64)).2.length = a.length := by
  cases a with
  | nil => decide
  | cons x0 rest =>
    generalize hA : x0 :: rest = a
    have hn : 1 ≤ a.length := by rw [← hA]; simp
    rw [schoolbook_squaring_eq_loops]
    -- pass 1
    obtain ⟨p1, p2, p3⟩ := sq_rows_bridge a (a.length - 1) 1 (List.replicate a.length 0#64) (List.replicate a.length 0#64)
      (by omega) (by simp) (by simp)
    generalize MulRows.schoolbook_squaring_loop1 a (a.length - 1) 1 (List.replicate a.length 0#64)
      (List.replicate a.length 0#64) = R1 at p1 p2 p3 ⊢
    -- pass 2
    obtain ⟨d1, d2, d3⟩ := dbl_bridge a.length (MulRows.schoolbook_squaring_loop3 a) (sq_dbl_lo_zero a)
      (fun n i l c h => sq_dbl_lo_succ a n i l c h) a.length 0 R1.1 0#64 (by omega) (by omega)
    generalize MulRows.schoolbook_squaring_loop3 a a.length 0 R1.1 0#64 = L at d1 d2 d3 ⊢
    obtain ⟨e1, e2, e3⟩ := dbl_bridge (a.length - 1) (MulRows.schoolbook_squaring_loop4 a) (sq_dbl_hi_zero a)
      (fun n i l c h => sq_dbl_hi_succ a n i l c h) (a.length - 1) 0 R1.2 L.2 (by omega) (by omega)
    generalize MulRows.schoolbook_squaring_loop4 a (a.length - 1) 0 R1.2 L.2 = H at e1 e2 e3 ⊢
    -- pass 3
    obtain ⟨q1, q2, q3⟩ := sq_diag_bridge a a.length 0 L.1 (H.1.set (a.length - 1) H.2) 0#64 (by omega) (by omega)
      (by rw [List.length_set]; omega)
    refine ⟨?_, q1, q2⟩
    rw [q3]
    simp only [Nat.mul_zero, List.take_zero, List.drop_zero, nats, List.map_nil, List.nil_append]
    -- the model, pass by pass
    have hz : (0#64 : BitVec 64).toNat = 0 := rfl
    simp only [List.drop_zero, List.take_zero, nats, List.map_nil, List.nil_append, hz] at d2 d3 e2 e3
    have hR1 : (R1.1 ++ R1.2).length = 2 * a.length := by simp only [List.length_append, p1, p2]; omega
    have hp1 : List.map BitVec.toNat (R1.1 ++ R1.2) =
        0 :: sqRows [x0.toNat] (List.map BitVec.toNat rest) (uzero (2 * a.length - 1)) := by
      rw [show List.map BitVec.toNat (R1.1 ++ R1.2) = nats (R1.1 ++ R1.2) from rfl, p3, ← hA]
      simp only [nats, List.take_succ_cons, List.take_zero, List.drop_succ_cons, List.drop_zero, List.map_cons, List.map_nil,
        List.replicate_append_replicate, List.length_cons]
      have : rest.length + 1 + (rest.length + 1) = (2 * (rest.length + 1) - 1) + 1 := by omega
      rw [this, List.replicate_succ]
      simp only [List.take_succ_cons, List.take_zero, List.drop_succ_cons, List.drop_zero, List.map_cons, List.map_nil,
        List.map_replicate, List.cons_append, List.nil_append, uzero]
      rfl
    have hmodel : schoolbookSquare (List.map BitVec.toNat a) =
        (sqDiagLoop (List.map BitVec.toNat a)
          ((shl1Loop ((List.map BitVec.toNat (R1.1 ++ R1.2)).take (2 * a.length - 1)) 0).1 ++
            [(shl1Loop ((List.map BitVec.toNat (R1.1 ++ R1.2)).take (2 * a.length - 1)) 0).2]) 0).1 := by
      rw [hp1, ← hA]
      simp only [schoolbookSquare, List.map_cons, List.length_cons, List.length_map]
    rw [hmodel]
    congr 2
    -- the doubled buffer: `lo` doubled ++ (all but the top limb of `hi`) doubled ++ [carry]
    have hsplit : (List.map BitVec.toNat (R1.1 ++ R1.2)).take (2 * a.length - 1) =
        List.map BitVec.toNat R1.1 ++ List.map BitVec.toNat (R1.2.take (a.length - 1)) := by
      rw [← List.map_take, List.take_append, List.take_of_length_le (by omega), p1]
      have : 2 * a.length - 1 - a.length = a.length - 1 := by omega
      rw [this, List.map_append]
    rw [hsplit, shl1Loop_append]
    have hL : List.take a.length R1.1 = R1.1 := List.take_of_length_le (by omega)
    rw [hL] at d2 d3
    have hH : List.drop (a.length - 1) R1.2 = [R1.2.getD (a.length - 1) 0#64] := by
      rw [drop_eq_getD_cons R1.2 (a.length - 1) (by omega), List.drop_of_length_le (by omega)]
    have hdrop : List.drop a.length R1.1 = [] := List.drop_of_length_le (by omega)
    rw [hdrop] at d2
    rw [hH] at e2
    simp only [List.map_nil, List.append_nil, List.map_cons] at d2 e2
    have hHl : H.1.length = (a.length - 1) + 1 := by omega
    have hset : List.map BitVec.toNat (H.1.set (a.length - 1) H.2) =
        (List.map BitVec.toNat H.1).take (a.length - 1) ++ [H.2.toNat] := by
      rw [List.map_set, List.set_eq_take_append_cons_drop, if_pos (by rw [List.length_map]; omega),
        List.drop_of_length_le (by rw [List.length_map]; omega)]
    have hgen : ∀ (l : List Nat) (c : Nat), (shl1Loop l c).1.length = l.length := by
      intro l
      induction l with
      | nil => intro c; simp [shl1Loop]
      | cons x xs ih => intro c; simp only [shl1Loop_cons, List.length_cons, ih]
    have hlen1 : (shl1Loop (List.map BitVec.toNat (List.take (a.length - 1) R1.2)) L.2.toNat).1.length = a.length - 1 := by
      rw [hgen, List.length_map, List.length_take]; omega
    simp only [List.map_append, d2, List.append_assoc]
    rw [← d3, ← e3]
    congr 1
    rw [hset, e2, List.take_left' hlen1]

theorem uintSquareLimbs_bridge (a : List (BitVec 64)) :
    uintSquareLimbs (nats a) =
      (nats (MulRows.schoolbook_squaring a (List.replicate a.length 0#64) (List.replicate a.length 0#64)).1,
       nats (MulRows.schoolbook_squaring a (List.replicate a.length 0#64) (List.replicate a.length 0#64)).2) := by
  obtain ⟨h1, h2, _⟩ := schoolbookSquare_bridge a
  rw [uintSquareLimbs, h1]
  generalize MulRows.schoolbook_squaring a (List.replicate a.length 0#64) (List.replicate a.length 0#64) = R at h2 ⊢
  have hn : (nats R.1).length = (nats a).length := by simp [nats, h2]
  simp only [nats, List.map_append] at hn ⊢
  rw [List.take_left' hn, List.drop_left' hn]

end CB.GenMulSq
