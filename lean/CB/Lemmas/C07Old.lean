/-
  CB.Lemmas.C07Old — HISTORICAL: the formula `mul_mod_special` used before /repo commit a301fd3
  (`(carry.0 + 1) as WideWord * c`, the increment done in the limb type, wrapping in release builds).
  Nothing here describes the current code; the definitions are kept so that the defect that was
  found (DESIGN §7 row 12) stays machine-checked: the old formula is wrong at `c = MAX` with three
  limbs, correct whenever `carry + 1` does not overflow, and that is implied by `c < MAX` or ≤ 2 limbs.
-/
import CB.Lemmas.C07Mul
namespace CB.ModArith
open CB

/-- the reduction as written BEFORE the fix: `carry.0 + 1` wraps in the limb type -/
def oldSpecialReduce (lo hi : List Nat) (c : Nat) : List Nat :=
  let m := macByLimb lo hi c 0
  let rhs := (wadd m.2 1) * c
  let s := uadc m.1 (fromWideWord lo.length rhs) 0
  let rhs2 := (wsub s.2 1) &&& c
  (usbb s.1 (fromWord lo.length rhs2) 0).1

def oldMulModSpecial (a b : List Nat) (c : Nat) : List Nat :=
  if a.length = 1 then
    [(a.headD 0 * b.headD 0) % (wsub 0 c)]
  else
    let prod := val a * val b
    oldSpecialReduce (toLimbs a.length prod) (toLimbs a.length (prod / B ^ a.length)) c

/-- where the overflow-checked build of the old code panicked -/
def oldMulModSpecialOverflows (a b : List Nat) (c : Nat) : Bool :=
  if a.length = 1 then false
  else
    let prod := val a * val b
    (macByLimb (toLimbs a.length prod) (toLimbs a.length (prod / B ^ a.length)) c 0).2 + 1 == B

/-- without the overflow the old formula and the current one coincide -/
theorem old_formula_eq_current {lo hi : List Nat} {c : Nat}
    (H : (macByLimb lo hi c 0).2 + 1 < B) : oldSpecialReduce lo hi c = specialReduce lo hi c := by
  have hwadd : wadd (macByLimb lo hi c 0).2 1 = (macByLimb lo hi c 0).2 + 1 := by
    unfold wadd; exact Nat.mod_eq_of_lt H
  unfold oldSpecialReduce specialReduce
  simp only []
  rw [hwadd]

/-- the old formula was WRONG at `c = Limb::MAX` with three limbs: `a = b = 2^192 - 2^65 < p` gave
    `0x3_0000000000000001` instead of `0x1_0000000000000002_0000000000000001`; the current formula
    returns the residue on the same input. -/
theorem old_formula_mul_mod_special_wrong_at_max :
    ∃ a b : List Nat, WF a ∧ WF b ∧ a.length = 3 ∧ b.length = 3 ∧
      val a < B ^ 3 - WMAX ∧ val b < B ^ 3 - WMAX ∧
      oldMulModSpecialOverflows a b WMAX = true ∧
      val (oldMulModSpecial a b WMAX) = 0x30000000000000001 ∧
      (val a * val b) % (B ^ 3 - WMAX) = 0x100000000000000020000000000000001 ∧
      val (mulModSpecial a b WMAX) = 0x100000000000000020000000000000001 := by
  refine ⟨[0, WMAX - 1, WMAX], [0, WMAX - 1, WMAX], ?_, ?_, rfl, rfl, ?_, ?_, ?_, ?_, ?_, ?_⟩
  · unfold WF; decide
  · unfold WF; decide
  all_goals decide

/-- with two limbs and operands below `p = 2^128 - c` the carry limb stays below `Word::MAX` -/
theorem old_formula_no_overflow_two_limbs {a b : List Nat} {c : Nat} (ha : WF a) (hb : WF b)
    (h : a.length = b.length) (h2 : a.length = 2) (hc : c < B)
    (hlta : val a < B ^ a.length - c) (hltb : val b < B ^ a.length - c) :
    (macByLimb (toLimbs a.length (val a * val b))
      (toLimbs a.length (val a * val b / B ^ a.length)) c 0).2 + 1 < B := by
  have hlo := toLimbs_WF a.length (val a * val b)
  have hhi := toLimbs_WF a.length (val a * val b / B ^ a.length)
  have hll : (toLimbs a.length (val a * val b)).length
      = (toLimbs a.length (val a * val b / B ^ a.length)).length := by
    rw [toLimbs_length, toLimbs_length]
  have hle := macByLimb_carry_le hlo hhi hll hc
  by_cases hcm : c + 1 < B
  · omega
  · have hcM : c = WMAX := by simp only [B_def, WMAX_def] at *; omega
    subst hcM
    have ⟨e1, _, hmw, hml⟩ := macByLimb_spec hlo hhi hll (show WMAX < B by decide) (show 0 < B by decide)
    have hsp := split_product ha hb h
    have hvlo := val_lt hlo
    rw [toLimbs_length] at e1 hvlo
    have hK : B ^ a.length = 340282366920938463463374607431768211456 := by rw [h2]; decide
    have hprod : val a * val b ≤ (B ^ a.length - WMAX - 1) * (B ^ a.length - WMAX - 1) :=
      Nat.mul_le_mul (by omega) (by omega)
    generalize val a * val b = P at *
    generalize val (toLimbs a.length P) = L at *
    generalize val (toLimbs a.length (P / B ^ a.length)) = Hh at *
    generalize (macByLimb (toLimbs a.length P) (toLimbs a.length (P / B ^ a.length)) WMAX 0).2 = q at *
    generalize val (macByLimb (toLimbs a.length P) (toLimbs a.length (P / B ^ a.length)) WMAX 0).1 = m at *
    rw [hK] at e1 hvlo hsp hprod
    have hP : (340282366920938463463374607431768211456 - WMAX - 1) * (340282366920938463463374607431768211456 - WMAX - 1)
        = 115792089237316195411016781537914546325938688186146169670716247726416828825600 := by decide
    rw [hP] at hprod
    clear hmw hml hlo hhi hll hle hlta hltb ha hb
    simp only [B_def, WMAX_def] at *
    omega

end CB.ModArith
