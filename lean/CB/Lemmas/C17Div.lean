/-
  CB.Lemmas.C17Div — `RadixDivisionParams::encode_limbs`: the limb-division loop and the
  32-limb large-divisor loop write the zero-padded expansion.

  The loop is proved for a generic test `tst` that decides `top < div_limb` on words; the code's test is
  `plainTest` (`limbs[limb_count - 1] < div_limb`).
  `div2by1` and `div_rem_vartime_in_place` are value-level in the model (exactness: C02).
-/
import CB.Lemmas.C17Shift
import Mathlib.Tactic.Ring
import Mathlib.Tactic.LinearCombination
import Mathlib.Tactic.Linarith
namespace CB.Radix
open CB

/-! ### generic loop -/

/-- one round of the `loop` of `encode_limbs` up to the digit emission:
`(limbs[..limb_count], hi, digits_word)` -/
def stepT (tst : Nat → Prop) [DecidablePred tst] (p : DivParams) (limbs : List Nat) (hi : Nat) :
    List Nat × Nat × Nat :=
  let lshift := p.shift
  if limbs.isEmpty then ([], 0, hi)
  else
    let sc : List Nat × Nat :=
      if lshift > 0 then
        let r := shlLimbs lshift limbs 0
        (r.1, r.2 ||| ((hi * 2 ^ lshift) % B))
      else (limbs, hi)
    let d := divLimbsMS p.dnorm sc.1.reverse sc.2
    let q := d.1.reverse
    let top := q.getLastD 0
    let word := d.2 / 2 ^ lshift
    if tst top then (q.dropLast, top, word) else (q, 0, word)

def smallLoopT (tst : Nat → Prop) [DecidablePred tst] (p : DivParams) :
    Nat → List Nat → Nat → Nat → List Nat → List Nat
  | 0, _, _, _, acc => acc
  | f + 1, limbs, hi, outIdx, acc =>
    let st := stepT tst p limbs hi
    let k := min p.digitsLimb outIdx
    let acc := emitDigits p.radix k st.2.2 acc
    let outIdx := outIdx - k
    if outIdx = 0 then acc else smallLoopT tst p f st.1 st.2.1 outIdx acc

def largeLoopT (tst : Nat → Prop) [DecidablePred tst] (p : DivParams) :
    Nat → List Nat → Nat → List Nat → List Nat × Nat × List Nat
  | 0, limbs, outIdx, acc => (limbs, outIdx, acc)
  | f + 1, limbs, outIdx, acc =>
    if limbs.length ≥ LARGE then
      let x := val limbs
      let d := val p.divLarge
      let lc := limbs.length + 1 - LARGE
      let q := toLimbs lc (x / d)
      let q := if q.getLastD 0 = 0 then q.dropLast else q
      let remain := toLimbs LARGE (x % d)
      let nextIdx := outIdx - p.digitsLarge
      let len := outIdx - nextIdx
      let chunk := smallLoopT tst p (len + 1) remain 0 len []
      largeLoopT tst p f q nextIdx (chunk ++ acc)
    else (limbs, outIdx, acc)

def encodeLimbsT (tst : Nat → Prop) [DecidablePred tst] (p : DivParams) (limbs : List Nat)
    (outLen : Nat) : List Nat :=
  let st : List Nat × Nat × List Nat :=
    if limbs.length > LARGE then largeLoopT tst p limbs.length limbs outLen [] else (limbs, outLen, [])
  smallLoopT tst p (st.2.1 + 1) st.1 0 st.2.1 st.2.2

/-- the test of the code: `limbs[limb_count - 1] < div_limb` -/
def plainTest (p : DivParams) (top : Nat) : Prop := top < p.divisor
instance (p : DivParams) : DecidablePred (plainTest p) := fun _ => Nat.decLt _ _

theorem smallLoop_succ (p : DivParams) (f : Nat) (limbs : List Nat) (hi outIdx : Nat) (acc : List Nat) :
    smallLoop p (f + 1) limbs hi outIdx acc =
      (let st := stepT (plainTest p) p limbs hi
       let k := min p.digitsLimb outIdx
       let acc := emitDigits p.radix k st.2.2 acc
       let outIdx := outIdx - k
       if outIdx = 0 then acc else smallLoop p f st.1 st.2.1 outIdx acc) := rfl

theorem smallLoop_eq_T (p : DivParams) : ∀ (f : Nat) (limbs : List Nat) (hi outIdx : Nat) (acc : List Nat),
    smallLoop p f limbs hi outIdx acc = smallLoopT (plainTest p) p f limbs hi outIdx acc := by
  intro f
  induction f with
  | zero => intro _ _ _ _; rfl
  | succ f ih =>
    intro limbs hi outIdx acc
    rw [smallLoop_succ, smallLoopT]
    simp only [ih]

theorem largeLoop_succ (p : DivParams) (f : Nat) (limbs : List Nat) (outIdx : Nat) (acc : List Nat) :
    largeLoop p (f + 1) limbs outIdx acc =
      (if limbs.length ≥ LARGE then
        let x := val limbs
        let d := val p.divLarge
        let lc := limbs.length + 1 - LARGE
        let q := toLimbs lc (x / d)
        let q := if q.getLastD 0 = 0 then q.dropLast else q
        let remain := toLimbs LARGE (x % d)
        let nextIdx := outIdx - p.digitsLarge
        let len := outIdx - nextIdx
        let chunk := smallLoop p (len + 1) remain 0 len []
        largeLoop p f q nextIdx (chunk ++ acc)
      else (limbs, outIdx, acc)) := rfl

theorem largeLoop_eq_T (p : DivParams) : ∀ (f : Nat) (limbs : List Nat) (outIdx : Nat) (acc : List Nat),
    largeLoop p f limbs outIdx acc = largeLoopT (plainTest p) p f limbs outIdx acc := by
  intro f
  induction f with
  | zero => intro _ _ _; rfl
  | succ f ih =>
    intro limbs outIdx acc
    rw [largeLoop_succ, largeLoopT]
    simp only [ih, smallLoop_eq_T]

/-- the model of the code is the generic loop with the plain test -/
theorem encodeLimbs_eq_T (p : DivParams) (limbs : List Nat) (outLen : Nat) :
    encodeLimbs p limbs outLen = encodeLimbsT (plainTest p) p limbs outLen := by
  unfold encodeLimbs encodeLimbsT
  simp only [largeLoop_eq_T, smallLoop_eq_T]

/-! ### parameters -/

/-- what the loops need of a `RadixDivisionParams` entry -/
def GoodParams (p : DivParams) : Prop :=
  2 ≤ p.radix ∧ p.radix ≤ 36 ∧ 1 ≤ p.digitsLimb ∧ p.divLimb = p.radix ^ p.digitsLimb ∧
  p.shift < 64 ∧ p.dnorm = p.divLimb * 2 ^ p.shift ∧ p.dnorm < B ∧ p.divisor = p.divLimb ∧
  (∀ x ∈ p.divLarge, x < B) ∧ p.divLarge.length = LARGE ∧ val p.divLarge = p.radix ^ p.digitsLarge ∧
  B ^ (LARGE - 1) ≤ val p.divLarge

instance (p : DivParams) : Decidable (GoodParams p) := by unfold GoodParams; infer_instance

/-- every entry of `RadixDivisionParams::ALL` (computed by the model of the `const` block and of
`radix_large_divisor`) is good: in particular `div_large = radix ^ digits_large` fills 32 limbs -/
theorem allParams_good : ∀ p ∈ allParams, GoodParams p := by decide +kernel

theorem forRadix_mem {radix : Nat} {p : DivParams} (h : forRadix radix = .ok p) : p ∈ allParams := by
  unfold forRadix at h
  split at h
  · exact absurd h (by simp)
  · simp only at h
    split at h
    · exact absurd h (by simp)
    · split at h
      · exact absurd h (by simp)
      · next p' hp' =>
        split at h
        · exact absurd h (by simp)
        · injection h with h
          subst h
          exact List.mem_of_getElem? hp'

theorem forRadix_good {radix : Nat} {p : DivParams} (h : forRadix radix = .ok p) : GoodParams p :=
  allParams_good p (forRadix_mem h)

/-- every non-power-of-two radix 3..36 has an entry -/
theorem forRadix_ok : ∀ r, r < 37 → 2 ≤ r → isPow2 r = false → ∃ p, forRadix r = .ok p := by
  intro r h37 h2 hp
  have : ∀ r, r < 37 → 2 ≤ r → isPow2 r = false → (match forRadix r with | .ok _ => true | .error _ => false) = true := by
    decide +kernel
  have h := this r h37 h2 hp
  cases hf : forRadix r with
  | ok p => exact ⟨p, rfl⟩
  | error e => rw [hf] at h; exact absurd h (by simp)

/-! ### the pieces of one round -/

theorem shlLimbs_cons (l x : Nat) (xs : List Nat) (c : Nat) :
    shlLimbs l (x :: xs) c =
      ((((x * 2 ^ l) % B) ||| c) :: (shlLimbs l xs (x / 2 ^ ((64 - l) % 64))).1,
       (shlLimbs l xs (x / 2 ^ ((64 - l) % 64))).2) := rfl

/-- the left shift by `0 < l < 64` bits with carry-in `c < 2^l` -/
theorem shlLimbs_spec {l : Nat} (hl0 : 0 < l) (hl : l < 64) : ∀ (xs : List Nat) (c : Nat), WF xs → c < 2 ^ l →
    val (shlLimbs l xs c).1 + B ^ xs.length * (shlLimbs l xs c).2 = val xs * 2 ^ l + c ∧
    WF (shlLimbs l xs c).1 ∧ (shlLimbs l xs c).2 < 2 ^ l ∧ (shlLimbs l xs c).1.length = xs.length := by
  intro xs
  induction xs with
  | nil => intro c _ hc; simp [shlLimbs, WF_nil, hc]
  | cons x xs ih =>
    intro c hw hc
    have hx : x < B := (WF_cons.mp hw).1
    have hxs : WF xs := (WF_cons.mp hw).2
    rw [shlLimbs_cons]
    have hr : (64 - l) % 64 = 64 - l := by omega
    rw [hr]
    have hB : B = 2 ^ (64 - l) * 2 ^ l := by rw [← Nat.pow_add, B_eq_pow]; congr 1; omega
    have hp1 : 0 < 2 ^ (64 - l) := Nat.pow_pos (by decide)
    have hp2 : 0 < 2 ^ l := Nat.pow_pos (by decide)
    have hc' : x / 2 ^ (64 - l) < 2 ^ l := by
      rw [Nat.div_lt_iff_lt_mul hp1, Nat.mul_comm, ← hB]; exact hx
    obtain ⟨h1, h2, h3, h4⟩ := ih (x / 2 ^ (64 - l)) hxs hc'
    -- low limb: ((x << l) mod B) | c = (x mod 2^(64-l)) * 2^l + c
    have hlow : ((x * 2 ^ l) % B) ||| c = (x % 2 ^ (64 - l)) * 2 ^ l + c := by
      rw [hB, Nat.mul_mod_mul_right, ← Nat.shiftLeft_eq, ← Nat.shiftLeft_add_eq_or_of_lt hc]
    have hlowlt : (x % 2 ^ (64 - l)) * 2 ^ l + c < B := by
      have := Nat.mod_lt x hp1
      calc (x % 2 ^ (64 - l)) * 2 ^ l + c < (x % 2 ^ (64 - l)) * 2 ^ l + 2 ^ l := by omega
        _ = (x % 2 ^ (64 - l) + 1) * 2 ^ l := by rw [Nat.add_mul, Nat.one_mul]
        _ ≤ 2 ^ (64 - l) * 2 ^ l := Nat.mul_le_mul_right _ this
        _ = B := hB.symm
    rw [hlow]
    refine ⟨?_, WF_cons.mpr ⟨hlowlt, h2⟩, h3, by simp [h4]⟩
    simp only [val_cons, List.length_cons]
    have hdm := Nat.div_add_mod x (2 ^ (64 - l))
    generalize x / 2 ^ (64 - l) = xq at *
    generalize x % 2 ^ (64 - l) = xr at *
    generalize (shlLimbs l xs xq).1 = s1 at *
    generalize (shlLimbs l xs xq).2 = s2 at *
    generalize 2 ^ (64 - l) = P at *
    generalize 2 ^ l = Q at *
    rw [Nat.pow_succ]
    clear ih hlow hlowlt hx hw
    generalize B ^ xs.length = K at *
    generalize B = Bv at *
    zify at h1 hdm hB ⊢
    linear_combination (Bv : Int) * h1 + (Q : Int) * hdm + (xq : Int) * hB

theorem divLimbsMS_cons (dn x : Nat) (xs : List Nat) (c : Nat) :
    divLimbsMS dn (x :: xs) c =
      ((((c * B + x) / dn) % B) :: (divLimbsMS dn xs ((c * B + x) % dn)).1,
       (divLimbsMS dn xs ((c * B + x) % dn)).2) := rfl

/-- schoolbook division of `c·B^n + ms` (most significant limb first) by a word `dn`, `c < dn` -/
theorem divLimbsMS_spec {dn : Nat} (hdn : 0 < dn) : ∀ (ms : List Nat) (c : Nat), WF ms → c < dn →
    c * B ^ ms.length + val ms.reverse = dn * val (divLimbsMS dn ms c).1.reverse + (divLimbsMS dn ms c).2 ∧
    (divLimbsMS dn ms c).2 < dn ∧ WF (divLimbsMS dn ms c).1 ∧ (divLimbsMS dn ms c).1.length = ms.length := by
  intro ms
  induction ms with
  | nil => intro c _ hc; simp [divLimbsMS, WF_nil, hc]
  | cons x xs ih =>
    intro c hw hc
    have hx : x < B := (WF_cons.mp hw).1
    have hxs : WF xs := (WF_cons.mp hw).2
    rw [divLimbsMS_cons]
    have hr : (c * B + x) % dn < dn := Nat.mod_lt _ hdn
    obtain ⟨h1, h2, h3, h4⟩ := ih ((c * B + x) % dn) hxs hr
    have htlt : c * B + x < dn * B := by
      calc c * B + x < c * B + B := by omega
        _ = (c + 1) * B := by rw [Nat.add_mul, Nat.one_mul]
        _ ≤ dn * B := Nat.mul_le_mul_right _ hc
    have hq : (c * B + x) / dn < B := by
      rw [Nat.div_lt_iff_lt_mul hdn, Nat.mul_comm B dn]; exact htlt
    rw [Nat.mod_eq_of_lt hq]
    refine ⟨?_, h2, WF_cons.mpr ⟨hq, h3⟩, by simp [h4]⟩
    simp only [List.reverse_cons, val_append_singleton, List.length_reverse, List.length_cons, h4]
    have hdm := Nat.div_add_mod (c * B + x) dn
    generalize (c * B + x) / dn = tq at *
    generalize (c * B + x) % dn = tr at *
    generalize val (divLimbsMS dn xs tr).1.reverse = vq at *
    generalize (divLimbsMS dn xs tr).2 = rem at *
    generalize val xs.reverse = vx at *
    rw [Nat.pow_succ]
    generalize B ^ xs.length = K at *
    zify at h1 hdm ⊢
    linear_combination h1 + (-(K : Int)) * hdm

theorem dropLast_append_getLastD : ∀ (l : List Nat), l ≠ [] → l.dropLast ++ [l.getLastD 0] = l := by
  intro l
  induction l with
  | nil => intro h; exact absurd rfl h
  | cons x xs ih =>
    intro _
    cases xs with
    | nil => rfl
    | cons y ys =>
      have := ih (by simp)
      simp only [List.dropLast_cons_cons, List.cons_append, List.getLastD_cons] at this ⊢
      rw [this]

theorem WF_append_left {a b : List Nat} (h : WF (a ++ b)) : WF a :=
  fun x hx => h x (List.mem_append_left _ hx)

theorem WF_mem_last {a : List Nat} {w : Nat} (h : WF (a ++ [w])) : w < B :=
  h w (List.mem_append_right _ (by simp))

/-- post-condition of one round on the state `X = limbs + B^len · hi`, `hi < D`:
the word is `X mod D`, the new state is `X / D` -/
def StepOK (p : DivParams) (limbs : List Nat) (hi : Nat) (st : List Nat × Nat × Nat) : Prop :=
  WF st.1 ∧ st.2.1 < p.divLimb ∧ st.2.2 = (val limbs + B ^ limbs.length * hi) % p.divLimb ∧
  val st.1 + B ^ st.1.length * st.2.1 = (val limbs + B ^ limbs.length * hi) / p.divLimb

theorem stepT_ok {tst : Nat → Prop} [DecidablePred tst] {p : DivParams} (hg : GoodParams p)
    (htst : ∀ top, top < B → (tst top ↔ top < p.divLimb))
    {limbs : List Nat} {hi : Nat} (hw : WF limbs) (hhi : hi < p.divLimb) :
    StepOK p limbs hi (stepT tst p limbs hi) := by
  obtain ⟨hr2, hr36, hdl, hD, hs64, hdn, hdnB, hdiv, hLw, hLl, hLv, hLb⟩ := hg
  have hDpos : 0 < p.divLimb := by rw [hD]; exact Nat.pow_pos (by omega)
  unfold StepOK stepT
  simp only
  cases limbs with
  | nil =>
    simp only [List.isEmpty_nil, if_true]
    refine ⟨WF_nil, hDpos, ?_, ?_⟩
    · simp [Nat.mod_eq_of_lt hhi]
    · simp [Nat.div_eq_of_lt hhi]
  | cons x0 xs0 =>
    simp only [List.isEmpty_cons, Bool.false_eq_true, if_false]
    generalize hlimbs : x0 :: xs0 = limbs at hw ⊢
    have hm : 1 ≤ limbs.length := by rw [← hlimbs]; simp
    generalize hX : val limbs + B ^ limbs.length * hi = X at ⊢
    have hP : 0 < 2 ^ p.shift := Nat.pow_pos (by decide)
    -- the normalising shift
    have hsc : ∃ s c, (if p.shift > 0 then
          ((shlLimbs p.shift limbs 0).1, (shlLimbs p.shift limbs 0).2 ||| ((hi * 2 ^ p.shift) % B))
        else (limbs, hi)) = (s, c) ∧
        val s + B ^ limbs.length * c = X * 2 ^ p.shift ∧ WF s ∧ s.length = limbs.length ∧ c < p.dnorm := by
      by_cases hl : p.shift > 0
      · rw [if_pos hl]
        obtain ⟨h1, h2, h3, h4⟩ := shlLimbs_spec hl hs64 limbs 0 hw hP
        refine ⟨_, _, rfl, ?_, h2, h4, ?_⟩
        all_goals
          have hhis : hi * 2 ^ p.shift < p.dnorm := by
            rw [hdn]; exact Nat.mul_lt_mul_of_pos_right hhi hP
          have hor : (shlLimbs p.shift limbs 0).2 ||| ((hi * 2 ^ p.shift) % B) =
              hi * 2 ^ p.shift + (shlLimbs p.shift limbs 0).2 := by
            rw [Nat.mod_eq_of_lt (by omega), Nat.or_comm, ← Nat.shiftLeft_eq,
              ← Nat.shiftLeft_add_eq_or_of_lt h3]
          rw [hor]
        · rw [← hX]
          generalize (shlLimbs p.shift limbs 0).1 = s1 at *
          generalize (shlLimbs p.shift limbs 0).2 = s2 at *
          generalize B ^ limbs.length = K at *
          generalize 2 ^ p.shift = Q at *
          zify at h1 ⊢
          linear_combination h1
        · rw [hdn]
          calc hi * 2 ^ p.shift + (shlLimbs p.shift limbs 0).2 < hi * 2 ^ p.shift + 2 ^ p.shift := by omega
            _ = (hi + 1) * 2 ^ p.shift := by rw [Nat.add_mul, Nat.one_mul]
            _ ≤ p.divLimb * 2 ^ p.shift := Nat.mul_le_mul_right _ hhi
      · rw [if_neg hl]
        have h0 : p.shift = 0 := by omega
        refine ⟨_, _, rfl, ?_, hw, rfl, ?_⟩
        · rw [h0, ← hX]; simp
        · rw [hdn, h0]; simpa using hhi
    obtain ⟨s, c, hsceq, hsv, hsw, hsl, hcl⟩ := hsc
    rw [hsceq]
    simp only
    -- the division by the normalised divisor
    have hdnpos : 0 < p.dnorm := by rw [hdn]; exact Nat.mul_pos hDpos hP
    have hsrw : WF s.reverse := fun y hy => hsw y (List.mem_reverse.mp hy)
    obtain ⟨d1, d2, d3, d4⟩ := divLimbsMS_spec hdnpos s.reverse c hsrw hcl
    rw [List.reverse_reverse, List.length_reverse, hsl] at d1
    rw [List.length_reverse, hsl] at d4
    generalize (divLimbsMS p.dnorm s.reverse c).1 = qm at *
    generalize (divLimbsMS p.dnorm s.reverse c).2 = rem at *
    have hqw : WF qm.reverse := fun y hy => d3 y (List.mem_reverse.mp hy)
    have hql : qm.reverse.length = limbs.length := by rw [List.length_reverse]; exact d4
    generalize qm.reverse = q at *
    -- X·2^l = D·2^l·val q + rem
    have hmain : X * 2 ^ p.shift = p.divLimb * 2 ^ p.shift * val q + rem := by
      rw [← hdn, ← hsv, ← d1]; ring
    have hremdiv : rem / 2 ^ p.shift < p.divLimb := by
      rw [Nat.div_lt_iff_lt_mul hP, ← hdn]; exact d2
    have hrem_mul : rem = rem / 2 ^ p.shift * 2 ^ p.shift := by
      -- 2^l divides rem
      have hdvd : 2 ^ p.shift ∣ rem := by
        have h1 : 2 ^ p.shift ∣ X * 2 ^ p.shift := Nat.dvd_mul_left _ _
        have h2 : 2 ^ p.shift ∣ p.divLimb * 2 ^ p.shift * val q :=
          Nat.dvd_trans (Nat.dvd_mul_left _ _) (Nat.dvd_mul_right _ _)
        rw [hmain] at h1
        exact (Nat.dvd_add_right h2).mp h1
      exact (Nat.div_mul_cancel hdvd).symm
    have hXeq : X = p.divLimb * val q + rem / 2 ^ p.shift := by
      apply Nat.eq_of_mul_eq_mul_right hP
      rw [hmain, Nat.add_mul, ← hrem_mul]; ring
    have hXdiv : X / p.divLimb = val q := by
      rw [hXeq, Nat.mul_add_div hDpos, Nat.div_eq_of_lt hremdiv, Nat.add_zero]
    have hXmod : X % p.divLimb = rem / 2 ^ p.shift := by
      rw [hXeq, Nat.mul_add_mod, Nat.mod_eq_of_lt hremdiv]
    have hqne : q ≠ [] := by
      intro h; rw [h] at hql; simp at hql; omega
    have hsplit := dropLast_append_getLastD q hqne
    have htop : q.getLastD 0 < B := by
      rw [← hsplit] at hqw; exact WF_mem_last hqw
    by_cases ht : tst (q.getLastD 0)
    · rw [if_pos ht]
      refine ⟨?_, (htst _ htop).mp ht, hXmod.symm, ?_⟩
      · rw [← hsplit] at hqw; exact WF_append_left hqw
      · simp only
        rw [hXdiv]
        conv => rhs; rw [← hsplit]
        rw [val_append_singleton]
    · rw [if_neg ht]
      refine ⟨hqw, hDpos, hXmod.symm, ?_⟩
      simp only
      rw [hXdiv]; simp

/-! ### the loops -/

theorem digitsPad_lt {r : Nat} (hr : 0 < r) : ∀ (n x : Nat), ∀ d ∈ digitsPad r n x, d < r := by
  intro n
  induction n with
  | zero => intro x d hd; simp [digitsPad] at hd
  | succ n ih =>
    intro x d hd
    rw [digitsPad] at hd
    rcases List.mem_append.mp hd with h | h
    · exact ih _ d h
    · simp at h; rw [h]; exact Nat.mod_lt _ hr

theorem emitDigits_eq' {radix : Nat} (h0 : 0 < radix) (h256 : radix ≤ 256) (k w : Nat) (acc : List Nat) :
    emitDigits radix k w acc = (digitsPad radix k w).map digitChar ++ acc := by
  rw [emitDigits_eq]
  congr 1
  apply List.map_congr_left
  intro d hd
  have := digitsPad_lt h0 k w d hd
  rw [Nat.mod_eq_of_lt (by omega)]
  rfl

/-- low digits only depend on the value modulo a power of the radix that covers them -/
theorem digitsPad_mod {r : Nat} (hr : 0 < r) {k n : Nat} (hk : k ≤ n) (x : Nat) :
    digitsPad r k (x % r ^ n) = digitsPad r k x := by
  have h := Nat.mod_add_div x (r ^ n)
  have hs : r ^ n = r ^ k * r ^ (n - k) := by rw [← Nat.pow_add]; congr 1; omega
  have hx : x = x % r ^ n + r ^ k * (r ^ (n - k) * (x / r ^ n)) := by
    rw [← Nat.mul_assoc, ← hs]; exact h.symm
  conv => rhs; rw [hx]
  rw [digitsPad_add_mul hr]

/-- the `loop` of `encode_limbs`: writes the `outIdx` low digits of the state in front of `acc` -/
theorem smallLoopT_spec {tst : Nat → Prop} [DecidablePred tst] {p : DivParams} (hg : GoodParams p)
    (htst : ∀ top, top < B → (tst top ↔ top < p.divLimb)) :
    ∀ (f : Nat) (limbs : List Nat) (hi outIdx : Nat) (acc : List Nat), outIdx < f → WF limbs →
      hi < p.divLimb →
      smallLoopT tst p f limbs hi outIdx acc =
        (digitsPad p.radix outIdx (val limbs + B ^ limbs.length * hi)).map digitChar ++ acc := by
  have hg' := hg
  obtain ⟨hr2, hr36, hdl, hD, hs64, hdn, hdnB, hdiv, hLw, hLl, hLv, hLb⟩ := hg'
  have hr0 : 0 < p.radix := by omega
  intro f
  induction f with
  | zero => intro _ _ _ _ h; exact absurd h (by omega)
  | succ f ih =>
    intro limbs hi outIdx acc hf hw hhi
    rw [smallLoopT]
    obtain ⟨s1, s2, s3, s4⟩ := stepT_ok hg htst hw hhi
    generalize stepT tst p limbs hi = st at *
    generalize val limbs + B ^ limbs.length * hi = X at *
    rw [emitDigits_eq' hr0 (by omega), s3]
    by_cases hk : outIdx - min p.digitsLimb outIdx = 0
    · rw [if_pos hk]
      have hle : outIdx ≤ p.digitsLimb := by omega
      have hmin : min p.digitsLimb outIdx = outIdx := by omega
      rw [hmin, hD, digitsPad_mod hr0 hle]
    · rw [if_neg hk]
      have hmin : min p.digitsLimb outIdx = p.digitsLimb := by omega
      rw [hmin] at hk ⊢
      rw [ih _ _ _ _ (by omega) s1 s2, s4, hD, digitsPad_mod hr0 (Nat.le_refl _), ← List.append_assoc,
        ← List.map_append, ← digitsPad_add]
      congr 3
      omega

theorem val_dropLast_zero {q : List Nat} (hne : q ≠ []) (h0 : q.getLastD 0 = 0) :
    val q.dropLast = val q := by
  conv => rhs; rw [← dropLast_append_getLastD q hne, val_append_singleton, h0]
  simp

theorem WF_dropLast {q : List Nat} (h : WF q) : WF q.dropLast :=
  fun x hx => h x (List.dropLast_subset q hx)

/-- the `while limb_count >= RADIX_ENCODING_LIMBS_LARGE` loop: `e` more digits (of the value) are in
front of `acc`, and — unless the buffer is full — the remaining limbs hold `value / radix^e` -/
theorem largeLoopT_spec {tst : Nat → Prop} [DecidablePred tst] {p : DivParams} (hg : GoodParams p)
    (htst : ∀ top, top < B → (tst top ↔ top < p.divLimb)) :
    ∀ (f : Nat) (limbs : List Nat) (outIdx : Nat) (acc : List Nat), WF limbs →
      ∃ e, e + (largeLoopT tst p f limbs outIdx acc).2.1 = outIdx ∧
        (largeLoopT tst p f limbs outIdx acc).2.2 = (digitsPad p.radix e (val limbs)).map digitChar ++ acc ∧
        WF (largeLoopT tst p f limbs outIdx acc).1 ∧
        (0 < (largeLoopT tst p f limbs outIdx acc).2.1 →
          val (largeLoopT tst p f limbs outIdx acc).1 = val limbs / p.radix ^ e) := by
  have hg' := hg
  obtain ⟨hr2, hr36, hdl, hD, hs64, hdn, hdnB, hdiv, hLw, hLl, hLv, hLb⟩ := hg'
  have hr0 : 0 < p.radix := by omega
  have hDpos : 0 < p.divLimb := by rw [hD]; exact Nat.pow_pos (by omega)
  intro f
  induction f with
  | zero =>
    intro limbs outIdx acc hw
    exact ⟨0, by simp [largeLoopT], by simp [largeLoopT, digitsPad], hw, fun _ => by simp [largeLoopT]⟩
  | succ f ih =>
    intro limbs outIdx acc hw
    rw [largeLoopT]
    by_cases hlen : limbs.length ≥ LARGE
    · rw [if_pos hlen]
      simp only
      generalize hx : val limbs = x
      have hxlt : x < B ^ limbs.length := by rw [← hx]; exact val_lt hw
      have hdpos : 0 < val p.divLarge := by rw [hLv]; exact Nat.pow_pos hr0
      -- quotient fits `limb_count + 1 - LARGE` limbs
      have hqlt : x / val p.divLarge < B ^ (limbs.length + 1 - LARGE) := by
        rw [Nat.div_lt_iff_lt_mul hdpos]
        have e1 : limbs.length = (limbs.length + 1 - LARGE) + (LARGE - 1) := by
          have : 1 ≤ LARGE := by decide
          omega
        calc x < B ^ limbs.length := hxlt
          _ = B ^ (limbs.length + 1 - LARGE) * B ^ (LARGE - 1) := by rw [← Nat.pow_add, ← e1]
          _ ≤ B ^ (limbs.length + 1 - LARGE) * val p.divLarge := Nat.mul_le_mul_left _ hLb
      have hqv : val (toLimbs (limbs.length + 1 - LARGE) (x / val p.divLarge)) = x / val p.divLarge := by
        rw [val_toLimbs, Nat.mod_eq_of_lt hqlt]
      have hqw := toLimbs_WF (limbs.length + 1 - LARGE) (x / val p.divLarge)
      have hqne : toLimbs (limbs.length + 1 - LARGE) (x / val p.divLarge) ≠ [] := by
        intro h
        have := toLimbs_length (limbs.length + 1 - LARGE) (x / val p.divLarge)
        rw [h] at this; simp at this; omega
      generalize toLimbs (limbs.length + 1 - LARGE) (x / val p.divLarge) = q0 at hqv hqw hqne
      have hq : ∃ q, (if q0.getLastD 0 = 0 then q0.dropLast else q0) = q ∧ WF q ∧
          val q = x / val p.divLarge := by
        by_cases h0 : q0.getLastD 0 = 0
        · rw [if_pos h0]; exact ⟨_, rfl, WF_dropLast hqw, by rw [val_dropLast_zero hqne h0, hqv]⟩
        · rw [if_neg h0]; exact ⟨_, rfl, hqw, hqv⟩
      obtain ⟨q, hqeq, hqW, hqV⟩ := hq
      rw [hqeq]
      -- remainder: exactly LARGE limbs
      have hdlt : val p.divLarge < B ^ LARGE := by
        have := val_lt (l := p.divLarge) hLw
        rw [hLl] at this; exact this
      have hrv : val (toLimbs LARGE (x % val p.divLarge)) = x % val p.divLarge := by
        rw [val_toLimbs, Nat.mod_eq_of_lt (Nat.lt_trans (Nat.mod_lt _ hdpos) hdlt)]
      have hrw := toLimbs_WF LARGE (x % val p.divLarge)
      generalize toLimbs LARGE (x % val p.divLarge) = remain at hrv hrw
      have hchunk := smallLoopT_spec hg htst (outIdx - (outIdx - p.digitsLarge) + 1) remain 0
        (outIdx - (outIdx - p.digitsLarge)) [] (by omega) hrw hDpos
      rw [hchunk]
      simp only [Nat.mul_zero, Nat.add_zero, List.append_nil, hrv]
      obtain ⟨e, he1, he2, he3, he4⟩ := ih q (outIdx - p.digitsLarge)
        ((digitsPad p.radix (outIdx - (outIdx - p.digitsLarge)) (x % val p.divLarge)).map digitChar ++ acc) hqW
      generalize largeLoopT tst p f q (outIdx - p.digitsLarge)
        ((digitsPad p.radix (outIdx - (outIdx - p.digitsLarge)) (x % val p.divLarge)).map digitChar ++ acc) = res at *
      by_cases hbig : p.digitsLarge ≤ outIdx
      · -- a full chunk of `digits_large` digits
        have hlen' : outIdx - (outIdx - p.digitsLarge) = p.digitsLarge := by omega
        rw [hlen'] at he2
        refine ⟨p.digitsLarge + e, by omega, ?_, he3, ?_⟩
        · rw [he2, hqV, hLv, digitsPad_mod hr0 (Nat.le_refl _), ← List.append_assoc, ← List.map_append,
            ← digitsPad_add]
        · intro hpos
          rw [he4 hpos, hqV, hLv, Nat.div_div_eq_div_mul, ← Nat.pow_add]
      · -- the buffer ends inside this chunk
        have hlen' : outIdx - (outIdx - p.digitsLarge) = outIdx := by omega
        have hz : outIdx - p.digitsLarge = 0 := by omega
        rw [hlen'] at he2
        rw [hz] at he1
        have he0 : e = 0 := by omega
        have hres0 : res.2.1 = 0 := by omega
        subst he0
        refine ⟨outIdx, by omega, ?_, he3, fun h => absurd h (by omega)⟩
        rw [he2, hLv, digitsPad_mod hr0 (by omega)]
        simp [digitsPad]
    · rw [if_neg hlen]
      exact ⟨0, by simp, by simp [digitsPad], hw, fun _ => by simp⟩

/-- `encode_limbs` (division loop + large-divisor loop) with a test that decides
`top < div_limb` on words: the buffer receives the zero-padded expansion (its low `outLen` digits) -/
theorem encodeLimbsT_spec {tst : Nat → Prop} [DecidablePred tst] {p : DivParams} (hg : GoodParams p)
    (htst : ∀ top, top < B → (tst top ↔ top < p.divLimb)) {limbs : List Nat} (hw : WF limbs)
    (outLen : Nat) :
    encodeLimbsT tst p limbs outLen = (digitsPad p.radix outLen (val limbs)).map digitChar := by
  have hDpos : 0 < p.divLimb := by
    obtain ⟨hr2, _, _, hD, _⟩ := hg
    rw [hD]; exact Nat.pow_pos (by omega)
  unfold encodeLimbsT
  simp only
  by_cases hl : limbs.length > LARGE
  · rw [if_pos hl]
    obtain ⟨e, h1, h2, h3, h4⟩ := largeLoopT_spec hg htst limbs.length limbs outLen [] hw
    generalize largeLoopT tst p limbs.length limbs outLen [] = res at *
    rw [smallLoopT_spec hg htst _ _ _ _ _ (by omega) h3 hDpos, h2]
    simp only [Nat.mul_zero, Nat.add_zero, List.append_nil]
    rcases Nat.eq_zero_or_pos res.2.1 with h0 | hpos
    · rw [h0]; simp only [digitsPad, List.map_nil, List.nil_append]
      congr 2; omega
    · rw [h4 hpos, ← List.map_append, ← digitsPad_add]
      congr 2
  · rw [if_neg hl]
    simp only
    rw [smallLoopT_spec hg htst _ _ _ _ _ (by omega) hw hDpos]
    simp

/-- `RadixDivisionParams::encode_limbs` is correct for every radix entry, limb count and value -/
theorem encodeLimbs_spec {p : DivParams} (hg : GoodParams p) {limbs : List Nat} (hw : WF limbs)
    (outLen : Nat) :
    encodeLimbs p limbs outLen = (digitsPad p.radix outLen (val limbs)).map digitChar := by
  rw [encodeLimbs_eq_T]
  apply encodeLimbsT_spec hg _ hw
  intro top _
  unfold plainTest
  rw [hg.2.2.2.2.2.2.2.1]

/-- the radices whose limb divisor `radix^ilog(radix)` needs no normalising shift -/
theorem shift0_radices : ∀ r ∈ [3, 9, 10, 19, 23, 29, 30],
    (match forRadix r with | .ok p => decide (p.shift = 0) | .error _ => false) = true := by
  decide +kernel

theorem forRadix_shift0 {r : Nat} (hr : r ∈ [3, 9, 10, 19, 23, 29, 30]) :
    ∃ p, forRadix r = .ok p ∧ p.shift = 0 := by
  have h := shift0_radices r hr
  cases hf : forRadix r with
  | ok p => rw [hf] at h; exact ⟨p, rfl, by simpa using h⟩
  | error e => rw [hf] at h; exact absurd h (by simp)

end CB.Radix
