/-
  CB.Lemmas.C05Small — the crate-internal one-bit and sub-limb shifts: `overflowing_shl1`,
  `shr1_with_carry`, `shl_limb` (fixed and boxed), boxed `shl1_assign` / `shr1_assign`.
-/
import CB.Lemmas.C05Boxed
import CB.Lemmas.C05Query
namespace CB.Shift
open CB CB.Bits

/-- the carry leaving the top limb of the left-shift carry pass -/
def shlCarryOut (r : Nat) : List Nat → Nat → Nat
  | [], c => c
  | x :: xs, _ => shlCarryOut r xs (wshr x (64 - r))

/-- the left-shift carry pass WITH its outgoing carry is exact (no reduction) -/
theorem shlCarry_full {r : Nat} (hr0 : 0 < r) (hr : r < 64) (l : List Nat) (c : Nat) (hl : WF l)
    (hc : c < 2 ^ r) :
    val (shlCarry r l c) + B ^ l.length * shlCarryOut r l c = val l * 2 ^ r + c ∧
    shlCarryOut r l c < 2 ^ r := by
  induction l generalizing c with
  | nil => simp [shlCarry, shlCarryOut, hc]
  | cons x xs ih =>
    have ⟨hx, hxs⟩ := WF_cons.mp hl
    have hr' : r ≤ 64 := by omega
    have hc' : wshr x (64 - r) < 2 ^ r := by
      have := wshr_lt hx (show 64 - r ≤ 64 by omega)
      rwa [show 64 - (64 - r) = r by omega] at this
    have ⟨ihv, ihc⟩ := ih (wshr x (64 - r)) hxs hc'
    have hP := two_pow_split hr'
    have hxsplit : x = 2 ^ (64 - r) * (x / 2 ^ (64 - r)) + x % 2 ^ (64 - r) := (Nat.div_add_mod x _).symm
    simp only [shlCarry, shlCarryOut, val_cons, List.length_cons, Nat.pow_succ]
    refine ⟨?_, ihc⟩
    rw [wshl_or hr' hc]
    have e : B ^ xs.length * B * shlCarryOut r xs (wshr x (64 - r)) =
        B * (B ^ xs.length * shlCarryOut r xs (wshr x (64 - r))) := by ring
    rw [e, Nat.add_assoc, ← Nat.mul_add, Nat.add_comm (val (shlCarry r xs (wshr x (64 - r)))), ]
    rw [Nat.add_comm (B ^ xs.length * _), ihv]
    unfold wshr
    generalize x / 2 ^ (64 - r) = xh at *
    generalize x % 2 ^ (64 - r) = xl at *
    subst hxsplit
    rw [← hP]; ring

theorem shlCarryOut_last (r : Nat) (l : List Nat) (c : Nat) (hne : l ≠ []) :
    shlCarryOut r l c = wshr (l.getLastD 0) (64 - r) := by
  induction l generalizing c with
  | nil => exact absurd rfl hne
  | cons x xs ih =>
    cases xs with
    | nil => simp [shlCarryOut]
    | cons y t =>
      rw [shlCarryOut, ih _ (by simp)]
      simp only [List.getLastD_cons]

/-! ### `overflowing_shl1` -/

theorem shl1Loop_eq (l : List Nat) (c : Nat) : shl1Loop l c = (shlCarry 1 l c, shlCarryOut 1 l c) := by
  induction l generalizing c with
  | nil => rfl
  | cons x xs ih => simp only [shl1Loop, limbShl1, ih, shlCarry, shlCarryOut]

/-- `overflowing_shl1`: `result + 2^BITS * carry = 2 * x`, carry is the former top bit. -/
theorem overflowingShl1_spec {a : List Nat} (ha : WF a) :
    val (overflowingShl1 a).1 + B ^ a.length * (overflowingShl1 a).2 = 2 * val a ∧
    (overflowingShl1 a).2 ≤ 1 ∧ (overflowingShl1 a).1.length = a.length := by
  unfold overflowingShl1
  rw [shl1Loop_eq]
  have ⟨h1, h2⟩ := shlCarry_full (r := 1) (by decide) (by decide) a 0 ha (by decide)
  refine ⟨by rw [h1]; ring, by simpa using Nat.le_of_lt_succ h2, shlCarry_length _ _ _⟩

/-! ### `shr1_with_carry` -/

theorem shr1Loop_eq (l : List Nat) (c : Nat) : shr1Loop l c = shrCarry 1 l c := by
  induction l with
  | nil => rfl
  | cons x xs ih => simp only [shr1Loop, limbShr1, ih, shrCarry]

/-- `shr1_with_carry`: `x / 2` and the choice "lowest bit was set". -/
theorem shr1WithCarry_spec {a : List Nat} (ha : WF a) :
    val (shr1WithCarry a).1 = val a / 2 ∧ (shr1WithCarry a).2 = mask (decide (val a % 2 = 1)) ∧
    (shr1WithCarry a).1.length = a.length := by
  unfold shr1WithCarry
  rw [shr1Loop_eq]
  have h := shrCarry_spec (r := 1) (by decide) (by decide) a 0 ha (by decide)
  simp only [Nat.mul_zero, Nat.add_zero, Nat.pow_one] at h
  refine ⟨h.1, ?_, shrCarry_length _ _ _⟩
  simp only
  rw [h.2.1]
  unfold wshr
  have hb : val a % 2 = 0 ∨ val a % 2 = 1 := by omega
  rcases hb with hb | hb <;> rw [hb] <;> decide

/-! ### `shl_limb` -/

theorem ifTrueWord_max {y : Nat} (hy : y < B) : ifTrueWord WMAX y = y := by
  unfold ifTrueWord
  have : WMAX = 2 ^ 64 - 1 := by decide
  rw [this, Nat.and_two_pow_sub_one_eq_mod, ← B_eq_pow, Nat.mod_eq_of_lt hy]

theorem shlLimbLoop_nz {s : Nat} (prev : Nat) (l : List Nat) (hp : prev < B) (hl : WF l) :
    shlLimbLoop s (64 - s) WMAX prev l = shlCarry s l (wshr prev (64 - s)) := by
  induction l generalizing prev with
  | nil => rfl
  | cons x xs ih =>
    have ⟨hx, hxs⟩ := WF_cons.mp hl
    simp only [shlLimbLoop, shlCarry]
    rw [ifTrueWord_max (wshr_lt_B hp), ih x hx hxs]

theorem wshl_zero {x : Nat} (hx : x < B) : wshl x 0 = x := by
  unfold wshl; rw [Nat.pow_zero, Nat.mul_one, Nat.mod_eq_of_lt hx]

theorem shlLimbLoop_z (prev : Nat) (l : List Nat) (r : Nat) (hl : WF l) :
    shlLimbLoop 0 r 0 prev l = l := by
  induction l generalizing prev with
  | nil => rfl
  | cons x xs ih =>
    have ⟨hx, hxs⟩ := WF_cons.mp hl
    simp only [shlLimbLoop, ifTrueWord, Nat.and_zero, Nat.or_zero, wshl_zero hx, ih x hxs]

/-- `shl_limb(shift)` for `0 ≤ shift < 64` (incl. the masked `shift = 0` case):
    `result + 2^BITS * carry = x * 2^shift`. -/
theorem shlLimb_spec {a : List Nat} (ha : WF a) (hne : a ≠ []) {s : Nat} (hs : s < 64) :
    val (shlLimb a s).1 + B ^ a.length * (shlLimb a s).2 = val a * 2 ^ s ∧
    (shlLimb a s).1.length = a.length := by
  have hs32 : s < TWO32 := Nat.lt_trans hs (by decide)
  cases a with
  | nil => exact absurd rfl hne
  | cons x xs =>
    have ⟨hx, hxs⟩ := WF_cons.mp ha
    unfold shlLimb
    simp only
    rw [fromU32Nonzero_spec hs32]
    by_cases h0 : s = 0
    · subst h0
      simp only [ne_eq, not_true_eq_false, decide_false, mask, Bool.false_eq_true, if_false]
      have e1 : ifTrueU32 0 (64 - 0) = 0 := by decide
      rw [e1, shlLimbLoop_z x xs 0 hxs, wshl_zero hx]
      simp [ifTrueWord]
    · have hnz : decide (s ≠ 0) = true := by simp [h0]
      have hs0 : 0 < s := Nat.pos_of_ne_zero h0
      rw [hnz]
      simp only [mask, if_true]
      have e1 : ifTrueU32 WMAX (64 - s) = 64 - s := by
        have := ifTrueU32_mask (z := 64 - s) (by simp only [TWO32_def]; omega) true
        simpa [mask] using this
      rw [e1, shlLimbLoop_nz x xs hx hxs]
      have hfull := shlCarry_full hs0 hs (x :: xs) 0 ha (Nat.two_pow_pos _)
      have hlast : (x :: xs).getLastD 0 < B := by
        rw [List.getLastD_eq_getLast?]
        cases h : (x :: xs).getLast? with
        | none => exact B_pos
        | some v => exact ha v (List.mem_of_getLast? h)
      have hcar : ifTrueWord WMAX (wrappingShr ((x :: xs).getLastD 0) (64 - s)) =
          shlCarryOut s (x :: xs) 0 := by
        rw [shlCarryOut_last _ _ _ (by simp)]
        unfold wrappingShr
        rw [Nat.mod_eq_of_lt (by omega : 64 - s < 64)]
        exact ifTrueWord_max (wshr_lt_B hlast)
      rw [hcar]
      have hres : wshl x s :: shlCarry s xs (wshr x (64 - s)) = shlCarry s (x :: xs) 0 := by
        simp [shlCarry]
      rw [hres]
      exact ⟨by rw [hfull.1, Nat.add_zero], shlCarry_length _ _ _⟩

/-! ### boxed `shl1_assign`, `shr1_assign` -/

theorem boxedShl1Loop_eq (l : List Nat) (c : Nat) : boxedShl1Loop l c = shl1Loop l c := by
  induction l generalizing c with
  | nil => rfl
  | cons x xs ih => simp only [boxedShl1Loop, shl1Loop, limbShl1, ih]

theorem boxedShl1_eq {a : List Nat} (hne : a ≠ []) : boxedShl1 a = overflowingShl1 a := by
  cases a with
  | nil => exact absurd rfl hne
  | cons x xs =>
    simp only [boxedShl1, overflowingShl1, shl1Loop, limbShl1, boxedShl1Loop_eq, Nat.or_zero]

theorem boxedShr1_eq {a : List Nat} (ha : WF a) : boxedShr1 a = (shr1WithCarry a).1 := by
  have h : ∀ l : List Nat, WF l → boxedShr1 l = shrAsc 1 l := by
    intro l hl
    induction l with
    | nil => rfl
    | cons x xs ih =>
      have ⟨hx, hxs⟩ := WF_cons.mp hl
      cases xs with
      | nil => rfl
      | cons y t =>
        have e : wshl (y &&& 1) 63 = wshl y (64 - 1) := by
          rw [wshl_eq (by decide), wshl_eq (by decide), Nat.and_one_is_mod]
          simp
        simp only [boxedShr1, shrAsc, e, ih hxs]
  rw [h a ha, shrAsc_eq]
  unfold shr1WithCarry
  rw [shr1Loop_eq]

end CB.Shift
