/-
  CB.Lemmas.C19Rand — helper lemmas for C19 (random sampling): byte strings, the RNG fixture,
  bit lengths / masks, the borrow-chain comparison, and the loops of CB.Model.Rand.
  Core Lean only.
-/
import CB.Model.Rand
import CB.Lemmas.Chains
import CB.Lemmas.WordBits
namespace CB.Rand
open CB

/-! ### byte strings -/

/-- all bytes are `< 256` -/
def WFB (l : List Nat) : Prop := ∀ x ∈ l, x < 256

theorem WFB_nil : WFB [] := by intro x h; cases h
theorem WFB_cons {x : Nat} {xs : List Nat} : WFB (x :: xs) ↔ x < 256 ∧ WFB xs := by
  constructor
  · intro h
    exact ⟨h x (List.mem_cons_self), fun y hy => h y (List.mem_cons_of_mem _ hy)⟩
  · intro ⟨h1, h2⟩ y hy
    cases hy with
    | head => exact h1
    | tail _ h => exact h2 y h
theorem WFB_take {l : List Nat} (h : WFB l) (k : Nat) : WFB (l.take k) :=
  fun x hx => h x (List.mem_of_mem_take hx)
theorem WFB_drop {l : List Nat} (h : WFB l) (k : Nat) : WFB (l.drop k) :=
  fun x hx => h x (List.mem_of_mem_drop hx)
theorem WFB_append {a b : List Nat} (ha : WFB a) (hb : WFB b) : WFB (a ++ b) := by
  intro x hx
  rcases List.mem_append.mp hx with h | h
  · exact ha x h
  · exact hb x h

@[simp] theorem leBytes_nil : leBytes [] = 0 := rfl
@[simp] theorem leBytes_cons (b : Nat) (bs : List Nat) : leBytes (b :: bs) = b + 256 * leBytes bs := rfl

theorem leBytes_append (a b : List Nat) :
    leBytes (a ++ b) = leBytes a + 256 ^ a.length * leBytes b := by
  induction a with
  | nil => simp
  | cons x xs ih =>
    simp only [List.cons_append, leBytes_cons, ih, List.length_cons, Nat.pow_succ]
    rw [Nat.mul_add, ← Nat.mul_assoc, Nat.mul_comm 256 (256 ^ xs.length)]
    omega

theorem leBytes_lt {l : List Nat} (h : WFB l) : leBytes l < 256 ^ l.length := by
  induction l with
  | nil => simp
  | cons x xs ih =>
    have ⟨hx, hxs⟩ := WFB_cons.mp h
    have := ih hxs
    simp only [leBytes_cons, List.length_cons, Nat.pow_succ]
    generalize 256 ^ xs.length = K at *
    omega

theorem B_eq_256_pow : B = 256 ^ 8 := by decide

theorem leBytes_replicate_zero (k : Nat) : leBytes (List.replicate k 0) = 0 := by
  induction k with
  | zero => rfl
  | succ k ih => simp [List.replicate_succ, ih]

/-- `x` as exactly `n` little-endian bytes -/
def toBytes : Nat → Nat → List Nat
  | 0, _ => []
  | n + 1, x => (x % 256) :: toBytes n (x / 256)

theorem toBytes_length (n x : Nat) : (toBytes n x).length = n := by
  induction n generalizing x with
  | zero => rfl
  | succ n ih => simp [toBytes, ih]

theorem toBytes_WFB (n x : Nat) : WFB (toBytes n x) := by
  induction n generalizing x with
  | zero => exact WFB_nil
  | succ n ih =>
    simp only [toBytes]
    exact WFB_cons.mpr ⟨Nat.mod_lt _ (by decide), ih _⟩

theorem leBytes_toBytes (n x : Nat) : leBytes (toBytes n x) = x % 256 ^ n := by
  induction n generalizing x with
  | zero => simp [toBytes, Nat.mod_one]
  | succ n ih =>
    simp only [toBytes, leBytes_cons, ih, Nat.pow_succ]
    rw [Nat.mul_comm (256 ^ n) 256, Nat.mod_mul]

theorem toBytes_leBytes {l : List Nat} (h : WFB l) : toBytes l.length (leBytes l) = l := by
  induction l with
  | nil => rfl
  | cons x xs ih =>
    have ⟨hx, hxs⟩ := WFB_cons.mp h
    simp only [List.length_cons, toBytes, leBytes_cons]
    have h1 : (x + 256 * leBytes xs) % 256 = x := by omega
    have h2 : (x + 256 * leBytes xs) / 256 = leBytes xs := by omega
    rw [h1, h2, ih hxs]

/-- byte strings of equal length with equal little-endian value are equal -/
theorem leBytes_inj {a b : List Nat} (ha : WFB a) (hb : WFB b) (hl : a.length = b.length)
    (hv : leBytes a = leBytes b) : a = b := by
  rw [← toBytes_leBytes ha, ← toBytes_leBytes hb, hl, hv]

/-! ### the RNG fixture -/

theorem take_some {r : Rng} {k : Nat} {br : List Nat × Rng} (h : r.take k = some br) :
    k ≤ r.rest.length ∧ br.1 = r.rest.take k ∧ br.2.rest = r.rest.drop k ∧ br.2.used = r.used + k := by
  unfold Rng.take at h
  split at h
  · cases h
  · cases h; exact ⟨by omega, rfl, rfl, rfl⟩

theorem take_none {r : Rng} {k : Nat} (h : r.take k = none) : r.rest.length < k := by
  unfold Rng.take at h
  split at h
  · assumption
  · cases h

theorem take_eq_none_iff {r : Rng} {k : Nat} : r.take k = none ↔ r.rest.length < k := by
  constructor
  · exact take_none
  · intro h; unfold Rng.take; simp [h]

theorem take_eq_some {r : Rng} {k : Nat} (h : k ≤ r.rest.length) :
    r.take k = some (r.rest.take k, ⟨r.rest.drop k, r.used + k⟩) := by
  unfold Rng.take; simp [Nat.not_lt.mpr h]

theorem nextU64_some {r : Rng} {wr : Nat × Rng} (h : r.nextU64 = some wr) :
    8 ≤ r.rest.length ∧ wr.1 = leBytes (r.rest.take 8) ∧ wr.2.rest = r.rest.drop 8 ∧
    wr.2.used = r.used + 8 := by
  unfold Rng.nextU64 at h
  split at h
  · cases h
  · rename_i br hb
    cases h
    have ⟨a, b, c, d⟩ := take_some hb
    exact ⟨a, by rw [b], c, d⟩

theorem nextU64_none {r : Rng} (h : r.nextU64 = none) : r.rest.length < 8 := by
  unfold Rng.nextU64 at h
  split at h
  · rename_i hb; exact take_none hb
  · cases h

theorem nextU64_eq_some {r : Rng} (h : 8 ≤ r.rest.length) :
    r.nextU64 = some (leBytes (r.rest.take 8), ⟨r.rest.drop 8, r.used + 8⟩) := by
  unfold Rng.nextU64; rw [take_eq_some h]

theorem nextU64_eq_none {r : Rng} (h : r.rest.length < 8) : r.nextU64 = none := by
  unfold Rng.nextU64; rw [take_eq_none_iff.mpr h]

theorem word_of_8_bytes {l : List Nat} (h : WFB l) : leBytes (l.take 8) < B := by
  have := leBytes_lt (WFB_take h 8)
  have hl : (l.take 8).length ≤ 8 := by simp [List.length_take]; omega
  have : 256 ^ (l.take 8).length ≤ 256 ^ 8 := Nat.pow_le_pow_right (by decide) hl
  rw [B_eq_256_pow]; omega

/-! ### bit lengths and masks -/

theorem bitLen_zero : bitLen 0 = 0 := by simp [bitLen]

theorem lt_two_pow_bitLen (x : Nat) : x < 2 ^ bitLen x := by
  unfold bitLen
  split
  · subst_vars; decide
  · exact Nat.lt_log2_self

theorem two_pow_bitLen_le {x : Nat} (h : x ≠ 0) : 2 ^ (bitLen x - 1) ≤ x := by
  unfold bitLen
  simp only [h, if_false, Nat.add_sub_cancel]
  exact Nat.log2_self_le h

theorem bitLen_pos {x : Nat} (h : x ≠ 0) : 0 < bitLen x := by
  unfold bitLen; simp [h]

theorem bitLen_le {x k : Nat} (h : x < 2 ^ k) : bitLen x ≤ k := by
  unfold bitLen
  split
  · omega
  · rename_i h0
    have := (Nat.log2_lt h0).mpr h
    omega

theorem bitLen_eq_zero {x : Nat} (h : bitLen x = 0) : x = 0 := by
  unfold bitLen at h
  split at h
  · assumption
  · omega

/-- `!0 >> leading_zeros(w)` is the all-ones word of `bits w` bits -/
theorem mask_eq {w : Nat} (hw : w < B) : WMAX >>> leadingZeros64 w = 2 ^ bitLen w - 1 := by
  have hb : bitLen w ≤ 64 := bitLen_le (by rw [← B_eq_pow]; exact hw)
  unfold leadingZeros64
  rw [Nat.shiftRight_eq_div_pow]
  have e : WMAX = 2 ^ (64 - bitLen w) * (2 ^ bitLen w - 1) + (2 ^ (64 - bitLen w) - 1) := by
    have h1 : 2 ^ (64 - bitLen w) * 2 ^ bitLen w = 2 ^ 64 := by
      rw [← Nat.pow_add]; congr 1; omega
    have h2 : 0 < 2 ^ bitLen w := Nat.two_pow_pos _
    have h3 : 0 < 2 ^ (64 - bitLen w) := Nat.two_pow_pos _
    rw [Nat.mul_sub, Nat.mul_one, h1, WMAX_def]
    have : 2 ^ (64 - bitLen w) ≤ 2 ^ 64 := Nat.pow_le_pow_right (by decide) (by omega)
    omega
  have h3 : 0 < 2 ^ (64 - bitLen w) := Nat.two_pow_pos _
  rw [e, Nat.mul_add_div h3, Nat.div_eq_of_lt (by omega), Nat.add_zero]

theorem and_mask_eq (x : Nat) {w : Nat} (hw : w < B) :
    x &&& (WMAX >>> leadingZeros64 w) = x % 2 ^ bitLen w := by
  rw [mask_eq hw, Nat.and_two_pow_sub_one_eq_mod]

/-- the fibres of the mask are equal-sized: every `b`-bit value `h` is hit by exactly the words
    `h + 2^b·t`, `t < 2^(64-b)` -/
theorem mask_fibre {b : Nat} (hb : b ≤ 64) {h : Nat} (hh : h < 2 ^ b) (w : Nat) :
    (w < B ∧ w % 2 ^ b = h) ↔ ∃ t, t < 2 ^ (64 - b) ∧ w = h + 2 ^ b * t := by
  have hp : 2 ^ b * 2 ^ (64 - b) = B := by
    rw [← Nat.pow_add, B_eq_pow]; congr 1; omega
  have hpos : 0 < 2 ^ b := Nat.two_pow_pos _
  constructor
  · intro ⟨hw, hm⟩
    refine ⟨w / 2 ^ b, ?_, ?_⟩
    · rw [Nat.div_lt_iff_lt_mul hpos, Nat.mul_comm, hp]; exact hw
    · rw [← hm]; exact (Nat.mod_add_div w (2 ^ b)).symm
  · intro ⟨t, ht, hw⟩
    subst hw
    constructor
    · have : 2 ^ b * (t + 1) ≤ 2 ^ b * 2 ^ (64 - b) := Nat.mul_le_mul_left _ ht
      rw [hp, Nat.mul_add] at this
      omega
    · rw [Nat.add_mul_mod_self_left]; exact Nat.mod_eq_of_lt hh

/-! ### `ct_lt` through the borrow chain -/

theorem choiceBit_zero : choiceBit 0 = 0 := rfl
theorem choiceBit_WMAX : choiceBit WMAX = 1 := by decide

theorem ult_spec {a b : List Nat} (ha : WF a) (hb : WF b) (h : a.length = b.length) :
    choiceBit (ult a b) = 1 ↔ val a < val b := by
  have ⟨s1, _, s3⟩ := usbb_spec (bw := 0) ha hb (by decide) h
  have hr : val (usbb a b 0).1 < B ^ a.length := by
    have := val_lt (usbb_WF a b 0)
    rwa [usbb_length a b 0 h] at this
  have hva := val_lt ha
  have hvb := val_lt hb
  rw [← h] at hvb
  unfold ult fromWordMask
  have h0 : (0 : Nat) / HALF = 0 := by decide
  rw [h0, Nat.add_zero] at s1
  by_cases hn : a = []
  · subst hn
    cases b with
    | nil => simp [usbb, choiceBit]
    | cons _ _ => simp at h
  · rcases s3 hn with e | e
    · rw [e] at s1 ⊢
      have : (0 : Nat) / HALF = 0 := by decide
      rw [this, Nat.mul_zero, Nat.add_zero] at s1
      simp only [choiceBit_zero]
      omega
    · rw [e] at s1 ⊢
      have : WMAX / HALF = 1 := by decide
      rw [this, Nat.mul_one] at s1
      rw [choiceBit_WMAX]
      constructor
      · intro _; omega
      · intro _; rfl

/-! ### limb-list plumbing -/

theorem val_append (a b : List Nat) : val (a ++ b) = val a + B ^ a.length * val b := by
  induction a with
  | nil => simp
  | cons x xs ih =>
    simp only [List.cons_append, val_cons, ih, List.length_cons, Nat.pow_succ]
    rw [Nat.mul_add, ← Nat.mul_assoc, Nat.mul_comm B (B ^ xs.length)]
    omega

theorem WF_append {a b : List Nat} (ha : WF a) (hb : WF b) : WF (a ++ b) := by
  intro x hx
  rcases List.mem_append.mp hx with h | h
  · exact ha x h
  · exact hb x h

theorem WF_drop {l : List Nat} (h : WF l) (k : Nat) : WF (l.drop k) :=
  fun x hx => h x (List.mem_of_mem_drop hx)
theorem WF_take {l : List Nat} (h : WF l) (k : Nat) : WF (l.take k) :=
  fun x hx => h x (List.mem_of_mem_take hx)

theorem uzero_drop (n k : Nat) : (uzero n).drop k = uzero (n - k) := by
  simp [uzero, List.drop_replicate]

theorem uzero_length (n : Nat) : (uzero n).length = n := by simp [uzero]

/-! ### `lowLoop` = `Uint::try_random` = the low limbs of a candidate -/

/-- complete description of `lowLoop k`: it fails exactly when fewer than `8k` bytes remain (having
    consumed every whole word before the failure), otherwise returns the `k` words whose value is the
    next `8k` bytes read little-endian -/
theorem lowLoop_spec (k : Nat) (r : Rng) (hr : WFB r.rest) :
    (8 * k ≤ r.rest.length →
      ∃ ws r', lowLoop k r = .ok ws r' ∧ ws.length = k ∧ WF ws ∧
        val ws = leBytes (r.rest.take (8 * k)) ∧ r'.rest = r.rest.drop (8 * k) ∧
        r'.used = r.used + 8 * k) ∧
    (r.rest.length < 8 * k →
      ∃ r', lowLoop k r = .rngErr r' ∧ r'.used = r.used + 8 * (r.rest.length / 8) ∧
        r'.rest.length < 8) := by
  induction k generalizing r with
  | zero =>
    refine ⟨fun _ => ⟨[], r, rfl, rfl, WF_nil, by simp, by simp, by simp⟩, fun h => by omega⟩
  | succ k ih =>
    constructor
    · intro hlen
      have h8 : 8 ≤ r.rest.length := by omega
      have hr' : WFB (r.rest.drop 8) := WFB_drop hr 8
      have hl' : 8 * k ≤ (r.rest.drop 8).length := by simp [List.length_drop]; omega
      have ⟨ws, r', e, l, w, v, rs, us⟩ := (ih ⟨r.rest.drop 8, r.used + 8⟩ hr').1 hl'
      refine ⟨leBytes (r.rest.take 8) :: ws, r', ?_, by simp [l], ?_, ?_, ?_, ?_⟩
      · simp only [lowLoop, nextU64_eq_some h8, e]
      · exact WF_cons.mpr ⟨word_of_8_bytes hr, w⟩
      · simp only [val_cons, v]
        have : 8 * (k + 1) = 8 + 8 * k := by omega
        rw [this, List.take_add, leBytes_append]
        have : (r.rest.take 8).length = 8 := by simp [List.length_take]; omega
        rw [this, ← B_eq_256_pow]
      · simp only [rs, List.drop_drop]; congr 1; omega
      · simp only [us]; omega
    · intro hlen
      by_cases h8 : 8 ≤ r.rest.length
      · have hr' : WFB (r.rest.drop 8) := WFB_drop hr 8
        have hl' : (r.rest.drop 8).length < 8 * k := by simp [List.length_drop]; omega
        have ⟨r', e, us, rl⟩ := (ih ⟨r.rest.drop 8, r.used + 8⟩ hr').2 hl'
        refine ⟨r', ?_, ?_, rl⟩
        · simp only [lowLoop, nextU64_eq_some h8, e]
        · simp only [us, List.length_drop]; omega
      · refine ⟨r, ?_, ?_, by omega⟩
        · simp only [lowLoop, nextU64_eq_none (Nat.lt_of_not_le h8)]
        · have : r.rest.length / 8 = 0 := Nat.div_eq_of_lt (Nat.lt_of_not_le h8)
          omega

theorem lowLoop_WFB {k : Nat} {r r' : Rng} {ws : List Nat} (hr : WFB r.rest)
    (h : lowLoop k r = .ok ws r') : WFB r'.rest := by
  by_cases hl : 8 * k ≤ r.rest.length
  · have ⟨ws', r'', e, _, _, _, rs, _⟩ := (lowLoop_spec k r hr).1 hl
    rw [e] at h; cases h
    rw [rs]; exact WFB_drop hr _
  · have ⟨r'', e, _⟩ := (lowLoop_spec k r hr).2 (Nat.lt_of_not_le hl)
    rw [e] at h; cases h

/-! ### `random_mod_core`: the limb-level loop refines the value-level rejection sampler -/

/-- observable part of an outcome: value and total bytes consumed -/
def toSpec : Out (List Nat) → Option (Nat × Nat)
  | .ok v r => some (val v, r.used)
  | .rngErr _ => none
  | .fuel => none

/-- standing assumptions of the loop: `m` well formed, `1 ≤ nl ≤ LIMBS`, the mask keeps `b ≤ 64` bits -/
structure ModCtx (m : List Nat) (nl msk b : Nat) : Prop where
  wf : WF m
  nl1 : 1 ≤ nl
  nlN : nl ≤ m.length
  b64 : b ≤ 64
  msk : ∀ x, x &&& msk = x % 2 ^ b

theorem mod_two_pow_lt_B {b : Nat} (hb : b ≤ 64) (x : Nat) : x % 2 ^ b < B := by
  have h1 : x % 2 ^ b < 2 ^ b := Nat.mod_lt _ (Nat.two_pow_pos _)
  have h2 : 2 ^ b ≤ 2 ^ 64 := Nat.pow_le_pow_right (by decide) hb
  rw [B_eq_pow]; omega

/-- the candidate assembled in the output buffer -/
theorem cand_facts {m : List Nat} {nl : Nat} {n ws : List Nat} {hi : Nat}
    (h1 : 1 ≤ nl) (hN : nl ≤ m.length)
    (hn : n.length = m.length) (ht : n.drop nl = uzero (m.length - nl))
    (hws : ws.length = nl - 1) (hwf : WF ws) (hhi : hi < B) :
    (ws ++ hi :: n.drop nl).length = m.length ∧ WF (ws ++ hi :: n.drop nl) ∧
    val (ws ++ hi :: n.drop nl) = val ws + B ^ (nl - 1) * hi ∧
    (ws ++ hi :: n.drop nl).drop nl = uzero (m.length - nl) := by
  refine ⟨?_, ?_, ?_, ?_⟩
  · simp only [List.length_append, List.length_cons, List.length_drop, hws, hn]; omega
  · apply WF_append hwf
    rw [ht]
    exact WF_cons.mpr ⟨hhi, uzero_WF _⟩
  · rw [val_append, val_cons, ht, val_uzero, hws]; simp
  · have : nl = ws.length + 1 := by omega
    rw [this, List.drop_append, List.drop_eq_nil_of_le (by omega)]
    simp only [List.nil_append, Nat.add_sub_cancel_left, List.drop_succ_cons, List.drop_zero]
    rw [← this]; exact ht

theorem modLoop_refines {m : List Nat} {nl msk b : Nat} (mhi : Nat) (ctx : ModCtx m nl msk b)
    (f : Nat) (n : List Nat) (hi : Nat) (r : Rng)
    (hn : n.length = m.length) (ht : n.drop nl = uzero (m.length - nl))
    (hhi : hi < B) (hr : WFB r.rest) :
    toSpec (modLoop f m nl mhi msk n hi r) = specModLoop (val m) nl mhi b f hi r.rest r.used := by
  induction f generalizing n hi r with
  | zero => rfl
  | succ f ih =>
    unfold modLoop specModLoop
    by_cases hgt : hi > mhi
    · simp only [hgt, if_true]
      by_cases h8 : 8 ≤ r.rest.length
      · rw [nextU64_eq_some h8]
        simp only [specDraw, Nat.not_lt.mpr h8, if_false]
        rw [ctx.msk]
        exact ih n _ ⟨r.rest.drop 8, r.used + 8⟩ hn ht (mod_two_pow_lt_B ctx.b64 _) (WFB_drop hr 8)
      · rw [nextU64_eq_none (Nat.lt_of_not_le h8)]
        simp only [specDraw, Nat.lt_of_not_le h8, if_true]
        rfl
    · simp only [hgt, if_false]
      by_cases hl : 8 * (nl - 1) ≤ r.rest.length
      · have ⟨ws, r2, e, wl, wwf, wv, rs, us⟩ := (lowLoop_spec (nl - 1) r hr).1 hl
        have ⟨cl, cwf, cv, cd⟩ := cand_facts ctx.nl1 ctx.nlN hn ht wl wwf hhi
        rw [e]
        simp only [Nat.not_lt.mpr hl, if_false]
        rw [← wv, ← cv]
        by_cases hacc : val (ws ++ hi :: n.drop nl) < val m
        · simp only [(ult_spec cwf ctx.wf cl).mpr hacc, hacc, if_true]
          simp only [toSpec, us]
        · have hna : ¬ choiceBit (ult (ws ++ hi :: n.drop nl) m) = 1 :=
            fun hc => hacc ((ult_spec cwf ctx.wf cl).mp hc)
          simp only [hna, hacc, if_false]
          have hr2 : WFB r2.rest := by rw [rs]; exact WFB_drop hr _
          by_cases h8 : 8 ≤ r2.rest.length
          · rw [nextU64_eq_some h8]
            have h8' : ¬ (r.rest.drop (8 * (nl - 1))).length < 8 := by rw [← rs]; omega
            simp only [specDraw, h8', if_false]
            rw [ctx.msk]
            have := ih (ws ++ hi :: n.drop nl) (leBytes (r2.rest.take 8) % 2 ^ b)
              ⟨r2.rest.drop 8, r2.used + 8⟩ cl cd (mod_two_pow_lt_B ctx.b64 _) (WFB_drop hr2 8)
            rw [this]
            simp only [rs, us]
          · rw [nextU64_eq_none (Nat.lt_of_not_le h8)]
            have h8' : (r.rest.drop (8 * (nl - 1))).length < 8 := by rw [← rs]; omega
            simp only [specDraw, h8', if_true]
            rfl
      · have ⟨r2, e, _, _⟩ := (lowLoop_spec (nl - 1) r hr).2 (Nat.lt_of_not_le hl)
        rw [e]
        simp only [Nat.lt_of_not_le hl, if_true]
        rfl

/-- shape of an accepted result: a well-formed value of the modulus' width -/
theorem modLoop_ok_shape {m : List Nat} {nl msk b : Nat} (mhi : Nat) (ctx : ModCtx m nl msk b)
    (f : Nat) (n : List Nat) (hi : Nat) (r : Rng)
    (hn : n.length = m.length) (ht : n.drop nl = uzero (m.length - nl))
    (hhi : hi < B) (hr : WFB r.rest) {v : List Nat} {r' : Rng}
    (h : modLoop f m nl mhi msk n hi r = .ok v r') :
    v.length = m.length ∧ WF v ∧ val v < val m ∧ WFB r'.rest := by
  induction f generalizing n hi r with
  | zero => simp [modLoop] at h
  | succ f ih =>
    unfold modLoop at h
    by_cases hgt : hi > mhi
    · simp only [hgt, if_true] at h
      by_cases h8 : 8 ≤ r.rest.length
      · rw [nextU64_eq_some h8] at h; simp only at h; rw [ctx.msk] at h
        exact ih n _ ⟨r.rest.drop 8, r.used + 8⟩ hn ht (mod_two_pow_lt_B ctx.b64 _) (WFB_drop hr 8) h
      · rw [nextU64_eq_none (Nat.lt_of_not_le h8)] at h; cases h
    · simp only [hgt, if_false] at h
      by_cases hl : 8 * (nl - 1) ≤ r.rest.length
      · have ⟨ws, r2, e, wl, wwf, wv, rs, us⟩ := (lowLoop_spec (nl - 1) r hr).1 hl
        have ⟨cl, cwf, cv, cd⟩ := cand_facts ctx.nl1 ctx.nlN hn ht wl wwf hhi
        have hr2 : WFB r2.rest := by rw [rs]; exact WFB_drop hr _
        rw [e] at h
        simp only at h
        by_cases hacc : choiceBit (ult (ws ++ hi :: n.drop nl) m) = 1
        · simp only [hacc, if_true] at h
          cases h
          exact ⟨cl, cwf, (ult_spec cwf ctx.wf cl).mp hacc, hr2⟩
        · simp only [hacc, if_false] at h
          by_cases h8 : 8 ≤ r2.rest.length
          · rw [nextU64_eq_some h8] at h; simp only at h; rw [ctx.msk] at h
            exact ih _ _ ⟨r2.rest.drop 8, r2.used + 8⟩ cl cd (mod_two_pow_lt_B ctx.b64 _)
              (WFB_drop hr2 8) h
          · rw [nextU64_eq_none (Nat.lt_of_not_le h8)] at h; cases h
      · have ⟨r2, e, _, _⟩ := (lowLoop_spec (nl - 1) r hr).2 (Nat.lt_of_not_le hl)
        rw [e] at h; cases h

/-- the loop never runs out of fuel when `fuel > remaining bytes` (every iteration draws a word) -/
theorem modLoop_fuel (m : List Nat) (nl mhi msk : Nat) (f : Nat) (n : List Nat) (hi : Nat) (r : Rng)
    (hr : WFB r.rest) (hf : r.rest.length < f) : modLoop f m nl mhi msk n hi r ≠ .fuel := by
  induction f generalizing n hi r with
  | zero => omega
  | succ f ih =>
    unfold modLoop
    by_cases hgt : hi > mhi
    · simp only [hgt, if_true]
      by_cases h8 : 8 ≤ r.rest.length
      · rw [nextU64_eq_some h8]
        exact ih n _ ⟨r.rest.drop 8, r.used + 8⟩ (WFB_drop hr 8) (by simp [List.length_drop]; omega)
      · rw [nextU64_eq_none (Nat.lt_of_not_le h8)]; intro h; cases h
    · simp only [hgt, if_false]
      by_cases hl : 8 * (nl - 1) ≤ r.rest.length
      · have ⟨ws, r2, e, _, _, _, rs, _⟩ := (lowLoop_spec (nl - 1) r hr).1 hl
        have hr2 : WFB r2.rest := by rw [rs]; exact WFB_drop hr _
        rw [e]
        simp only
        split
        · intro h; cases h
        · by_cases h8 : 8 ≤ r2.rest.length
          · rw [nextU64_eq_some h8]
            refine ih _ _ ⟨r2.rest.drop 8, r2.used + 8⟩ (WFB_drop hr2 8) ?_
            have hlen : r2.rest.length = r.rest.length - 8 * (nl - 1) := by rw [rs, List.length_drop]
            simp only [List.length_drop]; omega
          · rw [nextU64_eq_none (Nat.lt_of_not_le h8)]; intro h; cases h
      · have ⟨r2, e, _, _⟩ := (lowLoop_spec (nl - 1) r hr).2 (Nat.lt_of_not_le hl)
        rw [e]; intro h; cases h

/-! ### the parameters `random_mod_core` derives from the modulus -/

theorem B_pow (k : Nat) : B ^ k = 2 ^ (64 * k) := by rw [B_eq_pow, ← Nat.pow_mul]

theorem getD_val {l : List Nat} (h : WF l) (i : Nat) : l.getD i 0 = val l / B ^ i % B := by
  induction l generalizing i with
  | nil => simp
  | cons x xs ih =>
    have ⟨hx, hxs⟩ := WF_cons.mp h
    cases i with
    | zero =>
      simp only [List.getD_cons_zero, val_cons, Nat.pow_zero, Nat.div_one]
      rw [Nat.add_mul_mod_self_left, Nat.mod_eq_of_lt hx]
    | succ i =>
      simp only [List.getD_cons_succ, val_cons, Nat.pow_succ]
      rw [ih hxs i, Nat.mul_comm (B ^ i) B, ← Nat.div_div_eq_div_mul,
        Nat.add_mul_div_left _ _ B_pos, Nat.div_eq_of_lt hx, Nat.zero_add]

/-- number of significant limbs: `n_bits.div_ceil(Limb::BITS)` -/
def nLimbs (x : Nat) : Nat := (bitLen x + 63) / 64

theorem nLimbs_facts {x : Nat} (hx : x ≠ 0) :
    1 ≤ nLimbs x ∧ x < B ^ nLimbs x ∧ B ^ (nLimbs x - 1) ≤ x := by
  have hp := bitLen_pos hx
  have h1 := lt_two_pow_bitLen x
  have h2 := two_pow_bitLen_le hx
  unfold nLimbs
  refine ⟨by omega, ?_, ?_⟩
  · rw [B_pow]
    exact Nat.lt_of_lt_of_le h1 (Nat.pow_le_pow_right (by decide) (by omega))
  · rw [B_pow]
    exact Nat.le_trans (Nat.pow_le_pow_right (by decide) (by omega)) h2

theorem nLimbs_le {x n : Nat} (h : x < B ^ n) : nLimbs x ≤ n := by
  rw [B_pow] at h
  have := bitLen_le h
  unfold nLimbs; omega

/-- the top significant limb, as a list element and as a quotient; it is a non-zero word -/
theorem mhi_facts {m : List Nat} (hm : WF m) (h0 : val m ≠ 0) :
    m.getD (nLimbs (val m) - 1) 0 = val m / B ^ (nLimbs (val m) - 1) ∧
    val m / B ^ (nLimbs (val m) - 1) < B ∧ 0 < val m / B ^ (nLimbs (val m) - 1) := by
  have ⟨h1, h2, h3⟩ := nLimbs_facts h0
  have hpos : 0 < B ^ (nLimbs (val m) - 1) := Nat.pow_pos B_pos
  have hlt : val m / B ^ (nLimbs (val m) - 1) < B := by
    rw [Nat.div_lt_iff_lt_mul hpos, Nat.mul_comm, ← Nat.pow_succ]
    have : (nLimbs (val m) - 1).succ = nLimbs (val m) := by omega
    rw [this]; exact h2
  refine ⟨?_, hlt, Nat.div_pos h3 hpos⟩
  rw [getD_val hm, Nat.mod_eq_of_lt hlt]

theorem modCtx_of {m : List Nat} (hm : WF m) (h0 : val m ≠ 0) :
    ModCtx m (nLimbs (val m)) (WMAX >>> leadingZeros64 (m.getD (nLimbs (val m) - 1) 0))
      (bitLen (m.getD (nLimbs (val m) - 1) 0)) := by
  have ⟨h1, _, _⟩ := nLimbs_facts h0
  have ⟨e, hlt, _⟩ := mhi_facts hm h0
  have hw : m.getD (nLimbs (val m) - 1) 0 < B := by rw [e]; exact hlt
  exact ⟨hm, h1, nLimbs_le (val_lt hm), bitLen_le (by rw [← B_eq_pow]; exact hw),
    fun x => and_mask_eq x hw⟩

theorem boxedBits_eq {m : List Nat} (hm : WF m) : boxedBits m = bitsVartime m := by
  have := val_lt hm
  rw [B_pow] at this
  have := bitLen_le this
  unfold boxedBits bitsVartime
  omega

theorem zeroWithPrecision_limbs {n : Nat} (hn : 1 ≤ n) : zeroWithPrecision (64 * n) = uzero n := by
  unfold zeroWithPrecision
  have : (64 * n + 63) / 64 = n := by omega
  simp only [this]
  have : ¬ n = 0 := by omega
  simp [this]

/-! ### `random_bits_core` -/

theorem wmax_shr {b : Nat} (hb : b ≤ 64) : WMAX >>> (64 - b) = 2 ^ b - 1 := by
  rw [Nat.shiftRight_eq_div_pow]
  have h3 : 0 < 2 ^ (64 - b) := Nat.two_pow_pos _
  have e : WMAX = 2 ^ (64 - b) * (2 ^ b - 1) + (2 ^ (64 - b) - 1) := by
    have h1 : 2 ^ (64 - b) * 2 ^ b = 2 ^ 64 := by
      rw [← Nat.pow_add]; congr 1; omega
    have h2 : 0 < 2 ^ b := Nat.two_pow_pos _
    rw [Nat.mul_sub, Nat.mul_one, h1, WMAX_def]
    have : 2 ^ (64 - b) ≤ 2 ^ 64 := Nat.pow_le_pow_right (by decide) (by omega)
    omega
  rw [e, Nat.mul_add_div h3, Nat.div_eq_of_lt (by omega), Nat.add_zero]

/-- effective bit count of the top limb: `64` when `bit_length` is a multiple of 64 -/
def topBits (bl : Nat) : Nat := if bl % 64 = 0 then 64 else bl % 64

theorem bits_mask_eq (bl x : Nat) : x &&& (WMAX >>> ((64 - bl % 64) % 64)) = x % 2 ^ topBits bl := by
  unfold topBits
  by_cases h : bl % 64 = 0
  · simp only [h, if_true]
    have : WMAX >>> ((64 - 0) % 64) = 2 ^ 64 - 1 := by decide
    rw [this, Nat.and_two_pow_sub_one_eq_mod]
  · simp only [h, if_false]
    have hlt : bl % 64 < 64 := Nat.mod_lt _ (by decide)
    have : (64 - bl % 64) % 64 = 64 - bl % 64 := Nat.mod_eq_of_lt (by omega)
    rw [this, wmax_shr (by omega), Nat.and_two_pow_sub_one_eq_mod]

theorem bits_value (a K x P : Nat) (ha : a < K) : a + K * (x % P) = (a + K * x) % (K * P) := by
  have hK : 0 < K := by omega
  rw [Nat.mod_mul, Nat.add_mul_mod_self_left, Nat.mod_eq_of_lt ha, Nat.add_mul_div_left _ _ hK,
    Nat.div_eq_of_lt ha, Nat.zero_add]

theorem mod_drop_high (x y : Nat) {p : Nat} (hp : p ≤ 32) : (x + 2 ^ 32 * y) % 2 ^ p = x % 2 ^ p := by
  have : 2 ^ 32 = 2 ^ p * 2 ^ (32 - p) := by rw [← Nat.pow_add]; congr 1; omega
  rw [this, Nat.mul_assoc, Nat.add_mul_mod_self_left]

theorem bitsFullLoop_spec (k : Nat) (buf : List Nat) (r : Rng) (hb : buf.length = 8) :
    (8 * k ≤ r.rest.length →
      ∃ wb r', bitsFullLoop k buf r = .ok wb r' ∧ wb.1.length = k ∧
        (WFB r.rest → WF wb.1) ∧
        val wb.1 = leBytes (r.rest.take (8 * k)) ∧ wb.2.length = 8 ∧
        r'.rest = r.rest.drop (8 * k) ∧ r'.used = r.used + 8 * k) ∧
    (r.rest.length < 8 * k →
      ∃ r', bitsFullLoop k buf r = .rngErr r' ∧ r'.used = r.used + 8 * (r.rest.length / 8)) := by
  induction k generalizing r buf with
  | zero =>
    refine ⟨fun _ => ⟨([], buf), r, rfl, rfl, fun _ => WF_nil, by simp, hb, by simp, by simp⟩,
      fun h => by omega⟩
  | succ k ih =>
    constructor
    · intro hlen
      have h8 : 8 ≤ r.rest.length := by omega
      have hb' : (r.rest.take 8).length = 8 := by simp [List.length_take]; omega
      have hl' : 8 * k ≤ (r.rest.drop 8).length := by simp [List.length_drop]; omega
      have ⟨wb, r', e, l, w, v, bl, rs, us⟩ :=
        (ih (r.rest.take 8) ⟨r.rest.drop 8, r.used + 8⟩ hb').1 hl'
      refine ⟨(leBytes (r.rest.take 8) :: wb.1, wb.2), r', ?_, by simp [l], ?_, ?_, bl, ?_, ?_⟩
      · simp only [bitsFullLoop, take_eq_some h8, e]
      · intro hr
        exact WF_cons.mpr ⟨word_of_8_bytes hr, w (WFB_drop hr 8)⟩
      · simp only [val_cons, v]
        have : 8 * (k + 1) = 8 + 8 * k := by omega
        rw [this, List.take_add, leBytes_append, hb', ← B_eq_256_pow]
      · simp only [rs, List.drop_drop]; congr 1; omega
      · simp only [us]; omega
    · intro hlen
      by_cases h8 : 8 ≤ r.rest.length
      · have hb' : (r.rest.take 8).length = 8 := by simp [List.length_take]; omega
        have hl' : (r.rest.drop 8).length < 8 * k := by simp [List.length_drop]; omega
        have ⟨r', e, us⟩ := (ih (r.rest.take 8) ⟨r.rest.drop 8, r.used + 8⟩ hb').2 hl'
        refine ⟨r', ?_, ?_⟩
        · simp only [bitsFullLoop, take_eq_some h8, e]
        · simp only [us, List.length_drop]; omega
      · refine ⟨r, ?_, ?_⟩
        · simp only [bitsFullLoop, take_eq_none_iff.mpr (Nat.lt_of_not_le h8)]
        · have : r.rest.length / 8 = 0 := Nat.div_eq_of_lt (Nat.lt_of_not_le h8)
          omega

/-- number of bytes of the last refill (the 4-byte tail rule) -/
def tailBytes (bl : Nat) : Nat := if bl % 64 > 0 ∧ bl % 64 ≤ 32 then 4 else 8

theorem bitsBytes_pos {bl : Nat} (h : bl ≠ 0) : bitsBytes bl = 8 * ((bl + 63) / 64 - 1) + tailBytes bl := by
  unfold bitsBytes tailBytes; simp [h]

theorem randomBitsCore_spec (r : Rng) (hr : WFB r.rest) (N bl : Nat) (hbl : bl ≤ 64 * N) :
    (bitsBytes bl ≤ r.rest.length →
      ∃ v r', randomBitsCore r (uzero N) bl = .ok v r' ∧ v.length = N ∧ WF v ∧
        val v = leBytes (r.rest.take (bitsBytes bl)) % 2 ^ bl ∧
        r'.used = r.used + bitsBytes bl ∧ r'.rest = r.rest.drop (bitsBytes bl)) ∧
    (r.rest.length < bitsBytes bl →
      ∃ r', randomBitsCore r (uzero N) bl = .rngErr r' ∧
        r'.used = r.used + 8 * min ((bl + 63) / 64 - 1) (r.rest.length / 8)) := by
  by_cases h0 : bl = 0
  · subst h0
    refine ⟨fun _ => ⟨uzero N, r, by simp [randomBitsCore], uzero_length N, uzero_WF N, ?_, ?_, ?_⟩,
      fun h => ?_⟩
    · simp [val_uzero, bitsBytes]
    · simp [bitsBytes]
    · simp [bitsBytes]
    · simp [bitsBytes] at h
  · have hbb := bitsBytes_pos h0
    have hnz1 : 1 ≤ (bl + 63) / 64 := by omega
    have hnzN : (bl + 63) / 64 ≤ N := by omega
    have hbuf : ([0, 0, 0, 0, 0, 0, 0, 0] : List Nat).length = 8 := rfl
    unfold randomBitsCore
    simp only [h0, if_false]
    constructor
    · intro hlen
      have hl1 : 8 * ((bl + 63) / 64 - 1) ≤ r.rest.length := by omega
      have ⟨wb, r1, e, wl, wwf, wv, bufl, rs, us⟩ := (bitsFullLoop_spec _ _ r hbuf).1 hl1
      rw [e]
      have hk : tailBytes bl ≤ r1.rest.length := by rw [rs, List.length_drop]; omega
      have hk' : (if bl % 64 > 0 ∧ bl % 64 ≤ 32 then 4 else 8) = tailBytes bl := rfl
      simp only [hk', take_eq_some hk]
      refine ⟨_, _, rfl, ?_, ?_, ?_, ?_, ?_⟩
      · simp only [List.length_append, List.length_cons, wl, uzero_drop, uzero_length]; omega
      · apply WF_append (wwf hr)
        rw [uzero_drop]
        refine WF_cons.mpr ⟨?_, uzero_WF _⟩
        rw [bits_mask_eq]
        exact mod_two_pow_lt_B (by unfold topBits; split <;> omega) _
      · rw [val_append, val_cons, uzero_drop, val_uzero, wl, bits_mask_eq, Nat.mul_zero, Nat.add_zero]
        try rw [Nat.add_zero]
        -- the last word: only its low `topBits` bits matter
        have hlast : leBytes (r1.rest.take (tailBytes bl) ++ wb.2.drop (tailBytes bl)) % 2 ^ topBits bl
            = leBytes (r1.rest.take (tailBytes bl)) % 2 ^ topBits bl := by
          unfold tailBytes topBits
          by_cases hp : bl % 64 > 0 ∧ bl % 64 ≤ 32
          · have hne : ¬ bl % 64 = 0 := by omega
            simp only [hp, hne, if_true, if_false, and_self]
            rw [leBytes_append]
            have : (r1.rest.take 4).length = 4 := by
              have : 4 ≤ r1.rest.length := by
                have := hk; unfold tailBytes at this; simp only [hp, and_self, if_true] at this; exact this
              simp [List.length_take]; omega
            rw [this]
            have : (256 : Nat) ^ 4 = 2 ^ 32 := by decide
            rw [this]
            exact mod_drop_high _ _ hp.2
          · simp only [hp, if_false]
            have : wb.2.drop 8 = [] := List.drop_eq_nil_of_le (by omega)
            rw [this, List.append_nil]
        rw [hlast, wv]
        have ha : leBytes (r.rest.take (8 * ((bl + 63) / 64 - 1))) < B ^ ((bl + 63) / 64 - 1) := by
          have := leBytes_lt (WFB_take hr (8 * ((bl + 63) / 64 - 1)))
          have hl : (r.rest.take (8 * ((bl + 63) / 64 - 1))).length = 8 * ((bl + 63) / 64 - 1) := by
            simp [List.length_take]; omega
          rw [hl, Nat.pow_mul, ← B_eq_256_pow] at this
          exact this
        simp only [Nat.add_zero]
        rw [bits_value _ _ _ _ ha]
        have hpow : B ^ ((bl + 63) / 64 - 1) * 2 ^ topBits bl = 2 ^ bl := by
          rw [B_pow, ← Nat.pow_add]; congr 1
          unfold topBits; split <;> omega
        rw [hpow, hbb, List.take_add, leBytes_append]
        have hl : (r.rest.take (8 * ((bl + 63) / 64 - 1))).length = 8 * ((bl + 63) / 64 - 1) := by
          simp [List.length_take]; omega
        rw [hl, Nat.pow_mul, ← B_eq_256_pow, rs]
      · simp only [us, hbb]; omega
      · simp only [rs, hbb, List.drop_drop]
    · intro hlen
      by_cases hl1 : 8 * ((bl + 63) / 64 - 1) ≤ r.rest.length
      · have ⟨wb, r1, e, wl, wwf, wv, bufl, rs, us⟩ := (bitsFullLoop_spec _ _ r hbuf).1 hl1
        rw [e]
        have hk : r1.rest.length < tailBytes bl := by rw [rs, List.length_drop]; omega
        have hk' : (if bl % 64 > 0 ∧ bl % 64 ≤ 32 then 4 else 8) = tailBytes bl := rfl
        simp only [hk', take_eq_none_iff.mpr hk]
        refine ⟨r1, rfl, ?_⟩
        have ht : tailBytes bl ≤ 8 := by unfold tailBytes; split <;> omega
        have : min ((bl + 63) / 64 - 1) (r.rest.length / 8) = (bl + 63) / 64 - 1 := by
          apply Nat.min_eq_left
          rw [Nat.le_div_iff_mul_le (by decide)]; omega
        rw [us, this]
      · have ⟨r1, e, us⟩ := (bitsFullLoop_spec _ _ r hbuf).2 (Nat.lt_of_not_le hl1)
        rw [e]
        refine ⟨r1, rfl, ?_⟩
        have : min ((bl + 63) / 64 - 1) (r.rest.length / 8) = r.rest.length / 8 := by
          apply Nat.min_eq_right
          have : r.rest.length / 8 < (bl + 63) / 64 - 1 := by
            rw [Nat.div_lt_iff_lt_mul (by decide)]; omega
          omega
        rw [us, this]

/-! ### `NonZero` / `Odd` -/

theorem nonZeroLoop_ok {α : Type} (gen : Rng → Out α) (isZero : α → Bool) (f : Nat) (r : Rng)
    {v : α} {r' : Rng} (h : nonZeroLoop gen isZero f r = .ok v r') : isZero v = false := by
  induction f generalizing r with
  | zero => simp [nonZeroLoop] at h
  | succ f ih =>
    unfold nonZeroLoop at h
    split at h
    · rename_i v1 r1 _
      by_cases hz : isZero v1 = true
      · simp only [hz, if_true] at h; exact ih r1 h
      · simp only [hz] at h
        cases h
        simpa using hz
    · cases h
    · cases h

theorem nonZeroLoop_skip {α : Type} {gen : Rng → Out α} {isZero : α → Bool} {f : Nat} {r r1 : Rng}
    {v : α} (hg : gen r = .ok v r1) (hz : isZero v = true) :
    nonZeroLoop gen isZero (f + 1) r = nonZeroLoop gen isZero f r1 := by
  simp only [nonZeroLoop, hg, hz, if_true]

theorem nonZeroLoop_hit {α : Type} {gen : Rng → Out α} {isZero : α → Bool} {f : Nat} {r r1 : Rng}
    {v : α} (hg : gen r = .ok v r1) (hz : isZero v = false) :
    nonZeroLoop gen isZero (f + 1) r = .ok v r1 := by
  simp [nonZeroLoop, hg, hz]

/-- `NonZero::<Uint>::random` returns the first non-zero candidate and consumes exactly `i+1`
    candidates when that one is at position `i` -/
theorem nonZeroUint_first (N : Nat) (i : Nat) (fuel : Nat) (r : Rng) (hr : WFB r.rest)
    (hz : ∀ j, j < i → leBytes ((r.rest.drop (8 * N * j)).take (8 * N)) = 0)
    (hnz : leBytes ((r.rest.drop (8 * N * i)).take (8 * N)) ≠ 0)
    (hlen : 8 * N * (i + 1) ≤ r.rest.length) (hf : i < fuel) :
    ∃ v r', nonZeroUintRandom fuel r N = .ok v r' ∧ v.length = N ∧ WF v ∧
      val v = leBytes ((r.rest.drop (8 * N * i)).take (8 * N)) ∧
      r'.used = r.used + 8 * N * (i + 1) := by
  induction i generalizing r fuel with
  | zero =>
    cases fuel with
    | zero => omega
    | succ f =>
      have ⟨ws, r1, e, wl, wwf, wv, _, us⟩ := (lowLoop_spec N r hr).1 (by omega)
      simp only [Nat.mul_zero, List.drop_zero] at hnz
      refine ⟨ws, r1, ?_, wl, wwf, by simpa using wv, by rw [us]; omega⟩
      unfold nonZeroUintRandom
      apply nonZeroLoop_hit (v := ws) (r1 := r1) e
      rw [wv]; simpa using hnz
  | succ i ih =>
    cases fuel with
    | zero => omega
    | succ f =>
      have hl0 : 8 * N ≤ r.rest.length := by
        have : 8 * N * (i + 1 + 1) = 8 * N + 8 * N * (i + 1) := by
          rw [Nat.mul_add (8 * N) (i + 1) 1]; omega
        omega
      have ⟨ws, r1, e, wl, wwf, wv, rs, us⟩ := (lowLoop_spec N r hr).1 hl0
      have hz0 := hz 0 (by omega)
      simp only [Nat.mul_zero, List.drop_zero] at hz0
      have hskip : nonZeroUintRandom (f + 1) r N = nonZeroUintRandom f r1 N := by
        unfold nonZeroUintRandom
        apply nonZeroLoop_skip (v := ws) e
        rw [wv, hz0]; rfl
      have hshift : ∀ j, (r1.rest.drop (8 * N * j)) = r.rest.drop (8 * N * (j + 1)) := by
        intro j
        rw [rs, List.drop_drop]; congr 1
        rw [Nat.mul_add (8 * N) j 1]; omega
      have hr1 : WFB r1.rest := by rw [rs]; exact WFB_drop hr _
      have ⟨v, r', e2, vl, vwf, vv, vus⟩ := ih f r1 hr1
        (fun j hj => by rw [hshift]; exact hz (j + 1) (by omega))
        (by rw [hshift]; exact hnz)
        (by
          rw [rs, List.length_drop]
          have : 8 * N * (i + 1 + 1) = 8 * N + 8 * N * (i + 1) := by
            rw [Nat.mul_add (8 * N) (i + 1) 1]; omega
          omega)
        (by omega)
      refine ⟨v, r', by rw [hskip]; exact e2, vl, vwf, by rw [vv, hshift], ?_⟩
      rw [vus, us]
      have : 8 * N * (i + 1 + 1) = 8 * N + 8 * N * (i + 1) := by
        rw [Nat.mul_add (8 * N) (i + 1) 1]; omega
      omega

theorem or_one_eq (x : Nat) : x ||| 1 = 2 * (x / 2) + 1 := by
  have h1 : (x ||| 1) % 2 = 1 := Nat.or_mod_two_eq_one.mpr (Or.inr rfl)
  have h2 : (x ||| 1) / 2 = x / 2 := by
    rw [Nat.or_div_two]
    have : (1 : Nat) / 2 = 0 := by decide
    rw [this, Nat.or_zero]
  have := Nat.div_add_mod (x ||| 1) 2
  omega

theorem setLowBit_facts {v : List Nat} (hv : WF v) (hne : v ≠ []) :
    (setLowBit v).length = v.length ∧ WF (setLowBit v) ∧
    val (setLowBit v) = 2 * (val v / 2) + 1 := by
  cases v with
  | nil => exact absurd rfl hne
  | cons x xs =>
    have ⟨hx, hxs⟩ := WF_cons.mp hv
    have e := or_one_eq x
    refine ⟨rfl, ?_, ?_⟩
    · refine WF_cons.mpr ⟨?_, hxs⟩
      show x ||| 1 < B
      rw [e]; simp only [B_def] at *; omega
    · show (x ||| 1) + B * val xs = 2 * ((x + B * val xs) / 2) + 1
      rw [e]; simp only [B_def]; omega

/-! ### `Limb::random_mod`: the byte buffer stays an 8-byte word -/

theorem limbRefill_facts {nBytes msk : Nat} {bytes bs : List Nat}
    (hb : bytes.length = 8) (hbw : WFB bytes) (hs : bs.length = nBytes) (hsw : WFB bs) (hn : nBytes ≤ 8) :
    (limbRefill nBytes msk bytes bs).length = 8 ∧ WFB (limbRefill nBytes msk bytes bs) := by
  unfold limbRefill
  constructor
  · simp only [List.length_set, List.length_append, List.length_drop, hb, hs]; omega
  · intro x hx
    have hx' := List.mem_or_eq_of_mem_set hx
    rcases hx' with h | h
    · exact WFB_append hsw (WFB_drop hbw _) x h
    · rw [h]
      have hle : (bs ++ bytes.drop nBytes).getD (nBytes - 1) 0 &&& msk ≤
          (bs ++ bytes.drop nBytes).getD (nBytes - 1) 0 := Nat.and_le_left
      have hlt : (bs ++ bytes.drop nBytes).getD (nBytes - 1) 0 < 256 := by
        rw [List.getD_eq_getElem?_getD]
        cases hg : (bs ++ bytes.drop nBytes)[nBytes - 1]? with
        | none => simp
        | some y =>
          simp only [Option.getD_some]
          exact WFB_append hsw (WFB_drop hbw _) y (List.mem_of_getElem? hg)
      omega

theorem limbModLoop_ok {f m nBytes msk : Nat} {bytes : List Nat} {r r' : Rng} {v : Nat}
    (hm : m < B) (hn : nBytes ≤ 8) (hb : bytes.length = 8) (hbw : WFB bytes) (hr : WFB r.rest)
    (h : limbModLoop f m nBytes msk bytes r = .ok v r') : v < m := by
  induction f generalizing bytes r with
  | zero => simp [limbModLoop] at h
  | succ f ih =>
    unfold limbModLoop at h
    by_cases hk : nBytes ≤ r.rest.length
    · rw [take_eq_some hk] at h
      simp only at h
      have hs : (r.rest.take nBytes).length = nBytes := by simp [List.length_take]; omega
      have ⟨fl, fw⟩ := limbRefill_facts (msk := msk) hb hbw hs (WFB_take hr _) hn
      have hlt : leBytes (limbRefill nBytes msk bytes (r.rest.take nBytes)) < B := by
        have := leBytes_lt fw
        rw [fl, ← B_eq_256_pow] at this; exact this
      by_cases hacc : choiceBit (fromWordLt (leBytes (limbRefill nBytes msk bytes (r.rest.take nBytes))) m) = 1
      · simp only [hacc, if_true] at h
        cases h
        rw [fromWordLt_spec hlt hm] at hacc
        by_cases hc : leBytes (limbRefill nBytes msk bytes (r.rest.take nBytes)) < m
        · exact hc
        · simp [hc, mask, choiceBit] at hacc
      · simp only [hacc, if_false] at h
        exact ih fl fw (WFB_drop hr _) h
    · rw [take_eq_none_iff.mpr (Nat.lt_of_not_le hk)] at h; cases h

/-! ### `Limb::random_mod` refines the byte-wise value-level sampler -/

theorem shr255 : ∀ t, t ≤ 8 → 255 >>> (8 - t) = 2 ^ t - 1 := by decide

def refillT (n msk : Nat) (tail bs : List Nat) : List Nat :=
  (bs ++ tail).set (n - 1) ((bs ++ tail).getD (n - 1) 0 &&& msk)

theorem limbRefill_eq (n msk : Nat) (bytes bs : List Nat) :
    limbRefill n msk bytes bs = refillT n msk (bytes.drop n) bs := rfl

theorem refillT_val {msk t : Nat} (hmsk : ∀ x, x &&& msk = x % 2 ^ t) (tail : List Nat)
    (hz : leBytes tail = 0) (bs : List Nat) (hne : bs ≠ []) (hw : WFB bs) :
    leBytes (refillT bs.length msk tail bs) = leBytes bs % (256 ^ (bs.length - 1) * 2 ^ t) := by
  induction bs with
  | nil => exact absurd rfl hne
  | cons b bs' ih =>
    have ⟨hb, hw'⟩ := WFB_cons.mp hw
    cases bs' with
    | nil =>
      simp [refillT, hmsk, hz]
    | cons c cs =>
      have := ih (by simp) hw'
      simp only [List.length_cons, Nat.add_sub_cancel] at this ⊢
      unfold refillT at this ⊢
      simp only [Nat.add_sub_cancel, List.cons_append, List.set_cons_succ,
        List.getD_cons_succ, leBytes_cons] at this ⊢
      rw [this]
      rw [bits_value _ _ _ _ hb, Nat.pow_succ, Nat.mul_comm (256 ^ cs.length) 256, Nat.mul_assoc]

def toSpecL : Out Nat → Option (Nat × Nat)
  | .ok v r => some (v, r.used)
  | .rngErr _ => none
  | .fuel => none

theorem limbModLoop_refines {m nBytes msk t nBits : Nat} (hm : m < B) (h1 : 1 ≤ nBytes)
    (hn : nBytes ≤ 8) (hmsk : ∀ x, x &&& msk = x % 2 ^ t)
    (hbits : 256 ^ (nBytes - 1) * 2 ^ t = 2 ^ nBits)
    (f : Nat) (bytes : List Nat) (hb : bytes.length = 8) (hbw : WFB bytes)
    (hz : leBytes (bytes.drop nBytes) = 0) (r : Rng) (hr : WFB r.rest) :
    toSpecL (limbModLoop f m nBytes msk bytes r) = specLimbModLoop m nBytes nBits f r.rest r.used := by
  induction f generalizing bytes r with
  | zero => rfl
  | succ f ih =>
    unfold limbModLoop specLimbModLoop
    by_cases hk : nBytes ≤ r.rest.length
    · rw [take_eq_some hk]
      simp only [Nat.not_lt.mpr hk, if_false]
      have hs : (r.rest.take nBytes).length = nBytes := by simp [List.length_take]; omega
      have hsw := WFB_take hr nBytes
      have hne : r.rest.take nBytes ≠ [] := by
        intro h; rw [h] at hs; simp at hs; omega
      have ⟨fl, fw⟩ := limbRefill_facts (msk := msk) hb hbw hs hsw hn
      have hv : leBytes (limbRefill nBytes msk bytes (r.rest.take nBytes))
          = leBytes (r.rest.take nBytes) % 2 ^ nBits := by
        rw [limbRefill_eq]
        have := refillT_val hmsk (bytes.drop nBytes) hz (r.rest.take nBytes) hne hsw
        rw [hs] at this
        rw [this, hbits]
      have hlt : leBytes (limbRefill nBytes msk bytes (r.rest.take nBytes)) < B := by
        have := leBytes_lt fw
        rw [fl, ← B_eq_256_pow] at this; exact this
      have hdrop : (limbRefill nBytes msk bytes (r.rest.take nBytes)).drop nBytes = bytes.drop nBytes := by
        unfold limbRefill
        rw [List.drop_set_of_lt (by omega), List.drop_append_of_le_length (by omega),
          List.drop_eq_nil_of_le (by omega), List.nil_append]
      rw [fromWordLt_spec hlt hm, hv]
      by_cases hacc : leBytes (r.rest.take nBytes) % 2 ^ nBits < m
      · simp [hacc, mask, choiceBit_WMAX, toSpecL]
      · simp only [hacc, decide_false, mask, if_false]
        have h01 : choiceBit (if false = true then WMAX else 0) = 1 ↔ False := by decide
        simp only [h01, if_false]
        exact ih _ fl fw (by rw [hdrop]; exact hz) ⟨r.rest.drop nBytes, r.used + nBytes⟩ (WFB_drop hr _)
    · rw [take_eq_none_iff.mpr (Nat.lt_of_not_le hk)]
      simp only [Nat.lt_of_not_le hk, if_true]
      rfl

theorem limbRandomMod_refines {m : Nat} (h0 : m ≠ 0) (hm : m < B) (fuel : Nat) (bs : List Nat)
    (hb : WFB bs) :
    toSpecL (limbRandomMod fuel ⟨bs, 0⟩ m) = specLimbRandomMod fuel m bs := by
  have hp := bitLen_pos h0
  have h64 : bitLen m ≤ 64 := bitLen_le (by rw [← B_eq_pow]; exact hm)
  unfold limbRandomMod specLimbRandomMod
  have ht : bitLen m - 8 * ((bitLen m + 7) / 8 - 1) ≤ 8 := by omega
  have hmsk : ∀ x, x &&& (255 >>> (8 * ((bitLen m + 7) / 8) - bitLen m))
      = x % 2 ^ (bitLen m - 8 * ((bitLen m + 7) / 8 - 1)) := by
    intro x
    have : 8 * ((bitLen m + 7) / 8) - bitLen m = 8 - (bitLen m - 8 * ((bitLen m + 7) / 8 - 1)) := by omega
    rw [this, shr255 _ ht, Nat.and_two_pow_sub_one_eq_mod]
  have hbits : 256 ^ ((bitLen m + 7) / 8 - 1) * 2 ^ (bitLen m - 8 * ((bitLen m + 7) / 8 - 1))
      = 2 ^ bitLen m := by
    have : (256 : Nat) = 2 ^ 8 := by decide
    rw [this, ← Nat.pow_mul, ← Nat.pow_add]; congr 1; omega
  exact limbModLoop_refines hm (by omega) (by omega) hmsk hbits fuel _ rfl
    (by intro x hx; simp at hx; omega)
    (by
      have : ([0, 0, 0, 0, 0, 0, 0, 0] : List Nat) = List.replicate 8 0 := rfl
      rw [this, List.drop_replicate, leBytes_replicate_zero])
    ⟨bs, 0⟩ hb

end CB.Rand
