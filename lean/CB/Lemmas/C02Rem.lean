/-
  CB.Lemmas.C02Rem — `rem2k_vartime`, the boxed vartime wrappers (`div_rem_vartime_in_place`,
  `BoxedUint::div_rem_vartime`, `rem_vartime`) and the boxed on-the-fly `rem_limb`.
-/
import CB.Lemmas.C02KnuthCt
namespace CB.Div
open CB

theorem leMask_le {x y : Nat} (h : x ≤ y) : leMask x y = WMAX := by simp [leMask, h]
theorem leMask_gt {x y : Nat} (h : ¬ x ≤ y) : leMask x y = 0 := by simp [leMask, h]

/-- split a list at an index: `l = take i ++ [l[i]] ++ drop (i+1)` -/
theorem split_at {l : List Nat} {i : Nat} (h : i < l.length) :
    l = l.take i ++ l.getD i 0 :: l.drop (i + 1) := by
  have h1 : l.getD i 0 = l[i] := by simp [List.getD_eq_getElem?_getD, List.getElem?_eq_getElem h]
  rw [h1]
  conv => lhs; rw [← List.take_append_drop i l]
  congr 1
  exact List.drop_eq_getElem_cons h

theorem mod_split {lo K M T : Nat} (hlo : lo < K) (hT : 0 < T) :
    (lo + K * M) % (K * T) = lo + K * (M % T) := by
  have hdm := Nat.div_add_mod M T
  have e : lo + K * M = lo + K * (M % T) + K * T * (M / T) := by
    conv => lhs; rw [← hdm]
    ring
  have hm := Nat.mod_lt M hT
  have hlt : lo + K * (M % T) < K * T := by
    have : K * (M % T + 1) ≤ K * T := Nat.mul_le_mul_left K hm
    rw [Nat.mul_add, Nat.mul_one] at this
    omega
  rw [e, Nat.add_mul_mod_self_left, Nat.mod_eq_of_lt hlt]

/-- **T02.8** `Uint::rem2k_vartime(k)` returns `n mod 2^k` for every `k` (incl. `k ≥ BITS`). -/
theorem rem2kVartime_spec {a : List Nat} (ha : WF a) (hne : a ≠ []) (k : Nat) :
    rem2kVartime a k = toLimbs a.length (val a % 2 ^ k) := by
  have hlen : 0 < a.length := List.length_pos_iff.mpr hne
  unfold rem2kVartime
  by_cases hk : k / 64 ≤ a.length - 1
  · -- the limb `k / 64` exists: mask it, zero everything above
    simp only [if_pos hk, leMask_le hk]
    have hi : k / 64 < a.length := by omega
    have hx := getD_lt ha (k / 64)
    generalize hxi : a.getD (k / 64) 0 = x at *
    have hb : k % 64 < 64 := Nat.mod_lt _ (by decide)
    have hmask : ((1 <<< (k % 64)) % B) - 1 = 2 ^ (k % 64) - 1 := by
      rw [Nat.shiftLeft_eq, Nat.one_mul, Nat.mod_eq_of_lt]
      rw [B_eq_pow]; exact Nat.pow_lt_pow_right (by decide) hb
    rw [hmask, Nat.and_two_pow_sub_one_eq_mod]
    have hxm : x % 2 ^ (k % 64) < B := Nat.lt_of_le_of_lt (Nat.mod_le _ _) hx
    rw [selectWord_max hx hxm]
    have hsp := split_at hi
    rw [hxi] at hsp
    have hlt : (a.take (k / 64)).length = k / 64 := by simp; omega
    have hset : a.set (k / 64) (x % 2 ^ (k % 64)) =
        a.take (k / 64) ++ (x % 2 ^ (k % 64)) :: a.drop (k / 64 + 1) := by
      conv => lhs; rw [hsp]
      have := set_mid_last [] (a.take (k / 64)) (a.drop (k / 64 + 1)) x (x % 2 ^ (k % 64))
      simp only [List.nil_append, List.length_nil, Nat.zero_add, hlt, List.append_assoc, List.singleton_append] at this
      exact this
    have htake : (a.take (k / 64) ++ (x % 2 ^ (k % 64)) :: a.drop (k / 64 + 1)).take (k / 64 + 1) =
        a.take (k / 64) ++ [x % 2 ^ (k % 64)] := by
      have : a.take (k / 64) ++ (x % 2 ^ (k % 64)) :: a.drop (k / 64 + 1) =
          (a.take (k / 64) ++ [x % 2 ^ (k % 64)]) ++ a.drop (k / 64 + 1) := by simp
      rw [this]; exact List.take_left' (by simp [hlt])
    rw [hset, htake]
    apply eq_toLimbs
    · exact WF_append.mpr ⟨WF_append.mpr ⟨WF_take ha _, WF_cons.mpr ⟨hxm, WF_nil⟩⟩, zeros_WF _⟩
    · simp [hlt, zeros_length]; omega
    · rw [val_append, val_zeros, Nat.mul_zero, Nat.add_zero, val_append, hlt]
      simp only [val_cons, val_nil, Nat.mul_zero, Nat.add_zero]
      -- val a = lo + B^i (x + B hi);  2^k = B^i * 2^b
      have hva : val a = val (a.take (k / 64)) + B ^ (k / 64) * (x + B * val (a.drop (k / 64 + 1))) := by
        conv => lhs; rw [hsp]
        rw [val_append, hlt, val_cons]
      have hlo := val_lt (WF_take ha (k / 64))
      rw [hlt] at hlo
      have h2k : 2 ^ k = B ^ (k / 64) * 2 ^ (k % 64) := by
        rw [B_pow_eq, ← Nat.pow_add]; congr 1; have := Nat.div_add_mod k 64; omega
      have hB2 : B = 2 ^ (k % 64) * 2 ^ (64 - k % 64) := by
        rw [← Nat.pow_add, B_eq_pow]; congr 1; omega
      generalize val (a.take (k / 64)) = lo at *
      generalize val (a.drop (k / 64 + 1)) = hi at *
      generalize hK : B ^ (k / 64) = K at *
      have hKpos : 0 < K := by rw [← hK]; exact Nat.pow_pos B_pos
      generalize hT : 2 ^ (k % 64) = T at *
      have hxm2 : (x + B * hi) % T = x % T := by
        rw [hB2, Nat.mul_assoc, Nat.add_mul_mod_self_left]
      have hTpos : 0 < T := by rw [← hT]; exact Nat.pow_pos (by decide)
      rw [hva, h2k, mod_split hlo hTpos, hxm2]
  · -- `k` beyond the width: the value is returned unchanged
    simp only [if_neg hk, leMask_gt hk]
    have hx := getD_lt ha (a.length - 1)
    rw [selectWord_zero hx (and_lt_B hx), set_getD_self]
    have e1 : a.length - 1 + 1 = a.length := by omega
    rw [e1, List.take_length, Nat.sub_self]
    have hz : zeros 0 = [] := rfl
    rw [hz, List.append_nil]
    apply eq_toLimbs ha rfl
    have hlt := val_lt ha
    have : B ^ a.length ≤ 2 ^ k := by
      rw [B_pow_eq]; exact Nat.pow_le_pow_right (by decide) (by omega)
    exact (Nat.mod_eq_of_lt (by omega)).symm


/-- the low `yc` limbs of a divisor carry its whole value -/
theorem take_yc {d : List Nat} (hd : WF d) (hd0 : val d ≠ 0) {yc : Nat} (hyc : yc = (bitLen (val d) + 63) / 64) :
    val (d.take yc) = val d ∧ (d.take yc).length = yc ∧ WF (d.take yc) ∧ d.drop yc = zeros (d.length - yc) := by
  obtain ⟨f1, f2, f3, f4⟩ := yc_facts hd hd0 rfl hyc
  obtain ⟨z1, z2⟩ := val_drop_zero hd f2 f4
  refine ⟨z2, by simp [f2], WF_take hd _, ?_⟩
  have := list_of_val_zero (WF_drop hd yc) z1
  rw [this]; simp

/-- `BoxedUint::div_rem_vartime` (any two precisions) -/
theorem boxedDivRemVartime_spec (H : HRecip) {n d : List Nat} (hn : WF n) (hd : WF d) (hd0 : val d ≠ 0) :
    boxedDivRemVartime n d = (toLimbs n.length (val n / val d), toLimbs d.length (val n % val d)) := by
  obtain ⟨f1, f2, f3, f4⟩ := yc_facts hd hd0 rfl rfl
  obtain ⟨t1, t2, t3, t4⟩ := take_yc hd hd0 rfl
  unfold boxedDivRemVartime
  simp only []
  generalize hyc : (bitLen (val d) + 63) / 64 = yc at *
  by_cases h1 : yc = 1
  · rw [if_pos h1]
    subst h1
    have hne : d ≠ [] := by intro h; rw [h] at hd0; exact hd0 rfl
    have hv := single_limb_val hd (by simpa using f4) hne
    have hd0' : 0 < d.getD 0 0 := by omega
    have hdlt := getD_lt hd 0
    obtain ⟨e1, e2, _⟩ := divRemLimb_spec H hd0' hdlt hn
    rw [e1, e2, hv]
    congr 1
    have hlt : val n % d.getD 0 0 < B := Nat.lt_trans (Nat.mod_lt _ hd0') hdlt
    apply eq_toLimbs (WF_cons.mpr ⟨hlt, zeros_WF _⟩)
    · simp [zeros_length]; omega
    · rw [val_cons, val_zeros]; simp
  · rw [if_neg h1]
    unfold divRemVartimeInPlace
    simp only [t2]
    have hrlt : val n % val d < B ^ yc := Nat.lt_trans (Nat.mod_lt _ (by omega)) f4
    by_cases h2 : yc > n.length
    · rw [if_pos h2]
      have hlt : val n < val d := by
        have := val_lt hn
        have : B ^ n.length ≤ B ^ (yc - 1) := Nat.pow_le_pow_right B_pos (by omega)
        omega
      rw [Nat.div_eq_of_lt hlt, Nat.mod_eq_of_lt hlt, t4]
      congr 1
      · exact eq_toLimbs (zeros_WF _) (zeros_length _) (val_zeros _)
      · apply eq_toLimbs (WF_append.mpr ⟨WF_append.mpr ⟨hn, zeros_WF _⟩, zeros_WF _⟩)
        · simp [zeros_length]; omega
        · simp [val_append, val_zeros]
    · rw [if_neg h2]
      have hcore := divRemVartimeCore_spec H hn t3 (by rw [t1]; exact hd0) (dbits := bitLen (val (d.take yc)))
        (yc := yc) rfl (by rw [t1]; exact hyc.symm) (by omega) (by omega)
      rw [hcore, t1, t2, t4]
      congr 1
      apply eq_toLimbs (WF_append.mpr ⟨toLimbs_WF _ _, zeros_WF _⟩)
      · simp [toLimbs_length, zeros_length]; omega
      · rw [val_append, val_zeros, Nat.mul_zero, Nat.add_zero, val_toLimbs, Nat.mod_eq_of_lt hrlt]

end CB.Div
