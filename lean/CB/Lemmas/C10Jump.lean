/-
  CB.Lemmas.C10Jump — `jump`: the 62 batched divsteps on the low limbs and their transition
  matrix (CB.Model.SafeGcd.jumpLoop).  Invariant per trip of the inner loop, for the low-limb
  values `f0, g0` the call started from:
      T·(f0, g0) = 2^(62-steps)·(f, g),   det T = 2^(62-steps),   row sums of |T| ≤ 2^(62-steps)
  (so no `i64` operation wraps), `f` odd from the first swap on, the loop ends with `steps = 0`
  within the fuel.
-/
import CB.Lemmas.C10Newton
import CB.Lemmas.C10Crt
import Mathlib.Data.Int.ModEq
import Mathlib.Data.Int.GCD
import Mathlib.RingTheory.Coprime.Lemmas
import Mathlib.Tactic.Linarith
import Mathlib.Tactic.Positivity
import Mathlib.Tactic.NormNum
namespace CB.SafeGcd
open CB.InvMod2k

/-! ### wrap helpers -/

theorem wrapI64_of_bound {x : Int} (h1 : -(2 ^ 63) ≤ x) (h2 : x < 2 ^ 63) : wrapI64 x = x := by
  unfold wrapI64
  by_cases hx : 0 ≤ x
  · have : x % 2 ^ 64 = x := Int.emod_eq_of_lt hx (by omega)
    simp only [this]
    rw [if_pos h2]
  · have hx' : x < 0 := by omega
    have : x % 2 ^ 64 = x + 2 ^ 64 := by
      have h := Int.add_mul_emod_self_left x (2 ^ 64) 1
      rw [Int.mul_one] at h
      rw [← h]
      exact Int.emod_eq_of_lt (by omega) (by omega)
    simp only [this]
    rw [if_neg (by omega)]
    omega

theorem toU64_cast (x : Int) : ((toU64 x : Nat) : Int) = x % 2 ^ 64 := by
  unfold toU64
  exact Int.toNat_of_nonneg (Int.emod_nonneg _ (by norm_num))

theorem toU64_modEq (x : Int) : ((toU64 x : Nat) : Int) ≡ x [ZMOD 2 ^ 64] := by
  rw [toU64_cast]; exact Int.mod_modEq _ _

/-! ### trailing zeros of an `i128` -/

theorem tz128_le (g : Int) : tz128 g ≤ 128 := tzNat_le 128 _

theorem pow_tz128_dvd {g : Int} (hb : g.natAbs < 2 ^ 128) {z : Nat} (hz : z ≤ tz128 g) :
    (2 : Int) ^ z ∣ g := by
  rcases Nat.eq_zero_or_pos g.natAbs with h0 | h0
  · have : g = 0 := Int.natAbs_eq_zero.mp h0
    rw [this]; exact dvd_zero _
  · obtain ⟨_, h2, _⟩ := tzNat_spec 128 g.natAbs h0 hb
    have hd : 2 ^ tz128 g ∣ g.natAbs := Dvd.intro_left _ h2
    have hd2 : 2 ^ z ∣ g.natAbs := dvd_trans (Nat.pow_dvd_pow 2 hz) hd
    have : ((2 ^ z : Nat) : Int) ∣ g := Int.natCast_dvd.mpr hd2
    simpa using this

theorem le_tz128_of_dvd {g : Int} (hb : g.natAbs < 2 ^ 128) {j : Nat} (hj : j ≤ 128)
    (hd : (2 : Int) ^ j ∣ g) : j ≤ tz128 g := by
  rcases Nat.eq_zero_or_pos g.natAbs with h0 | h0
  · unfold tz128; rw [h0, tzNat_zero]; exact hj
  · obtain ⟨_, h2, h3⟩ := tzNat_spec 128 g.natAbs h0 hb
    have hdn : 2 ^ j ∣ g.natAbs := by
      have : ((2 ^ j : Nat) : Int) ∣ g := by simpa using hd
      exact Int.natCast_dvd.mp this
    unfold tz128
    generalize tzNat 128 g.natAbs = t at *
    generalize hq : g.natAbs / 2 ^ t = q at *
    rw [← h2] at hdn
    have hcop : Nat.Coprime (2 ^ j) q := by
      apply Nat.Coprime.pow_left
      exact (Nat.coprime_comm.mp ((coprime_two_iff q).mpr h3))
    have := hcop.dvd_of_dvd_mul_left hdn
    exact (Nat.pow_dvd_pow_iff_le_right (by omega)).mp this

theorem div_tz128_odd {g : Int} (hb : g.natAbs < 2 ^ 128) (h0 : g ≠ 0) :
    (g / (2 : Int) ^ tz128 g) % 2 = 1 := by
  have hpos : 0 < g.natAbs := Int.natAbs_pos.mpr h0
  obtain ⟨_, h2, h3⟩ := tzNat_spec 128 g.natAbs hpos hb
  have hd := pow_tz128_dvd hb (le_refl (tz128 g))
  have ht : tzNat 128 g.natAbs = tz128 g := rfl
  rw [ht] at h2 h3
  generalize tz128 g = t at *
  obtain ⟨q, hq⟩ := hd
  have hp : (0 : Int) < 2 ^ t := by positivity
  have e : g / 2 ^ t = q := by rw [hq]; exact Int.mul_ediv_cancel_left _ (ne_of_gt hp)
  rw [e]
  have hn : q.natAbs = g.natAbs / 2 ^ t := by
    have : g.natAbs = 2 ^ t * q.natAbs := by
      rw [hq, Int.natAbs_mul, Int.natAbs_pow]; rfl
    rw [this, Nat.mul_div_cancel_left _ (by positivity)]
  have hodd : q.natAbs % 2 = 1 := by rw [hn]; exact h3
  omega

/-! ### the multiplier `w` clears the low bits of `g` -/

/-- `(3f xor 28)·f ≡ -1 (mod 32)` for odd `f` (all 16 odd residues). -/
theorem negseed_table : ∀ r : Fin 32, r.val % 2 = 1 →
    ((((r.val * 3) % 32) ^^^ 28) * r.val) % 32 = 31 := by decide

theorem negseed_mod32 (v : Nat) (hv : v % 2 = 1) : ((((v * 3) % U64) ^^^ 28) * v) % 32 = 31 := by
  have h32 : (32 : Nat) = 2 ^ 5 := rfl
  have hd : (32 : Nat) ∣ U64 := by rw [U64_eq]; exact ⟨2 ^ 59, by norm_num⟩
  have e1 : (((v * 3) % U64) ^^^ 28) % 32 = ((v % 32 * 3) % 32) ^^^ 28 := by
    rw [h32, Nat.xor_mod_two_pow, ← h32, Nat.mod_mod_of_dvd _ hd]
    congr 1
    omega
  rw [Nat.mul_mod, e1]
  have hr : (v % 32) % 2 = 1 := by omega
  have := negseed_table ⟨v % 32, Nat.mod_lt _ (by omega)⟩ hr
  simpa using this

theorem toU64_odd {f : Int} (hf : f % 2 = 1) : toU64 f % 2 = 1 := by
  have h := toU64_cast f
  have : ((toU64 f : Nat) : Int) % 2 = 1 := by
    rw [h, Int.emod_emod_of_dvd _ (by norm_num : (2 : Int) ∣ 2 ^ 64)]; exact hf
  omega

/-- exponent of the mask -/
def jumpJ (s : JS) : Nat := (imin (imin (s.steps : Nat) (1 - s.delta)) 5).toNat

theorem jumpJ_bounds (s : JS) (hd : s.delta ≤ 0) (hs : 1 ≤ s.steps) :
    1 ≤ jumpJ s ∧ jumpJ s ≤ 5 ∧ jumpJ s ≤ s.steps := by
  unfold jumpJ imin
  split <;> split <;> omega

theorem jumpW_eq (s : JS) :
    jumpW s = (toU64 s.g * (((toU64 s.f * 3) % U64) ^^^ 28)) % 2 ^ jumpJ s := by
  unfold jumpW jumpJ
  simp only
  rw [Nat.and_two_pow_sub_one_eq_mod]
  have hj : (imin (imin (s.steps : Nat) (1 - s.delta)) 5).toNat ≤ 64 := by
    unfold imin; split <;> split <;> omega
  exact Nat.mod_mod_of_dvd _ (by rw [U64_eq]; exact Nat.pow_dvd_pow 2 hj)

theorem jumpW_lt (s : JS) : jumpW s < 2 ^ jumpJ s := by
  rw [jumpW_eq]; exact Nat.mod_lt _ (by positivity)

theorem jumpW_dvd (s : JS) (hf : s.f % 2 = 1) (hj : jumpJ s ≤ 5) :
    (2 : Int) ^ jumpJ s ∣ s.g + (jumpW s : Nat) * s.f := by
  generalize hc : (((toU64 s.f * 3) % U64) ^^^ 28) = c
  have hseed : (c * toU64 s.f) % 32 = 31 := by
    rw [← hc]; exact negseed_mod32 _ (toU64_odd hf)
  have hW : jumpW s = (toU64 s.g * c) % 2 ^ jumpJ s := by rw [jumpW_eq, hc]
  generalize jumpJ s = j at *
  have hd32 : (2 : Int) ^ j ∣ 32 := by
    have : (2 : Int) ^ j ∣ 2 ^ 5 := pow_dvd_pow 2 hj
    simpa using this
  have hd64 : (2 : Int) ^ j ∣ 2 ^ 64 := pow_dvd_pow 2 (by omega)
  have h1 : ((jumpW s : Nat) : Int) ≡ (toU64 s.g : Nat) * (c : Nat) [ZMOD 2 ^ j] := by
    rw [hW]; push_cast; exact Int.mod_modEq _ _
  have h2 : ((toU64 s.g : Nat) : Int) ≡ s.g [ZMOD 2 ^ j] := (toU64_modEq s.g).of_dvd hd64
  have h3 : ((toU64 s.f : Nat) : Int) ≡ s.f [ZMOD 2 ^ j] := (toU64_modEq s.f).of_dvd hd64
  -- 1 + c·F ≡ 0 (mod 32)
  have h4 : (32 : Int) ∣ 1 + (c : Nat) * (toU64 s.f : Nat) := by
    have : (32 : Nat) ∣ 1 + c * toU64 s.f := by
      apply Nat.dvd_of_mod_eq_zero; omega
    exact_mod_cast this
  have h5 : (2 : Int) ^ j ∣ 1 + (c : Nat) * (toU64 s.f : Nat) := dvd_trans hd32 h4
  apply Int.modEq_zero_iff_dvd.mp
  calc s.g + (jumpW s : Nat) * s.f
      ≡ (toU64 s.g : Nat) + ((toU64 s.g : Nat) * (c : Nat)) * (toU64 s.f : Nat) [ZMOD 2 ^ j] :=
        Int.ModEq.add h2.symm (Int.ModEq.mul h1 h3.symm)
    _ = (toU64 s.g : Nat) * (1 + (c : Nat) * (toU64 s.f : Nat)) := by ring
    _ ≡ 0 [ZMOD 2 ^ j] := Int.modEq_zero_iff_dvd.mpr (Dvd.dvd.mul_left h5 _)

/-! ### invariants of the inner loop -/

/-- tight invariant (after the shift, after the swap) -/
structure JT (f0 g0 : Int) (s : JS) : Prop where
  hs : s.steps ≤ 62
  r0 : s.t.t00 * f0 + s.t.t01 * g0 = 2 ^ (62 - s.steps) * s.f
  r1 : s.t.t10 * f0 + s.t.t11 * g0 = 2 ^ (62 - s.steps) * s.g
  b0 : |s.t.t00| + |s.t.t01| ≤ 2 ^ (62 - s.steps)
  b1 : |s.t.t10| + |s.t.t11| ≤ 2 ^ (62 - s.steps)
  det : s.t.t00 * s.t.t11 - s.t.t01 * s.t.t10 = 2 ^ (62 - s.steps)

/-- invariant at the loop head: the second row may be ahead by the zeros about to be stripped -/
structure JH (f0 g0 : Int) (s : JS) : Prop where
  hs : s.steps ≤ 62
  r0 : s.t.t00 * f0 + s.t.t01 * g0 = 2 ^ (62 - s.steps) * s.f
  r1 : s.t.t10 * f0 + s.t.t11 * g0 = 2 ^ (62 - s.steps) * s.g
  b0 : |s.t.t00| + |s.t.t01| ≤ 2 ^ (62 - s.steps)
  b1 : |s.t.t10| + |s.t.t11| ≤ 2 ^ (62 - s.steps) * 2 ^ jzeros s
  det : s.t.t00 * s.t.t11 - s.t.t01 * s.t.t10 = 2 ^ (62 - s.steps)

theorem lin_bound {a b x f0 g0 P C M : Int} (hP : 0 < P) (h : a * f0 + b * g0 = P * x)
    (hb : |a| + |b| ≤ P * C) (hf : |f0| ≤ M) (hg : |g0| ≤ M) : |x| ≤ C * M := by
  have hM : 0 ≤ M := le_trans (abs_nonneg _) hf
  have h1 : P * |x| = |a * f0 + b * g0| := by rw [h, abs_mul, abs_of_pos hP]
  have h2 : |a * f0 + b * g0| ≤ |a| * M + |b| * M := by
    calc |a * f0 + b * g0| ≤ |a * f0| + |b * g0| := abs_add_le _ _
      _ = |a| * |f0| + |b| * |g0| := by rw [abs_mul, abs_mul]
      _ ≤ |a| * M + |b| * M :=
        add_le_add (mul_le_mul_of_nonneg_left hf (abs_nonneg _)) (mul_le_mul_of_nonneg_left hg (abs_nonneg _))
  have h3 : |a| * M + |b| * M ≤ P * (C * M) := by
    have := mul_le_mul_of_nonneg_right hb hM
    calc |a| * M + |b| * M = (|a| + |b|) * M := by ring
      _ ≤ P * C * M := this
      _ = P * (C * M) := by ring
  have : P * |x| ≤ P * (C * M) := by rw [h1]; exact le_trans h2 h3
  exact le_of_mul_le_mul_left this hP

theorem jzeros_le_steps (s : JS) : jzeros s ≤ s.steps := by unfold jzeros; split <;> omega
theorem jzeros_le_tz (s : JS) : jzeros s ≤ tz128 s.g := by unfold jzeros; split <;> omega

theorem natAbs_lt_of_abs_le {x : Int} {B : Nat} (h : |x| ≤ (B : Int)) : x.natAbs ≤ B := by
  have : ((x.natAbs : Nat) : Int) = |x| := Int.natCast_natAbs x
  omega

theorem pow62_split {steps z : Nat} (hz : z ≤ steps) (hs : steps ≤ 62) :
    (2 : Int) ^ (62 - steps) * 2 ^ z = 2 ^ (62 - (steps - z)) := by
  rw [← pow_add]; congr 1; omega

/-- the head invariant bounds `g` well inside `i128` -/
theorem JH.g_bound {f0 g0 : Int} {s : JS} (h : JH f0 g0 s) (hf0 : |f0| ≤ 2 ^ 62) (hg0 : |g0| ≤ 2 ^ 62) :
    s.g.natAbs < 2 ^ 128 := by
  have hP : (0 : Int) < 2 ^ (62 - s.steps) := by positivity
  have hb := lin_bound hP h.r1 h.b1 hf0 hg0
  have hz : (2 : Int) ^ jzeros s ≤ 2 ^ 62 :=
    pow_le_pow_right₀ (by norm_num) (le_trans (jzeros_le_steps s) h.hs)
  have : |s.g| ≤ ((2 ^ 124 : Nat) : Int) := by
    calc |s.g| ≤ 2 ^ jzeros s * 2 ^ 62 := hb
      _ ≤ 2 ^ 62 * 2 ^ 62 := mul_le_mul_of_nonneg_right hz (by positivity)
      _ = ((2 ^ 124 : Nat) : Int) := by norm_num
  have := natAbs_lt_of_abs_le this
  have h2 : (2 : Nat) ^ 124 < 2 ^ 128 := by norm_num
  omega

/-- stripping the zeros: head invariant → tight invariant, nothing wraps -/
theorem jumpShift_inv {f0 g0 : Int} {s : JS} (h : JH f0 g0 s) (hf0 : |f0| ≤ 2 ^ 62) (hg0 : |g0| ≤ 2 ^ 62) :
    JT f0 g0 (jumpShift s) ∧ (jumpShift s).f = s.f ∧ (jumpShift s).steps = s.steps - jzeros s ∧
    (jumpShift s).delta = s.delta + (jzeros s : Nat) ∧
    (jumpShift s).g * 2 ^ jzeros s = s.g := by
  have hz := jzeros_le_steps s
  have hzt := jzeros_le_tz s
  have hgb := h.g_bound hf0 hg0
  have hdvd : (2 : Int) ^ jzeros s ∣ s.g := pow_tz128_dvd hgb hzt
  have hpz : (0 : Int) < 2 ^ jzeros s := by positivity
  have hgdiv : s.g / 2 ^ jzeros s * 2 ^ jzeros s = s.g := Int.ediv_mul_cancel hdvd
  have hsplit := pow62_split hz h.hs
  have hP : (0 : Int) < 2 ^ (62 - s.steps) := by positivity
  have hle62 : (2 : Int) ^ (62 - (s.steps - jzeros s)) ≤ 2 ^ 62 :=
    pow_le_pow_right₀ (by norm_num) (by omega)
  -- the shifted first row does not wrap
  have hb0' : |s.t.t00 * 2 ^ jzeros s| + |s.t.t01 * 2 ^ jzeros s| ≤ 2 ^ (62 - (s.steps - jzeros s)) := by
    rw [abs_mul, abs_mul, abs_of_pos hpz, ← add_mul, ← hsplit]
    exact mul_le_mul_of_nonneg_right h.b0 (le_of_lt hpz)
  have hw0 : wrapI64 (s.t.t00 * 2 ^ jzeros s) = s.t.t00 * 2 ^ jzeros s := by
    have h1 : |s.t.t00 * 2 ^ jzeros s| ≤ 2 ^ 62 := by
      have := abs_nonneg (s.t.t01 * 2 ^ jzeros s); linarith
    have := abs_le.mp h1
    exact wrapI64_of_bound (by linarith [this.1]) (by linarith [this.2])
  have hw1 : wrapI64 (s.t.t01 * 2 ^ jzeros s) = s.t.t01 * 2 ^ jzeros s := by
    have h1 : |s.t.t01 * 2 ^ jzeros s| ≤ 2 ^ 62 := by
      have := abs_nonneg (s.t.t00 * 2 ^ jzeros s); linarith
    have := abs_le.mp h1
    exact wrapI64_of_bound (by linarith [this.1]) (by linarith [this.2])
  refine ⟨?_, rfl, rfl, rfl, hgdiv⟩
  unfold jumpShift
  simp only [hw0, hw1]
  have hs62 := h.hs
  refine ⟨by show s.steps - jzeros s ≤ 62; omega, ?_, ?_, hb0', ?_, ?_⟩
  · show s.t.t00 * 2 ^ jzeros s * f0 + s.t.t01 * 2 ^ jzeros s * g0 = 2 ^ (62 - (s.steps - jzeros s)) * s.f
    rw [← hsplit]; linear_combination (2 : Int) ^ jzeros s * h.r0
  · show s.t.t10 * f0 + s.t.t11 * g0 = 2 ^ (62 - (s.steps - jzeros s)) * (s.g / 2 ^ jzeros s)
    rw [← hsplit, mul_assoc, mul_comm (2 ^ jzeros s) _, hgdiv]; exact h.r1
  · show |s.t.t10| + |s.t.t11| ≤ 2 ^ (62 - (s.steps - jzeros s))
    rw [← hsplit]; exact h.b1
  · show s.t.t00 * 2 ^ jzeros s * s.t.t11 - s.t.t01 * 2 ^ jzeros s * s.t.t10 = 2 ^ (62 - (s.steps - jzeros s))
    rw [← hsplit]; linear_combination (2 : Int) ^ jzeros s * h.det

theorem JT.g_abs {f0 g0 : Int} {s : JS} (h : JT f0 g0 s) (hf0 : |f0| ≤ 2 ^ 62) (hg0 : |g0| ≤ 2 ^ 62) :
    |s.g| ≤ 2 ^ 62 := by
  have hP : (0 : Int) < 2 ^ (62 - s.steps) := by positivity
  have := lin_bound (C := 1) hP h.r1 (by rw [mul_one]; exact h.b1) hf0 hg0
  simpa using this

theorem JT.f_abs {f0 g0 : Int} {s : JS} (h : JT f0 g0 s) (hf0 : |f0| ≤ 2 ^ 62) (hg0 : |g0| ≤ 2 ^ 62) :
    |s.f| ≤ 2 ^ 62 := by
  have hP : (0 : Int) < 2 ^ (62 - s.steps) := by positivity
  have := lin_bound (C := 1) hP h.r0 (by rw [mul_one]; exact h.b0) hf0 hg0
  simpa using this

/-- the conditional swap keeps the tight invariant; `g as i64` does not wrap -/
theorem jumpSwap_inv {f0 g0 : Int} {s : JS} (h : JT f0 g0 s) (hf0 : |f0| ≤ 2 ^ 62) (hg0 : |g0| ≤ 2 ^ 62) :
    JT f0 g0 (jumpSwap s) ∧ (jumpSwap s).steps = s.steps ∧ (jumpSwap s).delta ≤ 0 ∧
    (jumpSwap s).f = (if s.delta > 0 then s.g else s.f) := by
  have hg := abs_le.mp (h.g_abs hf0 hg0)
  have hw : wrapI64 s.g = s.g := wrapI64_of_bound (by linarith [hg.1]) (by linarith [hg.2])
  unfold jumpSwap
  by_cases hd : s.delta > 0
  · rw [if_pos hd, if_pos hd, hw]
    refine ⟨⟨h.hs, h.r1, ?_, h.b1, ?_, ?_⟩, rfl, by show -s.delta ≤ 0; omega, rfl⟩
    · show -s.t.t00 * f0 + -s.t.t01 * g0 = 2 ^ (62 - s.steps) * -s.f
      linear_combination -h.r0
    · show |-s.t.t00| + |-s.t.t01| ≤ 2 ^ (62 - s.steps)
      rw [abs_neg, abs_neg]; exact h.b0
    · show s.t.t10 * -s.t.t01 - s.t.t11 * -s.t.t00 = 2 ^ (62 - s.steps)
      linear_combination h.det
  · rw [if_neg hd, if_neg hd]
    exact ⟨h, rfl, by omega, rfl⟩

/-- adding `w·f` to `g`: tight → head invariant, and the new `g` has at least `jumpJ` trailing zeros -/
theorem jumpAdd_inv {f0 g0 : Int} {s : JS} (h : JT f0 g0 s) (hf0 : |f0| ≤ 2 ^ 62) (hg0 : |g0| ≤ 2 ^ 62)
    (hf : s.f % 2 = 1) (hd : s.delta ≤ 0) (hs : 1 ≤ s.steps) :
    JH f0 g0 (jumpAdd s) ∧ 1 ≤ tz128 (jumpAdd s).g := by
  obtain ⟨hj1, hj5, hjs⟩ := jumpJ_bounds s hd hs
  have hwlt := jumpW_lt s
  have hdvd := jumpW_dvd s hf hj5
  have hfa := h.f_abs hf0 hg0
  have hga := h.g_abs hf0 hg0
  -- bound of the new g
  have hw32 : ((jumpW s : Nat) : Int) < 32 := by
    have : jumpW s < 2 ^ 5 := lt_of_lt_of_le hwlt (Nat.pow_le_pow_right (by omega) hj5)
    exact_mod_cast this
  have hw0 : (0 : Int) ≤ (jumpW s : Nat) := Int.natCast_nonneg _
  have hgnew : |s.g + (jumpW s : Nat) * s.f| ≤ ((2 ^ 67 : Nat) : Int) := by
    calc |s.g + (jumpW s : Nat) * s.f| ≤ |s.g| + |((jumpW s : Nat) : Int) * s.f| := abs_add_le _ _
      _ = |s.g| + (jumpW s : Nat) * |s.f| := by rw [abs_mul, abs_of_nonneg hw0]
      _ ≤ 2 ^ 62 + 31 * 2 ^ 62 := by
        have : ((jumpW s : Nat) : Int) * |s.f| ≤ 31 * 2 ^ 62 :=
          mul_le_mul (by omega) hfa (abs_nonneg _) (by norm_num)
        linarith
      _ ≤ ((2 ^ 67 : Nat) : Int) := by norm_num
  have hgb : (s.g + (jumpW s : Nat) * s.f).natAbs < 2 ^ 128 := by
    have := natAbs_lt_of_abs_le hgnew
    have h2 : (2 : Nat) ^ 67 < 2 ^ 128 := by norm_num
    omega
  have hjtz : jumpJ s ≤ tz128 (s.g + (jumpW s : Nat) * s.f) := le_tz128_of_dvd hgb (by omega) hdvd
  have hgeq : (jumpAdd s).g = s.g + (jumpW s : Nat) * s.f := rfl
  have hzeros : jumpJ s ≤ jzeros (jumpAdd s) := by
    unfold jzeros
    rw [hgeq]
    show jumpJ s ≤ if s.steps > tz128 (s.g + (jumpW s : Nat) * s.f) then _ else s.steps
    split <;> omega
  refine ⟨⟨h.hs, h.r0, ?_, h.b0, ?_, ?_⟩, by rw [hgeq]; omega⟩
  · show (s.t.t00 * (jumpW s : Nat) + s.t.t10) * f0 + (s.t.t01 * (jumpW s : Nat) + s.t.t11) * g0
        = 2 ^ (62 - s.steps) * (s.g + (jumpW s : Nat) * s.f)
    linear_combination ((jumpW s : Nat) : Int) * h.r0 + h.r1
  · show |s.t.t00 * (jumpW s : Nat) + s.t.t10| + |s.t.t01 * (jumpW s : Nat) + s.t.t11|
        ≤ 2 ^ (62 - s.steps) * 2 ^ jzeros (jumpAdd s)
    have hP : (0 : Int) < 2 ^ (62 - s.steps) := by positivity
    have e1 : |s.t.t00 * (jumpW s : Nat) + s.t.t10| ≤ |s.t.t00| * (jumpW s : Nat) + |s.t.t10| := by
      calc _ ≤ |s.t.t00 * (jumpW s : Nat)| + |s.t.t10| := abs_add_le _ _
        _ = _ := by rw [abs_mul, abs_of_nonneg hw0]
    have e2 : |s.t.t01 * (jumpW s : Nat) + s.t.t11| ≤ |s.t.t01| * (jumpW s : Nat) + |s.t.t11| := by
      calc _ ≤ |s.t.t01 * (jumpW s : Nat)| + |s.t.t11| := abs_add_le _ _
        _ = _ := by rw [abs_mul, abs_of_nonneg hw0]
    have hwj : ((jumpW s : Nat) : Int) + 1 ≤ 2 ^ jumpJ s := by
      have : jumpW s + 1 ≤ 2 ^ jumpJ s := hwlt
      exact_mod_cast this
    have hjz : (2 : Int) ^ jumpJ s ≤ 2 ^ jzeros (jumpAdd s) := pow_le_pow_right₀ (by norm_num) hzeros
    have e3 : (|s.t.t00| + |s.t.t01|) * (jumpW s : Nat) ≤ 2 ^ (62 - s.steps) * (jumpW s : Nat) :=
      mul_le_mul_of_nonneg_right h.b0 hw0
    calc _ ≤ (|s.t.t00| + |s.t.t01|) * (jumpW s : Nat) + (|s.t.t10| + |s.t.t11|) := by linarith
      _ ≤ 2 ^ (62 - s.steps) * (jumpW s : Nat) + 2 ^ (62 - s.steps) := by linarith [h.b1]
      _ = 2 ^ (62 - s.steps) * (((jumpW s : Nat) : Int) + 1) := by ring
      _ ≤ 2 ^ (62 - s.steps) * 2 ^ jzeros (jumpAdd s) :=
        mul_le_mul_of_nonneg_left (le_trans hwj hjz) (le_of_lt hP)
  · show s.t.t00 * (s.t.t01 * (jumpW s : Nat) + s.t.t11) - s.t.t01 * (s.t.t00 * (jumpW s : Nat) + s.t.t10)
        = 2 ^ (62 - s.steps)
    linear_combination h.det

/-- Oddness of the FULL-width `f` carried along the batch: `F = f0 + 2^62·A`, `G = g0 + 2^62·B`;
    the current full-width `f` is `s.f + 2^steps·(t00·A + t01·B)`. -/
def FO (A B : Int) (s : JS) : Prop :=
  (s.f + 2 ^ s.steps * (s.t.t00 * A + s.t.t01 * B)) % 2 = 1

theorem jumpShift_eq {f0 g0 : Int} {s : JS} (h : JH f0 g0 s) (_hf0 : |f0| ≤ 2 ^ 62) (_hg0 : |g0| ≤ 2 ^ 62) :
    (jumpShift s).t.t00 = s.t.t00 * 2 ^ jzeros s ∧ (jumpShift s).t.t01 = s.t.t01 * 2 ^ jzeros s := by
  have hz := jzeros_le_steps s
  have hsplit := pow62_split hz h.hs
  have hpz : (0 : Int) < 2 ^ jzeros s := by positivity
  have hs62 := h.hs
  have hle62 : (2 : Int) ^ (62 - (s.steps - jzeros s)) ≤ 2 ^ 62 :=
    pow_le_pow_right₀ (by norm_num) (by omega)
  have hb0' : |s.t.t00 * 2 ^ jzeros s| + |s.t.t01 * 2 ^ jzeros s| ≤ 2 ^ (62 - (s.steps - jzeros s)) := by
    rw [abs_mul, abs_mul, abs_of_pos hpz, ← add_mul, ← hsplit]
    exact mul_le_mul_of_nonneg_right h.b0 (le_of_lt hpz)
  constructor
  · have h1 : |s.t.t00 * 2 ^ jzeros s| ≤ 2 ^ 62 := by
      have := abs_nonneg (s.t.t01 * 2 ^ jzeros s); linarith
    have := abs_le.mp h1
    exact wrapI64_of_bound (by linarith [this.1]) (by linarith [this.2])
  · have h1 : |s.t.t01 * 2 ^ jzeros s| ≤ 2 ^ 62 := by
      have := abs_nonneg (s.t.t00 * 2 ^ jzeros s); linarith
    have := abs_le.mp h1
    exact wrapI64_of_bound (by linarith [this.1]) (by linarith [this.2])

theorem FO_shift {f0 g0 A B : Int} {s : JS} (h : JH f0 g0 s) (hf0 : |f0| ≤ 2 ^ 62) (hg0 : |g0| ≤ 2 ^ 62)
    (ho : FO A B s) : FO A B (jumpShift s) := by
  obtain ⟨e0, e1⟩ := jumpShift_eq h hf0 hg0
  unfold FO at *
  rw [e0, e1]
  show (s.f + 2 ^ (s.steps - jzeros s) * (s.t.t00 * 2 ^ jzeros s * A + s.t.t01 * 2 ^ jzeros s * B)) % 2 = 1
  have hz := jzeros_le_steps s
  have : (2 : Int) ^ (s.steps - jzeros s) * (s.t.t00 * 2 ^ jzeros s * A + s.t.t01 * 2 ^ jzeros s * B)
      = 2 ^ s.steps * (s.t.t00 * A + s.t.t01 * B) := by
    have e : (2 : Int) ^ s.steps = 2 ^ (s.steps - jzeros s) * 2 ^ jzeros s := by
      rw [← pow_add]; congr 1; omega
    rw [e]; ring
  rw [this]; exact ho

theorem FO_swap {A B : Int} {s : JS} (hs : 1 ≤ s.steps) (hw : wrapI64 s.g = s.g)
    (hg : 0 < s.delta → s.g % 2 = 1) (ho : FO A B s) : FO A B (jumpSwap s) := by
  unfold jumpSwap
  by_cases hd : s.delta > 0
  · rw [if_pos hd]
    unfold FO
    show (wrapI64 s.g + 2 ^ s.steps * (s.t.t10 * A + s.t.t11 * B)) % 2 = 1
    rw [hw]
    have : (2 : Int) ^ s.steps = 2 * 2 ^ (s.steps - 1) := by
      rw [← pow_succ']; congr 1; omega
    rw [this, mul_assoc, Int.add_mul_emod_self_left]
    exact hg hd
  · rw [if_neg hd]; exact ho

theorem FO_add {A B : Int} {s : JS} (ho : FO A B s) : FO A B (jumpAdd s) := ho

/-- The inner loop: within the fuel it ends with `steps = 0`, the tight invariant holds at the end
    (so no `i64` operation wrapped on the way), and full-width oddness of `f` is preserved. -/
theorem jumpLoop_inv {f0 g0 : Int} (hf0 : |f0| ≤ 2 ^ 62) (hg0 : |g0| ≤ 2 ^ 62) (A B : Int) :
    ∀ fuel s, JH f0 g0 s → (s.f % 2 = 1 ∨ 0 < s.delta) →
    s.steps + 1 + (if tz128 s.g = 0 then 1 else 0) ≤ fuel →
    JT f0 g0 (jumpLoop fuel s) ∧ (jumpLoop fuel s).steps = 0 ∧
    (FO A B s → FO A B (jumpLoop fuel s)) := by
  intro fuel
  induction fuel with
  | zero => intro s _ _ hfu; omega
  | succ n ih =>
    intro s h hpre hfu
    obtain ⟨hT1, hf1, hst1, hdl1, hg1⟩ := jumpShift_inv h hf0 hg0
    have e : jumpLoop (n + 1) s =
        if (jumpShift s).steps = 0 then jumpShift s
        else jumpLoop n (jumpAdd (jumpSwap (jumpShift s))) := rfl
    rw [e]
    by_cases hdone : (jumpShift s).steps = 0
    · rw [if_pos hdone]
      exact ⟨hT1, hdone, fun ho => FO_shift h hf0 hg0 ho⟩
    · rw [if_neg hdone]
      have hs1 : 1 ≤ (jumpShift s).steps := by omega
      -- zeros = tz(g) < steps, g ≠ 0, so the shifted g is odd
      have hz_lt : jzeros s < s.steps := by omega
      have hz_tz : jzeros s = tz128 s.g := by
        by_cases hc : s.steps > tz128 s.g
        · unfold jzeros; rw [if_pos hc]
        · have : jzeros s = s.steps := by unfold jzeros; rw [if_neg hc]
          omega
      have hgb := h.g_bound hf0 hg0
      have hgne : s.g ≠ 0 := by
        intro h0
        have : tz128 s.g = 128 := by unfold tz128; rw [h0]; exact tzNat_zero 128
        have := h.hs; omega
      have hg1odd : (jumpShift s).g % 2 = 1 := by
        have : (jumpShift s).g = s.g / 2 ^ tz128 s.g := by
          show s.g / 2 ^ jzeros s = _; rw [hz_tz]
        rw [this]; exact div_tz128_odd hgb hgne
      obtain ⟨hT2, hst2, hdl2, hf2⟩ := jumpSwap_inv hT1 hf0 hg0
      have hf2odd : (jumpSwap (jumpShift s)).f % 2 = 1 := by
        rw [hf2]
        by_cases hd : (jumpShift s).delta > 0
        · rw [if_pos hd]; exact hg1odd
        · rw [if_neg hd, hf1]
          rcases hpre with hp | hp
          · exact hp
          · exfalso; rw [hdl1] at hd; omega
      have hs2 : 1 ≤ (jumpSwap (jumpShift s)).steps := by rw [hst2]; exact hs1
      obtain ⟨hH3, htz3⟩ := jumpAdd_inv hT2 hf0 hg0 hf2odd hdl2 hs2
      have hfu3 : (jumpAdd (jumpSwap (jumpShift s))).steps + 1 +
          (if tz128 (jumpAdd (jumpSwap (jumpShift s))).g = 0 then 1 else 0) ≤ n := by
        have e3 : (jumpAdd (jumpSwap (jumpShift s))).steps = s.steps - jzeros s := by
          show (jumpSwap (jumpShift s)).steps = _; rw [hst2, hst1]
        rw [e3, if_neg (by omega)]
        by_cases htz : tz128 s.g = 0
        · rw [if_pos htz] at hfu; omega
        · rw [if_neg htz] at hfu
          have : 1 ≤ jzeros s := by rw [hz_tz]; omega
          omega
      obtain ⟨r1, r2, r3⟩ := ih _ hH3 (Or.inl hf2odd) hfu3
      refine ⟨r1, r2, fun ho => r3 ?_⟩
      apply FO_add
      have hgabs := abs_le.mp (hT1.g_abs hf0 hg0)
      exact FO_swap hs1 (wrapI64_of_bound (by linarith [hgabs.1]) (by linarith [hgabs.2]))
        (fun _ => hg1odd) (FO_shift h hf0 hg0 ho)

/-! ### `jump` as a whole -/

theorem jumpFuel_eq : jumpFuel = 64 := rfl

/-- T10.4(c), low-limb form.  For low limbs `fl, gl < 2^62` and (`fl` odd or `delta > 0`),
    `jump` ends with `steps = 0` inside its fuel and returns `T` with
    `T·(fl, gl) = 2^62·(f', g')`, `det T = 2^62`, `|T| row sums ≤ 2^62` (every intermediate entry
    fits `i64`: nothing wrapped), and oddness of the full-width `f` is preserved. -/
theorem jump_spec (f g : List Nat) (delta : Int) (hfl : f.headD 0 < 2 ^ 62) (hgl : g.headD 0 < 2 ^ 62)
    (hpre : f.headD 0 % 2 = 1 ∨ 0 < delta) :
    ∃ f' g' : Int,
      (jump f g delta).2.t00 * (f.headD 0 : Nat) + (jump f g delta).2.t01 * (g.headD 0 : Nat) = 2 ^ 62 * f' ∧
      (jump f g delta).2.t10 * (f.headD 0 : Nat) + (jump f g delta).2.t11 * (g.headD 0 : Nat) = 2 ^ 62 * g' ∧
      |(jump f g delta).2.t00| + |(jump f g delta).2.t01| ≤ 2 ^ 62 ∧
      |(jump f g delta).2.t10| + |(jump f g delta).2.t11| ≤ 2 ^ 62 ∧
      (jump f g delta).2.t00 * (jump f g delta).2.t11 - (jump f g delta).2.t01 * (jump f g delta).2.t10 = 2 ^ 62 ∧
      (∀ A B : Int, f.headD 0 % 2 = 1 →
        (f' + ((jump f g delta).2.t00 * A + (jump f g delta).2.t01 * B)) % 2 = 1) := by
  generalize hfv : f.headD 0 = fl at *
  generalize hgv : g.headD 0 = gl at *
  have hf0 : |((fl : Nat) : Int)| ≤ 2 ^ 62 := by
    rw [abs_of_nonneg (Int.natCast_nonneg _)]; exact_mod_cast (le_of_lt hfl)
  have hg0 : |((gl : Nat) : Int)| ≤ 2 ^ 62 := by
    rw [abs_of_nonneg (Int.natCast_nonneg _)]; exact_mod_cast (le_of_lt hgl)
  have hwf : wrapI64 ((fl : Nat) : Int) = fl := by
    apply wrapI64_of_bound
    · have := Int.natCast_nonneg fl; omega
    · have : ((fl : Nat) : Int) < 2 ^ 62 := by exact_mod_cast hfl
      omega
  -- the initial state
  let s0 : JS := ⟨62, delta, ((fl : Nat) : Int), ((gl : Nat) : Int), ⟨1, 0, 0, 1⟩⟩
  have hjump : jump f g delta = ((jumpLoop 64 s0).delta, (jumpLoop 64 s0).t) := by
    unfold jump
    simp only [hfv, hgv, hwf]
    rfl
  have hH : JH (fl : Nat) (gl : Nat) s0 := by
    refine ⟨le_refl 62, ?_, ?_, ?_, ?_, ?_⟩
    · show (1 : Int) * (fl : Nat) + 0 * (gl : Nat) = 2 ^ (62 - 62) * (fl : Nat); norm_num
    · show (0 : Int) * (fl : Nat) + 1 * (gl : Nat) = 2 ^ (62 - 62) * (gl : Nat); norm_num
    · show |(1 : Int)| + |(0 : Int)| ≤ 2 ^ (62 - 62); norm_num
    · show |(0 : Int)| + |(1 : Int)| ≤ 2 ^ (62 - 62) * 2 ^ jzeros s0
      have : (1 : Int) ≤ 2 ^ jzeros s0 := one_le_pow₀ (by norm_num)
      norm_num; exact this
    · show (1 : Int) * 1 - 0 * 0 = 2 ^ (62 - 62); norm_num
  have hpre0 : s0.f % 2 = 1 ∨ 0 < s0.delta := by
    rcases hpre with h | h
    · left; show ((fl : Nat) : Int) % 2 = 1; omega
    · right; exact h
  have hfu : s0.steps + 1 + (if tz128 s0.g = 0 then 1 else 0) ≤ 64 := by
    show 62 + 1 + (if tz128 s0.g = 0 then 1 else 0) ≤ 64; split <;> omega
  rw [hjump]
  refine ⟨(jumpLoop 64 s0).f, (jumpLoop 64 s0).g, ?_⟩
  obtain ⟨hT, hst, _⟩ := jumpLoop_inv hf0 hg0 0 0 64 s0 hH hpre0 hfu
  have e62 : (2 : Int) ^ (62 - (jumpLoop 64 s0).steps) = 2 ^ 62 := by rw [hst]
  refine ⟨by rw [← e62]; exact hT.r0, by rw [← e62]; exact hT.r1, by rw [← e62]; exact hT.b0,
    by rw [← e62]; exact hT.b1, by rw [← e62]; exact hT.det, ?_⟩
  intro A B hodd
  obtain ⟨_, hst', hFO⟩ := jumpLoop_inv hf0 hg0 A B 64 s0 hH hpre0 hfu
  have h0 : FO A B s0 := by
    unfold FO
    show (((fl : Nat) : Int) + 2 ^ 62 * (1 * A + 0 * B)) % 2 = 1
    have : (2 : Int) ^ 62 * (1 * A + 0 * B) = 2 * (2 ^ 61 * A) := by ring
    rw [this, Int.add_mul_emod_self_left]; omega
  have := hFO h0
  unfold FO at this
  rw [hst', pow_zero, one_mul] at this
  exact this

/-- A transition matrix with determinant `2^62` applied to an odd `F` preserves the gcd. -/
theorem gcd_of_matrix {t00 t01 t10 t11 F G F' G' : Int}
    (h0 : t00 * F + t01 * G = 2 ^ 62 * F') (h1 : t10 * F + t11 * G = 2 ^ 62 * G')
    (hdet : t00 * t11 - t01 * t10 = 2 ^ 62) (hF : F % 2 = 1) : Int.gcd F' G' = Int.gcd F G := by
  have hp : (2 : Int) ^ 62 ≠ 0 := by positivity
  -- (F, G) = adj(T)·(F', G')
  have eF : F = t11 * F' - t01 * G' := by
    apply mul_left_cancel₀ hp; linear_combination (-F) * hdet + t11 * h0 - t01 * h1
  have eG : G = t00 * G' - t10 * F' := by
    apply mul_left_cancel₀ hp; linear_combination (-G) * hdet + t00 * h1 - t10 * h0
  apply Nat.dvd_antisymm
  · -- gcd(F',G') ∣ gcd(F,G)
    have d1 : ((Int.gcd F' G' : Nat) : Int) ∣ F' := Int.gcd_dvd_left _ _
    have d2 : ((Int.gcd F' G' : Nat) : Int) ∣ G' := Int.gcd_dvd_right _ _
    have dF : ((Int.gcd F' G' : Nat) : Int) ∣ F := by
      rw [eF]; exact dvd_sub (Dvd.dvd.mul_left d1 _) (Dvd.dvd.mul_left d2 _)
    have dG : ((Int.gcd F' G' : Nat) : Int) ∣ G := by
      rw [eG]; exact dvd_sub (Dvd.dvd.mul_left d2 _) (Dvd.dvd.mul_left d1 _)
    exact Int.natCast_dvd_natCast.mp (Int.dvd_coe_gcd dF dG)
  · -- gcd(F,G) is odd, hence coprime to 2^62, and divides 2^62·F', 2^62·G'
    have d1 : ((Int.gcd F G : Nat) : Int) ∣ F := Int.gcd_dvd_left _ _
    have d2 : ((Int.gcd F G : Nat) : Int) ∣ G := Int.gcd_dvd_right _ _
    have hodd : ((Int.gcd F G : Nat) : Int) % 2 = 1 := by
      obtain ⟨c, hc⟩ := d1
      rcases Int.emod_two_eq_zero_or_one ((Int.gcd F G : Nat) : Int) with h | h
      · exfalso
        have : F % 2 = 0 := by rw [hc, Int.mul_emod, h]; simp
        omega
      · exact h
    have hcop : IsCoprime ((Int.gcd F G : Nat) : Int) (2 ^ 62) := by
      apply IsCoprime.pow_right
      exact ⟨1, -(((Int.gcd F G : Nat) : Int) / 2), by omega⟩
    have e1 : ((Int.gcd F G : Nat) : Int) ∣ 2 ^ 62 * F' := by
      rw [← h0]; exact dvd_add (Dvd.dvd.mul_left d1 _) (Dvd.dvd.mul_left d2 _)
    have e2 : ((Int.gcd F G : Nat) : Int) ∣ 2 ^ 62 * G' := by
      rw [← h1]; exact dvd_add (Dvd.dvd.mul_left d1 _) (Dvd.dvd.mul_left d2 _)
    exact Int.natCast_dvd_natCast.mp
      (Int.dvd_coe_gcd (hcop.dvd_of_dvd_mul_left e1) (hcop.dvd_of_dvd_mul_left e2))

/-- T10.4(c), full-width form.  Let `F ≡ fl`, `G ≡ gl (mod 2^62)` be the full-width operands whose
    low limbs `jump` saw.  Then `T·(F, G)` is divisible by `2^62` exactly, and if `F` is odd the
    quotient `(F', G')` has `F'` odd and the same gcd. -/
theorem jump_full (f g : List Nat) (delta : Int) (hfl : f.headD 0 < 2 ^ 62) (hgl : g.headD 0 < 2 ^ 62)
    (A B : Int) (hodd : f.headD 0 % 2 = 1) :
    ∃ F' G' : Int,
      (jump f g delta).2.t00 * ((f.headD 0 : Nat) + 2 ^ 62 * A) + (jump f g delta).2.t01 * ((g.headD 0 : Nat) + 2 ^ 62 * B) = 2 ^ 62 * F' ∧
      (jump f g delta).2.t10 * ((f.headD 0 : Nat) + 2 ^ 62 * A) + (jump f g delta).2.t11 * ((g.headD 0 : Nat) + 2 ^ 62 * B) = 2 ^ 62 * G' ∧
      F' % 2 = 1 ∧
      Int.gcd F' G' = Int.gcd ((f.headD 0 : Nat) + 2 ^ 62 * A) ((g.headD 0 : Nat) + 2 ^ 62 * B) := by
  obtain ⟨f', g', h0, h1, _, _, hdet, hFO⟩ := jump_spec f g delta hfl hgl (Or.inl hodd)
  generalize (jump f g delta).2 = T at *
  have e0 : T.t00 * ((f.headD 0 : Nat) + 2 ^ 62 * A) + T.t01 * ((g.headD 0 : Nat) + 2 ^ 62 * B)
      = 2 ^ 62 * (f' + (T.t00 * A + T.t01 * B)) := by linear_combination h0
  have e1 : T.t10 * ((f.headD 0 : Nat) + 2 ^ 62 * A) + T.t11 * ((g.headD 0 : Nat) + 2 ^ 62 * B)
      = 2 ^ 62 * (g' + (T.t10 * A + T.t11 * B)) := by linear_combination h1
  have hFodd : (((f.headD 0 : Nat) : Int) + 2 ^ 62 * A) % 2 = 1 := by
    have : (2 : Int) ^ 62 * A = 2 * (2 ^ 61 * A) := by ring
    rw [this, Int.add_mul_emod_self_left]; omega
  exact ⟨_, _, e0, e1, hFO A B hodd, gcd_of_matrix e0 e1 hdet hFodd⟩

end CB.SafeGcd
