/-
  CB.Lemmas.C16Bytes — fixed-width byte (de)serialisation: the limb loops equal the positional
  encodings, and decoding inverts encoding both ways.
-/
import CB.Lemmas.C16Digits
namespace CB.Encoding

/-- a byte string: every entry `< 256` -/
def Bytes (bs : List Nat) : Prop := ∀ b ∈ bs, b < 256

theorem Bytes_take {bs : List Nat} (h : Bytes bs) (k : Nat) : Bytes (bs.take k) :=
  fun b hb => h b (List.mem_of_mem_take hb)
theorem Bytes_drop {bs : List Nat} (h : Bytes bs) (k : Nat) : Bytes (bs.drop k) :=
  fun b hb => h b (List.mem_of_mem_drop hb)
theorem Bytes_reverse {bs : List Nat} : Bytes bs.reverse ↔ Bytes bs := by simp [Bytes]
theorem Bytes_append {xs ys : List Nat} : Bytes (xs ++ ys) ↔ Bytes xs ∧ Bytes ys := by
  simp only [Bytes, List.mem_append]
  constructor
  · intro h; exact ⟨fun x hx => h x (Or.inl hx), fun x hx => h x (Or.inr hx)⟩
  · rintro ⟨h1, h2⟩ x (hx | hx)
    · exact h1 x hx
    · exact h2 x hx
theorem Bytes_digitsLe (k x : Nat) : Bytes (digitsLe 256 k x) := digitsLe_lt (by decide) k x

theorem leVal_lt {bs : List Nat} (h : Bytes bs) : leVal bs < 256 ^ bs.length := digitsVal_lt h

theorem leVal_lt_B {bs : List Nat} (h : Bytes bs) (hl : bs.length ≤ 8) : leVal bs < B := by
  have := leVal_lt h
  have h2 : 256 ^ bs.length ≤ 256 ^ 8 := Nat.pow_le_pow_right (by decide) hl
  rw [B_eq_256] at h2
  omega

/-! ### encoders -/

theorem uintToLeBytes_eq {l : List Nat} (h : WF l) :
    uintToLeBytes l = digitsLe 256 (8 * l.length) (val l) := limbs_digits B_eq_256 h

theorem uintToBeBytes_eq {l : List Nat} (h : WF l) :
    uintToBeBytes l = (digitsLe 256 (8 * l.length) (val l)).reverse := limbs_digits_be B_eq_256 h

theorem uintToBeBytes_reverse {l : List Nat} (h : WF l) :
    uintToBeBytes l = (uintToLeBytes l).reverse := by
  rw [uintToBeBytes_eq h, uintToLeBytes_eq h]

/-! ### chunks8 -/

theorem chunks8_length (n : Nat) (bs : List Nat) : (chunks8 n bs).length = n := by
  induction n generalizing bs with
  | zero => rfl
  | succ n ih => simp [chunks8, ih]

theorem chunks8_flatten_self (n : Nat) (bs : List Nat) (h : bs.length = 8 * n) :
    (chunks8 n bs).flatten = bs := by
  induction n generalizing bs with
  | zero =>
    have : bs = [] := List.eq_nil_of_length_eq_zero (by omega)
    simp [chunks8, this]
  | succ n ih =>
    simp only [chunks8, List.flatten_cons]
    rw [ih (bs.drop 8) (by simp; omega), List.take_append_drop]

theorem chunks8_mem_length (n : Nat) (bs : List Nat) (h : bs.length = 8 * n) :
    ∀ c ∈ chunks8 n bs, c.length = 8 := by
  induction n generalizing bs with
  | zero => intro c hc; cases hc
  | succ n ih =>
    intro c hc
    simp only [chunks8] at hc
    cases hc with
    | head => simp; omega
    | tail _ hc => exact ih (bs.drop 8) (by simp; omega) c hc

theorem chunks8_mem_bytes (n : Nat) (bs : List Nat) (hb : Bytes bs) :
    ∀ c ∈ chunks8 n bs, Bytes c := by
  induction n generalizing bs with
  | zero => intro c hc; cases hc
  | succ n ih =>
    intro c hc
    simp only [chunks8] at hc
    cases hc with
    | head => exact Bytes_take hb 8
    | tail _ hc => exact ih (bs.drop 8) (Bytes_drop hb 8) c hc

/-- cutting a concatenation of 8-byte windows gives the windows back -/
theorem chunks8_flatten (L : List (List Nat)) (h : ∀ c ∈ L, c.length = 8) :
    chunks8 L.length L.flatten = L := by
  induction L with
  | nil => rfl
  | cons c L ih =>
    have hc := h c List.mem_cons_self
    simp only [List.length_cons, chunks8, List.flatten_cons]
    rw [List.take_left' hc, List.drop_left' hc, ih (fun d hd => h d (List.mem_cons_of_mem _ hd))]

/-! ### word codecs -/

theorem wordFromLe_toLe {w : Nat} (h : w < B) : wordFromLeBytes (wordToLeBytes w) = w := by
  simp only [wordFromLeBytes, wordToLeBytes, leVal, digitsVal_digitsLe, B_eq_256]
  exact Nat.mod_eq_of_lt h

theorem wordFromBe_toBe {w : Nat} (h : w < B) : wordFromBeBytes (wordToBeBytes w) = w := by
  simp only [wordFromBeBytes, wordToBeBytes, List.reverse_reverse]
  exact wordFromLe_toLe h

theorem wordToLe_fromLe {c : List Nat} (hb : Bytes c) (hl : c.length = 8) :
    wordToLeBytes (wordFromLeBytes c) = c := by
  simp only [wordFromLeBytes, wordToLeBytes, leVal]
  rw [← hl]; exact digitsLe_digitsVal hb

theorem wordToBe_fromBe {c : List Nat} (hb : Bytes c) (hl : c.length = 8) :
    wordToBeBytes (wordFromBeBytes c) = c := by
  simp only [wordFromBeBytes, wordToBeBytes, leVal]
  have := digitsLe_digitsVal (Bytes_reverse.mpr hb)
  rw [List.length_reverse, hl] at this
  rw [this, List.reverse_reverse]

/-! ### decoders: value -/

theorem val_map_leVal_chunks8 (n : Nat) (bs : List Nat) (h : bs.length = 8 * n) :
    val ((chunks8 n bs).map leVal) = leVal bs := by
  induction n generalizing bs with
  | zero =>
    have : bs = [] := List.eq_nil_of_length_eq_zero (by omega)
    simp [chunks8, this, leVal]
  | succ n ih =>
    simp only [chunks8, List.map_cons, val_cons]
    rw [ih (bs.drop 8) (by simp; omega)]
    have e : leVal bs = leVal (bs.take 8 ++ bs.drop 8) := by rw [List.take_append_drop]
    rw [e]
    simp only [leVal, digitsVal_append]
    have : (bs.take 8).length = 8 := by simp; omega
    rw [this, B_eq_256]

theorem WF_map_leVal_chunks8 (n : Nat) (bs : List Nat) (h : bs.length = 8 * n) (hb : Bytes bs) :
    WF ((chunks8 n bs).map leVal) := by
  intro x hx
  rw [List.mem_map] at hx
  obtain ⟨c, hc, rfl⟩ := hx
  exact leVal_lt_B (chunks8_mem_bytes n bs hb c hc) (Nat.le_of_eq (chunks8_mem_length n bs h c hc))

/-- reversing the window order and each window = cutting the reversed string -/
theorem chunks8_reverse (n : Nat) (bs : List Nat) (h : bs.length = 8 * n) :
    ((chunks8 n bs).map List.reverse).reverse = chunks8 n bs.reverse := by
  have hl : ∀ c ∈ ((chunks8 n bs).map List.reverse).reverse, c.length = 8 := by
    intro c hc
    rw [List.mem_reverse, List.mem_map] at hc
    obtain ⟨d, hd, rfl⟩ := hc
    rw [List.length_reverse]; exact chunks8_mem_length n bs h d hd
  have hf : (((chunks8 n bs).map List.reverse).reverse).flatten = bs.reverse := by
    rw [← List.reverse_flatten, chunks8_flatten_self n bs h]
  have := chunks8_flatten _ hl
  rw [hf] at this
  simpa [chunks8_length] using this.symm

theorem fromLeSlice_spec {n : Nat} {bs : List Nat} (hb : Bytes bs) :
    fromLeSlice n bs = if bs.length = 8 * n then some (toLimbs n (leVal bs)) else none := by
  unfold fromLeSlice
  by_cases h : bs.length = 8 * n
  · simp only [h, if_true]
    congr 1
    exact eq_toLimbs (WF_map_leVal_chunks8 n bs h hb) (by simp [chunks8_length])
      (val_map_leVal_chunks8 n bs h)
  · simp [h]

theorem fromBeSlice_spec {n : Nat} {bs : List Nat} (hb : Bytes bs) :
    fromBeSlice n bs = if bs.length = 8 * n then some (toLimbs n (beVal bs)) else none := by
  unfold fromBeSlice
  by_cases h : bs.length = 8 * n
  · simp only [h, if_true]
    congr 1
    have e : ((chunks8 n bs).map wordFromBeBytes).reverse = (chunks8 n bs.reverse).map leVal := by
      rw [← chunks8_reverse n bs h, List.map_reverse, List.map_map]
      rfl
    rw [e, beVal_eq]
    have h' : bs.reverse.length = 8 * n := by simpa using h
    exact eq_toLimbs (WF_map_leVal_chunks8 n _ h' (Bytes_reverse.mpr hb)) (by simp [chunks8_length])
      (val_map_leVal_chunks8 n _ h')
  · simp [h]

/-! ### round trips -/

theorem fromLeSlice_toLe {l : List Nat} (h : WF l) : fromLeSlice l.length (uintToLeBytes l) = some l := by
  have hlen : (uintToLeBytes l).length = 8 * l.length := by rw [uintToLeBytes_eq h]; simp
  unfold fromLeSlice
  rw [if_pos hlen]
  congr 1
  have hc : ∀ c ∈ l.map wordToLeBytes, c.length = 8 := by
    intro c hc; rw [List.mem_map] at hc; obtain ⟨w, _, rfl⟩ := hc; simp [wordToLeBytes]
  have := chunks8_flatten (l.map wordToLeBytes) hc
  rw [List.length_map] at this
  unfold uintToLeBytes
  rw [this, List.map_map]
  conv => rhs; rw [← List.map_id l]
  apply List.map_congr_left
  intro w hw
  exact wordFromLe_toLe (h w hw)

theorem fromBeSlice_toBe {l : List Nat} (h : WF l) : fromBeSlice l.length (uintToBeBytes l) = some l := by
  have hlen : (uintToBeBytes l).length = 8 * l.length := by rw [uintToBeBytes_eq h]; simp
  unfold fromBeSlice
  rw [if_pos hlen]
  congr 1
  have hc : ∀ c ∈ l.reverse.map wordToBeBytes, c.length = 8 := by
    intro c hc; rw [List.mem_map] at hc; obtain ⟨w, _, rfl⟩ := hc; simp [wordToBeBytes]
  have := chunks8_flatten (l.reverse.map wordToBeBytes) hc
  rw [List.length_map, List.length_reverse] at this
  unfold uintToBeBytes
  rw [this, List.map_map]
  have : l.reverse.map (wordFromBeBytes ∘ wordToBeBytes) = l.reverse := by
    conv => rhs; rw [← List.map_id l.reverse]
    apply List.map_congr_left
    intro w hw
    exact wordFromBe_toBe (h w (List.mem_reverse.mp hw))
  rw [this, List.reverse_reverse]

theorem toLe_fromLeSlice {n : Nat} {bs l : List Nat} (hb : Bytes bs) (h : fromLeSlice n bs = some l) :
    uintToLeBytes l = bs := by
  unfold fromLeSlice at h
  by_cases hl : bs.length = 8 * n
  · rw [if_pos hl] at h
    injection h with h
    subst h
    unfold uintToLeBytes
    rw [List.map_map]
    have : (chunks8 n bs).map (wordToLeBytes ∘ wordFromLeBytes) = chunks8 n bs := by
      conv => rhs; rw [← List.map_id (chunks8 n bs)]
      apply List.map_congr_left
      intro c hc
      exact wordToLe_fromLe (chunks8_mem_bytes n bs hb c hc) (chunks8_mem_length n bs hl c hc)
    rw [this, chunks8_flatten_self n bs hl]
  · rw [if_neg hl] at h; cases h

theorem toBe_fromBeSlice {n : Nat} {bs l : List Nat} (hb : Bytes bs) (h : fromBeSlice n bs = some l) :
    uintToBeBytes l = bs := by
  unfold fromBeSlice at h
  by_cases hl : bs.length = 8 * n
  · rw [if_pos hl] at h
    injection h with h
    subst h
    unfold uintToBeBytes
    rw [List.reverse_reverse, List.map_map]
    have : (chunks8 n bs).map (wordToBeBytes ∘ wordFromBeBytes) = chunks8 n bs := by
      conv => rhs; rw [← List.map_id (chunks8 n bs)]
      apply List.map_congr_left
      intro c hc
      exact wordToBe_fromBe (chunks8_mem_bytes n bs hb c hc) (chunks8_mem_length n bs hl c hc)
    rw [this, chunks8_flatten_self n bs hl]
  · rw [if_neg hl] at h; cases h

end CB.Encoding
