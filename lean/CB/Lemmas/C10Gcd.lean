/-
  CB.Lemmas.C10Gcd — `Uint::gcd`: reduction to the odd-operand gcd (CB.Model.Gcd.gcdWith);
  boxed `inv_mod`; modulus zero; signed wrappers.
-/
import CB.Lemmas.C10Crt
import CB.Model.Gcd
namespace CB.Gcd
open CB.InvMod2k

/-- What `Uint::gcd` needs of `SafeGcdInverter::gcd(f, g)`: the mathematical gcd whenever at least
    one operand is odd (the code passes an even `f` when only `g` is odd), and for `f = g = 0`. -/
def OddGcdSpec (og : Nat → Nat → Nat) (w : Nat) : Prop :=
  ∀ f g, f < 2 ^ w → g < 2 ^ w → (f % 2 = 1 ∨ g % 2 = 1) → og f g = Nat.gcd f g

theorem div_pow_le_tz {w a k : Nat} (h0 : 0 < a) (hlt : a < 2 ^ w) (hk : k ≤ tz w a) :
    a / 2 ^ k * 2 ^ k = a := by
  obtain ⟨_, h2, _⟩ := tzNat_spec w a h0 hlt
  unfold tz at hk
  generalize tzNat w a = t at *
  have hd : 2 ^ k ∣ 2 ^ t := Nat.pow_dvd_pow 2 hk
  have hd2 : 2 ^ t ∣ a := Dvd.intro_left _ h2
  exact Nat.div_mul_cancel (dvd_trans hd hd2)

theorem gcdWith_spec (og : Nat → Nat → Nat) (w a b : Nat) (H : OddGcdSpec og w)
    (ha : a < 2 ^ w) (hb : b < 2 ^ w) : gcdWith og w a b = Nat.gcd a b := by
  unfold gcdWith
  rcases Nat.eq_zero_or_pos a with ha0 | ha0
  · subst ha0
    rcases Nat.eq_zero_or_pos b with hb0 | hb0
    · subst hb0
      simp [tz, tzNat_zero]
    · obtain ⟨hk, hmul, hodd⟩ := tzNat_spec w b hb0 hb
      simp only [tz, tzNat_zero, if_pos hk, Nat.zero_div, hodd, decide_true, Bool.not_true,
        Bool.false_eq_true, if_false, if_true, Nat.gcd_zero_left]
      have hs : b / 2 ^ tzNat w b < 2 ^ w := lt_of_le_of_lt (Nat.div_le_self _ _) hb
      rw [H 0 _ (Nat.two_pow_pos w) hs (Or.inr hodd), Nat.gcd_zero_left, hmul, Nat.mod_eq_of_lt hb]
  · rcases Nat.eq_zero_or_pos b with hb0 | hb0
    · subst hb0
      obtain ⟨hk, hmul, hodd⟩ := tzNat_spec w a ha0 ha
      have hnlt : ¬ w < tzNat w a := by omega
      simp only [tz, tzNat_zero, if_neg hnlt, if_pos hk, Nat.zero_div, Nat.zero_mod,
        show ¬ (0 = 1) by omega, decide_false, Bool.not_false, if_true, Bool.false_eq_true, if_false,
        Nat.gcd_zero_right]
      have hs : a / 2 ^ tzNat w a < 2 ^ w := lt_of_le_of_lt (Nat.div_le_self _ _) ha
      rw [H 0 _ (Nat.two_pow_pos w) hs (Or.inr hodd), Nat.gcd_zero_left, hmul, Nat.mod_eq_of_lt ha]
    · -- both positive
      obtain ⟨hk1, hmul1, hodd1⟩ := tzNat_spec w a ha0 ha
      obtain ⟨hk2, hmul2, hodd2⟩ := tzNat_spec w b hb0 hb
      dsimp only
      generalize hk : (if tz w b < tz w a then tz w b else tz w a) = k
      have hka : k ≤ tz w a := by rw [← hk]; split <;> omega
      have hkb : k ≤ tz w b := by rw [← hk]; split <;> omega
      have hkw : k < w := by unfold tz at hka; omega
      have e1 := div_pow_le_tz ha0 ha hka
      have e2 := div_pow_le_tz hb0 hb hkb
      have hone : (a / 2 ^ k) % 2 = 1 ∨ (b / 2 ^ k) % 2 = 1 := by
        by_cases h : tz w b < tz w a
        · right; rw [if_pos h] at hk; rw [← hk]; exact hodd2
        · left; rw [if_neg h] at hk; rw [← hk]; exact hodd1
      simp only [if_pos hkw]
      have hs1 : a / 2 ^ k < 2 ^ w := lt_of_le_of_lt (Nat.div_le_self _ _) ha
      have hs2 : b / 2 ^ k < 2 ^ w := lt_of_le_of_lt (Nat.div_le_self _ _) hb
      have hg : Nat.gcd a b = Nat.gcd (a / 2 ^ k) (b / 2 ^ k) * 2 ^ k := by
        conv_lhs => rw [← e1, ← e2]
        exact Nat.gcd_mul_right _ _ _
      have hle : Nat.gcd a b ≤ a := Nat.gcd_le_left b ha0
      by_cases h2 : (b / 2 ^ k) % 2 = 1
      · simp only [h2, decide_true, Bool.not_true, Bool.false_eq_true, if_false, if_true]
        rw [H _ _ hs1 hs2 (Or.inr h2), ← hg, Nat.mod_eq_of_lt (by omega)]
      · have h1 : (a / 2 ^ k) % 2 = 1 := by rcases hone with h | h; exact h; exact absurd h h2
        simp only [h2, decide_false, Bool.not_false, if_true, Bool.false_eq_true, if_false]
        rw [H _ _ hs2 hs1 (Or.inr h1), Nat.gcd_comm, ← hg, Nat.mod_eq_of_lt (by omega)]

/-- `Gcd::gcd_vartime for Uint` -/
theorem gcdVartimeWith_spec (og ogv : Nat → Nat → Nat) (w a b : Nat) (H : OddGcdSpec og w)
    (Hv : OddGcdSpec ogv w) (ha : a < 2 ^ w) (hb : b < 2 ^ w) :
    gcdVartimeWith og ogv w a b = Nat.gcd a b := by
  unfold gcdVartimeWith
  split
  · next h => exact Hv a b ha hb (Or.inl h)
  · exact gcdWith_spec og w a b H ha hb

/-! ### `inv_mod`: modulus zero, boxed form, signed wrappers -/

/-- DESIGN §7 row 8 after /repo be88d84, proved of the model: `Uint::inv_mod(a, 0)` is `none` for every
    `a` (it used to panic at `expect("inverse mod 2^k exists")`). -/
theorem invModWith_zero_modulus (inv : Nat → Nat → Option Nat) (w a : Nat) :
    (match invModWith inv w a 0 with | R.none => True | _ => False) := by
  unfold invModWith
  have h1 : tz w 0 = w := tzNat_zero w
  simp only [h1, Nat.lt_irrefl, if_false, Nat.zero_mod, show ¬ (0 = 1) by omega, decide_false,
    Bool.and_false, Bool.false_and, Bool.false_eq_true]

/-- `BoxedUint::inv_mod(a, 0)` is `none`. -/
theorem invModBoxedWith_zero_modulus (inv : Nat → Nat → Option Nat) (w a : Nat) :
    (match invModBoxedWith inv w a 0 with | R.none => True | _ => False) := by
  unfold invModBoxedWith
  have h1 : tz w 0 = w := tzNat_zero w
  simp only [h1, Nat.lt_irrefl, if_false, Nat.zero_mod, show ¬ (0 = 1) by omega, decide_false,
    Bool.and_false, Bool.false_and, Bool.false_eq_true]

theorem invModBoxedWith_spec (inv : Nat → Nat → Option Nat) (w a m : Nat) (H : OddInvSpec inv w)
    (ha : a < 2 ^ w) (hm0 : 0 < m) (hm : m < 2 ^ w) :
    match invModBoxedWith inv w a m with
    | R.some x => Nat.gcd a m = 1 ∧ (x < m ∨ (m = 1 ∧ x = 1)) ∧ a * x ≡ 1 [MOD m]
    | R.none => Nat.gcd a m ≠ 1
    | R.panic => False := by
  obtain ⟨hk, hmul, hsodd⟩ := tzNat_spec w m hm0 hm
  generalize hkdef : tzNat w m = k at hk hmul hsodd
  generalize hsdef : m / 2 ^ k = s at hmul hsodd
  have hpos : 0 < 2 ^ k := Nat.two_pow_pos k
  have hs_lt : s < 2 ^ w := by
    have : s ≤ s * 2 ^ k := Nat.le_mul_of_pos_right s hpos
    omega
  have hcop : Nat.Coprime s (2 ^ k) := ((coprime_two_pow_iff s k).mpr (Or.inr hsodd))
  have hsi := invMod2k_spec (w := w) (a := s) (k := k) (by omega) hsodd
  have hgcd : Nat.gcd a m = 1 ↔ (Nat.gcd a s = 1 ∧ (k = 0 ∨ a % 2 = 1)) := by
    rw [← hmul]
    have := @Nat.coprime_mul_iff_right a s (2 ^ k)
    unfold Nat.Coprime at this
    rw [this]
    have h2 := coprime_two_pow_iff a k
    unfold Nat.Coprime at h2
    rw [h2]
  have hspec := H a s ha hs_lt hsodd
  unfold invModBoxedWith tz
  simp only [hkdef, if_pos hk, hsdef, hsodd, decide_true, Bool.and_true]
  cases hinv : inv a s with
  | none =>
    rw [hinv] at hspec
    simp only [Option.isSome_none, Bool.false_and, Bool.false_eq_true, if_false]
    intro h; exact hspec (hgcd.mp h).1
  | some xs =>
    rw [hinv] at hspec
    obtain ⟨hg, hxs, hax⟩ := hspec
    simp only [Option.isSome_some, Bool.true_and, Option.getD_some]
    by_cases hb : (k = 0 ∨ a % 2 = 1)
    · have hb2 : (invMod2k w a k).2 = true := by rw [invMod2k_snd]; simpa using hb
      simp only [hb2, if_true]
      have hbs : (invMod2k w a k).1 < 2 ^ k ∧ a * (invMod2k w a k).1 ≡ 1 [MOD 2 ^ k] := by
        rcases hb with h0 | h1
        · subst h0
          rw [inv2k_zero]
          simp [Nat.ModEq, Nat.mod_one]
        · exact invMod2k_spec (by omega) h1
      have := crt_core (w := w) (s := s) (k := k) (a := a) (xs := xs) (b := (invMod2k w a k).1)
        (si := (invMod2k w s k).1) hk (by rw [hmul]; exact hm) hcop hxs hax hbs.1 hbs.2 hsi.2
      simp only at this
      rw [hmul] at this
      exact ⟨hgcd.mpr ⟨hg, hb⟩, this.1, this.2⟩
    · have hb2 : (invMod2k w a k).2 = false := by
        rw [invMod2k_snd]
        have : ¬ k = 0 ∧ ¬ a % 2 = 1 := by
          constructor
          · intro h; exact hb (Or.inl h)
          · intro h; exact hb (Or.inr h)
        simp [this.1, this.2]
      simp only [hb2, Bool.false_eq_true, if_false]
      intro h; exact hb (hgcd.mp h).2

end CB.Gcd
