/-
  CB.Lemmas.C09Boxed — the boxed ladder (almost-Montgomery values, two final conditional subtractions) for
  property C09. Uses C08's T08.4: `CB.P08.amm_congruence_and_bound` and `CB.P08.amm_reduction_error`.
-/
import CB.Lemmas.C09Pow
namespace CB.Pow
open CB CB.Monty

/-- `z` is SOME `n`-limb value congruent to `V·B^n` (not necessarily reduced). -/
structure Cong (ms z : List Nat) (V : Nat) : Prop where
  wf : WF z
  len : z.length = ms.length
  cong : val z ≡ V * B ^ ms.length [MOD val ms]

theorem Cong.congr {ms z V W} (h : Cong ms z V) (e : V = W) : Cong ms z W := e ▸ h

theorem Rep.toCong {ms z V} (h : Rep ms z V) : Cong ms z V :=
  ⟨h.wf, h.len, by rw [Nat.ModEq, h.eq, Nat.mod_mod]⟩

/-- AMM multiplies the denoted residues and its reduction error is at most one more than the smaller one
    (C08 T08.4). -/
theorem Cong.amm {ms x y k V W} (hm : ModOK ms k) (hx : Cong ms x V) (hy : Cong ms y W) :
    Cong ms (almostMontgomeryMul x y ms k) (V * W) ∧
    val (almostMontgomeryMul x y ms k) / val ms ≤ min (val x / val ms) (val y / val ms) + 1 := by
  have ⟨h1, _, h3, h4⟩ := CB.P08.amm_congruence_and_bound x y ms k hx.wf hy.wf hm.wf hx.len hy.len hm.k
  refine ⟨⟨h3, h4, ?_⟩, CB.P08.amm_reduction_error x y ms k hx.wf hy.wf hm.wf hx.len hy.len hm.k⟩
  apply Nat.ModEq.cancel_right_of_coprime (c := B ^ ms.length)
  · exact Nat.Coprime.symm (coprime_Bpow_of_odd hm.odd ms.length)
  · calc val (almostMontgomeryMul x y ms k) * B ^ ms.length ≡ val x * val y [MOD val ms] := h1
      _ ≡ (V * B ^ ms.length) * (W * B ^ ms.length) [MOD val ms] := hx.cong.mul hy.cong
      _ = V * W * B ^ ms.length * B ^ ms.length := by ring

/-! ### table, lookup -/

structure BTable (ms : List Nat) (powers : List (List Nat)) (X : Nat) : Prop where
  len : powers.length = 16
  rep : ∀ j, j < 16 → Cong ms (powers.getD j []) (X ^ j) ∧ val (powers.getD j []) / val ms ≤ 1

theorem bPowersLoop_spec {ms x k X} (hm : ModOK ms k) (hx : Rep ms x X) :
    ∀ (fuel : Nat) (p : List (List Nat)), 1 ≤ p.length → fuel + p.length = 16 →
      (∀ j, j < p.length → Cong ms (p.getD j []) (X ^ j) ∧ val (p.getD j []) / val ms ≤ 1) →
      BTable ms (bPowersLoop x ms k fuel p) X := by
  intro fuel
  induction fuel with
  | zero =>
    intro p _ hl hrep
    show BTable ms p X
    exact ⟨by omega, fun j hj => hrep j (by omega)⟩
  | succ f ih =>
    intro p h1 hl hrep
    show BTable ms (bPowersLoop x ms k f (p ++ [almostMontgomeryMul (p.getD (p.length - 1) []) x ms k])) X
    apply ih _ (by simp) (by simp; omega)
    intro j hj
    simp only [List.length_append, List.length_singleton] at hj
    by_cases hjl : j < p.length
    · have : (p ++ [almostMontgomeryMul (p.getD (p.length - 1) []) x ms k]).getD j [] = p.getD j [] := by
        simp [List.getD_eq_getElem?_getD, List.getElem?_append_left hjl]
      rw [this]; exact hrep j hjl
    · have hje : j = p.length := by omega
      subst hje
      have hget : (p ++ [almostMontgomeryMul (p.getD (p.length - 1) []) x ms k]).getD p.length [] =
          almostMontgomeryMul (p.getD (p.length - 1) []) x ms k := by
        simp [List.getD_eq_getElem?_getD]
      rw [hget]
      have ⟨hc, hb⟩ := Cong.amm hm (hrep (p.length - 1) (by omega)).1 hx.toCong
      refine ⟨hc.congr ?_, ?_⟩
      · have : p.length = (p.length - 1) + 1 := by omega
        conv => rhs; rw [this, Nat.pow_succ]
      · have : val x / val ms = 0 := Nat.div_eq_of_lt (hx.lt hm)
        rw [this] at hb
        omega

theorem bComputePowers_spec {ms x one k X} (hm : ModOK ms k) (hx : Rep ms x X) (hone : Rep ms one 1) :
    BTable ms (bComputePowers x ms one k) X := by
  unfold bComputePowers
  rw [BTABLE_eq]
  apply bPowersLoop_spec hm hx 14 _ (by simp) (by simp)
  intro j hj
  simp only [List.length_cons, List.length_nil] at hj
  have : j = 0 ∨ j = 1 := by omega
  rcases this with h | h <;> subst h
  · exact ⟨hone.toCong.congr (by simp), by
      simp only [List.getD_cons_zero]; rw [Nat.div_eq_of_lt (hone.lt hm)]; omega⟩
  · exact ⟨hx.toCong.congr (by simp), by
      simp only [List.getD_cons_succ, List.getD_cons_zero]; rw [Nat.div_eq_of_lt (hx.lt hm)]; omega⟩

theorem bLookupLoop_spec {n : Nat} (powers : List (List Nat)) (idx : Nat) (hidx : idx < 16)
    (hp : ∀ j, j < 16 → WF (powers.getD j []) ∧ (powers.getD j []).length = n) :
    ∀ (fuel j : Nat) (power : List Nat), fuel + j = 16 → WF power → power.length = n →
      bLookupLoop powers idx fuel j power = if j ≤ idx then powers.getD idx [] else power := by
  intro fuel
  induction fuel with
  | zero =>
    intro j power hj _ _
    have : ¬ j ≤ idx := by omega
    simp [bLookupLoop, this]
  | succ f ih =>
    intro j power hj hw hl
    have ⟨hpw, hpl⟩ := hp j (by omega)
    show bLookupLoop powers idx f (j + 1) (uselect power (powers.getD j []) (if j = idx then WMAX else 0)) = _
    have hmask : (if j = idx then WMAX else 0) = mask (decide (j = idx)) := by
      by_cases h : j = idx <;> simp [h, mask]
    rw [hmask, uselect_spec _ hw hpw (by rw [hl, hpl])]
    by_cases hji : j = idx
    · subst hji
      simp only [decide_true, if_true, Nat.le_refl]
      rw [ih (j + 1) _ (by omega) hpw hpl]
      simp
    · simp only [hji, decide_false, Bool.false_eq_true, if_false]
      rw [ih (j + 1) _ (by omega) hw hl]
      by_cases h : j ≤ idx
      · have : j + 1 ≤ idx := by omega
        simp [h, this]
      · have : ¬ j + 1 ≤ idx := by omega
        simp [h, this]

theorem bLookup_spec {ms powers X} (ht : BTable ms powers X) (idx : Nat) (hidx : idx < 16) :
    bLookup powers idx = powers.getD idx [] := by
  have hp : ∀ j, j < 16 → WF (powers.getD j []) ∧ (powers.getD j []).length = ms.length :=
    fun j hj => ⟨(ht.rep j hj).1.wf, (ht.rep j hj).1.len⟩
  unfold bLookup
  rw [BTABLE_eq, bLookupLoop_spec powers idx hidx hp 15 1 _ rfl (hp 0 (by omega)).1 (hp 0 (by omega)).2]
  by_cases h : 1 ≤ idx
  · simp [h]
  · have : idx = 0 := by omega
    subst this; simp

/-! ### squarings, window body, loops -/

theorem bSquareLoop_four {ms z k V} (hm : ModOK ms k) (hz : Cong ms z V) :
    Cong ms (bSquareLoop ms k BWINDOW z) (V ^ 16) := by
  have h1 := (Cong.amm hm hz hz).1
  have h2 := (Cong.amm hm h1 h1).1
  have h3 := (Cong.amm hm h2 h2).1
  have h4 := (Cong.amm hm h3 h3).1
  have : bSquareLoop ms k BWINDOW z =
      almostMontgomeryMul (almostMontgomeryMul (almostMontgomeryMul (almostMontgomeryMul z z ms k)
        (almostMontgomeryMul z z ms k) ms k) (almostMontgomeryMul (almostMontgomeryMul z z ms k)
        (almostMontgomeryMul z z ms k) ms k) ms k) (almostMontgomeryMul (almostMontgomeryMul
        (almostMontgomeryMul z z ms k) (almostMontgomeryMul z z ms k) ms k) (almostMontgomeryMul
        (almostMontgomeryMul z z ms k) (almostMontgomeryMul z z ms k) ms k) ms k) ms k := rfl
  rw [this]
  exact h4.congr (by ring)

theorem bWindowBody_spec {ms k} (hm : ModOK ms k) (bits : Nat) (hb : 0 < bits)
    {powers X} (ht : BTable ms powers X) {el : List Nat} (hel : WF el) (ln wn : Nat) (hwn : wn ≤ 15)
    (hvisit : (ln = (startOf WINDOW bits).limb ∧ wn ≤ (startOf WINDOW bits).window) ∨
              ln < (startOf WINDOW bits).limb)
    {z} (hz : Cong ms z (X ^ pre (val el) bits (64 * ln + 4 * wn + 4))) :
    Cong ms (bWindowBody powers ms k (startOf BWINDOW bits) (el.getD ln 0) ln wn z)
      (X ^ pre (val el) bits (64 * ln + 4 * wn)) ∧
    val (bWindowBody powers ms k (startOf BWINDOW bits) (el.getD ln 0) ln wn z) / val ms ≤ 2 := by
  have hD := windowIdx_digit bits hb ln wn hwn hvisit el hel
  have ⟨hg, _, _⟩ := startOf_geometry bits hb
  have hst : startOf BWINDOW bits = startOf WINDOW bits := rfl
  have hsplit : X ^ pre (val el) bits (64 * ln + 4 * wn) =
      (X ^ pre (val el) bits (64 * ln + 4 * wn + 4)) ^ 16 * X ^ (pre (val el) bits (64 * ln + 4 * wn) % 16) := by
    conv => lhs; rw [pre_step]
    rw [Nat.pow_add, Nat.mul_comm 16, Nat.pow_mul]
  have h16 : pre (val el) bits (64 * ln + 4 * wn) % 16 < 16 := Nat.mod_lt _ (by decide)
  rw [hst]
  unfold bWindowBody
  unfold windowIdx at hD
  generalize hfirst : (ln == (startOf WINDOW bits).limb && wn == (startOf WINDOW bits).window) = first at hD
  simp only []
  have hBW : BWINDOW = WINDOW := rfl
  have hBM : BWINDOW_MASK = WINDOW_MASK := rfl
  rw [hBW, hBM]
  cases first with
  | true =>
    simp only [if_true] at hD ⊢
    rw [hD, bLookup_spec ht _ h16]
    have hf : ln = (startOf WINDOW bits).limb ∧ wn = (startOf WINDOW bits).window := by simpa using hfirst
    have hz0 : pre (val el) bits (64 * ln + 4 * wn + 4) = 0 := pre_eq_zero (by rw [hf.1, hf.2]; omega)
    have ⟨hc, hbd⟩ := Cong.amm hm hz (ht.rep _ h16).1
    refine ⟨hc.congr ?_, ?_⟩
    · rw [hsplit, hz0]; simp
    · have := (ht.rep _ h16).2
      omega
  | false =>
    simp only [Bool.false_eq_true, if_false] at hD ⊢
    rw [hD, bLookup_spec ht _ h16]
    have ⟨hc, hbd⟩ := Cong.amm hm (bSquareLoop_four hm hz) (ht.rep _ h16).1
    refine ⟨hc.congr hsplit.symm, ?_⟩
    have := (ht.rep _ h16).2
    rw [hBW] at hbd
    omega

theorem bWindowLoop_spec {ms k} (hm : ModOK ms k) (bits : Nat) (hb : 0 < bits)
    {powers X} (ht : BTable ms powers X) {el : List Nat} (hel : WF el) (ln : Nat) :
    ∀ (wn : Nat), ((ln = (startOf WINDOW bits).limb ∧ wn ≤ (startOf WINDOW bits).window + 1) ∨
        (ln < (startOf WINDOW bits).limb ∧ wn ≤ 16)) →
      ∀ {z}, Cong ms z (X ^ pre (val el) bits (64 * ln + 4 * wn)) →
      Cong ms (bWindowLoop powers ms k (startOf BWINDOW bits) (el.getD ln 0) ln wn z)
        (X ^ pre (val el) bits (64 * ln)) ∧
      ((0 < wn ∨ val z / val ms ≤ 2) →
        val (bWindowLoop powers ms k (startOf BWINDOW bits) (el.getD ln 0) ln wn z) / val ms ≤ 2) := by
  have ⟨_, hw15, _⟩ := startOf_geometry bits hb
  intro wn
  induction wn with
  | zero => intro _ z hz; exact ⟨hz, fun h => by rcases h with h | h; exact absurd h (by decide); exact h⟩
  | succ w ih =>
    intro hcap z hz
    show Cong ms (bWindowLoop powers ms k (startOf BWINDOW bits) (el.getD ln 0) ln w
      (bWindowBody powers ms k (startOf BWINDOW bits) (el.getD ln 0) ln w z)) _ ∧ (_ →
      val (bWindowLoop powers ms k (startOf BWINDOW bits) (el.getD ln 0) ln w
      (bWindowBody powers ms k (startOf BWINDOW bits) (el.getD ln 0) ln w z)) / val ms ≤ 2)
    have ⟨hc, hbd⟩ := bWindowBody_spec hm bits hb ht hel ln w (by omega) (by omega)
      (z := z) (hz.congr (by congr 1))
    have ⟨r1, r2⟩ := ih (by omega) hc
    exact ⟨r1, fun _ => r2 (Or.inr hbd)⟩

theorem bLimbLoop_spec {ms k} (hm : ModOK ms k) (bits : Nat) (hb : 0 < bits)
    {powers X} (ht : BTable ms powers X) {el : List Nat} (hel : WF el) :
    ∀ (ln : Nat), ln ≤ (startOf WINDOW bits).limb + 1 →
      ∀ {z}, Cong ms z (X ^ pre (val el) bits (64 * ln)) →
      Cong ms (bLimbLoop powers el ms k (startOf BWINDOW bits) ln z) (X ^ pre (val el) bits 0) ∧
      ((0 < ln ∨ val z / val ms ≤ 2) →
        val (bLimbLoop powers el ms k (startOf BWINDOW bits) ln z) / val ms ≤ 2) := by
  have ⟨hg, hw15, _⟩ := startOf_geometry bits hb
  have hst : startOf BWINDOW bits = startOf WINDOW bits := rfl
  intro ln
  induction ln with
  | zero => intro _ z hz; exact ⟨hz, fun h => by rcases h with h | h; exact absurd h (by decide); exact h⟩
  | succ l ih =>
    intro hle z hz
    show Cong ms (bLimbLoop powers el ms k (startOf BWINDOW bits) l
      (bWindowLoop powers ms k (startOf BWINDOW bits) (el.getD l 0) l
        (if l == (startOf BWINDOW bits).limb then (startOf BWINDOW bits).window + 1 else LIMB_BITS / BWINDOW) z)) _
      ∧ (_ → val (bLimbLoop powers el ms k (startOf BWINDOW bits) l
      (bWindowLoop powers ms k (startOf BWINDOW bits) (el.getD l 0) l
        (if l == (startOf BWINDOW bits).limb then (startOf BWINDOW bits).window + 1 else LIMB_BITS / BWINDOW) z))
        / val ms ≤ 2)
    by_cases hl : l = (startOf WINDOW bits).limb
    · have hc : (l == (startOf BWINDOW bits).limb) = true := by rw [hst]; simp [hl]
      simp only [hc, if_true]
      rw [show (startOf BWINDOW bits).window = (startOf WINDOW bits).window from rfl]
      have ⟨c1, b1⟩ := bWindowLoop_spec hm bits hb ht hel l _ (Or.inl ⟨hl, Nat.le_refl _⟩) (z := z)
        (hz.congr (by rw [pre_eq_zero (by omega), pre_eq_zero (by omega)]))
      have ⟨r1, r2⟩ := ih (by omega) c1
      exact ⟨r1, fun _ => r2 (Or.inr (b1 (Or.inl (by omega))))⟩
    · have hc : (l == (startOf BWINDOW bits).limb) = false := by rw [hst]; simp [hl]
      simp only [hc, Bool.false_eq_true, if_false]
      have h16 : LIMB_BITS / BWINDOW = 16 := rfl
      rw [h16]
      have ⟨c1, b1⟩ := bWindowLoop_spec hm bits hb ht hel l 16 (Or.inr ⟨by omega, Nat.le_refl _⟩) (z := z)
        (hz.congr (by congr 1))
      have ⟨r1, r2⟩ := ih (by omega) c1
      exact ⟨r1, fun _ => r2 (Or.inr (b1 (Or.inl (by omega))))⟩

/-! ### the final conditional subtractions -/

theorem reduceOnce_spec {z m : List Nat} (hz : WF z) (hm : WF m) (hl : z.length = m.length) :
    val (reduceOnce z m) = (if val m ≤ val z then val z - val m else val z) ∧
    WF (reduceOnce z m) ∧ (reduceOnce z m).length = m.length := by
  have hzlt := val_lt hz
  have hmlt := val_lt hm
  have ⟨s1, _, s3⟩ := usbb_spec hz hm B_pos hl
  have hbit : ctLtBit z m = if val z < val m then 1 else 0 := by
    unfold ctLtBit choiceBit fromWordMask
    by_cases hne : z = []
    · subst hne
      have : m = [] := List.length_eq_zero_iff.mp hl.symm
      subst this; simp [usbb, val]
    · rcases s3 hne with h | h
      · rw [h] at s1 ⊢
        have : ¬ val z < val m := by
          simp only [Nat.zero_div, Nat.mul_zero, Nat.add_zero] at s1; omega
        simp [this]
      · rw [h] at s1 ⊢
        have hw : WMAX / HALF = 1 := by decide
        rw [hw] at s1
        have hz0 : (0 : Nat) / HALF = 0 := by decide
        rw [hz0] at s1
        have ho := val_lt (usbb_WF z m 0)
        rw [usbb_length z m 0 hl] at ho
        have : val z < val m := by omega
        simp only [this, if_true]; decide
  unfold reduceOnce condSbbAssign
  rw [hbit]
  by_cases hlt : val z < val m
  · simp only [hlt, if_true, Nat.sub_self]
    rw [bitandLimb_zero]
    have ⟨t1, _, _⟩ := usbb_spec hz (uzero_WF m.length) B_pos (by simp [uzero, hl])
    have ho := val_lt (usbb_WF z (uzero m.length) 0)
    rw [usbb_length z _ 0 (by simp [uzero, hl])] at ho
    rw [val_uzero] at t1
    have hz0 : (0 : Nat) / HALF = 0 := by decide
    rw [hz0] at t1
    have hq : (usbb z (uzero m.length) 0).2 / HALF = 0 := by
      rcases Nat.eq_zero_or_pos ((usbb z (uzero m.length) 0).2 / HALF) with h | h
      · exact h
      · exfalso
        have : B ^ z.length ≤ B ^ z.length * ((usbb z (uzero m.length) 0).2 / HALF) :=
          Nat.le_mul_of_pos_right _ h
        omega
    rw [hq] at t1
    have hnle : ¬ val m ≤ val z := by omega
    refine ⟨by simp only [hnle, if_false]; omega, usbb_WF _ _ _, ?_⟩
    rw [usbb_length z _ 0 (by simp [uzero, hl]), hl]
  · have hne : ((1 : Nat) - (if val z < val m then 1 else 0) = 0) = False := by simp [hlt]
    simp only [hlt, if_false, Nat.sub_zero, Nat.one_ne_zero]
    rw [bitandLimb_max hm]
    have ho := val_lt (usbb_WF z m 0)
    rw [usbb_length z m 0 hl] at ho
    have hz0 : (0 : Nat) / HALF = 0 := by decide
    rw [hz0] at s1
    have hq : (usbb z m 0).2 / HALF = 0 := by
      rcases Nat.eq_zero_or_pos ((usbb z m 0).2 / HALF) with h | h
      · exact h
      · exfalso
        have : B ^ z.length ≤ B ^ z.length * ((usbb z m 0).2 / HALF) := Nat.le_mul_of_pos_right _ h
        omega
    rw [hq] at s1
    have hle : val m ≤ val z := by omega
    refine ⟨by simp only [hle, if_true]; omega, usbb_WF _ _ _, ?_⟩
    rw [usbb_length z m 0 hl, hl]

/-- two conditional subtractions bring any `z < 3m` into `[0, m)` without changing its residue. -/
theorem reduceTwice_spec {z m : List Nat} (hz : WF z) (hm : WF m) (hl : z.length = m.length)
    (hpos : 0 < val m) (h3 : val z / val m ≤ 2) :
    val (reduceOnce (reduceOnce z m) m) = val z % val m ∧
    WF (reduceOnce (reduceOnce z m) m) ∧ (reduceOnce (reduceOnce z m) m).length = m.length := by
  have ⟨a1, a2, a3⟩ := reduceOnce_spec hz hm hl
  have ⟨b1, b2, b3⟩ := reduceOnce_spec a2 hm a3
  refine ⟨?_, b2, b3⟩
  rw [b1, a1]
  have hdm := Nat.div_add_mod (val z) (val m)
  have hml := Nat.mod_lt (val z) hpos
  generalize val z / val m = q at *
  generalize val z % val m = r at *
  have hq : q = 0 ∨ q = 1 ∨ q = 2 := by omega
  rcases hq with h | h | h <;> subst h
  · have : val z = r := by omega
    rw [this]
    have h1 : ¬ val m ≤ r := by omega
    simp [h1]
  · have : val z = val m + r := by omega
    rw [this]
    have h1 : val m ≤ val m + r := by omega
    have h2 : ¬ val m ≤ r := by omega
    simp [h2]
  · have : val z = val m + (val m + r) := by omega
    rw [this]
    have h2 : ¬ val m ≤ r := by omega
    have h3 : val m + (val m + r) - val m = val m + r := by omega
    simp [h3, h2]

/-- boxed `pow_montgomery_form` for `exponent_bits > 0`. -/
theorem bPowMont_spec {ms x e one k X} (hm : ModOK ms k) (hone : Rep ms one 1) (hx : Rep ms x X) (he : WF e)
    (bits : Nat) (hb : 0 < bits) :
    Rep ms (bPowMont x e bits ms one k) (X ^ (val e % 2 ^ bits)) := by
  have ⟨hg, _, _⟩ := startOf_geometry bits hb
  have hst : startOf BWINDOW bits = startOf WINDOW bits := rfl
  have ht := bComputePowers_spec hm hx hone
  unfold bPowMont
  simp only [Nat.ne_of_gt hb, if_false]
  have ⟨c, bd⟩ := bLimbLoop_spec hm bits hb ht he ((startOf WINDOW bits).limb + 1) (Nat.le_refl _)
    (z := one) (hone.toCong.congr (by rw [pre_eq_zero (by omega)]; simp))
  rw [hst] at *
  have ⟨r1, r2, r3⟩ := reduceTwice_spec c.wf hm.wf c.len hm.pos (bd (Or.inl (by omega)))
  refine ⟨r2, r3, ?_⟩
  rw [r1, ← pre_zero_pos]
  exact c.cong

end CB.Pow
