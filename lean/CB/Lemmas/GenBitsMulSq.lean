/-
  CB.Lemmas.GenBitsMulSq — what ONE ROUND of each of the five translated loops of `schoolbook_squaring` is
  (CB/Gen/MulRows.lean, regenerated from src/uint/mul.rs, src/limb/add.rs, src/limb/shr.rs on every run by
  tools/translate.py), what the function around the loops is, and the meaning of `Limb::{overflowing_add, shr}`.
  Same method as CB/Lemmas/GenBitsMulRows.lean (whose tactics `rows_eq` / `addr_eq` are used): this is the only file that
  looks at the generated TEXT of the squaring; every lemma unfolds the generated definitions and, where the two sides are
  not already identical, decides the words with `bv_decide` modulo congruence (the recursive calls, `List.set`,
  `List.getD` stay folded).  The right-hand sides address the two slices `lo` / `hi` by `if k ≥ limbs.length`, whatever
  the spelling of the test in the source; the inductions over the limb count are in CB/Lemmas/GenMulSq.lean.

  `bv_decide` file: its name matches `*Bits*`.
-/
import CB.Lemmas.GenBitsMulRows
set_option linter.unusedSimpArgs false
set_option linter.unusedVariables false
namespace CB.GenBits
open CB.Gen CB.Gen.Chains

/-- `rows_eq` of GenBitsMulRows.lean, with products of indices (`i * 2` for `2 * i`) brought into one order too and a
    deeper congruence descent (the diagonal round nests `set (getD (set ..))`) -/
macro "sq_rows_eq" : tactic =>
  `(tactic| ((try simp only [gen_defs]) <;> (try simp only [Nat.mul_comm, Nat.add_comm, Nat.add_left_comm, Nat.add_assoc]) <;> (try simp only [BitVec.mul_comm]) <;> rows_congr 12))

/-- a round whose two sides still contain address tests (the source's, in whatever spelling, and the statement's):
    split them all, drop the contradictory combinations, compare the rest -/
macro "sq_eq" : tactic =>
  `(tactic| ((try dsimp only) <;> first | sq_rows_eq | ((repeat' split) <;> first | (exfalso; omega) | sq_rows_eq)))

/-- the word at position `k` of the two slices -/
abbrev sqGet (len : Nat) (lo hi : List (BitVec 64)) (k : Nat) : BitVec 64 :=
  if k ≥ len then hi.getD (k - len) 0#64 else lo.getD k 0#64
/-- the slices after a store at position `k` -/
abbrev sqSetLo (len : Nat) (lo : List (BitVec 64)) (k : Nat) (v : BitVec 64) : List (BitVec 64) :=
  if k ≥ len then lo else lo.set k v
abbrev sqSetHi (len : Nat) (hi : List (BitVec 64)) (k : Nat) (v : BitVec 64) : List (BitVec 64) :=
  if k ≥ len then hi.set (k - len) v else hi

/-! ## `impl Limb` (src/limb/add.rs, src/limb/shr.rs) -/

theorem limb_overflowing_add_eq (a b : BitVec 64) : MulRows.LimbSq.overflowing_add a b = Prim.overflowing_add a b := by
  round_eq
/-- `Limb::shr(Limb::BITS - 1)`: the top bit -/
theorem limb_shr_eq (a : BitVec 64) (s : BitVec 32) : MulRows.LimbSq.shr a s = a >>> (s % 64#32) := by
  round_eq

/-! ## pass 1, the inner loop `while j < i` of the off-diagonal rows -/

theorem sq_inner_zero (limbs : List (BitVec 64)) (i : Nat) (xi : BitVec 64) (j : Nat) (lo hi : List (BitVec 64))
    (c : BitVec 64) :
    MulRows.schoolbook_squaring_loop2 limbs i xi 0 j lo hi c = (lo, hi, c) := by
  rw [MulRows.schoolbook_squaring_loop2]

/-- one round: `(w[k], carry) = w[k].mac(xi, limbs[j], carry)` at position `k = i + j` of the two slices -/
theorem sq_inner_succ (limbs : List (BitVec 64)) (i : Nat) (xi : BitVec 64) (n j : Nat) (lo hi : List (BitVec 64))
    (c : BitVec 64) (h : j < i) :
    MulRows.schoolbook_squaring_loop2 limbs i xi (n + 1) j lo hi c =
      MulRows.schoolbook_squaring_loop2 limbs i xi n (j + 1)
        (sqSetLo limbs.length lo (i + j) (Prim.mac (sqGet limbs.length lo hi (i + j)) xi (limbs.getD j 0#64) c).1)
        (sqSetHi limbs.length hi (i + j) (Prim.mac (sqGet limbs.length lo hi (i + j)) xi (limbs.getD j 0#64) c).1)
        (Prim.mac (sqGet limbs.length lo hi (i + j)) xi (limbs.getD j 0#64) c).2 := by
  rw [MulRows.schoolbook_squaring_loop2, if_pos h]
  by_cases hk : i + j ≥ limbs.length
  · simp only [sqGet, sqSetLo, sqSetHi, if_pos hk, if_neg (show ¬ i + j < limbs.length by omega)] <;> sq_eq
  · simp only [sqGet, sqSetLo, sqSetHi, if_neg hk, if_pos (show i + j < limbs.length by omega)] <;> sq_eq

/-! ## pass 1, the outer loop `while i < limbs.len()` (from `i = 1`) -/

theorem sq_rows_zero (limbs : List (BitVec 64)) (i : Nat) (lo hi : List (BitVec 64)) :
    MulRows.schoolbook_squaring_loop1 limbs 0 i lo hi = (lo, hi) := by
  rw [MulRows.schoolbook_squaring_loop1]

/-- one row: carry 0, `xi = limbs[i]`, the inner loop from `j = 0` with `i` rounds, then the carry is STORED at `2 i` -/
theorem sq_rows_succ (limbs : List (BitVec 64)) (n i : Nat) (lo hi : List (BitVec 64)) (h : i < limbs.length) :
    MulRows.schoolbook_squaring_loop1 limbs (n + 1) i lo hi =
      MulRows.schoolbook_squaring_loop1 limbs n (i + 1)
        (sqSetLo limbs.length (MulRows.schoolbook_squaring_loop2 limbs i (limbs.getD i 0#64) i 0 lo hi 0#64).1 (2 * i)
          (MulRows.schoolbook_squaring_loop2 limbs i (limbs.getD i 0#64) i 0 lo hi 0#64).2.2)
        (sqSetHi limbs.length (MulRows.schoolbook_squaring_loop2 limbs i (limbs.getD i 0#64) i 0 lo hi 0#64).2.1 (2 * i)
          (MulRows.schoolbook_squaring_loop2 limbs i (limbs.getD i 0#64) i 0 lo hi 0#64).2.2) := by
  rw [MulRows.schoolbook_squaring_loop1, if_pos h]
  by_cases hk : 2 * i ≥ limbs.length
  · simp only [sqSetLo, sqSetHi, if_pos hk, if_neg (show ¬ 2 * i < limbs.length by omega)] <;> sq_eq
  · simp only [sqSetLo, sqSetHi, if_neg hk, if_pos (show 2 * i < limbs.length by omega)] <;> sq_eq

/-! ## pass 2, the doubling loops over `lo` (`i < limbs.len()`) and over `hi` (`i < limbs.len() - 1`) -/

theorem sq_dbl_lo_zero (limbs : List (BitVec 64)) (i : Nat) (lo : List (BitVec 64)) (c : BitVec 64) :
    MulRows.schoolbook_squaring_loop3 limbs 0 i lo c = (lo, c) := by
  rw [MulRows.schoolbook_squaring_loop3]

/-- one round: `(lo[i].0, carry) = ((lo[i].0 << 1) | carry.0, lo[i].shr(Limb::BITS - 1))` -/
theorem sq_dbl_lo_succ (limbs : List (BitVec 64)) (n i : Nat) (lo : List (BitVec 64)) (c : BitVec 64)
    (h : i < limbs.length) :
    MulRows.schoolbook_squaring_loop3 limbs (n + 1) i lo c =
      MulRows.schoolbook_squaring_loop3 limbs n (i + 1) (lo.set i (((lo.getD i 0#64) <<< 1) ||| c)) ((lo.getD i 0#64) >>> 63) := by
  rw [MulRows.schoolbook_squaring_loop3, if_pos h] <;> rows_eq

theorem sq_dbl_hi_zero (limbs : List (BitVec 64)) (i : Nat) (hi : List (BitVec 64)) (c : BitVec 64) :
    MulRows.schoolbook_squaring_loop4 limbs 0 i hi c = (hi, c) := by
  rw [MulRows.schoolbook_squaring_loop4]

theorem sq_dbl_hi_succ (limbs : List (BitVec 64)) (n i : Nat) (hi : List (BitVec 64)) (c : BitVec 64)
    (h : i < limbs.length - 1) :
    MulRows.schoolbook_squaring_loop4 limbs (n + 1) i hi c =
      MulRows.schoolbook_squaring_loop4 limbs n (i + 1) (hi.set i (((hi.getD i 0#64) <<< 1) ||| c)) ((hi.getD i 0#64) >>> 63) := by
  rw [MulRows.schoolbook_squaring_loop4, if_pos h] <;> rows_eq

/-! ## pass 3, the diagonal loop -/

theorem sq_diag_zero (limbs : List (BitVec 64)) (i : Nat) (lo hi : List (BitVec 64)) (c : BitVec 64) :
    MulRows.schoolbook_squaring_loop5 limbs 0 i lo hi c = (lo, hi, c) := by
  rw [MulRows.schoolbook_squaring_loop5]

/-- one round: `(w[2i], carry) = w[2i].mac(xi, xi, carry)`, then `(w[2i+1], carry) = w[2i+1].overflowing_add(carry)`,
    `w` = the two slices addressed by the index test -/
theorem sq_diag_succ (limbs : List (BitVec 64)) (n i : Nat) (lo hi : List (BitVec 64)) (c : BitVec 64)
    (h : i < limbs.length) :
    MulRows.schoolbook_squaring_loop5 limbs (n + 1) i lo hi c =
      MulRows.schoolbook_squaring_loop5 limbs n (i + 1)
        (sqSetLo limbs.length (sqSetLo limbs.length lo (2 * i)
            (Prim.mac (sqGet limbs.length lo hi (2 * i)) (limbs.getD i 0#64) (limbs.getD i 0#64) c).1) (2 * i + 1)
          (Prim.overflowing_add
            (sqGet limbs.length
              (sqSetLo limbs.length lo (2 * i) (Prim.mac (sqGet limbs.length lo hi (2 * i)) (limbs.getD i 0#64) (limbs.getD i 0#64) c).1)
              (sqSetHi limbs.length hi (2 * i) (Prim.mac (sqGet limbs.length lo hi (2 * i)) (limbs.getD i 0#64) (limbs.getD i 0#64) c).1)
              (2 * i + 1))
            (Prim.mac (sqGet limbs.length lo hi (2 * i)) (limbs.getD i 0#64) (limbs.getD i 0#64) c).2).1)
        (sqSetHi limbs.length (sqSetHi limbs.length hi (2 * i)
            (Prim.mac (sqGet limbs.length lo hi (2 * i)) (limbs.getD i 0#64) (limbs.getD i 0#64) c).1) (2 * i + 1)
          (Prim.overflowing_add
            (sqGet limbs.length
              (sqSetLo limbs.length lo (2 * i) (Prim.mac (sqGet limbs.length lo hi (2 * i)) (limbs.getD i 0#64) (limbs.getD i 0#64) c).1)
              (sqSetHi limbs.length hi (2 * i) (Prim.mac (sqGet limbs.length lo hi (2 * i)) (limbs.getD i 0#64) (limbs.getD i 0#64) c).1)
              (2 * i + 1))
            (Prim.mac (sqGet limbs.length lo hi (2 * i)) (limbs.getD i 0#64) (limbs.getD i 0#64) c).2).1)
        (Prim.overflowing_add
            (sqGet limbs.length
              (sqSetLo limbs.length lo (2 * i) (Prim.mac (sqGet limbs.length lo hi (2 * i)) (limbs.getD i 0#64) (limbs.getD i 0#64) c).1)
              (sqSetHi limbs.length hi (2 * i) (Prim.mac (sqGet limbs.length lo hi (2 * i)) (limbs.getD i 0#64) (limbs.getD i 0#64) c).1)
              (2 * i + 1))
            (Prim.mac (sqGet limbs.length lo hi (2 * i)) (limbs.getD i 0#64) (limbs.getD i 0#64) c).2).2 := by
  rw [MulRows.schoolbook_squaring_loop5, if_pos h]
  by_cases hk : 2 * i ≥ limbs.length <;> by_cases hk1 : 2 * i + 1 ≥ limbs.length
  · simp only [sqGet, sqSetLo, sqSetHi, if_pos hk, if_pos hk1] <;> sq_eq
  · exfalso; omega
  · simp only [sqGet, sqSetLo, sqSetHi, if_neg hk, if_pos hk1] <;> sq_eq
  · simp only [sqGet, sqSetLo, sqSetHi, if_neg hk, if_neg hk1] <;> sq_eq

/-! ## the function around the loops -/

/-- rows from `i = 1` (`limbs.len() - 1` rounds), doubling of `lo` then of all but the top limb of `hi` with one running
    carry, that carry STORED into the top limb, the diagonal from carry 0; the diagonal's final carry is dropped -/
theorem schoolbook_squaring_eq_loops (limbs lo hi : List (BitVec 64)) :
    MulRows.schoolbook_squaring limbs lo hi =
      ((MulRows.schoolbook_squaring_loop5 limbs limbs.length 0
          (MulRows.schoolbook_squaring_loop3 limbs limbs.length 0
            (MulRows.schoolbook_squaring_loop1 limbs (limbs.length - 1) 1 lo hi).1 0#64).1
          ((MulRows.schoolbook_squaring_loop4 limbs (limbs.length - 1) 0
            (MulRows.schoolbook_squaring_loop1 limbs (limbs.length - 1) 1 lo hi).2
            (MulRows.schoolbook_squaring_loop3 limbs limbs.length 0
              (MulRows.schoolbook_squaring_loop1 limbs (limbs.length - 1) 1 lo hi).1 0#64).2).1.set (limbs.length - 1)
            (MulRows.schoolbook_squaring_loop4 limbs (limbs.length - 1) 0
              (MulRows.schoolbook_squaring_loop1 limbs (limbs.length - 1) 1 lo hi).2
              (MulRows.schoolbook_squaring_loop3 limbs limbs.length 0
                (MulRows.schoolbook_squaring_loop1 limbs (limbs.length - 1) 1 lo hi).1 0#64).2).2) 0#64).1,
       (MulRows.schoolbook_squaring_loop5 limbs limbs.length 0
          (MulRows.schoolbook_squaring_loop3 limbs limbs.length 0
            (MulRows.schoolbook_squaring_loop1 limbs (limbs.length - 1) 1 lo hi).1 0#64).1
          ((MulRows.schoolbook_squaring_loop4 limbs (limbs.length - 1) 0
            (MulRows.schoolbook_squaring_loop1 limbs (limbs.length - 1) 1 lo hi).2
            (MulRows.schoolbook_squaring_loop3 limbs limbs.length 0
              (MulRows.schoolbook_squaring_loop1 limbs (limbs.length - 1) 1 lo hi).1 0#64).2).1.set (limbs.length - 1)
            (MulRows.schoolbook_squaring_loop4 limbs (limbs.length - 1) 0
              (MulRows.schoolbook_squaring_loop1 limbs (limbs.length - 1) 1 lo hi).2
              (MulRows.schoolbook_squaring_loop3 limbs limbs.length 0
                (MulRows.schoolbook_squaring_loop1 limbs (limbs.length - 1) 1 lo hi).1 0#64).2).2) 0#64).2.1) := by
  simp only [MulRows.schoolbook_squaring]

end CB.GenBits
