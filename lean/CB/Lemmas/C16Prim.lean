/-
  CB.Lemmas.C16Prim — words, primitive integers, concat / split / resize, sign extension.
-/
import CB.Lemmas.C16Digits
import CB.Lemmas.WordBits
namespace CB.Encoding

theorem fromWords_id (l : List Nat) : fromWords l = l := by
  induction l with
  | nil => rfl
  | cons w ws ih => simp [fromWords, ih]
theorem toWords_id (l : List Nat) : toWords l = l := by
  induction l with
  | nil => rfl
  | cons w ws ih => simp [toWords, ih]

theorem val_replicate_max (k : Nat) : val (List.replicate k WMAX) + 1 = B ^ k := by
  induction k with
  | zero => rfl
  | succ k ih =>
    rw [List.replicate_succ, val_cons, Nat.pow_succ, ← ih]
    simp only [WMAX_def, B_def]
    omega

/-! ### unsigned primitives -/

theorem fromWord_spec (n w : Nat) (hw : w < B) :
    ∃ l, fromWord (n + 1) w = some l ∧ val l = w ∧ WF l ∧ l.length = n + 1 := by
  refine ⟨w :: List.replicate n 0, rfl, ?_, ?_, by simp⟩
  · rw [val_cons, val_replicate_zero]; omega
  · exact WF_cons.mpr ⟨hw, WF_replicate B_pos⟩

theorem fromWord_zero (w : Nat) : fromWord 0 w = none := rfl

theorem fromU128_spec (n x : Nat) (hx : x < B * B) :
    ∃ l, fromU128 (n + 2) x = some l ∧ val l = x ∧ WF l ∧ l.length = n + 2 := by
  refine ⟨(x % B) :: (x / B % B) :: List.replicate n 0, rfl, ?_, ?_, by simp⟩
  · rw [val_cons, val_cons, val_replicate_zero]
    have : x / B < B := (Nat.div_lt_iff_lt_mul B_pos).mpr hx
    rw [Nat.mod_eq_of_lt this, Nat.mul_zero, Nat.add_zero]
    exact Nat.mod_add_div x B
  · exact WF_cons.mpr ⟨Nat.mod_lt _ B_pos, WF_cons.mpr ⟨Nat.mod_lt _ B_pos, WF_replicate B_pos⟩⟩

theorem fromU128_small (x : Nat) : fromU128 0 x = none ∧ fromU128 1 x = none := ⟨rfl, rfl⟩

theorem toU64_spec (w : Nat) : toU64 [w] = val [w] := by simp [toU64]

theorem toU128_spec {l0 l1 : Nat} (h0 : l0 < B) (h1 : l1 < B) : toU128 [l0, l1] = val [l0, l1] := by
  simp only [toU128, val_cons, val_nil, Nat.mul_zero, Nat.add_zero]
  have hlt : l1 * B < B * B := Nat.mul_lt_mul_of_lt_of_le h1 (Nat.le_refl _) B_pos
  rw [Nat.mod_eq_of_lt hlt]
  have e : l1 * B = l1 <<< 64 := by rw [Nat.shiftLeft_eq, B_eq_pow]
  rw [e, ← Nat.shiftLeft_add_eq_or_of_lt (by rw [← B_eq_pow]; exact h0), Nat.shiftLeft_eq, ← B_eq_pow]
  rw [Nat.mul_comm B l1, Nat.add_comm]

/-! ### concat / split / resize -/

theorem concatMixed_spec {lo hi : List Nat} (hl : WF lo) (hh : WF hi) :
    concatMixed (lo.length + hi.length) lo hi = lo ++ hi ∧
    val (concatMixed (lo.length + hi.length) lo hi) = val lo + B ^ lo.length * val hi ∧
    WF (concatMixed (lo.length + hi.length) lo hi) := by
  have e : concatMixed (lo.length + hi.length) lo hi = lo ++ hi := by
    unfold concatMixed
    rw [Nat.sub_self, List.replicate_zero, List.append_nil, List.take_of_length_le (by simp)]
  rw [e]
  exact ⟨rfl, val_append lo hi, WF_append.mpr ⟨hl, hh⟩⟩

theorem splitMixed_spec {x : List Nat} (ll hl : Nat) (hx : WF x) (hlen : x.length = ll + hl) :
    splitMixed ll hl x = (x.take ll, x.drop ll) ∧
    val (splitMixed ll hl x).1 = val x % B ^ ll ∧ val (splitMixed ll hl x).2 = val x / B ^ ll ∧
    (splitMixed ll hl x).1.length = ll ∧ (splitMixed ll hl x).2.length = hl := by
  have e : splitMixed ll hl x = (x.take ll, x.drop ll) := by
    unfold splitMixed
    simp only
    rw [List.take_of_length_le (Nat.le_of_eq hlen)]
    have h1 : ll - x.length = 0 := by omega
    have h2 : hl - (x.length - ll) = 0 := by omega
    rw [h1, h2]; simp
  rw [e]
  refine ⟨rfl, val_take x ll hx, val_drop x ll hx, ?_, ?_⟩
  · simp; omega
  · simp; omega

theorem uintResize_spec {l : List Nat} (t : Nat) (h : WF l) :
    val (uintResize t l) = val l % B ^ t ∧ WF (uintResize t l) ∧ (uintResize t l).length = t := by
  unfold uintResize
  refine ⟨?_, WF_append.mpr ⟨WF_take h t, WF_replicate B_pos⟩, ?_⟩
  · rw [val_append, val_replicate_zero, Nat.mul_zero, Nat.add_zero, val_take l t h]
  · rw [List.length_append, List.length_take, List.length_replicate]; omega

theorem uintResize_widen {l : List Nat} (t : Nat) (h : WF l) (ht : l.length ≤ t) :
    val (uintResize t l) = val l := by
  rw [(uintResize_spec t h).1]
  exact Nat.mod_eq_of_lt (Nat.lt_of_lt_of_le (val_lt h) (Nat.pow_le_pow_right B_pos ht))

/-! ### sign -/

theorem div_HALF {t : Nat} (ht : t < B) : t / HALF = if HALF ≤ t then 1 else 0 := by
  by_cases h : HALF ≤ t
  · rw [if_pos h]; simp only [B_def, HALF_def] at *; omega
  · rw [if_neg h]; simp only [B_def, HALF_def] at *; omega

theorem intIsNegative_spec {l : List Nat} (h : l.getLastD 0 < B) :
    intIsNegative l = mask (decide (HALF ≤ l.getLastD 0)) := by
  unfold intIsNegative
  rw [div_HALF h]
  have := fromWordLsb_01 (decide (HALF ≤ l.getLastD 0))
  by_cases hh : HALF ≤ l.getLastD 0
  · simp only [hh, decide_true, if_true] at this ⊢; exact this
  · simp only [hh, decide_false, if_false] at this ⊢
    simpa using this

theorem getLastD_lt {l : List Nat} (h : WF l) : l.getLastD 0 < B := by
  cases hl : l.getLast? with
  | none =>
    rw [List.getLastD_eq_getLast?, hl]; exact B_pos
  | some x =>
    rw [List.getLastD_eq_getLast?, hl]
    exact h x (List.mem_of_getLast? hl)

theorem intFill_spec {l : List Nat} (h : WF l) :
    selectWord 0 WMAX (intIsNegative l) = if HALF ≤ l.getLastD 0 then WMAX else 0 := by
  rw [intIsNegative_spec (getLastD_lt h), selectWord_spec _ B_pos (by decide)]
  by_cases hh : HALF ≤ l.getLastD 0 <;> simp

theorem toInt_eq {l : List Nat} (h : WF l) :
    toInt l = if HALF ≤ l.getLastD 0 then (val l : Int) - ((B ^ l.length : Nat) : Int) else (val l : Int) := by
  unfold toInt
  rw [div_HALF (getLastD_lt h)]
  by_cases hh : HALF ≤ l.getLastD 0
  · simp (config := { decide := true }) only [hh, if_true]
  · simp (config := { decide := true }) only [hh, if_false]

/-- truncation: `T ≤ LIMBS` keeps the low limbs -/
theorem intResize_shorten {l : List Nat} (t : Nat) (h : WF l) (ht : t ≤ l.length) :
    intResize t l = l.take t ∧ val (intResize t l) = val l % B ^ t := by
  have e : intResize t l = l.take t := by
    unfold intResize
    have : t - l.length = 0 := by omega
    simp [this]
  exact ⟨e, by rw [e, val_take l t h]⟩

/-- sign extension: `T ≥ LIMBS ≥ 1` preserves the two's-complement value -/
theorem intResize_widen {l : List Nat} (t : Nat) (h : WF l) (_h1 : 1 ≤ l.length) (ht : l.length ≤ t) :
    toInt (intResize t l) = toInt l ∧ WF (intResize t l) ∧ (intResize t l).length = t := by
  have hfill := intFill_spec h
  have hr : intResize t l = l ++ List.replicate (t - l.length) (if HALF ≤ l.getLastD 0 then WMAX else 0) := by
    unfold intResize
    simp only
    rw [hfill, List.take_of_length_le ht]
  have hwf : WF (intResize t l) := by
    rw [hr]
    refine WF_append.mpr ⟨h, WF_replicate ?_⟩
    split <;> decide
  have hlen : (intResize t l).length = t := by
    rw [hr, List.length_append, List.length_replicate]; omega
  refine ⟨?_, hwf, hlen⟩
  rw [toInt_eq hwf, toInt_eq h, hlen]
  by_cases hk : t = l.length
  · -- nothing appended
    have : intResize t l = l := by rw [hr, hk]; simp
    rw [this, hk]
  · have hk' : 0 < t - l.length := by omega
    have hlast : (intResize t l).getLastD 0 = (if HALF ≤ l.getLastD 0 then WMAX else 0) := by
      rw [hr, List.getLastD_eq_getLast?, List.getLast?_append]
      obtain ⟨m, hm⟩ : ∃ m, t - l.length = m + 1 := ⟨t - l.length - 1, by omega⟩
      rw [hm]
      simp [List.getLast?_replicate]
    have hpow : B ^ t = B ^ l.length * B ^ (t - l.length) := by
      rw [← Nat.pow_add]; congr 1; omega
    by_cases hneg : HALF ≤ l.getLastD 0
    · have hl1 : HALF ≤ (intResize t l).getLastD 0 := by rw [hlast, if_pos hneg]; decide
      rw [if_pos hl1, if_pos hneg, hr, if_pos hneg, val_append]
      have hm := val_replicate_max (t - l.length)
      generalize B ^ (t - l.length) = K at *
      generalize val (List.replicate (t - l.length) WMAX) = M at *
      subst hm
      rw [hpow, Nat.mul_add]
      generalize B ^ l.length * M = P
      generalize B ^ l.length = N
      simp only [Nat.mul_one]
      omega
    · have hl0 : ¬ HALF ≤ (intResize t l).getLastD 0 := by rw [hlast, if_neg hneg]; decide
      rw [if_neg hl0, if_neg hneg, hr, if_neg hneg, val_append, val_replicate_zero, Nat.mul_zero,
        Nat.add_zero]

/-! ### `Int::resize` as one formula -/

theorem ofInt_natCast (t v : Nat) : ofInt t (v : Int) = v % B ^ t := by
  unfold ofInt
  rw [← Int.natCast_emod, Int.toNat_natCast]

theorem ofInt_sub_mul (t v K : Nat) : ofInt t ((v : Int) - ((B ^ t * K : Nat) : Int)) = v % B ^ t := by
  unfold ofInt
  rw [Int.natCast_mul, Int.sub_mul_emod_self_left, ← Int.natCast_emod, Int.toNat_natCast]

theorem ofInt_toInt {r : List Nat} (t : Nat) (hr : WF r) (ht : t ≤ r.length) :
    ofInt t (toInt r) = val r % B ^ t := by
  rw [toInt_eq hr]
  have hp : B ^ r.length = B ^ t * B ^ (r.length - t) := by
    rw [← Nat.pow_add]; congr 1; omega
  by_cases hneg : HALF ≤ r.getLastD 0
  · rw [if_pos hneg, hp, ofInt_sub_mul]
  · rw [if_neg hneg, ofInt_natCast]

/-- `Int::resize` in one formula: the `T`-limb two's-complement pattern of the signed value -/
theorem intResize_ofInt {l : List Nat} (t : Nat) (h : WF l) (h1 : 1 ≤ l.length) :
    val (intResize t l) = ofInt t (toInt l) := by
  by_cases ht : t ≤ l.length
  · rw [(intResize_shorten t h ht).2, ofInt_toInt t h ht]
  · have ⟨e, hwf, hlen⟩ := intResize_widen t h h1 (by omega)
    rw [← e, ofInt_toInt t hwf (by omega)]
    have hv := val_lt hwf
    rw [hlen] at hv
    exact (Nat.mod_eq_of_lt hv).symm
/-! ### signed primitives -/

theorem signExtend_spec {bits v : Nat} (hb1 : 1 ≤ bits) (hb : bits ≤ 64) (hv : v < 2 ^ bits) :
    signExtendToWord bits v < B ∧ toInt [signExtendToWord bits v] = signedVal bits v := by
  obtain ⟨k, rfl⟩ : ∃ k, bits = k + 1 := ⟨bits - 1, by omega⟩
  have hh : 2 ^ k ≤ HALF := by
    have : (2:Nat) ^ k ≤ 2 ^ 63 := Nat.pow_le_pow_right (by decide) (by omega)
    simpa [HALF_def] using this
  have h2 : 2 ^ (k + 1) = 2 * 2 ^ k := by rw [Nat.pow_succ, Nat.mul_comm]
  have hpos : 0 < 2 ^ k := Nat.pow_pos (by decide)
  have hv' : v < 2 * 2 ^ k := by rw [← h2]; exact hv
  unfold signExtendToWord signedVal
  simp only [Nat.add_sub_cancel]
  rw [Nat.mod_eq_of_lt hv, h2]
  clear hv h2
  generalize 2 ^ k = h at hv' hh hpos ⊢
  by_cases hge : h ≤ v
  · have hd : v / h = 1 := Nat.div_eq_of_lt_le (by omega) (by omega)
    rw [hd]
    simp only [Nat.one_mod, if_true]
    have hw : v + (B - 2 * h) < B := by simp only [B_def, HALF_def] at *; omega
    refine ⟨hw, ?_⟩
    have hwf : WF [v + (B - 2 * h)] := WF_cons.mpr ⟨hw, WF_nil⟩
    rw [toInt_eq hwf]
    have : HALF ≤ [v + (B - 2 * h)].getLastD 0 := by
      simp only [List.getLastD_cons, List.getLastD_nil]
      simp only [B_def, HALF_def] at *; omega
    rw [if_pos this]
    simp only [val_cons, val_nil, List.length_cons, List.length_nil, B_def, HALF_def] at *
    omega
  · have hd : v / h = 0 := Nat.div_eq_of_lt (by omega)
    rw [hd]
    simp only [Nat.zero_mod, Nat.zero_ne_one, if_false]
    have hw : v < B := by simp only [B_def, HALF_def] at *; omega
    refine ⟨hw, ?_⟩
    have hwf : WF [v] := WF_cons.mpr ⟨hw, WF_nil⟩
    rw [toInt_eq hwf]
    have : ¬ HALF ≤ [v].getLastD 0 := by
      simp only [List.getLastD_cons, List.getLastD_nil]
      omega
    rw [if_neg this]
    simp

/-- `Int::<n+1>::from_i8/i16/i32/i64`: the signed value is preserved for every limb count ≥ 1 -/
theorem intFromPrim_spec {bits v : Nat} (n : Nat) (hb1 : 1 ≤ bits) (hb : bits ≤ 64) (hv : v < 2 ^ bits) :
    ∃ l, intFromPrim bits (n + 1) v = some l ∧ toInt l = signedVal bits v ∧ WF l ∧ l.length = n + 1 := by
  have ⟨hw, hs⟩ := signExtend_spec hb1 hb hv
  have hwf : WF [signExtendToWord bits v] := WF_cons.mpr ⟨hw, WF_nil⟩
  have ⟨h1, h2, h3⟩ := intResize_widen (n + 1) hwf (by simp) (by simp)
  exact ⟨_, rfl, by rw [h1, hs], h2, h3⟩

theorem i128_limbs {v : Nat} (hv : v < 2 ^ 128) :
    WF [v % B, v / B % B] ∧ toInt [v % B, v / B % B] = signedVal 128 v := by
  have hB2 : (2:Nat) ^ 128 = B * B := by decide
  have hq : v / B < B := (Nat.div_lt_iff_lt_mul B_pos).mpr (by rw [← hB2]; exact hv)
  have hwf : WF [v % B, v / B % B] :=
    WF_cons.mpr ⟨Nat.mod_lt _ B_pos, WF_cons.mpr ⟨Nat.mod_lt _ B_pos, WF_nil⟩⟩
  refine ⟨hwf, ?_⟩
  rw [toInt_eq hwf]
  unfold signedVal
  have hval : val [v % B, v / B % B] = v := by
    simp only [val_cons, val_nil, Nat.mul_zero, Nat.add_zero]
    rw [Nat.mod_eq_of_lt hq]; exact Nat.mod_add_div v B
  have hlast : [v % B, v / B % B].getLastD 0 = v / B := by
    simp [Nat.mod_eq_of_lt hq]
  rw [hval, hlast]
  have h127 : (2:Nat) ^ (128 - 1) = B * HALF := by decide
  rw [h127, ← Nat.div_div_eq_div_mul, div_HALF hq]
  have hp : (B ^ [v % B, v / B % B].length : Nat) = 2 ^ 128 := by
    show B ^ 2 = 2 ^ 128; decide
  rw [hp]
  by_cases hh : HALF ≤ v / B <;> simp [hh]

/-- `Int::<n+2>::from_i128` preserves the value for every limb count ≥ 2 -/
theorem intFromI128_spec {v : Nat} (n : Nat) (hv : v < 2 ^ 128) :
    ∃ l, intFromI128 (n + 2) v = some l ∧ toInt l = signedVal 128 v ∧ WF l ∧ l.length = n + 2 := by
  have ⟨hwf, hs⟩ := i128_limbs hv
  have ⟨h1, h2, h3⟩ := intResize_widen (n + 2) hwf (by simp) (by simp)
  refine ⟨intResize (n + 2) [v % B, v / B % B], ?_, by rw [h1, hs], h2, h3⟩
  unfold intFromI128
  rw [if_neg (by omega)]

/-- below two limbs the constructor refuses (the assertion added by /repo 77eeede) -/
theorem intFromI128_narrow (v : Nat) : intFromI128 1 v = none ∧ intFromI128 0 v = none := ⟨rfl, rfl⟩

/-- `Int::<1>::from_i128` AS IT WAS WRITTEN before the repair kept only the low limb -/
theorem intFromI128Old_one (v : Nat) : intFromI128Old 1 v = [v % B] := by
  unfold intFromI128Old intResize
  simp

end CB.Encoding
