/-
  CB.Lemmas.GenRedc — the hand-written model of Montgomery reduction (`lowerChain`, `upperChain`, `redcLoop`, `redcInner`,
  `montgomeryReduction` of CB/Model/Monty.lean — what T08.1 `redc_inner_spec` / `redc_spec` are proved about) IS the
  translated source of src/modular/reduction.rs (CB/Gen/Modular.lean, namespace CB.Gen.Modular.Reduction), for EVERY limb
  count and all operands.

  The model consumes `lower` limb by limb and threads the unconsumed modulus limbs from the first inner chain to the second;
  the source works in place with index arithmetic (`lower[i + j]`, `upper[i + j - nlimbs]`).  The three bridges are inductions
  over the fuel of the translated loops (the invariant `counter + fuel = bound` makes every loop test true):
    first inner loop   lower' = lower[.. i+j] ++ lowerChain (lower[i+j ..]) (modulus[j ..]);  it stops at `j = nlimbs - i`;
    second inner loop  keeps `upper[.. t]` (`t = i + j - nlimbs`), and the model's `upperChain` — which also does the final
                       `adc` into `upper[i]` — on `upper[t ..]` is the loop result with that `adc` written at `i`;
    outer loop         `redcLoop` on `lower[i ..]` is the translated loop from `i`.
  One round of each loop comes from CB/Lemmas/GenBitsRedc.lean, one word from `mac_bridge` / `adc_bridge` / `wmul_toNat`.
  No `bv_decide` in this file.
-/
import CB.Lemmas.GenBitsRedc
import CB.Lemmas.GenModularMonty
import CB.Lemmas.C08Redc
namespace CB.GenRedc
open CB CB.Gen CB.GenBits CB.GenChains CB.Monty
open CB.Gen.Modular

/-! ## list facts -/

theorem nats_drop (l : List (BitVec 64)) (k : Nat) : nats (l.drop k) = (nats l).drop k := by
  simp [nats, List.map_drop]

theorem drop_set_self (l : List (BitVec 64)) (i : Nat) (s : BitVec 64) (h : i < l.length) :
    (l.set i s).drop i = s :: l.drop (i + 1) := by
  induction l generalizing i with
  | nil => simp at h
  | cons x xs ih =>
    cases i with
    | zero => simp
    | succ j => simpa using ih j (by simpa using h)

theorem getD_of_take_succ (l p : List (BitVec 64)) (w : BitVec 64) (t : Nat) (hp : p.length = t)
    (h : l.take (t + 1) = p ++ [w]) : l.getD t 0#64 = w := by
  have hl : t < l.length := by
    have := congrArg List.length h
    simp at this
    omega
  have e : l.getD t 0#64 = l[t] := by simp [List.getD, hl]
  have e2 : (l.take (t + 1))[t]'(by simp; omega) = l[t] := by simp
  rw [e, ← e2]
  simp [h, hp]

/-! ## first inner loop -/

theorem redc_loop2_bridge (ms : List (BitVec 64)) (n i : Nat) (u : BitVec 64) (hms : ms.length = n) :
    ∀ (f j : Nat) (lower : List (BitVec 64)) (c : BitVec 64), i + j + f = n → lower.length = n →
      (Reduction.montgomery_reduction_inner_loop2 ms n i u f j lower c).1 = n - i ∧
      nats (Reduction.montgomery_reduction_inner_loop2 ms n i u f j lower c).2.1 =
        nats (lower.take (i + j)) ++
          (lowerChain u.toNat (nats (lower.drop (i + j))) (nats (ms.drop j)) c.toNat).1 ∧
      (Reduction.montgomery_reduction_inner_loop2 ms n i u f j lower c).2.2.toNat =
        (lowerChain u.toNat (nats (lower.drop (i + j))) (nats (ms.drop j)) c.toNat).2.1 ∧
      (lowerChain u.toNat (nats (lower.drop (i + j))) (nats (ms.drop j)) c.toNat).2.2 = nats (ms.drop (n - i)) ∧
      (Reduction.montgomery_reduction_inner_loop2 ms n i u f j lower c).2.1.length = n := by
  intro f
  induction f with
  | zero =>
    intro j lower c hj hl
    have hj' : j = n - i := by omega
    rw [redc_loop2_zero, List.drop_of_length_le (l := lower) (by omega), List.take_of_length_le (l := lower) (by omega)]
    refine ⟨hj', ?_, ?_, ?_, hl⟩
    · simp [nats, lowerChain_nil]
    · simp [nats, lowerChain_nil]
    · simp [nats, lowerChain_nil, hj']
  | succ f ih =>
    intro j lower c hj hl
    have hlt : j < n - i := by omega
    obtain ⟨i1, i2, i3, i4, i5⟩ := ih (j + 1)
      (lower.set (i + j) (Prim.mac (lower.getD (i + j) 0#64) u (ms.getD j 0#64) c).1)
      (Prim.mac (lower.getD (i + j) 0#64) u (ms.getD j 0#64) c).2 (by omega) (by simpa using hl)
    rw [redc_loop2_succ ms n i u f j lower c hlt, drop_eq_getD_cons lower (i + j) (by omega),
      drop_eq_getD_cons ms j (by omega)]
    have ea : i + (j + 1) = i + j + 1 := rfl
    rw [ea, List.drop_set_of_lt (by omega : i + j < i + j + 1)] at i2 i3 i4
    rw [take_set_succ lower (i + j) _ (by omega)] at i2
    simp only [nats, List.map_cons] at i2 i3 i4 ⊢
    rw [lowerChain_cons, mac_bridge]
    refine ⟨i1, ?_, i3, i4, i5⟩
    rw [i2]
    simp only [List.map_append, List.map_cons, List.map_nil, List.append_assoc, List.cons_append, List.nil_append]

/-! ## second inner loop and the `adc` into `upper[i]` -/

theorem redc_loop3_bridge (ms : List (BitVec 64)) (n i : Nat) (u mc : BitVec 64) (hms : ms.length = n) (hi : i < n) :
    ∀ (f j t : Nat) (upper : List (BitVec 64)) (c : BitVec 64), j + f = n → t + n = i + j → upper.length = n →
      (Reduction.montgomery_reduction_inner_loop3 ms n i u f j upper c).2.1.length = n ∧
      (Reduction.montgomery_reduction_inner_loop3 ms n i u f j upper c).2.1.take t = upper.take t ∧
      upperChain u.toNat (nats (upper.drop t)) (nats (ms.drop j)) c.toNat mc.toNat =
        (nats (((Reduction.montgomery_reduction_inner_loop3 ms n i u f j upper c).2.1.set i
            (Prim.adc ((Reduction.montgomery_reduction_inner_loop3 ms n i u f j upper c).2.1.getD i 0#64)
              (Reduction.montgomery_reduction_inner_loop3 ms n i u f j upper c).2.2 mc).1).drop t),
         (Prim.adc ((Reduction.montgomery_reduction_inner_loop3 ms n i u f j upper c).2.1.getD i 0#64)
              (Reduction.montgomery_reduction_inner_loop3 ms n i u f j upper c).2.2 mc).2.toNat) := by
  intro f
  induction f with
  | zero =>
    intro j t upper c hj ht hl
    have hj' : j = n := by omega
    have ht' : t = i := by omega
    subst ht'
    rw [redc_loop3_zero, List.drop_of_length_le (l := ms) (by omega), drop_eq_getD_cons upper t (by omega),
      drop_set_self upper t _ (by omega)]
    refine ⟨hl, rfl, ?_⟩
    simp only [nats, List.map_cons, List.map_nil]
    rw [upperChain_last, adc_bridge]
  | succ f ih =>
    intro j t upper c hj ht hl
    have hlt : j < n := by omega
    have hti : t < i := by omega
    have et : i + j - n = t := by omega
    obtain ⟨i1, i2, i3⟩ := ih (j + 1) (t + 1)
      (upper.set t (Prim.mac (upper.getD t 0#64) u (ms.getD j 0#64) c).1)
      (Prim.mac (upper.getD t 0#64) u (ms.getD j 0#64) c).2 (by omega) (by omega) (by simpa using hl)
    rw [redc_loop3_succ ms n i u f j upper c hlt, et]
    generalize Reduction.montgomery_reduction_inner_loop3 ms n i u f (j + 1)
      (upper.set t (Prim.mac (upper.getD t 0#64) u (ms.getD j 0#64) c).1)
      (Prim.mac (upper.getD t 0#64) u (ms.getD j 0#64) c).2 = r at i1 i2 i3 ⊢
    rw [take_set_succ upper t _ (by omega)] at i2
    rw [List.drop_set_of_lt (by omega : t < t + 1)] at i3
    have hk : r.2.1.take t = upper.take t := by
      have := congrArg (List.take t) i2
      rw [List.take_take, Nat.min_eq_left (Nat.le_succ t)] at this
      rw [this, List.take_append_of_le_length (by simp; omega), List.take_take, Nat.min_self]
    refine ⟨i1, hk, ?_⟩
    rw [drop_eq_getD_cons upper t (by omega), drop_eq_getD_cons ms j (by omega)]
    simp only [nats, List.map_cons] at i3 ⊢
    rw [upperChain_cons, mac_bridge, i3]
    have hg : (r.2.1.set i (Prim.adc (r.2.1.getD i 0#64) r.2.2 mc).1).getD t 0#64 =
        (Prim.mac (upper.getD t 0#64) u (ms.getD j 0#64) c).1 := by
      apply getD_of_take_succ _ (upper.take t) _ t (by simp; omega)
      rw [List.take_set_of_le (by omega : t + 1 ≤ i)]
      exact i2
    rw [drop_eq_getD_cons (r.2.1.set i _) t (by simp; omega), hg]
    simp only [List.map_cons]

/-! ## the outer loop -/

theorem nats_headD (ms : List (BitVec 64)) : (nats ms).headD 0 = (ms.getD 0 0#64).toNat := by
  cases ms <;> rfl

theorem nats_tail (ms : List (BitVec 64)) : (nats ms).tail = nats (ms.drop 1) := by
  cases ms <;> rfl

theorem nats_cons (x : BitVec 64) (xs : List (BitVec 64)) : nats (x :: xs) = x.toNat :: nats xs := rfl

theorem redc_loop1_bridge (ms : List (BitVec 64)) (k : BitVec 64) (n : Nat) (hms : ms.length = n) :
    ∀ (f i : Nat) (upper lower : List (BitVec 64)) (mc : BitVec 64), i + f = n → upper.length = n → lower.length = n →
      redcLoop k.toNat (nats ms) f (nats (lower.drop i)) (nats upper) mc.toNat =
        (nats (Reduction.montgomery_reduction_inner_loop1 ms k n f i upper lower mc).2.1,
         (Reduction.montgomery_reduction_inner_loop1 ms k n f i upper lower mc).2.2.2.toNat) ∧
      (Reduction.montgomery_reduction_inner_loop1 ms k n f i upper lower mc).2.1.length = n := by
  intro f
  induction f with
  | zero =>
    intro i upper lower mc _ hu _
    rw [redc_loop1_zero, redcLoop_zero]
    exact ⟨rfl, hu⟩
  | succ f ih =>
    intro i upper lower mc hi hu hl
    have hlt : i < n := by omega
    rw [redc_loop1_succ ms k n f i upper lower mc hlt, drop_eq_getD_cons lower i (by omega), nats_cons,
      redcLoop_succ, wmul_toNat, nats_headD, nats_tail]
    have hm := mac_bridge (lower.getD i 0#64) (lower.getD i 0#64 * k) (ms.getD 0 0#64) 0#64
    rw [show (0#64).toNat = 0 from rfl] at hm
    rw [hm]
    dsimp only
    obtain ⟨a1, a2, a3, a4, a5⟩ := redc_loop2_bridge ms n i (lower.getD i 0#64 * k) hms (n - i - 1) 1 lower
      (Prim.mac (lower.getD i 0#64) (lower.getD i 0#64 * k) (ms.getD 0 0#64) 0#64).2 (by omega) hl
    generalize Reduction.montgomery_reduction_inner_loop2 ms n i (lower.getD i 0#64 * k) (n - i - 1) 1 lower
      (Prim.mac (lower.getD i 0#64) (lower.getD i 0#64 * k) (ms.getD 0 0#64) 0#64).2 = r2 at a1 a2 a3 a4 a5 ⊢
    have hlo : (lowerChain (lower.getD i 0#64 * k).toNat (nats (lower.drop (i + 1))) (nats (ms.drop 1))
        (Prim.mac (lower.getD i 0#64) (lower.getD i 0#64 * k) (ms.getD 0 0#64) 0#64).2.toNat).1 =
        nats (r2.2.1.drop (i + 1)) := by
      have e := nats_drop r2.2.1 (i + 1)
      rw [e, a2, List.drop_left' (by simp [nats]; omega)]
    obtain ⟨b1, _, b3⟩ := redc_loop3_bridge ms n i (lower.getD i 0#64 * k) mc hms hlt (n - r2.1) r2.1 0 upper r2.2.2
      (by omega) (by omega) hu
    generalize Reduction.montgomery_reduction_inner_loop3 ms n i (lower.getD i 0#64 * k) (n - r2.1) r2.1 upper r2.2.2
      = r3 at b1 b3 ⊢
    rw [a1] at b3
    simp only [List.drop_zero] at b3
    rw [hlo, a4, ← a3, b3]
    dsimp only
    exact ih (i + 1) _ _ _ (by omega) (by simpa using b1) a5

/-- **`montgomery_reduction_inner`**: the new `upper` limbs and `meta_carry` of the model are those of the translated source
    (the first and the last component of the translated result; the second is the scratch state of `lower`) -/
theorem redcInner_bridge (upper lower ms : List (BitVec 64)) (k : BitVec 64) (L : Nat)
    (hu : upper.length = ms.length) (hl : lower.length = ms.length) :
    redcInner (nats upper) (nats lower) (nats ms) k.toNat =
      (nats (Reduction.montgomery_reduction_inner L upper lower ms k).1,
       (Reduction.montgomery_reduction_inner L upper lower ms k).2.2.toNat) ∧
    (Reduction.montgomery_reduction_inner L upper lower ms k).1.length = ms.length := by
  obtain ⟨h, hlen⟩ := redc_loop1_bridge ms k ms.length rfl ms.length 0 upper lower 0#64 (by omega) hu hl
  rw [redc_inner_eq_loop, redcInner, nats_length, Nat.sub_zero]
  exact ⟨by simpa using h, hlen⟩

/-- **`montgomery_reduction`** (inner loops, then `upper.sub_mod_with_carry(meta_carry, &modulus, &modulus)`) -/
theorem montgomeryReduction_bridge (lo hi ms : List (BitVec 64)) (k : BitVec 64)
    (hl : lo.length = ms.length) (hh : hi.length = ms.length) :
    montgomeryReduction (nats lo) (nats hi) (nats ms) k.toNat =
      nats (Reduction.montgomery_reduction ms.length (lo, hi) ms k) := by
  obtain ⟨hin, hlen⟩ := redcInner_bridge hi lo ms k ms.length hh hl
  have hs := GenModular.subModWithCarry_bridge (Reduction.montgomery_reduction_inner ms.length hi lo ms k).1
    (Reduction.montgomery_reduction_inner ms.length hi lo ms k).2.2 ms ms hlen hlen
  rw [hlen] at hs
  rw [montgomery_reduction_eq, ← hs]
  unfold montgomeryReduction
  rw [hin]
  dsimp only
  rw [GenModular.monty_subModWithCarry_eq]

end CB.GenRedc
