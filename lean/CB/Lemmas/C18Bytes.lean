/-
  CB.Lemmas.C18Bytes — big-endian byte strings: `beVal`, `beBytes`, leading-zero stripping.
-/
import CB.Model.Rlp
import CB.Lemmas.Limbs
namespace CB.Der
open CB

/-- every element is an octet -/
def Bytes (bs : List Nat) : Prop := ∀ b ∈ bs, b < 256

theorem Bytes_nil : Bytes [] := by intro x h; cases h
theorem Bytes_cons {x : Nat} {xs : List Nat} : Bytes (x :: xs) ↔ x < 256 ∧ Bytes xs := by
  constructor
  · intro h
    exact ⟨h x List.mem_cons_self, fun y hy => h y (List.mem_cons_of_mem _ hy)⟩
  · intro ⟨h1, h2⟩ y hy
    cases hy with
    | head => exact h1
    | tail _ h => exact h2 y h
theorem Bytes_append {a b : List Nat} : Bytes (a ++ b) ↔ Bytes a ∧ Bytes b := by
  simp only [Bytes, List.mem_append]
  constructor
  · intro h; exact ⟨fun x hx => h x (Or.inl hx), fun x hx => h x (Or.inr hx)⟩
  · intro ⟨h1, h2⟩ x hx
    cases hx with
    | inl h => exact h1 x h
    | inr h => exact h2 x h
theorem Bytes_replicate_zero (k : Nat) : Bytes (List.replicate k 0) := by
  intro x hx
  rw [List.mem_replicate] at hx
  omega
theorem Bytes_take {a : List Nat} (k : Nat) (h : Bytes a) : Bytes (a.take k) :=
  fun x hx => h x (List.mem_of_mem_take hx)
theorem Bytes_drop {a : List Nat} (k : Nat) (h : Bytes a) : Bytes (a.drop k) :=
  fun x hx => h x (List.mem_of_mem_drop hx)

@[simp] theorem beVal_nil : beVal [] = 0 := rfl
@[simp] theorem beVal_cons (b : Nat) (bs : List Nat) : beVal (b :: bs) = b * 256 ^ bs.length + beVal bs := rfl
@[simp] theorem beBytes_zero (x : Nat) : beBytes 0 x = [] := rfl
theorem beBytes_succ (n x : Nat) : beBytes (n + 1) x = (x / 256 ^ n) % 256 :: beBytes n x := rfl

theorem pow256_pos (n : Nat) : 0 < 256 ^ n := Nat.pow_pos (by decide)

@[simp] theorem beBytes_length (n x : Nat) : (beBytes n x).length = n := by
  induction n with
  | zero => rfl
  | succ n ih => simp [beBytes_succ, ih]

theorem beBytes_Bytes (n x : Nat) : Bytes (beBytes n x) := by
  induction n with
  | zero => exact Bytes_nil
  | succ n ih => exact Bytes_cons.mpr ⟨Nat.mod_lt _ (by decide), ih⟩

theorem beVal_lt {bs : List Nat} (h : Bytes bs) : beVal bs < 256 ^ bs.length := by
  induction bs with
  | nil => simp
  | cons b bs ih =>
    have ⟨hb, hbs⟩ := Bytes_cons.mp h
    have := ih hbs
    simp only [beVal_cons, List.length_cons, Nat.pow_succ]
    have h2 : (b + 1) * 256 ^ bs.length ≤ 256 * 256 ^ bs.length := Nat.mul_le_mul_right _ (by omega)
    rw [Nat.add_mul] at h2
    rw [Nat.mul_comm (256 ^ bs.length) 256]
    omega

theorem beVal_beBytes (n x : Nat) : beVal (beBytes n x) = x % 256 ^ n := by
  induction n with
  | zero => simp [Nat.mod_one]
  | succ n ih =>
    simp only [beBytes_succ, beVal_cons, beBytes_length, ih, Nat.pow_succ]
    rw [Nat.mod_mul, Nat.mul_comm (256 ^ n)]
    omega

theorem beVal_append (a b : List Nat) : beVal (a ++ b) = beVal a * 256 ^ b.length + beVal b := by
  induction a with
  | nil => simp
  | cons x a ih =>
    simp only [List.cons_append, beVal_cons, ih, List.length_append, Nat.pow_add, Nat.add_mul, Nat.mul_assoc]
    omega

theorem beVal_replicate_zero (k : Nat) : beVal (List.replicate k 0) = 0 := by
  induction k with
  | zero => rfl
  | succ k ih => simp [List.replicate_succ, ih]

theorem beVal_zeros_append (k : Nat) (bs : List Nat) : beVal (List.replicate k 0 ++ bs) = beVal bs := by
  rw [beVal_append, beVal_replicate_zero]; simp

/-- positional notation is injective on octet strings of equal length -/
theorem beVal_inj {a b : List Nat} (ha : Bytes a) (hb : Bytes b) (hl : a.length = b.length)
    (hv : beVal a = beVal b) : a = b := by
  induction a generalizing b with
  | nil =>
    cases b with
    | nil => rfl
    | cons y b => simp at hl
  | cons x a ih =>
    cases b with
    | nil => simp at hl
    | cons y b =>
      have ⟨hx, ha'⟩ := Bytes_cons.mp ha
      have ⟨hy, hb'⟩ := Bytes_cons.mp hb
      have hl' : a.length = b.length := by simpa using hl
      simp only [beVal_cons, hl'] at hv
      have h1 := beVal_lt ha'
      have h2 := beVal_lt hb'
      rw [hl'] at h1
      have hK := pow256_pos b.length
      have hxy : x = y := by
        have e1 : (x * 256 ^ b.length + beVal a) / 256 ^ b.length = x := by
          rw [Nat.add_comm, Nat.add_mul_div_right _ _ hK, Nat.div_eq_of_lt h1, Nat.zero_add]
        have e2 : (y * 256 ^ b.length + beVal b) / 256 ^ b.length = y := by
          rw [Nat.add_comm, Nat.add_mul_div_right _ _ hK, Nat.div_eq_of_lt h2, Nat.zero_add]
        rw [← e1, ← e2, hv]
      subst hxy
      have : beVal a = beVal b := by omega
      rw [ih ha' hb' hl' this]

theorem beBytes_beVal {bs : List Nat} (h : Bytes bs) : beBytes bs.length (beVal bs) = bs := by
  apply beVal_inj (beBytes_Bytes _ _) h (beBytes_length _ _)
  rw [beVal_beBytes, Nat.mod_eq_of_lt (beVal_lt h)]

/-- a value below `256^n` is `n - len` zero octets followed by any octet string denoting it -/
theorem beBytes_eq_zeros_append {m : List Nat} {n : Nat} (hm : Bytes m) (hl : m.length ≤ n) :
    beBytes n (beVal m) = List.replicate (n - m.length) 0 ++ m := by
  apply beVal_inj (beBytes_Bytes _ _) (Bytes_append.mpr ⟨Bytes_replicate_zero _, hm⟩)
  · simp; omega
  · rw [beVal_beBytes, beVal_zeros_append]
    apply Nat.mod_eq_of_lt
    exact Nat.lt_of_lt_of_le (beVal_lt hm) (Nat.pow_le_pow_right (by decide) hl)

/-- a string with a non-zero first octet denotes at least `256^(len-1)` -/
theorem beVal_ge_of_head {b : Nat} {bs : List Nat} (hb : b ≠ 0) : 256 ^ bs.length ≤ beVal (b :: bs) := by
  simp only [beVal_cons]
  have : 1 * 256 ^ bs.length ≤ b * 256 ^ bs.length := Nat.mul_le_mul_right _ (by omega)
  omega

theorem B_eq_256 : B = 256 ^ 8 := by decide
theorem Bpow_eq_256 (n : Nat) : B ^ n = 256 ^ (8 * n) := by rw [B_eq_256, ← Nat.pow_mul]

end CB.Der
