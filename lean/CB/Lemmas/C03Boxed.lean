/-
  CB.Lemmas.C03Boxed — boxed helpers of karatsuba.rs: `adc_mul_limbs` on a buffer whose upper part is
  still zero (the threshold fallback and the `xt` pass), (helper lemmas of property C03).
-/
import CB.Lemmas.C03Kara
namespace CB.Karatsuba
open CB CB.Mul

theorem macRowAdc_cons (xi o y c2 c : Nat) (os ys : List Nat) :
    macRowAdc xi (o :: os) (y :: ys) c2 c =
      ((mac o xi y c2).1 :: (macRowAdc xi os ys (mac o xi y c2).2 c).1,
        (macRowAdc xi os ys (mac o xi y c2).2 c).2) := rfl

/-- a row of `adc_mul_limbs` = mac row over the window, then
    `out[i+j].adc(0, carry.wrapping_add(carry2))` on the next limb -/
theorem macRowAdc_eq (xi : Nat) (w ys : List Nat) (t : Nat) (rest : List Nat) (c2 c : Nat)
    (hl : w.length = ys.length) :
    macRowAdc xi (w ++ t :: rest) ys c2 c =
      ((macRow xi w ys c2).1 ++ (adc t 0 (wadd c (macRow xi w ys c2).2)).1 :: rest,
        (adc t 0 (wadd c (macRow xi w ys c2).2)).2) := by
  induction w generalizing ys c2 with
  | nil =>
    cases ys with
    | nil => simp [macRowAdc, macRow]
    | cons _ _ => simp at hl
  | cons o os ih =>
    cases ys with
    | nil => simp at hl
    | cons y ys =>
      simp only [List.cons_append, macRowAdc_cons, macRow_cons]
      rw [ih ys _ (by simpa using hl)]

/-- on a limb that is still zero, with no carry pending, the row of `adc_mul_limbs` is the row of
    `schoolbook_multiplication`, and no carry is produced -/
theorem macRowAdc_zero {xi : Nat} (hxi : xi < B) (w ys rest : List Nat) (hw : WF w) (hy : WF ys)
    (hl : w.length = ys.length) :
    macRowAdc xi (w ++ 0 :: rest) ys 0 0 = (macRowSet xi (w ++ 0 :: rest) ys 0, 0) := by
  have ⟨_, _, r3, _⟩ := macRow_spec hxi w ys 0 hw hy (by decide) hl
  rw [macRowAdc_eq xi w ys 0 rest 0 0 hl, macRowSet_eq xi w ys 0 rest 0 hl]
  have e1 : wadd 0 (macRow xi w ys 0).2 = (macRow xi w ys 0).2 := by
    unfold wadd; rw [Nat.zero_add]; exact Nat.mod_eq_of_lt r3
  rw [e1]
  have e2 : adc 0 0 (macRow xi w ys 0).2 = ((macRow xi w ys 0).2, 0) := by
    unfold adc
    simp only [Nat.zero_add]
    rw [Nat.mod_eq_of_lt r3, Nat.div_eq_of_lt r3]
  rw [e2]

theorem adcMulRows_cons (x : Nat) (xs ys out : List Nat) (c : Nat) :
    adcMulRows (x :: xs) ys out c =
      match (macRowAdc x out ys 0 c).1 with
      | [] => ([], (macRowAdc x out ys 0 c).2)
      | o :: os => (o :: (adcMulRows xs ys os (macRowAdc x out ys 0 c).2).1,
                    (adcMulRows xs ys os (macRowAdc x out ys 0 c).2).2) := rfl

/-- `adc_mul_limbs` on a buffer `w ++ 0…0` (everything above the first window still zero — the
    zero-filled fallback and the `xt` pass) coincides with the schoolbook rows and returns carry 0;
    in particular its `carry.wrapping_add(carry2)` is `0 + carry2` there. -/
theorem adcMulRows_zero_tail (xs ys w : List Nat) (hx : WF xs) (hy : WF ys) (hw : WF w)
    (hl : w.length = ys.length) :
    adcMulRows xs ys (w ++ uzero xs.length) 0 = (schoolRows xs ys (w ++ uzero xs.length), 0) := by
  induction xs generalizing w with
  | nil => simp [adcMulRows, schoolRows]
  | cons x xs ih =>
    have ⟨hx1, hxs⟩ := WF_cons.mp hx
    have ⟨r1, r2, r3, r4⟩ := macRow_spec hx1 w ys 0 hw hy (by decide) hl
    rw [adcMulRows_cons, schoolRows_cons, List.length_cons, uzero_succ,
      macRowAdc_zero hx1 w ys _ hw hy hl, macRowSet_eq x w ys 0 _ 0 hl]
    rcases hm : macRow x w ys 0 with ⟨w', c'⟩
    rw [hm] at r2 r3 r4
    simp only at r2 r3 r4 ⊢
    cases w' with
    | nil =>
      simp only [List.nil_append]
      have := ih [] hxs WF_nil (by
        have : w.length = 0 := by simpa using r4.symm
        rw [← hl, this]; rfl)
      simp only [List.nil_append] at this
      rw [this]
    | cons o t =>
      have ⟨_, ht⟩ := WF_cons.mp r2
      have hwt : WF (t ++ [c']) := WF_append.mpr ⟨ht, WF_cons.mpr ⟨r3, WF_nil⟩⟩
      have hlen : t.length + 1 = w.length := by simpa using r4
      have hlt : (t ++ [c']).length = ys.length := by
        simp only [List.length_append, List.length_cons, List.length_nil]; omega
      have e : (o :: t) ++ c' :: uzero xs.length = o :: ((t ++ [c']) ++ uzero xs.length) := by simp
      rw [e]
      simp only
      rw [ih (t ++ [c']) hxs hwt hlt]

/-- the threshold fallback `out.fill(ZERO); adc_mul_limbs(lhs, rhs, out)` is the schoolbook product -/
theorem adcMulLimbs_zero (x y : List Nat) (hx : WF x) (hy : WF y) :
    adcMulLimbs x y (uzero (x.length + y.length)) = (schoolbookMul x y, 0) := by
  have e : uzero (x.length + y.length) = uzero y.length ++ uzero x.length := by
    simp [uzero, List.replicate_append_replicate, Nat.add_comm]
  unfold adcMulLimbs schoolbookMul
  rw [e]
  exact adcMulRows_zero_tail x y (uzero y.length) hx hy (uzero_WF _) (uzero_length _)

theorem mask_and (p q : Bool) : mask p &&& mask q = mask (p && q) := by
  cases p <;> cases q <;> decide

/-- the fold `choice & limb.is_zero()` over the high limbs -/
theorem allZeroMask_spec {l : List Nat} (h : WF l) : allZeroMask l = mask (decide (val l = 0)) := by
  induction l with
  | nil => simp [allZeroMask, mask]
  | cons x xs ih =>
    have ⟨hx, hxs⟩ := WF_cons.mp h
    simp only [allZeroMask, fromWordEq_spec hx (show 0 < B by decide), ih hxs, mask_and, val_cons]
    congr 1
    have hB := B_pos
    by_cases h0 : x = 0
    · subst h0
      by_cases h1 : val xs = 0
      · simp [h1]
      · have : B * val xs ≠ 0 := Nat.mul_ne_zero (by omega) h1
        simp [h1, this]
    · have : x + B * val xs ≠ 0 := by omega
      simp [h0]

/-- witness operands of the carry loss (33 and 34 limbs) -/
def witnessLhs : List Nat := List.replicate 32 WMAX ++ [1]
def witnessRhs : List Nat := List.replicate 31 0 ++ [HALF] ++ [WMAX, WMAX]

end CB.Karatsuba
