/-
  CB.Lemmas.C03Boxed — boxed helpers of karatsuba.rs: `adc_mul_limbs` on a buffer whose upper part is
  still zero (the threshold fallback and the `xt` pass), (helper lemmas of property C03).
-/
import CB.Lemmas.C03Kara
namespace CB.Karatsuba
open CB CB.Mul

theorem macRowAdc_cons (xi o y c2 c : Nat) (os ys : List Nat) :
    macRowAdc xi (o :: os) (y :: ys) c2 c =
      ((mac o xi y c2).1 :: (macRowAdc xi os ys (mac o xi y c2).2 c).1,
        (macRowAdc xi os ys (mac o xi y c2).2 c).2) := rfl

/-- a row of `adc_mul_limbs` = mac row over the window, then `out[i+j].adc(carry2, carry)` on the next limb -/
theorem macRowAdc_eq (xi : Nat) (w ys : List Nat) (t : Nat) (rest : List Nat) (c2 c : Nat)
    (hl : w.length = ys.length) :
    macRowAdc xi (w ++ t :: rest) ys c2 c =
      ((macRow xi w ys c2).1 ++ (adc t (macRow xi w ys c2).2 c).1 :: rest,
        (adc t (macRow xi w ys c2).2 c).2) := by
  induction w generalizing ys c2 with
  | nil =>
    cases ys with
    | nil => simp [macRowAdc, macRow]
    | cons _ _ => simp at hl
  | cons o os ih =>
    cases ys with
    | nil => simp at hl
    | cons y ys =>
      simp only [List.cons_append, macRowAdc_cons, macRow_cons]
      rw [ih ys _ (by simpa using hl)]

theorem adcMulRows_cons (x : Nat) (xs ys out : List Nat) (c : Nat) :
    adcMulRows (x :: xs) ys out c =
      match (macRowAdc x out ys 0 c).1 with
      | [] => ([], (macRowAdc x out ys 0 c).2)
      | o :: os => (o :: (adcMulRows xs ys os (macRowAdc x out ys 0 c).2).1,
                    (adcMulRows xs ys os (macRowAdc x out ys 0 c).2).2) := rfl

/-- `adc_mul_limbs` rows on ANY accumulator: `out' + B^|out|·carry' = out + xs·ys + B^|ys|·carry`,
    all lengths; the running carry stays ≤ 1 (with the repaired epilogue `adc(carry2, carry)`). -/
theorem adcMulRows_spec (xs ys out : List Nat) (c : Nat) (hx : WF xs) (hy : WF ys) (ho : WF out)
    (hc : c ≤ 1) (hl : out.length = xs.length + ys.length) :
    val (adcMulRows xs ys out c).1 + B ^ out.length * (adcMulRows xs ys out c).2
      = val out + val xs * val ys + B ^ ys.length * c ∧
    WF (adcMulRows xs ys out c).1 ∧ (adcMulRows xs ys out c).1.length = out.length ∧
    (adcMulRows xs ys out c).2 ≤ 1 := by
  induction xs generalizing out c with
  | nil =>
    simp only [List.length_nil, Nat.zero_add] at hl
    refine ⟨?_, ho, rfl, hc⟩
    simp only [adcMulRows, val_nil, Nat.zero_mul, Nat.add_zero, hl]
  | cons x xs ih =>
    have ⟨hx1, hxs⟩ := WF_cons.mp hx
    -- out = w ++ t :: rest with |w| = |ys|
    have hsplit : out = out.take ys.length ++ out.drop ys.length := (List.take_append_drop _ _).symm
    have hdl : (out.drop ys.length).length = xs.length + 1 := by
      rw [List.length_drop, hl, List.length_cons]; omega
    rcases hd : out.drop ys.length with _ | ⟨t, rest⟩
    · rw [hd] at hdl; simp at hdl
    rw [hd] at hsplit hdl
    have hwl : (out.take ys.length).length = ys.length := by
      rw [List.length_take, hl, List.length_cons]; omega
    generalize out.take ys.length = w at *
    subst hsplit
    have ⟨hw, htr⟩ := WF_append.mp ho
    have ⟨ht, hrest⟩ := WF_cons.mp htr
    have hrl : rest.length = xs.length := by simpa using hdl
    have ⟨r1, r2, r3, r4⟩ := macRow_spec hx1 w ys 0 hw hy (by decide) hwl
    rw [adcMulRows_cons, macRowAdc_eq x w ys t rest 0 c hwl]
    rcases hm : macRow x w ys 0 with ⟨w', c2⟩
    rw [hm] at r1 r2 r3 r4
    simp only at r1 r2 r3 r4 ⊢
    have a1 : (adc t c2 c).1 + B * (adc t c2 c).2 = t + c2 + c := (adc_spec t c2 c).1
    have a2 : (adc t c2 c).1 < B := (adc_spec t c2 c).2
    have a3 : (adc t c2 c).2 ≤ 1 := adc_carry_le_one ht r3 hc
    generalize adc t c2 c = A at *
    have hblock : ∃ o os, w' ++ A.1 :: rest = o :: os ∧ WF os ∧ o < B ∧ os.length = xs.length + ys.length ∧
        o + B * val os = val (w' ++ A.1 :: rest) := by
      cases w' with
      | nil =>
        refine ⟨A.1, rest, rfl, hrest, a2, ?_, rfl⟩
        have : ys.length = 0 := by rw [← hwl, ← r4]; rfl
        omega
      | cons o t' =>
        have ⟨ho', ht'⟩ := WF_cons.mp r2
        refine ⟨o, t' ++ A.1 :: rest, rfl, WF_append.mpr ⟨ht', WF_cons.mpr ⟨a2, hrest⟩⟩, ho', ?_, rfl⟩
        have : t'.length + 1 = ys.length := by rw [← hwl, ← r4]; rfl
        simp only [List.length_append, List.length_cons]; omega
    obtain ⟨o, os, hos, wos, hob, los, vos⟩ := hblock
    rw [hos]
    simp only
    have ⟨i1, i2, i3, i4⟩ := ih os A.2 hxs wos a3 los
    refine ⟨?_, WF_cons.mpr ⟨hob, i2⟩, ?_, i4⟩
    · have hLen : (w ++ t :: rest).length = os.length + 1 := by
        simp only [List.length_append, List.length_cons]; omega
      rw [hLen, Nat.pow_succ, val_cons, val_cons (x := x)]
      rw [val_append, val_cons, r4, hwl] at vos
      rw [hwl] at r1
      rw [val_append, val_cons, hwl]
      generalize B ^ os.length = Q at *
      generalize B ^ ys.length = M at *
      linear_combination B * i1 + vos + r1 + M * a1
    · simp only [List.length_cons, i3, List.length_append]; omega

/-- `adc_mul_limbs(lhs, rhs, out)` is exact on every accumulator, for all lengths: the returned carry
    is the carry out of the whole `|lhs| + |rhs|`-limb addition. -/
theorem adcMulLimbs_spec (x y out : List Nat) (hx : WF x) (hy : WF y) (ho : WF out)
    (hl : out.length = x.length + y.length) :
    val (adcMulLimbs x y out).1 + B ^ out.length * (adcMulLimbs x y out).2 = val out + val x * val y ∧
    WF (adcMulLimbs x y out).1 ∧ (adcMulLimbs x y out).1.length = out.length ∧
    (adcMulLimbs x y out).2 ≤ 1 := by
  have ⟨h1, h2, h3, h4⟩ := adcMulRows_spec x y out 0 hx hy ho (by decide) hl
  unfold adcMulLimbs
  refine ⟨?_, h2, h3, h4⟩
  rw [h1, Nat.mul_zero, Nat.add_zero]

/-- if the sum fits, the carry is 0 and the value is the sum -/
theorem fits_no_carry {r c s Q : Nat} (hr : r < Q) (hs : s < Q) (h : r + Q * c = s) : r = s ∧ c = 0 := by
  rcases Nat.eq_zero_or_pos c with h0 | h0
  · subst h0; omega
  · have : Q * 1 ≤ Q * c := Nat.mul_le_mul_left _ h0
    omega

/-- the threshold fallback `out.fill(ZERO); adc_mul_limbs(lhs, rhs, out)` is the exact product -/
theorem adcMulLimbs_zero (x y : List Nat) (hx : WF x) (hy : WF y) :
    val (adcMulLimbs x y (uzero (x.length + y.length))).1 = val x * val y ∧
    WF (adcMulLimbs x y (uzero (x.length + y.length))).1 ∧
    (adcMulLimbs x y (uzero (x.length + y.length))).1.length = x.length + y.length ∧
    (adcMulLimbs x y (uzero (x.length + y.length))).2 = 0 := by
  have ⟨h1, h2, h3, _⟩ := adcMulLimbs_spec x y _ hx hy (uzero_WF _) (uzero_length _)
  rw [uzero_length, val_uzero, Nat.zero_add] at h1
  rw [uzero_length] at h3
  have hlt := val_lt_pow h2 h3
  have hp : val x * val y < B ^ (x.length + y.length) := by
    rw [Nat.pow_add]; exact Nat.mul_lt_mul'' (val_lt hx) (val_lt hy)
  have := fits_no_carry hlt hp h1
  exact ⟨this.1, h2, h3, this.2⟩

theorem mask_and (p q : Bool) : mask p &&& mask q = mask (p && q) := by
  cases p <;> cases q <;> decide

/-- the fold `choice & limb.is_zero()` over the high limbs -/
theorem allZeroMask_spec {l : List Nat} (h : WF l) : allZeroMask l = mask (decide (val l = 0)) := by
  induction l with
  | nil => simp [allZeroMask, mask]
  | cons x xs ih =>
    have ⟨hx, hxs⟩ := WF_cons.mp h
    simp only [allZeroMask, fromWordEq_spec hx (show 0 < B by decide), ih hxs, mask_and, val_cons]
    congr 1
    have hB := B_pos
    by_cases h0 : x = 0
    · subst h0
      by_cases h1 : val xs = 0
      · simp [h1]
      · have : B * val xs ≠ 0 := Nat.mul_ne_zero (by omega) h1
        simp [h1, this]
    · have : x + B * val xs ≠ 0 := by omega
      simp [h0]

end CB.Karatsuba
