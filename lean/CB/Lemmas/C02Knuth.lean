/-
  CB.Lemmas.C02Knuth — Knuth's algorithm D as written in `Uint::div_rem` (constant time):
  the 3-by-2 estimate is within one of the true digit; one outer iteration keeps the loop invariant;
  iterations under the `done` mask are no-ops.
-/
import CB.Lemmas.C02LimbDiv
import CB.Lemmas.C02Rows
import CB.Lemmas.C02Div3by2
namespace CB.Div
open CB

/-- The 3-by-2 quotient (capped at `B − 1`) of the top limbs is the true digit or one more
    (Knuth 4.3.1 exercise 19–21): `W = u3·K + wl`, `Y = v2·K + yl`, `v2` normalised, `W < Y·B`. -/
theorem qhat_within_one {W Y K u3 v2 wl yl : Nat} (hW : W = u3 * K + wl) (hwl : wl < K)
    (hY : Y = v2 * K + yl) (hyl : yl < K) (hv2 : HALF * B ≤ v2) (hWlt : W < Y * B) :
    min (u3 / v2) (B - 1) = W / Y ∨ min (u3 / v2) (B - 1) = W / Y + 1 := by
  have hKpos : 0 < K := by omega
  have hv2pos : 0 < v2 := Nat.lt_of_lt_of_le (by decide) hv2
  have hYpos : 0 < Y := by
    have := Nat.mul_pos hv2pos hKpos
    omega
  have hqB : W / Y < B := (Nat.div_lt_iff_lt_mul hYpos).mpr (by rw [Nat.mul_comm]; exact hWlt)
  have hqY := Nat.div_mul_le_self W Y
  have hlt := Nat.lt_mul_div_succ W hYpos
  generalize W / Y = q at *
  -- q ≤ q3
  have hge : q ≤ min (u3 / v2) (B - 1) := by
    apply Nat.le_min.mpr
    refine ⟨?_, by omega⟩
    rw [Nat.le_div_iff_mul_le hv2pos]
    have e1 : q * Y = q * v2 * K + q * yl := by rw [hY]; ring
    have : q * v2 * K < (u3 + 1) * K := by
      rw [Nat.add_mul, Nat.one_mul]; omega
    have := Nat.lt_of_mul_lt_mul_right this
    omega
  -- q3 ≤ q + 1
  have hle : min (u3 / v2) (B - 1) ≤ q + 1 := by
    by_contra hc
    obtain ⟨a, ha⟩ : ∃ a, min (u3 / v2) (B - 1) = a + 1 := ⟨min (u3 / v2) (B - 1) - 1, by omega⟩
    have ha1 : a + 1 ≤ u3 / v2 := by rw [← ha]; exact Nat.min_le_left _ _
    have ha2 : a + 1 ≤ B - 1 := by rw [← ha]; exact Nat.min_le_right _ _
    have h1 : (a + 1) * v2 ≤ u3 := (Nat.le_div_iff_mul_le hv2pos).mp ha1
    have h2 : (a + 1) * v2 * K ≤ u3 * K := Nat.mul_le_mul_right K h1
    have h4 : (q + 1) * Y ≤ a * Y := Nat.mul_le_mul_right Y (by omega)
    have e1 : a * Y = a * v2 * K + a * yl := by rw [hY]; ring
    have e2 : (a + 1) * v2 * K = a * v2 * K + v2 * K := by ring
    have e3 : Y * (q + 1) = (q + 1) * Y := Nat.mul_comm _ _
    have h5 : a * yl < B * K := Nat.mul_lt_mul'' (by omega) hyl
    have h6 : B * K ≤ v2 * K := by
      have : B ≤ HALF * B := by decide
      exact Nat.mul_le_mul_right K (by omega)
    omega
  omega

theorem mulSubRow_zero {xs ys : List Nat} (hx : WF xs) (hy : WF ys) (hl : xs.length = ys.length) :
    mulSubRow xs ys 0 0 0 = (xs, 0, 0) := by
  induction xs generalizing ys with
  | nil => cases ys <;> rfl
  | cons x xs ih =>
    cases ys with
    | nil => simp at hl
    | cons y ys =>
      have ⟨hx0, hxs⟩ := WF_cons.mp hx
      have ⟨hy0, hys⟩ := WF_cons.mp hy
      have hm : mac 0 y 0 0 = (0, 0) := by simp [mac]
      have hs : sbb x 0 0 = (x, 0) := by
        have e : sbb x 0 0 = ((x + B * B) % (B * B) % B, (x + B * B) % (B * B) / B) := by
          simp [sbb]
        have h1 : (x + B * B) % (B * B) = x := by
          rw [Nat.add_mod_right]; exact Nat.mod_eq_of_lt (Nat.lt_of_lt_of_le hx0 B_le_BB)
        rw [e, h1, Nat.mod_eq_of_lt hx0, Nat.div_eq_of_lt hx0]
      rw [mulSubRow_cons, hm, hs, ih hxs hys (by simpa using hl)]

theorem addBackRow_zero {xs ys : List Nat} (hx : WF xs) (hy : WF ys) (hl : xs.length = ys.length) :
    addBackRow xs ys 0 0 = (xs, 0) := by
  induction xs generalizing ys with
  | nil => cases ys <;> rfl
  | cons x xs ih =>
    cases ys with
    | nil => simp at hl
    | cons y ys =>
      have ⟨hx0, hxs⟩ := WF_cons.mp hx
      have ⟨hy0, hys⟩ := WF_cons.mp hy
      have hs : selectWord 0 y 0 = 0 := selectWord_zero (by decide) hy0
      have ha : adc x 0 0 = (x, 0) := by
        simp only [adc, Nat.add_zero, Nat.mod_eq_of_lt hx0, Nat.div_eq_of_lt hx0]
      rw [addBackRow_cons, hs, ha, ih hxs hys (by simpa using hl)]

/-- an iteration whose digit is forced to `0` (the `done` mask) changes nothing -/
theorem knuthRow_zero {xs ys : List Nat} {xHi : Nat} (hx : WF xs) (hy : WF ys)
    (hl : xs.length = ys.length) (hxHi : xHi < B) : knuthRow xs ys xHi 0 = (xs, 0) := by
  have hs : sbb xHi 0 0 = (xHi, 0) := by
    have e : sbb xHi 0 0 = ((xHi + B * B) % (B * B) % B, (xHi + B * B) % (B * B) / B) := by
      simp [sbb]
    have h1 : (xHi + B * B) % (B * B) = xHi := by
      rw [Nat.add_mod_right]; exact Nat.mod_eq_of_lt (Nat.lt_of_lt_of_le hxHi B_le_BB)
    rw [e, h1, Nat.mod_eq_of_lt hxHi, Nat.div_eq_of_lt hxHi]
  rw [knuthRow, knuthBorrow, mulSubRow_zero hx hy hl, hs, fromWordMask, addBackRow_zero hx hy hl]


theorem val_take_drop (l : List Nat) (i : Nat) :
    val l = val (l.take i) + B ^ (l.take i).length * val (l.drop i) := by
  conv => lhs; rw [← List.take_append_drop i l]
  rw [val_append]

theorem WF_take {l : List Nat} (h : WF l) (i : Nat) : WF (l.take i) :=
  fun x hx => h x (List.mem_of_mem_take hx)
theorem WF_drop {l : List Nat} (h : WF l) (i : Nat) : WF (l.drop i) :=
  fun x hx => h x (List.mem_of_mem_drop hx)

theorem getD_lt {l : List Nat} (h : WF l) (i : Nat) : l.getD i 0 < B := by
  rw [List.getD_eq_getElem?_getD]
  cases hh : l[i]? with
  | none => exact B_pos
  | some v => exact h v (List.mem_of_getElem? hh)

/-- top-two decomposition of a row of `m ≥ 2` limbs -/
theorem val_top2 {l : List Nat} {m : Nat} (hm : 2 ≤ m) (hl : l.length = m) (h : WF l) :
    val l = val (l.take (m - 2)) + B ^ (m - 2) * (l.getD (m - 2) 0 + B * l.getD (m - 1) 0) ∧
    val (l.take (m - 2)) < B ^ (m - 2) := by
  have hlen : (l.take (m - 2)).length = m - 2 := by rw [List.length_take]; omega
  have h1 := val_take_drop l (m - 2)
  rw [hlen] at h1
  have hd : l.drop (m - 2) = [l.getD (m - 2) 0, l.getD (m - 1) 0] := by
    apply List.ext_getElem
    · simp; omega
    · intro i h1 h2
      simp at h2
      have : i = 0 ∨ i = 1 := by omega
      rcases this with rfl | rfl
      · simp [List.getD_eq_getElem?_getD]
        rw [List.getElem?_eq_getElem (by omega)]; simp
      · simp [List.getD_eq_getElem?_getD]
        have e : m - 2 + 1 = m - 1 := by omega
        rw [List.getElem?_eq_getElem (by omega)]; simp [e]
  rw [hd] at h1
  have hlt := val_lt (WF_take h (m - 2))
  rw [hlen] at hlt
  refine ⟨?_, hlt⟩
  rw [h1]; simp [val]

theorem select_digit {quo q msk alt : Nat} (hq : quo < B) (ha : alt < B) (hest : quo = q ∨ quo = q + 1)
    (hm : msk = mask (decide (quo = q + 1))) (halt : quo = q + 1 → alt = q) : selectWord quo alt msk = q := by
  rcases hest with he | he
  · have : decide (quo = q + 1) = false := by simp; omega
    rw [this] at hm
    have hm0 : msk = 0 := hm
    rw [hm0, selectWord_zero hq ha, he]
  · have : decide (quo = q + 1) = true := by simp [he]
    rw [this] at hm
    have hm1 : msk = WMAX := hm
    rw [hm1, selectWord_max hq ha]; exact halt he

theorem rem_of_eq {r q Y W : Nat} (h1 : r + q * Y = W) (h2 : Y * q + W % Y = W) : r = W % Y := by
  rw [Nat.mul_comm] at h2; omega

theorem wsub_one_of_succ {quo q : Nat} (hq : quo < B) (he : quo = q + 1) : wsub quo 1 = q := by
  subst he; simp only [wsub, B_def] at *; omega

/-- **T02.4 (digit)** one complete Knuth digit on a row of `m ≥ 2` limbs: the 3-by-2 estimate from the
    three top window limbs and the two top divisor limbs, multiply-subtract, masked add-back and the
    decrement give exactly `W / Y` and leave `W % Y` (`W = x_hi·Bᵐ + x`, `W < Y·B`, `Y` normalised). -/
theorem knuth_digit {rc : Reciprocal} (ok : RcOK rc) {xs ys : List Nat} {xHi m : Nat}
    (hm : 2 ≤ m) (hxl : xs.length = m) (hyl : ys.length = m) (hx : WF xs) (hy : WF ys) (hxHi : xHi < B)
    (hv1 : ys.getD (m - 1) 0 = rc.divisorNormalized)
    (hW : val xs + B ^ m * xHi < val ys * B) :
    val (knuthRow xs ys xHi (div3by2 xHi (xs.getD (m - 1) 0) (xs.getD (m - 2) 0) rc (ys.getD (m - 2) 0))).1
      = (val xs + B ^ m * xHi) % val ys ∧
    WF (knuthRow xs ys xHi (div3by2 xHi (xs.getD (m - 1) 0) (xs.getD (m - 2) 0) rc (ys.getD (m - 2) 0))).1 ∧
    (knuthRow xs ys xHi (div3by2 xHi (xs.getD (m - 1) 0) (xs.getD (m - 2) 0) rc (ys.getD (m - 2) 0))).1.length = m ∧
    selectWord (div3by2 xHi (xs.getD (m - 1) 0) (xs.getD (m - 2) 0) rc (ys.getD (m - 2) 0))
      (wsub (div3by2 xHi (xs.getD (m - 1) 0) (xs.getD (m - 2) 0) rc (ys.getD (m - 2) 0)) 1)
      (knuthRow xs ys xHi (div3by2 xHi (xs.getD (m - 1) 0) (xs.getD (m - 2) 0) rc (ys.getD (m - 2) 0))).2
      = (val xs + B ^ m * xHi) / val ys ∧
    selectWord (div3by2 xHi (xs.getD (m - 1) 0) (xs.getD (m - 2) 0) rc (ys.getD (m - 2) 0))
      ((div3by2 xHi (xs.getD (m - 1) 0) (xs.getD (m - 2) 0) rc (ys.getD (m - 2) 0)) - 1)
      (knuthRow xs ys xHi (div3by2 xHi (xs.getD (m - 1) 0) (xs.getD (m - 2) 0) rc (ys.getD (m - 2) 0))).2
      = (val xs + B ^ m * xHi) / val ys := by
  obtain ⟨ex, hwl⟩ := val_top2 hm hxl hx
  obtain ⟨ey, hyl'⟩ := val_top2 hm hyl hy
  have hu1 := getD_lt hx (m - 1)
  have hu0 := getD_lt hx (m - 2)
  have hv0 := getD_lt hy (m - 2)
  rw [hv1] at ey
  have hd1 := ok.h1
  have hd2 := ok.h2
  generalize xs.getD (m - 1) 0 = u1 at *
  generalize xs.getD (m - 2) 0 = u0 at *
  generalize ys.getD (m - 2) 0 = v0 at *
  generalize hv1' : rc.divisorNormalized = v1 at *
  have hBm : B ^ m = B ^ (m - 2) * B * B := by
    have : m = (m - 2) + 1 + 1 := by omega
    conv => lhs; rw [this]
    rw [Nat.pow_succ, Nat.pow_succ]
  generalize hK : B ^ (m - 2) = K at *
  have hKpos : 0 < K := by rw [← hK]; exact Nat.pow_pos B_pos
  generalize val (xs.take (m - 2)) = wl at *
  generalize val (ys.take (m - 2)) = yl at *
  have hWeq : val xs + B ^ m * xHi = ((xHi * B + u1) * B + u0) * K + wl := by
    rw [ex, hBm]; ring
  have hYeq : val ys = (v1 * B + v0) * K + yl := by rw [ey]; ring
  rw [hWeq] at hW ⊢
  generalize hWd : ((xHi * B + u1) * B + u0) * K + wl = W at *
  generalize hYd : val ys = Y at *
  -- x_hi ≤ v1
  have hu2 : xHi ≤ v1 := by
    by_contra hc
    have h1 : (v1 + 1) * (B * B * K) ≤ xHi * (B * B * K) := Nat.mul_le_mul_right _ (by omega)
    have h2 : Y * B < (v1 + 1) * (B * B * K) := by
      have : Y < (v1 * B + B) * K := by
        rw [hYeq]
        have : (v1 * B + v0) * K + K ≤ (v1 * B + B) * K := by
          rw [← Nat.succ_mul]; exact Nat.mul_le_mul_right K (by omega)
        omega
      have h3 : Y * B < (v1 * B + B) * K * B := Nat.mul_lt_mul_of_pos_right this B_pos
      have e : (v1 * B + B) * K * B = (v1 + 1) * (B * B * K) := by ring
      omega
    have h3 : xHi * (B * B * K) ≤ W := by
      rw [← hWd]
      have e : ((xHi * B + u1) * B + u0) * K = xHi * (B * B * K) + (u1 * B + u0) * K := by ring
      omega
    omega
  have hquo := div3by2_exact (u2 := xHi) ok.h1 ok.h2 ok.hv (hv1'.symm ▸ hu2) hu1 hu0 hv0
  rw [hv1'] at hquo
  have hv2 : HALF * B ≤ v1 * B + v0 := by
    have := Nat.mul_le_mul_right B hd1
    omega
  have hest := qhat_within_one hWd.symm hwl hYeq hyl' hv2 hW
  rw [← hquo] at hest
  generalize div3by2 xHi u1 u0 rc v0 = quo at *
  have hYpos : 0 < Y := by
    have h0 : 0 < v1 * B + v0 := Nat.lt_of_lt_of_le (by decide) hv2
    rw [hYeq]; exact Nat.lt_of_lt_of_le (Nat.mul_pos h0 hKpos) (Nat.le_add_right _ _)
  have hqlt : quo < B := by
    rw [hquo]; exact Nat.lt_of_le_of_lt (Nat.min_le_right _ _) (Nat.sub_lt B_pos (by decide))
  have hlo : W / Y * Y ≤ W := Nat.div_mul_le_self W Y
  have hhi : W < (W / Y + 1) * Y := by rw [Nat.mul_comm]; exact Nat.lt_mul_div_succ W hYpos
  have hdm := Nat.div_add_mod W Y
  have hWx : val xs + B ^ xs.length * xHi = W := by rw [hxl, hWeq]
  have hks := knuthRow_spec (q := W / Y) hx hy (by rw [hxl, hyl]) hxHi hqlt
    (by rw [hWx, hYd]; exact hlo) (by rw [hWx, hYd]; exact hhi) hest
  obtain ⟨k1, k2, k3, k4⟩ := hks
  rw [hWx, hYd] at k1
  rw [hxl] at k4
  refine ⟨rem_of_eq k1 hdm, k3, k4, ?_, ?_⟩
  · exact select_digit hqlt (wslt _ _) hest k2 (fun he => wsub_one_of_succ hqlt he)
  · exact select_digit hqlt (Nat.lt_of_le_of_lt (Nat.sub_le _ _) hqlt) hest k2
      (fun he => by rw [he]; exact Nat.add_sub_cancel _ _)


theorem getD_mid (a b c : List Nat) (j : Nat) (hj : j < b.length) :
    (a ++ b ++ c).getD (a.length + j) 0 = b.getD j 0 := by
  simp only [List.getD_eq_getElem?_getD, List.append_assoc]
  rw [List.getElem?_append_right (by omega)]
  have : a.length + j - a.length = j := by omega
  rw [this, List.getElem?_append_left hj]

theorem set_mid_last (a rl c : List Nat) (rt q : Nat) :
    (a ++ (rl ++ [rt]) ++ c).set (a.length + rl.length) q = a ++ (rl ++ [q]) ++ c := by
  simp only [List.append_assoc]
  rw [List.set_append_right _ _ (by omega)]
  have : a.length + rl.length - a.length = rl.length := by omega
  rw [this, List.set_append_right _ _ (by omega)]
  simp

theorem snoc_decomp {l : List Nat} {n : Nat} (h : l.length = n + 1) : l = l.take n ++ [l.getD n 0] := by
  apply List.ext_getElem
  · simp [h]
  · intro i h1 h2
    by_cases hi : i < n
    · rw [List.getElem_append_left (by simp; omega)]; simp
    · have : i = n := by omega
      subst this
      rw [List.getElem_append_right (by simp)]
      simp [List.getD_eq_getElem?_getD, List.getElem?_eq_getElem h1]

theorem take_mid (a b c : List Nat) : (a ++ b ++ c).take a.length = a := by
  rw [List.append_assoc]; exact List.take_left' rfl
theorem drop_take_mid (a b c : List Nat) : ((a ++ b ++ c).drop a.length).take b.length = b := by
  rw [List.append_assoc, List.drop_left' rfl]; exact List.take_left' rfl
theorem drop_mid (a b c : List Nat) : (a ++ b ++ c).drop (a.length + b.length) = c := by
  exact List.drop_left' (by simp)


/-- one pass of the vartime loop on a structured state `lo ++ win ++ Q` -/
theorem vtRow_struct {rc : Reciprocal} (ok : RcOK rc) {y lo win Q : List Nat} {xHi yc k xi : Nat}
    (hyc : 2 ≤ yc) (hyl : y.length = yc) (hy : WF y) (hv1 : y.getD (yc - 1) 0 = rc.divisorNormalized)
    (hlo : lo.length = k) (hwin : win.length = yc) (hxi : xi + 1 = k + yc)
    (hw : WF win) (hxHi : xHi < B) (hW : val win + B ^ yc * xHi < val y * B) :
    ∃ rl rt, rl.length = yc - 1 ∧ WF rl ∧ rt < B ∧
      val rl + B ^ (yc - 1) * rt = (val win + B ^ yc * xHi) % val y ∧
      vtRow rc y yc xi (lo ++ win ++ Q) xHi =
        (lo ++ (rl ++ [rt]) ++ Q, rt, (val win + B ^ yc * xHi) / val y) := by
  have e1 : xi + 1 - yc = lo.length := by omega
  have e2 : xi = lo.length + (yc - 1) := by omega
  have e3 : xi - 1 = lo.length + (yc - 2) := by omega
  have e4 : xi + 1 = lo.length + win.length := by omega
  have g1 : (lo ++ win ++ Q).getD xi 0 = win.getD (yc - 1) 0 := by
    rw [e2]; exact getD_mid lo win Q _ (by omega)
  have g2 : (lo ++ win ++ Q).getD (xi - 1) 0 = win.getD (yc - 2) 0 := by
    rw [e3]; exact getD_mid lo win Q _ (by omega)
  have t1 : (lo ++ win ++ Q).take (xi + 1 - yc) = lo := by rw [e1]; exact take_mid lo win Q
  have t2 : ((lo ++ win ++ Q).drop (xi + 1 - yc)).take yc = win := by
    rw [e1, ← hwin]; exact drop_take_mid lo win Q
  have t3 : (lo ++ win ++ Q).drop (xi + 1) = Q := by rw [e4]; exact drop_mid lo win Q
  obtain ⟨d1, d2, d3, d4, _⟩ := knuth_digit ok hyc hwin hyl hw hy hxHi hv1 hW
  generalize hquo : div3by2 xHi (win.getD (yc - 1) 0) (win.getD (yc - 2) 0) rc (y.getD (yc - 2) 0) = quo at *
  generalize hrow : knuthRow win y xHi quo = row at *
  have hdec := snoc_decomp (l := row.1) (n := yc - 1) (by omega)
  refine ⟨row.1.take (yc - 1), row.1.getD (yc - 1) 0, by simp [d3], WF_take d2 _, getD_lt d2 _, ?_, ?_⟩
  · rw [← d1]
    conv => rhs; rw [hdec]
    rw [val_append]; simp [val, d3]
  · have hx2 : (lo ++ row.1 ++ Q).getD xi 0 = row.1.getD (yc - 1) 0 := by
      rw [e2]; exact getD_mid lo row.1 Q _ (by omega)
    unfold vtRow
    simp only [g1, g2, t1, t2, t3, hquo, hrow, hx2, d4]
    rw [← hdec]


theorem vtLoop_zero (rc : Reciprocal) (y : List Nat) (yc : Nat) (st : List Nat × Nat) :
    vtLoop rc y yc 0 st =
      ((vtRow rc y yc (yc - 1) st.1 st.2).1.set (yc - 1) (vtRow rc y yc (yc - 1) st.1 st.2).2.2,
       (vtRow rc y yc (yc - 1) st.1 st.2).2.1) := rfl
theorem vtLoop_succ (rc : Reciprocal) (y : List Nat) (yc k : Nat) (st : List Nat × Nat) :
    vtLoop rc y yc (k + 1) st =
      vtLoop rc y yc k ((vtRow rc y yc (yc + k) st.1 st.2).1.set (yc + k) (vtRow rc y yc (yc + k) st.1 st.2).2.2,
       (vtRow rc y yc (yc + k) st.1 st.2).2.1) := rfl

/-- arithmetic of one step of schoolbook division: peel the top digit -/
theorem peel_digit {lo K W Y : Nat} (hY : 0 < Y) :
    (lo + K * W) / Y = (lo + K * (W % Y)) / Y + K * (W / Y) ∧
    (lo + K * W) % Y = (lo + K * (W % Y)) % Y := by
  have h := Nat.div_add_mod W Y
  have e : lo + K * W = lo + K * (W % Y) + K * (W / Y) * Y := by
    conv => lhs; rw [← h]
    ring
  rw [e, Nat.add_mul_div_right _ _ hY, Nat.add_mul_mod_self_right]
  exact ⟨rfl, rfl⟩

/-- **T02.4 (loop, vartime)** the `loop { … }` of `div_rem_vartime` from pass `k` down to `0`:
    state `lo ++ win ++ Q` (`k` untouched low limbs, the `yc`-limb window, the digits already stored). -/
theorem vtLoop_spec {rc : Reciprocal} (ok : RcOK rc) {y : List Nat} {yc : Nat}
    (hyc : 2 ≤ yc) (hyl : y.length = yc) (hy : WF y) (hv1 : y.getD (yc - 1) 0 = rc.divisorNormalized) :
    ∀ (k : Nat) (lo win Q : List Nat) (xHi : Nat), lo.length = k → win.length = yc → WF lo → WF win →
      xHi < B → val win + B ^ yc * xHi < val y * B →
      ∃ r ds, (vtLoop rc y yc k (lo ++ win ++ Q, xHi)).1 = r ++ ds ++ Q ∧ r.length = yc - 1 ∧
        ds.length = k + 1 ∧ WF r ∧ WF ds ∧ (vtLoop rc y yc k (lo ++ win ++ Q, xHi)).2 < B ∧
        val r + B ^ (yc - 1) * (vtLoop rc y yc k (lo ++ win ++ Q, xHi)).2 =
          (val (lo ++ win) + B ^ (k + yc) * xHi) % val y ∧
        val ds = (val (lo ++ win) + B ^ (k + yc) * xHi) / val y := by
  have hYpos : 0 < val y := by
    obtain ⟨ey, _⟩ := val_top2 hyc hyl hy
    rw [hv1] at ey
    have h1 : 0 < rc.divisorNormalized := Nat.lt_of_lt_of_le (by decide) ok.h1
    have h2 : 0 < B ^ (yc - 2) * (B * rc.divisorNormalized) := Nat.mul_pos (Nat.pow_pos B_pos) (Nat.mul_pos B_pos h1)
    rw [ey, Nat.mul_add]; omega
  intro k
  induction k with
  | zero =>
    intro lo win Q xHi hlo hwin hwlo hw hxHi hW
    have hlo0 : lo = [] := List.length_eq_zero_iff.mp hlo
    subst hlo0
    obtain ⟨rl, rt, h1, h2, h3, h4, h5⟩ := vtRow_struct (lo := []) (Q := Q) (k := 0) (xi := yc - 1) ok hyc hyl hy hv1 rfl hwin (by omega) hw hxHi hW
    have hWlt : (val win + B ^ yc * xHi) / val y < B := by
      rw [Nat.div_lt_iff_lt_mul hYpos, Nat.mul_comm B (val y)]; exact hW
    refine ⟨rl, [(val win + B ^ yc * xHi) / val y], ?_, h1, rfl, h2, WF_cons.mpr ⟨hWlt, WF_nil⟩, ?_, ?_, ?_⟩
    · rw [vtLoop_zero]; simp only [h5]
      have := set_mid_last [] rl Q rt ((val win + B ^ yc * xHi) / val y)
      simp only [List.length_nil, Nat.zero_add, h1] at this
      rw [this]; simp
    · rw [vtLoop_zero]; simp only [h5]; exact h3
    · rw [vtLoop_zero]; simp only [h5]; simpa using h4
    · simp [val]
  | succ k ih =>
    intro lo win Q xHi hlo hwin hwlo hw hxHi hW
    obtain ⟨rl, rt, h1, h2, h3, h4, h5⟩ := vtRow_struct (Q := Q) (k := k + 1) (xi := yc + k) ok hyc hyl hy hv1 hlo hwin (by omega) hw hxHi hW
    have hdec := snoc_decomp hlo
    generalize hlo' : lo.take k = lo' at hdec
    generalize hw0 : lo.getD k 0 = w at hdec
    have hwlt : w < B := by rw [← hw0]; exact getD_lt hwlo k
    have hlo'l : lo'.length = k := by rw [← hlo']; simp [hlo]
    have hlo'wf : WF lo' := by rw [← hlo']; exact WF_take hwlo k
    generalize hq : (val win + B ^ yc * xHi) / val y = q at *
    have hqlt : q < B := by
      rw [← hq, Nat.div_lt_iff_lt_mul hYpos, Nat.mul_comm B (val y)]; exact hW
    have hmod := Nat.mod_lt (val win + B ^ yc * xHi) hYpos
    -- the next state
    have hnext : (lo ++ (rl ++ [rt]) ++ Q).set (yc + k) q = lo' ++ (w :: rl) ++ (q :: Q) := by
      have := set_mid_last lo rl Q rt q
      have e : lo.length + rl.length = yc + k := by omega
      rw [e] at this
      rw [this, hdec]; simp
    have hW' : val (w :: rl) + B ^ yc * rt < val y * B := by
      have e : B ^ yc = B * B ^ (yc - 1) := by
        have : yc = (yc - 1) + 1 := by omega
        conv => lhs; rw [this]
        rw [Nat.pow_succ, Nat.mul_comm]
      have e2 : val (w :: rl) + B ^ yc * rt = w + B * (val rl + B ^ (yc - 1) * rt) := by
        rw [val_cons, e]; ring
      rw [e2, h4]
      have : B * ((val win + B ^ yc * xHi) % val y + 1) ≤ B * val y := Nat.mul_le_mul_left B hmod
      rw [Nat.mul_add, Nat.mul_one, Nat.mul_comm B (val y)] at this
      omega
    obtain ⟨r, ds, i1, i2, i3, i4, i5, i6, i7, i8⟩ :=
      ih lo' (w :: rl) (q :: Q) rt hlo'l (by simp [h1]; omega) hlo'wf (WF_cons.mpr ⟨hwlt, h2⟩) h3 hW'
    have hst : vtLoop rc y yc (k + 1) (lo ++ win ++ Q, xHi) = vtLoop rc y yc k (lo' ++ (w :: rl) ++ (q :: Q), rt) := by
      rw [vtLoop_succ]; simp only [h5, hnext]
    rw [hst]
    -- arithmetic
    have hN' : val (lo' ++ w :: rl) + B ^ (k + yc) * rt =
        val lo + B ^ (k + 1) * ((val win + B ^ yc * xHi) % val y) := by
      rw [← h4]
      conv => rhs; rw [hdec]
      rw [val_append, val_append, hlo'l, val_cons, val_cons, val_nil]
      have e : B ^ (k + yc) = B ^ (k + 1) * B ^ (yc - 1) := by
        rw [← Nat.pow_add]; congr 1; omega
      rw [e, Nat.pow_succ]; ring
    have hN : val (lo ++ win) + B ^ (k + 1 + yc) * xHi = val lo + B ^ (k + 1) * (val win + B ^ yc * xHi) := by
      rw [val_append, hlo, Nat.pow_add]; ring
    have hp := peel_digit (lo := val lo) (K := B ^ (k + 1)) (W := val win + B ^ yc * xHi) hYpos
    rw [hN', ] at i7 i8
    refine ⟨r, ds ++ [q], ?_, i2, by simp [i3], i4, WF_append.mpr ⟨i5, WF_cons.mpr ⟨hqlt, WF_nil⟩⟩, i6, ?_, ?_⟩
    · rw [i1]; simp
    · rw [i7, hN, hp.2]
    · rw [val_append, i8, hN, hp.1, i3, hq]; simp [val]


theorem zeros_WF (n : Nat) : WF (zeros n) := uzero_WF n
theorem val_zeros (n : Nat) : val (zeros n) = 0 := val_uzero n
theorem zeros_length (n : Nat) : (zeros n).length = n := by simp [zeros]

theorem getLastD_eq_getD (a : List Nat) (h : a ≠ []) : a.getLastD 0 = a.getD (a.length - 1) 0 := by
  simp [List.getLastD_eq_getLast?, List.getLast?_eq_getElem?, List.getD_eq_getElem?_getD]

/-- the carry shifted out of a limb by `0 < s < 64` -/
theorem carry_lt {w s : Nat} (hs : s < 64) (hw : w < B) : w / 2 ^ (64 - s) < 2 ^ s := by
  rw [Nat.div_lt_iff_lt_mul (Nat.pow_pos (by decide)), Nat.mul_comm, ← B_split (Nat.le_of_lt hs)]
  exact hw

/-- `shl_limb_vartime(shift, limbs_num)` with `limbs_num = LIMBS` -/
theorem shlLimbVartime_full {a : List Nat} {s : Nat} (hs : s < 64) (ha : WF a) (hne : a ≠ []) :
    val (shlLimbVartime a s a.length).1 + B ^ a.length * (shlLimbVartime a s a.length).2 = val a * 2 ^ s ∧
    WF (shlLimbVartime a s a.length).1 ∧ (shlLimbVartime a s a.length).1.length = a.length ∧
    (shlLimbVartime a s a.length).2 < 2 ^ s := by
  by_cases h0 : s = 0
  · subst h0; simp [shlLimbVartime, ha]
  · have ⟨i1, i2, i3⟩ := shlVtLoop_spec (prev := 0) hs (by decide) ha
    simp only [Nat.zero_div, Nat.add_zero] at i1
    have e : shlLimbVartime a s a.length = (shlVtLoop s (64 - s) 0 a, a.getLastD 0 / 2 ^ (64 - s)) := by
      simp only [shlLimbVartime, if_neg h0, List.take_length, Nat.sub_self, zeros, List.replicate_zero,
        List.append_nil, Nat.shiftRight_eq_div_pow, getLastD_eq_getD a hne]
    rw [e]
    exact ⟨i1, i2, i3, carry_lt hs (getLastD_lt (by decide) ha)⟩

/-- a value below `B^m` has only zero limbs from index `m` on -/
theorem val_drop_zero {a : List Nat} {m : Nat} (ha : WF a) (hm : m ≤ a.length) (hv : val a < B ^ m) :
    val (a.drop m) = 0 ∧ val (a.take m) = val a := by
  have h := val_take_drop a m
  have hl : (a.take m).length = m := by simp [hm]
  rw [hl] at h
  have hz : val (a.drop m) = 0 := by
    by_contra hne
    have : B ^ m * 1 ≤ B ^ m * val (a.drop m) := Nat.mul_le_mul_left _ (by omega)
    omega
  rw [hz] at h; exact ⟨hz, by omega⟩

theorem list_of_val_zero {a : List Nat} (ha : WF a) (hv : val a = 0) : a = zeros a.length := by
  apply val_inj ha (zeros_WF _) (by simp [zeros])
  rw [hv, val_zeros]

/-- `shl_limb_vartime(shift, yc)` on a divisor whose shifted value fits `yc` limbs -/
theorem shlLimbVartime_low {a : List Nat} {s m : Nat} (hs : s < 64) (ha : WF a) (hm0 : 0 < m)
    (hm : m ≤ a.length) (hv : val a * 2 ^ s < B ^ m) :
    val ((shlLimbVartime a s m).1.take m) = val a * 2 ^ s ∧ WF ((shlLimbVartime a s m).1.take m) ∧
    ((shlLimbVartime a s m).1.take m).length = m ∧
    (shlLimbVartime a s m).1.drop m = zeros (a.length - m) := by
  have hpos : 0 < 2 ^ s := Nat.pow_pos (by decide)
  have hva : val a < B ^ m := Nat.lt_of_le_of_lt (Nat.le_mul_of_pos_right _ hpos) hv
  obtain ⟨z1, z2⟩ := val_drop_zero ha hm hva
  by_cases h0 : s = 0
  · subst h0
    have e : shlLimbVartime a 0 m = (a, 0) := by simp [shlLimbVartime]
    rw [e]
    refine ⟨by simp [z2], WF_take ha m, by simp [hm], ?_⟩
    have := list_of_val_zero (WF_drop ha m) z1
    rw [this]; simp
  · have hat := WF_take ha m
    have hl : (a.take m).length = m := by simp [hm]
    have ⟨i1, i2, i3⟩ := shlVtLoop_spec (prev := 0) hs (by decide) hat
    simp only [Nat.zero_div, Nat.add_zero] at i1
    rw [hl] at i1 i3
    have e : (shlLimbVartime a s m).1 = shlVtLoop s (64 - s) 0 (a.take m) ++ zeros (a.length - m) := by
      simp only [shlLimbVartime, if_neg h0]
    rw [e, List.take_left' i3, List.drop_left' i3]
    refine ⟨?_, i2, i3, rfl⟩
    rw [z2] at i1
    have hlt := val_lt i2
    rw [i3] at hlt
    generalize (a.take m).getLastD 0 / 2 ^ (64 - s) = c at *
    have : c = 0 := by
      by_contra hne
      have : B ^ m * 1 ≤ B ^ m * c := Nat.mul_le_mul_left _ (by omega)
      omega
    rw [this] at i1; omega

theorem shrVtLoop_cons2 (l r x x' : Nat) (xs : List Nat) :
    shrVtLoop l r (x :: x' :: xs) = ((x >>> r) ||| ((x' <<< l) % B)) :: shrVtLoop l r (x' :: xs) := rfl

/-- value of the vartime right-shift loop (`0 < s < 64`) -/
theorem shrVtLoop_spec {xs : List Nat} {s : Nat} (hs0 : 0 < s) (hs : s < 64) (hx : WF xs) :
    val (shrVtLoop (64 - s) s xs) = val xs / 2 ^ s ∧ WF (shrVtLoop (64 - s) s xs) ∧
    (shrVtLoop (64 - s) s xs).length = xs.length := by
  induction xs with
  | nil => simp [shrVtLoop, WF_nil]
  | cons x xs ih =>
    have ⟨hx0, hxs⟩ := WF_cons.mp hx
    cases xs with
    | nil =>
      have e : shrVtLoop (64 - s) s [x] = [x >>> s] := rfl
      rw [e]
      refine ⟨by simp [val, Nat.shiftRight_eq_div_pow], WF_cons.mpr ⟨shr_lt_B hx0, WF_nil⟩, rfl⟩
    | cons x' xs =>
      have ⟨hx0', _⟩ := WF_cons.mp hxs
      have ⟨i1, i2, i3⟩ := ih hxs
      rw [shrVtLoop_cons2]
      have hw := shl_limb_word (x := x') (p := x) (s := 64 - s) (by omega) hx0
      have e64 : 64 - (64 - s) = s := by omega
      rw [e64] at hw
      obtain ⟨w1, w2⟩ := hw
      have hor : (x >>> s) ||| ((x' <<< (64 - s)) % B) = (x' % 2 ^ s) * 2 ^ (64 - s) + x / 2 ^ s := by
        rw [Nat.or_comm]; exact w1
      refine ⟨?_, WF_cons.mpr ⟨by rw [hor]; exact w2, i2⟩, by simp [i3]⟩
      have hv2 : val (x :: x' :: xs) = x + B * val (x' :: xs) := val_cons _ _
      rw [hv2, val_cons, hor, i1]
      have hB : B = 2 ^ s * 2 ^ (64 - s) := by
        have := B_split (s := 64 - s) (by omega); rw [e64] at this; exact this
      generalize hV : val (x' :: xs) = V at *
      have hVm : V % 2 ^ s = x' % 2 ^ s := by
        rw [← hV, val_cons, hB, Nat.mul_assoc, Nat.add_mul_mod_self_left]
      have hpos : 0 < 2 ^ s := Nat.pow_pos (by decide)
      have e1 : x + B * V = x + 2 ^ s * (2 ^ (64 - s) * V) := by rw [hB]; ring
      rw [e1, Nat.add_mul_div_left _ _ hpos, ← hVm]
      have hdm := Nat.div_add_mod V (2 ^ s)
      have e2 : 2 ^ (64 - s) * V = V % 2 ^ s * 2 ^ (64 - s) + B * (V / 2 ^ s) := by
        conv => lhs; rw [← hdm]
        rw [hB]; ring
      rw [e2]; ring

/-- `shr_limb_vartime(shift, yc)` on `rem ++ zeros` -/
theorem shrLimbVartime_low {a : List Nat} {s m : Nat} (hs : s < 64) (ha : WF a) (hm : m ≤ a.length)
    (hz : val (a.drop m) = 0) :
    val (shrLimbVartime a s m) = val a / 2 ^ s ∧ WF (shrLimbVartime a s m) ∧
    (shrLimbVartime a s m).length = a.length := by
  by_cases h0 : s = 0
  · subst h0; simp [shrLimbVartime, ha]
  · have hat := WF_take ha m
    have hl : (a.take m).length = m := by simp [hm]
    have ⟨i1, i2, i3⟩ := shrVtLoop_spec (Nat.pos_of_ne_zero h0) hs hat
    have e : shrLimbVartime a s m = shrVtLoop (64 - s) s (a.take m) ++ zeros (a.length - m) := by
      simp only [shrLimbVartime, if_neg h0]
    have hva := val_take_drop a m
    rw [hz, Nat.mul_zero, Nat.add_zero] at hva
    rw [e]
    refine ⟨by rw [val_append, val_zeros, Nat.mul_zero, Nat.add_zero, i1, hva], WF_append.mpr ⟨i2, zeros_WF _⟩, ?_⟩
    rw [List.length_append, i3, hl, zeros_length]; omega


theorem B_pow_eq (m : Nat) : B ^ m = 2 ^ (64 * m) := by rw [B_eq_pow, ← Nat.pow_mul]

theorem bitLen_spec {v : Nat} (hv : v ≠ 0) : 2 ^ (bitLen v - 1) ≤ v ∧ v < 2 ^ bitLen v ∧ 0 < bitLen v := by
  have h1 := Nat.log2_self_le hv
  have h2 := Nat.lt_log2_self (n := v)
  simp only [bitLen, if_neg hv, Nat.add_sub_cancel]
  exact ⟨h1, h2, Nat.succ_pos _⟩

/-- the normalisation shift of a non-zero divisor: `yc` limbs, top bit set -/
theorem norm_facts {v dbits yc s : Nat} (hv : v ≠ 0) (hd : dbits = bitLen v) (hyc : yc = (dbits + 63) / 64)
    (hs : s = (64 - dbits % 64) % 64) :
    s < 64 ∧ 1 ≤ yc ∧ HALF * B ^ (yc - 1) ≤ v * 2 ^ s ∧ v * 2 ^ s < B ^ yc := by
  obtain ⟨b1, b2, b3⟩ := bitLen_spec hv
  rw [← hd] at b1 b2 b3
  have e1 : dbits + s = 64 * yc := by omega
  have hpos : 0 < 2 ^ s := Nat.pow_pos (by decide)
  refine ⟨by omega, by omega, ?_, ?_⟩
  · have : HALF * B ^ (yc - 1) = 2 ^ (dbits - 1) * 2 ^ s := by
      rw [B_pow_eq, ← Nat.pow_add]
      have : HALF = 2 ^ 63 := by decide
      rw [this, ← Nat.pow_add]; congr 1; omega
    rw [this]; exact Nat.mul_le_mul_right _ b1
  · have : B ^ yc = 2 ^ dbits * 2 ^ s := by rw [B_pow_eq, ← Nat.pow_add, e1]
    rw [this]; exact Nat.mul_lt_mul_of_pos_right b2 hpos

theorem top_limb_normalized {Y : List Nat} {m : Nat} (hm : 1 ≤ m) (hl : Y.length = m) (hY : WF Y)
    (hv : HALF * B ^ (m - 1) ≤ val Y) : HALF ≤ Y.getD (m - 1) 0 := by
  have hdec := snoc_decomp (l := Y) (n := m - 1) (by omega)
  have hv2 : val Y = val (Y.take (m - 1)) + B ^ (m - 1) * Y.getD (m - 1) 0 := by
    conv => lhs; rw [hdec]
    rw [val_append]; simp [val, hl]
  have hlt := val_lt (WF_take hY (m - 1))
  have hll : (Y.take (m - 1)).length = m - 1 := by simp [hl]
  rw [hll] at hlt
  by_contra hc
  have h1 : B ^ (m - 1) * (Y.getD (m - 1) 0 + 1) ≤ B ^ (m - 1) * HALF := Nat.mul_le_mul_left _ (by omega)
  rw [Nat.mul_add, Nat.mul_one, Nat.mul_comm _ HALF] at h1
  omega

theorem Reciprocal_new_normalized (H : HRecip) {d : Nat} (hd1 : HALF ≤ d) (hd : d < B) :
    RcOK (Reciprocal.new d) ∧ (Reciprocal.new d).divisorNormalized = d := by
  have hd0 : 0 < d := Nat.lt_of_lt_of_le (by decide) hd1
  obtain ⟨ok, e1, _⟩ := Reciprocal_new_ok H hd0 hd
  obtain ⟨_, _, l3⟩ := leadingZeros_spec hd0 hd
  have hz : leadingZeros d = 0 := by
    by_contra hne
    have : 2 ^ 1 ≤ 2 ^ leadingZeros d := Nat.pow_le_pow_right (by decide) (by omega)
    have h2 : d * 2 ^ 1 ≤ d * 2 ^ leadingZeros d := Nat.mul_le_mul_left _ this
    simp only [B_def, HALF_def] at *; omega
  rw [hz] at e1
  exact ⟨ok, by rw [e1]; simp⟩

theorem getD_take {l : List Nat} {m i : Nat} (h : i < m) : (l.take m).getD i 0 = l.getD i 0 := by
  simp [List.getD_eq_getElem?_getD, h]

theorem eq_toLimbs {l : List Nat} {n v : Nat} (hl : WF l) (hn : l.length = n) (hv : val l = v) :
    l = toLimbs n v := by
  rw [← hn, ← hv, toLimbs_val hl]


/-- **T02.7 (core)** the Knuth part of `div_rem_vartime` (`2 ≤ yc ≤ LIMBS`) -/
theorem divRemVartimeCore_spec (H : HRecip) {n d : List Nat} (hn : WF n) (hd : WF d) (hd0 : val d ≠ 0)
    {dbits yc : Nat} (hdb : dbits = bitLen (val d)) (hyc : yc = (dbits + 63) / 64) (h2 : 2 ≤ yc)
    (hL : yc ≤ n.length) :
    divRemVartimeCore n d dbits yc =
      (toLimbs n.length (val n / val d), toLimbs d.length (val n % val d)) := by
  obtain ⟨s, hs⟩ : ∃ s, s = (64 - dbits % 64) % 64 := ⟨_, rfl⟩
  obtain ⟨n1, n2, n3, n4⟩ := norm_facts hd0 hdb hyc hs
  have hpos : 0 < 2 ^ s := Nat.pow_pos (by decide)
  -- yc ≤ d.length
  have hR : yc ≤ d.length := by
    obtain ⟨b1, _, b3⟩ := bitLen_spec hd0
    rw [← hdb] at b1 b3
    have := Nat.lt_of_le_of_lt b1 (val_lt hd)
    rw [B_pow_eq] at this
    have := (Nat.pow_lt_pow_iff_right (by decide : 1 < 2)).mp this
    omega
  have hne : n ≠ [] := by intro h; rw [h] at hL; simp at hL; omega
  obtain ⟨x1, x2, x3, x4⟩ := shlLimbVartime_full n1 hn hne
  obtain ⟨y1, y2, y3, y4⟩ := shlLimbVartime_low n1 hd (by omega) hR n4
  have hy0 : (shlLimbVartime d s yc).1.getD (yc - 1) 0 = ((shlLimbVartime d s yc).1.take yc).getD (yc - 1) 0 :=
    (getD_take (by omega)).symm
  have htop := top_limb_normalized (by omega) y3 y2 (by rw [y1]; exact n3)
  have htoplt := getD_lt y2 (yc - 1)
  obtain ⟨ok, hdn⟩ := Reciprocal_new_normalized H htop htoplt
  unfold divRemVartimeCore
  simp only [← hs, hy0]
  generalize hX : shlLimbVartime n s n.length = X at *
  generalize hYf : (shlLimbVartime d s yc).1 = Yf at *
  generalize hYl : Yf.take yc = Yl at *
  generalize hrc : Reciprocal.new (Yl.getD (yc - 1) 0) = rc at *
  -- loop
  have hxsplit : X = (X.1.take (n.length - yc) ++ X.1.drop (n.length - yc) ++ [], X.2) := by
    simp
  have hlol : (X.1.take (n.length - yc)).length = n.length - yc := by simp [x3]
  have hwinl : (X.1.drop (n.length - yc)).length = yc := by simp [x3]; omega
  have hwinlt := val_lt (WF_drop x2 (n.length - yc))
  rw [hwinl] at hwinlt
  have hHB : 2 ^ s ≤ HALF := by
    have : HALF = 2 ^ 63 := by decide
    rw [this]; exact Nat.pow_le_pow_right (by decide) (by omega)
  have hBy : B ^ yc = B ^ (yc - 1) * B := by
    have : yc = (yc - 1) + 1 := by omega
    conv => lhs; rw [this]
    rw [Nat.pow_succ]
  have hW : val (X.1.drop (n.length - yc)) + B ^ yc * X.2 < val Yl * B := by
    have h1 : B ^ yc * (X.2 + 1) ≤ B ^ yc * HALF := Nat.mul_le_mul_left _ (by omega)
    have h3 : HALF * B ^ (yc - 1) * B ≤ val Yl * B := Nat.mul_le_mul_right B (by rw [y1]; exact n3)
    have e : HALF * B ^ (yc - 1) * B = B ^ yc * HALF := by rw [hBy]; ring
    rw [Nat.mul_add, Nat.mul_one] at h1
    omega
  obtain ⟨r, ds, l1, l2, l3, l4, l5, l6, l7, l8⟩ :=
    vtLoop_spec ok h2 y3 y2 hdn.symm (n.length - yc) _ _ [] X.2 hlol hwinl (WF_take x2 _) (WF_drop x2 _)
      (Nat.lt_of_lt_of_le x4 (Nat.le_trans hHB (by decide))) hW
  rw [← hxsplit] at l1 l6 l7
  rw [List.take_append_drop, show n.length - yc + yc = n.length by omega, x1, y1] at l7 l8
  rw [Nat.mul_mod_mul_right] at l7
  rw [Nat.mul_div_mul_right _ _ hpos] at l8
  generalize vtLoop rc Yl yc (n.length - yc) X = st at *
  rw [List.append_nil] at l1
  have hq : st.1.drop (yc - 1) ++ zeros (yc - 1) = toLimbs n.length (val n / val d) := by
    apply eq_toLimbs
    · rw [l1, List.drop_left' l2]; exact WF_append.mpr ⟨l5, zeros_WF _⟩
    · rw [l1, List.drop_left' l2, List.length_append, l3, zeros_length]; omega
    · rw [l1, List.drop_left' l2, val_append, val_zeros, Nat.mul_zero, Nat.add_zero, l8]
  have hr : shrLimbVartime (st.1.take (yc - 1) ++ [st.2] ++ Yf.drop yc) s yc =
      toLimbs d.length (val n % val d) := by
    rw [l1, List.take_left' l2, y4]
    have hwf : WF (r ++ [st.2] ++ zeros (d.length - yc)) :=
      WF_append.mpr ⟨WF_append.mpr ⟨l4, WF_cons.mpr ⟨l6, WF_nil⟩⟩, zeros_WF _⟩
    have hlen : (r ++ [st.2] ++ zeros (d.length - yc)).length = d.length := by
      simp [l2, zeros_length]; omega
    have hdz : (r ++ [st.2] ++ zeros (d.length - yc)).drop yc = zeros (d.length - yc) :=
      List.drop_left' (by simp [l2]; omega)
    obtain ⟨s1, s2, s3⟩ := shrLimbVartime_low (m := yc) n1 hwf (by rw [hlen]; exact hR) (by rw [hdz, val_zeros])
    apply eq_toLimbs s2 (by rw [s3, hlen])
    rw [s1, val_append, val_zeros, Nat.mul_zero, Nat.add_zero, val_append, l2]
    simp only [val_cons, val_nil, Nat.mul_zero, Nat.add_zero]
    rw [l7, Nat.mul_div_cancel _ hpos]
  rw [hq, hr]


/-- limb count of a non-zero divisor: `B^(yc-1) ≤ v < B^yc`, and it fits the divisor's own width -/
theorem yc_facts {d : List Nat} (hd : WF d) (hd0 : val d ≠ 0) {dbits yc : Nat} (hdb : dbits = bitLen (val d))
    (hyc : yc = (dbits + 63) / 64) : 1 ≤ yc ∧ yc ≤ d.length ∧ B ^ (yc - 1) ≤ val d ∧ val d < B ^ yc := by
  obtain ⟨b1, b2, b3⟩ := bitLen_spec hd0
  rw [← hdb] at b1 b2 b3
  have h1 := Nat.lt_of_le_of_lt b1 (val_lt hd)
  rw [B_pow_eq] at h1
  have h2 := (Nat.pow_lt_pow_iff_right (by decide : 1 < 2)).mp h1
  refine ⟨by omega, by omega, ?_, ?_⟩
  · rw [B_pow_eq]; exact Nat.le_trans (Nat.pow_le_pow_right (by decide) (by omega)) b1
  · rw [B_pow_eq]; exact Nat.lt_of_lt_of_le b2 (Nat.pow_le_pow_right (by decide) (by omega))

theorem single_limb_val {d : List Nat} (hd : WF d) (hv : val d < B) (hne : d ≠ []) : val d = d.getD 0 0 := by
  cases d with
  | nil => exact absurd rfl hne
  | cons x xs =>
    have := val_drop_zero (m := 1) hd (by simp) (by simpa using hv)
    simp at this ⊢
    omega

/-- **T02.7** `Uint::div_rem_vartime` (all width pairs): the three branches. -/
theorem divRemVartime_spec (H : HRecip) {n d : List Nat} (hn : WF n) (hd : WF d) (hd0 : val d ≠ 0) :
    divRemVartime n d = (toLimbs n.length (val n / val d), toLimbs d.length (val n % val d)) := by
  obtain ⟨f1, f2, f3, f4⟩ := yc_facts hd hd0 rfl rfl
  unfold divRemVartime
  simp only []
  generalize hyc : (bitLen (val d) + 63) / 64 = yc at *
  by_cases h1 : yc = 1
  · rw [if_pos h1]
    subst h1
    have hne : d ≠ [] := by intro h; rw [h] at hd0; exact hd0 rfl
    have hv := single_limb_val hd (by simpa using f4) hne
    have hd0' : 0 < d.getD 0 0 := by omega
    obtain ⟨e1, e2, _⟩ := divRemLimb_spec H hd0' (getD_lt hd 0) hn
    unfold divRemLimb at e1 e2
    rw [e1, e2, hv]
  · rw [if_neg h1]
    by_cases h2 : yc > n.length
    · rw [if_pos h2]
      have hlt : val n < val d := by
        have := val_lt hn
        have : B ^ n.length ≤ B ^ (yc - 1) := Nat.pow_le_pow_right B_pos (by omega)
        omega
      rw [Nat.div_eq_of_lt hlt, Nat.mod_eq_of_lt hlt]
      congr 1
      · exact eq_toLimbs (zeros_WF _) (zeros_length _) (val_zeros _)
      · unfold resize
        rw [List.take_of_length_le (by omega)]
        apply eq_toLimbs (WF_append.mpr ⟨hn, zeros_WF _⟩)
        · rw [List.length_append, zeros_length]; omega
        · rw [val_append, val_zeros, Nat.mul_zero, Nat.add_zero]
    · rw [if_neg h2]
      exact divRemVartimeCore_spec H hn hd hd0 rfl hyc.symm (by omega) (by omega)

end CB.Div
