/-
  CB.Lemmas.C02Knuth — Knuth's algorithm D as written in `Uint::div_rem` (constant time):
  the 3-by-2 estimate is within one of the true digit; one outer iteration keeps the loop invariant;
  iterations under the `done` mask are no-ops.
-/
import CB.Lemmas.C02LimbDiv
import CB.Lemmas.C02Rows
import CB.Lemmas.C02Div3by2
namespace CB.Div
open CB

/-- The 3-by-2 quotient (capped at `B − 1`) of the top limbs is the true digit or one more
    (Knuth 4.3.1 exercise 19–21): `W = u3·K + wl`, `Y = v2·K + yl`, `v2` normalised, `W < Y·B`. -/
theorem qhat_within_one {W Y K u3 v2 wl yl : Nat} (hW : W = u3 * K + wl) (hwl : wl < K)
    (hY : Y = v2 * K + yl) (hyl : yl < K) (hv2 : HALF * B ≤ v2) (hWlt : W < Y * B) :
    min (u3 / v2) (B - 1) = W / Y ∨ min (u3 / v2) (B - 1) = W / Y + 1 := by
  have hKpos : 0 < K := by omega
  have hv2pos : 0 < v2 := Nat.lt_of_lt_of_le (by decide) hv2
  have hYpos : 0 < Y := by
    have := Nat.mul_pos hv2pos hKpos
    omega
  have hqB : W / Y < B := (Nat.div_lt_iff_lt_mul hYpos).mpr (by rw [Nat.mul_comm]; exact hWlt)
  have hqY := Nat.div_mul_le_self W Y
  have hlt := Nat.lt_mul_div_succ W hYpos
  generalize W / Y = q at *
  -- q ≤ q3
  have hge : q ≤ min (u3 / v2) (B - 1) := by
    apply Nat.le_min.mpr
    refine ⟨?_, by omega⟩
    rw [Nat.le_div_iff_mul_le hv2pos]
    have e1 : q * Y = q * v2 * K + q * yl := by rw [hY]; ring
    have : q * v2 * K < (u3 + 1) * K := by
      rw [Nat.add_mul, Nat.one_mul]; omega
    have := Nat.lt_of_mul_lt_mul_right this
    omega
  -- q3 ≤ q + 1
  have hle : min (u3 / v2) (B - 1) ≤ q + 1 := by
    by_contra hc
    obtain ⟨a, ha⟩ : ∃ a, min (u3 / v2) (B - 1) = a + 1 := ⟨min (u3 / v2) (B - 1) - 1, by omega⟩
    have ha1 : a + 1 ≤ u3 / v2 := by rw [← ha]; exact Nat.min_le_left _ _
    have ha2 : a + 1 ≤ B - 1 := by rw [← ha]; exact Nat.min_le_right _ _
    have h1 : (a + 1) * v2 ≤ u3 := (Nat.le_div_iff_mul_le hv2pos).mp ha1
    have h2 : (a + 1) * v2 * K ≤ u3 * K := Nat.mul_le_mul_right K h1
    have h4 : (q + 1) * Y ≤ a * Y := Nat.mul_le_mul_right Y (by omega)
    have e1 : a * Y = a * v2 * K + a * yl := by rw [hY]; ring
    have e2 : (a + 1) * v2 * K = a * v2 * K + v2 * K := by ring
    have e3 : Y * (q + 1) = (q + 1) * Y := Nat.mul_comm _ _
    have h5 : a * yl < B * K := Nat.mul_lt_mul'' (by omega) hyl
    have h6 : B * K ≤ v2 * K := by
      have : B ≤ HALF * B := by decide
      exact Nat.mul_le_mul_right K (by omega)
    omega
  omega

theorem mulSubRow_zero {xs ys : List Nat} (hx : WF xs) (hy : WF ys) (hl : xs.length = ys.length) :
    mulSubRow xs ys 0 0 0 = (xs, 0, 0) := by
  induction xs generalizing ys with
  | nil => cases ys <;> rfl
  | cons x xs ih =>
    cases ys with
    | nil => simp at hl
    | cons y ys =>
      have ⟨hx0, hxs⟩ := WF_cons.mp hx
      have ⟨hy0, hys⟩ := WF_cons.mp hy
      have hm : mac 0 y 0 0 = (0, 0) := by simp [mac]
      have hs : sbb x 0 0 = (x, 0) := by
        have e : sbb x 0 0 = ((x + B * B) % (B * B) % B, (x + B * B) % (B * B) / B) := by
          simp [sbb]
        have h1 : (x + B * B) % (B * B) = x := by
          rw [Nat.add_mod_right]; exact Nat.mod_eq_of_lt (Nat.lt_of_lt_of_le hx0 B_le_BB)
        rw [e, h1, Nat.mod_eq_of_lt hx0, Nat.div_eq_of_lt hx0]
      rw [mulSubRow_cons, hm, hs, ih hxs hys (by simpa using hl)]

theorem addBackRow_zero {xs ys : List Nat} (hx : WF xs) (hy : WF ys) (hl : xs.length = ys.length) :
    addBackRow xs ys 0 0 = (xs, 0) := by
  induction xs generalizing ys with
  | nil => cases ys <;> rfl
  | cons x xs ih =>
    cases ys with
    | nil => simp at hl
    | cons y ys =>
      have ⟨hx0, hxs⟩ := WF_cons.mp hx
      have ⟨hy0, hys⟩ := WF_cons.mp hy
      have hs : selectWord 0 y 0 = 0 := selectWord_zero (by decide) hy0
      have ha : adc x 0 0 = (x, 0) := by
        simp only [adc, Nat.add_zero, Nat.mod_eq_of_lt hx0, Nat.div_eq_of_lt hx0]
      rw [addBackRow_cons, hs, ha, ih hxs hys (by simpa using hl)]

/-- an iteration whose digit is forced to `0` (the `done` mask) changes nothing -/
theorem knuthRow_zero {xs ys : List Nat} {xHi : Nat} (hx : WF xs) (hy : WF ys)
    (hl : xs.length = ys.length) (hxHi : xHi < B) : knuthRow xs ys xHi 0 = (xs, 0) := by
  have hs : sbb xHi 0 0 = (xHi, 0) := by
    have e : sbb xHi 0 0 = ((xHi + B * B) % (B * B) % B, (xHi + B * B) % (B * B) / B) := by
      simp [sbb]
    have h1 : (xHi + B * B) % (B * B) = xHi := by
      rw [Nat.add_mod_right]; exact Nat.mod_eq_of_lt (Nat.lt_of_lt_of_le hxHi B_le_BB)
    rw [e, h1, Nat.mod_eq_of_lt hxHi, Nat.div_eq_of_lt hxHi]
  rw [knuthRow, knuthBorrow, mulSubRow_zero hx hy hl, hs, fromWordMask, addBackRow_zero hx hy hl]

end CB.Div
