/-
  CB.Lemmas.C06Cmp — comparison loops of `Uint` / `Int` / `BoxedUint` against the order on `val` / `toInt`.
-/
import CB.Lemmas.AddSub
import Mathlib.Tactic.Ring
import CB.Lemmas.C06Bits
import CB.Model.Cmp
namespace CB
open CB.Cmp

theorem xor_eq_zero {x y : Nat} : x ^^^ y = 0 ↔ x = y := by
  constructor
  · intro h0
    have : x ^^^ (x ^^^ y) = x := by rw [h0, Nat.xor_zero]
    rw [← Nat.xor_assoc, Nat.xor_self, Nat.zero_xor] at this
    exact this.symm
  · intro h; subst h; exact Nat.xor_self x

theorem orAll_lt {l : List Nat} (h : WF l) : orAll l < B := by
  induction l with
  | nil => decide
  | cons x xs ih =>
    have ⟨hx, hxs⟩ := WF_cons.mp h
    exact or_lt_B hx (ih hxs)

theorem val_eq_zero {l : List Nat} : val l = 0 ↔ ∀ x ∈ l, x = 0 := by
  induction l with
  | nil => simp
  | cons x xs ih =>
    simp only [val_cons, List.mem_cons, forall_eq_or_imp]
    constructor
    · intro h
      have hx : x = 0 := by omega
      have : B * val xs = 0 := by omega
      have hv : val xs = 0 := by
        rcases Nat.mul_eq_zero.mp this with h | h
        · exact absurd h (by decide)
        · exact h
      exact ⟨hx, ih.mp hv⟩
    · intro ⟨hx, hxs⟩
      rw [hx, ih.mpr hxs]; simp

theorem orAll_eq_zero {l : List Nat} : orAll l = 0 ↔ val l = 0 := by
  rw [val_eq_zero]
  induction l with
  | nil => simp [orAll]
  | cons x xs ih =>
    simp only [orAll, Nat.or_eq_zero_iff, ih, List.mem_cons, forall_eq_or_imp]

/-- `Uint::is_nonzero` -/
theorem isNonzero_spec {l : List Nat} (h : WF l) : isNonzero l = mask (decide (val l ≠ 0)) := by
  unfold isNonzero
  rw [fromWordNonzero_spec (orAll_lt h)]
  congr 1
  simp only [ne_eq, orAll_eq_zero]

theorem xorAcc_lt {a b : List Nat} (ha : WF a) (hb : WF b) : xorAcc a b < B := by
  induction a generalizing b with
  | nil => cases b <;> simp [xorAcc] <;> decide
  | cons x xs ih =>
    cases b with
    | nil => simp [xorAcc]; decide
    | cons y ys =>
      have ⟨hx, hxs⟩ := WF_cons.mp ha
      have ⟨hy, hys⟩ := WF_cons.mp hb
      simp only [xorAcc]
      exact or_lt_B (xor_lt_B hx hy) (ih hxs hys)

theorem xorAcc_eq_zero {a b : List Nat} (h : a.length = b.length) : xorAcc a b = 0 ↔ a = b := by
  induction a generalizing b with
  | nil => cases b <;> simp_all [xorAcc]
  | cons x xs ih =>
    cases b with
    | nil => simp at h
    | cons y ys =>
      simp only [xorAcc, Nat.or_eq_zero_iff, xor_eq_zero, ih (by simpa using h), List.cons.injEq]

/-- `Uint::eq` ⇔ equality of values (equal widths). -/
theorem ueq_spec {a b : List Nat} (ha : WF a) (hb : WF b) (h : a.length = b.length) :
    ueq a b = mask (decide (val a = val b)) := by
  unfold ueq
  rw [fromWordNonzero_spec (xorAcc_lt ha hb), choiceNot_mask]
  congr 1
  have : (val a = val b) ↔ a = b := ⟨fun hv => val_inj ha hb h hv, fun e => by rw [e]⟩
  simp only [ne_eq, xorAcc_eq_zero h, this, decide_not, Bool.not_not]

/-- `Uint::lt` ⇔ `<` on values. -/
theorem ult_spec {a b : List Nat} (ha : WF a) (hb : WF b) (h : a.length = b.length) :
    ult a b = mask (decide (val a < val b)) := (sub_value_borrow ha hb h).1

theorem ugt_spec {a b : List Nat} (ha : WF a) (hb : WF b) (h : a.length = b.length) :
    ugt a b = mask (decide (val b < val a)) := (sub_value_borrow hb ha h.symm).1

theorem ulte_spec {a b : List Nat} (ha : WF a) (hb : WF b) (h : a.length = b.length) :
    ulte a b = mask (decide (val a ≤ val b)) := by
  unfold ulte
  rw [ugt_spec ha hb h, choiceNot_mask]
  congr 1
  by_cases hh : val b < val a
  · simp [hh]
  · simp [hh, Nat.le_of_not_lt hh]

/-- three-way order on naturals as -1 / 0 / 1 -/
def cmp3 (x y : Nat) : Int := if x < y then -1 else if x = y then 0 else 1
def cmp3i (x y : Int) : Int := if x < y then -1 else if x = y then 0 else 1

theorem choiceBit_mask (p : Bool) : choiceBit (mask p) = if p then 1 else 0 := by
  cases p <;> decide

/-- `Uint::cmp` returns the three-way order of the values. -/
theorem ucmp_spec {a b : List Nat} (ha : WF a) (hb : WF b) (h : a.length = b.length) :
    ucmp a b = cmp3 (val a) (val b) := by
  have ⟨hbw, hv⟩ := sub_value_borrow hb ha h.symm
  have hva := val_lt ha
  have hvb := val_lt hb
  rw [h] at hva
  have hnz := isNonzero_spec (usbb_WF b a 0)
  unfold isNonzero at hnz
  unfold ucmp cmp3
  simp only []
  rw [hnz, hbw, choiceBit_mask, hv]
  have m1 : mask true &&& 2 = 2 := by decide
  have m0 : mask false &&& 2 = 0 := by decide
  by_cases h1 : val b < val a
  · have e2 : mask (decide (val b < val a)) &&& 2 = 2 := by simp [h1, mask]; decide
    have nz : val b + B ^ b.length - val a ≠ 0 := by omega
    have n1 : ¬ val a < val b := by omega
    have n2 : ¬ val a = val b := by omega
    simp [h1, m1, nz, n1, n2]
  · have e2 : mask (decide (val b < val a)) &&& 2 = 0 := by simp [h1, mask]
    by_cases h2 : val a < val b
    · have nz : val b - val a ≠ 0 := by omega
      simp [h1, m0, nz, h2]
    · have z : val b - val a = 0 := by omega
      have e : val a = val b := by omega
      simp [h1, m0, z, h2, e]

/-- most-significant-first value -/
def valMS : List Nat → Nat
  | [] => 0
  | x :: xs => x * B ^ xs.length + valMS xs

theorem val_append (a b : List Nat) : val (a ++ b) = val a + B ^ a.length * val b := by
  induction a with
  | nil => simp
  | cons x xs ih =>
    simp only [List.cons_append, val_cons, ih, List.length_cons, Nat.pow_succ, Nat.mul_add]
    rw [Nat.mul_comm (B ^ xs.length) B, Nat.mul_assoc]; omega

theorem val_reverse (l : List Nat) : val l.reverse = valMS l := by
  induction l with
  | nil => rfl
  | cons x xs ih =>
    simp only [List.reverse_cons, val_append, ih, valMS, List.length_reverse, val_cons, val_nil]
    rw [Nat.mul_zero, Nat.add_zero, Nat.mul_comm]; omega

theorem valMS_lt {l : List Nat} (h : WF l) : valMS l < B ^ l.length := by
  rw [← val_reverse, ← List.length_reverse]
  apply val_lt
  intro x hx; exact h x (List.mem_reverse.mp hx)

theorem sbb_zero_fst {a b : Nat} (ha : a < B) (hb : b < B) :
    ((sbb a b 0).1 ≠ 0 ↔ a ≠ b) ∧ ((sbb a b 0).2 ≠ 0 ↔ a < b) := by
  simp only [sbb, B_def, HALF_def] at *
  omega

/-- `cmp_vartime`'s top-down scan returns the three-way order. -/
theorem cmpVartimeRev_spec {a b : List Nat} (ha : WF a) (hb : WF b) (h : a.length = b.length) :
    cmpVartimeRev a b = cmp3 (valMS a) (valMS b) := by
  induction a generalizing b with
  | nil => cases b <;> simp_all [cmpVartimeRev, cmp3, valMS]
  | cons x xs ih =>
    cases b with
    | nil => simp at h
    | cons y ys =>
      have ⟨hx, hxs⟩ := WF_cons.mp ha
      have ⟨hy, hys⟩ := WF_cons.mp hb
      have hl : xs.length = ys.length := by simpa using h
      have ⟨s1, s2⟩ := sbb_zero_fst hx hy
      have l1 := valMS_lt hxs
      have l2 := valMS_lt hys
      rw [← hl] at l2
      show (if (sbb x y 0).1 ≠ 0 then (if (sbb x y 0).2 ≠ 0 then -1 else 1) else cmpVartimeRev xs ys) = _
      simp only [valMS, cmp3, ← hl]
      generalize B ^ xs.length = K at *
      by_cases hne : x = y
      · subst hne
        have : ¬ (sbb x x 0).1 ≠ 0 := by rw [s1]; simp
        rw [if_neg this, ih hxs hys hl]
        simp only [cmp3]
        have e1 : (x * K + valMS xs < x * K + valMS ys) ↔ valMS xs < valMS ys := by omega
        have e2 : (x * K + valMS xs = x * K + valMS ys) ↔ valMS xs = valMS ys := by omega
        simp only [e1, e2]
      · have : (sbb x y 0).1 ≠ 0 := s1.mpr hne
        rw [if_pos this]
        by_cases hlt : x < y
        · rw [if_pos (s2.mpr hlt)]
          have : x * K + valMS xs < y * K + valMS ys := by
            have : (x + 1) * K ≤ y * K := Nat.mul_le_mul_right K hlt
            rw [Nat.add_mul] at this; omega
          simp [this]
        · rw [if_neg (mt s2.mp hlt)]
          have hgt : y < x := by omega
          have : y * K + valMS ys < x * K + valMS xs := by
            have : (y + 1) * K ≤ x * K := Nat.mul_le_mul_right K hgt
            rw [Nat.add_mul] at this; omega
          have n1 : ¬ x * K + valMS xs < y * K + valMS ys := by omega
          have n2 : ¬ x * K + valMS xs = y * K + valMS ys := by omega
          simp [n1, n2]

theorem ucmpVartime_spec {a b : List Nat} (ha : WF a) (hb : WF b) (h : a.length = b.length) :
    ucmpVartime a b = cmp3 (val a) (val b) := by
  unfold ucmpVartime
  rw [cmpVartimeRev_spec (a := a.reverse) (b := b.reverse)
        (fun x hx => ha x (List.mem_reverse.mp hx)) (fun x hx => hb x (List.mem_reverse.mp hx))
        (by simp [h])]
  rw [← val_reverse, ← val_reverse, List.reverse_reverse, List.reverse_reverse]

/-! ### signed comparison through the flipped sign bit -/

theorem getLastD_cons_ne {x : Nat} {xs : List Nat} (h : xs ≠ []) (d : Nat) :
    (x :: xs).getLastD d = xs.getLastD d := by
  cases xs with
  | nil => exact absurd rfl h
  | cons y ys => simp [List.getLastD_cons]

theorem toInt_singleton (x : Nat) :
    toInt [x] = if x ≥ HALF then (x : Int) - (B : Int) else (x : Int) := by
  unfold toInt; simp [List.getLastD_cons]

theorem toInt_cons {x : Nat} {xs : List Nat} (h : xs ≠ []) :
    toInt (x :: xs) = (x : Int) + (B : Int) * toInt xs := by
  unfold toInt
  rw [getLastD_cons_ne h]
  simp only [val_cons, List.length_cons, Nat.pow_succ]
  by_cases hh : xs.getLastD 0 ≥ HALF
  · simp only [hh, if_true]
    rw [Nat.mul_comm (B ^ xs.length) B]
    push_cast
    rw [Int.mul_sub]; omega
  · simp only [hh, if_false]; push_cast; rfl

theorem invertMsb_cons {x : Nat} {xs : List Nat} (h : xs ≠ []) :
    invertMsb (x :: xs) = x :: invertMsb xs := by
  cases xs with
  | nil => exact absurd rfl h
  | cons y ys => rfl

/-- flipping the sign bit shifts the signed value by `2^(BITS-1)` into the unsigned range -/
theorem invertMsb_spec {l : List Nat} (h : WF l) (hne : l ≠ []) :
    (val (invertMsb l) : Int) = toInt l + (HALF : Int) * ((B ^ (l.length - 1) : Nat) : Int) ∧
    WF (invertMsb l) ∧ (invertMsb l).length = l.length := by
  induction l with
  | nil => exact absurd rfl hne
  | cons x xs ih =>
    have ⟨hx, hxs⟩ := WF_cons.mp h
    by_cases hxs0 : xs = []
    · subst hxs0
      have hxor := xor_HALF hx
      refine ⟨?_, ?_, rfl⟩
      · show ((val [x ^^^ HALF] : Nat) : Int) = _
        rw [toInt_singleton]
        simp only [val_cons, val_nil, Nat.mul_zero, Nat.add_zero, List.length_cons, List.length_nil,
          Nat.zero_add, Nat.sub_self, Nat.pow_zero]
        rw [hxor]
        have hB2 : B = 2 * HALF := by decide
        by_cases hh : x < HALF
        · rw [if_pos hh, if_neg (by omega)]; push_cast; omega
        · rw [if_neg hh, if_pos (by omega)]; push_cast; omega
      · show WF [x ^^^ HALF]
        exact WF_cons.mpr ⟨xor_lt_B hx (by decide), WF_nil⟩
    · have ⟨i1, i2, i3⟩ := ih hxs hxs0
      rw [invertMsb_cons hxs0, toInt_cons hxs0]
      refine ⟨?_, WF_cons.mpr ⟨hx, i2⟩, by simp [i3]⟩
      simp only [val_cons, List.length_cons, Nat.add_sub_cancel]
      have hpos : 1 ≤ xs.length := by
        cases xs with
        | nil => exact absurd rfl hxs0
        | cons _ _ => simp
      have hp : B ^ xs.length = B ^ (xs.length - 1) * B := by
        rw [← Nat.pow_succ, Nat.succ_eq_add_one, Nat.sub_add_cancel hpos]
      rw [hp]
      generalize B ^ (xs.length - 1) = K at *
      push_cast
      rw [i1]
      ring

theorem ilt_spec {a b : List Nat} (ha : WF a) (hb : WF b) (h : a.length = b.length) (hne : a ≠ []) :
    ilt a b = mask (decide (toInt a < toInt b)) := by
  have hnb : b ≠ [] := by intro e; subst e; cases a <;> simp_all
  have ⟨a1, a2, a3⟩ := invertMsb_spec ha hne
  have ⟨b1, b2, b3⟩ := invertMsb_spec hb hnb
  unfold ilt
  rw [ult_spec a2 b2 (by rw [a3, b3, h])]
  congr 1
  rw [← h] at b1
  have : (val (invertMsb a) < val (invertMsb b)) ↔ toInt a < toInt b := by
    constructor
    · intro hh; have : (val (invertMsb a) : Int) < val (invertMsb b) := by exact_mod_cast hh
      omega
    · intro hh; have : (val (invertMsb a) : Int) < val (invertMsb b) := by omega
      exact_mod_cast this
  simp only [this]

theorem igt_spec {a b : List Nat} (ha : WF a) (hb : WF b) (h : a.length = b.length) (hne : a ≠ []) :
    igt a b = mask (decide (toInt b < toInt a)) := by
  have hnb : b ≠ [] := by intro e; subst e; cases a <;> simp_all
  have := ilt_spec hb ha h.symm hnb
  unfold ilt at this; unfold igt ugt; unfold ult at this; exact this

theorem icmp_spec {a b : List Nat} (ha : WF a) (hb : WF b) (h : a.length = b.length) (hne : a ≠ []) :
    icmp a b = cmp3i (toInt a) (toInt b) ∧ icmpVartime a b = cmp3i (toInt a) (toInt b) := by
  have hnb : b ≠ [] := by intro e; subst e; cases a <;> simp_all
  have ⟨a1, a2, a3⟩ := invertMsb_spec ha hne
  have ⟨b1, b2, b3⟩ := invertMsb_spec hb hnb
  have hl : (invertMsb a).length = (invertMsb b).length := by rw [a3, b3, h]
  unfold icmp icmpVartime
  rw [ucmp_spec a2 b2 hl, ucmpVartime_spec a2 b2 hl]
  rw [← h] at b1
  have e1 : (val (invertMsb a) < val (invertMsb b)) ↔ toInt a < toInt b := by
    constructor
    · intro hh; have : (val (invertMsb a) : Int) < val (invertMsb b) := by exact_mod_cast hh
      omega
    · intro hh; have : (val (invertMsb a) : Int) < val (invertMsb b) := by omega
      exact_mod_cast this
  have e2 : (val (invertMsb a) = val (invertMsb b)) ↔ toInt a = toInt b := by
    constructor
    · intro hh; have : (val (invertMsb a) : Int) = val (invertMsb b) := by exact_mod_cast hh
      omega
    · intro hh; have : (val (invertMsb a) : Int) = val (invertMsb b) := by omega
      exact_mod_cast this
  simp only [cmp3, cmp3i, e1, e2, and_self]

/-! ### boxed comparison: zero padding to the larger precision -/

theorem val_pad (n : Nat) (l : List Nat) : val (pad n l) = val l := by
  unfold pad; rw [val_append]
  have : val (List.replicate (n - l.length) 0) = 0 := val_uzero _
  rw [this]; simp

theorem pad_WF {n : Nat} {l : List Nat} (h : WF l) : WF (pad n l) := by
  intro x hx
  simp only [pad, List.mem_append, List.mem_replicate] at hx
  rcases hx with hx | ⟨_, hx⟩
  · exact h x hx
  · rw [hx]; decide

theorem pad_length {n : Nat} {l : List Nat} (h : l.length ≤ n) : (pad n l).length = n := by
  simp [pad]; omega

theorem bctLt_spec {a b : List Nat} (ha : WF a) (hb : WF b) :
    bctLt a b = mask (decide (val a < val b)) := by
  unfold bctLt bsbb fromWordMask
  have := ult_spec (pad_WF (n := max a.length b.length) ha) (pad_WF (n := max a.length b.length) hb)
    (by rw [pad_length (Nat.le_max_left _ _), pad_length (Nat.le_max_right _ _)])
  unfold ult fromWordMask at this
  rw [this, val_pad, val_pad]

theorem bctGt_spec {a b : List Nat} (ha : WF a) (hb : WF b) :
    bctGt a b = mask (decide (val b < val a)) := by
  have := bctLt_spec hb ha
  unfold bctLt bsbb at this; unfold bctGt bsbb; exact this

theorem bctEqLoop_spec {a b : List Nat} (h : a.length = b.length) :
    bctEqLoop a b = if a = b then 1 else 0 := by
  induction a generalizing b with
  | nil => cases b <;> simp_all [bctEqLoop]
  | cons x xs ih =>
    cases b with
    | nil => simp at h
    | cons y ys =>
      simp only [bctEqLoop, ih (by simpa using h), List.cons.injEq]
      by_cases h1 : x = y <;> by_cases h2 : xs = ys <;> simp [h1, h2]

theorem bctEq_spec {a b : List Nat} (ha : WF a) (hb : WF b) :
    bctEq a b = if val a = val b then 1 else 0 := by
  unfold bctEq
  have hl : (pad (max a.length b.length) a).length = (pad (max a.length b.length) b).length := by
    rw [pad_length (Nat.le_max_left _ _), pad_length (Nat.le_max_right _ _)]
  rw [bctEqLoop_spec hl]
  have : (pad (max a.length b.length) a = pad (max a.length b.length) b) ↔ val a = val b := by
    constructor
    · intro e; have := congrArg val e; rwa [val_pad, val_pad] at this
    · intro e; exact val_inj (pad_WF ha) (pad_WF hb) hl (by rw [val_pad, val_pad, e])
  simp only [this]

theorem bcmp_spec {a b : List Nat} (ha : WF a) (hb : WF b) :
    bcmp a b = cmp3 (val a) (val b) := by
  unfold bcmp cmp3
  simp only []
  rw [bctGt_spec ha hb, bctLt_spec ha hb]
  have hW : (0 : Nat) ≠ WMAX := by decide
  by_cases h1 : val a < val b
  · have : ¬ val b < val a := by omega
    simp [h1, this, mask, hW]
  · by_cases h2 : val b < val a
    · have : ¬ val a = val b := by omega
      simp [h1, h2, this, mask, hW]
    · have : val a = val b := by omega
      simp [h1, h2, this, mask, hW]

end CB
