/-
  CB.Lemmas.C05Query — bit queries of CB/Model/Bits.lean: bit length, leading / trailing counts,
  bit test, bit set; constant-time scan = vartime scan.
-/
import CB.Lemmas.C05Ladder
import CB.Lemmas.C05BitOps
namespace CB.Bits
open CB CB.Shift

/-! ### masks -/

theorem mask_lt_B (p : Bool) : mask p < B := by cases p <;> decide

theorem and_mask {y : Nat} (hy : y < B) (p : Bool) : y &&& mask p = if p then y else 0 := by
  cases p
  · simp [mask]
  · simp only [mask, if_true]
    have : WMAX = 2 ^ 64 - 1 := by decide
    rw [this, Nat.and_two_pow_sub_one_eq_mod, ← B_eq_pow, Nat.mod_eq_of_lt hy]

theorem mask_and_mask (p q : Bool) : mask p &&& mask q = mask (p && q) := by
  cases p <;> cases q <;> decide

theorem ifTrueWord_mask {y : Nat} (hy : y < B) (p : Bool) : ifTrueWord (mask p) y = if p then y else 0 :=
  and_mask hy p

theorem ifTrueU32_mask {z : Nat} (hz : z < TWO32) (p : Bool) : ifTrueU32 (mask p) z = if p then z else 0 := by
  unfold ifTrueU32
  cases p
  · simp [mask]
  · have : mask true % TWO32 = 2 ^ 32 - 1 := by decide
    rw [this, Nat.and_two_pow_sub_one_eq_mod]
    simp only [if_true]
    exact Nat.mod_eq_of_lt hz

/-! ### bit length -/

theorem bitlen_le_iff {x k : Nat} : bitlen x ≤ k ↔ x < 2 ^ k := bitlen_lt

theorem bitlen_zero : bitlen 0 = 0 := rfl

theorem bitlen_pos {x : Nat} (h : x ≠ 0) : 0 < bitlen x := by
  unfold bitlen; simp [h]

theorem two_pow_bitlen_le {x : Nat} (h : x ≠ 0) : 2 ^ (bitlen x - 1) ≤ x :=
  two_pow_le_of_lt_bitlen (by have := bitlen_pos h; omega)

/-- bit length of `lo + 2^k * hi` with `lo < 2^k`, `hi ≠ 0` -/
theorem bitlen_top {lo hi k : Nat} (hlo : lo < 2 ^ k) (hhi : hi ≠ 0) :
    bitlen (lo + 2 ^ k * hi) = k + bitlen hi := by
  apply Nat.le_antisymm
  · rw [bitlen_le_iff, Nat.pow_add]
    have h1 := lt_two_pow_bitlen hi
    have : 2 ^ k * (hi + 1) ≤ 2 ^ k * 2 ^ bitlen hi := Nat.mul_le_mul_left _ h1
    rw [Nat.mul_add, Nat.mul_one] at this
    omega
  · apply Nat.le_of_not_lt
    intro hlt
    have hp := bitlen_pos hhi
    have h1 : bitlen (lo + 2 ^ k * hi) ≤ k + (bitlen hi - 1) := by omega
    rw [bitlen_le_iff, Nat.pow_add] at h1
    have h2 := two_pow_bitlen_le hhi
    have : 2 ^ k * 2 ^ (bitlen hi - 1) ≤ 2 ^ k * hi := Nat.mul_le_mul_left _ h2
    omega

theorem bitlen_word_le {x : Nat} (hx : x < B) : bitlen x ≤ 64 := by
  rw [bitlen_le_iff, ← B_eq_pow]; exact hx

theorem bitlen_val_le {l : List Nat} (hl : WF l) : bitlen (val l) ≤ 64 * l.length := by
  rw [bitlen_le_iff, ← B_pow_eq]; exact val_lt hl

theorem bitlen_cons {x : Nat} (hx : x < B) (v : Nat) :
    bitlen (x + B * v) = if v = 0 then bitlen x else 64 + bitlen v := by
  by_cases h : v = 0
  · simp [h]
  · simp only [h, if_false]
    rw [B_eq_pow]
    exact bitlen_top (by rwa [B_eq_pow] at hx) h

/-! ### leading zeros / bits -/

theorem lzAux_cons (x : Nat) (xs : List Nat) :
    lzAux (x :: xs) = ((lzAux xs).1 + ifTrueU32 (lzAux xs).2 (wlz x),
      (lzAux xs).2 &&& choiceNot (fromWordNonzero x)) := rfl

theorem lzAux_spec {l : List Nat} (hl : WF l) :
    (lzAux l).1 = 64 * l.length - bitlen (val l) ∧ (lzAux l).2 = mask (decide (val l = 0)) := by
  induction l with
  | nil => exact ⟨rfl, rfl⟩
  | cons x xs ih =>
    have ⟨hx, hxs⟩ := WF_cons.mp hl
    have ⟨ih1, ih2⟩ := ih hxs
    have hbx := bitlen_word_le hx
    have hbv := bitlen_val_le hxs
    have hwlz : wlz x < TWO32 := by unfold wlz; simp only [TWO32_def]; omega
    rw [lzAux_cons, ih1, ih2, ifTrueU32_mask hwlz, fromWordNonzero_spec hx, choiceNot_mask,
      mask_and_mask, val_cons, bitlen_cons hx, List.length_cons]
    constructor
    · by_cases hv : val xs = 0
      · simp only [hv, decide_true, if_true, bitlen_zero]; unfold wlz; omega
      · simp only [hv, decide_false, Bool.false_eq_true, if_false]; omega
    · have hiff : (x + B * val xs = 0) ↔ (val xs = 0 ∧ x = 0) := by
        constructor
        · intro h
          have hB := B_pos
          have h2 : B * val xs = 0 := by omega
          have h3 : val xs = 0 := by
            rcases Nat.mul_eq_zero.mp h2 with h | h
            · omega
            · exact h
          exact ⟨h3, by omega⟩
        · rintro ⟨h1, h2⟩; simp [h1, h2]
      have hd : decide (x + B * val xs = 0) = decide (val xs = 0 ∧ x = 0) := decide_eq_decide.mpr hiff
      rw [hd]
      by_cases hv : val xs = 0 <;> by_cases hx0 : x = 0 <;> simp [hv, hx0]

/-- `bits` (constant-time): the bit length of the value. -/
theorem ubits_spec {a : List Nat} (ha : WF a) : ubits a = bitlen (val a) := by
  unfold ubits leadingZeros
  rw [(lzAux_spec ha).1]
  have := bitlen_val_le ha
  omega

theorem leadingZeros_spec {a : List Nat} (ha : WF a) :
    leadingZeros a = 64 * a.length - bitlen (val a) := (lzAux_spec ha).1

/-- `bits_vartime` on the reversed limbs -/
theorem bitsVartimeRev_spec (r : List Nat) (hr : WF r) (hne : r ≠ []) :
    bitsVartimeRev r = some (bitlen (val r.reverse)) := by
  induction r with
  | nil => exact absurd rfl hne
  | cons l rest ih =>
    have ⟨hl, hrest⟩ := WF_cons.mp hr
    have hbl := bitlen_word_le hl
    cases rest with
    | nil =>
      simp only [bitsVartimeRev, List.reverse_cons, List.reverse_nil, List.nil_append, val_cons, val_nil,
        Nat.mul_zero, Nat.add_zero]
      unfold wlz; congr 1; omega
    | cons l' ls =>
      have hrev : WF (l' :: ls).reverse := fun x hx => hrest x (List.mem_reverse.mp hx)
      have hvlt := val_lt hrev
      rw [List.length_reverse, List.length_cons] at hvlt
      have hval : val (l :: l' :: ls).reverse = val (l' :: ls).reverse + B ^ (ls.length + 1) * l := by
        rw [List.reverse_cons, val_append, List.length_reverse]; simp
      rw [hval]
      by_cases h0 : l = 0
      · simp only [bitsVartimeRev, h0, if_true, Nat.mul_zero, Nat.add_zero]
        exact ih hrest (by simp)
      · simp only [bitsVartimeRev, h0, if_false]
        rw [B_pow_eq] at hvlt ⊢
        rw [bitlen_top hvlt h0]
        unfold wlz; congr 1; omega

/-- `bits_vartime`: same result as the constant-time `bits`; panics only for a zero-limb value. -/
theorem bitsVartime_spec {a : List Nat} (ha : WF a) (hne : a ≠ []) :
    bitsVartime a = some (bitlen (val a)) := by
  unfold bitsVartime
  have hr : WF a.reverse := fun x hx => ha x (List.mem_reverse.mp hx)
  rw [bitsVartimeRev_spec a.reverse hr (by simpa using hne), List.reverse_reverse]

/-! ### bit test -/

theorem wshl_one {r : Nat} (hr : r < 64) : wshl 1 r = 2 ^ r := by
  unfold wshl
  rw [Nat.one_mul, Nat.mod_eq_of_lt]
  rw [B_eq_pow]; exact Nat.pow_lt_pow_right (by decide) hr

/-- `(y & (1 << r)) >> r` is bit `r` of `y` -/
theorem and_two_pow_div (y r : Nat) : (y &&& 2 ^ r) / 2 ^ r = (y.testBit r).toNat := by
  apply Nat.eq_of_testBit_eq
  intro i
  rw [Nat.testBit_div_two_pow, Nat.testBit_and, Nat.testBit_two_pow]
  by_cases h : i = 0
  · subst h; simp; cases y.testBit r <;> simp
  · have : ¬ (r = i + r) := by omega
    have hb : (y.testBit r).toNat.testBit i = false := by
      cases y.testBit r
      · simp
      · have : Bool.toNat true = 2 ^ 0 := rfl
        rw [this, Nat.testBit_two_pow]; simp; omega
    rw [hb]
    simp only [this, decide_false, Bool.and_false]

theorem fromWordLsb_toNat (b : Bool) : fromWordLsb b.toNat = mask b := by cases b <;> decide

theorem bitLoop_spec (k m : Nat) (l : List Nat) (i res : Nat) (hl : WF l) (hk : k < TWO32)
    (hi : i + l.length ≤ TWO32) :
    bitLoop k m l i res = if i ≤ k then res ||| (l.getD (k - i) 0 &&& m) else res := by
  induction l generalizing i res with
  | nil => simp [bitLoop]
  | cons x xs ih =>
    have ⟨hx, hxs⟩ := WF_cons.mp hl
    simp only [List.length_cons] at hi
    have hxm : x &&& m < B := and_lt_B hx
    simp only [bitLoop]
    rw [ih (i + 1) _ hxs (by omega), fromU32Eq_spec (by omega) hk, ifTrueWord_mask hxm]
    by_cases h1 : i = k
    · subst h1
      simp
    · by_cases h2 : i ≤ k
      · have h3 : i + 1 ≤ k := by omega
        have e : k - i = (k - (i + 1)) + 1 := by omega
        simp only [h1, decide_false, h2, h3, if_true, Bool.false_eq_true, if_false, Nat.or_zero]
        rw [e, List.getD_cons_succ]
      · have h3 : ¬ (i + 1 ≤ k) := by omega
        simp [h1, h2, h3]

/-- `bit` (constant time) is `testBit` of the value — `false` beyond the width. -/
theorem bitCt_spec {a : List Nat} (ha : WF a) (hn : a.length ≤ TWO32) {idx : Nat} (hidx : idx < TWO32) :
    bitCt a idx = mask ((val a).testBit idx) := by
  unfold bitCt
  simp only
  have hr : idx % 64 < 64 := Nat.mod_lt _ (by decide)
  have hk : idx / 64 < TWO32 := Nat.lt_of_le_of_lt (Nat.div_le_self _ _) hidx
  rw [bitLoop_spec _ _ a 0 0 ha hk (by omega), wshl_one hr]
  simp only [Nat.zero_le, if_true, Nat.sub_zero, Nat.zero_or]
  unfold wshr
  rw [and_two_pow_div, fromWordLsb_toNat, testBit_val ha]

/-- `bit_vartime` is `testBit` of the value. -/
theorem bitVartime_spec {a : List Nat} (ha : WF a) (idx : Nat) :
    bitVartime a idx = (val a).testBit idx := by
  unfold bitVartime
  simp only
  rw [testBit_val ha]
  by_cases h : idx / 64 ≥ a.length
  · simp only [h, if_true]
    have : a.getD (idx / 64) 0 = 0 := by
      rw [List.getD_eq_getElem?_getD, List.getElem?_eq_none (by omega)]; rfl
    rw [this]; simp
  · simp only [h, if_false]
    unfold wshr
    rw [Nat.and_one_is_mod, Nat.testBit_eq_decide_div_mod_eq, Bool.eq_iff_iff]
    simp

/-! ### trailing zeros / ones -/

theorem tzAux_spec (f x : Nat) :
    tzAux f x ≤ f ∧ (∀ j, j < tzAux f x → x.testBit j = false) ∧
    (tzAux f x < f → x.testBit (tzAux f x) = true) := by
  induction f generalizing x with
  | zero => simp [tzAux]
  | succ f ih =>
    by_cases h : x % 2 = 1
    · simp only [tzAux, h, if_true]
      refine ⟨Nat.zero_le _, fun j hj => absurd hj (Nat.not_lt_zero _), fun _ => ?_⟩
      rw [Nat.testBit_zero]; simp [h]
    · simp only [tzAux, h, if_false]
      have ⟨h1, h2, h3⟩ := ih (x / 2)
      refine ⟨by omega, ?_, ?_⟩
      · intro j hj
        cases j with
        | zero => rw [Nat.testBit_zero]; simp [h]
        | succ j => rw [Nat.testBit_succ]; exact h2 j (by omega)
      · intro hlt
        rw [Nat.add_comm 1, Nat.testBit_succ]; exact h3 (by omega)

theorem wtz_le (x : Nat) : wtz x ≤ 64 := (tzAux_spec 64 x).1

theorem wtz_eq_64_iff {x : Nat} (hx : x < B) : wtz x = 64 ↔ x = 0 := by
  constructor
  · intro h
    apply Nat.eq_of_testBit_eq
    intro i
    rw [Nat.zero_testBit]
    by_cases hi : i < 64
    · exact (tzAux_spec 64 x).2.1 i (by unfold wtz at h; omega)
    · exact Nat.testBit_lt_two_pow (Nat.lt_of_lt_of_le (by rwa [B_eq_pow] at hx)
        (Nat.pow_le_pow_right (by decide) (Nat.not_lt.mp hi)))
  · intro h; subst h; rfl

theorem tzLoop_spec (l : List Nat) (cnt : Nat) (p : Bool) (hl : WF l) :
    tzLoop l cnt (mask p) = if p then cnt + trailingZerosVartime l else cnt := by
  induction l generalizing cnt p with
  | nil => cases p <;> simp [tzLoop, trailingZerosVartime]
  | cons x xs ih =>
    have ⟨hx, hxs⟩ := WF_cons.mp hl
    have hz : wtz x < TWO32 := Nat.lt_of_le_of_lt (wtz_le x) (by decide)
    simp only [tzLoop, trailingZerosVartime]
    rw [ifTrueU32_mask hz, fromWordNonzero_spec hx, choiceNot_mask, mask_and_mask, ih _ _ hxs]
    cases p
    · simp
    · by_cases h0 : x = 0
      · subst h0
        have : wtz 0 = 64 := rfl
        simp [this, Nat.add_assoc]
      · have : wtz x ≠ 64 := fun h => h0 ((wtz_eq_64_iff hx).mp h)
        simp [h0, this]

/-- constant-time `trailing_zeros` = `trailing_zeros_vartime` -/
theorem trailingZeros_eq_vartime {a : List Nat} (ha : WF a) :
    trailingZeros a = trailingZerosVartime a := by
  unfold trailingZeros
  have := tzLoop_spec a 0 true ha
  simpa [mask] using this

theorem trailingZerosVartime_spec {l : List Nat} (hl : WF l) :
    trailingZerosVartime l ≤ 64 * l.length ∧
    (∀ j, j < trailingZerosVartime l → (val l).testBit j = false) ∧
    (trailingZerosVartime l < 64 * l.length → (val l).testBit (trailingZerosVartime l) = true) := by
  induction l with
  | nil => simp [trailingZerosVartime]
  | cons x xs ih =>
    have ⟨hx, hxs⟩ := WF_cons.mp hl
    have ⟨i1, i2, i3⟩ := ih hxs
    have ⟨w1, w2, w3⟩ := tzAux_spec 64 x
    have hle := wtz_le x
    simp only [trailingZerosVartime, val_cons, List.length_cons]
    by_cases h : wtz x ≠ 64
    · have hlt : wtz x < 64 := by omega
      rw [if_pos h]
      refine ⟨by omega, ?_, ?_⟩
      · intro j hj
        rw [testBit_cons hx, if_pos (by omega)]; exact w2 j hj
      · intro _
        rw [testBit_cons hx, if_pos hlt]; exact w3 hlt
    · have h64 : wtz x = 64 := by omega
      have hx0 : x = 0 := (wtz_eq_64_iff hx).mp h64
      rw [if_neg h, h64]
      refine ⟨by omega, ?_, ?_⟩
      · intro j hj
        rw [testBit_cons hx]
        by_cases hj64 : j < 64
        · rw [if_pos hj64, hx0]; exact Nat.zero_testBit _
        · rw [if_neg hj64]; exact i2 _ (by omega)
      · intro hlt
        rw [testBit_cons hx, if_neg (by omega), Nat.add_sub_cancel_left]
        exact i3 (by omega)

theorem wnot_lt_B (x : Nat) : wnot x < B := by
  unfold wnot; simp only [WMAX_def, B_def]; omega

theorem testBit_wnot {x : Nat} (hx : x < B) {j : Nat} (hj : j < 64) :
    (wnot x).testBit j = !x.testBit j := by
  rw [wnot_eq hx]
  have : WMAX - x = 2 ^ 64 - (x + 1) := by simp only [WMAX_def]; omega
  rw [this, Nat.testBit_two_pow_sub_succ (by rwa [B_eq_pow] at hx)]
  simp [hj]

theorem wto_le (x : Nat) : wto x ≤ 64 := wtz_le _

theorem wto_eq_64_iff {x : Nat} (hx : x < B) : wto x = 64 ↔ x = WMAX := by
  unfold wto
  rw [wtz_eq_64_iff (wnot_lt_B x), wnot_eq hx]
  simp only [WMAX_def, B_def] at *; omega

theorem toLoop_spec (l : List Nat) (cnt : Nat) (p : Bool) (hl : WF l) :
    toLoop l cnt (mask p) = if p then cnt + trailingOnesVartime l else cnt := by
  induction l generalizing cnt p with
  | nil => cases p <;> simp [toLoop, trailingOnesVartime]
  | cons x xs ih =>
    have ⟨hx, hxs⟩ := WF_cons.mp hl
    have hz : wto x < TWO32 := Nat.lt_of_le_of_lt (wto_le x) (by decide)
    simp only [toLoop, trailingOnesVartime]
    rw [ifTrueU32_mask hz, fromWordEq_spec hx (by decide), mask_and_mask, ih _ _ hxs]
    cases p
    · simp
    · by_cases h0 : x = WMAX
      · subst h0
        have : wto WMAX = 64 := by decide
        simp [this, Nat.add_assoc]
      · have : wto x ≠ 64 := fun h => h0 ((wto_eq_64_iff hx).mp h)
        simp [h0, this]

/-- constant-time `trailing_ones` = `trailing_ones_vartime` -/
theorem trailingOnes_eq_vartime {a : List Nat} (ha : WF a) :
    trailingOnes a = trailingOnesVartime a := by
  unfold trailingOnes
  have := toLoop_spec a 0 true ha
  simpa [mask] using this

theorem trailingOnesVartime_spec {l : List Nat} (hl : WF l) :
    trailingOnesVartime l ≤ 64 * l.length ∧
    (∀ j, j < trailingOnesVartime l → (val l).testBit j = true) ∧
    (trailingOnesVartime l < 64 * l.length → (val l).testBit (trailingOnesVartime l) = false) := by
  induction l with
  | nil => simp [trailingOnesVartime]
  | cons x xs ih =>
    have ⟨hx, hxs⟩ := WF_cons.mp hl
    have ⟨i1, i2, i3⟩ := ih hxs
    have ⟨w1, w2, w3⟩ := tzAux_spec 64 (wnot x)
    have hle := wto_le x
    have hwto : wto x = tzAux 64 (wnot x) := rfl
    simp only [trailingOnesVartime, val_cons, List.length_cons]
    by_cases h : wto x ≠ 64
    · have hlt : wto x < 64 := by omega
      rw [if_pos h]
      refine ⟨by omega, ?_, ?_⟩
      · intro j hj
        rw [testBit_cons hx, if_pos (by omega)]
        have := w2 j (by rw [← hwto]; exact hj)
        rw [testBit_wnot hx (by omega)] at this
        simpa using this
      · intro _
        rw [testBit_cons hx, if_pos hlt]
        have := w3 (by rw [← hwto]; exact hlt)
        rw [← hwto, testBit_wnot hx hlt] at this
        simpa using this
    · have h64 : wto x = 64 := by omega
      have hxm : x = WMAX := (wto_eq_64_iff hx).mp h64
      rw [if_neg h, h64]
      refine ⟨by omega, ?_, ?_⟩
      · intro j hj
        rw [testBit_cons hx]
        by_cases hj64 : j < 64
        · rw [if_pos hj64, hxm]
          have : WMAX = 2 ^ 64 - (0 + 1) := by decide
          rw [this, Nat.testBit_two_pow_sub_succ (Nat.two_pow_pos _)]
          simp [hj64]
        · rw [if_neg hj64]; exact i2 _ (by omega)
      · intro hlt
        rw [testBit_cons hx, if_neg (by omega), Nat.add_sub_cancel_left]
        exact i3 (by omega)

/-! ### set_bit -/

/-- the new limb written by `set_bit` -/
def newLimb (old m : Nat) (bv : Bool) : Nat := if bv then old ||| m else old &&& wnot m

theorem newLimb_lt {old m : Nat} (ho : old < B) (hm : m < B) (bv : Bool) : newLimb old m bv < B := by
  unfold newLimb; cases bv
  · exact and_lt_B ho
  · exact or_lt_B ho hm

theorem setBitLoop_spec (k m : Nat) (bv : Bool) (l : List Nat) (i : Nat) (hl : WF l) (hm : m < B)
    (hk : k < TWO32) (hi : i + l.length ≤ TWO32) :
    setBitLoop k m (mask bv) l i =
      if i ≤ k ∧ k - i < l.length then l.set (k - i) (newLimb (l.getD (k - i) 0) m bv) else l := by
  induction l generalizing i with
  | nil => simp [setBitLoop]
  | cons x xs ih =>
    have ⟨hx, hxs⟩ := WF_cons.mp hl
    simp only [List.length_cons] at hi
    have h1 : x &&& wnot m < B := and_lt_B hx
    have h2 : x ||| m < B := or_lt_B hx hm
    have hsel : selectWord (x &&& wnot m) (x ||| m) (mask bv) = newLimb x m bv := by
      rw [selectWord_spec bv h1 h2]; unfold newLimb; cases bv <;> rfl
    simp only [setBitLoop]
    rw [hsel, fromU32Eq_spec (by omega) hk, selectWord_spec _ hx (newLimb_lt hx hm bv), ih (i + 1) hxs (by omega)]
    by_cases e : i = k
    · subst e
      simp
    · by_cases hlt : i ≤ k
      · have hik : i + 1 ≤ k := by omega
        have e2 : k - i = (k - (i + 1)) + 1 := by omega
        simp only [e, decide_false, Bool.false_eq_true, if_false, hlt, hik, true_and, List.length_cons]
        rw [e2, List.getD_cons_succ, List.set_cons_succ]
        by_cases hc : k - (i + 1) < xs.length
        · simp [hc]
        · simp [hc]
      · have hik : ¬ (i + 1 ≤ k) := by omega
        simp [e, hlt, hik]

theorem setBit_spec_list {a : List Nat} (ha : WF a) (hn : a.length ≤ TWO32) {idx : Nat} (hidx : idx < TWO32)
    (bv : Bool) :
    setBit a idx (mask bv) =
      if idx / 64 < a.length then
        a.set (idx / 64) (newLimb (a.getD (idx / 64) 0) (2 ^ (idx % 64)) bv)
      else a := by
  have hr : idx % 64 < 64 := Nat.mod_lt _ (by decide)
  have hm : 2 ^ (idx % 64) < B := by rw [B_eq_pow]; exact Nat.pow_lt_pow_right (by decide) hr
  have hk : idx / 64 < TWO32 := Nat.lt_of_le_of_lt (Nat.div_le_self _ _) hidx
  unfold setBit
  rw [wshl_one hr, setBitLoop_spec _ _ bv a 0 ha hm hk (by omega)]
  simp

/-- `set_bit_vartime` = the constant-time `set_bit` for EVERY index (both leave the value unchanged for
    `index ≥ BITS`). -/
theorem setBitVartime_eq {a : List Nat} (ha : WF a) (hn : a.length ≤ TWO32) {idx : Nat} (hidx : idx < TWO32)
    (bv : Bool) :
    setBitVartime a idx bv = setBit a idx (mask bv) := by
  have hr : idx % 64 < 64 := Nat.mod_lt _ (by decide)
  rw [setBit_spec_list ha hn hidx]
  unfold setBitVartime
  simp only [wshl_one hr]
  by_cases hk : idx / 64 < a.length
  · simp only [hk, if_true, ge_iff_le, Nat.not_le.mpr hk, if_false]
    unfold newLimb
    cases bv <;> simp
  · have hk' : a.length ≤ idx / 64 := by omega
    simp [hk, hk']

theorem getD_set (l : List Nat) (p q y : Nat) :
    (l.set p y).getD q 0 = if p = q ∧ p < l.length then y else l.getD q 0 := by
  rw [List.getD_eq_getElem?_getD, List.getElem?_set, List.getD_eq_getElem?_getD]
  by_cases h : p = q
  · subst h
    by_cases h2 : p < l.length
    · simp [h2]
    · simp [h2]
  · simp [h]

theorem testBit_newLimb (old : Nat) {r t : Nat} (ht : t < 64) (hr : r < 64) (bv : Bool) :
    (newLimb old (2 ^ r) bv).testBit t = if t = r then bv else old.testBit t := by
  have hm : 2 ^ r < B := by rw [B_eq_pow]; exact Nat.pow_lt_pow_right (by decide) hr
  unfold newLimb
  cases bv
  · simp only [Bool.false_eq_true, if_false]
    rw [Nat.testBit_and, testBit_wnot hm ht, Nat.testBit_two_pow]
    by_cases h : t = r
    · subst h; simp
    · have : ¬ (r = t) := fun e => h e.symm
      simp [h, this]
  · simp only [if_true]
    rw [Nat.testBit_or, Nat.testBit_two_pow]
    by_cases h : t = r
    · subst h; simp
    · have : ¬ (r = t) := fun e => h e.symm
      simp [h, this]

/-- value-level meaning of `set_bit`: bit `idx` becomes `bv` (if `idx < BITS`), all other bits keep
    their value. -/
theorem setBit_testBit {a : List Nat} (ha : WF a) (hn : a.length ≤ TWO32) {idx : Nat} (hidx : idx < TWO32)
    (bv : Bool) (j : Nat) :
    (val (setBit a idx (mask bv))).testBit j =
      if j = idx ∧ idx < 64 * a.length then bv else (val a).testBit j := by
  have hr : idx % 64 < 64 := Nat.mod_lt _ (by decide)
  have hm : 2 ^ (idx % 64) < B := by rw [B_eq_pow]; exact Nat.pow_lt_pow_right (by decide) hr
  rw [setBit_spec_list ha hn hidx]
  by_cases hk : idx / 64 < a.length
  · have hidxlt : idx < 64 * a.length := by omega
    simp only [hk, if_true, hidxlt, and_true]
    have hgetlt : a.getD (idx / 64) 0 < B := by
      rw [List.getD_eq_getElem?_getD, List.getElem?_eq_getElem hk]
      exact ha _ (List.getElem_mem hk)
    have hwf : WF (a.set (idx / 64) (newLimb (a.getD (idx / 64) 0) (2 ^ (idx % 64)) bv)) := by
      intro x hx
      rcases List.mem_or_eq_of_mem_set hx with h | h
      · exact ha x h
      · rw [h]; exact newLimb_lt hgetlt hm bv
    rw [testBit_val hwf, testBit_val ha, getD_set]
    by_cases hj : idx / 64 = j / 64
    · simp only [hj, true_and]
      rw [← hj, if_pos hk, testBit_newLimb _ (Nat.mod_lt _ (by decide)) hr]
      by_cases hjr : j % 64 = idx % 64
      · have : j = idx := by omega
        simp [this]
      · have : ¬ (j = idx) := fun e => hjr (by rw [e])
        simp [hjr, this]
    · have : ¬ (j = idx) := fun e => hj (by rw [e])
      simp [hj, this]
  · have hidxge : ¬ (idx < 64 * a.length) := by omega
    simp [hk, hidxge]

end CB.Bits
