/-
  CB.Lemmas.C12 — helper lemmas for property C12 (NonZero / Odd wrappers): the gates of the
  constructors, as the code evaluates them, equal their meaning on `val`; byte-string values;
  the rejection-sampling loop.
-/
import CB.Lemmas.Chains
import CB.Model.Wrappers
namespace CB.Wrappers
open CB

/-! ### masks and gates -/

theorem mask_true : mask true = WMAX := rfl
theorem mask_false : mask false = 0 := rfl
theorem mask_eq_WMAX (p : Bool) : mask p = WMAX ↔ p = true := by cases p <;> decide
theorem mask_lt_B (p : Bool) : mask p < B := by cases p <;> decide

theorem gate_mask {α : Type} (v : α) (p : Bool) : gate v (mask p) = if p then Res.ok v else Res.none := by
  cases p
  · show (if (0 : Nat) = WMAX then Res.ok v else Res.none) = Res.none
    rw [if_neg (by decide)]
  · show (if WMAX = WMAX then Res.ok v else Res.none) = Res.ok v
    rw [if_pos rfl]

theorem mask_and (p q : Bool) : mask p &&& mask q = mask (p && q) := by
  cases p <;> cases q <;> decide

/-! ### zero tests -/

theorem orAll_lt_B {a : List Nat} (h : WF a) : orAll a < B := by
  induction a with
  | nil => exact B_pos
  | cons x xs ih =>
    have ⟨hx, hxs⟩ := WF_cons.mp h
    exact or_lt_B hx (ih hxs)

theorem val_eq_zero_iff (a : List Nat) : val a = 0 ↔ ∀ x ∈ a, x = 0 := by
  induction a with
  | nil => simp [val]
  | cons x xs ih =>
    simp only [val, List.mem_cons, forall_eq_or_imp]
    constructor
    · intro h
      have hx : x = 0 := by omega
      have hv : B * val xs = 0 := by omega
      have : val xs = 0 := by
        rcases Nat.mul_eq_zero.mp hv with h | h
        · exact absurd h (by decide)
        · exact h
      exact ⟨hx, ih.mp this⟩
    · intro ⟨hx, hxs⟩
      rw [hx, ih.mpr hxs]; rfl

theorem orAll_eq_zero_iff (a : List Nat) : orAll a = 0 ↔ val a = 0 := by
  rw [val_eq_zero_iff]
  induction a with
  | nil => simp [orAll]
  | cons x xs ih =>
    simp only [orAll, Nat.or_eq_zero_iff, List.mem_cons, forall_eq_or_imp, ih]

/-- `Uint::is_nonzero` (used by `to_nz`, `new_unwrap`) -/
theorem isNonzero_spec {a : List Nat} (h : WF a) : isNonzero a = mask (decide (val a ≠ 0)) := by
  unfold isNonzero
  rw [fromWordNonzero_spec (orAll_lt_B h)]
  congr 1
  simp only [ne_eq, orAll_eq_zero_iff]

theorem xorAcc_uzero (a : List Nat) : xorAcc a (uzero a.length) = orAll a := by
  induction a with
  | nil => rfl
  | cons x xs ih =>
    show xorAcc (x :: xs) (List.replicate (xs.length + 1) 0) = _
    rw [List.replicate_succ]
    show (x ^^^ 0) ||| xorAcc xs (uzero xs.length) = x ||| orAll xs
    rw [Nat.xor_zero, ih]

/-- `<Uint as Zero>::is_zero` = `Uint::eq(self, ZERO)` (used by `NonZero::new`, `Deserialize`) -/
theorem uintIsZero_spec {a : List Nat} (h : WF a) : uintIsZero a = mask (decide (val a = 0)) := by
  unfold uintIsZero ueq
  rw [xorAcc_uzero, fromWordNonzero_spec (orAll_lt_B h), choiceNot_mask]
  congr 1
  simp only [ne_eq, orAll_eq_zero_iff, decide_not, Bool.not_not]

theorem limbIsZero_spec {x : Nat} (h : x < B) : limbIsZero x = mask (decide (x = 0)) :=
  fromWordEq_spec h B_pos

theorem boxedIsZero_aux (a : List Nat) (h : WF a) (p : Bool) :
    a.foldl (fun acc x => acc &&& limbIsZero x) (mask p) = mask (p && decide (val a = 0)) := by
  induction a generalizing p with
  | nil => simp [val]
  | cons x xs ih =>
    have ⟨hx, hxs⟩ := WF_cons.mp h
    rw [List.foldl_cons, limbIsZero_spec hx, mask_and, ih hxs]
    congr 1
    have e : (val (x :: xs) = 0) ↔ (x = 0 ∧ val xs = 0) := by
      rw [val_eq_zero_iff, val_eq_zero_iff]; simp only [List.mem_cons, forall_eq_or_imp]
    simp only [e, Bool.and_assoc, Bool.decide_and]

/-- `BoxedUint::is_zero` -/
theorem boxedIsZero_spec {a : List Nat} (h : WF a) : boxedIsZero a = mask (decide (val a = 0)) := by
  have := boxedIsZero_aux a h true
  simpa [boxedIsZero, mask_true] using this

/-! ### parity tests -/

theorem val_cons_mod_two (x : Nat) (xs : List Nat) : val (x :: xs) % 2 = x % 2 := by
  simp only [val, B_def]; omega

theorem lsb_choice (x : Nat) : fromWordLsb (x % 2) = mask (decide (x % 2 = 1)) := by
  rcases Nat.mod_two_eq_zero_or_one x with h | h <;> rw [h] <;> decide

/-- `Uint::is_odd` = `from_word_lsb(limbs[0] & 1)` (used by `to_odd`, `from_*_hex`) -/
theorem isOdd_spec (a : List Nat) : isOdd a = mask (decide (val a % 2 = 1)) := by
  cases a with
  | nil => decide
  | cons x xs =>
    show fromWordLsb (x &&& 1) = _
    rw [Nat.and_one_is_mod, lsb_choice, val_cons_mod_two]

theorem limbIsOdd_spec (x : Nat) : limbIsOdd x = mask (decide (x % 2 = 1)) := by
  unfold limbIsOdd
  rw [Nat.and_one_is_mod, lsb_choice]
  have : x % 256 % 2 = x % 2 := by omega
  rw [this]

/-- `Integer::is_odd` (used by `Odd::new`, `BoxedUint::to_odd`, `Deserialize for Odd`) -/
theorem integerIsOdd_spec (a : List Nat) : integerIsOdd a = mask (decide (val a % 2 = 1)) := by
  cases a with
  | nil => decide
  | cons x xs => show limbIsOdd x = _; rw [limbIsOdd_spec, val_cons_mod_two]

theorem odd_ne_zero {v : Nat} (h : v % 2 = 1) : v ≠ 0 := by omega

/-! ### constants -/

theorem val_uone {n : Nat} (h : n ≠ 0) : val (uone n) = 1 := by
  cases n with
  | zero => exact absurd rfl h
  | succ k => show 1 + B * val (uzero k) = 1; rw [val_uzero, Nat.mul_zero]
theorem uone_WF (n : Nat) : WF (uone n) := by
  cases n with
  | zero => exact WF_nil
  | succ k => exact WF_cons.mpr ⟨by decide, uzero_WF k⟩
theorem uone_length (n : Nat) : (uone n).length = n := by
  cases n with
  | zero => rfl
  | succ k => simp [uone, uzero]

theorem B_pow_pos (n : Nat) : 0 < B ^ n := Nat.pow_pos B_pos
theorem two_le_B_pow {n : Nat} (h : n ≠ 0) : 2 ≤ B ^ n := by
  cases n with
  | zero => exact absurd rfl h
  | succ k =>
    have : 0 < B ^ k := B_pow_pos k
    rw [Nat.pow_succ]; simp only [B_def] at *; omega

theorem val_umax_ne_zero {n : Nat} (h : n ≠ 0) : val (umax n) ≠ 0 := by
  have := val_umax n; have := two_le_B_pow h; omega

/-! ### byte strings -/

theorem beVal_aux (bs : List Nat) (acc : Nat) :
    bs.foldl (fun acc b => acc * 256 + b % 256) acc < (acc + 1) * 256 ^ bs.length := by
  induction bs generalizing acc with
  | nil => simp
  | cons b bs ih =>
    rw [List.foldl_cons, List.length_cons, Nat.pow_succ]
    have := ih (acc * 256 + b % 256)
    have hb : b % 256 < 256 := Nat.mod_lt _ (by decide)
    calc _ < (acc * 256 + b % 256 + 1) * 256 ^ bs.length := this
      _ ≤ ((acc + 1) * 256) * 256 ^ bs.length := Nat.mul_le_mul_right _ (by omega)
      _ = (acc + 1) * (256 ^ bs.length * 256) := by rw [Nat.mul_assoc, Nat.mul_comm 256]

theorem beVal_lt (bs : List Nat) : beVal bs < 256 ^ bs.length := by
  have := beVal_aux bs 0; simpa [beVal] using this

theorem leVal_lt (bs : List Nat) : leVal bs < 256 ^ bs.length := by
  induction bs with
  | nil => simp [leVal]
  | cons b bs ih =>
    have hb : b % 256 < 256 := Nat.mod_lt _ (by decide)
    rw [List.length_cons, Nat.pow_succ]
    show b % 256 + 256 * leVal bs < _
    generalize 256 ^ bs.length = K at *
    omega

theorem pow256_eq (n : Nat) : 256 ^ (8 * n) = B ^ n := by
  rw [Nat.pow_mul]; rfl

/-- exactly `8n` bytes fit `n` limbs: the decoded limbs denote the byte string's value -/
theorem val_uintFromBeBytes {n : Nat} {bs : List Nat} (h : bs.length = 8 * n) :
    val (uintFromBeBytes n bs) = beVal bs := by
  unfold uintFromBeBytes
  rw [val_toLimbs, Nat.mod_eq_of_lt]
  have := beVal_lt bs; rwa [h, pow256_eq] at this
theorem val_uintFromLeBytes {n : Nat} {bs : List Nat} (h : bs.length = 8 * n) :
    val (uintFromLeBytes n bs) = leVal bs := by
  unfold uintFromLeBytes
  rw [val_toLimbs, Nat.mod_eq_of_lt]
  have := leVal_lt bs; rwa [h, pow256_eq] at this

theorem hexBytes_length : ∀ (cs bs : List Nat), hexBytes? cs = some bs → cs.length = 2 * bs.length
  | [], bs, h => by simp [hexBytes?] at h; subst h; rfl
  | [_], bs, h => by simp [hexBytes?] at h
  | hh :: l :: rest, bs, h => by
    unfold hexBytes? at h
    split at h
    · rename_i x y bs' _ _ hr
      injection h with h; subst h
      have := hexBytes_length rest bs' hr
      simp only [List.length_cons]; omega
    · exact absurd h (by simp)

/-! ### selection -/

theorem uselect_length (a b : List Nat) (c : Nat) (h : a.length = b.length) : (uselect a b c).length = a.length := by
  induction a generalizing b with
  | nil => cases b <;> simp_all [uselect]
  | cons x xs ih =>
    cases b with
    | nil => simp at h
    | cons y ys => simp only [uselect, List.length_cons]; rw [ih ys (by simpa using h)]

/-! ### low-bit forcing -/

theorem setLsb_odd {a : List Nat} (h : a ≠ []) : val (setLsb a) % 2 = 1 := by
  cases a with
  | nil => exact absurd rfl h
  | cons x xs =>
    show val ((x ||| 1) :: xs) % 2 = 1
    rw [val_cons_mod_two]; exact Nat.or_mod_two_eq_one.mpr (Or.inr rfl)
theorem setLsb_WF {a : List Nat} (h : WF a) : WF (setLsb a) := by
  cases a with
  | nil => exact h
  | cons x xs =>
    have ⟨hx, hxs⟩ := WF_cons.mp h
    exact WF_cons.mpr ⟨or_lt_B hx (by decide), hxs⟩
theorem setLsb_length (a : List Nat) : (setLsb a).length = a.length := by cases a <;> rfl

/-! ### random words -/

theorem uintTryRandom_spec : ∀ (n : Nat) (s a s' : List Nat), uintTryRandom n s = some (a, s') →
    a = (s.take n).map (· % B) ∧ s' = s.drop n ∧ n ≤ s.length
  | 0, s, a, s', h => by simp [uintTryRandom] at h; simp [h.1, h.2]
  | n + 1, [], a, s', h => by simp [uintTryRandom] at h
  | n + 1, w :: s, a, s', h => by
    unfold uintTryRandom at h
    split at h
    · exact absurd h (by simp)
    · rename_i a0 s0 hr
      have ⟨h1, h2, h3⟩ := uintTryRandom_spec n s a0 s0 hr
      simp only [Option.some.injEq, Prod.mk.injEq] at h
      obtain ⟨ha, hs⟩ := h
      subst ha; subst hs
      simp only [List.take_succ_cons, List.map_cons, List.drop_succ_cons, List.length_cons]
      exact ⟨by rw [h1], h2, by omega⟩

theorem uintTryRandom_none : ∀ (n : Nat) (s : List Nat), uintTryRandom n s = none → s.length < n
  | 0, s, h => by simp [uintTryRandom] at h
  | n + 1, [], _ => by simp
  | n + 1, w :: s, h => by
    unfold uintTryRandom at h
    split at h
    · rename_i hr; have := uintTryRandom_none n s hr; simp only [List.length_cons]; omega
    · exact absurd h (by simp)

theorem map_mod_WF (l : List Nat) : WF (l.map (· % B)) := by
  intro x hx
  simp only [List.mem_map] at hx
  obtain ⟨y, _, rfl⟩ := hx
  exact Nat.mod_lt _ B_pos

end CB.Wrappers

namespace CB.Wrappers
open CB

/-! ### the invariants and the set of obtainable wrapper values -/

/-- invariant of `NonZero<T>` on the limbs it holds -/
def NZ (a : List Nat) : Prop := val a ≠ 0
/-- invariant of `Odd<T>` -/
def OddV (a : List Nat) : Prop := val a % 2 = 1

inductive Kind where
  | nz | odd
  deriving DecidableEq

def Inv : Kind → List Nat → Prop
  | .nz, a => WF a ∧ NZ a
  | .odd, a => WF a ∧ OddV a

/-- Wrapper values obtainable through the modelled producers (a `Limb` wrapper is the one-limb list).
    EXCLUDED, because they break the invariant (negative theorem `wrapZeroize_invalid` in Props/C12,
    recorded finding C12-zeroize): `nzLimbZeroize`, `wrapZeroize` (`Zeroize`). -/
inductive Produced : Kind → List Nat → Prop
  -- NonZero<Limb>
  | nzLimbNew {x y : Nat} : x < B → nzLimbNew x = .ok y → Produced .nz [y]
  | nzLimbNewUnwrap {x y : Nat} : x < B → nzLimbNewUnwrap x = .ok y → Produced .nz [y]
  | limbToNz {x y : Nat} : x < B → limbToNz x = .ok y → Produced .nz [y]
  | limbToNzExpect {x y : Nat} : x < B → limbToNzExpect x = .ok y → Produced .nz [y]
  | nzLimbFromPrim {bits v y : Nat} : bits ≤ 64 → nzLimbFromPrim bits v = .ok y → Produced .nz [y]
  | nzLimbOne {y : Nat} : nzLimbOne = .ok y → Produced .nz [y]
  | nzLimbMax {y : Nat} : nzLimbMax = .ok y → Produced .nz [y]
  | nzLimbDefault {y : Nat} : nzLimbDefault = .ok y → Produced .nz [y]
  | nzLimbFromBeBytes {bs : List Nat} {y : Nat} : nzLimbFromBeBytes bs = .ok y → Produced .nz [y]
  | nzLimbFromLeBytes {bs : List Nat} {y : Nat} : nzLimbFromLeBytes bs = .ok y → Produced .nz [y]
  | nzLimbSelect {a b c y : Nat} : Produced .nz [a] → Produced .nz [b] → (c = 0 ∨ c = WMAX) →
      nzLimbSelect a b c = .ok y → Produced .nz [y]
  | nzLimbDeser {bs : List Nat} {y : Nat} : nzLimbDeser bs = .ok y → Produced .nz [y]
  -- NonZero<Uint>, NonZero<Int>, NonZero<BoxedUint>
  | nzNew {a v : List Nat} : WF a → nzNew a = .ok v → Produced .nz v
  | nzBoxedNew {a v : List Nat} : WF a → nzBoxedNew a = .ok v → Produced .nz v
  | nzNewUnwrap {a v : List Nat} : WF a → nzNewUnwrap a = .ok v → Produced .nz v
  | uintToNz {a v : List Nat} : WF a → uintToNz a = .ok v → Produced .nz v
  | uintToNzExpect {a v : List Nat} : WF a → expectRes (uintToNz a) = .ok v → Produced .nz v
  | nzFromPrim {n bits x : Nat} {v : List Nat} : n ≠ 0 → (bits ≤ 64 ∨ bits = 128) →
      nzFromPrim n bits x = .ok v → Produced .nz v
  | nzOne {n : Nat} {v : List Nat} : n ≠ 0 → nzOne n = .ok v → Produced .nz v
  | nzMax {n : Nat} {v : List Nat} : n ≠ 0 → nzMax n = .ok v → Produced .nz v
  | nzIntMax {n : Nat} {v : List Nat} : n ≠ 0 → nzIntMax n = .ok v → Produced .nz v
  | nzDefault {n : Nat} {v : List Nat} : n ≠ 0 → nzDefault n = .ok v → Produced .nz v
  | nzFromBeBytes {n : Nat} {bs v : List Nat} : nzFromBeBytes n bs = .ok v → Produced .nz v
  | nzFromLeBytes {n : Nat} {bs v : List Nat} : nzFromLeBytes n bs = .ok v → Produced .nz v
  | nzFromBeByteArray {n : Nat} {bs v : List Nat} : nzFromBeByteArray n bs = .ok v → Produced .nz v
  | nzFromLeByteArray {n : Nat} {bs v : List Nat} : nzFromLeByteArray n bs = .ok v → Produced .nz v
  | nzSelect {a b v : List Nat} {c : Nat} : Produced .nz a → Produced .nz b → a.length = b.length →
      (c = 0 ∨ c = WMAX) → wrapSelect a b c = .ok v → Produced .nz v
  | nzSwapFst {a b : List Nat} {c : Nat} : Produced .nz a → Produced .nz b → a.length = b.length →
      (c = 0 ∨ c = WMAX) → Produced .nz (wrapSwap a b c).1
  | nzSwapSnd {a b : List Nat} {c : Nat} : Produced .nz a → Produced .nz b → a.length = b.length →
      (c = 0 ∨ c = WMAX) → Produced .nz (wrapSwap a b c).2
  | nzTryRandom {n k : Nat} {s v : List Nat} : nzTryRandom n s = .ok (v, k) → Produced .nz v
  | nzRandomInf {n k : Nat} {s v : List Nat} : nzRandomInf n s = .ok (v, k) → Produced .nz v
  | nzDeser {n : Nat} {bs v : List Nat} : nzDeser n bs = .ok v → Produced .nz v
  | nzIntAbsSign {a v : List Nat} {s : Nat} : Produced .nz a → nzIntAbsSign a = .ok (v, s) → Produced .nz v
  | nzBoxedWiden {a v : List Nat} {bits : Nat} : Produced .nz a → nzBoxedWiden a bits = .ok v → Produced .nz v
  | nzSame {a v : List Nat} : Produced .nz a → wrapSame a = .ok v → Produced .nz v
  | oddAsNzRef {a v : List Nat} : Produced .odd a → oddAsNzRef a = .ok v → Produced .nz v
  -- Odd<Uint>, Odd<Int>, Odd<BoxedUint>
  | oddLimbDefault {y : Nat} : oddLimbDefault = .ok y → Produced .odd [y]
  | oddDefault {n : Nat} {v : List Nat} : n ≠ 0 → oddDefault n = .ok v → Produced .odd v
  | oddBoxedDefault {v : List Nat} : oddBoxedDefault = .ok v → Produced .odd v
  | oddNew {a v : List Nat} : WF a → oddNew a = .ok v → Produced .odd v
  | uintToOdd {a v : List Nat} : WF a → uintToOdd a = .ok v → Produced .odd v
  | uintToOddExpect {a v : List Nat} : WF a → expectRes (uintToOdd a) = .ok v → Produced .odd v
  | oddFromBeHex {n : Nat} {cs v : List Nat} : oddFromBeHex n cs = .ok v → Produced .odd v
  | oddFromLeHex {n : Nat} {cs v : List Nat} : oddFromLeHex n cs = .ok v → Produced .odd v
  | oddSelect {a b v : List Nat} {c : Nat} : Produced .odd a → Produced .odd b → a.length = b.length →
      (c = 0 ∨ c = WMAX) → wrapSelect a b c = .ok v → Produced .odd v
  | oddSwapFst {a b : List Nat} {c : Nat} : Produced .odd a → Produced .odd b → a.length = b.length →
      (c = 0 ∨ c = WMAX) → Produced .odd (wrapSwap a b c).1
  | oddSwapSnd {a b : List Nat} {c : Nat} : Produced .odd a → Produced .odd b → a.length = b.length →
      (c = 0 ∨ c = WMAX) → Produced .odd (wrapSwap a b c).2
  | oddTryRandom {n k : Nat} {s v : List Nat} : n ≠ 0 → oddTryRandom n s = .ok (v, k) → Produced .odd v
  | oddRandomInf {n k : Nat} {s v : List Nat} : n ≠ 0 → oddRandomInf n s = .ok (v, k) → Produced .odd v
  | oddBoxedRandom {bits k : Nat} {s v : List Nat} : oddBoxedRandom bits s = .ok (v, k) → Produced .odd v
  | oddDeser {n : Nat} {bs v : List Nat} : oddDeser n bs = .ok v → Produced .odd v
  | oddIntoBoxed {a v : List Nat} : Produced .odd a → oddIntoBoxed a = .ok v → Produced .odd v
  | oddSame {a v : List Nat} : Produced .odd a → wrapSame a = .ok v → Produced .odd v

end CB.Wrappers

namespace CB.Wrappers
open CB

theorem uintTryRandom_some : ∀ (n : Nat) (s : List Nat), n ≤ s.length →
    uintTryRandom n s = some ((s.take n).map (· % B), s.drop n)
  | 0, s, _ => by simp [uintTryRandom]
  | n + 1, [], h => by simp at h
  | n + 1, w :: s, h => by
    unfold uintTryRandom
    rw [uintTryRandom_some n s (by simpa using h)]
    simp

/-- the `j`-th candidate of an `n`-limb rejection sampler: words `j*n .. j*n+n-1` of the stream -/
def group (n : Nat) (s : List Nat) (j : Nat) : List Nat := ((s.drop (j * n)).take n).map (· % B)

theorem group_zero (n : Nat) (s : List Nat) : group n s 0 = (s.take n).map (· % B) := by
  simp [group]

theorem group_shift (n : Nat) (s : List Nat) (j : Nat) : group n (s.drop n) j = group n s (j + 1) := by
  simp only [group, List.drop_drop, Nat.succ_mul]
  rw [Nat.add_comm]

end CB.Wrappers

/-! ### coverage round: the serialised form (`Serialize for NonZero<T>` / `Odd<T>`) and its way back -/
namespace CB.Wrappers
open CB

theorem leBytesOf_length : ∀ (k v : Nat), (leBytesOf k v).length = k
  | 0, _ => rfl
  | k + 1, v => by show (leBytesOf k (v / 256)).length + 1 = k + 1; rw [leBytesOf_length k]

theorem leVal_leBytesOf : ∀ (k v : Nat), leVal (leBytesOf k v) = v % 256 ^ k
  | 0, v => by simp [leBytesOf, leVal, Nat.mod_one]
  | k + 1, v => by
    show v % 256 % 256 + 256 * leVal (leBytesOf k (v / 256)) = v % 256 ^ (k + 1)
    rw [leVal_leBytesOf k, Nat.mod_mod, Nat.pow_succ', Nat.mod_mul]

/-- positional: byte `i` is `v / 256^i % 256` -/
theorem leBytesOf_eq_range : ∀ (k v : Nat), leBytesOf k v = (List.range k).map fun i => v / 256 ^ i % 256
  | 0, _ => rfl
  | k + 1, v => by
    show v % 256 :: leBytesOf k (v / 256) = _
    rw [leBytesOf_eq_range k, List.range_succ_eq_map, List.map_cons, List.map_map]
    simp only [Nat.pow_zero, Nat.div_one, List.cons.injEq, true_and]
    apply List.map_congr_left
    intro i _
    show v / 256 / 256 ^ i % 256 = v / 256 ^ (i + 1) % 256
    rw [Nat.div_div_eq_div_mul, Nat.pow_succ, Nat.mul_comm]

theorem B_pow_eq_256 (n : Nat) : B ^ n = 256 ^ (8 * n) := by
  rw [Nat.pow_mul]; rfl

/-- the frame written for a well-formed `n`-limb value is accepted by the frame reader and gives the value back -/
theorem bincodeArray_frame {a : List Nat} (hw : WF a) (hn : 8 * a.length < B) :
    bincodeArray a.length (bincodeFrame a) = .ok a := by
  have h1 : (leBytesOf 8 (8 * a.length)).length = 8 := leBytesOf_length _ _
  have h2 : (leBytesOf (8 * a.length) (val a)).length = 8 * a.length := leBytesOf_length _ _
  unfold bincodeArray bincodeFrame
  rw [if_neg (by rw [List.length_append, h1]; omega)]
  simp only [List.take_left' h1, List.drop_left' h1]
  have hv : leVal (leBytesOf 8 (8 * a.length)) = 8 * a.length := by
    rw [leVal_leBytesOf]; exact Nat.mod_eq_of_lt hn
  rw [hv, if_neg (by omega), if_neg (fun h => h rfl), List.take_of_length_le (by omega)]
  unfold uintFromLeBytes
  rw [leVal_leBytesOf, ← B_pow_eq_256, Nat.mod_eq_of_lt (val_lt hw), toLimbs_val hw]

end CB.Wrappers
