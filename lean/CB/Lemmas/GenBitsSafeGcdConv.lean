/-
  CB.Lemmas.GenBitsSafeGcdConv — the translated `UnsatInt::from_uint` / `UnsatInt::to_uint` (src/modular/safegcd.rs with the
  macro `impl_limb_convert!` of src/modular/safegcd/macros.rs EXPANDED by tools/translate.py; CB/Gen/SafeGcdLimbs.lean, namespace
  `CB.Gen.SafeGcdLimbs.Convert`, regenerated from /repo's current source on every run) are the two instances `(64, 62)` and
  `(62, 64)` of the parametric loop pair `cvLoop` / `cvMaskLoop` / `cvConvert` of CB/Lemmas/GenSafeGcdConv.lean.

  This is the only file that looks at the generated TEXT of these functions: each lemma unfolds the generated definition once
  and compares it with the parametric round (`round_eq` of GenBitsChains.lean: identical sides close by `rfl` — renaming
  locals, splitting / merging `let`s — otherwise the recursive call and `List.set` stay folded and their arguments are
  compared).  A changed index, shift amount, step of the bit cursor, mask or loop bound makes a lemma of this file fail.

  `bv_decide` file: its name matches `*Bits*`.
-/
import CB.Gen.SafeGcdLimbs
import CB.Lemmas.GenBitsChains
import CB.Lemmas.GenBitsSafeGcdLimbs
import CB.Lemmas.GenSafeGcdConv
import Std.Tactic.BVDecide
set_option linter.unusedTactic false
set_option linter.unreachableTactic false
namespace CB.GenBits
open CB.Gen CB.Gen.SafeGcdLimbs CB.GenSafeGcdConv
open CB.GenChains (nats)

/-! ## `from_uint`: 64-bit words → 62-bit words -/

theorem from_uint_loop1_eq (L : Nat) (inp : List (BitVec 64)) (total : Nat) :
    ∀ (n bits : Nat) (out : List (BitVec 64)),
      Convert.from_uint_loop1 L inp total n bits out = cvLoop inp 64 62 total n bits out := by
  intro n
  induction n with
  | zero => intro bits out; rw [Convert.from_uint_loop1, cvLoop]
  | succ n ih =>
    intro bits out
    rw [Convert.from_uint_loop1, cvLoop]
    by_cases h : bits < total
    · rw [if_pos h, if_pos h, ← ih] <;> round_eq
    · rw [if_neg h, if_neg h]

theorem from_uint_loop2_eq (L : Nat) (mask : BitVec 64) :
    ∀ (n : Nat) (out : List (BitVec 64)), Convert.from_uint_loop2 L mask n out = cvMaskLoop mask n out := by
  intro n
  induction n with
  | zero => intro out; rw [Convert.from_uint_loop2, cvMaskLoop]
  | succ n ih => intro out; rw [Convert.from_uint_loop2, cvMaskLoop, ← ih] <;> round_eq

theorem from_uint_eq (L S : Nat) (inp : List (BitVec 64)) :
    Convert.from_uint L S inp = cvConvert inp 64 62 L ((~~~0#64) >>> 2) := by
  unfold Convert.from_uint cvConvert
  simp only [from_uint_loop1_eq, from_uint_loop2_eq, List.length_replicate]

/-! ## `to_uint`: 62-bit words → 64-bit words -/

theorem to_uint_loop1_eq (L : Nat) (inp : List (BitVec 64)) (total : Nat) :
    ∀ (n bits : Nat) (out : List (BitVec 64)),
      Convert.to_uint_loop1 L inp total n bits out = cvLoop inp 62 64 total n bits out := by
  intro n
  induction n with
  | zero => intro bits out; rw [Convert.to_uint_loop1, cvLoop]
  | succ n ih =>
    intro bits out
    rw [Convert.to_uint_loop1, cvLoop]
    by_cases h : bits < total
    · rw [if_pos h, if_pos h, ← ih] <;> round_eq
    · rw [if_neg h, if_neg h]

theorem to_uint_loop2_eq (L : Nat) (mask : BitVec 64) :
    ∀ (n : Nat) (out : List (BitVec 64)), Convert.to_uint_loop2 L mask n out = cvMaskLoop mask n out := by
  intro n
  induction n with
  | zero => intro out; rw [Convert.to_uint_loop2, cvMaskLoop]
  | succ n ih => intro out; rw [Convert.to_uint_loop2, cvMaskLoop, ← ih] <;> round_eq

theorem to_uint_eq (L S : Nat) (u : List (BitVec 64)) :
    Convert.to_uint L S u = cvConvert u 62 64 S ((~~~0#64) >>> 0) := by
  unfold Convert.to_uint cvConvert
  simp only [to_uint_loop1_eq, to_uint_loop2_eq, List.length_replicate]

/-! ## the masks, as `Nat`s -/

theorem mask62_toNat : ((~~~0#64) >>> 2 : BitVec 64).toNat = (2 ^ 64 - 1) >>> (64 - 62) := by decide
theorem mask64_toNat : ((~~~0#64) >>> 0 : BitVec 64).toNat = (2 ^ 64 - 1) >>> (64 - 64) := by decide

/-- `UnsatInt::from_uint` of the source IS the model's `fromUint`, for every input length and limb count -/
theorem fromUint_bridge (L S : Nat) (inp : List (BitVec 64)) :
    nats (Convert.from_uint L S inp) = CB.SafeGcd.fromUint (nats inp) L := by
  rw [from_uint_eq, cvConvert_bridge inp 64 62 L _ (by omega) (by omega) (by omega) (by omega) mask62_toNat]
  rfl

/-- `UnsatInt::to_uint` of the source IS the model's `toUint`, for every limb count and output length -/
theorem toUint_bridge (L S : Nat) (u : List (BitVec 64)) :
    nats (Convert.to_uint L S u) = CB.SafeGcd.toUint (nats u) S := by
  rw [to_uint_eq, cvConvert_bridge u 62 64 S _ (by omega) (by omega) (by omega) (by omega) mask64_toNat]
  rfl

/-! ## `SafeGcdInverter::{new, inv}`: the compositions, as the source writes them -/

theorem inverter_new_eq (L S : Nat) (m a : List (BitVec 64)) :
    InverterApi.new L S m a = (Convert.from_uint L S m, Convert.from_uint L S a, CB.Gen.SafeGcd.inv_mod2_62 m) := by
  round_eq

theorem inverter_inv_eq (L S : Nat) (s : List (BitVec 64) × List (BitVec 64) × BitVec 64) (v : List (BitVec 64)) :
    InverterApi.inv L S s v =
      (Convert.to_uint L S
        (Inverter.norm L s (SafeGcdLimbs.divsteps L s.2.1 s.1 (Convert.from_uint L S v) s.2.2).1
          (UnsatInt.eq L (SafeGcdLimbs.divsteps L s.2.1 s.1 (Convert.from_uint L S v) s.2.2).2 (List.replicate L MASK62))),
       Choice.or
        (UnsatInt.eq L (SafeGcdLimbs.divsteps L s.2.1 s.1 (Convert.from_uint L S v) s.2.2).2 ((List.replicate L 0#64).set 0 1#64))
        (UnsatInt.eq L (SafeGcdLimbs.divsteps L s.2.1 s.1 (Convert.from_uint L S v) s.2.2).2 (List.replicate L MASK62))) := by
  unfold InverterApi.inv
  first | rfl | (simp only []; chain_congr 6)

end CB.GenBits
