/-
  CB.Lemmas.GenChains{Sub,,Cmp} — the hand-written limb-chain model (`uadc`, `usbb`, `negLoop`/`carryingNeg`,
  `orAll`/`isNonzero`, `xorAcc`/`ueq`, `ult`/`ugt`/`ulte` of CB/Model/Uint.lean) IS the translated source
  (CB/Gen/Chains.lean, regenerated from src/uint/{add,sub,neg,cmp}.rs on every run), for EVERY limb count.
  This file: the list facts and `Uint::sbb` / `wrapping_sub` (shared by C04 and C06).  GenChains.lean: `adc`,
  `wrapping_add`, `carrying_neg`, `wrapping_neg` (C04).  GenChainsCmp.lean: the comparisons (C06).

  A `Uint<LIMBS>` of the source is the list of its limbs (`List (BitVec 64)`, little endian) with `LIMBS` an explicit
  argument; the model works on `List Nat`.  Each bridge is an induction over the number of remaining rounds of the
  translated `while i < LIMBS` loop (its fuel; the invariant `i + fuel = LIMBS` makes the loop test of every round true),
  with the invariant
      result array = (the first `i` positions written so far) ++ (model chain on the limbs from position `i` on).
  One round of the translated loop is taken from CB/Lemmas/GenBitsChains*.lean (`*_loop_succ`; that is where the
  generated text is read), one word of the model from the word bridges `adc_bridge` / `sbb_bridge` of GenBitsAdd.lean.
  No `bv_decide` in these files.
-/
import CB.Lemmas.GenBitsChains
import CB.Lemmas.Chains
namespace CB.GenChains
open CB CB.Gen CB.Gen.Chains CB.GenBits

/-- the limbs of a translated value as the model's words -/
abbrev nats (l : List (BitVec 64)) : List Nat := l.map BitVec.toNat

theorem nats_WF (l : List (BitVec 64)) : WF (nats l) := by
  intro x hx
  obtain ⟨v, _, rfl⟩ := List.mem_map.mp hx
  exact toNat_lt_B v

theorem nats_length (l : List (BitVec 64)) : (nats l).length = l.length := List.length_map _

/-! ## list facts used by every array-building loop -/

theorem drop_eq_getD_cons (a : List (BitVec 64)) (i : Nat) (h : i < a.length) :
    a.drop i = a.getD i 0#64 :: a.drop (i + 1) := by
  have e : a.getD i 0#64 = a[i] := by simp [List.getD, h]
  rw [e]
  exact List.drop_eq_getElem_cons h

theorem take_set_succ (l : List (BitVec 64)) (i : Nat) (w : BitVec 64) (h : i < l.length) :
    (l.set i w).take (i + 1) = l.take i ++ [w] := by
  induction l generalizing i with
  | nil => simp at h
  | cons x xs ih =>
    cases i with
    | zero => simp
    | succ j =>
      have hj : j < xs.length := by simpa using h
      simp only [List.set_cons_succ, List.take_succ_cons, List.cons_append, ih j hj]

/-! ## `Uint::sbb` -/

theorem sbb_loop_bridge (L : Nat) (a b : List (BitVec 64)) (ha : a.length = L) (hb : b.length = L) :
    ∀ (n i : Nat) (c : BitVec 64) (limbs : List (BitVec 64)), i + n = L → limbs.length = L →
      nats (Uint.sbb_loop1 L a b n i c limbs).2 =
          nats (limbs.take i) ++ (usbb (nats (a.drop i)) (nats (b.drop i)) c.toNat).1 ∧
      (Uint.sbb_loop1 L a b n i c limbs).1.toNat = (usbb (nats (a.drop i)) (nats (b.drop i)) c.toNat).2 := by
  intro n
  induction n with
  | zero =>
    intro i c limbs hi hl
    have hi' : i = L := by omega
    rw [sbb_loop_zero, List.drop_of_length_le (by omega), List.drop_of_length_le (by omega),
      List.take_of_length_le (by omega)]
    simp [nats, usbb]
  | succ n ih =>
    intro i c limbs hi hl
    have hi' : i < L := by omega
    obtain ⟨ih1, ih2⟩ := ih (i + 1) (Prim.sbb (a.getD i 0#64) (b.getD i 0#64) c).2
      (limbs.set i (Prim.sbb (a.getD i 0#64) (b.getD i 0#64) c).1) (by omega) (by simpa using hl)
    rw [sbb_loop_succ L a b n i c limbs hi', drop_eq_getD_cons a i (by omega), drop_eq_getD_cons b i (by omega)]
    simp only [nats, List.map_cons] at ih1 ih2 ⊢
    rw [usbb_cons, sbb_bridge]
    refine ⟨?_, ih2⟩
    rw [ih1, take_set_succ limbs i _ (by omega)]
    simp only [List.map_append, List.map_cons, List.map_nil, List.append_assoc, List.cons_append, List.nil_append]

/-- **`Uint::sbb`**: for every limb count and every borrow-in word -/
theorem usbb_bridge (a b : List (BitVec 64)) (c : BitVec 64) (h : a.length = b.length) :
    usbb (nats a) (nats b) c.toNat =
      (nats (Uint.sbb a.length a b c).1, (Uint.sbb a.length a b c).2.toNat) := by
  obtain ⟨h1, h2⟩ := sbb_loop_bridge a.length a b rfl h.symm a.length 0 c (List.replicate a.length 0#64)
    (by omega) (by simp)
  rw [sbb_eq_loop]
  simp only [List.drop_zero, List.take_zero] at h1 h2
  simp only [h1, h2, nats, List.map_nil, List.nil_append]

/-- **`Uint::wrapping_sub`** -/
theorem wrappingSub_bridge (a b : List (BitVec 64)) (h : a.length = b.length) :
    wrappingSub (nats a) (nats b) = nats (Uint.wrapping_sub a.length a b) := by
  rw [wrapping_sub_eq, wrappingSub]
  exact congrArg Prod.fst (usbb_bridge a b 0#64 h)

end CB.GenChains
