/-
  CB.Lemmas.C02MG — the arithmetic core of Möller–Granlund's 2-by-1 division (Theorem 2 of
  "Improved division by invariant integers") over ℤ, independent of the word model.
-/
import Mathlib.Tactic.Linarith
import Mathlib.Tactic.Ring
import Mathlib.Tactic.LinearCombination
namespace CB.Div

/-- With `t = ⌊(B²-1)/d⌋` (`t*d + k = B²`, `1 ≤ k ≤ d`), `(Q, q0)` the two words of `t*u1 + u0`
    (= `v*u1 + (u1, u0)`), the candidate remainder `r̃ = U - (Q+1) d` satisfies
    `max(B-d, q0+1) - B ≤ r̃ < max(B-d, q0)`. -/
theorem mg_core {B d u1 u0 t Q q0 k : ℤ} (hd : d < B) (hd2 : B ≤ 2 * d)
    (hu1 : 0 ≤ u1) (hu1d : u1 < d) (hu0 : 0 ≤ u0) (hu0B : u0 < B) (hq0 : 0 ≤ q0) (hq0B : q0 < B)
    (hk1 : 1 ≤ k) (hkd : k ≤ d) (htk : t * d + k = B * B) (hS : Q * B + q0 = t * u1 + u0) :
    -d ≤ u1 * B + u0 - (Q + 1) * d ∧ q0 - B < u1 * B + u0 - (Q + 1) * d ∧
    (u1 * B + u0 - (Q + 1) * d < B - d ∨ u1 * B + u0 - (Q + 1) * d < q0) := by
  have hB : 0 < B := by linarith
  have hd0 : 0 < d := by linarith
  have key : (u1 * B + u0 - (Q + 1) * d) * B = u1 * k + u0 * (B - d) + q0 * d - d * B := by
    linear_combination (-u1) * htk + (-d) * hS
  generalize u1 * B + u0 - (Q + 1) * d = rt at key ⊢
  have h1 : 0 ≤ u1 * k := mul_nonneg hu1 (by linarith)
  have h2 : 0 ≤ u0 * (B - d) := mul_nonneg hu0 (by linarith)
  have h3 : 0 ≤ q0 * d := mul_nonneg hq0 (by linarith)
  have h4 : u1 * k ≤ (d - 1) * d := by
    have : u1 * k ≤ (d - 1) * k := mul_le_mul_of_nonneg_right (by linarith) (by linarith)
    have : (d - 1) * k ≤ (d - 1) * d := mul_le_mul_of_nonneg_left hkd (by linarith)
    linarith
  have h5 : u0 * (B - d) ≤ (B - 1) * (B - d) := mul_le_mul_of_nonneg_right (by linarith) (by linarith)
  refine ⟨?_, ?_, ?_⟩
  · by_contra hc
    have : rt ≤ -d - 1 := by linarith
    have : rt * B ≤ (-d - 1) * B := mul_le_mul_of_nonneg_right this (by linarith)
    nlinarith
  · by_contra hc
    have : rt ≤ q0 - B := by linarith
    have : rt * B ≤ (q0 - B) * B := mul_le_mul_of_nonneg_right this (by linarith)
    have : 0 < (B - q0) * (B - d) := mul_pos (by linarith) (by linarith)
    nlinarith
  · have hub : rt * B < (B - d) * (B - d) + q0 * d := by nlinarith
    by_cases hq : B - d ≤ q0
    · right
      by_contra hc
      have : q0 * B ≤ rt * B := mul_le_mul_of_nonneg_right (by linarith) (by linarith)
      have : (B - d) * (B - d) ≤ q0 * (B - d) := mul_le_mul_of_nonneg_right hq (by linarith)
      nlinarith
    · left
      by_contra hc
      have : (B - d) * B ≤ rt * B := mul_le_mul_of_nonneg_right (by linarith) (by linarith)
      have : q0 * d < (B - d) * d := mul_lt_mul_of_pos_right (by linarith) hd0
      nlinarith

end CB.Div
