/-
  CB.Lemmas.C02RecipMath — the error analysis of the 64-bit Möller–Granlund reciprocal Newton
  iteration, over `ℤ`, with every floor written as an explicit quotient/remainder pair.
  No machine arithmetic here: each step is an exact algebraic identity for the residual of the next
  approximation, followed by bounds.
-/
import Mathlib.Tactic.Ring
import Mathlib.Tactic.Linarith
import Mathlib.Tactic.NormNum
import Mathlib.Tactic.LinearCombination
import Mathlib.Tactic.Positivity
import Mathlib.Tactic.ByContra
namespace CB.Div.RecipMath

/-- Step `v0 → v1`.  `v0 = ⌊523520/d9⌋` (given by its two defining inequalities),
    `d40 ∈ (d9·2^31, (d9+1)·2^31]`, `v0²·d40 = 2^40·q1 + ρ`.  Then `v1 = 2^11·v0 − q1 − 1`
    has residual `r1 = 2^60 − v1·d40` with `0 < r1 < 2^43`. -/
theorem step1 {v0 d9 d40 q1 ρ : ℤ} (hd9l : 256 ≤ d9) (hd9u : d9 ≤ 511)
    (h1 : v0 * d9 ≤ 523520) (h2 : 523520 < v0 * d9 + d9)
    (hl : d9 * 2 ^ 31 < d40) (hu : d40 ≤ (d9 + 1) * 2 ^ 31)
    (ha : v0 * v0 * d40 = 2 ^ 40 * q1 + ρ) (hρ0 : 0 ≤ ρ) (hρ : ρ < 2 ^ 40) :
    0 < v0 ∧ v0 ≤ 2045 ∧ 0 ≤ q1 ∧ q1 + 1 ≤ 2 ^ 11 * v0 ∧
    0 < 2 ^ 60 - (2 ^ 11 * v0 - q1 - 1) * d40 ∧
    2 ^ 60 - (2 ^ 11 * v0 - q1 - 1) * d40 < 2 ^ 43 := by
  have hv0pos : 0 < v0 := by
    by_contra h
    have h' : v0 ≤ 0 := not_lt.mp h
    have : v0 * d9 ≤ 0 := mul_nonpos_of_nonpos_of_nonneg h' (by linarith)
    linarith
  have hv0u : v0 ≤ 2045 := by
    have : v0 * 256 ≤ v0 * d9 := mul_le_mul_of_nonneg_left hd9l hv0pos.le
    omega
  have hd40u : d40 ≤ 2 ^ 40 := by
    have : (d9 + 1) * 2 ^ 31 ≤ 512 * 2 ^ 31 := by
      apply mul_le_mul_of_nonneg_right (by linarith) (by norm_num)
    norm_num at this ⊢; linarith
  have hd40pos : 0 < d40 := by
    have : 0 ≤ d9 * 2 ^ 31 := by positivity
    linarith
  -- y = v0·d40 is within 1278·2^31 of 2^50
  have hyu : v0 * d40 ≤ 525565 * 2 ^ 31 := by
    have e1 : v0 * d40 ≤ v0 * ((d9 + 1) * 2 ^ 31) := mul_le_mul_of_nonneg_left hu hv0pos.le
    have e2 : v0 * ((d9 + 1) * 2 ^ 31) = (v0 * d9 + v0) * 2 ^ 31 := by ring
    have e3 : (v0 * d9 + v0) * 2 ^ 31 ≤ 525565 * 2 ^ 31 :=
      mul_le_mul_of_nonneg_right (by linarith) (by norm_num)
    linarith
  have hyl : 523010 * 2 ^ 31 ≤ v0 * d40 := by
    have e1 : v0 * (d9 * 2 ^ 31) ≤ v0 * d40 := mul_le_mul_of_nonneg_left hl.le hv0pos.le
    have e2 : v0 * (d9 * 2 ^ 31) = (v0 * d9) * 2 ^ 31 := by ring
    have e3 : (523010 : ℤ) * 2 ^ 31 ≤ (v0 * d9) * 2 ^ 31 :=
      mul_le_mul_of_nonneg_right (by linarith) (by norm_num)
    linarith
  have hsq : (2 ^ 50 - v0 * d40) ^ 2 ≤ (1278 * 2 ^ 31) ^ 2 := by
    apply sq_le_sq'
    · norm_num at hyu ⊢; linarith
    · norm_num at hyl ⊢; linarith
  -- the residual identity
  have hid : 2 ^ 40 * (2 ^ 60 - (2 ^ 11 * v0 - q1 - 1) * d40) =
      (2 ^ 50 - v0 * d40) ^ 2 + d40 * (2 ^ 40 - ρ) := by
    linear_combination (-d40) * ha
  have hq0 : 0 ≤ q1 := by
    have : 0 ≤ v0 * v0 * d40 := by positivity
    by_contra h
    have h' : q1 ≤ -1 := by omega
    nlinarith
  have hq1 : q1 + 1 ≤ 2 ^ 11 * v0 := by
    -- 2^40·q1 ≤ v0²·d40 ≤ v0²·2^40 ≤ 2045·v0·2^40
    have e1 : v0 * v0 * d40 ≤ v0 * v0 * 2 ^ 40 :=
      mul_le_mul_of_nonneg_left hd40u (by positivity)
    have e2 : v0 * v0 ≤ 2045 * v0 := mul_le_mul_of_nonneg_right hv0u hv0pos.le
    have e3 : 2 ^ 40 * q1 ≤ 2 ^ 40 * (2045 * v0) := by nlinarith
    have e4 : q1 ≤ 2045 * v0 := le_of_mul_le_mul_left e3 (by norm_num)
    linarith
  have hterm : 0 < d40 * (2 ^ 40 - ρ) := mul_pos hd40pos (by linarith)
  have hterm2 : d40 * (2 ^ 40 - ρ) ≤ 2 ^ 40 * 2 ^ 40 := by
    have : d40 * (2 ^ 40 - ρ) ≤ d40 * 2 ^ 40 := mul_le_mul_of_nonneg_left (by linarith) hd40pos.le
    have : d40 * 2 ^ 40 ≤ 2 ^ 40 * 2 ^ 40 := mul_le_mul_of_nonneg_right hd40u (by norm_num)
    linarith
  refine ⟨hv0pos, hv0u, hq0, hq1, ?_, ?_⟩
  · have : 0 < 2 ^ 40 * (2 ^ 60 - (2 ^ 11 * v0 - q1 - 1) * d40) := by
      rw [hid]; have := sq_nonneg (2 ^ 50 - v0 * d40); linarith
    norm_num at this ⊢; linarith
  · have : 2 ^ 40 * (2 ^ 60 - (2 ^ 11 * v0 - q1 - 1) * d40) < 2 ^ 40 * 2 ^ 43 := by
      rw [hid]; norm_num at hsq hterm2 ⊢; linarith
    exact lt_of_mul_lt_mul_left this (by norm_num)


/-- Step `v1 → v2`.  With `r1 = 2^60 − v1·d40`, `v1·r1 = 2^47·t + σ`, the next approximation
    `v2 = 2^13·v1 + t` has residual `r2 = 2^73 − v2·d40` with `2^47·r2 = r1² + σ·d40`. -/
theorem step2 {v1 d40 r1 t σ : ℤ} (hr1 : r1 = 2 ^ 60 - v1 * d40) (hr1p : 0 < r1) (hr1u : r1 < 2 ^ 43)
    (hdl : 2 ^ 39 < d40)
    (ht : v1 * r1 = 2 ^ 47 * t + σ) (hσ0 : 0 ≤ σ) (hσ : σ < 2 ^ 47) :
    0 < v1 ∧ v1 < 2 ^ 21 ∧ 0 ≤ t ∧ t < 2 ^ 17 ∧
    0 ≤ 2 ^ 47 * (2 ^ 73 - (2 ^ 13 * v1 + t) * d40) ∧
    2 ^ 47 * (2 ^ 73 - (2 ^ 13 * v1 + t) * d40) < 2 ^ 86 + 2 ^ 47 * d40 := by
  have hd40pos : 0 < d40 := by linarith [show (0:ℤ) < 2 ^ 39 by norm_num]
  have hv1p : 0 < v1 := by
    by_contra h
    have h' : v1 ≤ 0 := not_lt.mp h
    have : v1 * d40 ≤ 0 := mul_nonpos_of_nonpos_of_nonneg h' hd40pos.le
    norm_num at hr1u; linarith
  have hv1u : v1 < 2 ^ 21 := by
    by_contra h
    have h' : (2:ℤ) ^ 21 ≤ v1 := not_lt.mp h
    have e1 : (2:ℤ) ^ 21 * 2 ^ 39 ≤ v1 * d40 := mul_le_mul h' hdl.le (by norm_num) hv1p.le
    norm_num at e1; linarith
  have hid : 2 ^ 47 * (2 ^ 73 - (2 ^ 13 * v1 + t) * d40) = r1 ^ 2 + σ * d40 := by
    subst hr1; linear_combination d40 * ht
  have hprod : v1 * r1 < 2 ^ 21 * 2 ^ 43 := mul_lt_mul'' hv1u hr1u hv1p.le hr1p.le
  have ht0 : 0 ≤ t := by
    have : 0 ≤ v1 * r1 := by positivity
    by_contra h
    have h' : t ≤ -1 := by omega
    linarith
  have htu : t < 2 ^ 17 := by
    by_contra h
    have h' : (2:ℤ) ^ 17 ≤ t := not_lt.mp h
    norm_num at hprod h' ⊢; linarith
  have hsq : r1 ^ 2 < (2 ^ 43) ^ 2 := by
    apply sq_lt_sq' <;> linarith
  have hs1 : 0 ≤ σ * d40 := by positivity
  have hs2 : σ * d40 ≤ 2 ^ 47 * d40 := mul_le_mul_of_nonneg_right hσ.le hd40pos.le
  refine ⟨hv1p, hv1u, ht0, htu, ?_, ?_⟩
  · rw [hid]; positivity
  · rw [hid]; norm_num at hsq ⊢; linarith

/-- From the `d40`-residual to the `d`-residual: `d = 2^24·d40 − c` with `1 ≤ c ≤ 2^24`. -/
theorem step3 {v2 d40 d c : ℤ} (hd : d = 2 ^ 24 * d40 - c) (hc1 : 1 ≤ c) (hc2 : c ≤ 2 ^ 24)
    (hdl : 2 ^ 39 < d40) (hv2 : 2 ≤ v2)
    (h0 : 0 ≤ 2 ^ 47 * (2 ^ 73 - v2 * d40))
    (h1 : 2 ^ 47 * (2 ^ 73 - v2 * d40) < 2 ^ 86 + 2 ^ 47 * d40) :
    v2 < 2 ^ 34 ∧ 2 ≤ 2 ^ 97 - v2 * d ∧ 2 ^ 97 - v2 * d < d + (2 ^ 63 + 2 ^ 59) := by
  have hv2u : v2 < 2 ^ 34 := by
    by_contra h
    have h' : (2:ℤ) ^ 34 ≤ v2 := not_lt.mp h
    have e1 : (2:ℤ) ^ 34 * 2 ^ 39 < v2 * d40 :=
      mul_lt_mul' h' hdl (by norm_num) (by linarith)
    norm_num at e1 h0; linarith
  have hid : 2 ^ 23 * (2 ^ 97 - v2 * d) = 2 ^ 47 * (2 ^ 73 - v2 * d40) + 2 ^ 23 * (v2 * c) := by
    subst hd; ring
  have hvc1 : 2 * 1 ≤ v2 * c := mul_le_mul hv2 hc1 (by norm_num) (by linarith)
  have hvc2 : v2 * c ≤ 2 ^ 34 * 2 ^ 24 := mul_le_mul hv2u.le hc2 (by linarith) (by norm_num)
  refine ⟨hv2u, ?_, ?_⟩
  · have : 2 ^ 23 * 2 ≤ 2 ^ 23 * (2 ^ 97 - v2 * d) := by rw [hid]; linarith
    exact le_of_mul_le_mul_left this (by norm_num)
  · have : 2 ^ 23 * (2 ^ 97 - v2 * d) < 2 ^ 23 * (d + (2 ^ 63 + 2 ^ 59)) := by
      rw [hid, hd]; norm_num at hvc2 h1 ⊢; linarith
    exact lt_of_mul_lt_mul_left this (by norm_num)

/-- Step `v2 → v3`.  `R2 = 2^97 − v2·d`, `2e = R2 − s` (`s ∈ {0,1}`), `v2·e = 2^65·u + τ`;
    `V3 = 2^31·v2 + u` satisfies `1 ≤ 2^128 − V3·d ≤ 2d`. -/
theorem step4 {v2 d R2 s e u τ : ℤ} (hR : R2 = 2 ^ 97 - v2 * d) (he : 2 * e = R2 - s)
    (hs0 : 0 ≤ s) (hs1 : s ≤ 1) (hu : v2 * e = 2 ^ 65 * u + τ) (hτ0 : 0 ≤ τ) (hτ : τ < 2 ^ 65)
    (hdl : 2 ^ 63 ≤ d) (hdu : d < 2 ^ 64) (hR2l : 2 ≤ R2) (hR2u : R2 < d + (2 ^ 63 + 2 ^ 59)) :
    1 ≤ 2 ^ 128 - (2 ^ 31 * v2 + u) * d ∧ 2 ^ 128 - (2 ^ 31 * v2 + u) * d ≤ 2 * d := by
  have hid : 2 ^ 66 * (2 ^ 128 - (2 ^ 31 * v2 + u) * d) = 2 ^ 97 * s + R2 * (R2 - s) + 2 * τ * d := by
    have hs : s = R2 - 2 * e := by linarith
    subst hs; subst hR; linear_combination (2 * d) * hu
  have hdpos : 0 < d := by linarith [show (0:ℤ) < 2 ^ 63 by norm_num]
  have hRR : 0 < R2 * (R2 - s) := mul_pos (by linarith) (by linarith)
  have hRRu : R2 * (R2 - s) ≤ (d + (2 ^ 63 + 2 ^ 59)) * (d + (2 ^ 63 + 2 ^ 59)) :=
    mul_le_mul hR2u.le (by linarith) (by linarith) (by linarith)
  have hτd0 : 0 ≤ 2 * τ * d := by positivity
  have hτd : 2 * τ * d ≤ 2 * (2 ^ 65 - 1) * d :=
    mul_le_mul_of_nonneg_right (by linarith) hdpos.le
  have hquad : 0 ≤ (d - 2 ^ 63) * (2 ^ 64 - d) := mul_nonneg (by linarith) (by linarith)
  constructor
  · have : 0 < 2 ^ 66 * (2 ^ 128 - (2 ^ 31 * v2 + u) * d) := by
      rw [hid]; have : 0 ≤ 2 ^ 97 * s := by positivity
      linarith
    have h2 : 0 < 2 ^ 128 - (2 ^ 31 * v2 + u) * d := by
      norm_num at this ⊢; linarith
    linarith
  · have : 2 ^ 66 * (2 ^ 128 - (2 ^ 31 * v2 + u) * d) ≤ 2 ^ 66 * (2 * d) := by
      rw [hid]
      have : 2 ^ 97 * s ≤ 2 ^ 97 * 1 := mul_le_mul_of_nonneg_left hs1 (by norm_num)
      nlinarith
    exact le_of_mul_le_mul_left this (by norm_num)

/-- The final adjustment step: if `V3` under-estimates `T = ⌊(2^128−1)/d⌋` by at most one, then
    `⌊(V3+1)·d/2^64⌋` is `2^64` (exact) or `2^64 − 1` (one short), which is exactly the correction. -/
theorem final {V3 d : ℕ} (hdl : 2 ^ 63 ≤ d) (hdu : d < 2 ^ 64)
    (h1 : V3 * d + 1 ≤ 2 ^ 128) (h2 : 2 ^ 128 ≤ V3 * d + 2 * d) :
    2 ^ 64 ≤ V3 ∧ V3 < 2 ^ 65 ∧
    (((V3 + 1) * d / 2 ^ 64 = 2 ^ 64 ∧ (2 ^ 128 - 1) / d = V3) ∨
     ((V3 + 1) * d / 2 ^ 64 = 2 ^ 64 - 1 ∧ (2 ^ 128 - 1) / d = V3 + 1)) := by
  have hdpos : 0 < d := by omega
  have hV3l : 2 ^ 64 ≤ V3 := by
    by_contra h
    have h' : V3 + 2 ≤ 2 ^ 64 + 1 := by omega
    have : (V3 + 2) * d ≤ (2 ^ 64 + 1) * (2 ^ 64 - 1) := Nat.mul_le_mul h' (by omega)
    have e : (V3 + 2) * d = V3 * d + 2 * d := by ring
    omega
  have hV3u : V3 < 2 ^ 65 := by
    by_contra h
    have h' : 2 ^ 65 ≤ V3 := by omega
    have : 2 ^ 65 * 2 ^ 63 ≤ V3 * d := Nat.mul_le_mul h' hdl
    omega
  refine ⟨hV3l, hV3u, ?_⟩
  have e1 : (V3 + 1) * d = V3 * d + d := by ring
  have e2 : (V3 + 1 + 1) * d = V3 * d + 2 * d := by ring
  by_cases hc : 2 ^ 128 ≤ V3 * d + d
  · left
    constructor
    · apply Nat.div_eq_of_lt_le <;> omega
    · apply Nat.div_eq_of_lt_le <;> omega
  · right
    constructor
    · apply Nat.div_eq_of_lt_le <;> omega
    · apply Nat.div_eq_of_lt_le <;> omega

end CB.Div.RecipMath
