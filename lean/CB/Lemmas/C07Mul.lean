/-
  CB.Lemmas.C07Mul — `mac_by_limb` and the HAC 14.47 reduction of `mul_mod_special`.
-/
import Mathlib.Tactic.Ring
import Mathlib.Tactic.Linarith
import CB.Lemmas.C07
namespace CB.ModArith
open CB

theorem macByLimb_cons (a b c carry : Nat) (as bs : List Nat) :
    macByLimb (a :: as) (b :: bs) c carry =
      ((mac a b c carry).1 :: (macByLimb as bs c (mac a b c carry).2).1,
       (macByLimb as bs c (mac a b c carry).2).2) := rfl

/-- `mac_by_limb(a, b, c, carry)` is exact: `a + b·c + carry` with a one-limb carry out. -/
theorem macByLimb_spec {a b : List Nat} {c carry : Nat} (ha : WF a) (hb : WF b)
    (h : a.length = b.length) (hc : c < B) (hk : carry < B) :
    val (macByLimb a b c carry).1 + B ^ a.length * (macByLimb a b c carry).2
      = val a + val b * c + carry ∧
    (macByLimb a b c carry).2 < B ∧ WF (macByLimb a b c carry).1 ∧
    (macByLimb a b c carry).1.length = a.length := by
  induction a generalizing b carry with
  | nil =>
    cases b with
    | nil => exact ⟨by simp [macByLimb], by simpa [macByLimb] using hk, WF_nil, rfl⟩
    | cons _ _ => simp at h
  | cons x xs ih =>
    cases b with
    | nil => simp at h
    | cons y ys =>
      have hl : xs.length = ys.length := by simpa using h
      have ⟨hx, hxs⟩ := WF_cons.mp ha
      have ⟨hy, hys⟩ := WF_cons.mp hb
      have ⟨m1, m2, m3⟩ := mac_spec hx hy hc hk
      have ⟨i1, i2, i3, i4⟩ := ih hxs hys hl m3
      rw [macByLimb_cons]
      simp only [val_cons, List.length_cons, Nat.pow_succ]
      refine ⟨?_, i2, WF_cons.mpr ⟨m2, i3⟩, by rw [i4]⟩
      rw [Nat.mul_comm (B ^ xs.length) B, Nat.mul_assoc]
      have e := congrArg (B * ·) i1
      simp only [Nat.mul_add] at e
      have h4 : (y + B * val ys) * c = y * c + B * (val ys * c) := by ring
      omega

theorem Bsq_le_pow {n : Nat} (hn : 2 ≤ n) : B * B ≤ B ^ n := by
  have := Nat.pow_le_pow_right B_pos hn
  rwa [Nat.pow_two] at this

/-- The reduction step of `mul_mod_special` (increment in the wide type) is correct for ANY
    double-width input `(lo, hi)` and any `1 ≤ c < 2^64`, for all limb counts `≥ 2`. -/
theorem specialReduce_spec {lo hi : List Nat} {c : Nat} (hlo : WF lo) (hhi : WF hi)
    (h : lo.length = hi.length) (hn : 2 ≤ lo.length) (hc1 : 1 ≤ c) (hc : c < B) :
    val (specialReduce lo hi c) = (val lo + B ^ lo.length * val hi) % (B ^ lo.length - c) ∧
    WF (specialReduce lo hi c) ∧ (specialReduce lo hi c).length = lo.length := by
  have ⟨e1, hq, hmw, hml⟩ := macByLimb_spec hlo hhi h hc (show 0 < B by decide)
  have hvlo := val_lt hlo
  have hvhi := val_lt hhi; rw [← h] at hvhi
  have hvm := val_lt hmw; rw [hml] at hvm
  have hKK := Bsq_le_pow hn
  have hBc : (c + 1) * (c + 1) ≤ B * B := Nat.mul_le_mul (by omega) (by omega)
  -- name the pieces
  generalize hqd : (macByLimb lo hi c 0).2 = q at *
  generalize hm1 : (macByLimb lo hi c 0).1 = m at *
  have hd : specialReduce lo hi c =
      (usbb (uadc m (fromWideWord lo.length ((q + 1) * c)) 0).1
        (fromWord lo.length (wsub (uadc m (fromWideWord lo.length ((q + 1) * c)) 0).2 1 &&& c)) 0).1 := by
    show (usbb (uadc (macByLimb lo hi c 0).1 (fromWideWord lo.length (((macByLimb lo hi c 0).2 + 1) * c)) 0).1
        (fromWord lo.length (wsub (uadc (macByLimb lo hi c 0).1
          (fromWideWord lo.length (((macByLimb lo hi c 0).2 + 1) * c)) 0).2 1 &&& c)) 0).1 = _
    rw [hqd, hm1]
  -- q ≤ c
  have hqc : q ≤ c := by
    have h1 : val hi * c ≤ B ^ lo.length * c := Nat.mul_le_mul_right c (Nat.le_of_lt hvhi)
    have h2 : B ^ lo.length * q < B ^ lo.length * (c + 1) := by rw [Nat.mul_add]; omega
    exact Nat.le_of_lt_succ (Nat.lt_of_mul_lt_mul_left h2)
  have hqcc : q * c ≤ c * c := Nat.mul_le_mul_right c hqc
  have hcc : c * c + 2 * c + 1 ≤ B ^ lo.length := by
    have : (c + 1) * (c + 1) = c * c + 2 * c + 1 := by ring
    omega
  have hrhs : (q + 1) * c = q * c + c := by ring
  have hrhsB : (q + 1) * c < B * B := by
    have : (q + 1) * c ≤ (c + 1) * c := Nat.mul_le_mul_right c (by omega)
    have : (c + 1) * c < (c + 1) * (c + 1) := Nat.mul_lt_mul_of_pos_left (by omega) (by omega)
    omega
  have hvr := val_fromWideWord (n := lo.length) hn hrhsB
  have hlr := fromWideWord_length ((q + 1) * c) hn
  have hlen1 : m.length = (fromWideWord lo.length ((q + 1) * c)).length := by rw [hml, hlr]
  have hs : val m + val (fromWideWord lo.length ((q + 1) * c)) + 0 < 2 * B ^ m.length := by
    rw [hvr, hml]; omega
  have hl2 := uadc_length m (fromWideWord lo.length ((q + 1) * c)) 0 hlen1
  have hw2 := uadc_WF m (fromWideWord lo.length ((q + 1) * c)) 0
  have hnpos : 0 < lo.length := by omega
  have ⟨w0, w1⟩ := wsub_one_table
  have hlen2 : ∀ l, (uadc m (fromWideWord lo.length ((q + 1) * c)) 0).1.length
      = (fromWord lo.length l).length := by intro l; rw [hl2, hml, fromWord_length]
  -- the value before the final modular identification
  have hu : val (specialReduce lo hi c) = (val m + q * c) % (B ^ lo.length - c) := by
    rw [hd]
    rcases uadc_val_cases hlen1 hs with ⟨h0, hv, hlt⟩ | ⟨h1, hv⟩
    · rw [h0, w0, WMAX_and hc]
      have := wrappingSub_val hw2 (fromWord_WF hc) (hlen2 c)
      unfold wrappingSub at this
      rw [this, hl2, hml, val_fromWord hnpos, hv, hvr]
      rw [hvr, hml] at hlt
      have e3 : val m + (q + 1) * c + 0 + B ^ lo.length - c = (val m + q * c) + B ^ lo.length := by omega
      rw [e3, Nat.add_mod_right, Nat.mod_eq_of_lt (by omega), Nat.mod_eq_of_lt (by omega)]
    · rw [h1, w1, Nat.zero_and]
      have := wrappingSub_val hw2 (fromWord_WF (show (0:Nat) < B by decide)) (hlen2 0)
      unfold wrappingSub at this
      rw [this, hl2, hml, val_fromWord hnpos]
      have hlt2 := val_lt hw2; rw [hl2, hml] at hlt2
      rw [hvr, hml] at hv
      rw [Nat.sub_zero, Nat.add_mod_right, Nat.mod_eq_of_lt hlt2,
        mod_of_lt_two (by omega), if_neg (by omega)]
      omega
  refine ⟨?_, ?_, ?_⟩
  · rw [hu]
    obtain ⟨p, hp⟩ : ∃ p, B ^ lo.length = p + c := ⟨B ^ lo.length - c, by omega⟩
    have hpc : B ^ lo.length - c = p := by omega
    have e1' : val m + (p + c) * q = val lo + val hi * c := by rw [← hp]; omega
    rw [hpc, hp]
    have e2 : val lo + (p + c) * val hi = (val lo + val hi * c) + p * val hi := by ring
    have e3 : val lo + val hi * c = (val m + q * c) + p * q := by
      have : (p + c) * q = q * c + p * q := by ring
      omega
    rw [e2, Nat.add_mul_mod_self_left, e3, Nat.add_mul_mod_self_left]
  · rw [hd]; exact usbb_WF _ _ _
  · rw [hd, usbb_length _ _ _ (hlen2 _), hl2, hml]

/-- the carry limb of `lo + hi·c` never exceeds `c` -/
theorem macByLimb_carry_le {lo hi : List Nat} {c : Nat} (hlo : WF lo) (hhi : WF hi)
    (h : lo.length = hi.length) (hc : c < B) : (macByLimb lo hi c 0).2 ≤ c := by
  have ⟨e1, _, hmw, hml⟩ := macByLimb_spec hlo hhi h hc (show 0 < B by decide)
  have hvlo := val_lt hlo
  have hvhi := val_lt hhi; rw [← h] at hvhi
  have h1 : val hi * c ≤ B ^ lo.length * c := Nat.mul_le_mul_right c (Nat.le_of_lt hvhi)
  have h2 : B ^ lo.length * (macByLimb lo hi c 0).2 < B ^ lo.length * (c + 1) := by
    rw [Nat.mul_add]; omega
  exact Nat.le_of_lt_succ (Nat.lt_of_mul_lt_mul_left h2)

/-- the double-width product split into two `n`-limb halves (what `split_mul` returns: C03) -/
theorem split_product {a b : List Nat} (ha : WF a) (hb : WF b) (h : a.length = b.length) :
    val (toLimbs a.length (val a * val b))
      + B ^ a.length * val (toLimbs a.length (val a * val b / B ^ a.length)) = val a * val b := by
  have hva := val_lt ha
  have hvb := val_lt hb; rw [← h] at hvb
  have hlt : val a * val b < B ^ a.length * B ^ a.length := Nat.mul_lt_mul'' hva hvb
  rw [val_toLimbs, val_toLimbs, Nat.mod_eq_of_lt (Nat.div_lt_of_lt_mul hlt)]
  exact Nat.mod_add_div _ _

end CB.ModArith
