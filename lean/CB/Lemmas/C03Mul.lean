/-
  CB.Lemmas.C03Mul — value equations of the multiply-accumulate rows, schoolbook multiplication
  and schoolbook squaring (helper lemmas of property C03).
-/
import CB.Lemmas.Chains
import CB.Model.Mul
import Mathlib.Tactic.LinearCombination
import Mathlib.Tactic.Ring
namespace CB.Mul

theorem val_append (a b : List Nat) : val (a ++ b) = val a + B ^ a.length * val b := by
  induction a with
  | nil => simp
  | cons x xs ih =>
    simp only [List.cons_append, val_cons, ih, List.length_cons]
    ring

theorem WF_append {a b : List Nat} : WF (a ++ b) ↔ WF a ∧ WF b := by
  constructor
  · intro h
    exact ⟨fun x hx => h x (List.mem_append_left _ hx), fun x hx => h x (List.mem_append_right _ hx)⟩
  · intro ⟨h1, h2⟩ x hx
    rcases List.mem_append.mp hx with h | h
    · exact h1 x h
    · exact h2 x h

/-- decidable form of `WF` for concrete examples -/
theorem wf_of_all (l : List Nat) (h : l.all (fun x => decide (x < B)) = true) : WF l := by
  intro x hx
  have := List.all_eq_true.mp h x hx
  simpa using this

theorem uzero_length (n : Nat) : (uzero n).length = n := by simp [uzero]
theorem uzero_succ (n : Nat) : uzero (n + 1) = 0 :: uzero n := by simp [uzero, List.replicate_succ]
theorem uzero_succ' (n : Nat) : uzero (n + 1) = uzero n ++ [0] := by
  simp [uzero, List.replicate_succ']

/-! ### mac rows -/

theorem macRow_cons (xi o y c : Nat) (os ys : List Nat) :
    macRow xi (o :: os) (y :: ys) c =
      ((mac o xi y c).1 :: (macRow xi os ys (mac o xi y c).2).1, (macRow xi os ys (mac o xi y c).2).2) := rfl

/-- one mac row is exact: `w' + B^m·carry = w + xi·ys + c`, carry is a word -/
theorem macRow_spec {xi : Nat} (hxi : xi < B) (w ys : List Nat) (c : Nat)
    (hw : WF w) (hy : WF ys) (hc : c < B) (hl : w.length = ys.length) :
    val (macRow xi w ys c).1 + B ^ w.length * (macRow xi w ys c).2 = val w + xi * val ys + c ∧
    WF (macRow xi w ys c).1 ∧ (macRow xi w ys c).2 < B ∧ (macRow xi w ys c).1.length = w.length := by
  induction w generalizing ys c with
  | nil =>
    cases ys with
    | nil => simp [macRow, hc, WF_nil]
    | cons _ _ => simp at hl
  | cons o os ih =>
    cases ys with
    | nil => simp at hl
    | cons y ys =>
      have ⟨ho, hos⟩ := WF_cons.mp hw
      have ⟨hy1, hys⟩ := WF_cons.mp hy
      have ⟨m1, m2, m3⟩ := mac_spec ho hxi hy1 hc
      have ⟨i1, i2, i3, i4⟩ := ih ys (mac o xi y c).2 hos hys m3 (by simpa using hl)
      rw [macRow_cons]
      refine ⟨?_, WF_cons.mpr ⟨m2, i2⟩, i3, by simp [i4]⟩
      simp only [val_cons, List.length_cons]
      linear_combination m1 + B * i1

theorem macRowSet_cons (xi o y c : Nat) (os ys : List Nat) :
    macRowSet xi (o :: os) (y :: ys) c = (mac o xi y c).1 :: macRowSet xi os ys (mac o xi y c).2 := rfl

/-- the row of the schoolbook loops = mac row over the window, then the carry OVERWRITES the next limb -/
theorem macRowSet_eq (xi : Nat) (w ys : List Nat) (t : Nat) (rest : List Nat) (c : Nat)
    (hl : w.length = ys.length) :
    macRowSet xi (w ++ t :: rest) ys c = (macRow xi w ys c).1 ++ (macRow xi w ys c).2 :: rest := by
  induction w generalizing ys c with
  | nil =>
    cases ys with
    | nil => simp [macRowSet, macRow]
    | cons _ _ => simp at hl
  | cons o os ih =>
    cases ys with
    | nil => simp at hl
    | cons y ys =>
      simp only [List.cons_append, macRowSet_cons, macRow_cons]
      rw [ih ys _ (by simpa using hl)]

/-! ### schoolbook multiplication -/

theorem schoolRows_cons (x : Nat) (xs ys out : List Nat) :
    schoolRows (x :: xs) ys out =
      match macRowSet x out ys 0 with
      | [] => []
      | o :: os => o :: schoolRows xs ys os := rfl

/-- rows of `schoolbook_multiplication` on a buffer `w ++ 0…0` (`w` = window of `|ys|` limbs):
    the result is `w + xs·ys`, for all lengths. -/
theorem schoolRows_spec (xs ys w : List Nat) (hx : WF xs) (hy : WF ys) (hw : WF w)
    (hl : w.length = ys.length) :
    val (schoolRows xs ys (w ++ uzero xs.length)) = val w + val xs * val ys ∧
    WF (schoolRows xs ys (w ++ uzero xs.length)) ∧
    (schoolRows xs ys (w ++ uzero xs.length)).length = ys.length + xs.length := by
  induction xs generalizing w with
  | nil => simp [schoolRows, uzero, hw, hl]
  | cons x xs ih =>
    have ⟨hx1, hxs⟩ := WF_cons.mp hx
    have ⟨r1, r2, r3, r4⟩ := macRow_spec hx1 w ys 0 hw hy (by decide) hl
    rw [schoolRows_cons, List.length_cons, uzero_succ, macRowSet_eq x w ys 0 _ 0 hl]
    -- split the (m+1)-limb block `w' ++ [c]` as head :: tail
    rcases hm : macRow x w ys 0 with ⟨w', c'⟩
    rw [hm] at r1 r2 r3 r4
    simp only at r1 r2 r3 r4 ⊢
    cases w' with
    | nil =>
      -- m = 0: the block is just [c'], and c' = val w + 0 + 0
      have hwn : w = [] := List.eq_nil_of_length_eq_zero (by simpa using r4.symm)
      subst hwn
      have hys : ys = [] := List.eq_nil_of_length_eq_zero (by simpa using hl.symm)
      subst hys
      simp only [val_nil, List.length_nil, Nat.pow_zero, Nat.one_mul, Nat.mul_zero,
        Nat.add_zero, Nat.zero_add] at r1
      have ⟨j1, j2, j3⟩ := ih [] hxs WF_nil rfl
      simp only [List.nil_append] at j1 j2 j3 ⊢
      refine ⟨?_, WF_cons.mpr ⟨by omega, j2⟩, by simp only [List.length_cons, j3]; simp⟩
      simp only [val_cons, j1, val_nil, r1]
      ring
    | cons o t =>
      have ⟨ho, ht⟩ := WF_cons.mp r2
      have hwt : WF (t ++ [c']) := WF_append.mpr ⟨ht, WF_cons.mpr ⟨r3, WF_nil⟩⟩
      have hlen : t.length + 1 = w.length := by simpa using r4
      have hlt : (t ++ [c']).length = ys.length := by
        simp only [List.length_append, List.length_cons, List.length_nil]; omega
      have ⟨j1, j2, j3⟩ := ih (t ++ [c']) hxs hwt hlt
      have e : (o :: t) ++ c' :: uzero xs.length = o :: ((t ++ [c']) ++ uzero xs.length) := by simp
      rw [e]
      refine ⟨?_, WF_cons.mpr ⟨ho, j2⟩, by simp only [List.length_cons, j3]; omega⟩
      simp only [val_cons, j1, val_append, val_nil] at r1 ⊢
      rw [← hlen] at r1
      simp only [Nat.mul_zero, Nat.add_zero] at r1 ⊢
      linear_combination r1

/-- `schoolbook_multiplication` on zeroed buffers: all `|x| + |y|` limbs of the exact product. -/
theorem schoolbookMul_spec (x y : List Nat) (hx : WF x) (hy : WF y) :
    val (schoolbookMul x y) = val x * val y ∧ WF (schoolbookMul x y) ∧
    (schoolbookMul x y).length = x.length + y.length := by
  have e : uzero (x.length + y.length) = uzero y.length ++ uzero x.length := by
    simp [uzero, List.replicate_append_replicate, Nat.add_comm]
  have ⟨h1, h2, h3⟩ := schoolRows_spec x y (uzero y.length) hx hy (uzero_WF _) (uzero_length _)
  unfold schoolbookMul
  rw [e]
  refine ⟨by rw [h1, val_uzero]; ring, h2, by rw [h3]; omega⟩

/-! ### splitting a limb list at `n` -/

theorem val_take_drop (l : List Nat) (n : Nat) :
    val l = val (l.take n) + B ^ (min n l.length) * val (l.drop n) := by
  conv => lhs; rw [← List.take_append_drop n l]
  rw [val_append, List.length_take]

theorem WF_take {l : List Nat} (h : WF l) (n : Nat) : WF (l.take n) :=
  fun x hx => h x (List.mem_of_mem_take hx)
theorem WF_drop {l : List Nat} (h : WF l) (n : Nat) : WF (l.drop n) :=
  fun x hx => h x (List.mem_of_mem_drop hx)

/-- `lo = p mod B^n`, `hi = p / B^n` for a well-formed list of at least `n` limbs -/
theorem take_drop_divmod {l : List Nat} (h : WF l) {n : Nat} (hn : n ≤ l.length) :
    val (l.take n) = val l % B ^ n ∧ val (l.drop n) = val l / B ^ n := by
  have e := val_take_drop l n
  rw [Nat.min_eq_left hn] at e
  have hlt : val (l.take n) < B ^ n := by
    have := val_lt (WF_take h n); rwa [List.length_take, Nat.min_eq_left hn] at this
  have hK : 0 < B ^ n := Nat.pow_pos B_pos
  rw [e]
  constructor
  · rw [Nat.add_mul_mod_self_left, Nat.mod_eq_of_lt hlt]
  · rw [Nat.add_mul_div_left _ _ hK, Nat.div_eq_of_lt hlt, Nat.zero_add]

/-! ### schoolbook squaring -/

/-- off-diagonal half of the multiplication grid: `Σ_{s<t} x_s·x_t·B^(s+t)` -/
def sqTri : List Nat → Nat
  | [] => 0
  | x :: xs => x * val xs * B + B ^ 2 * sqTri xs

/-- the diagonal: `Σ x_t²·B^(2t)` -/
def sqDiag : List Nat → Nat
  | [] => 0
  | x :: xs => x * x + B ^ 2 * sqDiag xs

theorem sq_identity (l : List Nat) : val l * val l = 2 * sqTri l + sqDiag l := by
  induction l with
  | nil => simp [sqTri, sqDiag]
  | cons x xs ih =>
    simp only [val_cons, sqTri, sqDiag]
    linear_combination B ^ 2 * ih

theorem sqRows_cons (pre : List Nat) (xi : Nat) (rest out : List Nat) :
    sqRows pre (xi :: rest) out =
      match macRowSet xi out pre 0 with
      | [] => []
      | o :: os => o :: sqRows (pre ++ [xi]) rest os := rfl

/-- first loop of `schoolbook_squaring` from row `i = |pre|` on.  The buffer from position `i` is
    `w0 ++ [0] ++ 0…0` (the window of `i` limbs ends in a limb not yet written).  The result keeps an
    untouched zero top limb and holds `w0 + pre·rest + B^i·tri(rest)`. -/
theorem sqRows_spec (rest pre w0 : List Nat) (hp : WF pre) (hr : WF rest) (hw : WF w0)
    (hl : w0.length + 1 = pre.length) :
    ∃ r, sqRows pre rest ((w0 ++ [0]) ++ uzero (2 * rest.length)) = r ++ [0] ∧
      val r = val w0 + val pre * val rest + B ^ pre.length * sqTri rest ∧ WF r ∧
      r.length = w0.length + 2 * rest.length := by
  induction rest generalizing pre w0 with
  | nil =>
    refine ⟨w0, by simp [sqRows, uzero], by simp [sqTri], hw, by simp⟩
  | cons xi rest ih =>
    have ⟨hxi, hrest⟩ := WF_cons.mp hr
    have hw' : WF (w0 ++ [0]) := WF_append.mpr ⟨hw, WF_cons.mpr ⟨by decide, WF_nil⟩⟩
    have hlw : (w0 ++ [0]).length = pre.length := by simp [hl]
    have ⟨r1, r2, r3, r4⟩ := macRow_spec hxi (w0 ++ [0]) pre 0 hw' hp (by decide) hlw
    have e0 : uzero (2 * (xi :: rest).length) = 0 :: (0 :: uzero (2 * rest.length)) := by
      rw [List.length_cons, Nat.mul_add, Nat.mul_one, uzero_succ, uzero_succ]
    rw [sqRows_cons, e0, macRowSet_eq xi (w0 ++ [0]) pre 0 _ 0 hlw]
    rcases hm : macRow xi (w0 ++ [0]) pre 0 with ⟨w', c'⟩
    rw [hm] at r1 r2 r3 r4
    simp only at r1 r2 r3 r4 ⊢
    cases w' with
    | nil => simp at r4
    | cons o t =>
      have ⟨ho, ht⟩ := WF_cons.mp r2
      have hwt : WF (t ++ [c']) := WF_append.mpr ⟨ht, WF_cons.mpr ⟨r3, WF_nil⟩⟩
      have hlen : t.length = w0.length := by simpa using r4
      have hpx : WF (pre ++ [xi]) := WF_append.mpr ⟨hp, WF_cons.mpr ⟨hxi, WF_nil⟩⟩
      have ⟨r', j1, j2, j3, j4⟩ := ih (pre ++ [xi]) (t ++ [c']) hpx hrest hwt (by simp [hlen, hl])
      have e : (o :: t) ++ c' :: (0 :: uzero (2 * rest.length))
          = o :: (((t ++ [c']) ++ [0]) ++ uzero (2 * rest.length)) := by simp
      rw [e]
      simp only
      rw [j1]
      refine ⟨o :: r', by simp, ?_, WF_cons.mpr ⟨ho, j3⟩, ?_⟩
      · simp only [val_cons, j2, val_append, val_nil, List.length_append, List.length_cons,
          List.length_nil, sqTri] at r1 ⊢
        have hp1 : pre.length = w0.length + 1 := hl.symm
        rw [hp1, hlen]
        simp only [Nat.mul_zero, Nat.add_zero, Nat.zero_add] at r1 ⊢
        linear_combination r1
      · simp only [List.length_cons, j4, List.length_append, List.length_nil, hlen]; omega

theorem shl_or_carry {l c : Nat} (hc : c ≤ 1) : ((l * 2) % B ||| c) = (l * 2) % B + c := by
  have hcc : c = 0 ∨ c = 1 := by omega
  rcases hcc with h | h
  · subst h; simp
  · subst h
    have hev : (l * 2) % B = ((l * 2) % B / 2) * 2 := by simp only [B_def]; omega
    have := @Nat.shiftLeft_add_eq_or_of_lt 1 1 (by decide) ((l * 2) % B / 2)
    simp only [Nat.shiftLeft_eq, Nat.pow_one] at this
    rw [← hev] at this
    exact this.symm

/-- the doubling pass is a left shift by one bit with the running carry -/
theorem shl1Loop_spec (l : List Nat) (c : Nat) (hl : WF l) (hc : c ≤ 1) :
    val (shl1Loop l c).1 + B ^ l.length * (shl1Loop l c).2 = 2 * val l + c ∧
    WF (shl1Loop l c).1 ∧ (shl1Loop l c).2 ≤ 1 ∧ (shl1Loop l c).1.length = l.length := by
  induction l generalizing c with
  | nil => simp [shl1Loop, hc, WF_nil]
  | cons x xs ih =>
    have ⟨hx, hxs⟩ := WF_cons.mp hl
    have hc' : x / HALF ≤ 1 := by simp only [HALF_def, B_def] at *; omega
    have ⟨i1, i2, i3, i4⟩ := ih (x / HALF) hxs hc'
    simp only [shl1Loop, val_cons, List.length_cons]
    rw [shl_or_carry hc]
    have hlt : (x * 2) % B + c < B := by simp only [B_def] at *; omega
    refine ⟨?_, WF_cons.mpr ⟨hlt, i2⟩, i3, by rw [i4]⟩
    have hsplit : (x * 2) % B + B * (x / HALF) = 2 * x := by
      simp only [HALF_def, B_def] at *; omega
    linear_combination hsplit + B * i1

theorem sqDiagLoop_cons (x o0 o1 c : Nat) (xs os : List Nat) :
    sqDiagLoop (x :: xs) (o0 :: o1 :: os) c =
      ((mac o0 x x c).1 :: (overflowingAdd o1 (mac o0 x x c).2).1 ::
          (sqDiagLoop xs os (overflowingAdd o1 (mac o0 x x c).2).2).1,
        (sqDiagLoop xs os (overflowingAdd o1 (mac o0 x x c).2).2).2) := rfl

/-- the diagonal loop adds `Σ x_t²·B^(2t)` (and the carry-in) exactly -/
theorem sqDiagLoop_spec (xs out : List Nat) (c : Nat) (hx : WF xs) (ho : WF out) (hc : c ≤ 1)
    (hl : out.length = 2 * xs.length) :
    val (sqDiagLoop xs out c).1 + B ^ out.length * (sqDiagLoop xs out c).2 = val out + sqDiag xs + c ∧
    WF (sqDiagLoop xs out c).1 ∧ (sqDiagLoop xs out c).2 ≤ 1 ∧
    (sqDiagLoop xs out c).1.length = out.length := by
  induction xs generalizing out c with
  | nil =>
    have : out = [] := List.eq_nil_of_length_eq_zero (by simpa using hl)
    subst this
    simp [sqDiagLoop, sqDiag, hc, WF_nil]
  | cons x xs ih =>
    match out, hl with
    | o0 :: o1 :: os, hl =>
      have ⟨hx1, hxs⟩ := WF_cons.mp hx
      have ⟨ho0, ho'⟩ := WF_cons.mp ho
      have ⟨ho1, hos⟩ := WF_cons.mp ho'
      have hcB : c < B := by simp only [B_def]; omega
      have ⟨m1, m2, m3⟩ := mac_spec ho0 hx1 hx1 hcB
      have a1 : (overflowingAdd o1 (mac o0 x x c).2).1 + B * (overflowingAdd o1 (mac o0 x x c).2).2
          = o1 + (mac o0 x x c).2 := by simp only [overflowingAdd]; exact Nat.mod_add_div _ _
      have a2 : (overflowingAdd o1 (mac o0 x x c).2).1 < B := by
        simp only [overflowingAdd]; exact Nat.mod_lt _ B_pos
      have a3 : (overflowingAdd o1 (mac o0 x x c).2).2 ≤ 1 := by
        simp only [overflowingAdd, B_def] at *; omega
      have hlos : os.length = 2 * xs.length := by simp at hl; omega
      have ⟨i1, i2, i3, i4⟩ := ih os _ hxs hos a3 hlos
      rw [sqDiagLoop_cons]
      refine ⟨?_, WF_cons.mpr ⟨m2, WF_cons.mpr ⟨a2, i2⟩⟩, i3, by simp [i4]⟩
      simp only [val_cons, List.length_cons, sqDiag]
      linear_combination m1 + B * a1 + B ^ 2 * i1

theorem val_lt_pow {l : List Nat} (h : WF l) {n : Nat} (hn : l.length = n) : val l < B ^ n := by
  rw [← hn]; exact val_lt h

/-- `schoolbook_squaring` on zeroed buffers: all `2n` limbs of the exact square -/
theorem schoolbookSquare_spec (x : List Nat) (hx : WF x) :
    val (schoolbookSquare x) = val x * val x ∧ WF (schoolbookSquare x) ∧
    (schoolbookSquare x).length = 2 * x.length := by
  cases x with
  | nil => simp [schoolbookSquare, WF_nil]
  | cons x0 rest =>
    have ⟨hx0, hrest⟩ := WF_cons.mp hx
    have hpre : WF [x0] := WF_cons.mpr ⟨hx0, WF_nil⟩
    have ⟨r, s1, s2, s3, s4⟩ := sqRows_spec rest [x0] [] hpre hrest WF_nil rfl
    have ez : uzero (2 * (x0 :: rest).length - 1) = ([] ++ [0]) ++ uzero (2 * rest.length) := by
      have : 2 * (x0 :: rest).length - 1 = 2 * rest.length + 1 := by simp; omega
      rw [this, uzero_succ]; rfl
    have hrl : r.length = 2 * rest.length := by simpa using s4
    have hn : 2 * (x0 :: rest).length - 1 = (0 :: r).length := by simp [hrl]; omega
    have htake : ((0 :: r) ++ [0]).take (2 * (x0 :: rest).length - 1) = 0 :: r := by
      rw [hn]; exact List.take_left' rfl
    have hW0 : WF (0 :: r) := WF_cons.mpr ⟨by decide, s3⟩
    have ⟨d1, d2, d3, d4⟩ := shl1Loop_spec (0 :: r) 0 hW0 (by decide)
    have hp2W : WF ((shl1Loop (0 :: r) 0).1 ++ [(shl1Loop (0 :: r) 0).2]) :=
      WF_append.mpr ⟨d2, WF_cons.mpr ⟨by simp only [B_def]; omega, WF_nil⟩⟩
    have hp2L : ((shl1Loop (0 :: r) 0).1 ++ [(shl1Loop (0 :: r) 0).2]).length = 2 * (x0 :: rest).length := by
      simp [d4, hrl]; omega
    have ⟨g1, g2, g3, g4⟩ := sqDiagLoop_spec (x0 :: rest) _ 0 hx hp2W (by decide) hp2L
    have hval2 : val ((shl1Loop (0 :: r) 0).1 ++ [(shl1Loop (0 :: r) 0).2]) = 2 * sqTri (x0 :: rest) := by
      rw [val_append, d4]
      simp only [val_cons, val_nil, Nat.mul_zero, Nat.add_zero]
      simp only [val_cons, Nat.zero_add, Nat.add_zero] at d1
      rw [d1, s2]
      simp only [val_nil, val_cons, Nat.mul_zero, Nat.add_zero, Nat.zero_add, List.length_cons,
        List.length_nil, sqTri]
      ring
    have hres : schoolbookSquare (x0 :: rest)
        = (sqDiagLoop (x0 :: rest) ((shl1Loop (0 :: r) 0).1 ++ [(shl1Loop (0 :: r) 0).2]) 0).1 := by
      simp only [schoolbookSquare]
      rw [ez, s1]
      rw [show (0 :: (r ++ [0])) = (0 :: r) ++ [0] from rfl, htake]
    rw [hres]
    refine ⟨?_, g2, by rw [g4, hp2L]⟩
    rw [hval2, hp2L, Nat.add_zero, ← sq_identity] at g1
    -- the dropped final carry is 0: the square fits in 2n limbs
    have hsq : val (x0 :: rest) * val (x0 :: rest) < B ^ (2 * (x0 :: rest).length) := by
      have h := val_lt hx
      have := Nat.mul_lt_mul'' h h
      rwa [← Nat.pow_add, ← Nat.two_mul] at this
    have hpos : 0 < B ^ (2 * (x0 :: rest).length) := Nat.pow_pos B_pos
    generalize sqDiagLoop (x0 :: rest) ((shl1Loop (0 :: r) 0).1 ++ [(shl1Loop (0 :: r) 0).2]) 0 = res at *
    have hc0 : res.2 = 0 := by
      rcases Nat.eq_zero_or_pos res.2 with h | h
      · exact h
      · exfalso
        have : B ^ (2 * (x0 :: rest).length) * 1 ≤ B ^ (2 * (x0 :: rest).length) * res.2 :=
          Nat.mul_le_mul_left _ h
        omega
    rw [hc0, Nat.mul_zero, Nat.add_zero] at g1
    exact g1

end CB.Mul
