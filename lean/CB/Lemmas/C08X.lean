/-
  CB.Lemmas.C08X — coverage round of property C08: the extended history machine of `CB.Model.MontyX`
  (`from_montgomery`, `as_montgomery_mut`, `Monty::lincomb_vartime`, `Zeroize`, read-only forms) keeps the
  invariant of `CB.Lemmas.C08Inv`, and the read-only predicates mean what the property says.
-/
import CB.Lemmas.C08Params
import CB.Model.MontyX
namespace CB.Monty
open CB

/-! ### `unMont n m v = v·R⁻¹ mod m` -/

theorem halfMod_lt {m : Nat} (hpos : 0 < m) (x : Nat) : halfMod m x < m := Nat.mod_lt _ hpos

theorem halfMod_double {m : Nat} (hodd : m % 2 = 1) (x : Nat) : (halfMod m x * 2) % m = x % m := by
  have h2 : (m + 1) / 2 * 2 = m + 1 := by omega
  show (halfMod m x * 2) ≡ x [MOD m]
  calc halfMod m x * 2 ≡ (x * ((m + 1) / 2)) * 2 [MOD m] := (Nat.mod_modEq _ _).mul_right _
    _ = x * (m + 1) := by rw [Nat.mul_assoc, h2]
    _ = x + m * x := by rw [Nat.mul_add, Nat.mul_one, Nat.mul_comm x m, Nat.add_comm]
    _ ≡ x [MOD m] := by show (x + m * x) % m = x % m; simp

theorem halves_lt {m : Nat} (hpos : 0 < m) : ∀ (c x : Nat), x < m → halves m c x < m
  | 0, _, h => h
  | c + 1, x, _ => halves_lt hpos c (halfMod m x) (halfMod_lt hpos x)

theorem halves_spec {m : Nat} (hodd : m % 2 = 1) : ∀ (c x : Nat), (halves m c x * 2 ^ c) % m = x % m
  | 0, x => by simp [halves]
  | c + 1, x => by
    show (halves m c (halfMod m x) * 2 ^ (c + 1)) ≡ x [MOD m]
    calc halves m c (halfMod m x) * 2 ^ (c + 1) = (halves m c (halfMod m x) * 2 ^ c) * 2 := by
          rw [Nat.pow_succ, Nat.mul_assoc]
      _ ≡ halfMod m x * 2 [MOD m] := Nat.ModEq.mul_right _ (halves_spec hodd c (halfMod m x))
      _ ≡ x [MOD m] := halfMod_double hodd x

/-- `unMont n m v` is THE residue `x < m` with `x·B^n ≡ v (mod m)`. -/
theorem unMont_spec {n m : Nat} (hodd : m % 2 = 1) (v : Nat) :
    unMont n m v < m ∧ (unMont n m v * B ^ n) % m = v % m := by
  have hpos : 0 < m := by omega
  refine ⟨halves_lt hpos _ _ (Nat.mod_lt _ hpos), ?_⟩
  have : B ^ n = 2 ^ (64 * n) := by rw [B_eq_pow, ← Nat.pow_mul]
  rw [this]
  simp only [unMont]
  rw [halves_spec hodd, Nat.mod_mod]

/-- … uniquely: any `x < m` with `x·B^n ≡ v` is `unMont n m v`. -/
theorem unMont_unique {n m x : Nat} (hodd : m % 2 = 1) (v : Nat) (hx : x < m) (h : (x * B ^ n) % m = v % m) :
    x = unMont n m v :=
  cancel_mod (coprime_Bpow_of_odd hodd n) hx (unMont_spec hodd v).1 (by rw [h, (unMont_spec (n := n) hodd v).2])

/-- the representative of `unMont n m v` is `v` itself when `v` is canonical. -/
theorem canon_unMont {n m v : Nat} (hodd : m % 2 = 1) (hv : v < m) : canon n m (unMont n m v) = toLimbs n v := by
  simp only [canon]
  rw [(unMont_spec hodd v).2, Nat.mod_eq_of_lt hv]

/-! ### canonical representatives are injective; zero test -/

theorem canon_inj {n m x y : Nat} (hm : m < B ^ n) (hodd : m % 2 = 1) (hx : x < m) (hy : y < m)
    (h : val (canon n m x) = val (canon n m y)) : x = y := by
  have hpos : 0 < m := by omega
  rw [canon_val hm hpos, canon_val hm hpos] at h
  exact cancel_mod (coprime_Bpow_of_odd hodd n) hx hy h

theorem canon_val_eq_zero_iff {n m x : Nat} (hm : m < B ^ n) (hodd : m % 2 = 1) (hx : x < m) :
    val (canon n m x) = 0 ↔ x = 0 := by
  have hpos : 0 < m := by omega
  constructor
  · intro h
    apply canon_inj hm hodd hx hpos
    rw [h, canon_zero, val_uzero]
  · intro h; rw [h, canon_zero, val_uzero]

/-! ### the sum of products -/

section
variable {st : State} {sp : List Nat} {n m : Nat}

theorem dotVal_canon (g : Good st.params n m) (h : Inv n m st sp) (ps : List (Nat × Nat)) :
    dotVal (ps.map fun p => (st.get p.1, st.get p.2)) ≡ (dotRes m sp ps * B ^ n) % m * B ^ n [MOD m] := by
  have hp := g.pos
  induction ps with
  | nil => simp [dotVal, dotRes, Nat.ModEq]
  | cons p rest ih =>
    have ⟨a, _⟩ := get_canon g h p.1
    have ⟨b, _⟩ := get_canon g h p.2
    simp only [List.map_cons, dotVal, dotRes]
    rw [a, b, canon_val g.mlt hp, canon_val g.mlt hp]
    generalize dotVal (rest.map fun p => (st.get p.1, st.get p.2)) = D at ih
    generalize dotRes m sp rest = E at ih
    generalize sget sp p.1 = x
    generalize sget sp p.2 = y
    generalize B ^ n = R at ih ⊢
    calc x * R % m * (y * R % m) + D ≡ (x * R) * (y * R) + E * R % m * R [MOD m] :=
          ((Nat.mod_modEq _ _).mul (Nat.mod_modEq _ _)).add ih
      _ ≡ (x * R) * (y * R) + (E * R) * R [MOD m] :=
          (Nat.ModEq.refl _).add ((Nat.mod_modEq _ _).mul_right _)
      _ = ((x * y + E) * R) * R := by ring
      _ ≡ (((x * y + E) % m * R)) * R [MOD m] := (((Nat.mod_modEq _ _).mul_right _).mul_right _).symm
      _ ≡ ((x * y + E) % m * R) % m * R [MOD m] := ((Nat.mod_modEq _ _).mul_right _).symm

theorem dotRes_lt (hpos : 0 < m) (ps : List (Nat × Nat)) : dotRes m sp ps < m := by
  cases ps with
  | nil => exact hpos
  | cons p rest => exact Nat.mod_lt _ hpos

/-- `Monty::lincomb_vartime` (value-level model) on canonical values yields the canonical sum of products. -/
theorem lincombVal_canon (g : Good st.params n m) (h : Inv n m st sp) (ps : List (Nat × Nat)) :
    lincombVal st (ps.map fun p => (st.get p.1, st.get p.2)) = canon n m (dotRes m sp ps) := by
  have hp := g.pos
  have hu := unMont_spec (n := n) g.modd (dotVal (ps.map fun p => (st.get p.1, st.get p.2)))
  simp only [lincombVal]
  rw [g.n_eq, g.mval]
  apply eq_canon g.mlt g.modd (toLimbs_WF _ _) (toLimbs_length _ _)
  · rw [val_toLimbs_lt (Nat.lt_trans hu.1 g.mlt)]; exact hu.1
  · rw [val_toLimbs_lt (Nat.lt_trans hu.1 g.mlt), hu.2]
    exact dotVal_canon g h ps

/-! ### the extended invariant -/

/-- well-typedness of an extended operation: `new` gets an `n`-limb integer; a caller-supplied Montgomery
    representative is canonical (`< m`: the only inputs the property speaks about); `lincomb_vartime` gets at least one
    product (the code asserts it). -/
def wtX (n m : Nat) : XOp → Prop
  | .base op => wt n op
  | .fromMont v => v < m
  | .setMont _ v => v < m
  | .lincomb ps => ps ≠ []
  | _ => True

theorem stepX_params (op : XOp) : (stepX st op).params = st.params := by
  cases op <;> simp only [stepX, push_params, put_params, step_params]

/-- one extended step preserves the invariant. -/
theorem stepX_inv (g : Good st.params n m) (hmul : AmmMulOK n m st.params.modNegInv)
    (h : Inv n m st sp) {op : XOp} (hw : wtX n m op) :
    Inv n m (stepX st op) (stepSpecX n m sp op) := by
  have hp := g.pos
  cases op with
  | base op => exact step_inv g hmul h hw
  | fromMont v =>
    refine inv_push h ?_ (unMont_spec g.modd v).1
    rw [g.n_eq, canon_unMont g.modd hw]
  | setMont i v =>
    refine inv_put h i ?_ (unMont_spec g.modd v).1
    rw [g.n_eq, canon_unMont g.modd hw]
  | lincomb ps => exact inv_push h (lincombVal_canon g h ps) (dotRes_lt hp ps)
  | zeroize i => exact inv_put h i (by rw [g.n_eq, canon_zero]) hp
  | observe i => exact h

theorem runX_inv (ops : List XOp) :
    ∀ {st : State} {sp : List Nat}, Good st.params n m → AmmMulOK n m st.params.modNegInv →
      Inv n m st sp → (∀ op ∈ ops, wtX n m op) →
      Inv n m (runX st ops) (runSpecX n m sp ops) ∧ (runX st ops).params = st.params := by
  induction ops with
  | nil => intro st sp _ _ h _; exact ⟨h, rfl⟩
  | cons op ops ih =>
    intro st sp g hmul h hw
    have h1 := stepX_inv g hmul h (hw op (List.mem_cons_self))
    have hpar := stepX_params (st := st) op
    have ⟨r1, r2⟩ := ih (st := stepX st op) (sp := stepSpecX n m sp op) (hpar ▸ g) (hpar ▸ hmul) h1
      (fun o ho => hw o (List.mem_cons_of_mem _ ho))
    exact ⟨r1, r2.trans hpar⟩

/-- the extended machine restricted to `base` operations IS the original machine. -/
theorem runX_base (ops : List MontyOp) (s : State) : runX s (ops.map XOp.base) = run s ops := by
  induction ops generalizing s with
  | nil => rfl
  | cons op ops ih => simp only [List.map_cons, runX, run, List.foldl_cons] at *; exact ih (step s op)

theorem runSpecX_base (ops : List MontyOp) (n m : Nat) (sp : List Nat) :
    runSpecX n m sp (ops.map XOp.base) = runSpec m sp ops := by
  induction ops generalizing sp with
  | nil => rfl
  | cons op ops ih => simp only [List.map_cons, runSpecX, runSpec, List.foldl_cons] at *; exact ih (stepSpec m sp op)

end

/-! ### `ConstantTimeEq for MontyParams` -/

theorem paramsCtEq_refl (p : Params) : paramsCtEq p p = true := by simp [paramsCtEq]

theorem paramsCtEq_spec_iff {n m₁ m₂ : Nat} (h₁ : m₁ < B ^ n) (h₂ : m₂ < B ^ n) :
    paramsCtEq (paramsSpec n m₁) (paramsSpec n m₂) = true ↔ m₁ = m₂ := by
  constructor
  · intro h
    simp only [paramsCtEq, Bool.and_eq_true, decide_eq_true_eq] at h
    have := h.1.1.1.1
    simp only [paramsSpec] at this
    rwa [val_toLimbs_lt h₁, val_toLimbs_lt h₂] at this
  · intro h; rw [h]; exact paramsCtEq_refl _

end CB.Monty
