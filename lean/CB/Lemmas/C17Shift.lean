/-
  CB.Lemmas.C17Shift — `radix_encode_limbs_by_shifting` (radix 2, 4, 8, 16, 32): the loop
  over `limbs ++ [0]` with the wide `digits` accumulator writes the zero-padded expansion.
-/
import CB.Lemmas.C17Encode
import CB.Lemmas.C17Decode
namespace CB.Radix
open CB

theorem digitByte_eq_digitChar : digitByte = digitChar := rfl

theorem digitsPad_zero (r : Nat) : ∀ k, digitsPad r k 0 = List.replicate k 0 := by
  intro k
  induction k with
  | zero => rfl
  | succ k ih =>
    rw [digitsPad, Nat.zero_div, Nat.zero_mod, ih, ← List.replicate_succ']

/-- split a padded expansion into its high `k` and low `e` digits -/
theorem digitsPad_add (r k : Nat) : ∀ (e x : Nat),
    digitsPad r (e + k) x = digitsPad r k (x / r ^ e) ++ digitsPad r e x := by
  intro e
  induction e with
  | zero => intro x; simp [digitsPad]
  | succ e ih =>
    intro x
    have h1 : e + 1 + k = (e + k) + 1 := by omega
    rw [h1, digitsPad, ih, digitsPad, List.append_assoc, Nat.div_div_eq_div_mul, Nat.pow_succ,
      Nat.mul_comm r (r ^ e)]

/-- the low `n` digits do not see multiples of `r^n` -/
theorem digitsPad_add_mul {r : Nat} (hr : 0 < r) : ∀ (n x y : Nat),
    digitsPad r n (x + r ^ n * y) = digitsPad r n x := by
  intro n
  induction n with
  | zero => intro x y; rfl
  | succ n ih =>
    intro x y
    have e1 : x + r ^ (n + 1) * y = x + r * (r ^ n * y) := by
      rw [Nat.pow_succ, Nat.mul_comm (r ^ n) r, Nat.mul_assoc]
    rw [digitsPad, digitsPad, e1, Nat.add_mul_div_left _ _ hr, Nat.add_mul_mod_self_left, ih]

/-- a value below `r^e` written with more digits gets leading zeros -/
theorem digitsPad_small {r : Nat} (e k x : Nat) (hx : x < r ^ e) :
    digitsPad r (e + k) x = List.replicate k 0 ++ digitsPad r e x := by
  rw [digitsPad_add, Nat.div_eq_of_lt hx, digitsPad_zero]

/-- `(digits as u8) & mask` is the low digit -/
theorem low_digit {t : Nat} (ht : t ≤ 8) (d : Nat) : (d % 256) &&& (2 ^ t - 1) = d % 2 ^ t := by
  rw [Nat.and_two_pow_sub_one_eq_mod]
  have h256 : (256 : Nat) = 2 ^ 8 := by decide
  rw [h256]
  exact Nat.mod_mod_of_dvd d (Nat.pow_dvd_pow 2 ht)

/-- the inner `for _ in 0..k` -/
theorem emitShift_eq {t : Nat} (ht : t ≤ 8) : ∀ (k d bits o : Nat) (acc : List Nat),
    emitShift t (2 ^ t - 1) k (d, bits, o, acc) =
      (d / (2 ^ t) ^ k, bits - t * k, o - k, (digitsPad (2 ^ t) k d).map digitByte ++ acc) := by
  intro k
  induction k with
  | zero => intro d bits o acc; simp [emitShift, digitsPad]
  | succ k ih =>
    intro d bits o acc
    rw [emitShift, ih, low_digit ht, digitsPad]
    have h1 : d / 2 ^ t / (2 ^ t) ^ k = d / (2 ^ t) ^ (k + 1) := by
      rw [Nat.div_div_eq_div_mul, Nat.pow_succ, Nat.mul_comm]
    have h2 : bits - t - t * k = bits - t * (k + 1) := by rw [Nat.mul_succ]; omega
    have h3 : o - 1 - k = o - (k + 1) := by omega
    rw [h1, h2, h3]
    simp only [List.map_append, List.map_cons, List.map_nil, List.append_assoc, List.cons_append,
      List.nil_append]

/-- loop invariant after `j` limbs of value `v`: `e` digits emitted -/
def SInv (t size v j : Nat) (st : ShiftState) : Prop :=
  ∃ e, e + st.2.2.1 = size ∧ st.2.2.2 = (digitsPad (2 ^ t) e v).map digitByte ∧ t * e ≤ 64 * j ∧
    (0 < st.2.2.1 → st.1 = v / (2 ^ t) ^ e ∧ st.2.1 + t * e = 64 * j ∧ st.2.1 < t)

theorem two_pow_split {a b : Nat} (h : a ≤ b) : 2 ^ b = 2 ^ a * 2 ^ (b - a) := by
  rw [← Nat.pow_add]; congr 1; omega

theorem shift_step {t size v j x d bits o : Nat} {acc : List Nat} (ht1 : 1 ≤ t) (ht5 : t ≤ 5)
    (hv : v < 2 ^ (64 * j)) (hx : x < B) (h : SInv t size v j (d, bits, o, acc)) :
    SInv t size (v + 2 ^ (64 * j) * x) (j + 1)
      (emitShift t (2 ^ t - 1) (min ((bits + 64) / t) o)
        (d ||| ((x * 2 ^ ((bits + 64) % 64)) % (B * B)), bits + 64, o, acc)) := by
  obtain ⟨e, heo, hacc, hte, hpos⟩ := h
  simp only at heo hacc hpos
  have hR : 0 < 2 ^ t := Nat.pow_pos (by decide)
  rw [emitShift_eq (by omega)]
  rcases Nat.eq_zero_or_pos o with ho | ho
  · -- buffer already full: nothing more is written
    subst ho
    refine ⟨e, by simpa using heo, ?_, by omega, fun h => absurd h (by simp)⟩
    simp only [Nat.min_zero, digitsPad, List.map_nil, List.nil_append]
    rw [hacc, two_pow_split hte, Nat.pow_mul, Nat.mul_assoc, digitsPad_add_mul hR]
  · obtain ⟨hd, hb, hbt⟩ := hpos ho
    have hbits : (bits + 64) % 64 = bits := by omega
    have h64 : 64 * j = t * e + bits := by omega
    have hpow : 2 ^ (64 * j) = (2 ^ t) ^ e * 2 ^ bits := by rw [h64, Nat.pow_add, Nat.pow_mul]
    have hRe : 0 < (2 ^ t) ^ e := Nat.pow_pos hR
    have hdlt : d < 2 ^ bits := by
      rw [hd, Nat.div_lt_iff_lt_mul hRe, Nat.mul_comm, ← hpow]; exact hv
    have hxs : x * 2 ^ bits < B * B := by
      have h32 : 2 ^ bits ≤ 2 ^ 5 := Nat.pow_le_pow_right (by decide) (by omega)
      have hB : (2 : Nat) ^ 5 ≤ B := by decide
      have : x * 2 ^ bits < B * 2 ^ bits := Nat.mul_lt_mul_of_pos_right hx (Nat.pow_pos (by decide))
      exact Nat.lt_of_lt_of_le this (Nat.mul_le_mul_left _ (Nat.le_trans h32 hB))
    -- the OR is an addition
    have hor : d ||| ((x * 2 ^ ((bits + 64) % 64)) % (B * B)) = (v + 2 ^ (64 * j) * x) / (2 ^ t) ^ e := by
      rw [hbits, Nat.mod_eq_of_lt hxs, Nat.or_comm, ← Nat.shiftLeft_eq,
        ← Nat.shiftLeft_add_eq_or_of_lt hdlt, Nat.shiftLeft_eq, hpow, Nat.mul_assoc,
        Nat.add_mul_div_left _ _ hRe, hd, Nat.add_comm, Nat.mul_comm x]
    rw [hor]
    generalize hk : min ((bits + 64) / t) o = k
    have hk1 : k ≤ o := by omega
    have hk2 : t * k ≤ bits + 64 := by
      have : k ≤ (bits + 64) / t := by omega
      calc t * k ≤ t * ((bits + 64) / t) := Nat.mul_le_mul_left _ this
        _ ≤ bits + 64 := Nat.mul_div_le _ _
    refine ⟨e + k, by simp only; omega, ?_, by rw [Nat.mul_add]; omega, ?_⟩
    · simp only
      rw [hacc, digitsPad_add, List.map_append]
      congr 2
      rw [hpow, Nat.mul_assoc, digitsPad_add_mul hR]
    · simp only
      intro ho'
      have hkeq : k = (bits + 64) / t := by omega
      refine ⟨?_, by rw [Nat.mul_add]; omega, ?_⟩
      · rw [Nat.div_div_eq_div_mul, ← Nat.pow_add]
      · have := Nat.div_add_mod (bits + 64) t
        have hm := Nat.mod_lt (bits + 64) (show 0 < t by omega)
        rw [hkeq]
        omega

theorem shiftLoop_cons (t mask limb : Nat) (rest : List Nat) (d bits o : Nat) (acc : List Nat) :
    shiftLoop t mask (limb :: rest) (d, bits, o, acc) =
      shiftLoop t mask rest (emitShift t mask (min ((bits + 64) / t) o)
        (d ||| ((limb * 2 ^ ((bits + 64) % 64)) % (B * B)), bits + 64, o, acc)) := rfl

theorem shiftLoop_inv {t size : Nat} (ht1 : 1 ≤ t) (ht5 : t ≤ 5) : ∀ (rest : List Nat) (v j : Nat)
    (st : ShiftState), WF rest → v < 2 ^ (64 * j) → SInv t size v j st →
    SInv t size (v + 2 ^ (64 * j) * val rest) (j + rest.length) (shiftLoop t (2 ^ t - 1) rest st) := by
  intro rest
  induction rest with
  | nil => intro v j st _ _ h; simpa [shiftLoop] using h
  | cons x xs ih =>
    intro v j st hw hv h
    obtain ⟨d, bits, o, acc⟩ := st
    have hx : x < B := (WF_cons.mp hw).1
    have hxs : WF xs := (WF_cons.mp hw).2
    rw [shiftLoop_cons]
    have hstep := shift_step ht1 ht5 hv hx h
    have hv' : v + 2 ^ (64 * j) * x < 2 ^ (64 * (j + 1)) := by
      have e1 : 2 ^ (64 * (j + 1)) = 2 ^ (64 * j) * B := by
        rw [Nat.mul_add, Nat.pow_add, B_eq_pow]
      rw [e1]
      calc v + 2 ^ (64 * j) * x < 2 ^ (64 * j) + 2 ^ (64 * j) * x := by omega
        _ = 2 ^ (64 * j) * (x + 1) := by rw [Nat.mul_add, Nat.mul_one, Nat.add_comm]
        _ ≤ 2 ^ (64 * j) * B := Nat.mul_le_mul_left _ hx
    have := ih _ _ _ hxs hv' hstep
    have e2 : v + 2 ^ (64 * j) * val (x :: xs) = v + 2 ^ (64 * j) * x + 2 ^ (64 * (j + 1)) * val xs := by
      rw [val_cons, Nat.mul_add, Nat.mul_add 64, Nat.pow_add, ← B_eq_pow, Nat.mul_assoc, Nat.add_assoc]
    have e3 : j + (x :: xs).length = j + 1 + xs.length := by simp; omega
    rw [e2, e3]
    exact this

theorem val_append_zero (l : List Nat) : val (l ++ [0]) = val l := by
  rw [val_append_singleton]; simp

/-- `radix_encode_limbs_by_shifting` for `radix = 2^t`, `1 ≤ t ≤ 5`, any buffer length: the
zero-padded expansion of the value (truncated to the buffer if it is too small) -/
theorem encodeByShifting_eq {t : Nat} (ht1 : 1 ≤ t) (ht5 : t ≤ 5) {limbs : List Nat} (hw : WF limbs)
    (outLen : Nat) (htz : trailingZeros (2 ^ t) = t) :
    encodeByShifting (2 ^ t) limbs outLen = (digitsPad (2 ^ t) outLen (val limbs)).map digitChar := by
  unfold encodeByShifting
  simp only
  have hmask : (2 ^ t - 1) % 256 = 2 ^ t - 1 := by
    have : 2 ^ t ≤ 2 ^ 5 := Nat.pow_le_pow_right (by decide) ht5
    have h32 : (2 : Nat) ^ 5 = 32 := by decide
    exact Nat.mod_eq_of_lt (by omega)
  rw [htz, hmask]
  have hw0 : WF (limbs ++ [0]) := WF_append_singleton hw (by decide)
  have h0 : SInv t outLen 0 0 (0, 0, outLen, []) :=
    ⟨0, by simp, by simp [digitsPad], by omega, fun _ => ⟨by simp, by simp, by simp only; omega⟩⟩
  have hinv := shiftLoop_inv (size := outLen) ht1 ht5 (limbs ++ [0]) 0 0 _ hw0 (by simp) h0
  simp only [Nat.mul_zero, Nat.pow_zero, Nat.one_mul, Nat.zero_add, val_append_zero,
    List.length_append, List.length_singleton] at hinv
  generalize shiftLoop t (2 ^ t - 1) (limbs ++ [0]) (0, 0, outLen, []) = st at hinv ⊢
  obtain ⟨d, bits, o, acc⟩ := st
  obtain ⟨e, heo, hacc, hte, hpos⟩ := hinv
  simp only at heo hacc hpos ⊢
  rw [hacc, ← heo, Nat.add_comm e o, digitByte_eq_digitChar]
  rcases Nat.eq_zero_or_pos o with ho | ho
  · subst ho; simp
  · obtain ⟨_, hb, hbt⟩ := hpos ho
    have hlt : val limbs < (2 ^ t) ^ e := by
      have h1 := val_lt_two_pow hw
      rw [← Nat.pow_mul]
      exact Nat.lt_of_lt_of_le h1 (Nat.pow_le_pow_right (by decide) (by omega))
    rw [Nat.add_comm o e, digitsPad_small e o _ hlt, List.map_append, List.map_replicate]
    rfl

/-- every power-of-two radix 2..36 (2, 4, 8, 16, 32) -/
theorem encodeByShifting_pow2 {radix : Nat} (h2 : 2 ≤ radix) (h36 : radix ≤ 36)
    (hp : isPow2 radix = true) {limbs : List Nat} (hw : WF limbs) (outLen : Nat) :
    encodeByShifting radix limbs outLen = (digitsPad radix outLen (val limbs)).map digitChar := by
  have hr : radix = 2 ^ trailingZeros radix := by
    unfold isPow2 at hp
    simp only [Bool.and_eq_true, beq_iff_eq] at hp
    exact hp.2
  generalize ht : trailingZeros radix = t at hr
  have ht1 : 1 ≤ t := by
    rcases Nat.eq_zero_or_pos t with h | h
    · subst h; simp at hr; omega
    · exact h
  have ht5 : t ≤ 5 := by
    rcases Nat.lt_or_ge t 6 with h | h
    · omega
    · have : 2 ^ 6 ≤ 2 ^ t := Nat.pow_le_pow_right (by decide) h
      have h64 : (2 : Nat) ^ 6 = 64 := by decide
      omega
  subst hr
  exact encodeByShifting_eq ht1 ht5 hw outLen ht

end CB.Radix
