/-
  CB.Lemmas.C10Final — from the loop invariant (C10Loop) to the results of
  `SafeGcdInverter::inv(_vartime)` and `SafeGcdInverter::gcd(_vartime)`:
  constants, `eq`, `norm`, the initial state, the read-back through `to_uint`.
-/
import CB.Lemmas.C10Loop
namespace CB.SafeGcd

/-! ### constants and `eq` -/

theorem uzero_length (n : Nat) : (uzero n).length = n := by simp [uzero]
theorem WF62_replicate (n x : Nat) (hx : x < Q) : WF62 (List.replicate n x) := by
  intro y hy; rw [List.eq_of_mem_replicate hy]; exact hx
theorem WF62_uzero (n : Nat) : WF62 (uzero n) := WF62_replicate n 0 Q_pos
theorem uvalN_uzero : ∀ n, uvalN (uzero n) = 0
  | 0 => rfl
  | n + 1 => by
    show uvalN (0 :: uzero n) = 0
    rw [uvalN_cons, uvalN_uzero n]; simp

theorem uval_small (l : List Nat) (h : WF62 l) (hne : l ≠ []) (X : Nat) (hX : uvalN l = X)
    (hlt : 2 * (X : Int) < ((Q ^ l.length : Nat) : Int)) : uval l = X := by
  apply uval_of_modEq l h hne
  · rw [hX]
  · have : (0 : Int) ≤ ((Q ^ l.length : Nat) : Int) := Int.natCast_nonneg _
    have : (0 : Int) ≤ (X : Int) := Int.natCast_nonneg _
    linarith
  · exact hlt

theorem Qpow_ge (n : Nat) (hn : 1 ≤ n) : Q ≤ Q ^ n := by
  calc Q = Q ^ 1 := (pow_one Q).symm
    _ ≤ Q ^ n := Nat.pow_le_pow_right Q_pos hn

theorem Qpow_big (n : Nat) (hn : 1 ≤ n) : (4 : Int) ≤ ((Q ^ n : Nat) : Int) := by
  have h1 := Qpow_ge n hn
  have h2 : 4 ≤ Q := by rw [Q_def]; norm_num
  exact_mod_cast le_trans h2 h1

theorem uzero_ne_nil (n : Nat) (hn : 1 ≤ n) : uzero n ≠ [] := by
  intro h; have := uzero_length n; rw [h] at this; simp at this; omega

theorem uval_uzero (n : Nat) (hn : 1 ≤ n) : uval (uzero n) = 0 := by
  have := uval_small (uzero n) (WF62_uzero n) (uzero_ne_nil n hn) 0 (uvalN_uzero n) (by
    rw [uzero_length]
    have := Qpow_ge n hn
    have hq := Q_pos
    have : (0 : Int) < ((Q ^ n : Nat) : Int) := by exact_mod_cast (by omega : 0 < Q ^ n)
    simpa using this)
  simpa using this

theorem uone_length : ∀ n, (uone n).length = n
  | 0 => rfl
  | n + 1 => by show (1 :: uzero n).length = n + 1; simp [uzero_length]
theorem WF62_uone : ∀ n, WF62 (uone n)
  | 0 => WF62_nil
  | n + 1 => by
    show WF62 (1 :: uzero n)
    exact WF62_cons.mpr ⟨by rw [Q_def]; norm_num, WF62_uzero n⟩
theorem uvalN_uone (n : Nat) (hn : 1 ≤ n) : uvalN (uone n) = 1 := by
  obtain ⟨k, rfl⟩ : ∃ k, n = k + 1 := ⟨n - 1, by omega⟩
  show uvalN (1 :: uzero k) = 1
  rw [uvalN_cons, uvalN_uzero]; simp

theorem uval_uone (n : Nat) (hn : 1 ≤ n) : uval (uone n) = 1 := by
  have hne : uone n ≠ [] := by
    intro h; have := uone_length n; rw [h] at this; simp at this; omega
  have := uval_small (uone n) (WF62_uone n) hne 1 (uvalN_uone n hn) (by
    rw [uone_length]
    have := Qpow_big n hn
    push_cast at this ⊢
    linarith)
  simpa using this

theorem uminusOne_length (n : Nat) : (uminusOne n).length = n := by simp [uminusOne]
theorem WF62_uminusOne (n : Nat) : WF62 (uminusOne n) :=
  WF62_replicate n MASK (by rw [MASK_Q]; have := Q_pos; omega)
theorem uvalN_uminusOne : ∀ n, uvalN (uminusOne n) + 1 = Q ^ n
  | 0 => rfl
  | n + 1 => by
    show uvalN (MASK :: uminusOne n) + 1 = Q ^ (n + 1)
    have ih := uvalN_uminusOne n
    rw [uvalN_cons, MASK_Q, pow_succ]
    have hq := Q_pos
    have : Q * uvalN (uminusOne n) + Q = Q ^ n * Q := by rw [← ih]; ring
    omega

theorem uval_uminusOne (n : Nat) (hn : 1 ≤ n) : uval (uminusOne n) = -1 := by
  have hne : uminusOne n ≠ [] := by
    intro h; have := uminusOne_length n; rw [h] at this; simp at this; omega
  apply uval_of_modEq _ (WF62_uminusOne n) hne
  · rw [uminusOne_length]
    have := uvalN_uminusOne n
    apply Int.modEq_iff_dvd.mpr
    refine ⟨-1, ?_⟩
    have e : ((uvalN (uminusOne n) : Nat) : Int) + 1 = ((Q ^ n : Nat) : Int) := by exact_mod_cast this
    linarith
  · rw [uminusOne_length]
    have := Qpow_big n hn
    linarith
  · rw [uminusOne_length]
    have : (0 : Int) ≤ ((Q ^ n : Nat) : Int) := Int.natCast_nonneg _
    linarith

theorem ueq_iff : ∀ (a b : List Nat), a.length = b.length → (ueq a b = true ↔ a = b)
  | [], [], _ => by simp [ueq]
  | [], _ :: _, h => by simp at h
  | _ :: _, [], h => by simp at h
  | x :: xs, y :: ys, h => by
    have ih := ueq_iff xs ys (by simpa using h)
    show ((x == y) && ueq xs ys) = true ↔ _
    rw [Bool.and_eq_true, ih]
    simp

/-- the signed value determines a well-formed limb list of a given length -/
theorem uval_inj (a b : List Nat) (ha : WF62 a) (hb : WF62 b) (hl : a.length = b.length) (hne : a ≠ [])
    (h : uval a = uval b) : a = b := by
  have hneb : b ≠ [] := by
    intro h0; rw [h0] at hl; exact hne (List.length_eq_zero_iff.mp (by simpa using hl))
  obtain ⟨_, _, m1⟩ := uval_range a ha hne
  obtain ⟨_, _, m2⟩ := uval_range b hb hneb
  rw [← hl] at m2
  have hm : ((uvalN a : Nat) : Int) ≡ ((uvalN b : Nat) : Int) [ZMOD ((Q ^ a.length : Nat) : Int)] :=
    m1.symm.trans (h ▸ m2)
  have hm' : uvalN a ≡ uvalN b [MOD Q ^ a.length] := Int.natCast_modEq_iff.mp hm
  have l1 := uvalN_lt ha
  have l2 := uvalN_lt hb
  rw [← hl] at l2
  have : uvalN a = uvalN b := by
    have := hm'
    unfold Nat.ModEq at this
    rwa [Nat.mod_eq_of_lt l1, Nat.mod_eq_of_lt l2] at this
  rw [uvalN_eq_valW, uvalN_eq_valW] at this
  exact valW_inj a b ha hb hl this

theorem ueq_uval (a b : List Nat) (ha : WF62 a) (hb : WF62 b) (hl : a.length = b.length) (hne : a ≠ []) :
    ueq a b = true ↔ uval a = uval b := by
  rw [ueq_iff a b hl]
  exact ⟨fun h => by rw [h], uval_inj a b ha hb hl hne⟩

/-! ### signed read-back of `from_uint`, `add`, `neg` -/

theorem uval_fromUint (x : List Nat) (n : Nat) (hx : CB.WF x) (hfit : 64 * x.length + 64 ≤ 62 * n) :
    (fromUint x n).length = n ∧ WF62 (fromUint x n) ∧ uval (fromUint x n) = (CB.val x : Nat) := by
  obtain ⟨h1, h2, h3⟩ := fromUint_spec x n hx (by omega)
  refine ⟨h1, h2, ?_⟩
  have hn : 1 ≤ n := by omega
  have hne : fromUint x n ≠ [] := by
    intro h; rw [h] at h1; simp at h1; omega
  apply uval_small _ h2 hne _ h3
  rw [h1]
  have hv : CB.val x < 2 ^ (64 * x.length) := by
    have := valW_lt x ((WF_iff_WFw x).mp hx)
    rw [← val_eq_valW] at this; exact this
  have hp : 2 ^ (64 * x.length + 64) ≤ Q ^ n := by
    have : Q ^ n = 2 ^ (62 * n) := by rw [← two_pow_LB, LB_eq, ← pow_mul]
    rw [this]; exact Nat.pow_le_pow_right (by norm_num) hfit
  have h2 : 2 * CB.val x < Q ^ n := by
    have : 2 ^ (64 * x.length + 64) = 2 ^ (64 * x.length) * 2 ^ 64 := pow_add 2 _ 64
    have h64 : (2 : Nat) ^ 64 = 18446744073709551616 := by norm_num
    rw [this, h64] at hp
    omega
  exact_mod_cast h2

theorem uval_uadd (a b : List Nat) (ha : WF62 a) (hb : WF62 b) (hl : a.length = b.length) (hne : a ≠ [])
    (h1 : -((Q ^ a.length : Nat) : Int) ≤ 2 * (uval a + uval b))
    (h2 : 2 * (uval a + uval b) < ((Q ^ a.length : Nat) : Int)) :
    (uadd a b).length = a.length ∧ WF62 (uadd a b) ∧ uval (uadd a b) = uval a + uval b := by
  obtain ⟨l1, w1, v1⟩ := uadd_spec a b hl
  have hneb : b ≠ [] := by
    intro h0; rw [h0] at hl; exact hne (List.length_eq_zero_iff.mp (by simpa using hl))
  have hne' : uadd a b ≠ [] := by
    intro h0; rw [h0] at l1; exact hne (List.length_eq_zero_iff.mp (by simpa using l1.symm))
  obtain ⟨_, _, m1⟩ := uval_range a ha hne
  obtain ⟨_, _, m2⟩ := uval_range b hb hneb
  rw [← hl] at m2
  refine ⟨l1, w1, ?_⟩
  apply uval_of_modEq _ w1 hne'
  · rw [l1, v1, Int.natCast_mod]
    refine (Int.mod_modEq _ _).trans ?_
    push_cast
    exact (Int.ModEq.add m1 m2).symm
  · rw [l1]; exact h1
  · rw [l1]; exact h2

theorem uval_uneg (a : List Nat) (ha : WF62 a) (hne : a ≠ [])
    (h1 : -((Q ^ a.length : Nat) : Int) ≤ 2 * (-uval a))
    (h2 : 2 * (-uval a) < ((Q ^ a.length : Nat) : Int)) :
    (uneg a).length = a.length ∧ WF62 (uneg a) ∧ uval (uneg a) = -uval a := by
  obtain ⟨l1, w1, v1⟩ := uneg_spec a ha
  have hne' : uneg a ≠ [] := by
    intro h0; rw [h0] at l1; exact hne (List.length_eq_zero_iff.mp (by simpa using l1.symm))
  obtain ⟨_, _, m1⟩ := uval_range a ha hne
  refine ⟨l1, w1, ?_⟩
  apply uval_of_modEq _ w1 hne'
  · rw [l1, v1, Int.natCast_mod]
    refine (Int.mod_modEq _ _).trans ?_
    have hlt := uvalN_lt ha
    rw [Int.natCast_sub (le_of_lt hlt)]
    have : (((Q ^ a.length : Nat) : Int) - (uvalN a : Nat)) ≡ -(uvalN a : Nat) [ZMOD ((Q ^ a.length : Nat) : Int)] := by
      apply Int.modEq_iff_dvd.mpr; exact ⟨-1, by ring⟩
    exact this.trans (Int.ModEq.neg m1.symm)
  · rw [l1]; exact h1
  · rw [l1]; exact h2

/-! ### `norm` -/

/-- `select(&v, &v.add(&modulus), v.is_negative())` -/
theorem cond_add_spec (m w : List Nat) (hm : WF62 m) (hw : WF62 w) (hl : w.length = m.length) (hne : w ≠ [])
    (hM : 0 < uval m) (h1 : -(2 * uval m) < uval w) (h2 : uval w < uval m)
    (hcap : 4 * uval m ≤ ((Q ^ w.length : Nat) : Int)) :
    (uselect w (uadd w m) (uisNeg w)).length = w.length ∧ WF62 (uselect w (uadd w m) (uisNeg w)) ∧
    uval (uselect w (uadd w m) (uisNeg w)) = (if uval w < 0 then uval w + uval m else uval w) := by
  have hiff := uisNeg_iff_neg w hw hne
  unfold uselect
  by_cases hneg : uval w < 0
  · rw [if_pos (hiff.mpr hneg), if_pos hneg]
    exact uval_uadd w m hw hm hl hne (by linarith) (by linarith)
  · have : uisNeg w = false := by
      cases h : uisNeg w with
      | false => rfl
      | true => exact absurd (hiff.mp h) hneg
    rw [this, if_neg hneg]
    exact ⟨rfl, hw, rfl⟩

theorem norm_spec (m v : List Nat) (negate : Bool) (hm : WF62 m) (hv : WF62 v) (hl : v.length = m.length)
    (hne : v ≠ []) (hM : 0 < uval m) (h1 : -(2 * uval m) < uval v) (h2 : uval v < uval m)
    (hcap : 4 * uval m ≤ ((Q ^ v.length : Nat) : Int)) :
    (norm m v negate).length = v.length ∧ WF62 (norm m v negate) ∧
    0 ≤ uval (norm m v negate) ∧ uval (norm m v negate) < uval m ∧
    uval (norm m v negate) ≡ (if negate then -uval v else uval v) [ZMOD uval m] := by
  obtain ⟨l1, w1, e1⟩ := cond_add_spec m v hm hv hl hne hM h1 h2 hcap
  simp only [norm]
  generalize uselect v (uadd v m) (uisNeg v) = v1 at *
  have hne1 : v1 ≠ [] := by
    intro h0; rw [h0] at l1; exact hne (List.length_eq_zero_iff.mp (by simpa using l1.symm))
  have r1 : -uval m < uval v1 ∧ uval v1 < uval m := by
    rw [e1]; split <;> constructor <;> linarith
  have c1 : uval v1 ≡ uval v [ZMOD uval m] := by
    rw [e1]; split
    · exact Int.modEq_iff_dvd.mpr ⟨-1, by ring⟩
    · exact Int.ModEq.refl _
  -- second step: conditional negation
  have hstep2 : (uselect v1 (uneg v1) negate).length = v1.length ∧ WF62 (uselect v1 (uneg v1) negate) ∧
      uval (uselect v1 (uneg v1) negate) = (if negate then -uval v1 else uval v1) := by
    unfold uselect
    cases negate with
    | false => exact ⟨rfl, w1, rfl⟩
    | true =>
      simp only [if_true]
      exact uval_uneg v1 w1 hne1 (by rw [l1]; linarith [r1.2]) (by rw [l1]; linarith [r1.1])
  obtain ⟨l2, w2, e2⟩ := hstep2
  generalize uselect v1 (uneg v1) negate = v2 at *
  have hne2 : v2 ≠ [] := by
    intro h0; rw [h0] at l2; exact hne1 (List.length_eq_zero_iff.mp (by simpa using l2.symm))
  have r2 : -uval m < uval v2 ∧ uval v2 < uval m := by
    rw [e2]; split <;> constructor <;> linarith [r1.1, r1.2]
  have c2 : uval v2 ≡ (if negate then -uval v else uval v) [ZMOD uval m] := by
    rw [e2]; cases negate with
    | false => simpa using c1
    | true => simpa using Int.ModEq.neg c1
  obtain ⟨l3, w3, e3⟩ := cond_add_spec m v2 hm w2 (by rw [l2, l1, hl]) hne2 hM (by linarith [r2.1]) r2.2
    (by rw [l2, l1]; exact hcap)
  refine ⟨by rw [l3, l2, l1], w3, ?_, ?_, ?_⟩
  · rw [e3]; split <;> linarith [r2.1]
  · rw [e3]; split <;> linarith [r2.2]
  · rw [e3]; split
    · exact (Int.modEq_iff_dvd.mpr ⟨-1, by ring⟩ : uval v2 + uval m ≡ uval v2 [ZMOD uval m]).trans c2
    · exact c2

/-! ### the inverter: from the loop invariant to the returned value -/

theorem Qpow_eq (n : Nat) : Q ^ n = 2 ^ (62 * n) := by
  rw [← two_pow_LB, LB_eq, ← pow_mul]

theorem cap_of_geometry (sat n : Nat) (h : 64 * sat + 64 ≤ 62 * n) :
    (2 : Int) ^ 64 * 2 ^ (64 * sat) ≤ ((Q ^ n : Nat) : Int) := by
  rw [Qpow_eq]
  have : (2 : Nat) ^ 64 * 2 ^ (64 * sat) ≤ 2 ^ (62 * n) := by
    rw [← pow_add]; exact Nat.pow_le_pow_right (by norm_num) (by omega)
  exact_mod_cast this

theorem val_lt_two_pow (x : List Nat) (hx : CB.WF x) : CB.val x < 2 ^ (64 * x.length) := by
  have := valW_lt x ((WF_iff_WFw x).mp hx)
  rw [← val_eq_valW] at this; exact this

/-- `inv_mod2_62(modulus.as_words())·M ≡ 1 (mod 2^62)` for an odd multi-word `M` -/
theorem inverse_of_words (mw : List Nat) (hodd : CB.val mw % 2 = 1) :
    invMod2_62 mw * ((CB.val mw : Nat) : Int) ≡ 1 [ZMOD 2 ^ 62] := by
  cases mw with
  | nil => simp [CB.val] at hodd
  | cons v rest =>
    have hv : v % 2 = 1 := by
      rw [CB.val_cons, CB.B_def] at hodd; omega
    obtain ⟨_, _, h3⟩ := invMod2_62_spec v rest hv
    rw [CB.val_cons, CB.B_def]
    push_cast
    have e : invMod2_62 (v :: rest) * ((v : Int) + 18446744073709551616 * (CB.val rest : Int)) =
        invMod2_62 (v :: rest) * (v : Int) + 2 ^ 62 * (4 * invMod2_62 (v :: rest) * (CB.val rest : Int)) := by ring
    rw [e]
    have h3' : invMod2_62 (v :: rest) * (v : Int) ≡ 1 [ZMOD 2 ^ 62] := by
      unfold Int.ModEq; rw [h3]; rfl
    have hz : (2 : Int) ^ 62 * (4 * invMod2_62 (v :: rest) * (CB.val rest : Int)) ≡ 0 [ZMOD 2 ^ 62] :=
      Int.modEq_zero_iff_dvd.mpr ⟨_, rfl⟩
    simpa using Int.ModEq.add h3' hz

theorem uval_nonneg_eq (l : List Nat) (h : WF62 l) (hne : l ≠ []) (h0 : 0 ≤ uval l) :
    uisNeg l = false ∧ ((uvalN l : Nat) : Int) = uval l := by
  have hiff := uisNeg_iff_neg l h hne
  have hf : uisNeg l = false := by
    cases hc : uisNeg l with
    | false => rfl
    | true => have := hiff.mp hc; omega
  refine ⟨hf, ?_⟩
  rw [uval_eq, hf]; simp

theorem inv_after_loop (sat n k : Nat) (hsat : 1 ≤ sat) (hn : 64 * sat + 64 ≤ 62 * n)
    (mw aw vw : List Nat) (hmw : CB.WF mw) (haw : CB.WF aw) (hvw : CB.WF vw)
    (lm : mw.length = sat) (la : aw.length = sat) (lv : vw.length = sat)
    (hodd : CB.val mw % 2 = 1) (hadj : CB.val aw < CB.val mw)
    (s : DS)
    (hs : s = dsLoop (fromUint mw n) (invMod2_62 mw) k ⟨1, fromUint mw n, fromUint vw n, uzero n, fromUint aw n⟩)
    (H0 : ueq s.g (uzero s.g.length) = true) (trips : Nat) :
    ((finishInv ⟨fromUint mw n, fromUint aw n, invMod2_62 mw⟩ sat s.d s.f s.g trips).isSome = true ↔
        Nat.gcd (CB.val vw) (CB.val mw) = 1) ∧
    (finishInv ⟨fromUint mw n, fromUint aw n, invMod2_62 mw⟩ sat s.d s.f s.g trips).negative = false ∧
    (finishInv ⟨fromUint mw n, fromUint aw n, invMod2_62 mw⟩ sat s.d s.f s.g trips).gZero = true ∧
    ((finishInv ⟨fromUint mw n, fromUint aw n, invMod2_62 mw⟩ sat s.d s.f s.g trips).isSome = true →
      CB.val (finishInv ⟨fromUint mw n, fromUint aw n, invMod2_62 mw⟩ sat s.d s.f s.g trips).value < CB.val mw ∧
      CB.val (finishInv ⟨fromUint mw n, fromUint aw n, invMod2_62 mw⟩ sat s.d s.f s.g trips).value * CB.val vw
        ≡ CB.val aw [MOD CB.val mw]) := by
  have hn2 : 2 ≤ n := by omega
  have hn1 : 1 ≤ n := by omega
  obtain ⟨lfm, wfm, uvm⟩ := uval_fromUint mw n hmw (by rw [lm]; exact hn)
  obtain ⟨lfv, wfv, uvv⟩ := uval_fromUint vw n hvw (by rw [lv]; exact hn)
  obtain ⟨lfa, wfa, uva⟩ := uval_fromUint aw n haw (by rw [la]; exact hn)
  have hMlt := val_lt_two_pow mw hmw
  have hXlt := val_lt_two_pow vw hvw
  rw [lm] at hMlt; rw [lv] at hXlt
  have hcap := cap_of_geometry sat n hn
  have hinv := inverse_of_words mw hodd
  generalize hM : CB.val mw = M at *
  generalize hX : CB.val vw = X at *
  generalize hA : CB.val aw = A at *
  generalize hmm : fromUint mw n = m at *
  generalize hinvv : invMod2_62 mw = inverse at *
  have hMpos : 0 < M := by omega
  have hMi : (0 : Int) < (M : Int) := by exact_mod_cast hMpos
  have hBd : ((M : Nat) : Int) ≤ 2 ^ (64 * sat) := by exact_mod_cast (le_of_lt hMlt)
  have hBdX : ((X : Nat) : Int) ≤ 2 ^ (64 * sat) := by exact_mod_cast (le_of_lt hXlt)
  -- the initial state satisfies both invariants
  have i1 : FGI n (2 ^ (64 * sat)) (Int.gcd (M : Int) (X : Int)) ⟨1, m, fromUint vw n, uzero n, fromUint aw n⟩ :=
    ⟨lfm, lfv, wfm, wfv, by show uval m % 2 = 1; rw [uvm]; exact_mod_cast hodd,
     by show |uval m| ≤ _; rw [uvm, abs_of_nonneg (Int.natCast_nonneg _)]; exact hBd,
     by show |uval (fromUint vw n)| ≤ _; rw [uvv, abs_of_nonneg (Int.natCast_nonneg _)]; exact hBdX,
     by show Int.gcd (uval m) (uval (fromUint vw n)) = _; rw [uvm, uvv]⟩
  have i2 : DEI n m (X : Int) (A : Int) ⟨1, m, fromUint vw n, uzero n, fromUint aw n⟩ :=
    ⟨uzero_length n, lfa, WF62_uzero n, wfa,
     by show -(2 * uval m) < uval (uzero n); rw [uval_uzero n hn1, uvm]; linarith,
     by show uval (uzero n) < uval m; rw [uval_uzero n hn1, uvm]; exact hMi,
     by show -(2 * uval m) < uval (fromUint aw n); rw [uva, uvm]; have := Int.natCast_nonneg A; linarith,
     by show uval (fromUint aw n) < uval m; rw [uva, uvm]; exact_mod_cast hadj,
     by show uval (uzero n) * (X : Int) ≡ uval m * (A : Int) [ZMOD uval m]
        rw [uval_uzero n hn1, zero_mul]
        exact (Int.modEq_zero_iff_dvd.mpr ⟨(A : Int), rfl⟩).symm,
     by show uval (fromUint aw n) * (X : Int) ≡ uval (fromUint vw n) * (A : Int) [ZMOD uval m]
        rw [uva, uvv, mul_comm]⟩
  obtain ⟨F, D⟩ := dsLoop_inv n (2 ^ (64 * sat)) (Int.gcd (M : Int) (X : Int)) hn2 hcap m inverse (X : Int) (A : Int)
    wfm lfm (by rw [uvm]; exact hMi) (by rw [uvm]; exact_mod_cast hodd) (by rw [uvm]; exact hBd)
    (by rw [uvm]; exact hinv) k _ i1 i2
  rw [← hs] at F D
  -- g = 0
  have H : s.g = uzero n := by
    have := (ueq_iff _ _ (by rw [uzero_length])).mp H0
    rw [F.lg] at this; exact this
  have hg0 : uval s.g = 0 := by rw [H]; exact uval_uzero n hn1
  have hgcd : (uval s.f).natAbs = Nat.gcd X M := by
    have := F.gcd
    rw [hg0, Int.gcd_zero_right] at this
    rw [this, Int.gcd_natCast_natCast, Nat.gcd_comm]
  have hfne : s.f ≠ [] := by
    intro h0; have := F.lf; rw [h0] at this; simp at this; omega
  have hdne : s.d ≠ [] := by
    intro h0; have := D.ld; rw [h0] at this; simp at this; omega
  have eone : ueq s.f (uone s.f.length) = true ↔ uval s.f = 1 := by
    rw [ueq_uval s.f _ F.wf (WF62_uone _) (uone_length _).symm hfne, uval_uone _ (by rw [F.lf]; exact hn1)]
  have emone : ueq s.f (uminusOne s.f.length) = true ↔ uval s.f = -1 := by
    rw [ueq_uval s.f _ F.wf (WF62_uminusOne _) (uminusOne_length _).symm hfne,
      uval_uminusOne _ (by rw [F.lf]; exact hn1)]
  have hsome : (ueq s.f (uone s.f.length) || ueq s.f (uminusOne s.f.length)) = true ↔ Nat.gcd X M = 1 := by
    rw [Bool.or_eq_true, eone, emone, ← hgcd]
    omega
  -- norm
  have hcap4 : 4 * uval m ≤ ((Q ^ s.d.length : Nat) : Int) := by
    rw [D.ld, uvm]
    have : (0 : Int) < 2 ^ (64 * sat) := by positivity
    nlinarith
  obtain ⟨nl, nw, n0, n1, nc⟩ := norm_spec m s.d (ueq s.f (uminusOne s.f.length)) wfm D.wd (by rw [D.ld, lfm]) hdne
    (by rw [uvm]; exact hMi) D.d1 D.d2 hcap4
  generalize hret : norm m s.d (ueq s.f (uminusOne s.f.length)) = ret at *
  have hrne : ret ≠ [] := by
    intro h0; rw [h0] at nl; exact hdne (List.length_eq_zero_iff.mp (by simpa using nl.symm))
  obtain ⟨rneg, rval⟩ := uval_nonneg_eq ret nw hrne n0
  obtain ⟨_, _, tv⟩ := toUint_spec ret sat nw (by rw [nl, D.ld]; omega)
  rw [uvm] at n1 nc
  have hrlt : uvalN ret < M := by
    have : ((uvalN ret : Nat) : Int) < (M : Int) := by rw [rval]; exact n1
    exact_mod_cast this
  have hvalue : CB.val (toUint ret sat) = uvalN ret := by
    rw [tv]; exact Nat.mod_eq_of_lt (by omega)
  show ((ueq s.f (uone s.f.length) || ueq s.f (uminusOne s.f.length)) = true ↔ Nat.gcd X M = 1) ∧
    uisNeg (norm m s.d (ueq s.f (uminusOne s.f.length))) = false ∧
    ueq s.g (uzero s.g.length) = true ∧
    ((ueq s.f (uone s.f.length) || ueq s.f (uminusOne s.f.length)) = true →
      CB.val (toUint (norm m s.d (ueq s.f (uminusOne s.f.length))) sat) < M ∧
      CB.val (toUint (norm m s.d (ueq s.f (uminusOne s.f.length))) sat) * X ≡ A [MOD M])
  rw [hret]
  refine ⟨hsome, rneg, by rw [F.lg, (ueq_iff _ _ (by rw [F.lg, uzero_length])).mpr H], ?_⟩
  intro hs1
  rw [hvalue]
  refine ⟨hrlt, ?_⟩
  apply Int.natCast_modEq_iff.mp
  push_cast
  rw [rval]
  rw [Bool.or_eq_true, eone, emone] at hs1
  rcases hs1 with h1 | h1
  · have hanti : ueq s.f (uminusOne s.f.length) = false := by
      cases hc : ueq s.f (uminusOne s.f.length) with
      | false => rfl
      | true => have := emone.mp hc; omega
    rw [hanti] at nc
    simp only [Bool.false_eq_true, if_false] at nc
    have cd := D.cd
    rw [uvm, h1] at cd
    simpa using (Int.ModEq.mul_right (X : Int) nc).trans cd
  · have hanti : ueq s.f (uminusOne s.f.length) = true := emone.mpr h1
    rw [hanti] at nc
    simp only [if_true] at nc
    have cd := Int.ModEq.neg D.cd
    rw [uvm, h1] at cd
    have e1 : -uval s.d * (X : Int) = -(uval s.d * (X : Int)) := by ring
    have := Int.ModEq.mul_right (X : Int) nc
    rw [e1] at this
    simpa using this.trans cd

/-! ### gcd: `|f|` after the loop, read back through `to_uint` -/

theorem gcd_after_loop (sat n k : Nat) (hsat : 1 ≤ sat) (hn : 64 * sat + 64 ≤ 62 * n)
    (fw gw e : List Nat) (inverse : Int) (hfw : CB.WF fw) (hgw : CB.WF gw)
    (lf : fw.length = sat) (lg : gw.length = sat) (hodd : CB.val fw % 2 = 1)
    (s : DS) (hs : s = dsLoop (fromUint fw n) inverse k ⟨1, fromUint fw n, fromUint gw n, uzero n, e⟩)
    (H0 : ueq s.g (uzero n) = true) :
    uisNeg (uselect s.f (uneg s.f) (uisNeg s.f)) = false ∧
    CB.val (toUint (uselect s.f (uneg s.f) (uisNeg s.f)) sat) = Nat.gcd (CB.val fw) (CB.val gw) := by
  have hn2 : 2 ≤ n := by omega
  have hn1 : 1 ≤ n := by omega
  obtain ⟨lff, wff, uvf⟩ := uval_fromUint fw n hfw (by rw [lf]; exact hn)
  obtain ⟨lfg, wfg, uvg⟩ := uval_fromUint gw n hgw (by rw [lg]; exact hn)
  have hFlt := val_lt_two_pow fw hfw
  have hGlt := val_lt_two_pow gw hgw
  rw [lf] at hFlt; rw [lg] at hGlt
  have hcap := cap_of_geometry sat n hn
  generalize hF : CB.val fw = F at *
  generalize hG : CB.val gw = G at *
  have hFpos : 0 < F := by omega
  have hBdF : ((F : Nat) : Int) ≤ 2 ^ (64 * sat) := by exact_mod_cast (le_of_lt hFlt)
  have hBdG : ((G : Nat) : Int) ≤ 2 ^ (64 * sat) := by exact_mod_cast (le_of_lt hGlt)
  have i1 : FGI n (2 ^ (64 * sat)) (Int.gcd (F : Int) (G : Int)) ⟨1, fromUint fw n, fromUint gw n, uzero n, e⟩ :=
    ⟨lff, lfg, wff, wfg, by show uval (fromUint fw n) % 2 = 1; rw [uvf]; exact_mod_cast hodd,
     by show |uval (fromUint fw n)| ≤ _; rw [uvf, abs_of_nonneg (Int.natCast_nonneg _)]; exact hBdF,
     by show |uval (fromUint gw n)| ≤ _; rw [uvg, abs_of_nonneg (Int.natCast_nonneg _)]; exact hBdG,
     by show Int.gcd (uval (fromUint fw n)) (uval (fromUint gw n)) = _; rw [uvf, uvg]⟩
  have Fi := dsLoop_fg n (2 ^ (64 * sat)) (Int.gcd (F : Int) (G : Int)) hn2 hcap (fromUint fw n) inverse k _ i1
  rw [← hs] at Fi
  have H : s.g = uzero n := (ueq_iff _ _ (by rw [uzero_length, Fi.lg])).mp H0
  have hg0 : uval s.g = 0 := by rw [H]; exact uval_uzero n hn1
  have hgcd : (uval s.f).natAbs = Nat.gcd F G := by
    have := Fi.gcd
    rw [hg0, Int.gcd_zero_right] at this
    rw [this, Int.gcd_natCast_natCast]
  have hfne : s.f ≠ [] := by
    intro h0; have := Fi.lf; rw [h0] at this; simp at this; omega
  have hQn : (2 : Int) ^ 64 * 2 ^ (64 * sat) ≤ ((Q ^ s.f.length : Nat) : Int) := by rw [Fi.lf]; exact hcap
  have hpos : (0 : Int) < 2 ^ (64 * sat) := by positivity
  have habs := abs_le.mp Fi.bf
  -- f1 = |f|
  have hf1 : (uselect s.f (uneg s.f) (uisNeg s.f)).length = s.f.length ∧
      WF62 (uselect s.f (uneg s.f) (uisNeg s.f)) ∧
      uval (uselect s.f (uneg s.f) (uisNeg s.f)) = ((uval s.f).natAbs : Int) := by
    have hiff := uisNeg_iff_neg s.f Fi.wf hfne
    unfold uselect
    by_cases hneg : uval s.f < 0
    · rw [if_pos (hiff.mpr hneg)]
      obtain ⟨a, b, c⟩ := uval_uneg s.f Fi.wf hfne (by nlinarith) (by nlinarith)
      exact ⟨a, b, by rw [c]; omega⟩
    · have : uisNeg s.f = false := by
        cases h : uisNeg s.f with
        | false => rfl
        | true => exact absurd (hiff.mp h) hneg
      rw [this]
      exact ⟨rfl, Fi.wf, by simp only [Bool.false_eq_true, if_false]; omega⟩
  obtain ⟨l1, w1, v1⟩ := hf1
  generalize uselect s.f (uneg s.f) (uisNeg s.f) = f1 at *
  have hne1 : f1 ≠ [] := by
    intro h0; rw [h0] at l1; exact hfne (List.length_eq_zero_iff.mp (by simpa using l1.symm))
  obtain ⟨rneg, rval⟩ := uval_nonneg_eq f1 w1 hne1 (by rw [v1]; exact Int.natCast_nonneg _)
  obtain ⟨_, _, tv⟩ := toUint_spec f1 sat w1 (by rw [l1, Fi.lf]; omega)
  refine ⟨rneg, ?_⟩
  have hval : uvalN f1 = Nat.gcd F G := by
    have : ((uvalN f1 : Nat) : Int) = ((Nat.gcd F G : Nat) : Int) := by rw [rval, v1, hgcd]
    exact_mod_cast this
  rw [tv, hval]
  apply Nat.mod_eq_of_lt
  have := Nat.gcd_le_left G hFpos
  omega

/-! ### the model's entry points -/

theorem geometry (sat : Nat) : 64 * sat + 64 ≤ 62 * nlimbsFor (sat * 64) := by
  have := nlimbs_geometry (sat * 64); omega

/-- `SafeGcdInverter::new(m, adj).inv(value)`, given that the fixed trip count reached `g = 0` -/
theorem inv_fixed_spec (sat : Nat) (hsat : 1 ≤ sat)
    (mw aw vw : List Nat) (hmw : CB.WF mw) (haw : CB.WF aw) (hvw : CB.WF vw)
    (lm : mw.length = sat) (la : aw.length = sat) (lv : vw.length = sat)
    (hodd : CB.val mw % 2 = 1) (hadj : CB.val aw < CB.val mw)
    (H : ((Inverter.new sat mw aw).inv sat vw).gZero = true) :
    (((Inverter.new sat mw aw).inv sat vw).isSome = true ↔ Nat.gcd (CB.val vw) (CB.val mw) = 1) ∧
    ((Inverter.new sat mw aw).inv sat vw).negative = false ∧
    (((Inverter.new sat mw aw).inv sat vw).isSome = true →
      CB.val ((Inverter.new sat mw aw).inv sat vw).value < CB.val mw ∧
      CB.val ((Inverter.new sat mw aw).inv sat vw).value * CB.val vw ≡ CB.val aw [MOD CB.val mw]) := by
  have hn := geometry sat
  have hl : (fromUint mw (nlimbsFor (sat * 64))).length = nlimbsFor (sat * 64) :=
    (fromUint_spec mw _ hmw (by rw [lm]; omega)).1
  have e : (Inverter.new sat mw aw).inv sat vw =
      finishInv ⟨fromUint mw (nlimbsFor (sat * 64)), fromUint aw (nlimbsFor (sat * 64)), invMod2_62 mw⟩ sat
        (dsLoop (fromUint mw (nlimbsFor (sat * 64))) (invMod2_62 mw)
          (iterations (ubits (fromUint mw (nlimbsFor (sat * 64)))) (ubits (fromUint vw (nlimbsFor (sat * 64)))))
          ⟨1, fromUint mw (nlimbsFor (sat * 64)), fromUint vw (nlimbsFor (sat * 64)), uzero (nlimbsFor (sat * 64)),
            fromUint aw (nlimbsFor (sat * 64))⟩).d
        (dsLoop (fromUint mw (nlimbsFor (sat * 64))) (invMod2_62 mw)
          (iterations (ubits (fromUint mw (nlimbsFor (sat * 64)))) (ubits (fromUint vw (nlimbsFor (sat * 64)))))
          ⟨1, fromUint mw (nlimbsFor (sat * 64)), fromUint vw (nlimbsFor (sat * 64)), uzero (nlimbsFor (sat * 64)),
            fromUint aw (nlimbsFor (sat * 64))⟩).f
        (dsLoop (fromUint mw (nlimbsFor (sat * 64))) (invMod2_62 mw)
          (iterations (ubits (fromUint mw (nlimbsFor (sat * 64)))) (ubits (fromUint vw (nlimbsFor (sat * 64)))))
          ⟨1, fromUint mw (nlimbsFor (sat * 64)), fromUint vw (nlimbsFor (sat * 64)), uzero (nlimbsFor (sat * 64)),
            fromUint aw (nlimbsFor (sat * 64))⟩).g 0 := by
    simp only [Inverter.inv, Inverter.new, divsteps, hl, Bool.false_eq_true, if_false]
  rw [e] at H ⊢
  obtain ⟨a, b, _, d⟩ := inv_after_loop sat _ _ hsat hn mw aw vw hmw haw hvw lm la lv hodd hadj _ rfl H 0
  exact ⟨a, b, d⟩

/-- `SafeGcdInverter::inv_vartime`, given that the `while g != 0` loop ended within the model's fuel -/
theorem inv_vartime_spec (sat : Nat) (hsat : 1 ≤ sat)
    (mw aw vw : List Nat) (hmw : CB.WF mw) (haw : CB.WF aw) (hvw : CB.WF vw)
    (lm : mw.length = sat) (la : aw.length = sat) (lv : vw.length = sat)
    (hodd : CB.val mw % 2 = 1) (hadj : CB.val aw < CB.val mw)
    (H : ((Inverter.new sat mw aw).invVartime sat vw).gZero = true) :
    (((Inverter.new sat mw aw).invVartime sat vw).isSome = true ↔ Nat.gcd (CB.val vw) (CB.val mw) = 1) ∧
    ((Inverter.new sat mw aw).invVartime sat vw).negative = false ∧
    (((Inverter.new sat mw aw).invVartime sat vw).isSome = true →
      CB.val ((Inverter.new sat mw aw).invVartime sat vw).value < CB.val mw ∧
      CB.val ((Inverter.new sat mw aw).invVartime sat vw).value * CB.val vw ≡ CB.val aw [MOD CB.val mw]) := by
  have hn := geometry sat
  have hl : (fromUint mw (nlimbsFor (sat * 64))).length = nlimbsFor (sat * 64) :=
    (fromUint_spec mw _ hmw (by rw [lm]; omega)).1
  obtain ⟨k, hk⟩ := dsVtLoop_eq (fromUint mw (nlimbsFor (sat * 64))) (invMod2_62 mw)
    (vtFuel (nlimbsFor (sat * 64)))
    ⟨1, fromUint mw (nlimbsFor (sat * 64)), fromUint vw (nlimbsFor (sat * 64)), uzero (nlimbsFor (sat * 64)),
      fromUint aw (nlimbsFor (sat * 64))⟩ 0
  have e : (Inverter.new sat mw aw).invVartime sat vw =
      finishInv ⟨fromUint mw (nlimbsFor (sat * 64)), fromUint aw (nlimbsFor (sat * 64)), invMod2_62 mw⟩ sat
        (dsVtLoop (fromUint mw (nlimbsFor (sat * 64))) (invMod2_62 mw) (vtFuel (nlimbsFor (sat * 64)))
          ⟨1, fromUint mw (nlimbsFor (sat * 64)), fromUint vw (nlimbsFor (sat * 64)), uzero (nlimbsFor (sat * 64)),
            fromUint aw (nlimbsFor (sat * 64))⟩ 0).1.d
        (dsVtLoop (fromUint mw (nlimbsFor (sat * 64))) (invMod2_62 mw) (vtFuel (nlimbsFor (sat * 64)))
          ⟨1, fromUint mw (nlimbsFor (sat * 64)), fromUint vw (nlimbsFor (sat * 64)), uzero (nlimbsFor (sat * 64)),
            fromUint aw (nlimbsFor (sat * 64))⟩ 0).1.f
        (dsVtLoop (fromUint mw (nlimbsFor (sat * 64))) (invMod2_62 mw) (vtFuel (nlimbsFor (sat * 64)))
          ⟨1, fromUint mw (nlimbsFor (sat * 64)), fromUint vw (nlimbsFor (sat * 64)), uzero (nlimbsFor (sat * 64)),
            fromUint aw (nlimbsFor (sat * 64))⟩ 0).1.g
        (dsVtLoop (fromUint mw (nlimbsFor (sat * 64))) (invMod2_62 mw) (vtFuel (nlimbsFor (sat * 64)))
          ⟨1, fromUint mw (nlimbsFor (sat * 64)), fromUint vw (nlimbsFor (sat * 64)), uzero (nlimbsFor (sat * 64)),
            fromUint aw (nlimbsFor (sat * 64))⟩ 0).2 := by
    simp only [Inverter.invVartime, Inverter.new, divstepsVartime, hl]
  rw [e] at H ⊢
  rw [hk] at H ⊢
  obtain ⟨a, b, _, d⟩ := inv_after_loop sat _ k hsat hn mw aw vw hmw haw hvw lm la lv hodd hadj _ rfl H
    (dsVtLoop (fromUint mw (nlimbsFor (sat * 64))) (invMod2_62 mw) (vtFuel (nlimbsFor (sat * 64)))
          ⟨1, fromUint mw (nlimbsFor (sat * 64)), fromUint vw (nlimbsFor (sat * 64)), uzero (nlimbsFor (sat * 64)),
            fromUint aw (nlimbsFor (sat * 64))⟩ 0).2
  exact ⟨a, b, d⟩

/-- `SafeGcdInverter::gcd(f, g)` / `gcd_vartime` for an ODD `f`, given that the loop reached `g = 0` -/
theorem gcd_fixed_spec (vartime : Bool) (sat : Nat) (hsat : 1 ≤ sat)
    (fw gw : List Nat) (hfw : CB.WF fw) (hgw : CB.WF gw) (lf : fw.length = sat) (lg : gw.length = sat)
    (hodd : CB.val fw % 2 = 1)
    (H : (gcdFixed vartime sat fw gw).gZero = true) :
    (gcdFixed vartime sat fw gw).negative = false ∧
    CB.val (gcdFixed vartime sat fw gw).value = Nat.gcd (CB.val fw) (CB.val gw) := by
  have hn := geometry sat
  have hl : (fromUint fw (nlimbsFor (sat * 64))).length = nlimbsFor (sat * 64) :=
    (fromUint_spec fw _ hfw (by rw [lf]; omega)).1
  cases vartime with
  | false =>
    have key := gcd_after_loop sat (nlimbsFor (sat * 64))
      (iterations (ubits (fromUint fw (nlimbsFor (sat * 64)))) (ubits (fromUint gw (nlimbsFor (sat * 64)))))
      hsat hn fw gw (uone (nlimbsFor (sat * 64))) (invMod2_62 fw) hfw hgw lf lg hodd _ rfl
    simp only [gcdFixed, divsteps, hl, Bool.false_eq_true, if_false] at H ⊢
    exact key H
  | true =>
    obtain ⟨k, hk⟩ := dsVtLoop_eq (fromUint fw (nlimbsFor (sat * 64))) (invMod2_62 fw)
      (vtFuel (nlimbsFor (sat * 64)))
      ⟨1, fromUint fw (nlimbsFor (sat * 64)), fromUint gw (nlimbsFor (sat * 64)), uzero (nlimbsFor (sat * 64)),
        uone (nlimbsFor (sat * 64))⟩ 0
    have key := gcd_after_loop sat (nlimbsFor (sat * 64)) k
      hsat hn fw gw (uone (nlimbsFor (sat * 64))) (invMod2_62 fw) hfw hgw lf lg hodd _ rfl
    simp only [gcdFixed, divstepsVartime, hl, if_true] at H ⊢
    rw [hk] at H ⊢
    exact key H

end CB.SafeGcd
