/-
  CB.Lemmas.C10Sound — SOUNDNESS of `SafeGcdInverter::inv(_vartime)` without any iteration bound.

  `is_some = f.eq(ONE) | f.eq(MINUS_ONE)` does not look at `g`, and the loop invariants of C10Loop
  (`d·x ≡ f·adj (mod M)`, `d ∈ (−2M, M)`, `gcd(f, g) = gcd(M, x)`) hold after ANY number of trips.  So whenever the
  inverter reports `is_some`, after however many batches and whatever `g` is at that point:
    * `gcd(x, M) = gcd(±1, g) = 1`,
    * `norm(d, f = −1)` is the representative of `±d` in `[0, M)`, read back unchanged through `to_uint`,
    * `norm(d)·x ≡ ±d·x ≡ (±f)·adj = adj (mod M)`.
  Non-negativity of the normalised value (`to_uint`'s assertion) follows from `d ∈ (−2M, M)` alone.
  Nothing here uses `g = 0`; compare `inv_after_loop` (C10Final), which adds the converse `gcd = 1 ⇒ is_some`
  from `g = 0`.
-/
import CB.Lemmas.C10Final
namespace CB.SafeGcd

/-- `finishInv` after ANY number `k` of `divsteps` trips from the inverter's initial state (no hypothesis on `g`) -/
theorem inv_after_loop_sound (sat n k : Nat) (hsat : 1 ≤ sat) (hn : 64 * sat + 64 ≤ 62 * n)
    (mw aw vw : List Nat) (hmw : CB.WF mw) (haw : CB.WF aw) (hvw : CB.WF vw)
    (lm : mw.length = sat) (la : aw.length = sat) (lv : vw.length = sat)
    (hodd : CB.val mw % 2 = 1) (hadj : CB.val aw < CB.val mw)
    (s : DS)
    (hs : s = dsLoop (fromUint mw n) (invMod2_62 mw) k ⟨1, fromUint mw n, fromUint vw n, uzero n, fromUint aw n⟩)
    (trips : Nat) :
    (finishInv ⟨fromUint mw n, fromUint aw n, invMod2_62 mw⟩ sat s.d s.f s.g trips).negative = false ∧
    ((finishInv ⟨fromUint mw n, fromUint aw n, invMod2_62 mw⟩ sat s.d s.f s.g trips).isSome = true →
      Nat.gcd (CB.val vw) (CB.val mw) = 1 ∧
      CB.val (finishInv ⟨fromUint mw n, fromUint aw n, invMod2_62 mw⟩ sat s.d s.f s.g trips).value < CB.val mw ∧
      CB.val (finishInv ⟨fromUint mw n, fromUint aw n, invMod2_62 mw⟩ sat s.d s.f s.g trips).value * CB.val vw
        ≡ CB.val aw [MOD CB.val mw]) := by
  have hn2 : 2 ≤ n := by omega
  have hn1 : 1 ≤ n := by omega
  obtain ⟨lfm, wfm, uvm⟩ := uval_fromUint mw n hmw (by rw [lm]; exact hn)
  obtain ⟨lfv, wfv, uvv⟩ := uval_fromUint vw n hvw (by rw [lv]; exact hn)
  obtain ⟨lfa, wfa, uva⟩ := uval_fromUint aw n haw (by rw [la]; exact hn)
  have hMlt := val_lt_two_pow mw hmw
  have hXlt := val_lt_two_pow vw hvw
  rw [lm] at hMlt; rw [lv] at hXlt
  have hcap := cap_of_geometry sat n hn
  have hinv := inverse_of_words mw hodd
  generalize hM : CB.val mw = M at *
  generalize hX : CB.val vw = X at *
  generalize hA : CB.val aw = A at *
  generalize hmm : fromUint mw n = m at *
  generalize hinvv : invMod2_62 mw = inverse at *
  have hMpos : 0 < M := by omega
  have hMi : (0 : Int) < (M : Int) := by exact_mod_cast hMpos
  have hBd : ((M : Nat) : Int) ≤ 2 ^ (64 * sat) := by exact_mod_cast (le_of_lt hMlt)
  have hBdX : ((X : Nat) : Int) ≤ 2 ^ (64 * sat) := by exact_mod_cast (le_of_lt hXlt)
  -- the initial state satisfies both invariants
  have i1 : FGI n (2 ^ (64 * sat)) (Int.gcd (M : Int) (X : Int)) ⟨1, m, fromUint vw n, uzero n, fromUint aw n⟩ :=
    ⟨lfm, lfv, wfm, wfv, by show uval m % 2 = 1; rw [uvm]; exact_mod_cast hodd,
     by show |uval m| ≤ _; rw [uvm, abs_of_nonneg (Int.natCast_nonneg _)]; exact hBd,
     by show |uval (fromUint vw n)| ≤ _; rw [uvv, abs_of_nonneg (Int.natCast_nonneg _)]; exact hBdX,
     by show Int.gcd (uval m) (uval (fromUint vw n)) = _; rw [uvm, uvv]⟩
  have i2 : DEI n m (X : Int) (A : Int) ⟨1, m, fromUint vw n, uzero n, fromUint aw n⟩ :=
    ⟨uzero_length n, lfa, WF62_uzero n, wfa,
     by show -(2 * uval m) < uval (uzero n); rw [uval_uzero n hn1, uvm]; linarith,
     by show uval (uzero n) < uval m; rw [uval_uzero n hn1, uvm]; exact hMi,
     by show -(2 * uval m) < uval (fromUint aw n); rw [uva, uvm]; have := Int.natCast_nonneg A; linarith,
     by show uval (fromUint aw n) < uval m; rw [uva, uvm]; exact_mod_cast hadj,
     by show uval (uzero n) * (X : Int) ≡ uval m * (A : Int) [ZMOD uval m]
        rw [uval_uzero n hn1, zero_mul]
        exact (Int.modEq_zero_iff_dvd.mpr ⟨(A : Int), rfl⟩).symm,
     by show uval (fromUint aw n) * (X : Int) ≡ uval (fromUint vw n) * (A : Int) [ZMOD uval m]
        rw [uva, uvv, mul_comm]⟩
  obtain ⟨F, D⟩ := dsLoop_inv n (2 ^ (64 * sat)) (Int.gcd (M : Int) (X : Int)) hn2 hcap m inverse (X : Int) (A : Int)
    wfm lfm (by rw [uvm]; exact hMi) (by rw [uvm]; exact_mod_cast hodd) (by rw [uvm]; exact hBd)
    (by rw [uvm]; exact hinv) k _ i1 i2
  rw [← hs] at F D
  have hfne : s.f ≠ [] := by
    intro h0; have := F.lf; rw [h0] at this; simp at this; omega
  have hdne : s.d ≠ [] := by
    intro h0; have := D.ld; rw [h0] at this; simp at this; omega
  have eone : ueq s.f (uone s.f.length) = true ↔ uval s.f = 1 := by
    rw [ueq_uval s.f _ F.wf (WF62_uone _) (uone_length _).symm hfne, uval_uone _ (by rw [F.lf]; exact hn1)]
  have emone : ueq s.f (uminusOne s.f.length) = true ↔ uval s.f = -1 := by
    rw [ueq_uval s.f _ F.wf (WF62_uminusOne _) (uminusOne_length _).symm hfne,
      uval_uminusOne _ (by rw [F.lf]; exact hn1)]
  -- `f = ±1` forces `gcd(M, X) = gcd(f, g) = 1`, whatever `g` is
  have hgcd1 : (uval s.f = 1 ∨ uval s.f = -1) → Nat.gcd X M = 1 := by
    intro h
    have hg := F.gcd
    rw [Int.gcd_natCast_natCast] at hg
    rw [Nat.gcd_comm, ← hg]
    rcases h with h | h
    · rw [h]; exact Int.one_gcd
    · rw [h, Int.neg_gcd]; exact Int.one_gcd
  -- norm
  have hcap4 : 4 * uval m ≤ ((Q ^ s.d.length : Nat) : Int) := by
    rw [D.ld, uvm]
    have : (0 : Int) < 2 ^ (64 * sat) := by positivity
    nlinarith
  obtain ⟨nl, nw, n0, n1, nc⟩ := norm_spec m s.d (ueq s.f (uminusOne s.f.length)) wfm D.wd (by rw [D.ld, lfm]) hdne
    (by rw [uvm]; exact hMi) D.d1 D.d2 hcap4
  generalize hret : norm m s.d (ueq s.f (uminusOne s.f.length)) = ret at *
  have hrne : ret ≠ [] := by
    intro h0; rw [h0] at nl; exact hdne (List.length_eq_zero_iff.mp (by simpa using nl.symm))
  obtain ⟨rneg, rval⟩ := uval_nonneg_eq ret nw hrne n0
  obtain ⟨_, _, tv⟩ := toUint_spec ret sat nw (by rw [nl, D.ld]; omega)
  rw [uvm] at n1 nc
  have hrlt : uvalN ret < M := by
    have : ((uvalN ret : Nat) : Int) < (M : Int) := by rw [rval]; exact n1
    exact_mod_cast this
  have hvalue : CB.val (toUint ret sat) = uvalN ret := by
    rw [tv]; exact Nat.mod_eq_of_lt (by omega)
  show uisNeg (norm m s.d (ueq s.f (uminusOne s.f.length))) = false ∧
    ((ueq s.f (uone s.f.length) || ueq s.f (uminusOne s.f.length)) = true →
      Nat.gcd X M = 1 ∧
      CB.val (toUint (norm m s.d (ueq s.f (uminusOne s.f.length))) sat) < M ∧
      CB.val (toUint (norm m s.d (ueq s.f (uminusOne s.f.length))) sat) * X ≡ A [MOD M])
  rw [hret]
  refine ⟨rneg, ?_⟩
  intro hs1
  rw [hvalue]
  rw [Bool.or_eq_true, eone, emone] at hs1
  refine ⟨hgcd1 hs1, hrlt, ?_⟩
  apply Int.natCast_modEq_iff.mp
  push_cast
  rw [rval]
  rcases hs1 with h1 | h1
  · have hanti : ueq s.f (uminusOne s.f.length) = false := by
      cases hc : ueq s.f (uminusOne s.f.length) with
      | false => rfl
      | true => have := emone.mp hc; omega
    rw [hanti] at nc
    simp only [Bool.false_eq_true, if_false] at nc
    have cd := D.cd
    rw [uvm, h1] at cd
    simpa using (Int.ModEq.mul_right (X : Int) nc).trans cd
  · have hanti : ueq s.f (uminusOne s.f.length) = true := emone.mpr h1
    rw [hanti] at nc
    simp only [if_true] at nc
    have cd := Int.ModEq.neg D.cd
    rw [uvm, h1] at cd
    have e1 : -uval s.d * (X : Int) = -(uval s.d * (X : Int)) := by ring
    have := Int.ModEq.mul_right (X : Int) nc
    rw [e1] at this
    simpa using this.trans cd

/-- `SafeGcdInverter::new(m, adj).inv(value)`: soundness, no hypothesis on the trip count -/
theorem inv_fixed_sound (sat : Nat) (hsat : 1 ≤ sat)
    (mw aw vw : List Nat) (hmw : CB.WF mw) (haw : CB.WF aw) (hvw : CB.WF vw)
    (lm : mw.length = sat) (la : aw.length = sat) (lv : vw.length = sat)
    (hodd : CB.val mw % 2 = 1) (hadj : CB.val aw < CB.val mw) :
    ((Inverter.new sat mw aw).inv sat vw).negative = false ∧
    (((Inverter.new sat mw aw).inv sat vw).isSome = true →
      Nat.gcd (CB.val vw) (CB.val mw) = 1 ∧
      CB.val ((Inverter.new sat mw aw).inv sat vw).value < CB.val mw ∧
      CB.val ((Inverter.new sat mw aw).inv sat vw).value * CB.val vw ≡ CB.val aw [MOD CB.val mw]) := by
  have hn := geometry sat
  have hl : (fromUint mw (nlimbsFor (sat * 64))).length = nlimbsFor (sat * 64) :=
    (fromUint_spec mw _ hmw (by rw [lm]; omega)).1
  have e : (Inverter.new sat mw aw).inv sat vw =
      finishInv ⟨fromUint mw (nlimbsFor (sat * 64)), fromUint aw (nlimbsFor (sat * 64)), invMod2_62 mw⟩ sat
        (dsLoop (fromUint mw (nlimbsFor (sat * 64))) (invMod2_62 mw)
          (iterations (ubits (fromUint mw (nlimbsFor (sat * 64)))) (ubits (fromUint vw (nlimbsFor (sat * 64)))))
          ⟨1, fromUint mw (nlimbsFor (sat * 64)), fromUint vw (nlimbsFor (sat * 64)), uzero (nlimbsFor (sat * 64)),
            fromUint aw (nlimbsFor (sat * 64))⟩).d
        (dsLoop (fromUint mw (nlimbsFor (sat * 64))) (invMod2_62 mw)
          (iterations (ubits (fromUint mw (nlimbsFor (sat * 64)))) (ubits (fromUint vw (nlimbsFor (sat * 64)))))
          ⟨1, fromUint mw (nlimbsFor (sat * 64)), fromUint vw (nlimbsFor (sat * 64)), uzero (nlimbsFor (sat * 64)),
            fromUint aw (nlimbsFor (sat * 64))⟩).f
        (dsLoop (fromUint mw (nlimbsFor (sat * 64))) (invMod2_62 mw)
          (iterations (ubits (fromUint mw (nlimbsFor (sat * 64)))) (ubits (fromUint vw (nlimbsFor (sat * 64)))))
          ⟨1, fromUint mw (nlimbsFor (sat * 64)), fromUint vw (nlimbsFor (sat * 64)), uzero (nlimbsFor (sat * 64)),
            fromUint aw (nlimbsFor (sat * 64))⟩).g 0 := by
    simp only [Inverter.inv, Inverter.new, divsteps, hl, Bool.false_eq_true, if_false]
  rw [e]
  exact inv_after_loop_sound sat _ _ hsat hn mw aw vw hmw haw hvw lm la lv hodd hadj _ rfl 0

/-- the vartime loop from the inverter's initial state with ANY fuel: soundness of `finishInv` on its result -/
theorem inv_vartime_sound_fuel (sat fuel : Nat) (hsat : 1 ≤ sat)
    (mw aw vw : List Nat) (hmw : CB.WF mw) (haw : CB.WF aw) (hvw : CB.WF vw)
    (lm : mw.length = sat) (la : aw.length = sat) (lv : vw.length = sat)
    (hodd : CB.val mw % 2 = 1) (hadj : CB.val aw < CB.val mw)
    (r : DS × Nat)
    (hr : r = dsVtLoop (fromUint mw (nlimbsFor (sat * 64))) (invMod2_62 mw) fuel
          ⟨1, fromUint mw (nlimbsFor (sat * 64)), fromUint vw (nlimbsFor (sat * 64)), uzero (nlimbsFor (sat * 64)),
            fromUint aw (nlimbsFor (sat * 64))⟩ 0) :
    (finishInv ⟨fromUint mw (nlimbsFor (sat * 64)), fromUint aw (nlimbsFor (sat * 64)), invMod2_62 mw⟩ sat
        r.1.d r.1.f r.1.g r.2).negative = false ∧
    ((finishInv ⟨fromUint mw (nlimbsFor (sat * 64)), fromUint aw (nlimbsFor (sat * 64)), invMod2_62 mw⟩ sat
        r.1.d r.1.f r.1.g r.2).isSome = true →
      Nat.gcd (CB.val vw) (CB.val mw) = 1 ∧
      CB.val (finishInv ⟨fromUint mw (nlimbsFor (sat * 64)), fromUint aw (nlimbsFor (sat * 64)), invMod2_62 mw⟩ sat
        r.1.d r.1.f r.1.g r.2).value < CB.val mw ∧
      CB.val (finishInv ⟨fromUint mw (nlimbsFor (sat * 64)), fromUint aw (nlimbsFor (sat * 64)), invMod2_62 mw⟩ sat
        r.1.d r.1.f r.1.g r.2).value * CB.val vw ≡ CB.val aw [MOD CB.val mw]) := by
  obtain ⟨k, hk⟩ := dsVtLoop_eq (fromUint mw (nlimbsFor (sat * 64))) (invMod2_62 mw) fuel
    ⟨1, fromUint mw (nlimbsFor (sat * 64)), fromUint vw (nlimbsFor (sat * 64)), uzero (nlimbsFor (sat * 64)),
      fromUint aw (nlimbsFor (sat * 64))⟩ 0
  rw [← hr] at hk
  exact inv_after_loop_sound sat _ k hsat (geometry sat) mw aw vw hmw haw hvw lm la lv hodd hadj r.1 hk r.2

/-- `SafeGcdInverter::inv_vartime`: soundness, whether or not the `while g != 0` loop ended within the fuel -/
theorem inv_vartime_sound (sat : Nat) (hsat : 1 ≤ sat)
    (mw aw vw : List Nat) (hmw : CB.WF mw) (haw : CB.WF aw) (hvw : CB.WF vw)
    (lm : mw.length = sat) (la : aw.length = sat) (lv : vw.length = sat)
    (hodd : CB.val mw % 2 = 1) (hadj : CB.val aw < CB.val mw) :
    ((Inverter.new sat mw aw).invVartime sat vw).negative = false ∧
    (((Inverter.new sat mw aw).invVartime sat vw).isSome = true →
      Nat.gcd (CB.val vw) (CB.val mw) = 1 ∧
      CB.val ((Inverter.new sat mw aw).invVartime sat vw).value < CB.val mw ∧
      CB.val ((Inverter.new sat mw aw).invVartime sat vw).value * CB.val vw ≡ CB.val aw [MOD CB.val mw]) := by
  have hl : (fromUint mw (nlimbsFor (sat * 64))).length = nlimbsFor (sat * 64) :=
    (fromUint_spec mw _ hmw (by rw [lm]; have := geometry sat; omega)).1
  have e : (Inverter.new sat mw aw).invVartime sat vw =
      finishInv ⟨fromUint mw (nlimbsFor (sat * 64)), fromUint aw (nlimbsFor (sat * 64)), invMod2_62 mw⟩ sat
        (dsVtLoop (fromUint mw (nlimbsFor (sat * 64))) (invMod2_62 mw) (vtFuel (nlimbsFor (sat * 64)))
          ⟨1, fromUint mw (nlimbsFor (sat * 64)), fromUint vw (nlimbsFor (sat * 64)), uzero (nlimbsFor (sat * 64)),
            fromUint aw (nlimbsFor (sat * 64))⟩ 0).1.d
        (dsVtLoop (fromUint mw (nlimbsFor (sat * 64))) (invMod2_62 mw) (vtFuel (nlimbsFor (sat * 64)))
          ⟨1, fromUint mw (nlimbsFor (sat * 64)), fromUint vw (nlimbsFor (sat * 64)), uzero (nlimbsFor (sat * 64)),
            fromUint aw (nlimbsFor (sat * 64))⟩ 0).1.f
        (dsVtLoop (fromUint mw (nlimbsFor (sat * 64))) (invMod2_62 mw) (vtFuel (nlimbsFor (sat * 64)))
          ⟨1, fromUint mw (nlimbsFor (sat * 64)), fromUint vw (nlimbsFor (sat * 64)), uzero (nlimbsFor (sat * 64)),
            fromUint aw (nlimbsFor (sat * 64))⟩ 0).1.g
        (dsVtLoop (fromUint mw (nlimbsFor (sat * 64))) (invMod2_62 mw) (vtFuel (nlimbsFor (sat * 64)))
          ⟨1, fromUint mw (nlimbsFor (sat * 64)), fromUint vw (nlimbsFor (sat * 64)), uzero (nlimbsFor (sat * 64)),
            fromUint aw (nlimbsFor (sat * 64))⟩ 0).2 := by
    simp only [Inverter.invVartime, Inverter.new, divstepsVartime, hl]
  rw [e]
  exact inv_vartime_sound_fuel sat _ hsat mw aw vw hmw haw hvw lm la lv hodd hadj _ rfl

/-- Montgomery bookkeeping (pure arithmetic): `x·(aR) ≡ R²` and `R·R⁻¹ ≡ 1` give `(x·R⁻¹)·a ≡ 1 (mod M)` -/
theorem monty_retrieved_one (M X V A a R Rinv : Nat) (hR : R * Rinv ≡ 1 [MOD M])
    (hv : V = a * R % M) (hadjv : A = R * R % M) (m1 : X * V ≡ A [MOD M]) :
    (X * Rinv % M) * (a % M) ≡ 1 [MOD M] := by
  have h1 : X * (a * R) ≡ R * R [MOD M] := by
    have e1 : X * V ≡ X * (a * R) [MOD M] := by
      rw [hv]; exact Nat.ModEq.mul_left _ (Nat.mod_modEq _ _)
    have e2 : A ≡ R * R [MOD M] := by rw [hadjv]; exact Nat.mod_modEq _ _
    exact e1.symm.trans (m1.trans e2)
  have h2 : (X * Rinv % M) * (a % M) ≡ X * Rinv * a [MOD M] :=
    Nat.ModEq.mul (Nat.mod_modEq _ _) (Nat.mod_modEq _ _)
  refine h2.trans ?_
  calc X * Rinv * a = X * Rinv * a * 1 := by ring
    _ ≡ X * Rinv * a * (R * Rinv) [MOD M] := Nat.ModEq.mul_left _ hR.symm
    _ = X * (a * R) * (Rinv * Rinv) := by ring
    _ ≡ R * R * (Rinv * Rinv) [MOD M] := Nat.ModEq.mul_right _ h1
    _ = (R * Rinv) * (R * Rinv) := by ring
    _ ≡ 1 * 1 [MOD M] := Nat.ModEq.mul hR hR

end CB.SafeGcd
