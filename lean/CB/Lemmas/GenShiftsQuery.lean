/-
  CB.Lemmas.GenShiftsQuery — the hand-written model of the bit queries over a limb slice (`lzAux`/`leadingZeros`,
  `tzLoop`/`trailingZeros`, `toLoop`/`trailingOnes`, `bitLoop`/`bitCt` of CB/Model/Bits.lean — what T05.5 of
  CB/Props/C05.lean is proved about) IS the translated source (`CB.Gen.Shifts.Bits.{leading_zeros, trailing_zeros,
  trailing_ones, bit}` of CB/Gen/Shifts.lean, regenerated from src/uint/bits.rs on every run), for EVERY slice length with
  `64·len < 2^32` (the `u32` count of the source does not wrap then; the model counts in `Nat`).
  Also here: the word primitive `u64::trailing_zeros` of the model (`wtz`, a 64-step recursion on `Nat`) is `BitVec.ctz`.
  No `bv_decide` in this file.
-/
import CB.Lemmas.GenShifts
namespace CB.GenShifts
open CB CB.Shift CB.Bits CB.Gen CB.Gen.Shifts CB.GenBits

/-! ## `wtz` is `BitVec.ctz` -/

theorem tzAux_zero (f : Nat) : tzAux f 0 = f := by
  induction f with
  | zero => rfl
  | succ f ih => simp [tzAux, ih]; omega

theorem tzAux_least (f : Nat) : ∀ (x k : Nat), k < f → (∀ j, j < k → x.testBit j = false) → x.testBit k = true →
    tzAux f x = k := by
  induction f with
  | zero => intro x k hk; omega
  | succ f ih =>
    intro x k hk hlow hbit
    cases k with
    | zero =>
      have h1 : x % 2 = 1 := by simpa [Nat.testBit_zero] using hbit
      simp [tzAux, h1]
    | succ k =>
      have h0 : ¬ x % 2 = 1 := by
        have := hlow 0 (by omega)
        simpa [Nat.testBit_zero] using this
      have hrec := ih (x / 2) k (by omega)
        (fun j hj => by rw [← Nat.testBit_succ]; exact hlow (j + 1) (by omega))
        (by rw [← Nat.testBit_succ]; exact hbit)
      simp only [tzAux, h0, if_false, hrec]
      omega

theorem ctz_le_64 (x : BitVec 64) : (BitVec.ctz x).toNat ≤ 64 := by
  rw [BitVec.ctz_eq_reverse_clz]
  have := BitVec.clz_le (x := x.reverse); simpa [BitVec.le_def] using this

theorem wtz_bv (x : BitVec 64) : wtz x.toNat = (BitVec.ctz x).toNat := by
  by_cases h0 : x = 0#64
  · have hge : ¬ (BitVec.ctz x).toNat < 64 := by
      intro h
      have := (BitVec.ctz_lt_iff_ne_zero (x := x)).mp (by simpa [BitVec.lt_def] using h)
      exact this h0
    have hle := ctz_le_64 x
    rw [h0] at hge hle ⊢
    rw [wtz, show (0#64 : BitVec 64).toNat = 0 from rfl, tzAux_zero]
    omega
  · have hlt : (BitVec.ctz x).toNat < 64 := by
      have := (BitVec.ctz_lt_iff_ne_zero (x := x)).mpr h0
      simpa [BitVec.lt_def] using this
    exact tzAux_least 64 x.toNat _ hlt
      (fun j hj => by rw [← BitVec.getLsbD]; exact BitVec.getLsbD_false_of_lt_ctz hj)
      (by rw [← BitVec.getLsbD]; exact BitVec.getLsbD_true_ctz_of_ne_zero h0)

/-- `Limb::trailing_zeros` / `Limb::trailing_ones` of the source are the model's `wtz` / `wto` -/
theorem limbTrailingZeros_bridge (x : BitVec 64) : wtz x.toNat = (Limb.trailing_zeros x).toNat := by
  have := ctz_le_64 x
  rw [limb_trailing_zeros_meaning, BitVec.toNat_setWidth, Nat.mod_eq_of_lt (by omega), wtz_bv]
theorem limbTrailingOnes_bridge (x : BitVec 64) : wto x.toNat = (Limb.trailing_ones x).toNat := by
  have := ctz_le_64 (~~~x)
  rw [limb_trailing_ones_meaning, BitVec.toNat_setWidth, Nat.mod_eq_of_lt (by omega), wto, wnot_bv, wtz_bv]

theorem limb_lz_le (x : BitVec 64) : (Limb.leading_zeros x).toNat ≤ 64 := by
  rw [← limbLeadingZeros_bridge, wlz]; omega
theorem limb_tz_le (x : BitVec 64) : (Limb.trailing_zeros x).toNat ≤ 64 := by
  rw [← limbTrailingZeros_bridge, wtz_bv]; exact ctz_le_64 x
theorem limb_to_le (x : BitVec 64) : (Limb.trailing_ones x).toNat ≤ 64 := by
  rw [← limbTrailingOnes_bridge, wto, wnot_bv, wtz_bv]; exact ctz_le_64 _

/-- one step of a masked `u32` count: no wrap while the total stays below `2^32` -/
theorem count_step (c : BitVec 32) (ne : BitVec 64) (z : BitVec 32) (hz : z.toNat ≤ 64) (hc : c.toNat + 64 < 2 ^ 32) :
    (c + Choice.if_true_u32 ne z).toNat = c.toNat + ifTrueU32 ne.toNat z.toNat ∧
    ifTrueU32 ne.toNat z.toNat ≤ 64 := by
  have hle : ifTrueU32 ne.toNat z.toNat ≤ z.toNat := by unfold ifTrueU32; exact Nat.and_le_left
  rw [BitVec.toNat_add, ← ifTrueU32_bridge, Nat.mod_eq_of_lt (by omega)]
  exact ⟨rfl, by omega⟩

theorem and_not_toNat (ne w : BitVec 64) : (ne &&& ~~~w).toNat = ne.toNat &&& choiceNot w.toNat := by
  rw [BitVec.toNat_and, choiceNot, wnot_bv]

/-! ## `leading_zeros` (descending) -/

theorem lzAux_cons (l : Nat) (ls : List Nat) :
    lzAux (l :: ls) = ((lzAux ls).1 + ifTrueU32 (lzAux ls).2 (wlz l), (lzAux ls).2 &&& choiceNot (fromWordNonzero l)) := by
  rw [lzAux]

theorem lz_loop_bridge (a : List (BitVec 64)) (hL : 64 * a.length < 2 ^ 32) :
    ∀ (n : Nat) (c : BitVec 32) (ne : BitVec 64), n ≤ a.length → (c.toNat, ne.toNat) = lzAux (nats (a.drop n)) →
      c.toNat ≤ 64 * (a.length - n) →
      ((Bits.leading_zeros_loop1 a n c ne).1.toNat, (Bits.leading_zeros_loop1 a n c ne).2.toNat) = lzAux (nats a) := by
  intro n
  induction n with
  | zero =>
    intro c ne _ h _
    rw [lz_loop_zero]
    simpa using h
  | succ n ih =>
    intro c ne hn h hc
    have hn' : n < a.length := by omega
    have ⟨e1, e2⟩ := count_step c ne (Limb.leading_zeros (a.getD n 0#64)) (limb_lz_le _) (by omega)
    rw [lz_loop_succ]
    refine ih _ _ (by omega) ?_ (by rw [e1]; omega)
    rw [drop_eq_getD_cons a n hn']
    simp only [nats, List.map_cons] at h ⊢
    rw [lzAux_cons, ← h, e1, and_not_toNat, ← limbLeadingZeros_bridge, ← fromWordNonzero_bridge']

/-- **`uint::bits::leading_zeros`** -/
theorem leadingZeros_bridge (a : List (BitVec 64)) (hL : 64 * a.length < 2 ^ 32) :
    leadingZeros (nats a) = (Bits.leading_zeros a).toNat := by
  have h := lz_loop_bridge a hL a.length 0#32 (~~~0#64) (Nat.le_refl _)
    (by rw [List.drop_of_length_le (Nat.le_refl _)]; rfl) (by simp)
  rw [lz_eq, leadingZeros, ← h]

/-! ## `trailing_zeros`, `trailing_ones` (ascending) -/

theorem tz_loop_bridge (a : List (BitVec 64)) :
    ∀ (n i : Nat) (c : BitVec 32) (ne : BitVec 64), i + n = a.length → c.toNat + 64 * n < 2 ^ 32 →
      (Bits.trailing_zeros_loop1 a n i c ne).1.toNat = tzLoop (nats (a.drop i)) c.toNat ne.toNat := by
  intro n
  induction n with
  | zero =>
    intro i c ne hi _
    rw [tz_loop_zero, List.drop_of_length_le (by omega)]
    rfl
  | succ n ih =>
    intro i c ne hi hc
    have hi' : i < a.length := by omega
    have ⟨e1, e2⟩ := count_step c ne (Limb.trailing_zeros (a.getD i 0#64)) (limb_tz_le _) (by omega)
    rw [tz_loop_succ a n i c ne hi', ih _ _ _ (by omega) (by rw [e1]; omega), drop_eq_getD_cons a i hi']
    simp only [nats, List.map_cons]
    rw [tzLoop, e1, and_not_toNat, ← limbTrailingZeros_bridge, ← fromWordNonzero_bridge']

/-- **`uint::bits::trailing_zeros`** -/
theorem trailingZeros_bridge (a : List (BitVec 64)) (hL : 64 * a.length < 2 ^ 32) :
    trailingZeros (nats a) = (Bits.trailing_zeros a).toNat := by
  rw [tz_eq, tz_loop_bridge a a.length 0 0#32 (~~~0#64) (by omega) (by simpa using hL), trailingZeros]
  rfl

theorem to_loop_bridge (a : List (BitVec 64)) :
    ∀ (n i : Nat) (c : BitVec 32) (ne : BitVec 64), i + n = a.length → c.toNat + 64 * n < 2 ^ 32 →
      (Bits.trailing_ones_loop1 a n i c ne).1.toNat = toLoop (nats (a.drop i)) c.toNat ne.toNat := by
  intro n
  induction n with
  | zero =>
    intro i c ne hi _
    rw [to_loop_zero, List.drop_of_length_le (by omega)]
    rfl
  | succ n ih =>
    intro i c ne hi hc
    have hi' : i < a.length := by omega
    have ⟨e1, e2⟩ := count_step c ne (Limb.trailing_ones (a.getD i 0#64)) (limb_to_le _) (by omega)
    have eM : WMAX = (~~~0#64 : BitVec 64).toNat := by decide
    rw [to_loop_succ a n i c ne hi', ih _ _ _ (by omega) (by rw [e1]; omega), drop_eq_getD_cons a i hi']
    simp only [nats, List.map_cons]
    rw [toLoop, e1, BitVec.toNat_and, ← limbTrailingOnes_bridge, eM, ← fromWordEq_bridge']

/-- **`uint::bits::trailing_ones`** -/
theorem trailingOnes_bridge (a : List (BitVec 64)) (hL : 64 * a.length < 2 ^ 32) :
    trailingOnes (nats a) = (Bits.trailing_ones a).toNat := by
  rw [to_eq, to_loop_bridge a a.length 0 0#32 (~~~0#64) (by omega) (by simpa using hL), trailingOnes]
  rfl

/-! ## `bit` (constant-time scan) -/

theorem bit_loop_bridge (a : List (BitVec 64)) (hL : a.length ≤ 2 ^ 32) (lm : BitVec 32) (im : BitVec 64) :
    ∀ (n i : Nat) (r : BitVec 64), i + n = a.length →
      (Bits.bit_loop1 a lm im n i r).toNat = bitLoop lm.toNat im.toNat (nats (a.drop i)) i r.toNat := by
  intro n
  induction n with
  | zero =>
    intro i r hi
    rw [bit_loop_zero, List.drop_of_length_le (by omega)]
    rfl
  | succ n ih =>
    intro i r hi
    have hi' : i < a.length := by omega
    have ei : (BitVec.ofNat 32 i).toNat = i := by rw [BitVec.toNat_ofNat, Nat.mod_eq_of_lt (by omega)]
    rw [bit_loop_succ a lm im n i r hi', ih _ _ (by omega), drop_eq_getD_cons a i hi']
    simp only [nats, List.map_cons]
    rw [bitLoop, BitVec.toNat_or, ← ifTrueWord_bridge, ← fromU32Eq_bridge, ei, BitVec.toNat_and]

/-- **`uint::bits::bit`** -/
theorem bitCt_bridge (a : List (BitVec 64)) (hL : a.length ≤ 2 ^ 32) (idx : BitVec 32) :
    bitCt (nats a) idx.toNat = (Bits.bit a idx).toNat := by
  have h64 : (idx % 64#32).toNat < 64 := by rw [mod64_toNat]; omega
  have e1 : (1#64 <<< (idx % 64#32) : BitVec 64).toNat = wshl 1 (idx.toNat % 64) := by
    rw [BitVec.shiftLeft_eq', mod64_toNat, ← wshl_bv]; rfl
  rw [bit_eq, bitCt, ← fromWordLsb_bridge', BitVec.ushiftRight_eq', mod64_toNat, ← wshr_bv,
    bit_loop_bridge a hL _ _ a.length 0 0#64 (by omega)]
  simp only [List.drop_zero, e1]
  have e2 : (idx / 64#32).toNat = idx.toNat / 64 := by rw [BitVec.toNat_udiv]; rfl
  rw [e2]
  rfl

end CB.GenShifts
