/-
  CB.Lemmas.Limbs — basic facts about little-endian limb lists and the word primitives.
-/
import CB.Model.Uint
namespace CB

theorem B_def : B = 18446744073709551616 := rfl
theorem B_pos : 0 < B := by decide
theorem WMAX_def : WMAX = 18446744073709551615 := rfl
theorem HALF_def : HALF = 9223372036854775808 := rfl
theorem B_eq_pow : B = 2 ^ 64 := by decide

@[simp] theorem val_nil : val [] = 0 := rfl
@[simp] theorem val_cons (x : Nat) (xs : List Nat) : val (x :: xs) = x + B * val xs := rfl

theorem WF_nil : WF [] := by intro x h; cases h
theorem WF_cons {x : Nat} {xs : List Nat} : WF (x :: xs) ↔ x < B ∧ WF xs := by
  constructor
  · intro h
    exact ⟨h x (List.mem_cons_self), fun y hy => h y (List.mem_cons_of_mem _ hy)⟩
  · intro ⟨h1, h2⟩ y hy
    cases hy with
    | head => exact h1
    | tail _ h => exact h2 y h

theorem val_lt {l : List Nat} (h : WF l) : val l < B ^ l.length := by
  induction l with
  | nil => simp
  | cons x xs ih =>
    have ⟨hx, hxs⟩ := WF_cons.mp h
    have := ih hxs
    simp only [val_cons, List.length_cons, Nat.pow_succ]
    have h2 : B * (val xs + 1) ≤ B * B ^ xs.length := Nat.mul_le_mul_left B this
    rw [Nat.mul_comm (B ^ xs.length) B]
    rw [Nat.mul_add] at h2
    omega

theorem toLimbs_length (n x : Nat) : (toLimbs n x).length = n := by
  induction n generalizing x with
  | zero => rfl
  | succ n ih => simp [toLimbs, ih]

theorem toLimbs_WF (n x : Nat) : WF (toLimbs n x) := by
  induction n generalizing x with
  | zero => exact WF_nil
  | succ n ih =>
    simp only [toLimbs]
    exact WF_cons.mpr ⟨Nat.mod_lt _ B_pos, ih _⟩

theorem val_toLimbs (n x : Nat) : val (toLimbs n x) = x % B ^ n := by
  induction n generalizing x with
  | zero => simp [toLimbs, Nat.mod_one]
  | succ n ih =>
    simp only [toLimbs, val_cons, ih, Nat.pow_succ]
    rw [Nat.mul_comm (B ^ n) B, Nat.mod_mul]

/-- every `n`-limb well-formed list is `toLimbs n` of its value -/
theorem toLimbs_val {l : List Nat} (h : WF l) : toLimbs l.length (val l) = l := by
  induction l with
  | nil => rfl
  | cons x xs ih =>
    have ⟨hx, hxs⟩ := WF_cons.mp h
    simp only [List.length_cons, toLimbs, val_cons]
    have h1 : (x + B * val xs) % B = x := by
      rw [Nat.add_mul_mod_self_left]; exact Nat.mod_eq_of_lt hx
    have h2 : (x + B * val xs) / B = val xs := by
      rw [Nat.add_mul_div_left _ _ B_pos, Nat.div_eq_of_lt hx, Nat.zero_add]
    rw [h1, h2, ih hxs]

/-- `val` is injective on well-formed lists of equal length. -/
theorem val_inj {a b : List Nat} (ha : WF a) (hb : WF b) (hl : a.length = b.length)
    (hv : val a = val b) : a = b := by
  rw [← toLimbs_val ha, ← toLimbs_val hb, hl, hv]

/-! ### word primitives -/

theorem adc_spec (a b c : Nat) :
    (adc a b c).1 + B * (adc a b c).2 = a + b + c ∧ (adc a b c).1 < B := by
  simp only [adc]
  exact ⟨Nat.mod_add_div _ _, Nat.mod_lt _ B_pos⟩

theorem adc_carry_lt {a b c : Nat} (ha : a < B) (hb : b < B) (hc : c < B) : (adc a b c).2 < B := by
  simp only [adc, B_def] at *
  omega

theorem adc_carry_le_one {a b c : Nat} (ha : a < B) (hb : b < B) (hc : c ≤ 1) : (adc a b c).2 ≤ 1 := by
  simp only [adc, B_def] at *
  omega

theorem sbb_spec {a b bw : Nat} (ha : a < B) (hb : b < B) (hbw : bw < B) :
    (sbb a b bw).1 < B ∧ ((sbb a b bw).2 = 0 ∨ (sbb a b bw).2 = WMAX) ∧
    (sbb a b bw).1 + (b + bw / HALF) = a + B * ((sbb a b bw).2 / HALF) := by
  simp only [sbb, B_def, HALF_def, WMAX_def] at *
  omega

end CB
