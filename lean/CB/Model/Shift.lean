/-
  CB.Model.Shift — shifts of `Limb`, `Uint<LIMBS>`, `Int<LIMBS>` and `BoxedUint`, modelled as the
  code computes them:
    src/limb/{shl,shr}.rs, src/uint/{shl,shr}.rs, src/int/{shl,shr}.rs, src/uint/boxed/{shl,shr}.rs,
    and the `u32` helpers of src/const_choice.rs they use.
  Conventions: a `ConstCtOption<T>` is a pair `(value, is_some mask)`; `.expect(..)` on a false mask
  is a panic = outer `Option.none`.  Limb counts are list lengths; `BITS = 64 * length`.
  Core Lean only.
-/
import CB.Model.Uint
namespace CB.Shift
open CB

/-! ### `u32` helpers (`src/const_choice.rs`) -/

def TWO32 : Nat := 4294967296
def TWO31 : Nat := 2147483648

/-- `!x` on a `u32`. -/
def u32not (x : Nat) : Nat := (TWO32 - 1) - x % TWO32
/-- `u32::wrapping_sub`. -/
def u32sub (x y : Nat) : Nat := (x + TWO32 - y % TWO32) % TWO32
/-- `u32::wrapping_neg`. -/
def u32neg (x : Nat) : Nat := (TWO32 - x % TWO32) % TWO32
/-- `ConstChoice::from_u32_lsb`: `(value as Word).wrapping_neg()`. -/
def fromU32Lsb (v : Nat) : Nat := wneg v
/-- `ConstChoice::from_u32_nonzero`: `(value | value.wrapping_neg()) >> 31`. -/
def fromU32Nonzero (v : Nat) : Nat := fromU32Lsb ((v ||| u32neg v) / TWO31)
/-- `ConstChoice::from_u32_eq`. -/
def fromU32Eq (x y : Nat) : Nat := choiceNot (fromU32Nonzero (x ^^^ y))
/-- `ConstChoice::from_u32_lt`: `(((!x) & y) | (((!x) | y) & (x - y))) >> 31`. -/
def fromU32Lt (x y : Nat) : Nat :=
  fromU32Lsb ((((u32not x) &&& y) ||| (((u32not x) ||| y) &&& (u32sub x y))) / TWO31)
/-- `ConstChoice::if_true_word`: `x & self.0`. -/
def ifTrueWord (c x : Nat) : Nat := x &&& c
/-- `ConstChoice::if_true_u32`: `x & (self.0 as u32)`. -/
def ifTrueU32 (c x : Nat) : Nat := x &&& (c % TWO32)
/-- `ConstChoice::from_word_msb`. -/
def fromWordMsb (w : Nat) : Nat := fromWordLsb (w / HALF)

/-- number of bits needed to write `x` (primitive `BITS - leading_zeros`; trusted Rust semantics) -/
def bitlen (x : Nat) : Nat := if x = 0 then 0 else Nat.log2 x + 1
/-- `u32::leading_zeros`. -/
def u32lz (x : Nat) : Nat := 32 - bitlen x
/-- `Word::leading_zeros`. -/
def wlz (x : Nat) : Nat := 64 - bitlen x

/-! ### word shifts -/

/-- `Word << s` for `s < 64`. -/
def wshl (x s : Nat) : Nat := (x * 2 ^ s) % B
/-- `Word >> s` for `s < 64`. -/
def wshr (x s : Nat) : Nat := x / 2 ^ s
/-- `Word::wrapping_shr(s)`: the shift amount is masked to 6 bits. -/
def wrappingShr (x s : Nat) : Nat := x / 2 ^ (s % 64)
/-- `Word::wrapping_shl(s)`. -/
def wrappingShl (x s : Nat) : Nat := (x * 2 ^ (s % 64)) % B

/-- `Limb::shl(shift)`; documented to panic when `shift` overflows `Limb::BITS`. `none` = panic. -/
def limbShl (x s : Nat) : Option Nat := if s < 64 then some (wshl x s) else none
/-- `Limb::shr(shift)`. -/
def limbShr (x s : Nat) : Option Nat := if s < 64 then some (wshr x s) else none
/-- `Limb::shl1`: `(self << 1, self >> HI_BIT)`. -/
def limbShl1 (x : Nat) : Nat × Nat := (wshl x 1, wshr x 63)
/-- `Limb::shr1`: `(self >> 1, self << HI_BIT)`. -/
def limbShr1 (x : Nat) : Nat × Nat := (wshr x 1, wshl x 63)

/-- `ConstCtOption::expect`: `assert!(is_some.is_true_vartime())`; `none` = panic. -/
def expect {α : Type} (o : α × Nat) : Option α := if o.2 = WMAX then some o.1 else none

/-! ### limb-wise OR (used by the wide shifts) -/
def ubitor : List Nat → List Nat → List Nat
  | a :: as, b :: bs => (a ||| b) :: ubitor as bs
  | _, _ => []

/-! ### `Uint::overflowing_shl_vartime` -/

/-- first loop: `limbs[i] = self.limbs[i - shift_num]` for `shift_num ≤ i < LIMBS`, zero below. -/
def shlMove (a : List Nat) (k : Nat) : List Nat := (List.replicate k 0 ++ a).take a.length

/-- second loop (ascending from `shift_num`): `limbs[i] = (limbs[i] << rem) | carry;
    carry = limbs[i] >> (64 - rem)`. -/
def shlCarry (rem : Nat) : List Nat → Nat → List Nat
  | [], _ => []
  | x :: xs, c => (wshl x rem ||| c) :: shlCarry rem xs (wshr x (64 - rem))

def overflowingShlVartime (a : List Nat) (s : Nat) : List Nat × Nat :=
  let n := a.length
  if s ≥ 64 * n then (uzero n, 0) else
  let k := s / 64
  let rem := s % 64
  let limbs := shlMove a k
  if rem = 0 then (limbs, WMAX) else
  (limbs.take k ++ shlCarry rem (limbs.drop k) 0, WMAX)

/-! ### `Uint::overflowing_shr_vartime` -/

/-- first loop: `limbs[i] = self.limbs[i + shift_num]` for `i < LIMBS - shift_num`; `fill` above
    (zero for `Uint`, the sign limb for `Int`). -/
def shrMove (a : List Nat) (k fill : Nat) : List Nat := a.drop k ++ List.replicate k fill

/-- second loop (DESCENDING from `LIMBS - shift_num - 1`): `limbs[i] = (limbs[i] >> rem) | carry;
    carry = limbs[i] << (64 - rem)`.  The recursion processes the tail (higher limbs) first; `c` is the
    carry entering the top limb; returns the limbs and the carry leaving limb 0. -/
def shrCarry (rem : Nat) : List Nat → Nat → List Nat × Nat
  | [], c => ([], c)
  | x :: xs, c =>
    let (r, c') := shrCarry rem xs c
    ((wshr x rem ||| c') :: r, wshl x (64 - rem))

def overflowingShrVartime (a : List Nat) (s : Nat) : List Nat × Nat :=
  let n := a.length
  if s ≥ 64 * n then (uzero n, 0) else
  let k := s / 64
  let rem := s % 64
  let limbs := shrMove a k 0
  if rem = 0 then (limbs, WMAX) else
  ((shrCarry rem (limbs.take (n - k)) 0).1 ++ limbs.drop (n - k), WMAX)

/-! ### the constant-time ladder (`overflowing_shl` / `overflowing_shr`) -/

/-- `u32::BITS - (Self::BITS - 1).leading_zeros()`. -/
def shiftBits (bits : Nat) : Nat := 32 - u32lz (bits - 1)

/-- `while i < shift_bits`: `k` = iterations left, `i` = loop counter. `none` = the inner `expect` panicked. -/
def shlLadder (shift : Nat) : Nat → Nat → List Nat → Option (List Nat)
  | 0, _, r => some r
  | k + 1, i, r =>
    match expect (overflowingShlVartime r (2 ^ i)) with
    | none => none
    | some sh => shlLadder shift k (i + 1) (uselect r sh (fromU32Lsb ((shift / 2 ^ i) % 2)))

def shrLadder (shift : Nat) : Nat → Nat → List Nat → Option (List Nat)
  | 0, _, r => some r
  | k + 1, i, r =>
    match expect (overflowingShrVartime r (2 ^ i)) with
    | none => none
    | some sh => shrLadder shift k (i + 1) (uselect r sh (fromU32Lsb ((shift / 2 ^ i) % 2)))

/-- `Uint::overflowing_shl`. Outer `none` = panic (never, see C05), inner pair = `ConstCtOption`. -/
def overflowingShl (a : List Nat) (s : Nat) : Option (List Nat × Nat) :=
  let bits := 64 * a.length
  let overflow := choiceNot (fromU32Lt s bits)
  match shlLadder (s % bits) (shiftBits bits) 0 a with
  | none => none
  | some r => some (uselect r (uzero a.length) overflow, choiceNot overflow)

def overflowingShr (a : List Nat) (s : Nat) : Option (List Nat × Nat) :=
  let bits := 64 * a.length
  let overflow := choiceNot (fromU32Lt s bits)
  match shrLadder (s % bits) (shiftBits bits) 0 a with
  | none => none
  | some r => some (uselect r (uzero a.length) overflow, choiceNot overflow)

/-- `ConstCtOption<Uint>::unwrap_or(def)`: `Uint::select(&def, &value, is_some)`. -/
def unwrapOr (o : List Nat × Nat) (d : List Nat) : List Nat := uselect d o.1 o.2

/-- `Uint::shl` (panics when `shift >= BITS`). -/
def ushl (a : List Nat) (s : Nat) : Option (List Nat) := (overflowingShl a s).bind expect
def ushr (a : List Nat) (s : Nat) : Option (List Nat) := (overflowingShr a s).bind expect
def ushlVartime (a : List Nat) (s : Nat) : Option (List Nat) := expect (overflowingShlVartime a s)
def ushrVartime (a : List Nat) (s : Nat) : Option (List Nat) := expect (overflowingShrVartime a s)
/-- `Uint::wrapping_shl`. -/
def wrappingShlU (a : List Nat) (s : Nat) : Option (List Nat) :=
  (overflowingShl a s).map fun o => unwrapOr o (uzero a.length)
def wrappingShrU (a : List Nat) (s : Nat) : Option (List Nat) :=
  (overflowingShr a s).map fun o => unwrapOr o (uzero a.length)
def wrappingShlVartimeU (a : List Nat) (s : Nat) : List Nat :=
  unwrapOr (overflowingShlVartime a s) (uzero a.length)
def wrappingShrVartimeU (a : List Nat) (s : Nat) : List Nat :=
  unwrapOr (overflowingShrVartime a s) (uzero a.length)

/-! ### double-width shifts -/

/-- `Uint::overflowing_shl_vartime_wide((lower, upper), shift)`. -/
def shlVartimeWide (lo hi : List Nat) (s : Nat) : Option ((List Nat × List Nat) × Nat) :=
  let n := lo.length
  let bits := 64 * n
  if s ≥ 2 * bits then some ((uzero n, uzero n), 0)
  else if s ≥ bits then
    match expect (overflowingShlVartime lo (s - bits)) with
    | none => none
    | some up => some ((uzero n, up), WMAX)
  else
    -- `upper_lo = lower.wrapping_shr_vartime(Self::BITS - shift)`: zero when `shift = 0`
    match expect (overflowingShlVartime lo s), expect (overflowingShlVartime hi s) with
    | some nl, some uh => some ((nl, ubitor (wrappingShrVartimeU lo (bits - s)) uh), WMAX)
    | _, _ => none

/-- `Uint::overflowing_shr_vartime_wide((lower, upper), shift)`. -/
def shrVartimeWide (lo hi : List Nat) (s : Nat) : Option ((List Nat × List Nat) × Nat) :=
  let n := lo.length
  let bits := 64 * n
  if s ≥ 2 * bits then some ((uzero n, uzero n), 0)
  else if s ≥ bits then
    match expect (overflowingShrVartime hi (s - bits)) with
    | none => none
    | some low => some ((low, uzero n), WMAX)
  else
    -- `lower_hi = upper.wrapping_shl_vartime(Self::BITS - shift)`: zero when `shift = 0`
    match expect (overflowingShrVartime hi s), expect (overflowingShrVartime lo s) with
    | some nu, some ll => some ((ubitor ll (wrappingShlVartimeU hi (bits - s)), nu), WMAX)
    | _, _ => none

/-! ### `shl_limb`, `overflowing_shl1`, `shr1_with_carry` (crate-internal) -/

/-- `while i < LIMBS` of `shl_limb`: `limb = self[i] << lshift; limb |= nz.if_true_word(self[i-1] >> rshift)`. -/
def shlLimbLoop (lshift rshift nz : Nat) : Nat → List Nat → List Nat
  | _, [] => []
  | prev, x :: xs => (wshl x lshift ||| ifTrueWord nz (wshr prev rshift)) :: shlLimbLoop lshift rshift nz x xs

/-- `Uint::shl_limb(shift)` for `0 <= shift < 64`: `(result, carry)`. -/
def shlLimb (a : List Nat) (shift : Nat) : List Nat × Nat :=
  let nz := fromU32Nonzero shift
  let rshift := ifTrueU32 nz (64 - shift)
  let carry := ifTrueWord nz (wrappingShr (a.getLastD 0) (64 - shift))
  match a with
  | [] => ([], carry)
  | x :: xs => (wshl x shift :: shlLimbLoop shift rshift nz x xs, carry)

/-- `Uint::overflowing_shl1` loop. -/
def shl1Loop : List Nat → Nat → List Nat × Nat
  | [], c => ([], c)
  | x :: xs, c =>
    let (r, cf) := shl1Loop xs (limbShl1 x).2
    (((limbShl1 x).1 ||| c) :: r, cf)
def overflowingShl1 (a : List Nat) : List Nat × Nat := shl1Loop a 0

/-- `Uint::shr1_with_carry` loop (descending). -/
def shr1Loop : List Nat → Nat → List Nat × Nat
  | [], c => ([], c)
  | x :: xs, c =>
    let (r, c') := shr1Loop xs c
    (((limbShr1 x).1 ||| c') :: r, (limbShr1 x).2)
/-- `(ret, ConstChoice::from_word_lsb(carry >> HI_BIT))`. -/
def shr1WithCarry (a : List Nat) : List Nat × Nat :=
  let (r, c) := shr1Loop a 0
  (r, fromWordLsb (wshr c 63))
def ushr1 (a : List Nat) : List Nat := (shr1WithCarry a).1

/-! ### `Int` arithmetic right shift (`src/int/shr.rs`) -/

/-- `Int::is_negative`: msb of the most significant word. -/
def isNegative (a : List Nat) : Nat := fromWordMsb (a.getLastD 0)

/-- `Int::overflowing_shr_vartime`. -/
def intOverflowingShrVartime (a : List Nat) (s : Nat) : List Nat × Nat :=
  let n := a.length
  let neg := isNegative a
  if s ≥ 64 * n then (uselect (uzero n) (umax n) neg, 0) else
  let base := selectWord 0 WMAX neg
  let k := s / 64
  let rem := s % 64
  let limbs := shrMove a k base
  if rem = 0 then (limbs, WMAX) else
  let carry0 := selectWord 0 WMAX neg
  let carry := carry0 ^^^ (wshr carry0 rem)
  ((shrCarry rem (limbs.take (n - k)) carry).1 ++ limbs.drop (n - k), WMAX)

def intShrLadder (shift : Nat) : Nat → Nat → List Nat → Option (List Nat)
  | 0, _, r => some r
  | k + 1, i, r =>
    match expect (intOverflowingShrVartime r (2 ^ i)) with
    | none => none
    | some sh => intShrLadder shift k (i + 1) (uselect r sh (fromU32Lsb ((shift / 2 ^ i) % 2)))

/-- `Int::overflowing_shr`: the value is NOT zeroed on overflow (`ConstCtOption::new(result, !overflow)`). -/
def intOverflowingShr (a : List Nat) (s : Nat) : Option (List Nat × Nat) :=
  let bits := 64 * a.length
  let overflow := choiceNot (fromU32Lt s bits)
  match intShrLadder (s % bits) (shiftBits bits) 0 a with
  | none => none
  | some r => some (r, choiceNot overflow)

/-- sign fill: `Self::select(&ZERO, &MINUS_ONE, self.is_negative())`. -/
def signFill (a : List Nat) : List Nat := uselect (uzero a.length) (umax a.length) (isNegative a)

def intShr (a : List Nat) (s : Nat) : Option (List Nat) := (intOverflowingShr a s).bind expect
def intShrVartime (a : List Nat) (s : Nat) : Option (List Nat) := expect (intOverflowingShrVartime a s)
def intWrappingShr (a : List Nat) (s : Nat) : Option (List Nat) :=
  (intOverflowingShr a s).map fun o => unwrapOr o (signFill a)
def intWrappingShrVartime (a : List Nat) (s : Nat) : List Nat :=
  unwrapOr (intOverflowingShrVartime a s) (signFill a)

/-! ### `BoxedUint` (`src/uint/boxed/{shl,shr}.rs`) -/

/-- `BoxedUint::shl_vartime_into(dest, shift)`; `none` = `None` (shift ≥ precision). -/
def boxedShlInto (dest self : List Nat) (s : Nat) : Option (List Nat) :=
  let n := self.length
  if s ≥ 64 * n then none else
  let k := s / 64
  let rem := s % 64
  let moved := dest.take k ++ self.take (n - k)
  if rem = 0 then some moved else
  some (moved.take k ++ shlCarry rem (moved.drop k) 0)

/-- ascending loop of `shr_vartime_into`: `dest[i] = dest[i] >> rem | dest[i+1] << (64-rem)`, the last
    limb only shifted. -/
def shrAsc (rem : Nat) : List Nat → List Nat
  | [] => []
  | [x] => [wshr x rem]
  | x :: y :: t => (wshr x rem ||| wshl y (64 - rem)) :: shrAsc rem (y :: t)

/-- `BoxedUint::shr_vartime_into(dest, shift)`. -/
def boxedShrInto (dest self : List Nat) (s : Nat) : Option (List Nat) :=
  let n := self.length
  if s ≥ 64 * n then none else
  let k := s / 64
  let rem := s % 64
  let moved := self.drop k ++ dest.drop (n - k)
  if rem = 0 then some moved else
  some (shrAsc rem (moved.take (n - k)) ++ moved.drop (n - k))

/-- subtle `Choice::from(bit as u8)` used as a select mask (subtle is trusted, not modelled). -/
def choiceMask (b : Nat) : Nat := if b = 0 then 0 else WMAX

/-- `overflowing_shl_assign` loop: `temp.set_zero(); self.shl_vartime_into(&mut temp, 1 << i).expect(..);
    self.ct_assign(&temp, bit)`. -/
def boxedShlLadder (shift : Nat) : Nat → Nat → List Nat → Option (List Nat)
  | 0, _, r => some r
  | k + 1, i, r =>
    match boxedShlInto (uzero r.length) r (2 ^ i) with
    | none => none
    | some t => boxedShlLadder shift k (i + 1) (uselect r t (choiceMask ((shift / 2 ^ i) % 2)))

def boxedShrLadder (shift : Nat) : Nat → Nat → List Nat → Option (List Nat)
  | 0, _, r => some r
  | k + 1, i, r =>
    match boxedShrInto (uzero r.length) r (2 ^ i) with
    | none => none
    | some t => boxedShrLadder shift k (i + 1) (uselect r t (choiceMask ((shift / 2 ^ i) % 2)))

/-- `BoxedUint::overflowing_shl`: `(result, overflow)` with overflow as a bool (subtle `Choice`). -/
def boxedOverflowingShl (a : List Nat) (s : Nat) : Option (List Nat × Bool) :=
  let bits := 64 * a.length
  let overflow := !(decide (s < bits))          -- `!shift.ct_lt(&bits_precision)` (subtle: trusted)
  match boxedShlLadder (s % bits) (shiftBits bits) 0 a with
  | none => none
  | some r => some (if overflow then uzero a.length else r, overflow)   -- conditional_set_zero

def boxedOverflowingShr (a : List Nat) (s : Nat) : Option (List Nat × Bool) :=
  let bits := 64 * a.length
  let overflow := !(decide (s < bits))
  match boxedShrLadder (s % bits) (shiftBits bits) 0 a with
  | none => none
  | some r => some (if overflow then uzero a.length else r, overflow)

/-- `BoxedUint::shl`: `assert!(!overflow)`. -/
def boxedShl (a : List Nat) (s : Nat) : Option (List Nat) :=
  (boxedOverflowingShl a s).bind fun o => if o.2 then none else some o.1
def boxedShr (a : List Nat) (s : Nat) : Option (List Nat) :=
  (boxedOverflowingShr a s).bind fun o => if o.2 then none else some o.1
/-- `BoxedUint::shl_vartime -> Option<Self>` (here `none` is the `None` result, not a panic). -/
def boxedShlVartime (a : List Nat) (s : Nat) : Option (List Nat) := boxedShlInto (uzero a.length) a s
def boxedShrVartime (a : List Nat) (s : Nat) : Option (List Nat) := boxedShrInto (uzero a.length) a s
/-- `BoxedUint::wrapping_shl_vartime`: the failure of `shl_vartime_into` is ignored, result stays zero. -/
def boxedWrappingShlVartime (a : List Nat) (s : Nat) : List Nat :=
  (boxedShlInto (uzero a.length) a s).getD (uzero a.length)
def boxedWrappingShrVartime (a : List Nat) (s : Nat) : List Nat :=
  (boxedShrInto (uzero a.length) a s).getD (uzero a.length)

/-- `BoxedUint::shl1_assign`: limb 0 first, then `(limbs[i] << 1) | carry` ascending; returns carry. -/
def boxedShl1Loop : List Nat → Nat → List Nat × Nat
  | [], c => ([], c)
  | x :: xs, c =>
    let (r, cf) := boxedShl1Loop xs (wshr x 63)
    ((wshl x 1 ||| c) :: r, cf)
def boxedShl1 (a : List Nat) : List Nat × Nat :=
  match a with
  | [] => ([], 0)         -- `self.limbs[0]` would panic; boxed values have ≥ 1 limb
  | x :: xs =>
    let (r, cf) := boxedShl1Loop xs (wshr x 63)
    (wshl x 1 :: r, cf)

/-- `BoxedUint::shr1_assign`: ascending, `limbs[i-1] |= (limbs[i] & 1) << 63; limbs[i] >>= 1`. -/
def boxedShr1 : List Nat → List Nat
  | [] => []
  | [x] => [wshr x 1]
  | x :: y :: t => (wshr x 1 ||| wshl (y &&& 1) 63) :: boxedShr1 (y :: t)

end CB.Shift
