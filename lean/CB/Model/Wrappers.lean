/-
  CB.Model.Wrappers — every public producer of `NonZero<T>` / `Odd<T>` (src/non_zero.rs, src/odd.rs,
  `to_nz` / `to_odd` of src/{limb,uint,int}.rs and src/uint/boxed.rs, src/uint/boxed/from.rs,
  `ConstCtOption::expect` of src/const_choice.rs), for T ∈ {Limb, Uint<N>, Int<N>, BoxedUint},
  each AS THE CODE COMPUTES IT (which gate it evaluates, which decoder it calls).

  A `Limb` is a word (`Nat`), `Uint<N>` / `Int<N>` / `BoxedUint` are little-endian limb lists.
  Algorithms owned by other properties are called on values: byte / hex decoding of `Uint`
  (`toLimbs n (beVal bs)`; C16), `Uint::MAX >> 1` (C05), `wrapping_neg_if` (C04, from CB.Model.Uint).
  Core Lean only.
-/
import CB.Model.Uint
namespace CB.Wrappers
open CB

/-- outcome of a producer: a value, an absent `CtOption`/`ConstCtOption`, a panic, an `Err(..)` -/
inductive Res (α : Type) where
  | ok : α → Res α
  | none : Res α
  | panic : Res α
  | err : String → Res α
  deriving DecidableEq, Repr

/-- `CtOption::new(Self(n), choice)` observed through `Option::from` / `is_some` -/
def gate {α : Type} (v : α) (m : Nat) : Res α := if m = WMAX then .ok v else .none

/-- `ConstCtOption::expect` / `CtOption::unwrap`: `assert!(is_some)` -/
def expectRes {α : Type} : Res α → Res α
  | .ok v => .ok v
  | _ => .panic

/-! ## predicates as the code evaluates them -/

/-- `<Limb as Zero>::is_zero` = `self.ct_eq(&Limb::ZERO)` (subtle `u64::ct_eq`: `!nonzero(x ^ y)`) -/
def limbIsZero (x : Nat) : Nat := fromWordEq x 0
/-- `Limb::is_odd` = `Choice::from(self.0 as u8 & 1)` -/
def limbIsOdd (x : Nat) : Nat := fromWordLsb ((x % 256) &&& 1)
/-- `<Uint as Zero>::is_zero` = `Uint::eq(self, &Uint::ZERO)` (also `Int`: `Uint::eq(&lhs.0, &rhs.0)`) -/
def uintIsZero (a : List Nat) : Nat := ueq a (uzero a.length)
/-- `Integer::is_odd` (trait default, used by `Odd::new`): first limb's `Limb::is_odd`, `0` if no limb -/
def integerIsOdd : List Nat → Nat
  | [] => 0
  | x :: _ => limbIsOdd x
/-- `BoxedUint::is_zero`: `fold(Choice(1), |acc, limb| acc & limb.is_zero())` -/
def boxedIsZero (a : List Nat) : Nat := a.foldl (fun acc x => acc &&& limbIsZero x) WMAX
/-- `Int::is_negative` = `from_word_msb(most_significant_word)` -/
def intIsNegative (a : List Nat) : Nat := fromWordLsb (a.getLastD 0 / HALF)

/-! ## Limb -/

def nzLimbNew (x : Nat) : Res Nat := gate x (choiceNot (limbIsZero x))
def nzLimbNewUnwrap (x : Nat) : Res Nat := if fromWordNonzero x = WMAX then .ok x else .panic
def limbToNz (x : Nat) : Res Nat := gate x (fromWordNonzero x)
def limbToNzExpect (x : Nat) : Res Nat := expectRes (limbToNz x)
/-- `core::num::NonZeroU{bits}::new(v)` (the std guard) followed by the widening `Limb::from_u{bits}` -/
def primNew (bits v : Nat) : Option Nat := if v % 2 ^ bits = 0 then none else some (v % 2 ^ bits)
def nzLimbFromPrim (bits v : Nat) : Res Nat :=
  match primNew bits v with
  | none => .none
  | some p => .ok p
def nzLimbOne : Res Nat := .ok 1
def nzLimbMax : Res Nat := .ok WMAX
/-- hand-written `Default for NonZero<T>`: `Self(T::ONE)` -/
def nzLimbDefault : Res Nat := .ok 1
/-- `Default for Odd<T>` (`T: num_traits::One`): `Self(T::one())`, and `Limb::one() = Limb::ONE` -/
def oddLimbDefault : Res Nat := .ok 1

/-- big-endian / little-endian value of a byte string (C16) -/
def beVal (bs : List Nat) : Nat := bs.foldl (fun acc b => acc * 256 + b % 256) 0
def leVal : List Nat → Nat
  | [] => 0
  | b :: bs => b % 256 + 256 * leVal bs

def nzLimbFromBeBytes (bs : List Nat) : Res Nat := nzLimbNew (beVal bs % B)
def nzLimbFromLeBytes (bs : List Nat) : Res Nat := nzLimbNew (leVal bs % B)
def nzLimbSelect (a b c : Nat) : Res Nat := .ok (selectWord a b c)
def nzLimbZeroize (_ : Nat) : Res Nat := .ok 0

/-! ## Uint<N> / Int<N> -/

def nzNew (a : List Nat) : Res (List Nat) := gate a (choiceNot (uintIsZero a))
def nzNewUnwrap (a : List Nat) : Res (List Nat) := if isNonzero a = WMAX then .ok a else .panic
/-- `Uint::to_nz` / `Int::to_nz`: `ConstCtOption::new(NonZero(self), self.is_nonzero())` -/
def uintToNz (a : List Nat) : Res (List Nat) := gate a (isNonzero a)
/-- `Uint::to_odd` / `Int::to_odd`: `ConstCtOption::new(Odd(self), self.is_odd())` -/
def uintToOdd (a : List Nat) : Res (List Nat) := gate a (isOdd a)
/-- `NonZero::<BoxedUint>::new`: `CtOption::new(Self(n), !n.is_zero())` with `BoxedUint::is_zero` -/
def nzBoxedNew (a : List Nat) : Res (List Nat) := gate a (choiceNot (boxedIsZero a))
/-- `Odd::new` (`T: Integer`, trait `is_odd`) — also `BoxedUint::to_odd` -/
def oddNew (a : List Nat) : Res (List Nat) := gate a (integerIsOdd a)
/-- `NonZero::<Uint>::from_u8..from_u128` after the std guard; `Uint::from_u128` asserts `LIMBS >= 2` -/
def nzFromPrim (n bits v : Nat) : Res (List Nat) :=
  match primNew bits v with
  | none => .none
  | some p => if bits = 128 ∧ n < 2 then .panic else .ok (toLimbs n p)
def nzOne (n : Nat) : Res (List Nat) := .ok (uone n)
def nzMax (n : Nat) : Res (List Nat) := .ok (umax n)
/-- `Int::MAX = Uint::MAX >> 1` -/
def intMaxLimbs (n : Nat) : List Nat := toLimbs n (B ^ n / 2 - 1)
def nzIntMax (n : Nat) : Res (List Nat) := .ok (intMaxLimbs n)
def nzDefault (n : Nat) : Res (List Nat) := .ok (uone n)
/-- `Default for Odd<Uint>` / `Odd<Int>`: `Self(T::one())` = `Uint::ONE` / `Int::ONE` -/
def oddDefault (n : Nat) : Res (List Nat) := .ok (uone n)
/-- `Default for Odd<BoxedUint>`: `Self(BoxedUint::one())`, the one-limb value 1 -/
def oddBoxedDefault : Res (List Nat) := .ok [1]

/-- `Uint::from_be_slice` / `from_le_slice` on exactly `8n` bytes (C16) -/
def uintFromBeBytes (n : Nat) (bs : List Nat) : List Nat := toLimbs n (beVal bs)
def uintFromLeBytes (n : Nat) (bs : List Nat) : List Nat := toLimbs n (leVal bs)

def nzFromBeBytes (n : Nat) (bs : List Nat) : Res (List Nat) := nzNew (uintFromBeBytes n bs)
def nzFromLeBytes (n : Nat) (bs : List Nat) : Res (List Nat) := nzNew (uintFromLeBytes n bs)
def nzFromBeByteArray (n : Nat) (bs : List Nat) : Res (List Nat) := nzNew (uintFromBeBytes n bs)
/-- `NonZero::from_le_byte_array` (src/non_zero.rs:193-195): `Self::new(T::from_le_byte_array(bytes))` -/
def nzFromLeByteArray (n : Nat) (bs : List Nat) : Res (List Nat) := nzNew (uintFromLeBytes n bs)

/-- one hexadecimal character (upper or lower case), by code point -/
def hexNibble? (c : Nat) : Option Nat :=
  if 48 ≤ c ∧ c ≤ 57 then some (c - 48)
  else if 65 ≤ c ∧ c ≤ 70 then some (c - 55)
  else if 97 ≤ c ∧ c ≤ 102 then some (c - 87)
  else none
/-- decode byte pairs; `none` if any character is not a hex digit or the length is odd -/
def hexBytes? : List Nat → Option (List Nat)
  | [] => some []
  | [_] => none
  | h :: l :: rest =>
    match hexNibble? h, hexNibble? l, hexBytes? rest with
    | some x, some y, some bs => some ((x * 16 + y) :: bs)
    | _, _, _ => none
/-- `Uint::from_be_hex`: panics unless exactly `16 n` hex characters (C16 for the nibble decoder) -/
def uintFromBeHex (n : Nat) (cs : List Nat) : Res (List Nat) :=
  if cs.length ≠ 16 * n then .panic else
  match hexBytes? cs with
  | none => .panic
  | some bs => .ok (uintFromBeBytes n bs)
def uintFromLeHex (n : Nat) (cs : List Nat) : Res (List Nat) :=
  if cs.length ≠ 16 * n then .panic else
  match hexBytes? cs with
  | none => .panic
  | some bs => .ok (uintFromLeBytes n bs)
/-- `assert!(uint.is_odd().is_true_vartime(), "number must be odd")` -/
def assertOdd : Res (List Nat) → Res (List Nat)
  | .ok a => if isOdd a = WMAX then .ok a else .panic
  | r => r
def oddFromBeHex (n : Nat) (cs : List Nat) : Res (List Nat) := assertOdd (uintFromBeHex n cs)
/-- `Odd::<Uint>::from_le_hex` (src/odd.rs:73-77): `let uint = Uint::<LIMBS>::from_le_hex(hex);` -/
def oddFromLeHex (n : Nat) (cs : List Nat) : Res (List Nat) := assertOdd (uintFromLeHex n cs)

/-- `conditional_select` of `NonZero` / `Odd` over `Uint` / `Int`: limb-wise `Word::conditional_select` -/
def wrapSelect (a b : List Nat) (c : Nat) : Res (List Nat) := .ok (uselect a b c)
/-- provided `conditional_swap(a, b, c)`: `t = *a; a.conditional_assign(b, c); b.conditional_assign(&t, c)` -/
def wrapSwap (a b : List Nat) (c : Nat) : List Nat × List Nat :=
  let t := a
  let a' := uselect a b c
  let b' := uselect b t c
  (a', b')

/-! ## random generation over a word stream (the harness RNG yields the stream's words in order) -/

/-- `Uint::try_random`: `LIMBS` draws of `Limb::try_random` (`try_next_u64`); `none` = RNG error -/
def uintTryRandom : Nat → List Nat → Option (List Nat × List Nat)
  | 0, s => some ([], s)
  | _ + 1, [] => none
  | n + 1, w :: s =>
    match uintTryRandom n s with
    | none => none
    | some (a, s') => some (w % B :: a, s')

/-- `NonZero::<T>::try_random`: `loop { if let Some(r) = Self::new(T::try_random(rng)?).into() { break Ok(r) } }`.
    `fuel` bounds the iterations (see `C12.nzTryRandom_fuel`); result = (value, words consumed). -/
def nzTryRandomFuel (n : Nat) : Nat → List Nat → Nat → Res (List Nat × Nat)
  | 0, _, _ => .err "fuel"
  | fuel + 1, s, used =>
    match uintTryRandom n s with
    | none => .err "exhausted"
    | some (a, s') =>
      match nzNew a with
      | .ok v => .ok (v, used + n)
      | _ => nzTryRandomFuel n fuel s' (used + n)
def nzTryRandom (n : Nat) (s : List Nat) : Res (List Nat × Nat) := nzTryRandomFuel n (s.length + 1) s 0
/-- provided `Random::random` over an infallible RNG (stream, then all-ones words for ever) -/
def nzRandomInf (n : Nat) (s : List Nat) : Res (List Nat × Nat) :=
  nzTryRandom n (s ++ List.replicate (2 * n) WMAX)

/-- `ret.limbs[0] |= Limb::ONE` -/
def setLsb : List Nat → List Nat
  | [] => []
  | x :: xs => (x ||| 1) :: xs
/-- `Random for Odd<Uint>`: one `Uint::try_random`, then force the low bit -/
def oddTryRandom (n : Nat) (s : List Nat) : Res (List Nat × Nat) :=
  match uintTryRandom n s with
  | none => .err "exhausted"
  | some (a, _) => .ok (setLsb a, n)
def oddRandomInf (n : Nat) (s : List Nat) : Res (List Nat × Nat) :=
  oddTryRandom n (s ++ List.replicate n WMAX)

/-- `random_bits_core` full limbs: `nonzero_limbs - 1` draws of 8 bytes; returns (limbs, rest, last word drawn) -/
def fullLimbs : Nat → List Nat → Nat → Option (List Nat × List Nat × Nat)
  | 0, s, prev => some ([], s, prev)
  | _ + 1, [], _ => none
  | k + 1, w :: s, _ =>
    match fullLimbs k s (w % B) with
    | none => none
    | some (ls, s', p) => some (w % B :: ls, s', p)

/-- `Odd::<BoxedUint>::random(rng, bit_length)` = `BoxedUint::random_bits` (panics on RNG error), low bit forced.
    `random_bits_core` as written: the 8-byte `buffer` is reused, and when `0 < bit_length % 64 <= 32` only its
    first 4 bytes are refilled for the last limb (the stale upper half is cut off by `mask`). -/
def oddBoxedRandom (bits : Nat) (s : List Nat) : Res (List Nat × Nat) :=
  let k := (bits + 63) / 64                      -- limbs_for_precision
  let zero := List.replicate (if k = 0 then 1 else k) 0     -- `From<Vec<Limb>>` pads the empty vector
  if bits = 0 then .ok (setLsb zero, 0) else
  let partial_ := bits % 64
  let msk := WMAX / 2 ^ ((64 - partial_) % 64)
  match fullLimbs (k - 1) s 0 with
  | none => .panic
  | some (ls, s', prev) =>
    match s' with
    | [] => .panic
    | w :: _ =>
      let buf := if 0 < partial_ ∧ partial_ ≤ 32 then (w % B) % 2 ^ 32 + 2 ^ 32 * (prev / 2 ^ 32) else w % B
      .ok (setLsb (ls ++ [buf &&& msk]), k)

/-! ## deserialization (bincode framing of serdect's byte arrays is trusted, mirrored here) -/

/-- bincode `deserialize_byte_buf` + serdect `ExactLength`: u64 length prefix, payload, trailing bytes ignored -/
def bincodeArray (n : Nat) (bs : List Nat) : Res (List Nat) :=
  if bs.length < 8 then .err "decode" else
  let len := leVal (bs.take 8)
  let rest := bs.drop 8
  if rest.length < len then .err "decode" else
  if len ≠ 8 * n then .err "custom" else
  .ok (uintFromLeBytes n (rest.take len))
/-- `Deserialize for NonZero<T>`: `if value.is_zero() { Err(invalid_value("zero")) } else { Ok(Self(value)) }` -/
def nzDeser (n : Nat) (bs : List Nat) : Res (List Nat) :=
  match bincodeArray n bs with
  | .ok a => if uintIsZero a = WMAX then .err "zero" else .ok a
  | r => r
/-- `Deserialize for Odd<T>`: `Option::from(Self::new(value)).ok_or(invalid_value("even"))` -/
def oddDeser (n : Nat) (bs : List Nat) : Res (List Nat) :=
  match bincodeArray n bs with
  | .ok a => (match oddNew a with | .ok v => .ok v | _ => .err "even")
  | r => r
def nzLimbDeser (bs : List Nat) : Res Nat :=
  if bs.length < 8 then .err "decode" else
  let x := leVal (bs.take 8)
  if limbIsZero x = WMAX then .err "zero" else .ok x

/-! ## conversions -/

/-- `Int::abs_sign`: `(self.wrapping_neg_if(is_negative).0, is_negative)` -/
def intAbsSign (a : List Nat) : List Nat × Nat :=
  let sign := intIsNegative a
  (wrappingNegIf a sign, sign)
/-- `NonZero::<Int>::abs_sign`: `(NonZero::<Uint>::new_unwrap(abs), sign)` -/
def nzIntAbsSign (a : List Nat) : Res (List Nat × Nat) :=
  let (abs, sign) := intAbsSign a
  match nzNewUnwrap abs with
  | .ok v => .ok (v, sign)
  | _ => .panic

/-- `BoxedUint::zero_with_precision` limb count (`From<Vec<Limb>>` pads the empty vector to one limb) -/
def limbsForPrecision (bits : Nat) : Nat := if (bits + 63) / 64 = 0 then 1 else (bits + 63) / 64
/-- `NonZero::<BoxedUint>::widen` = `NonZero(self.0.widen(bits))`; `assert!(bits >= self.bits_precision())` -/
def nzBoxedWiden (a : List Nat) (bits : Nat) : Res (List Nat) :=
  if bits < 64 * a.length then .panic else
  .ok (a ++ List.replicate (limbsForPrecision bits - a.length) 0)
/-- `From<Odd<Uint>> for Odd<BoxedUint>` (and `&Odd<Uint>`): the same limbs -/
def oddIntoBoxed (a : List Nat) : Res (List Nat) := .ok a
/-- `Odd::as_nz_ref` / `AsRef<NonZero<T>>`: pointer reinterpretation of the same value -/
def oddAsNzRef (a : List Nat) : Res (List Nat) := .ok a
/-- `Clone`, `MontyParams::modulus`, `BoxedMontyParams::modulus`: the stored wrapper -/
def wrapSame (a : List Nat) : Res (List Nat) := .ok a
/-- `Zeroize for NonZero<T>` / `Odd<T>`: `self.0.zeroize()` -/
def wrapZeroize (a : List Nat) : Res (List Nat) := .ok (uzero a.length)

/-! ## coverage round — observers of a wrapper (`AsRef`, `Serialize`): they hand out the wrapped value itself -/

/-- `k` little-endian bytes of `v` (C16 owns the limb-level encoder; used on values here) -/
def leBytesOf : Nat → Nat → List Nat
  | 0, _ => []
  | k + 1, v => v % 256 :: leBytesOf k (v / 256)

/-- bincode framing of serdect's byte array on output: `u64` LE length, then the `8·LIMBS` LE bytes -/
def bincodeFrame (a : List Nat) : List Nat := leBytesOf 8 (8 * a.length) ++ leBytesOf (8 * a.length) (val a)

/-- `Serialize for NonZero<T>` (src/non_zero.rs:378-386) / `for Odd<T>` (src/odd.rs:242-250): `self.0.serialize(..)` -/
def wrapSer (a : List Nat) : Res (List Nat) := .ok (bincodeFrame a)
/-- the same for `T = Limb`: `Word::serialize`, 8 LE bytes -/
def wrapLimbSer (x : Nat) : Res (List Nat) := .ok (leBytesOf 8 x)

/-- `AsRef<T> for NonZero<T>` (src/non_zero.rs:198-202) / `for Odd<T>` (src/odd.rs:80-84): `&self.0` -/
def wrapAsRef (a : List Nat) : Res (List Nat) := .ok a
def wrapLimbAsRef (x : Nat) : Res Nat := .ok x
/-- `AsRef<[Limb]> for Odd<T>` (src/odd.rs:86-93): `self.0.as_ref()` — the limbs of the wrapped value -/
def oddAsRefLimbs (a : List Nat) : Res (List Nat) := .ok a

end CB.Wrappers
