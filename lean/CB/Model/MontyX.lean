/-
  CB.Model.MontyX — property C08, coverage round: the remaining public surface of the three Montgomery-form
  types as additional operations of the history state machine of `CB.Model.Monty`.

  Mirrors
    src/modular/monty_form.rs         from_montgomery, as_montgomery_mut, params, Retrieve::retrieve, the `Monty`
                                      trait impl (new_params_vartime, new, zero, one, params, as_montgomery,
                                      lincomb_vartime), ConstantTimeEq for MontyParams / MontyForm, Zeroize for both
    src/modular/const_monty_form.rs   from_montgomery, as_montgomery_mut, ct_eq, Default, Zero::{zero,is_zero},
                                      Retrieve::retrieve, DefaultIsZeroes (Zeroize)
    src/modular/boxed_monty_form.rs   new_with_arc, bits_precision, is_zero, is_nonzero, params, to_montgomery,
                                      from_montgomery, Retrieve::retrieve, the `Monty` trait impl, Zeroize
  The constructor / accessor forms that only forward (`Monty::new`, `new_with_arc`, `Monty::zero`, `Monty::one`,
  `Default::default`, `Zero::zero`, `Retrieve::retrieve`, `Monty::as_montgomery`, `to_montgomery`, `params`) share the
  model function of the inherent form they forward to (`MontyOp.new/.zero/.one`, `opRetrieve`, `State.get`,
  `State.params`); what is new here are the operations that WRITE a caller-supplied Montgomery representative, the
  trait `lincomb_vartime`, zeroization, and the read-only predicates (equality, zero test).
  `Monty::lincomb_vartime` forwards to the inherent `lincomb_vartime`, whose limb-level model and exactness proof
  belong to property C09 (`CB.Model.Lincomb`, `CB.P09.lincomb_exact`): here it is a value-level call.
  Core Lean only.
-/
import CB.Model.Monty
namespace CB.Monty
open CB

/-! ## `R⁻¹` in plain arithmetic: `64·n` halvings in ℤ/m (`m` odd, so `2⁻¹ = (m+1)/2`) -/

/-- `x / 2` in ℤ/m for odd `m`. -/
def halfMod (m x : Nat) : Nat := (x * ((m + 1) / 2)) % m

/-- `c` halvings. -/
def halves (m : Nat) : Nat → Nat → Nat
  | 0, x => x
  | c + 1, x => halves m c (halfMod m x)

/-- the residue whose Montgomery representative (for `R = 2^(64 n)`) is `v`:  `v · R⁻¹ mod m`. -/
def unMont (n m v : Nat) : Nat := halves m (64 * n) (v % m)

/-! ## the extended operations -/

/-- one step of an extended history. -/
inductive XOp where
  /-- an operation of the original machine (`Monty::new`, `new_with_arc`, `Monty::zero/one`, `Default::default`,
      `Zero::zero` are surface forms of `.new/.zero/.one`). -/
  | base (op : MontyOp)
  /-- `from_montgomery(v[, params])`: push the caller's representative as it is. -/
  | fromMont (v : Nat)
  /-- `*x.as_montgomery_mut() = v`: overwrite the stored representative of handle `i`. -/
  | setMont (i v : Nat)
  /-- `Monty::lincomb_vartime(&[(&s[i₁], &s[j₁]), …])`: push `Σ s[i]·s[j]`. -/
  | lincomb (ps : List (Nat × Nat))
  /-- `Zeroize::zeroize(&mut s[i])`: the stored representative becomes zero. -/
  | zeroize (i : Nat)
  /-- a read-only form on handle `i` (accessors, `params()`, `bits_precision()`, `is_zero()`, `ct_eq`): no change. -/
  | observe (i : Nat)
deriving Repr

/-- `Σ val aᵢ · val bᵢ` over the pairs of Montgomery representatives handed to `lincomb_vartime`. -/
def dotVal : List (List Nat × List Nat) → Nat
  | [] => 0
  | ab :: rest => val ab.1 * val ab.2 + dotVal rest

/-- `lincomb_vartime` on Montgomery representatives at value level (C09 owns the limb-level routine):
    the canonical representative of `Σ aᵢ·bᵢ`, i.e. `(Σ val aᵢ · val bᵢ) · R⁻¹ mod m`. -/
def lincombVal (s : State) (terms : List (List Nat × List Nat)) : List Nat :=
  toLimbs s.n (unMont s.n (val s.params.modulus) (dotVal terms))

def stepX (s : State) : XOp → State
  | .base op => step s op
  | .fromMont v => s.push (toLimbs s.n v)
  | .setMont i v => s.put i (toLimbs s.n v)
  | .lincomb ps => s.push (lincombVal s (ps.map fun p => (s.get p.1, s.get p.2)))
  | .zeroize i => s.put i (uzero s.n)
  | .observe _ => s

def runX (s : State) (ops : List XOp) : State := ops.foldl stepX s

/-- index of the value the operation produced, overwrote or looked at. -/
def affectedX (s : State) : XOp → Nat
  | .base op => affected s op
  | .setMont i _ | .zeroize i | .observe i => i
  | _ => s.store.length

/-! ### the same history in ℤ/m (L0) -/

/-- `Σ xᵢ·yᵢ mod m` on residues. -/
def dotRes (m : Nat) (sp : List Nat) : List (Nat × Nat) → Nat
  | [] => 0
  | p :: rest => (sget sp p.1 * sget sp p.2 + dotRes m sp rest) % m

def stepSpecX (n m : Nat) (sp : List Nat) : XOp → List Nat
  | .base op => stepSpec m sp op
  | .fromMont v => sp ++ [unMont n m v]
  | .setMont i v => sp.set i (unMont n m v)
  | .lincomb ps => sp ++ [dotRes m sp ps]
  | .zeroize i => sp.set i 0
  | .observe _ => sp

def runSpecX (n m : Nat) (sp : List Nat) (ops : List XOp) : List Nat := ops.foldl (stepSpecX n m) sp

/-! ## read-only predicates and parameter-level forms -/

/-- `BoxedMontyForm::is_zero` = `montgomery_form.is_zero()`; `Zero::is_zero` of `ConstMontyForm` =
    `self.ct_eq(&Self::ZERO)` (the limb comparison at value level, C06). -/
def formIsZero (a : List Nat) : Bool := val a = 0

/-- `ConstantTimeEq for MontyParams`: `modulus`, `one`, `r2`, `r3`, `mod_neg_inv` are compared —
    `mod_leading_zeros` is NOT (it is a function of the modulus). -/
def paramsCtEq (p q : Params) : Bool :=
  decide (val p.modulus = val q.modulus) && decide (val p.one = val q.one) && decide (val p.r2 = val q.r2) &&
  decide (val p.r3 = val q.r3) && decide (p.modNegInv = q.modNegInv)

/-- `ConstantTimeEq for MontyForm`: `montgomery_form.ct_eq(..) & params.ct_eq(..)`;
    for `ConstMontyForm` (and the derived `==` of `BoxedMontyForm` on one parameter set) only the forms. -/
def formCtEq (s : State) (a b : List Nat) : Bool :=
  match s.rep with
  | .dyn => decide (val a = val b) && paramsCtEq s.params s.params
  | _ => decide (val a = val b)

/-- `Zeroize for MontyParams`: every field is zeroized. -/
def zeroizeParams (p : Params) : Params :=
  { modulus := uzero p.modulus.length, one := uzero p.one.length, r2 := uzero p.r2.length, r3 := uzero p.r3.length,
    modNegInv := 0, modLeadingZeros := 0 }

end CB.Monty
