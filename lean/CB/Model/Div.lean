/-
  CB.Model.Div — `src/uint/div.rs` and `src/uint/boxed/div.rs`: constant-time Knuth division
  (`div_rem`), `div_rem_vartime` (mixed widths), `rem_wide_vartime`, `rem2k_vartime`, the boxed
  variants and the checked / wrapping / operator forms.  Core Lean only.

  Calls into other properties' code are taken on values: `Uint::bits`, `bits_vartime`, `shl`, `shr`
  (C05) are `bitLen`, `* 2^s`, `/ 2^s`; `ConstChoice::from_u32_{lt,eq,le,nonzero}` (C06) are masks.
-/
import CB.Model.DivLimb
namespace CB.Div
open CB

/-- `Uint::bits()` / `bits_vartime()` of a value (C05). -/
def bitLen (v : Nat) : Nat := if v = 0 then 0 else Nat.log2 v + 1

/-- `ConstChoice::from_u32_lt` (C06). -/
def ltMask (x y : Nat) : Nat := if x < y then WMAX else 0
/-- `ConstChoice::from_u32_eq` (C06). -/
def eqMask (x y : Nat) : Nat := if x = y then WMAX else 0
/-- `ConstChoice::from_u32_le` (C06). -/
def leMask (x y : Nat) : Nat := if x ≤ y then WMAX else 0

/-! ### the two inner loops of Knuth's step D4–D6 -/

/-- `(tmp, carry) = Limb::ZERO.mac(y[i], quo, carry); (x[i], borrow) = x[i].sbb(tmp, borrow)`
    over the zipped rows; returns `(new x row, carry, borrow)`. -/
def mulSubRow : List Nat → List Nat → Nat → Nat → Nat → List Nat × Nat × Nat
  | x :: xs, y :: ys, quo, carry, borrow =>
    let t := mac 0 y quo carry
    let s := sbb x t.1 borrow
    let r := mulSubRow xs ys quo t.2 s.2
    (s.1 :: r.1, r.2.1, r.2.2)
  | _, _, _, carry, borrow => ([], carry, borrow)

/-- `(x[i], carry) = x[i].adc(Limb::select(ZERO, y[i], ct_borrow), carry)`. -/
def addBackRow : List Nat → List Nat → Nat → Nat → List Nat × Nat
  | x :: xs, y :: ys, m, carry =>
    let s := adc x (selectWord 0 y m) carry
    let r := addBackRow xs ys m s.2
    (s.1 :: r.1, r.2)
  | _, _, _, carry => ([], carry)

/-- `(_, borrow) = x_hi.sbb(carry, borrow)` after the multiply-subtract row, as `ct_borrow`. -/
def knuthBorrow (xs ys : List Nat) (xHi quo : Nat) : Nat :=
  fromWordMask (sbb xHi (mulSubRow xs ys quo 0 0).2.1 (mulSubRow xs ys quo 0 0).2.2).2

/-- multiply-subtract, final `x_hi.sbb(carry, borrow)`, masked add-back:
    returns `(row after add-back, ct_borrow)`. -/
def knuthRow (xs ys : List Nat) (xHi quo : Nat) : List Nat × Nat :=
  ((addBackRow (mulSubRow xs ys quo 0 0).1 ys (knuthBorrow xs ys xHi quo) 0).1, knuthBorrow xs ys xHi quo)

/-! ### constant-time `Uint::div_rem` / `BoxedUint::div_rem_unchecked` -/

/-- loop state of `div_rem`: `x`, `x_hi`, `x_lo`. -/
structure CtState where
  x : List Nat
  xHi : Nat
  xLo : Nat

/-- body of `while xi > 0` for index `xi` (`L = LIMBS`, `y` = divisor shifted to the top). -/
def ctStep (rc : Reciprocal) (y : List Nat) (L dwords xi : Nat) (st : CtState) : CtState :=
  let quo := div3by2 st.xHi st.xLo (st.x.getD (xi - 1) 0) rc (y.getD (L - 2) 0)
  -- no-op once xi is smaller than the number of words in the divisor
  let done := ltMask xi (dwords - 1)
  let quo := selectWord quo 0 done
  let xs := st.x.take (xi + 1)
  let ys := y.drop (L - xi - 1)
  let row := knuthRow xs ys st.xHi quo
  let quo := selectWord quo (quo - 1) row.2            -- `quo.saturating_sub(1)`
  let x2 := row.1 ++ st.x.drop (xi + 1)
  let xHi' := selectWord (x2.getD xi 0) st.xHi done
  let x3 := x2.set xi (selectWord quo (x2.getD xi 0) done)
  let xLo' := selectWord (x3.getD (xi - 1) 0) st.xLo done
  { x := x3, xHi := xHi', xLo := xLo' }

/-- `while xi > 0 { …; xi -= 1 }` starting at `xi`. -/
def ctLoop (rc : Reciprocal) (y : List Nat) (L dwords : Nat) : Nat → CtState → CtState
  | 0, st => st
  | xi + 1, st => ctLoop rc y L dwords xi (ctStep rc y L dwords (xi + 1) st)

/-- the `while i < LIMBS` copy-out loop (`i ≥ 1`): remainder limbs from `x`, `x_hi`. -/
def ctCopyOut (xHi dwords : Nat) : Nat → List Nat → List Nat
  | _, [] => []
  | i, xi :: rest =>
    let yi := selectWord 0 xi (ltMask i dwords)
    let yi := selectWord yi xHi (eqMask i (dwords - 1))
    yi :: ctCopyOut xHi dwords (i + 1) rest

/-- `Uint::div_rem` for `LIMBS ≥ 2` (also `BoxedUint::div_rem_unchecked`, `size ≥ 2`);
    `n`, `d` have the same limb count, `val d ≠ 0`. -/
def divRemCtCore (n d : List Nat) : List Nat × List Nat :=
  let L := n.length
  let dbits := bitLen (val d)
  let dwords := (dbits + 63) / 64
  let lshift := (64 - dbits % 64) % 64
  let y := toLimbs L (val d * 2 ^ (64 * L - dbits))          -- `rhs.shl(BITS - dbits)`
  let sh := shlLimb n lshift
  let xLo := sh.1.getD (L - 1) 0
  let rc := Reciprocal.new (y.getD (L - 1) 0)
  let st := ctLoop rc y L dwords (L - 1) { x := sh.1, xHi := sh.2, xLo := xLo }
  let limbDiv := eqMask 1 dwords
  let xHiAdj := selectWord 0 st.xHi limbDiv
  let qr2 := div2by1 xHiAdj st.xLo rc
  let x0 := selectWord (st.x.getD 0 0) qr2.1 limbDiv
  let xf := st.x.set 0 x0
  let y0 := selectWord x0 qr2.2 limbDiv
  let yf := y0 :: ctCopyOut st.xHi dwords 1 (xf.drop 1)
  (toLimbs L (val xf / 2 ^ ((dwords - 1) * 64)), toLimbs L (val yf / 2 ^ lshift))

/-- `Uint::div_rem(&self, rhs: &NonZero<Self>)`. `LIMBS == 1` is the static short circuit. -/
def divRemCt (n d : List Nat) : List Nat × List Nat :=
  if n.length = 1 then
    let qr := divRemLimb n (d.getD 0 0)
    (qr.1, [qr.2])
  else divRemCtCore n d

/-! ### variable-time division -/

def zeros (n : Nat) : List Nat := List.replicate n 0

/-- loop of `shl_limb_vartime`: `limbs[i] = (a[i] << lshift) | (a[i-1] >> rshift)`,
    `limbs[0] = a[0] << lshift` (`prev = 0`). -/
def shlVtLoop (lshift rshift : Nat) : Nat → List Nat → List Nat
  | _, [] => []
  | prev, x :: xs => (((x <<< lshift) % B) ||| (prev >>> rshift)) :: shlVtLoop lshift rshift x xs

/-- `Uint::shl_limb_vartime(shift, limbs_num)` → `(shifted, carry)`. -/
def shlLimbVartime (a : List Nat) (shift limbsNum : Nat) : List Nat × Nat :=
  if shift = 0 then (a, 0) else
  let rshift := 64 - shift
  let carry := (a.getD (limbsNum - 1) 0) >>> rshift
  (shlVtLoop shift rshift 0 (a.take limbsNum) ++ zeros (a.length - limbsNum), carry)

/-- loop of `shr_limb_vartime`. -/
def shrVtLoop (lshift rshift : Nat) : List Nat → List Nat
  | [] => []
  | [x] => [x >>> rshift]
  | x :: x' :: xs => ((x >>> rshift) ||| ((x' <<< lshift) % B)) :: shrVtLoop lshift rshift (x' :: xs)

/-- `Uint::shr_limb_vartime(shift, limbs_num)`. -/
def shrLimbVartime (a : List Nat) (shift limbsNum : Nat) : List Nat :=
  if shift = 0 then a else
  shrVtLoop (64 - shift) shift (a.take limbsNum) ++ zeros (a.length - limbsNum)

/-- one pass of the `loop { … }` of `div_rem_vartime` at index `xi`; `y` = the `yc` normalised
    divisor limbs.  Returns the row-updated `x` (quotient digit not yet stored), the new `x_hi`
    (= `x[xi]`) and the digit. -/
def vtRow (rc : Reciprocal) (y : List Nat) (yc xi : Nat) (x : List Nat) (xHi : Nat) :
    List Nat × Nat × Nat :=
  let quo := div3by2 xHi (x.getD xi 0) (x.getD (xi - 1) 0) rc (y.getD (yc - 2) 0)
  let lo := x.take (xi + 1 - yc)
  let win := (x.drop (xi + 1 - yc)).take yc
  let hi := x.drop (xi + 1)
  let row := knuthRow win y xHi quo
  let quo := selectWord quo (wsub quo 1) row.2          -- `quo.wrapping_sub(1)`
  let x2 := lo ++ row.1 ++ hi
  (x2, x2.getD xi 0, quo)

/-- `loop` of `div_rem_vartime`: `k = xi - (yc - 1)` passes remain after this one. -/
def vtLoop (rc : Reciprocal) (y : List Nat) (yc : Nat) : Nat → List Nat × Nat → List Nat × Nat
  | 0, st =>
    let r := vtRow rc y yc (yc - 1) st.1 st.2
    (r.1.set (yc - 1) r.2.2, r.2.1)
  | k + 1, st =>
    let r := vtRow rc y yc (yc + k) st.1 st.2
    vtLoop rc y yc k (r.1.set (yc + k) r.2.2, r.2.1)

/-- the Knuth part of `div_rem_vartime` (`2 ≤ yc ≤ LIMBS`): `n` has `LIMBS`, `d` has `RHS_LIMBS`
    limbs; returns `(quotient in LIMBS limbs, remainder in RHS_LIMBS limbs)`. -/
def divRemVartimeCore (n d : List Nat) (dbits yc : Nat) : List Nat × List Nat :=
  let L := n.length
  let shift := (64 - dbits % 64) % 64
  let xs := shlLimbVartime n shift L
  let y := (shlLimbVartime d shift yc).1
  let rc := Reciprocal.new (y.getD (yc - 1) 0)
  let st := vtLoop rc (y.take yc) yc (L - yc) xs
  -- copy the remainder to the divisor
  let yr := st.1.take (yc - 1) ++ [st.2] ++ y.drop yc
  let yr := shrLimbVartime yr shift yc
  -- shift the quotient to the low limbs
  (st.1.drop (yc - 1) ++ zeros (yc - 1), yr)

/-- `Uint::resize` (zero-extend or truncate to `m` limbs). -/
def resize (a : List Nat) (m : Nat) : List Nat := a.take m ++ zeros (m - a.length)

/-- `Uint::div_rem_vartime::<RHS_LIMBS>(&self, rhs: &NonZero<Uint<RHS_LIMBS>>)`. -/
def divRemVartime (n d : List Nat) : List Nat × List Nat :=
  let dbits := bitLen (val d)
  let yc := (dbits + 63) / 64
  if yc = 1 then
    let qr := divRemLimbWithReciprocal n (Reciprocal.new (d.getD 0 0))
    (qr.1, toLimbs d.length qr.2)                         -- `Uint::from_word(r.0)`
  else if yc > n.length then (zeros n.length, resize n d.length)
  else divRemVartimeCore n d dbits yc

/-! ### `rem_wide_vartime` -/

/-- row of `rem_wide_vartime` at index `xi` (the digit is not kept). -/
def rwRow (rc : Reciprocal) (y : List Nat) (yc xi : Nat) (x : List Nat) (xHi : Nat) : List Nat × Nat :=
  let quo := div3by2 xHi (x.getD xi 0) (x.getD (xi - 1) 0) rc (y.getD (yc - 2) 0)
  let lo := x.take (xi + 1 - yc)
  let win := (x.drop (xi + 1 - yc)).take yc
  let hi := x.drop (xi + 1)
  let row := knuthRow win y xHi quo
  let x2 := lo ++ row.1 ++ hi
  (x2, x2.getD xi 0)

/-- first phase (`extra_limbs > 0`): `xi = LIMBS - 1`; after the row, shift `x` one limb up and
    fetch `x_lo[extra_limbs - 1]`.  `xloRev` = the remaining low limbs, most significant first. -/
def rwPhase1 (rc : Reciprocal) (y : List Nat) (yc L : Nat) : List Nat → List Nat × Nat → List Nat × Nat
  | [], st => st
  | w :: rest, st =>
    let r := rwRow rc y yc (L - 1) st.1 st.2
    rwPhase1 rc y yc L rest (w :: r.1.take (L - 1), r.2)

/-- second phase (`extra_limbs == 0`): `k = xi - (yc - 1)` passes remain after this one. -/
def rwPhase2 (rc : Reciprocal) (y : List Nat) (yc : Nat) : Nat → List Nat × Nat → List Nat × Nat
  | 0, st => rwRow rc y yc (yc - 1) st.1 st.2
  | k + 1, st =>
    let r := rwRow rc y yc (yc + k) st.1 st.2
    rwPhase2 rc y yc k (r.1.set (yc + k) 0, r.2)

/-- `Uint::rem_wide_vartime((lower, upper), rhs)`; all three have `LIMBS` limbs. -/
def remWideVartime (lower upper d : List Nat) : List Nat :=
  let L := d.length
  let dbits := bitLen (val d)
  let yc := (dbits + 63) / 64
  if yc = 1 then
    toLimbs L (remLimbWithReciprocalWide lower upper (Reciprocal.new (d.getD 0 0)))
  else
  let shift := (64 - dbits % 64) % 64
  let y := (shlLimbVartime d shift yc).1
  let lo := shlLimbVartime lower shift L
  let up := shlLimbVartime upper shift L
  let x := if shift > 0 then up.1.set 0 ((up.1.getD 0 0) ||| lo.2) else up.1
  let rc := Reciprocal.new (y.getD (yc - 1) 0)
  let st := rwPhase1 rc (y.take yc) yc L lo.1.reverse (x, up.2)
  let st := rwPhase2 rc (y.take yc) yc (L - yc) st
  shrLimbVartime st.1 shift yc

/-! ### `rem2k_vartime` -/

/-- `Uint::rem2k_vartime(k)`. -/
def rem2kVartime (a : List Nat) (k : Nat) : List Nat :=
  let highest := a.length - 1
  let index := k / 64
  let le := leMask index highest
  let limbNum := if index ≤ highest then index else highest      -- `le.select_u32(highest, index)`
  let base := k % 64
  let mask := ((1 <<< base) % B) - 1
  let outmask := (a.getD limbNum 0) &&& mask
  let out := a.set limbNum (selectWord (a.getD limbNum 0) outmask le)
  out.take (limbNum + 1) ++ zeros (a.length - (limbNum + 1))

/-! ### thin forms -/

def urem (n d : List Nat) : List Nat := (divRemCt n d).2
def remVartime (n d : List Nat) : List Nat := (divRemVartime n d).2
def wrappingDiv (n d : List Nat) : List Nat := (divRemCt n d).1
def wrappingDivVartime (n d : List Nat) : List Nat := (divRemVartime n d).1
/-- `Uint::checked_div`: `NonZero::new(rhs).map(|rhs| self.div_rem(&rhs).0)` → value and mask. -/
def checkedDiv (n d : List Nat) : Option (List Nat) :=
  if val d = 0 then none else some (divRemCt n d).1
def checkedRem (n d : List Nat) : Option (List Nat) :=
  if val d = 0 then none else some (divRemCt n d).2

/-! ### boxed -/

/-- `BoxedUint::div_rem` → `div_rem_unchecked`: `none` models the precision `assert_eq!` panic. -/
def boxedDivRem (n d : List Nat) : Option (List Nat × List Nat) :=
  if n.length ≠ d.length then none else some (divRemCt n d)

/-- `div_rem_vartime_in_place(x, y)` for `2 ≤ yc`: `y` = the low `yc` limbs of the divisor. -/
def divRemVartimeInPlace (x y : List Nat) : List Nat × List Nat :=
  let xc := x.length
  let yc := y.length
  if yc > xc then (zeros xc, x ++ zeros (yc - xc))
  else
    -- `lshift = y[yc-1].leading_zeros()`; the in-place shifts compute the same limbs
    let r := divRemVartimeCore x y (bitLen (val y)) yc
    (r.1, r.2)

/-- `BoxedUint::div_rem_vartime`. -/
def boxedDivRemVartime (n d : List Nat) : List Nat × List Nat :=
  let yc := (bitLen (val d) + 63) / 64
  if yc = 1 then
    let qr := divRemLimb n (d.getD 0 0)
    (qr.1, qr.2 :: zeros (d.length - 1))
  else
    let r := divRemVartimeInPlace n (d.take yc)
    (r.1, r.2 ++ d.drop yc)

/-- `BoxedUint::rem_vartime`. -/
def boxedRemVartime (n d : List Nat) : List Nat :=
  let yc := (bitLen (val d) + 63) / 64
  if yc = 1 then boxedRemLimb n (d.getD 0 0) :: zeros (d.length - 1)
  else if yc > n.length then n ++ zeros (d.length - n.length)
  else (divRemVartimeInPlace n (d.take yc)).2 ++ d.drop yc

/-- `BoxedUint::checked_div` as the release build executes it (outer `none` = panic):
    `nz = ct_select(one_with_precision(self.precision), rhs, rhs.is_nonzero())` builds
    `self.nlimbs()` limbs reading `rhs.limbs[i]` — out of bounds (panic) for a shorter `rhs`,
    silently truncating a longer one; then `div_rem_unchecked(nz)` (panics on a zero `nz`), and the
    quotient is returned under the mask `rhs.is_nonzero()`.
    (With debug assertions `ct_select` asserts equal precision instead.) -/
def boxedCheckedDiv (n d : List Nat) : Option (Option (List Nat)) :=
  if d.length < n.length then none
  else if val d = 0 then some none
  else
    let nz := d.take n.length
    if val nz = 0 then none else some (some (divRemCt n nz).1)

end CB.Div
