/-
  CB.Model.Cmp — comparison / selection forms beyond `Uint` (src/limb/cmp.rs, src/int/cmp.rs,
  src/uint/boxed/cmp.rs, src/uint/boxed/ct.rs) and the `Hash` input of fixed and boxed integers.
  `subtle`'s word primitives (`u64::ct_eq`, `u64::conditional_select`, `Choice`) are modelled by
  their documented contract.
-/
import CB.Model.Uint
namespace CB.Cmp
open CB

/-- `Ordering` as -1 / 0 / 1 -/
abbrev Ord3 := Int

/-- `Limb: Ord::cmp`: `ret = Less; assign Equal if ct_eq; assign Greater if ct_gt`. -/
def limbCmp (a b : Nat) : Ord3 :=
  let ret : Ord3 := -1
  let ret := if fromWordEq a b = WMAX then 0 else ret      -- subtle `ct_eq` (contract)
  let ret := if fromWordGt a b = WMAX then 1 else ret
  ret

/-- zero-extend to `n` limbs (`limbs.get(i).unwrap_or(&Limb::ZERO)`) -/
def pad (n : Nat) (l : List Nat) : List Nat := l ++ List.replicate (n - l.length) 0

/-- `BoxedUint::sbb` = `fold_limbs` over `max(nlimbs)` with zero padding. -/
def bsbb (a b : List Nat) (bw : Nat) : List Nat × Nat :=
  let m := max a.length b.length
  usbb (pad m a) (pad m b) bw
def badc (a b : List Nat) (c : Nat) : List Nat × Nat :=
  let m := max a.length b.length
  uadc (pad m a) (pad m b) c

/-- `BoxedUint::ct_eq`: AND of per-limb `ct_eq` over the padded limbs; result as 0/1. -/
def bctEqLoop : List Nat → List Nat → Nat
  | a :: as, b :: bs => (if a = b then 1 else 0) &&& bctEqLoop as bs
  | _, _ => 1
def bctEq (a b : List Nat) : Nat :=
  let m := max a.length b.length
  bctEqLoop (pad m a) (pad m b)
def bctLt (a b : List Nat) : Nat := fromWordMask (bsbb a b 0).2
def bctGt (a b : List Nat) : Nat := fromWordMask (bsbb b a 0).2
/-- `BoxedUint: Ord::cmp`: `Equal`, then `Greater` if gt, then `Less` if lt. -/
def bcmp (a b : List Nat) : Ord3 :=
  let ret : Ord3 := 0
  let ret := if bctGt a b = WMAX then 1 else ret
  let ret := if bctLt a b = WMAX then -1 else ret
  ret

/-- flip the sign bit: xor the most significant limb with `2^63` (`Int::invert_msb`). -/
def invertMsb : List Nat → List Nat
  | [] => []
  | [x] => [x ^^^ HALF]
  | x :: xs => x :: invertMsb xs

def ilt (a b : List Nat) : Nat := ult (invertMsb a) (invertMsb b)
def igt (a b : List Nat) : Nat := ugt (invertMsb a) (invertMsb b)
def icmp (a b : List Nat) : Ord3 := ucmp (invertMsb a) (invertMsb b)
def icmpVartime (a b : List Nat) : Ord3 := ucmpVartime (invertMsb a) (invertMsb b)

/-- signed value of a two's-complement limb list -/
def toInt (l : List Nat) : Int :=
  if l.getLastD 0 ≥ HALF then (val l : Int) - (B ^ l.length : Nat) else (val l : Int)

/-- `Int::is_negative`: top bit of the top limb as a mask (`from_word_msb`). -/
def isNegative (l : List Nat) : Nat := fromWordLsb (l.getLastD 0 / HALF)

/-- choice as mask from a 0/1 token -/
def maskOfBit (c : Nat) : Nat := wneg c

/-- `ct_swap` -/
def uswap (a b : List Nat) (c : Nat) : List Nat × List Nat := (uselect a b c, uselect b a c)

/-- the byte stream a `Hash` impl feeds to the hasher, as a limb list:
    fixed `Uint<N>` hashes its limb array; `BoxedUint` (derive on `Box<[Limb]>`) hashes the slice =
    length prefix, then the limbs. -/
def hashInputFixed (l : List Nat) : List Nat := l
def hashInputBoxed (l : List Nat) : List Nat := l.length :: l

end CB.Cmp
