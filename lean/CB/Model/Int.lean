/-
  CB.Model.Int — `Int<LIMBS>` of crypto-bigint (src/int.rs, src/int/{sign,add,sub,neg,mul,mul_uint,
  resize,from}.rs) as the code computes it: the limbs of the inner `Uint`, sign-bit masks
  (`ConstChoice` words in `{0, WMAX}`), selection by mask.  Unsigned multiplication is called at value
  level (`val a * val b`, exactness = property C03); everything else is limb level.
  Core Lean only (linked into `cbmodel`).
-/
import CB.Model.Uint
namespace CB.SInt
open CB

/-! ### the mathematical reading -/

/-- two's-complement value of a little-endian limb list (`BITS = 64 * length`) -/
def toInt (l : List Nat) : Int :=
  if B ^ l.length ≤ 2 * val l then (val l : Int) - ((B ^ l.length : Nat) : Int) else (val l : Int)

/-! ### `ConstChoice` combinators (src/const_choice.rs), on mask words -/
def cnot (c : Nat) : Nat := choiceNot c
def cand (a b : Nat) : Nat := a &&& b
def cor (a b : Nat) : Nat := a ||| b
def cxor (a b : Nat) : Nat := a ^^^ b
def cne (a b : Nat) : Nat := cxor a b
def ceq (a b : Nat) : Nat := cnot (cne a b)
/-- `ConstChoice::from_word_msb`: `from_word_lsb(value >> 63)` -/
def fromWordMsb (w : Nat) : Nat := fromWordLsb (w / HALF)

/-! ### src/int/sign.rs, src/int.rs -/

/-- `most_significant_word`: last limb (`Word::ZERO` when `LIMBS == 0`) -/
def msw : List Nat → Nat
  | [] => 0
  | [x] => x
  | _ :: y :: ys => msw (y :: ys)

/-- `Int::is_negative` -/
def isNegative (a : List Nat) : Nat := fromWordMsb (msw a)
/-- `Int::is_positive`: `is_negative().not().and(is_nonzero())` -/
def isPositive (a : List Nat) : Nat := cand (cnot (isNegative a)) (isNonzero a)

/-- `Int::MAX = Uint::MAX.shr(1)`: all limbs `MAX`, top limb `MAX >> 1` -/
def intMax : Nat → List Nat
  | 0 => []
  | 1 => [WMAX / 2]
  | n + 2 => WMAX :: intMax (n + 1)
/-- `Int::MIN = Uint::MAX ^ (Uint::MAX >> 1)`: zero limbs, top limb `1 << 63` -/
def intMin : Nat → List Nat
  | 0 => []
  | 1 => [HALF]
  | n + 2 => 0 :: intMin (n + 1)

/-- `Int::is_min` / `Int::is_max`: `Uint::eq` against the constant -/
def isMin (a : List Nat) : Nat := ueq a (intMin a.length)
def isMax (a : List Nat) : Nat := ueq a (intMax a.length)

/-- `Int::abs_sign`: `(wrapping_neg_if(self, is_negative), is_negative)` -/
def absSign (a : List Nat) : List Nat × Nat :=
  let sign := isNegative a
  (wrappingNegIf a sign, sign)
def iabs (a : List Nat) : List Nat := (absSign a).1

/-- `Int::new_from_abs_sign`: value and `is_some` mask.
    `fits = lte(abs, MAX) | (is_negative & eq(abs, MIN))` -/
def newFromAbsSign (abs : List Nat) (neg : Nat) : List Nat × Nat :=
  let magnitude := wrappingNegIf abs neg
  let fits := cor (ulte abs (intMax abs.length)) (cand neg (ueq abs (intMin abs.length)))
  (magnitude, fits)

/-! ### src/int/add.rs, sub.rs, neg.rs -/

/-- `Int::overflowing_add`: `(self.msb == rhs.msb) & (self.msb != res.msb)` -/
def iOverflowingAdd (a b : List Nat) : List Nat × Nat :=
  let res := wrappingAdd a b
  let selfMsb := isNegative a
  let overflow := cand (ceq selfMsb (isNegative b)) (cne selfMsb (isNegative res))
  (res, overflow)
def iCheckedAdd (a b : List Nat) : List Nat × Nat :=
  let (v, o) := iOverflowingAdd a b
  (v, cnot o)
def iWrappingAdd (a b : List Nat) : List Nat := wrappingAdd a b

/-- `CheckedSub::checked_sub`: `(self.msb != rhs.msb) & (self.msb != res.msb)`; returns value and
    `is_some = !underflow` -/
def iCheckedSub (a b : List Nat) : List Nat × Nat :=
  let res := wrappingSub a b
  let selfMsb := isNegative a
  let underflow := cand (cne selfMsb (isNegative b)) (cne selfMsb (isNegative res))
  (res, cnot underflow)
def iWrappingSub (a b : List Nat) : List Nat := wrappingSub a b

/-- `Uint::bitxor(&Uint::MAX)` -/
def xorMax : List Nat → List Nat
  | [] => []
  | x :: xs => (x ^^^ WMAX) :: xorMax xs

/-- `Int::ONE` -/
def iOne (n : Nat) : List Nat := uone n

/-- `Int::overflowing_neg`: `Self(self.0 ^ MAX).overflowing_add(&ONE)` -/
def iOverflowingNeg (a : List Nat) : List Nat × Nat := iOverflowingAdd (xorMax a) (iOne a.length)
def iWrappingNeg (a : List Nat) : List Nat := (iOverflowingNeg a).1
def iWrappingNegIf (a : List Nat) (c : Nat) : List Nat := wrappingNegIf a c
def iCheckedNeg (a : List Nat) : List Nat × Nat :=
  let (v, o) := iOverflowingNeg a
  (v, cnot o)

/-! ### src/int/mul.rs, mul_uint.rs — products through magnitudes.
    `Uint::split_mul` / `widening_mul` / `square_wide` are called at value level (C03). -/

/-- `Uint::split_mul`: `(lo, hi)` with the operand sizes -/
def uSplitMul (a b : List Nat) : List Nat × List Nat :=
  let p := val a * val b
  (toLimbs a.length p, toLimbs b.length (p / B ^ a.length))
/-- `Uint::widening_mul` -/
def uWideningMul (a b : List Nat) : List Nat := toLimbs (a.length + b.length) (val a * val b)

/-- `Int::split_mul`: `(lo, hi, negate)` -/
def iSplitMul (a b : List Nat) : List Nat × List Nat × Nat :=
  let (la, sa) := absSign a
  let (lb, sb) := absSign b
  let (lo, hi) := uSplitMul la lb
  (lo, hi, cxor sa sb)

/-- `Int::widening_mul` -/
def iWideningMul (a b : List Nat) : List Nat :=
  let (la, sa) := absSign a
  let (lb, sb) := absSign b
  wrappingNegIf (uWideningMul la lb) (cxor sa sb)

/-- `Zero::is_zero` of a `Uint`: `ct_eq(&ZERO)` -/
def uIsZero (a : List Nat) : Nat := ueq a (uzero a.length)

/-- the shared tail of every `checked_mul*`:
    `new_from_abs_sign(lo, neg).and_then(|int| CtOption::new(int, hi.is_zero()))` -/
def mulFinish (lo hi : List Nat) (neg : Nat) : List Nat × Nat :=
  let (v, fits) := newFromAbsSign lo neg
  (v, cand fits (uIsZero hi))

/-- `CheckedMul<Int<RHS>> for Int<LIMBS>` -/
def iCheckedMul (a b : List Nat) : List Nat × Nat :=
  let (lo, hi, neg) := iSplitMul a b
  mulFinish lo hi neg

/-- `Int::split_mul_uint` -/
def iSplitMulUint (a b : List Nat) : List Nat × List Nat × Nat :=
  let (la, sa) := absSign a
  let (lo, hi) := uSplitMul la b
  (lo, hi, sa)
/-- `Int::split_mul_uint_right`: `rhs.split_mul(&lhs_abs)` -/
def iSplitMulUintRight (a b : List Nat) : List Nat × List Nat × Nat :=
  let (la, sa) := absSign a
  let (lo, hi) := uSplitMul b la
  (lo, hi, sa)
/-- `Int::widening_mul_uint` -/
def iWideningMulUint (a b : List Nat) : List Nat :=
  let (la, sa) := absSign a
  wrappingNegIf (uWideningMul la b) sa
/-- `CheckedMul<Uint<RHS>> for Int<LIMBS>` -/
def iCheckedMulUint (a b : List Nat) : List Nat × Nat :=
  let (lo, hi, neg) := iSplitMulUint a b
  mulFinish lo hi neg
/-- `Int::checked_mul_uint_right` (result has the width of `rhs`) -/
def iCheckedMulUintRight (a b : List Nat) : List Nat × Nat :=
  let (lo, hi, neg) := iSplitMulUintRight a b
  mulFinish lo hi neg

/-- `Uint::square_wide` at value level -/
def uSquareWide (a : List Nat) : List Nat × List Nat :=
  let p := val a * val a
  (toLimbs a.length p, toLimbs a.length (p / B ^ a.length))
/-- `Int::widening_square` (a `Uint` of twice the width) -/
def iWideningSquare (a : List Nat) : List Nat := toLimbs (a.length + a.length) (val (iabs a) * val (iabs a))
/-- `Int::checked_square`: `(lo, eq(hi, ZERO))` -/
def iCheckedSquare (a : List Nat) : List Nat × Nat :=
  let (lo, hi) := uSquareWide (iabs a)
  (lo, ueq hi (uzero hi.length))
def iWrappingSquare (a : List Nat) : List Nat := (uSquareWide (iabs a)).1
/-- `Int::saturating_square`: `select(res, MAX, overflow.is_nonzero())` -/
def iSaturatingSquare (a : List Nat) : List Nat :=
  let (lo, hi) := uSquareWide (iabs a)
  uselect lo (umax lo.length) (isNonzero hi)

/-! ### src/int/resize.rs, from.rs -/

/-- `Int::resize::<T>`: fill with `select(0, MAX, is_negative)`, copy `min(T, LIMBS)` limbs -/
def iResize (a : List Nat) (t : Nat) : List Nat :=
  let fill := selectWord 0 WMAX (isNegative a)
  let dim := if t < a.length then t else a.length
  a.take dim ++ List.replicate (t - dim) fill

/-- Rust `n as Word` for a signed primitive of `k ≤ 64` bits given by its `k`-bit pattern `x`
    (sign extension to 64 bits; primitive cast semantics are trusted) -/
def sextWord (k x : Nat) : Nat :=
  let x := x % 2 ^ k
  if 2 ^ (k - 1) ≤ x then x + (B - 2 ^ k) else x

/-- `Int::from_i8 / from_i16 / from_i32 / from_i64`: `Uint::new([Limb(n as Word)]).as_int().resize()` -/
def iFromPrim (k x n : Nat) : List Nat := iResize [sextWord k x] n
/-- `Int::from_i128`: `Uint::<2>::from_u128(n as u128).as_int().resize()` -/
def iFromI128 (x n : Nat) : List Nat := iResize (toLimbs 2 x) n

end CB.SInt
