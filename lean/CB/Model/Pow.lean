/-
  CB.Model.Pow — modular exponentiation / multi-exponentiation of crypto-bigint as the code computes it
  (property C09).

  Mirrors
    src/modular/pow.rs                       compute_powers, multi_exponentiate_montgomery_form_internal
                                             (4-bit fixed window ladder, masked table lookup),
                                             multi_exponentiate_montgomery_form_{array,slice}, pow_montgomery_form
    src/modular/{monty_form,const_monty_form}/pow.rs    pow, pow_bounded_exp, the trait impls (thin wrappers)
    src/modular/boxed_monty_form/pow.rs      the boxed ladder on almost-reduced values + two final
                                             conditional subtractions
    src/traits.rs                            Pow / MultiExponentiate blanket impls (`exponent_bits = BITS`)

  Calls into property C08's model (CB.Model.Monty, not re-modelled here):
    `mulMont` / `squareMont` (mul_montgomery_form / square_montgomery_form), `almostMontgomeryMul`,
    `bitandLimb`.
  The window size is read from CB.Extracted (regenerated from /repo on every check run).
  Style: pair results are taken with `.1` / `.2` (see CB.Model.Uint). Core Lean only.
-/
import CB.Model.Monty
import CB.Model.Extracted
namespace CB.Pow
open CB CB.Monty

/-- `const WINDOW: u32 = 4` (src/modular/pow.rs). -/
def WINDOW : Nat := CB.Extracted.powWindow
/-- `const WINDOW_MASK: Word = (1 << WINDOW) - 1`. -/
def WINDOW_MASK : Nat := (1 <<< WINDOW) - 1
/-- `1 << WINDOW`: number of table entries. -/
def TABLE : Nat := 1 <<< WINDOW
/-- `Limb::BITS`. -/
def LIMB_BITS : Nat := 64

/-! ## `compute_powers` -/

/-- `while i < powers.len() { powers[i] = mul_montgomery_form(&powers[i - 1], x, …); i += 1 }`. -/
def powersLoop (x ms : List Nat) (k : Nat) : Nat → Nat → List (List Nat) → List (List Nat)
  | 0, _, p => p
  | fuel + 1, i, p => powersLoop x ms k fuel (i + 1) (p.set i (mulMont (p.getD (i - 1) []) x ms k))

/-- `compute_powers(x, modulus, one, mod_neg_inv)`: `[*one; 16]`, `powers[1] = *x`, then the loop from 2. -/
def computePowers (x ms one : List Nat) (k : Nat) : List (List Nat) :=
  powersLoop x ms k (TABLE - 2) 2 ((List.replicate TABLE one).set 1 x)

/-! ## the ladder (`multi_exponentiate_montgomery_form_internal`) -/

/-- exponent-bit geometry derived from `exponent_bits` (> 0). -/
structure Start where
  limb : Nat      -- starting_limb = (exponent_bits - 1) / Limb::BITS
  window : Nat    -- starting_window = starting_bit_in_limb / WINDOW
  mask : Nat      -- starting_window_mask = (1 << (starting_bit_in_limb % WINDOW + 1)) - 1
deriving Repr

def startOf (window bits : Nat) : Start :=
  let startingBitInLimb := (bits - 1) % LIMB_BITS
  { limb := (bits - 1) / LIMB_BITS
    window := startingBitInLimb / window
    mask := (1 <<< (startingBitInLimb % window + 1)) - 1 }

/-- constant-time lookup: `power = powers[0]; j = 1; while j < 1 << WINDOW { power = select(power, powers[j],
    from_word_eq(j, idx)); j += 1 }`. -/
def lookupLoop (powers : List (List Nat)) (idx : Nat) : Nat → Nat → List Nat → List Nat
  | 0, _, power => power
  | fuel + 1, j, power =>
    lookupLoop powers idx fuel (j + 1) (uselect power (powers.getD j []) (fromWordEq j idx))

def lookup (powers : List (List Nat)) (idx : Nat) : List Nat :=
  lookupLoop powers idx (TABLE - 1) 1 (powers.getD 0 [])

/-- `let mut i = 0; while i < WINDOW { i += 1; z = square_montgomery_form(&z, …) }`. -/
def squareLoop (ms : List Nat) (k : Nat) : Nat → List Nat → List Nat
  | 0, z => z
  | i + 1, z => squareLoop ms k i (squareMont z ms k)

/-- `idx = (w >> (window_num * WINDOW)) & WINDOW_MASK; if first { idx &= starting_window_mask }`
    with `w = exponent.as_limbs()[limb_num]` (an out-of-range limb is a panic in Rust: see `indexPanics`). -/
def windowIdx (e : List Nat) (limbNum windowNum : Nat) (first : Bool) (mask : Nat) : Nat :=
  if first then (((e.getD limbNum 0) >>> (windowNum * WINDOW)) &&& WINDOW_MASK) &&& mask
  else ((e.getD limbNum 0) >>> (windowNum * WINDOW)) &&& WINDOW_MASK

/-- inner `while i < powers_and_exponents.len()`: `z = mul_montgomery_form(&z, &power, …)` per term. -/
def termLoop (ms : List Nat) (k : Nat) (limbNum windowNum : Nat) (first : Bool) (mask : Nat) :
    List (List (List Nat) × List Nat) → List Nat → List Nat
  | [], z => z
  | pe :: rest, z =>
    termLoop ms k limbNum windowNum first mask rest
      (mulMont z (lookup pe.1 (windowIdx pe.2 limbNum windowNum first mask)) ms k)

/-- body of `while window_num > 0` after the decrement. -/
def windowBody (pes : List (List (List Nat) × List Nat)) (ms : List Nat) (k : Nat) (st : Start)
    (limbNum windowNum : Nat) (z : List Nat) : List Nat :=
  let first := limbNum == st.limb && windowNum == st.window
  termLoop ms k limbNum windowNum first st.mask pes
    (if !first then squareLoop ms k WINDOW z else z)

/-- `while window_num > 0 { window_num -= 1; … }`. -/
def windowLoop (pes : List (List (List Nat) × List Nat)) (ms : List Nat) (k : Nat) (st : Start)
    (limbNum : Nat) : Nat → List Nat → List Nat
  | 0, z => z
  | wn + 1, z => windowLoop pes ms k st limbNum wn (windowBody pes ms k st limbNum wn z)

/-- `while limb_num > 0 { limb_num -= 1; window_num = if limb_num == starting_limb { starting_window + 1 }
    else { Limb::BITS / WINDOW }; … }`. -/
def limbLoop (pes : List (List (List Nat) × List Nat)) (ms : List Nat) (k : Nat) (st : Start) :
    Nat → List Nat → List Nat
  | 0, z => z
  | ln + 1, z =>
    limbLoop pes ms k st ln
      (windowLoop pes ms k st ln (if ln == st.limb then st.window + 1 else LIMB_BITS / WINDOW) z)

/-- `multi_exponentiate_montgomery_form_internal` (`exponent_bits > 0`). -/
def multiExpInternal (pes : List (List (List Nat) × List Nat)) (bits : Nat) (ms one : List Nat) (k : Nat) :
    List Nat :=
  limbLoop pes ms k (startOf WINDOW bits) ((startOf WINDOW bits).limb + 1) one

/-- `multi_exponentiate_montgomery_form_array`: early return of `one` for `exponent_bits == 0`, the
    `while i < N` table construction, then the internal routine. -/
def multiExpArray (bes : List (List Nat × List Nat)) (bits : Nat) (ms one : List Nat) (k : Nat) : List Nat :=
  if bits = 0 then one
  else multiExpInternal (bes.map fun be => (computePowers be.1 ms one k, be.2)) bits ms one k

/-- `multi_exponentiate_montgomery_form_slice`: the same through `iter().map(..).collect()`. -/
def multiExpSlice (bes : List (List Nat × List Nat)) (bits : Nat) (ms one : List Nat) (k : Nat) : List Nat :=
  if bits = 0 then one
  else multiExpInternal (bes.map fun be => (computePowers be.1 ms one k, be.2)) bits ms one k

/-- `pow_montgomery_form(x, exponent, exponent_bits, …)` = the array routine on `[(x, exponent)]`. -/
def powMont (x e : List Nat) (bits : Nat) (ms one : List Nat) (k : Nat) : List Nat :=
  multiExpArray [(x, e)] bits ms one k

/-- `MontyForm::pow` / `ConstMontyForm::pow` / blanket `Pow::pow`: `exponent_bits = Uint::<RHS_LIMBS>::BITS`. -/
def powFull (x e : List Nat) (ms one : List Nat) (k : Nat) : List Nat :=
  powMont x e (LIMB_BITS * e.length) ms one k

/-- the ladder indexes `exponent.as_limbs()[limb_num]` from `starting_limb` down: for
    `exponent_bits > BITS(exponent)` (and at least one term) that is an out-of-bounds panic. -/
def indexPanics (bits : Nat) (es : List (List Nat)) : Bool :=
  bits != 0 && es.any (fun e => LIMB_BITS * e.length < bits)

/-! ## boxed ladder (src/modular/boxed_monty_form/pow.rs) -/

/-- the boxed function has its own `const WINDOW`. -/
def BWINDOW : Nat := CB.Extracted.boxedPowWindow
def BWINDOW_MASK : Nat := (1 <<< BWINDOW) - 1
def BTABLE : Nat := 1 <<< BWINDOW

/-- `for i in 2..(1 << WINDOW) { powers.push(multiplier.mul_amm(&powers[i - 1], x)) }`. -/
def bPowersLoop (x ms : List Nat) (k : Nat) : Nat → List (List Nat) → List (List Nat)
  | 0, p => p
  | fuel + 1, p => bPowersLoop x ms k fuel (p ++ [almostMontgomeryMul (p.getD (p.length - 1) []) x ms k])

/-- `powers = [one, x]` then the pushes. -/
def bComputePowers (x ms one : List Nat) (k : Nat) : List (List Nat) :=
  bPowersLoop x ms k (BTABLE - 2) [one, x]

/-- `power.limbs.copy_from_slice(&powers[0].limbs); for i in 1..(1 << WINDOW) { power.ct_assign(&powers[i],
    i.ct_eq(&idx)) }` — `subtle`'s `ct_eq` / `conditional_assign` by their contract (mask select). -/
def bLookupLoop (powers : List (List Nat)) (idx : Nat) : Nat → Nat → List Nat → List Nat
  | 0, _, power => power
  | fuel + 1, i, power =>
    bLookupLoop powers idx fuel (i + 1) (uselect power (powers.getD i []) (if i = idx then WMAX else 0))

def bLookup (powers : List (List Nat)) (idx : Nat) : List Nat :=
  bLookupLoop powers idx (BTABLE - 1) 1 (powers.getD 0 [])

/-- `for _ in 1..=WINDOW { multiplier.square_amm_assign(&mut z) }`. -/
def bSquareLoop (ms : List Nat) (k : Nat) : Nat → List Nat → List Nat
  | 0, z => z
  | i + 1, z => bSquareLoop ms k i (almostMontgomeryMul z z ms k)

/-- body of the boxed `while window_num > 0` after the decrement: index first, then either mask it
    (first window) or square, then lookup and `mul_amm_assign(&mut z, &power)`. -/
def bWindowBody (powers : List (List Nat)) (ms : List Nat) (k : Nat) (st : Start) (w : Nat)
    (limbNum windowNum : Nat) (z : List Nat) : List Nat :=
  let first := limbNum == st.limb && windowNum == st.window
  let idx := if first then ((w >>> (windowNum * BWINDOW)) &&& BWINDOW_MASK) &&& st.mask
             else (w >>> (windowNum * BWINDOW)) &&& BWINDOW_MASK
  almostMontgomeryMul (if first then z else bSquareLoop ms k BWINDOW z) (bLookup powers idx) ms k

def bWindowLoop (powers : List (List Nat)) (ms : List Nat) (k : Nat) (st : Start) (w : Nat)
    (limbNum : Nat) : Nat → List Nat → List Nat
  | 0, z => z
  | wn + 1, z => bWindowLoop powers ms k st w limbNum wn (bWindowBody powers ms k st w limbNum wn z)

/-- `for limb_num in (0..=starting_limb).rev() { let w = exponent.as_limbs()[limb_num].0; … }`. -/
def bLimbLoop (powers : List (List Nat)) (e ms : List Nat) (k : Nat) (st : Start) :
    Nat → List Nat → List Nat
  | 0, z => z
  | ln + 1, z =>
    bLimbLoop powers e ms k st ln
      (bWindowLoop powers ms k st (e.getD ln 0) ln
        (if ln == st.limb then st.window + 1 else LIMB_BITS / BWINDOW) z)

/-- `z.ct_lt(modulus)` as a `Choice` bit: `ConstChoice::from_word_mask(borrow).into()`. -/
def ctLtBit (a b : List Nat) : Nat := choiceBit (fromWordMask (usbb a b 0).2)

/-- `z.conditional_sbb_assign(modulus, choice)` (src/uint/boxed/sub.rs): `mask = select(ZERO, MAX, choice)`,
    limb-wise `sbb(rhs[i] & mask, borrow)`. -/
def condSbbAssign (z m : List Nat) (choiceBit : Nat) : List Nat :=
  (usbb z (bitandLimb m (if choiceBit = 0 then 0 else WMAX)) 0).1

/-- `z.conditional_sbb_assign(modulus, !z.ct_lt(modulus))`. -/
def reduceOnce (z m : List Nat) : List Nat := condSbbAssign z m (1 - ctLtBit z m)

/-- boxed `pow_montgomery_form`. -/
def bPowMont (x e : List Nat) (bits : Nat) (ms one : List Nat) (k : Nat) : List Nat :=
  if bits = 0 then one
  else
    reduceOnce (reduceOnce
      (bLimbLoop (bComputePowers x ms one k) e ms k (startOf BWINDOW bits) ((startOf BWINDOW bits).limb + 1) one)
      ms) ms

/-- `BoxedMontyForm::pow`: `exponent_bits = exponent.bits_precision()`. -/
def bPowFull (x e : List Nat) (ms one : List Nat) (k : Nat) : List Nat :=
  bPowMont x e (LIMB_BITS * e.length) ms one k

/-! ## the three representations (const / runtime / boxed) behind one entry point -/

/-- `ConstMontyForm::pow_bounded_exp` / `MontyForm::pow_bounded_exp` / `BoxedMontyForm::pow_bounded_exp`
    (inherent methods and the `PowBoundedExp` trait impls, which forward to them). -/
def opPow (s : State) (x e : List Nat) (bits : Nat) : List Nat :=
  match s.rep with
  | .boxed => bPowMont x e bits s.params.modulus s.params.one s.params.modNegInv
  | _ => powMont x e bits s.params.modulus s.params.one s.params.modNegInv

/-! ## L0: what the property demands -/

/-- `base^(exponent mod 2^k) mod m`. -/
def powSpec (m x e k : Nat) : Nat := x ^ (e % 2 ^ k) % m

/-- product of the individual powers, `mod m`. -/
def multiSpec (m k : Nat) : List (Nat × Nat) → Nat
  | [] => 1 % m
  | (x, e) :: rest => (x ^ (e % 2 ^ k) * multiSpec m k rest) % m

/-- executable square-and-multiply evaluation of `x ^ e % m` (the driver's L0; `modPow_eq` in
    CB/Lemmas/C09Pow.lean proves it equal to `x ^ e % m`). `fuel` ≥ bit length of `e`. -/
def modPowFuel (m : Nat) : Nat → Nat → Nat → Nat
  | 0, _, _ => 1 % m
  | fuel + 1, x, e =>
    if e = 0 then 1 % m
    else if e % 2 = 1 then (x * modPowFuel m fuel ((x * x) % m) (e / 2)) % m
    else modPowFuel m fuel ((x * x) % m) (e / 2)

def modPow (m x e : Nat) : Nat := modPowFuel m (Nat.log2 e + 1) x e

end CB.Pow
