/-
  CB.Model.SafeGcd — Bernstein–Yang safegcd as the crate computes it
  (src/modular/safegcd.rs, src/modular/safegcd/boxed.rs, src/modular/safegcd/macros.rs, src/macros.rs).

  `UnsatInt<LIMBS>` / `BoxedUnsatInt` = `List Nat` of 62-bit limbs, little endian, two's complement.
  `i64` / `i128` quantities are `Int`; operations that the code performs with *wrapping* semantics
  (`wrapping_mul`, `wrapping_add`, `as i64`, `as u64`, `<<` on `i64`) wrap explicitly
  (`toU64`, `wrapI64`); plain `+ - *` on `i64` (which trap in the overflow-checking profile and
  cannot overflow on the algorithm's domain) are plain `Int` operations.
  `ConstChoice` / `subtle::Choice` values are `Bool` (their bit tricks belong to C06).
  Core Lean only.
-/
import CB.Model.Extracted
import CB.Model.InvMod2k
namespace CB.SafeGcd

/-- bits per unsaturated limb (`UnsatInt::LIMB_BITS`, regenerated from the source). -/
def LB : Nat := CB.Extracted.safegcdLimbBits
/-- `UnsatInt::MASK = u64::MAX >> (64 - LIMB_BITS)`. -/
def MASK : Nat := (2 ^ 64 - 1) >>> (64 - LB)
def U64 : Nat := 2 ^ 64

/-- bit pattern of an `i64`/`i128` as `u64` (`as u64`, and the view used by `wrapping_*`, `^`, `&`). -/
def toU64 (x : Int) : Nat := (x % (2 ^ 64 : Int)).toNat
/-- `as i64`: reinterpret the low 64 bits as signed. -/
def wrapI64 (x : Int) : Int :=
  let u := x % (2 ^ 64 : Int)
  if u < 2 ^ 63 then u else u - 2 ^ 64

/-- `safegcd_nlimbs!(bits)` = `(bits + 64).div_ceil(62)`. -/
def nlimbsFor (bits : Nat) : Nat :=
  (bits + CB.Extracted.safegcdNlimbsPad + CB.Extracted.safegcdNlimbsDiv - 1) / CB.Extracted.safegcdNlimbsDiv

/-! ### `impl_limb_convert!` (safegcd/macros.rs) -/

/-- the `while bits < total` loop. `otype` = bit width of the output integer type (64). -/
def convLoop (inp : List Nat) (ib ob otype total : Nat) : Nat → Nat → List Nat → List Nat
  | 0, _, out => out
  | fuel + 1, bits, out =>
    if bits < total then
      let i := bits % ib
      let o := bits % ob
      -- $output[bits / ob] |= ($input[bits / ib] >> i) as $output_type << o;
      let v := (((inp.getD (bits / ib) 0) >>> i) <<< o) % 2 ^ otype
      let out := out.set (bits / ob) (out.getD (bits / ob) 0 ||| v)
      convLoop inp ib ob otype total fuel (bits + min (ib - i) (ob - o)) out
    else out

/-- the `while filled > 0 { filled -= 1; out[filled] &= mask }` loop. -/
def maskLoop (mask : Nat) : Nat → List Nat → List Nat
  | 0, out => out
  | filled + 1, out => maskLoop mask filled (out.set filled (out.getD filled 0 &&& mask))

/-- `impl_limb_convert!(_, ib, inp, _, ob, out)` with `out` = `olen` zero limbs. -/
def limbConvert (inp : List Nat) (ib ob olen : Nat) : List Nat :=
  let total := min (inp.length * ib) (olen * ob)
  let out := convLoop inp ib ob 64 total (total + 1) 0 (List.replicate olen 0)
  let mask := (2 ^ 64 - 1) >>> (64 - ob)
  let filled := total / ob + (if total % ob > 0 then 1 else 0)
  maskLoop mask filled out

/-- `UnsatInt::from_uint` / `BoxedUnsatInt::from_uint_widened` : 64-bit words → `n` 62-bit limbs. -/
def fromUint (words : List Nat) (n : Nat) : List Nat := limbConvert words 64 LB n
/-- `UnsatInt::to_uint` : 62-bit limbs → `sat` 64-bit words (the non-negativity assertion is
    checked by the callers below). -/
def toUint (u : List Nat) (sat : Nat) : List Nat := limbConvert u LB 64 sat

/-! ### `UnsatInt` arithmetic -/

def uzero (n : Nat) : List Nat := List.replicate n 0
def uone : Nat → List Nat
  | 0 => []
  | n + 1 => 1 :: uzero n
def uminusOne (n : Nat) : List Nat := List.replicate n MASK

/-- `add`: `sum = a[i] + b[i] + carry; ret[i] = sum & MASK; carry = sum >> 62`. -/
def uaddC : List Nat → List Nat → Nat → List Nat
  | a :: as, b :: bs, c =>
    let sum := a + b + c
    (sum &&& MASK) :: uaddC as bs (sum >>> LB)
  | _, _, _ => []
def uadd (a b : List Nat) : List Nat := uaddC a b 0

/-- `mul` loop: `sum = carry + (a[i] ^ mask) * other` in `u128`. -/
def umulC : List Nat → Nat → Nat → Nat → List Nat
  | x :: xs, o, mask, carry =>
    let sum := carry + (x ^^^ mask) * o
    ((sum % U64) &&& MASK) :: umulC xs o mask ((sum >>> LB) % U64)
  | [], _, _, _ => []

/-- `UnsatInt::mul(&self, other: i64)`. -/
def umul (a : List Nat) (other : Int) : List Nat :=
  if other < 0 then umulC a (-other).toNat MASK (toU64 (-other))
  else umulC a other.toNat 0 0

/-- `neg`: `sum = (a[i] ^ MASK) + carry`. -/
def unegC : List Nat → Nat → List Nat
  | x :: xs, c =>
    let sum := (x ^^^ MASK) + c
    (sum &&& MASK) :: unegC xs (sum >>> LB)
  | [], _ => []
def uneg (a : List Nat) : List Nat := unegC a 1

/-- `is_negative`: `from_u64_gt(self.0[LIMBS - 1], MASK >> 1)`. -/
def uisNeg (a : List Nat) : Bool := decide (a.getLastD 0 > MASK >>> 1)

/-- `shr`: 62-bit arithmetic right shift. -/
def ushr (a : List Nat) : List Nat := a.drop 1 ++ [if uisNeg a then MASK else 0]

/-- `eq`. -/
def ueq : List Nat → List Nat → Bool
  | a :: as, b :: bs => (a == b) && ueq as bs
  | _, _ => true

def uselect (a b : List Nat) (c : Bool) : List Nat := if c then b else a
def ulowest (a : List Nat) : Nat := a.headD 0

/-- `u64::leading_zeros`. -/
def lz64 (l : Nat) : Nat := if l = 0 then 64 else 63 - Nat.log2 l

/-- `leading_zeros` accumulation over the limbs in visiting order. -/
def ulzGo : List Nat → Bool → Nat → Nat
  | [], _, c => c
  | l :: ls, notSeen, c => ulzGo ls (notSeen && l == 0) (c + if notSeen then lz64 l - 2 else 0)

/-- `UnsatInt::leading_zeros`: visits `i = LIMBS-1 … 0`. -/
def ulz (a : List Nat) : Nat := ulzGo a.reverse true 0
/-- `UnsatInt::bits`. -/
def ubits (a : List Nat) : Nat := a.length * LB - ulz a
/-- `BoxedUnsatInt::leading_zeros` AS WRITTEN (src/modular/safegcd/boxed.rs): `for l in self.0.iter()` visits the
    limbs from the LEAST significant one, and the flag update is `nonzero_limb_not_encountered &= !l.ct_eq(&0)`,
    i.e. the flag stays set while the limbs are NON-zero and is cleared by the first ZERO limb (the fixed-width
    twin clears it at the first non-zero limb, going down from the top).  So the result is the sum of the
    62-bit leading-zero counts of the low limbs up to and including the first zero limb — not the number of
    leading zeros of the value (observed through `verif_hooks::safegcd_boxed::unsat_leading_zeros`). -/
def ulzGoBoxed : List Nat → Bool → Nat → Nat
  | [], _, c => c
  | l :: ls, flag, c => ulzGoBoxed ls (flag && l != 0) (c + if flag then lz64 l - 2 else 0)
def ulzBoxed (a : List Nat) : Nat := ulzGoBoxed a true 0
def ubitsBoxed (a : List Nat) : Nat := a.length * LB - ulzBoxed a

/-- two's-complement value of an unsaturated integer. -/
def uvalN : List Nat → Nat
  | [] => 0
  | x :: xs => x + 2 ^ LB * uvalN xs
def uval (a : List Nat) : Int :=
  if uisNeg a then (uvalN a : Int) - (2 : Int) ^ (LB * a.length) else (uvalN a : Int)

/-! ### `inv_mod2_62`, `iterations` -/

/-- `inv_mod2_62(value: &[Word]) -> i64` (64-bit target: `value[0]`). -/
def invMod2_62 (words : List Nat) : Int :=
  let value := words.headD 0
  let x := ((value * 3) % U64) ^^^ 2
  let y := (1 + U64 - (x * value) % U64) % U64
  let x1 := (x * ((y + 1) % U64)) % U64
  let y1 := (y * y) % U64
  let x2 := (x1 * ((y1 + 1) % U64)) % U64
  let y2 := (y1 * y1) % U64
  let x3 := (x2 * ((y2 + 1) % U64)) % U64
  let y3 := (y2 * y2) % U64
  (((x3 * ((y3 + 1) % U64)) % U64 &&& ((2 ^ 64 - 1) >>> 2) : Nat) : Int)

/-- `iterations(f_bits, g_bits)`. -/
def iterations (fBits gBits : Nat) : Nat :=
  let d := if fBits < gBits then gBits else fBits
  let addend := if d < CB.Extracted.safegcdIterThreshold then CB.Extracted.safegcdIterAddLt
                else CB.Extracted.safegcdIterAddGe
  (CB.Extracted.safegcdIterMul * d + addend) / CB.Extracted.safegcdIterDiv

/-! ### `jump` -/

structure Mat where
  t00 : Int
  t01 : Int
  t10 : Int
  t11 : Int
deriving Repr, DecidableEq

structure JS where
  steps : Nat
  delta : Int
  f : Int
  g : Int
  t : Mat

/-- `i128::trailing_zeros` (128 for zero). -/
def tz128 (g : Int) : Nat := CB.InvMod2k.tzNat 128 g.natAbs

/-- the local `const fn min(a: i64, b: i64) -> i64 { if a > b { b } else { a } }` -/
def imin (a b : Int) : Int := if a > b then b else a

/-- `zeros = min(steps, g.trailing_zeros() as i64)` (both non-negative) -/
def jzeros (s : JS) : Nat := if s.steps > tz128 s.g then tz128 s.g else s.steps

/-- first part of a trip of `loop { … }`:
    `(steps, delta, g) = (steps - zeros, delta + zeros, g >> zeros); t[0] = [t[0][0] << zeros, t[0][1] << zeros]`
    (`<<` on `i64` wraps silently; `>>` on `i128` is arithmetic). -/
def jumpShift (s : JS) : JS :=
  ⟨s.steps - jzeros s, s.delta + (jzeros s : Nat), s.f, s.g / (2 : Int) ^ jzeros s,
   ⟨wrapI64 (s.t.t00 * (2 : Int) ^ jzeros s), wrapI64 (s.t.t01 * (2 : Int) ^ jzeros s), s.t.t10, s.t.t11⟩⟩

/-- `if delta > 0 { (delta, f, g) = (-delta, g as i64, -f as i128); (t[0], t[1]) = (t[1], [-t[0][0], -t[0][1]]); }` -/
def jumpSwap (s : JS) : JS :=
  if s.delta > 0 then
    ⟨s.steps, -s.delta, wrapI64 s.g, -s.f, ⟨s.t.t10, s.t.t11, -s.t.t00, -s.t.t01⟩⟩
  else s

/-- `mask = (1 << min(min(steps, 1 - delta), 5)) - 1; w = (g as i64).wrapping_mul(f.wrapping_mul(3) ^ 28) & mask` -/
def jumpW (s : JS) : Nat :=
  let mask : Nat := 2 ^ (imin (imin (s.steps : Nat) (1 - s.delta)) 5).toNat - 1
  ((toU64 s.g * (((toU64 s.f * 3) % U64) ^^^ 28)) % U64) &&& mask

/-- `t[1] = [t[0][0] * w + t[1][0], t[0][1] * w + t[1][1]]; g += w as i128 * f as i128` -/
def jumpAdd (s : JS) : JS :=
  ⟨s.steps, s.delta, s.f, s.g + (jumpW s : Nat) * s.f,
   ⟨s.t.t00, s.t.t01, s.t.t00 * (jumpW s : Nat) + s.t.t10, s.t.t01 * (jumpW s : Nat) + s.t.t11⟩⟩

/-- the `loop { … if steps == 0 { break; } … }` with fuel -/
def jumpLoop : Nat → JS → JS
  | 0, s => s
  | fuel + 1, s =>
    if (jumpShift s).steps = 0 then jumpShift s
    else jumpLoop fuel (jumpAdd (jumpSwap (jumpShift s)))

/-- trips of the inner loop: every trip but the first consumes at least one of the 62 steps. -/
def jumpFuel : Nat := CB.Extracted.safegcdJumpSteps + 2

/-- `jump(f: &[u64], g: &[u64], delta) -> (i64, Matrix)`. -/
def jump (f g : List Nat) (delta : Int) : Int × Mat :=
  let s0 : JS := ⟨CB.Extracted.safegcdJumpSteps, delta, wrapI64 (f.headD 0 : Nat), ((g.headD 0 : Nat) : Int),
                  ⟨1, 0, 0, 1⟩⟩
  let s := jumpLoop jumpFuel s0
  (s.delta, s.t)

/-! ### `fg`, `de` -/

def fg (f g : List Nat) (t : Mat) : List Nat × List Nat :=
  (ushr (uadd (umul f t.t00) (umul g t.t01)),
   ushr (uadd (umul f t.t10) (umul g t.t11)))

def de (modulus : List Nat) (inverse : Int) (t : Mat) (d e : List Nat) : List Nat × List Nat :=
  let dn : Int := if uisNeg d then 1 else 0
  let en : Int := if uisNeg e then 1 else 0
  let md := t.t00 * dn + t.t01 * en
  let me := t.t10 * dn + t.t11 * en
  let dl := ulowest d
  let el := ulowest e
  let cd := ((toU64 t.t00 * dl) % U64 + (toU64 t.t01 * el) % U64) % U64 &&& MASK
  let ce := ((toU64 t.t10 * dl) % U64 + (toU64 t.t11 * el) % U64) % U64 &&& MASK
  let md := md - (((toU64 inverse * cd) % U64 + toU64 md) % U64 &&& MASK : Nat)
  let me := me - (((toU64 inverse * ce) % U64 + toU64 me) % U64 &&& MASK : Nat)
  let cd := uadd (uadd (umul d t.t00) (umul e t.t01)) (umul modulus md)
  let ce := uadd (uadd (umul d t.t10) (umul e t.t11)) (umul modulus me)
  (ushr cd, ushr ce)

/-! ### `divsteps`, `divsteps_vartime` -/

structure DS where
  delta : Int
  f : List Nat
  g : List Nat
  d : List Nat
  e : List Nat

/-- one trip of the outer loop: `jump`, `fg`, `de`. -/
def dsStep (f0 : List Nat) (inverse : Int) (s : DS) : DS :=
  let j := jump s.f s.g s.delta
  let r := fg s.f s.g j.2
  let q := de f0 inverse j.2 s.d s.e
  ⟨j.1, r.1, r.2, q.1, q.2⟩

def dsLoop (f0 : List Nat) (inverse : Int) : Nat → DS → DS
  | 0, s => s
  | n + 1, s => dsLoop f0 inverse n (dsStep f0 inverse s)

/-- `divsteps(e, f_0, g, inverse)`: `iterations(f_0.bits(), g.bits())` trips. The crate's
    `debug_assert!(g == 0)` is reported by `.g` of the result. `boxed` selects the boxed `bits()`. -/
def divsteps (boxed : Bool) (e f0 g : List Nat) (inverse : Int) : DS :=
  let m := if boxed then iterations (ubitsBoxed f0) (ubitsBoxed g) else iterations (ubits f0) (ubits g)
  dsLoop f0 inverse m ⟨1, f0, g, uzero f0.length, e⟩

/-- `while !g.eq(&ZERO)` loop with fuel; returns the state and the number of trips made. -/
def dsVtLoop (f0 : List Nat) (inverse : Int) : Nat → DS → Nat → DS × Nat
  | 0, s, c => (s, c)
  | n + 1, s, c =>
    if ueq s.g (uzero s.g.length) then (s, c)
    else dsVtLoop f0 inverse n (dsStep f0 inverse s) (c + 1)

/-- fuel of the vartime loop: the fixed trip count for full-width operands (never reached if the
    fixed-count loop is correct). -/
def vtFuel (n : Nat) : Nat := iterations (n * LB) (n * LB) + 1

def divstepsVartime (e f0 g : List Nat) (inverse : Int) : DS × Nat :=
  dsVtLoop f0 inverse (vtFuel f0.length) ⟨1, f0, g, uzero f0.length, e⟩ 0

/-! ### the inverter -/

structure Inverter where
  modulus : List Nat
  adjuster : List Nat
  inverse : Int

/-- `SafeGcdInverter::new(modulus, adjuster)` for `sat` 64-bit limbs. -/
def Inverter.new (sat : Nat) (modulus adjuster : List Nat) : Inverter :=
  let n := nlimbsFor (sat * 64)
  ⟨fromUint modulus n, fromUint adjuster n, invMod2_62 modulus⟩

/-- `norm(value, negate)`. -/
def norm (modulus value : List Nat) (negate : Bool) : List Nat :=
  let v1 := uselect value (uadd value modulus) (uisNeg value)
  let v2 := uselect v1 (uneg v1) negate
  uselect v2 (uadd v2 modulus) (uisNeg v2)

/-- outcome of an inversion: the raw value, the `is_some` flag, `g` after the loop (for the
    `debug_assert`), whether `to_uint` saw a negative value, and the trip count. -/
structure InvOut where
  value : List Nat
  isSome : Bool
  gZero : Bool
  negative : Bool
  trips : Nat

def finishInv (inv : Inverter) (sat : Nat) (d f g : List Nat) (trips : Nat) : InvOut :=
  let antiunit := ueq f (uminusOne f.length)
  let ret := norm inv.modulus d antiunit
  let isSome := ueq f (uone f.length) || antiunit
  ⟨toUint ret sat, isSome, ueq g (uzero g.length), uisNeg ret, trips⟩

/-- `SafeGcdInverter::inv`. -/
def Inverter.inv (inv : Inverter) (sat : Nat) (value : List Nat) : InvOut :=
  let s := divsteps false inv.adjuster inv.modulus (fromUint value inv.modulus.length) inv.inverse
  finishInv inv sat s.d s.f s.g 0

/-- `SafeGcdInverter::inv_vartime`. -/
def Inverter.invVartime (inv : Inverter) (sat : Nat) (value : List Nat) : InvOut :=
  let r := divstepsVartime inv.adjuster inv.modulus (fromUint value inv.modulus.length) inv.inverse
  finishInv inv sat r.1.d r.1.f r.1.g r.2

/-! ### gcd via safegcd -/

structure GcdOut where
  value : List Nat
  gZero : Bool
  negative : Bool
  trips : Nat
  iters : Nat

/-- `SafeGcdInverter::gcd(f, g)` / `gcd_vartime` for `sat`-limb operands. -/
def gcdFixed (vartime : Bool) (sat : Nat) (fw gw : List Nat) : GcdOut :=
  let n := nlimbsFor (sat * 64)
  let inverse := invMod2_62 fw
  let e := uone n
  let f := fromUint fw n
  let g := fromUint gw n
  let iters := iterations (ubits f) (ubits g)
  let r := if vartime then divstepsVartime e f g inverse else (divsteps false e f g inverse, iters)
  let f1 := uselect r.1.f (uneg r.1.f) (uisNeg r.1.f)
  ⟨toUint f1 sat, ueq r.1.g (uzero n), uisNeg f1, r.2, iters⟩

/-! ### boxed duplicates (src/modular/safegcd/boxed.rs) — the limb arithmetic is a literal copy;
    what differs is the limb-count bookkeeping, mirrored here. -/

/-- `BoxedSafeGcdInverter::new`: the adjuster is widened to the modulus' precision. -/
def Inverter.newBoxed (modulus adjuster : List Nat) : Inverter :=
  let n := nlimbsFor (modulus.length * 64)
  let adjW := adjuster ++ List.replicate (modulus.length - adjuster.length) 0   -- adjuster.widen(..)
  ⟨fromUint modulus n, fromUint adjW n, invMod2_62 modulus⟩

/-- `BoxedUnsatInt::widen` = `Vec::resize(nlimbs, 0)` (truncates when shorter; the crate only
    `debug_assert!`s). -/
def uresize (a : List Nat) (n : Nat) : List Nat := a.take n ++ List.replicate (n - a.length) 0

/-- `BoxedSafeGcdInverter::invert(_vartime)`; the value keeps its own precision `value.length`. -/
def Inverter.invBoxed (inv : Inverter) (vartime : Bool) (value : List Nat) : InvOut :=
  let n := inv.modulus.length
  let g := uresize (fromUint value (nlimbsFor (value.length * 64))) n
  let r := if vartime then divstepsVartime inv.adjuster inv.modulus g inv.inverse
            else (divsteps true inv.adjuster inv.modulus g inv.inverse, 0)
  finishInv inv value.length r.1.d r.1.f r.1.g r.2

/-- `safegcd::boxed::gcd(f, g)` / `gcd_vartime`: the unsaturated limbs are sized for the wider operand,
    the result is converted back at that precision (`to_uint(wide_precision)`) and then shortened to
    `f`'s precision (`.shorten(bits_precision)` = the low limbs). -/
def gcdBoxed (vartime : Bool) (fw gw : List Nat) : GcdOut :=
  let wide := max fw.length gw.length
  let n := nlimbsFor (wide * 64)
  let inverse := invMod2_62 fw
  let f := fromUint fw n
  let g := fromUint gw n
  let e := uone n
  let iters := iterations (ubitsBoxed f) (ubitsBoxed g)
  let r := if vartime then divstepsVartime e f g inverse else (divsteps true e f g inverse, iters)
  let f1 := uselect r.1.f (uneg r.1.f) (uisNeg r.1.f)
  ⟨(toUint f1 wide).take fw.length, ueq r.1.g (uzero n), uisNeg f1, r.2, iters⟩

end CB.SafeGcd
