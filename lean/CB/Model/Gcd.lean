/-
  CB.Model.Gcd — `Uint::gcd` / `BoxedUint::gcd` by common power of two and odd-operand selection
  (src/uint/gcd.rs:13-30, src/uint/boxed/gcd.rs:11-25), the `Gcd` trait forms and the signed
  wrappers (src/int/gcd.rs), and the mathematical specifications `L0` the property demands
  (`Nat.gcd`, modular inverse).  Shifts / trailing_zeros / select are C05/C06 operations and are
  called on values.  Core Lean only.
-/
import CB.Model.SafeGcd
namespace CB.Gcd
open CB.InvMod2k

/-- `Uint::gcd(&self, rhs)`, parametrised by `og f g` = `SafeGcdInverter::gcd(&f, &g)`. -/
def gcdWith (og : Nat → Nat → Nat) (w a b : Nat) : Nat :=
  let k1 := tz w a
  let k2 := tz w b
  let k := if k2 < k1 then k2 else k1                  -- from_u32_lt(k2, k1).select_u32(k1, k2)
  let s1 := if k < w then a / 2 ^ k else 0             -- self.overflowing_shr(k).unwrap_or(ZERO)
  let s2 := if k < w then b / 2 ^ k else 0
  let s2odd := decide (s2 % 2 = 1)
  let f := if !s2odd then s2 else s1                   -- select(&s1, &s2, s2.is_odd().not())
  let g := if s2odd then s2 else s1                    -- select(&s1, &s2, s2.is_odd())
  let r := og f g
  if k < w then (r * 2 ^ k) % 2 ^ w else 0             -- .overflowing_shl(k).unwrap_or(ZERO)

/-- `Gcd::gcd_vartime for Uint`: odd `self` → `Odd::gcd_vartime`, else the constant-time `gcd`. -/
def gcdVartimeWith (og ogv : Nat → Nat → Nat) (w a b : Nat) : Nat :=
  if a % 2 = 1 then ogv a b else gcdWith og w a b

/-- `Int::abs` on the two's-complement pattern. -/
def iabs (w a : Nat) : Nat := (absSign w a).1

/-! ### the safegcd instances on values -/

def toWords (n x : Nat) : List Nat := CB.toLimbs n x

/-- `SafeGcdInverter::<n, _>::gcd(f, g)` on values. -/
def oddGcdFixed (vartime : Bool) (n f g : Nat) : Nat :=
  CB.val (CB.SafeGcd.gcdFixed vartime n (toWords n f) (toWords n g)).value

def uintGcd (n a b : Nat) : Nat := gcdWith (oddGcdFixed false n) (64 * n) a b
def uintGcdVartime (n a b : Nat) : Nat :=
  gcdVartimeWith (oddGcdFixed false n) (oddGcdFixed true n) (64 * n) a b

/-! ### `BoxedUint` (limb lists, so that precision mismatches are expressible) -/

/-- `BoxedUint::ct_select(a, b, c)`: result has `a.nlimbs()` limbs and indexes `b.limbs[i]` for
    every `i < a.nlimbs()` — out of bounds (`none` = panic) when `b` is shorter. -/
def ctSelectBoxed (a b : List Nat) (c : Bool) : Option (List Nat) :=
  if a.length > b.length then none else some (if c then b.take a.length else a)

def shrBoxed (a : List Nat) (k : Nat) : List Nat :=
  let w := 64 * a.length
  toWords a.length (if k < w then CB.val a / 2 ^ k else 0)
def shlBoxed (a : List Nat) (k : Nat) : List Nat :=
  let w := 64 * a.length
  toWords a.length (if k < w then (CB.val a * 2 ^ k) % 2 ^ w else 0)

/-- `BoxedUint::widen(bits)`: zero limbs appended up to `n` limbs (`n ≥ a.length` at every call site). -/
def widenBoxed (a : List Nat) (n : Nat) : List Nat := a ++ List.replicate (n - a.length) 0

/-- `Odd<BoxedUint>::gcd(_vartime)` = `safegcd::boxed::gcd(_vartime)`: `to_uint` asserts
    non-negativity. `none` = panic. Result at `f`'s precision. -/
def boxedOddGcd (vartime : Bool) (f g : List Nat) : Option (List Nat) :=
  let r := CB.SafeGcd.gcdBoxed vartime f g
  if r.negative then none else some r.value

/-- `impl Gcd for BoxedUint :: gcd` (as repaired by /repo 1970abd): both operands are widened to the
    larger precision first, so `ct_select` sees equal limb counts; result at the larger precision. -/
def boxedGcd (a b : List Nat) : Option (List Nat) :=
  let n := max a.length b.length
  let lhs := widenBoxed a n
  let rhs := widenBoxed b n
  let k1 := tz (64 * lhs.length) (CB.val lhs)
  let k2 := tz (64 * rhs.length) (CB.val rhs)
  let k := if k2 < k1 then k2 else k1
  let s1 := shrBoxed lhs k
  let s2 := shrBoxed rhs k
  let s2odd := decide (s2.headD 0 % 2 = 1)
  match ctSelectBoxed s1 s2 (!s2odd), ctSelectBoxed s1 s2 s2odd with
  | some f, some g =>
    match boxedOddGcd false f g with
    | some r => some (shlBoxed r k)
    | none => none
  | _, _ => none

/-- `BoxedUint::gcd_vartime`: odd `self` → `Odd::gcd_vartime` (result at `self`'s precision) widened to the
    larger of the two operand precisions (since /repo 30286aa, as `gcd` returns it), else the constant-time `gcd`
    (result at the larger precision). -/
def boxedGcdVartime (a b : List Nat) : Option (List Nat) :=
  if a.headD 0 % 2 = 1 then (boxedOddGcd true a b).map (fun r => widenBoxed r (max a.length b.length))
  else boxedGcd a b

/-- the behaviour BEFORE /repo 1970abd (kept for the record, not used by the driver): no widening —
    a shorter `rhs` indexes out of bounds, a longer one is cut to `self`'s precision. -/
def boxedGcdOld (a b : List Nat) : Option (List Nat) :=
  let k1 := tz (64 * a.length) (CB.val a)
  let k2 := tz (64 * b.length) (CB.val b)
  let k := if k2 < k1 then k2 else k1
  let s1 := shrBoxed a k
  let s2 := shrBoxed b k
  let s2odd := decide (s2.headD 0 % 2 = 1)
  match ctSelectBoxed s1 s2 (!s2odd), ctSelectBoxed s1 s2 s2odd with
  | some f, some g =>
    match boxedOddGcd false f g with
    | some r => some (shlBoxed r k)
    | none => none
  | _, _ => none

/-! ### L0: what the property demands -/

/-- extended Euclid on `(r0, r1, t0, t1)` with fuel: returns `t` with `t·a ≡ gcd (mod m)`. -/
def xgcdGo : Nat → Int → Int → Int → Int → Int × Int
  | 0, r0, _, t0, _ => (r0, t0)
  | fuel + 1, r0, r1, t0, t1 =>
    if r1 = 0 then (r0, t0)
    else
      let q := r0 / r1
      xgcdGo fuel r1 (r0 - q * r1) t1 (t0 - q * t1)

/-- modular inverse demanded by C10: `some x` with `x < m`, `a·x ≡ 1 (mod m)` iff `gcd(a, m) = 1`
    (`m = 0`: `none`; `m = 1`: `some 0`). -/
def specInv (a m : Nat) : Option Nat :=
  if m = 0 then none
  else if Nat.gcd a m ≠ 1 then none
  else
    let (_, t) := xgcdGo (2 * Nat.log2 m + 4) (m : Int) ((a % m : Nat) : Int) 0 1
    some (t % (m : Int)).toNat

def specGcd (a b : Nat) : Nat := Nat.gcd a b

end CB.Gcd
