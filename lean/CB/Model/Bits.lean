/-
  CB.Model.Bits — bit queries and bitwise operators, as the code computes them:
    src/uint/bits.rs (free functions over `&[Limb]`, shared by `Uint` and `BoxedUint`),
    src/uint/boxed/bits.rs, src/limb/bits.rs, src/uint/{bit_and,bit_or,bit_xor,bit_not}.rs,
    `BoxedUint::map_limbs` (src/uint/boxed.rs).
  Core Lean only.
-/
import CB.Model.Shift
namespace CB.Bits
open CB CB.Shift

/-! ### primitive word bit counts (Rust primitive semantics; trusted, stated here) -/

/-- count of trailing zero bits within `f` bits -/
def tzAux : Nat → Nat → Nat
  | 0, _ => 0
  | f + 1, x => if x % 2 = 1 then 0 else 1 + tzAux f (x / 2)
/-- `Word::trailing_zeros` (64 for 0). -/
def wtz (x : Nat) : Nat := tzAux 64 x
/-- `Word::trailing_ones` = `(!x).trailing_zeros()`. -/
def wto (x : Nat) : Nat := wtz (wnot x)

/-- `Limb::bits`. -/
def limbBits (x : Nat) : Nat := 64 - wlz x

/-! ### `bit` / `bit_vartime` -/

/-- `while i < limbs.len()`: `result |= from_u32_eq(i, limb_num).if_true_word(limbs[i] & index_mask)`. -/
def bitLoop (limbNum indexMask : Nat) : List Nat → Nat → Nat → Nat
  | [], _, res => res
  | l :: ls, i, res =>
    bitLoop limbNum indexMask ls (i + 1) (res ||| ifTrueWord (fromU32Eq i limbNum) (l &&& indexMask))

/-- `uint::bits::bit(limbs, index) -> ConstChoice`. -/
def bitCt (a : List Nat) (index : Nat) : Nat :=
  let limbNum := index / 64
  let iil := index % 64
  let indexMask := wshl 1 iil
  fromWordLsb (wshr (bitLoop limbNum indexMask a 0 0) iil)

/-- `uint::bits::bit_vartime`. -/
def bitVartime (a : List Nat) (index : Nat) : Bool :=
  let limbNum := index / 64
  let iil := index % 64
  if limbNum ≥ a.length then false else (wshr (a.getD limbNum 0) iil) &&& 1 == 1

/-! ### leading zeros, bit length -/

/-- `leading_zeros` loop, DESCENDING over the limbs: the recursion handles the tail (higher limbs) first;
    returns `(count, nonzero_limb_not_encountered)`. -/
def lzAux : List Nat → Nat × Nat
  | [] => (0, WMAX)
  | l :: ls =>
    let (cnt, ne) := lzAux ls
    (cnt + ifTrueU32 ne (wlz l), ne &&& choiceNot (fromWordNonzero l))

def leadingZeros (a : List Nat) : Nat := (lzAux a).1
/-- `Uint::bits`: `Self::BITS - self.leading_zeros()`. -/
def ubits (a : List Nat) : Nat := 64 * a.length - leadingZeros a

/-- `bits_vartime` on the limbs most-significant first: `while i > 0 && limbs[i] == 0 { i -= 1 }`,
    then `64 * (i + 1) - limbs[i].leading_zeros()`.  `none` = panic (`limbs.len() - 1` on an empty slice). -/
def bitsVartimeRev : List Nat → Option Nat
  | [] => none
  | [l] => some (64 * 1 - wlz l)
  | l :: l' :: ls => if l = 0 then bitsVartimeRev (l' :: ls) else some (64 * (ls.length + 2) - wlz l)
def bitsVartime (a : List Nat) : Option Nat := bitsVartimeRev a.reverse
/-- `leading_zeros_vartime`: `Self::BITS - self.bits_vartime()`. -/
def leadingZerosVartime (a : List Nat) : Option Nat := (bitsVartime a).map fun b => 64 * a.length - b

/-! ### trailing zeros / ones -/

/-- `trailing_zeros` loop (ascending), accumulators `count`, `nonzero_limb_not_encountered`. -/
def tzLoop : List Nat → Nat → Nat → Nat
  | [], cnt, _ => cnt
  | l :: ls, cnt, ne => tzLoop ls (cnt + ifTrueU32 ne (wtz l)) (ne &&& choiceNot (fromWordNonzero l))
def trailingZeros (a : List Nat) : Nat := tzLoop a 0 WMAX

/-- `trailing_zeros_vartime`: `count += z; if z != Limb::BITS { break }`. -/
def trailingZerosVartime : List Nat → Nat
  | [] => 0
  | l :: ls => if wtz l ≠ 64 then wtz l else wtz l + trailingZerosVartime ls

/-- `trailing_ones` loop, flag `nonmax_limb_not_encountered` updated with `from_word_eq(l, MAX)`. -/
def toLoop : List Nat → Nat → Nat → Nat
  | [], cnt, _ => cnt
  | l :: ls, cnt, ne => toLoop ls (cnt + ifTrueU32 ne (wto l)) (ne &&& fromWordEq l WMAX)
def trailingOnes (a : List Nat) : Nat := toLoop a 0 WMAX

def trailingOnesVartime : List Nat → Nat
  | [] => 0
  | l :: ls => if wto l ≠ 64 then wto l else wto l + trailingOnesVartime ls

/-! ### set_bit -/

/-- `Uint::set_bit` loop: `new = bit_value.select_word(old & !mask, old | mask)`;
    `limbs[i] = is_right_limb.select_word(old, new)`. -/
def setBitLoop (limbNum indexMask bitValue : Nat) : List Nat → Nat → List Nat
  | [], _ => []
  | l :: ls, i =>
    selectWord l (selectWord (l &&& wnot indexMask) (l ||| indexMask) bitValue) (fromU32Eq i limbNum)
      :: setBitLoop limbNum indexMask bitValue ls (i + 1)

/-- `Uint::set_bit(index, bit_value)`; `bit_value` is a `ConstChoice` word. -/
def setBit (a : List Nat) (index bitValue : Nat) : List Nat :=
  setBitLoop (index / 64) (wshl 1 (index % 64)) bitValue a 0

/-- `Uint::set_bit_vartime(index, bit_value)` / `BoxedUint::set_bit_vartime`: early return of the unchanged
    value when `limb_num >= LIMBS`, otherwise `limbs[limb_num]` is updated in place. -/
def setBitVartime (a : List Nat) (index : Nat) (bitValue : Bool) : List Nat :=
  let limbNum := index / 64
  let iil := index % 64
  if limbNum ≥ a.length then a else
  let old := a.getD limbNum 0
  a.set limbNum (if bitValue then old ||| wshl 1 iil else old &&& wnot (wshl 1 iil))

/-! ### bitwise operators -/

def ubitand : List Nat → List Nat → List Nat
  | a :: as, b :: bs => (a &&& b) :: ubitand as bs
  | _, _ => []
def ubitxor : List Nat → List Nat → List Nat
  | a :: as, b :: bs => (a ^^^ b) :: ubitxor as bs
  | _, _ => []
def unot (a : List Nat) : List Nat := a.map wnot
/-- `Uint::bitand_limb`. -/
def ubitandLimb (a : List Nat) (l : Nat) : List Nat := a.map (· &&& l)

/-- `BoxedUint::map_limbs`: `max` of the limb counts, missing limbs read as zero. -/
def mapLimbs (f : Nat → Nat → Nat) : List Nat → List Nat → List Nat
  | a :: as, b :: bs => f a b :: mapLimbs f as bs
  | a :: as, [] => f a 0 :: mapLimbs f as []
  | [], b :: bs => f 0 b :: mapLimbs f [] bs
  | [], [] => []

/-- `BitOrAssign<&BoxedUint> for BoxedUint`: `*self = Self::bitor(self, other)` (widens like `&=`, `^=`). -/
def orAssign (a b : List Nat) : List Nat := mapLimbs (· ||| ·) a b

end CB.Bits
