/-
  CB.Model.Basic — word-level primitives of crypto-bigint (64-bit target), modelled on `Nat`
  with explicit reductions, exactly as `src/primitives.rs` computes them through `WideWord`.
  Core Lean only (no Mathlib, no Std tactics): this file is linked into the `cbmodel` driver.
-/
namespace CB

/-- `Word` modulus: 2^64 (only `target_pointer_width = "64"` is modelled). -/
def B : Nat := 18446744073709551616

/-- `Word::MAX`. -/
def WMAX : Nat := 18446744073709551615

/-- `1 << (Word::BITS - 1)`. -/
def HALF : Nat := 9223372036854775808

/-- Little-endian limb list → value. -/
def val : List Nat → Nat
  | [] => 0
  | x :: xs => x + B * val xs

/-- All limbs are words. -/
def WF (l : List Nat) : Prop := ∀ x ∈ l, x < B

/-- `x` as exactly `n` little-endian limbs (truncating). -/
def toLimbs : Nat → Nat → List Nat
  | 0, _ => []
  | n + 1, x => (x % B) :: toLimbs n (x / B)

/-- `primitives::adc`: `a + b + carry` through `WideWord`; returns `(lo, hi)`. -/
def adc (a b c : Nat) : Nat × Nat :=
  let ret := a + b + c
  (ret % B, ret / B)

/-- `primitives::overflowing_add`. -/
def overflowingAdd (a b : Nat) : Nat × Nat :=
  ((a + b) % B, (a + b) / B)

/-- `primitives::sbb`: only the top bit of `borrow` is consumed; `WideWord::wrapping_sub`. -/
def sbb (a b bw : Nat) : Nat × Nat :=
  let borrow := bw / HALF
  let ret := (a + B * B - (b + borrow)) % (B * B)
  (ret % B, ret / B)

/-- `primitives::mul_wide`: `(lo, hi)`. -/
def mulWide (a b : Nat) : Nat × Nat := ((a * b) % B, (a * b) / B)

/-- `primitives::mac`: `a + b*c + carry` → `(lo, hi)`; the final `hi.wrapping_add(c)`. -/
def mac (a b c carry : Nat) : Nat × Nat :=
  let ret := a + b * c
  let lo := ret % B
  let hi := ret / B
  let lo2 := (lo + carry) % B
  let cf := (lo + carry) / B
  (lo2, (hi + cf) % B)

/-- `Word::wrapping_sub`. -/
def wsub (a b : Nat) : Nat := (a + B - b % B) % B
/-- `Word::wrapping_add`. -/
def wadd (a b : Nat) : Nat := (a + b) % B
/-- `Word::wrapping_neg`. -/
def wneg (a : Nat) : Nat := (B - a % B) % B
/-- `!x` on a word. -/
def wnot (a : Nat) : Nat := WMAX - a % B
/-- `Word::wrapping_mul`. -/
def wmul (a b : Nat) : Nat := (a * b) % B

/-- `ConstChoice` is a word in `{0, MAX}`; `is_true_vartime`/`to_u8`. -/
def choiceBit (c : Nat) : Nat := c % 2
/-- `ConstChoice::from_word_lsb`. -/
def fromWordLsb (w : Nat) : Nat := wneg w
/-- `ConstChoice::from_word_mask` (identity on `{0, MAX}`). -/
def fromWordMask (w : Nat) : Nat := w
/-- `ConstChoice::not`. -/
def choiceNot (c : Nat) : Nat := wnot c

/-- `ConstChoice::select_word(a, b)`: `a ^ (mask & (a ^ b))`. -/
def selectWord (a b c : Nat) : Nat := a ^^^ (c &&& (a ^^^ b))

/-- `ConstChoice::from_word_nonzero`: `((x | -x) >> 63)` as lsb choice. -/
def fromWordNonzero (x : Nat) : Nat := fromWordLsb ((x ||| wneg x) / HALF)
/-- `ConstChoice::from_word_eq`. -/
def fromWordEq (x y : Nat) : Nat := choiceNot (fromWordNonzero (x ^^^ y))
/-- `ConstChoice::from_word_lt`: `(((!x) & y) | (((!x) | y) & (x - y))) >> 63`. -/
def fromWordLt (x y : Nat) : Nat :=
  fromWordLsb ((((wnot x) &&& y) ||| (((wnot x) ||| y) &&& (wsub x y))) / HALF)
/-- `ConstChoice::from_word_gt`. -/
def fromWordGt (x y : Nat) : Nat := fromWordLt y x
/-- `ConstChoice::from_word_le`: `(((!x) | y) & ((x ^ y) | !(y - x))) >> 63`. -/
def fromWordLe (x y : Nat) : Nat :=
  fromWordLsb ((((wnot x) ||| y) &&& ((x ^^^ y) ||| wnot (wsub y x))) / HALF)

end CB
