/-
  CB.Model.Leak — leakage semantics for property C01 (secret-independent execution).

  What can an attacker of the C01 threat model see?  The sequence of control-flow edges, the memory
  addresses touched, and the operands of hardware division.  This file gives the vocabulary for saying
  that about the limb-level algorithms of the crate:

  * `Sec` is an ABSTRACT secret word.  Its constructor and its field are `private`: outside this file
    a `Sec` can only be combined by the constant-time word operations below (wrapping arithmetic, bit
    operations, shifts — hardware shifts by a secret amount are constant-time —, `adc/sbb/mac`, mask
    construction and mask-select, `leading_zeros/trailing_zeros` intrinsics).  None of them produces a
    `Nat` or a `Bool`.
  * `L α` is a writer monad carrying the leakage trace.  A value computed from public data (limb
    counts, public shift amounts, loop counters) steers control flow / indexes memory through
    `pubBranch`, `pubIndex` — the event records the PUBLIC value.
  * A secret can steer control flow, index memory, feed a hardware division or become public only
    through `branchOn`, `indexBy`, `divBy`, `declassify`; each appends an event that carries the
    secret-derived value.  So a model function that branches on a secret has a trace that shows it.

  The algorithms re-expressed over this vocabulary live in `CB/Model/LeakOps.lean`; that file (and any
  other) cannot open a `Sec`.  `tools/check_c01.py` additionally greps it for `Sec.rec`, `Sec.casesOn`,
  `Sec.mk`, `.v` so that the recursor cannot be used to get around `private`.

  Core Lean only.
-/
import CB.Model.Basic
namespace CB.Leak
open CB

/-- What the attacker observes. -/
inductive Event where
  /-- a control-flow decision taken on a PUBLIC value (loop bound, public shift amount, …) -/
  | pubBranch (v : Nat)
  /-- a memory access at an index computed from PUBLIC values only -/
  | pubIndex (i : Nat)
  /-- control flow steered by a secret-derived value -/
  | branchOn (v : Nat)
  /-- memory indexed by a secret-derived value -/
  | indexBy (v : Nat)
  /-- operands fed to a hardware division -/
  | divBy (n d : Nat)
  /-- a secret-derived value made public (returned as `bool`/`u32`, used as a loop bound, …) -/
  | declassify (v : Nat)
  deriving DecidableEq, Repr

abbrev Trace := List Event

/-- An abstract secret 64-bit word. -/
structure Sec where
  private mk ::
  private v : Nat

namespace Sec

/-- Making a secret out of a public word is always allowed. -/
def ofNat (x : Nat) : Sec := ⟨x % B⟩
def zero : Sec := ⟨0⟩
def one : Sec := ⟨1⟩
def max : Sec := ⟨WMAX⟩
instance : Inhabited Sec := ⟨zero⟩

-- wrapping arithmetic and bit operations (single machine instructions, operand-independent timing)
def add (a b : Sec) : Sec := ⟨wadd a.v b.v⟩
def sub (a b : Sec) : Sec := ⟨wsub a.v b.v⟩
def mul (a b : Sec) : Sec := ⟨wmul a.v b.v⟩
def neg (a : Sec) : Sec := ⟨wneg a.v⟩
def not (a : Sec) : Sec := ⟨wnot a.v⟩
def and (a b : Sec) : Sec := ⟨a.v &&& b.v⟩
def or (a b : Sec) : Sec := ⟨a.v ||| b.v⟩
def xor (a b : Sec) : Sec := ⟨a.v ^^^ b.v⟩
/-- `x << s`, `s` public, `s < 64`. -/
def shlPub (a : Sec) (s : Nat) : Sec := ⟨(a.v * 2 ^ s) % B⟩
/-- `x >> s`, `s` public. -/
def shrPub (a : Sec) (s : Nat) : Sec := ⟨a.v / 2 ^ s⟩
/-- `x << s` with a SECRET amount (`Word::wrapping_shl`: a hardware shift, amount taken mod 64). -/
def shl (a s : Sec) : Sec := ⟨(a.v * 2 ^ (s.v % 64)) % B⟩
/-- `x >> s` with a SECRET amount (`Word::wrapping_shr`). -/
def shr (a s : Sec) : Sec := ⟨a.v / 2 ^ (s.v % 64)⟩
/-- `x >> s` ARITHMETIC (i64), `s` public, `s < 64`. -/
def sarPub (a : Sec) (s : Nat) : Sec := ⟨(a.v / 2 ^ s + (if a.v ≥ HALF then (B - 2 ^ (64 - s)) else 0)) % B⟩
/-- `x % m` for a COMPILE-TIME constant `m` (e.g. `shift % Self::BITS`): the compiler strength-reduces it to a mask
or a multiply-and-shift; no division instruction is emitted for a constant divisor. -/
def remConst (a : Sec) (m : Nat) : Sec := ⟨a.v % m⟩
/-- `x / m` for a COMPILE-TIME constant `m` (e.g. `(49 * d + addend) / 17`): multiply-and-shift, no division instruction. -/
def divConst (a : Sec) (m : Nat) : Sec := ⟨a.v / m⟩
/-- `primitives::adc` -/
def adc (a b c : Sec) : Sec × Sec := (⟨(CB.adc a.v b.v c.v).1⟩, ⟨(CB.adc a.v b.v c.v).2⟩)
/-- `primitives::sbb` -/
def sbb (a b bw : Sec) : Sec × Sec := (⟨(CB.sbb a.v b.v bw.v).1⟩, ⟨(CB.sbb a.v b.v bw.v).2⟩)
/-- `primitives::mac` : `a + b*c + carry` -/
def mac (a b c carry : Sec) : Sec × Sec := (⟨(CB.mac a.v b.v c.v carry.v).1⟩, ⟨(CB.mac a.v b.v c.v carry.v).2⟩)
/-- `primitives::mul_wide` (`mulhilo`): `(lo, hi)` -/
def mulWide (a b : Sec) : Sec × Sec := (⟨(CB.mulWide a.v b.v).1⟩, ⟨(CB.mulWide a.v b.v).2⟩)
/-- `Word::leading_zeros` (lzcnt / bsr: "assuming this is constant-time for primitive types") -/
def lz (a : Sec) : Sec := ⟨if a.v = 0 then 64 else 63 - Nat.log2 a.v⟩
/-- `Word::trailing_zeros` -/
def tz (a : Sec) : Sec := ⟨if a.v = 0 then 64 else Nat.log2 (a.v &&& wneg a.v)⟩

-- ConstChoice: masks in {0, MAX}, built and used without branches
def maskLsb (a : Sec) : Sec := ⟨fromWordLsb a.v⟩
def maskNonzero (a : Sec) : Sec := ⟨fromWordNonzero a.v⟩
def maskEq (a b : Sec) : Sec := ⟨fromWordEq a.v b.v⟩
def maskLt (a b : Sec) : Sec := ⟨fromWordLt a.v b.v⟩
def maskLe (a b : Sec) : Sec := ⟨fromWordLe a.v b.v⟩
def maskMsb (a : Sec) : Sec := ⟨fromWordLsb (a.v / HALF)⟩
/-- `ConstChoice::select_word(a, b)`: `b` if the mask is set, else `a`. -/
def select (a b c : Sec) : Sec := ⟨selectWord a.v b.v c.v⟩

/-- For tests and for the negative examples only: the value of a secret (THE ESCAPE HATCH — its use in a
model function would defeat the purpose; `tools/check_c01.py` rejects `reveal` in LeakOps.lean). -/
def reveal (a : Sec) : Nat := a.v

end Sec

/-- Writer monad: a value and the leakage it produced. -/
structure L (α : Type) where
  val : α
  tr : Trace

namespace L
def pure {α : Type} (a : α) : L α := ⟨a, []⟩
def bind {α β : Type} (m : L α) (k : α → L β) : L β := ⟨(k m.val).val, m.tr ++ (k m.val).tr⟩
end L

instance : Monad L where
  pure := L.pure
  bind := L.bind

/-- emit one event -/
def emit (e : Event) : L Unit := ⟨(), [e]⟩

/-- a control-flow decision on a public value -/
def pubBranch (v : Nat) : L Unit := emit (.pubBranch v)
/-- a memory access at a public index -/
def pubIndex (i : Nat) : L Unit := emit (.pubIndex i)

/-- `if secret != 0 { … }`: the only way to get a `Bool` for control flow out of a secret. -/
def branchOn (s : Sec) : L Bool := ⟨s.v != 0, [.branchOn s.v]⟩
/-- `table[secret]`: the only way to get an index out of a secret. -/
def indexBy (s : Sec) : L Nat := ⟨s.v, [.indexBy s.v]⟩
/-- hardware `div`: quotient and remainder, operands observable. -/
def divBy (n d : Sec) : L (Sec × Sec) := ⟨(⟨n.v / d.v⟩, ⟨n.v % d.v⟩), [.divBy n.v d.v]⟩
/-- the secret becomes a public number. -/
def declassify (s : Sec) : L Nat := ⟨s.v, [.declassify s.v]⟩

/-- `for i in 0..n { s = body(i, s) }` — a loop whose trip count is PUBLIC. -/
def forN {σ : Type} : (n : Nat) → (body : Nat → σ → L σ) → σ → L σ
  | 0, _, s => pure s
  | n + 1, body, s => forN n body s >>= body n

/-- `for i in lo..hi` -/
def forRange {σ : Type} (lo hi : Nat) (body : Nat → σ → L σ) (s : σ) : L σ :=
  forN (hi - lo) (fun i => body (lo + i)) s

/-- `for i in (0..n).rev()` -/
def forDown {σ : Type} (n : Nat) (body : Nat → σ → L σ) (s : σ) : L σ :=
  forN n (fun i => body (n - 1 - i)) s

/-- a vartime loop (`while cond`) needs fuel; `step` returns `none` to stop. -/
def whileFuel {σ : Type} : (fuel : Nat) → (step : σ → L (Option σ)) → σ → L σ
  | 0, _, s => pure s
  | f + 1, step, s => step s >>= fun r => match r with
    | none => pure s
    | some s' => whileFuel f step s'

/-- secret limb `i` of a little-endian limb list (the index is public). -/
def limb (a : List Sec) (i : Nat) : Sec := a.getD i Sec.zero

end CB.Leak
