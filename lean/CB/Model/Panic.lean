/-
  CB.Model.Panic — C11: `Except`-valued CHECKED TWINS of model functions.

  A twin `fD p x` runs the same control structure as the model function `f x`, but every place where
  the Rust source can stop with a panic is explicit:
    * `debug_assert!(c)`                      → `dassert p c`   (fires only with debug assertions)
    * plain `+ - * <<` on a primitive integer  → `addW/subW/mulW/shlW p …` (trap only with overflow checks;
                                                 without them the operation wraps / masks the shift)
    * `assert!`, `expect`, `unwrap`, slice indexing, `%`/`/` by zero → `check`, `idx`, … (both builds)
  `p : Profile` says which build is modelled: `release` (no debug assertions, no overflow checks) or
  `dbgchk` (both on).  `.error msg` = the Rust panics there; `.ok v` = it returns `v`.

  The twins mirror (64-bit target):
    src/const_choice.rs           from_word_mask / from_word_lsb / from_word_msb / from_word_nonzero / eq / lt / le
    src/uint/div_limb.rs          div2by1, div3by2 (debug asserts on BOTH sides of the masked selects)
    src/uint/shl.rs               shl_limb                       src/limb/{shl,shr}.rs  Limb::shl / shr
    src/uint/mul_mod.rs           the `(carry + 1) * c` step of mul_mod_special (old and repaired form)
    src/uint/bits.rs              bits_vartime on a limb slice
    src/uint/boxed/{shl,shr}.rs   prologue of overflowing_shl/shr_assign (`bits_precision - 1`, `% bits_precision`)
    src/uint/boxed/{add,sub}.rs   adc_assign / sbb_assign precision assertion (after fix 06768a9)
    src/uint/boxed/bits.rs        set_bit_vartime (after fix d309eb6)
    src/uint/encoding/der.rs      the fixed-size copy of a DER INTEGER (after fix 6217c78, and before)
    src/uint/boxed/encoding.rs    from_be_hex length assertion; src/uint/boxed.rs widen / shorten
    src/uint/inv_mod.rs           `expect("inverse mod 2^k exists")`, `expect("shift within range")` (before be88d84 / 8dd1192, and after)
  Core Lean only.
-/
import CB.Model.DivLimb
import CB.Model.Bits
import CB.Model.ModArith
namespace CB.Panic
open CB CB.Div

/-- which of the two builds of C11 is modelled -/
structure Profile where
  /-- debug assertions AND overflow checks are compiled in -/
  dbg : Bool
  deriving DecidableEq, Repr

/-- opt-level 3, `debug-assertions = false`, `overflow-checks = false` -/
def release : Profile := ⟨false⟩
/-- opt-level 1, `debug-assertions = true`, `overflow-checks = true` -/
def dbgchk : Profile := ⟨true⟩

abbrev Chk := Except String

/-- `debug_assert!(c)` -/
def dassert (p : Profile) (c : Bool) (msg : String) : Chk Unit :=
  if p.dbg && !c then .error msg else .ok ()

/-- `assert!(c)` / `expect` / `unwrap` / a bounds check: both builds -/
def check (c : Bool) (msg : String) : Chk Unit :=
  if c then .ok () else .error msg

/-- plain `a + b` on `Word` -/
def addW (p : Profile) (a b : Nat) : Chk Nat :=
  if a + b < B then .ok (a + b) else if p.dbg then .error "attempt to add with overflow" else .ok ((a + b) % B)
/-- plain `a - b` on `Word` -/
def subW (p : Profile) (a b : Nat) : Chk Nat :=
  if b ≤ a then .ok (a - b) else if p.dbg then .error "attempt to subtract with overflow" else .ok (wsub a b)
/-- plain `a * b` on `Word` -/
def mulW (p : Profile) (a b : Nat) : Chk Nat :=
  if a * b < B then .ok (a * b) else if p.dbg then .error "attempt to multiply with overflow" else .ok ((a * b) % B)
/-- plain `a << s` on `Word` (without overflow checks the shift amount is masked to 6 bits) -/
def shlW (p : Profile) (a s : Nat) : Chk Nat :=
  if s < 64 then .ok ((a <<< s) % B) else if p.dbg then .error "attempt to shift left with overflow" else .ok ((a <<< (s % 64)) % B)
/-- plain `a >> s` on `Word` -/
def shrW (p : Profile) (a s : Nat) : Chk Nat :=
  if s < 64 then .ok (a >>> s) else if p.dbg then .error "attempt to shift right with overflow" else .ok (a >>> (s % 64))
/-- plain `a - b` on `u32` / `usize` -/
def subU (p : Profile) (modulus a b : Nat) : Chk Nat :=
  if b ≤ a then .ok (a - b) else if p.dbg then .error "attempt to subtract with overflow" else .ok ((a + modulus - b) % modulus)
/-- `l[i]` -/
def idx (l : List Nat) (i : Nat) : Chk Nat :=
  match l[i]? with
  | some x => .ok x
  | none => .error "index out of bounds"

/-! ### src/const_choice.rs -/

/-- `ConstChoice::from_word_mask`: `debug_assert!(value == 0 || value == MAX)` -/
def fromWordMaskD (p : Profile) (w : Nat) : Chk Nat := do
  dassert p (w == 0 || w == WMAX) "from_word_mask"
  pure (fromWordMask w)

/-- `ConstChoice::from_word_lsb`: `debug_assert!(value == 0 || value == 1)` -/
def fromWordLsbD (p : Profile) (w : Nat) : Chk Nat := do
  dassert p (w == 0 || w == 1) "from_word_lsb"
  pure (fromWordLsb w)

/-- `from_word_msb(value) = from_word_lsb(value >> 63)` -/
def fromWordMsbD (p : Profile) (w : Nat) : Chk Nat := fromWordLsbD p (w / HALF)

/-- `from_word_nonzero(value) = from_word_lsb((value | value.wrapping_neg()) >> 63)` -/
def fromWordNonzeroD (p : Profile) (x : Nat) : Chk Nat := fromWordLsbD p ((x ||| wneg x) / HALF)

/-- `from_word_eq(x, y) = from_word_nonzero(x ^ y).not()` -/
def fromWordEqD (p : Profile) (x y : Nat) : Chk Nat := do
  let c ← fromWordNonzeroD p (x ^^^ y)
  pure (choiceNot c)

/-- `from_word_lt` -/
def fromWordLtD (p : Profile) (x y : Nat) : Chk Nat :=
  fromWordLsbD p ((((wnot x) &&& y) ||| (((wnot x) ||| y) &&& (wsub x y))) / HALF)

/-- `from_word_le` -/
def fromWordLeD (p : Profile) (x y : Nat) : Chk Nat :=
  fromWordLsbD p ((((wnot x) ||| y) &&& ((x ^^^ y) ||| wnot (wsub y x))) / HALF)

/-! ### src/uint/div_limb.rs -/

/-- `reciprocal(d)` (64-bit body): the Newton iteration is written with PLAIN `+ - *` on `u64`
    (only the last steps use `wrapping_*`), plus two debug assertions.  Shifts by constants `<<` do not
    trap (only the shift AMOUNT is checked).  `short_div` works on constants and a 9-bit value. -/
def reciprocalD (p : Profile) (d : Nat) : Chk Nat := do
  dassert p (decide (HALF ≤ d)) "reciprocal: d >= 1 << 63"
  let d0 := d &&& 1
  let d9 := d >>> 55
  let d40 ← addW p (d >>> 24) 1
  let d63 ← addW p (d >>> 1) d0
  let v0 := shortDiv recipV0Dividend 19 (d9 % U32) 9
  -- let v1 = (v0 << 11) - ((v0 * v0 * d40) >> 40) - 1;
  let v0v0 ← mulW p v0 v0
  let v0v0d ← mulW p v0v0 d40
  let t1 ← subW p ((v0 <<< 11) % B) (v0v0d >>> 40)
  let v1 ← subW p t1 1
  -- let v2 = (v1 << 13) + ((v1 * ((1 << 60) - v1 * d40)) >> 47);
  let v1d ← mulW p v1 d40
  let t2 ← subW p (1 <<< 60) v1d
  let t3 ← mulW p v1 t2
  let v2 ← addW p ((v1 <<< 13) % B) (t3 >>> 47)
  dassert p ((mulhilo v2 d63).1 == (1 <<< 32) - 1) "reciprocal: mulhilo(v2, d63).0 == (1 << 32) - 1"
  -- let e = Word::MAX - v2.wrapping_mul(d63) + 1 + (v2 >> 1) * d0;
  let e1 ← subW p WMAX (wmul v2 d63)
  let e2 ← addW p e1 1
  let e3 ← mulW p (v2 >>> 1) d0
  let e ← addW p e2 e3
  let hi := (mulhilo v2 e).1
  let v3 := wadd ((v2 <<< 31) % B) (hi >>> 1)
  let x := wadd v3 1
  let hi2 := (mulhilo x d).1
  let nz ← fromWordNonzeroD p x
  let hi3 := selectWord d hi2 nz
  pure (wsub (wsub v3 hi3) d)

/-- `Reciprocal::new(divisor)`: `divisor.0 << shift` with `shift = leading_zeros` (`< 64` for a non-zero divisor) -/
def reciprocalNewD (p : Profile) (divisor : Nat) : Chk Reciprocal := do
  let shift := leadingZeros divisor
  let dn ← shlW p divisor shift
  let r ← reciprocalD p dn
  pure { divisorNormalized := dn, shift := shift, reciprocal := r }

/-- `div2by1` with its three debug assertions; the masked corrections are computed on both sides,
    with `wrapping_*` as in the source. -/
def div2by1D (p : Profile) (u1 u0 : Nat) (rc : Reciprocal) : Chk (Nat × Nat) := do
  let d := rc.divisorNormalized
  dassert p (decide (HALF ≤ d)) "div2by1: d >= 1 << 63"
  dassert p (decide (u1 < d)) "div2by1: u1 < d"
  let m := mulhilo rc.reciprocal u1
  let s := addhilo m.1 m.2 u1 u0
  let q1 := wadd s.1 1
  let q0 := s.2
  let r := wsub u0 (wmul q1 d)
  let rGtQ0 ← fromWordLtD p q0 r
  let q1' := selectWord q1 (wsub q1 1) rGtQ0
  let r' := selectWord r (wadd r d) rGtQ0
  dassert p (decide (r' < d) || decide (q1' < WMAX)) "div2by1: r < d || q1 < Word::MAX"
  let rGeD ← fromWordLeD p d r'
  pure (selectWord q1' (wadd q1' 1) rGeD, selectWord r' (wsub r' d) rGeD)

/-- `ConstChoice::from_wide_word_le` ends in `from_wide_word_lsb`: `debug_assert!(value == 0 || value == 1)` -/
def fromWideWordLeD (p : Profile) (x y : Nat) : Chk Nat := do
  let bit := (((wwnot x) ||| y) &&& ((x ^^^ y) ||| wwnot (wwsub y x))) / (HALF * B)
  dassert p (bit == 0 || bit == 1) "from_wide_word_lsb"
  pure (((B * B - bit % (B * B)) % (B * B)) % B)

/-- plain `a + b` on `WideWord` -/
def addWW (p : Profile) (a b : Nat) : Chk Nat :=
  if a + b < B * B then .ok (a + b) else if p.dbg then .error "attempt to add with overflow" else .ok ((a + b) % (B * B))
/-- plain `a * b` on `WideWord` -/
def mulWW (p : Profile) (a b : Nat) : Chk Nat :=
  if a * b < B * B then .ok (a * b) else if p.dbg then .error "attempt to multiply with overflow" else .ok ((a * b) % (B * B))

/-- one round of the correction loop of `div3by2` (`quo as WideWord * v0 as WideWord`, `rem + d`) -/
def div3by2RoundD (p : Profile) (u0 v0 d : Nat) (st : Nat × Nat) : Chk (Nat × Nat) := do
  let quo := st.1
  let rem := st.2
  let qy ← mulWW p quo v0
  let rx := ((rem * B) % (B * B)) ||| u0
  let nzc ← fromWordNonzeroD p ((rem / B) % B)
  let lec ← fromWideWordLeD p qy rx
  let done := nzc ||| lec
  let rem' ← addWW p rem d
  pure (selectWord (wsub quo 1) quo done, selectWideWord rem' rem done)

/-- `div3by2` with `debug_assert!(shift == 0)`, `debug_assert!(u2 <= d)` and the nested checks -/
def div3by2D (p : Profile) (u2 u1 u0 : Nat) (rc : Reciprocal) (v0 : Nat) : Chk Nat := do
  let d := rc.divisorNormalized
  dassert p (rc.shift == 0) "div3by2: shift == 0"
  dassert p (decide (u2 ≤ d)) "div3by2: u2 <= d"
  let qMaxed ← fromWordEqD p u2 d
  let qr ← div2by1D p (selectWord u2 0 qMaxed) u1 rc
  let quo := selectWord qr.1 WMAX qMaxed
  let sum ← addWW p u2 u1
  let rem := selectWideWord qr.2 sum qMaxed
  let st1 ← div3by2RoundD p u0 v0 d (quo, rem)
  let st2 ← div3by2RoundD p u0 v0 d st1
  pure st2.1

/-! ### src/uint/shl.rs `shl_limb`, src/limb/shl.rs, src/limb/shr.rs -/

/-- loop of `shl_limb`: `self.limbs[i].0 << lshift`, `self.limbs[i-1].0 >> rshift` are plain shifts -/
def shlLimbLoopD (p : Profile) (lshift rshift nz : Nat) : Nat → List Nat → Chk (List Nat)
  | _, [] => pure []
  | prev, x :: xs => do
    let lo ← shlW p x lshift
    let hi ← shrW p prev rshift
    let rest ← shlLimbLoopD p lshift rshift nz x xs
    pure ((lo ||| (hi &&& nz)) :: rest)

/-- `Uint::shl_limb(shift)`: `Limb::BITS - shift` and `Word::BITS - shift` are plain `u32` subtractions -/
def shlLimbD (p : Profile) (a : List Nat) (shift : Nat) : Chk (List Nat × Nat) :=
  match a with
  | [] => pure ([], 0)
  | x0 :: xs => do
    let nz := nzMask shift
    let rs ← subU p 4294967296 64 shift
    let rshift := if shift = 0 then 0 else rs % 4294967296
    let last := (x0 :: xs).getLastD 0
    let carry := (last >>> (rs % 64)) &&& nz
    let l0 ← shlW p x0 shift
    let rest ← shlLimbLoopD p shift rshift nz x0 xs
    pure (l0 :: rest, carry)

/-- the `while j > 0` loop of `div_rem_limb_with_reciprocal` with the checked `div2by1`; limbs most
    significant first -/
def divLimbLoopRevD (p : Profile) (rc : Reciprocal) : List Nat → Nat → Chk (List Nat × Nat)
  | [], r => pure ([], r)
  | u :: us, r => do
    let qr ← div2by1D p r u rc
    let rest ← divLimbLoopRevD p rc us qr.2
    pure (qr.1 :: rest.1, rest.2)

/-- `div_rem_limb_with_reciprocal(u, reciprocal)`: checked `shl_limb`, checked `div2by1` per limb,
    `r >> reciprocal.shift` -/
def divRemLimbWithReciprocalD (p : Profile) (u : List Nat) (rc : Reciprocal) : Chk (List Nat × Nat) := do
  let sh ← shlLimbD p u rc.shift
  let l ← divLimbLoopRevD p rc sh.1.reverse sh.2
  let r ← shrW p l.2 rc.shift
  pure (l.1.reverse, r)

/-- `Limb::shl(self, shift) = Limb(self.0 << shift)` — documented: "Panics if `shift` overflows `Limb::BITS`" -/
def limbShlD (p : Profile) (x s : Nat) : Chk Nat := shlW p x s
/-- `Limb::shr(self, shift) = Limb(self.0 >> shift)` -/
def limbShrD (p : Profile) (x s : Nat) : Chk Nat := shrW p x s

/-! ### src/uint/mul_mod.rs — the `(carry + 1) * c` step of `mul_mod_special` -/

/-- before fix a301fd3: `let rhs = (carry.0 + 1) as WideWord * c.0 as WideWord` -/
def specialRhsOldD (p : Profile) (carry c : Nat) : Chk Nat := do
  let c1 ← addW p carry 1
  mulWW p c1 c

/-- after fix a301fd3: `let rhs = (carry.0 as WideWord + 1) * c.0 as WideWord` -/
def specialRhsD (p : Profile) (carry c : Nat) : Chk Nat := do
  let c1 ← addWW p carry 1
  mulWW p c1 c

/-- `mul_mod_special` for `LIMBS ≥ 2`: the reduction of `(lo, hi)` with the checked `(carry + 1) * c` step
    (the limb `mac`/`adc`/`sbb` chains go through `WideWord` and cannot trap) -/
def specialReduceD (p : Profile) (lo hi : List Nat) (c : Nat) : Chk (List Nat) := do
  let m := ModArith.macByLimb lo hi c 0
  let rhs ← specialRhsD p m.2 c
  let s := uadc m.1 (ModArith.fromWideWord lo.length rhs) 0
  let rhs2 := (wsub s.2 1) &&& c
  pure (usbb s.1 (ModArith.fromWord lo.length rhs2) 0).1

/-- the same with the pre-fix step -/
def specialReduceOldD (p : Profile) (lo hi : List Nat) (c : Nat) : Chk (List Nat) := do
  let m := ModArith.macByLimb lo hi c 0
  let rhs ← specialRhsOldD p m.2 c
  let s := uadc m.1 (ModArith.fromWideWord lo.length rhs) 0
  let rhs2 := (wsub s.2 1) &&& c
  pure (usbb s.1 (ModArith.fromWord lo.length rhs2) 0).1

/-! ### src/uint/bits.rs `bits_vartime(limbs: &[Limb])` -/

/-- the descending `while i > 0 && limbs[i].0 == 0` scan, `fuel` = number of steps still allowed -/
def bitsScan (l : List Nat) : Nat → Nat → Nat
  | 0, i => i
  | fuel + 1, i => if i > 0 ∧ l.getD i 0 = 0 then bitsScan l fuel (i - 1) else i

/-- `let mut i = limbs.len() - 1; …; let limb = limbs[i]; BITS * (i + 1) - limb.leading_zeros()` -/
def bitsVartimeD (p : Profile) (l : List Nat) : Chk Nat := do
  let i0 ← subU p B l.length 1
  let i := bitsScan l l.length i0
  let limb ← idx l i
  pure (64 * (i + 1) - Shift.wlz limb)

/-! ### src/uint/boxed/shl.rs, shr.rs — prologue of `overflowing_shl_assign` / `overflowing_shr_assign` -/

/-- `let shift_bits = u32::BITS - (self.bits_precision() - 1).leading_zeros(); …
     let shift = shift % self.bits_precision();` → `(shift_bits, shift)` -/
def boxedShiftPrologueD (p : Profile) (nlimbs shift : Nat) : Chk (Nat × Nat) := do
  let prec := (nlimbs * 64) % 4294967296
  let pm1 ← subU p 4294967296 prec 1
  check (prec != 0) "attempt to calculate the remainder with a divisor of zero"
  pure (32 - Shift.u32lz pm1, shift % prec)

/-! ### src/uint/boxed/add.rs, sub.rs — `adc_assign` / `sbb_assign` precision precondition -/

/-- after fix 06768a9: `assert!(rhs.len() <= self.nlimbs())`-style check in both builds -/
def boxedAssignPrecisionD (_p : Profile) (selfLimbs rhsLimbs : Nat) : Chk Unit :=
  check (decide (rhsLimbs ≤ selfLimbs)) "precision of rhs exceeds self"

/-- before the fix: `debug_assert!(self.bits_precision() >= rhs.bits_precision())` -/
def boxedAssignPrecisionOldD (p : Profile) (selfLimbs rhsLimbs : Nat) : Chk Unit :=
  dassert p (decide (rhsLimbs ≤ selfLimbs)) "precision of rhs exceeds self"

/-! ### src/uint/boxed/bits.rs `set_bit_vartime` (after fix d309eb6) -/

/-- `if limb_num >= self.limbs.len() { return }` then `self.limbs[limb_num].0 |= 1 << index_in_limb` -/
def setBitVartimeD (p : Profile) (a : List Nat) (index : Nat) (v : Bool) : Chk (List Nat) := do
  let limbNum := index / 64
  if limbNum ≥ a.length then pure a else
  let old ← idx a limbNum
  let m ← shlW p 1 (index % 64)
  pure (a.set limbNum (if v then old ||| m else old &&& wnot m))

/-- before the fix: no range check -/
def setBitVartimeOldD (p : Profile) (a : List Nat) (index : Nat) (v : Bool) : Chk (List Nat) := do
  let limbNum := index / 64
  let old ← idx a limbNum
  let m ← shlW p 1 (index % 64)
  pure (a.set limbNum (if v then old ||| m else old &&& wnot m))

/-! ### src/uint/encoding/der.rs — fixed-size copy of a DER INTEGER's magnitude octets -/

/-- `dst.copy_from_slice(src)` panics unless the lengths are equal -/
def copyFromSliceD (dstLen srcLen : Nat) : Chk Unit :=
  check (dstLen == srcLen) "copy_from_slice: source slice length does not match destination"

/-- after fix 6217c78: `if bytes.len() > array.len() { return Err }`, `offset = array.len().saturating_sub(len)`,
    `array[offset..].copy_from_slice(bytes)`.  Result: `some ()` = `Ok`, `none` = `Err(length)`. -/
def derCopyD (arrayLen bytesLen : Nat) : Chk (Option Unit) := do
  if bytesLen > arrayLen then pure none else
  let offset := arrayLen - bytesLen
  check (decide (offset ≤ arrayLen)) "slice start index out of range"
  copyFromSliceD (arrayLen - offset) bytesLen
  pure (some ())

/-- before the fix: no length check -/
def derCopyOldD (arrayLen bytesLen : Nat) : Chk (Option Unit) := do
  let offset := arrayLen - bytesLen
  check (decide (offset ≤ arrayLen)) "slice start index out of range"
  copyFromSliceD (arrayLen - offset) bytesLen
  pure (some ())

/-! ### src/uint/boxed/encoding.rs `from_be_hex`, src/uint/boxed.rs `widen` / `shorten` -/

/-- `assert!(bytes.len() == Limb::BYTES * nlimbs * 2, "hex string is not the expected size")` with
    `nlimbs = bits_precision / 64` -/
def boxedFromBeHexLenD (hexLen bitsPrecision : Nat) : Chk Unit :=
  check (hexLen == 8 * (bitsPrecision / 64) * 2) "hex string is not the expected size"

/-- `assert!(at_least_bits_precision >= self.bits_precision())` -/
def widenD (curBits newBits : Nat) : Chk Unit := check (decide (curBits ≤ newBits)) "widen"

/-- limbs of `zero_with_precision(bits)` (`From<Vec<Limb>>` pads an empty vector to one limb) -/
def limbsForPrecision (bits : Nat) : Nat := if (bits + 63) / 64 = 0 then 1 else (bits + 63) / 64

/-- `shorten`: `assert!(at_least_bits_precision <= self.bits_precision())`, then
    `ret.limbs.copy_from_slice(&self.limbs[..ret.nlimbs()])` -/
def shortenD (curLimbs newBits : Nat) : Chk Unit := do
  check (decide (newBits ≤ 64 * curLimbs)) "shorten"
  check (decide (limbsForPrecision newBits ≤ curLimbs)) "range end index out of range for slice"

/-! ### zero-limb boxed values: src/uint/mul.rs `square_limbs`, src/uint/boxed/ct.rs `ct_select`,
       src/uint/encoding.rs radix encoders -/

/-- `square_limbs`: `while i < limbs.len() - 1 { … }  hi[limbs.len() - 1] = carry;` (`hi.len() = limbs.len()`) -/
def squareTopIndexD (p : Profile) (len : Nat) : Chk Unit := do
  let top ← subU p B len 1
  check (decide (top < len)) "index out of bounds"

/-- `BoxedUint::ct_select(a, b)`: `debug_assert_eq!(a.bits_precision(), b.bits_precision())`, then
    `b.limbs[i]` for `i < a.nlimbs()` -/
def ctSelectD (p : Profile) (aLimbs bLimbs : Nat) : Chk Unit := do
  dassert p (aLimbs == bLimbs) "ct_select: precision mismatch"
  check (decide (aLimbs ≤ bLimbs)) "index out of bounds"

/-- `BoxedUint::checked_div(self, rhs)`: `ct_select(&one_with_precision(self.bits_precision()), rhs, ..)`
    then `div_rem_unchecked`: `assert_eq!(size, rhs.limbs.len())` -/
def boxedCheckedDivD (p : Profile) (selfLimbs rhsLimbs : Nat) : Chk Unit := do
  ctSelectD p (limbsForPrecision (64 * selfLimbs)) rhsLimbs
  check (selfLimbs == limbsForPrecision (64 * selfLimbs)) "the precision of the divisor must match the dividend"

/-- `BoxedUint::div_rem(self, rhs)` → `div_rem_unchecked`: `assert_eq!(size, rhs.limbs.len())` -/
def boxedDivRemPrecisionD (selfLimbs rhsLimbs : Nat) : Chk Unit :=
  check (selfLimbs == rhsLimbs) "the precision of the divisor must match the dividend"

/-- radix encoders: `debug_assert!(!limbs.is_empty())` (division path) / `debug_assert!(!out.is_empty())`
    (shifting path; `out.len() = ceil(64·nlimbs / bits)`) -/
def radixEncodeNonEmptyD (p : Profile) (nlimbs : Nat) : Chk Unit :=
  dassert p (nlimbs != 0) "radix encode: empty limbs"

/-! ### src/uint/inv_mod.rs, src/uint/boxed/inv_mod.rs -/

/-- `Uint::trailing_zeros` on a `w`-bit value (`w` for 0) -/
def tzW : Nat → Nat → Nat
  | 0, _ => 0
  | fuel + 1, x => if x % 2 = 1 then 0 else 1 + tzW fuel (x / 2)

/-- `Uint::inv_mod(self, modulus)` BEFORE fix be88d84: with `k = modulus.trailing_zeros()` and
    `s = modulus >> k` (0 when `k = BITS`), `s.inv_mod2k(k).expect("inverse mod 2^k exists")` — the option is
    `some` iff `k = 0` or `s` is odd -/
def invModExpectOldD (w m : Nat) : Chk Unit :=
  let k := tzW w m
  let s := if k < w then m / 2 ^ k else 0
  check (k == 0 || s % 2 == 1) "inverse mod 2^k exists"

/-- AFTER the fix: `s.inv_mod2k(k).unwrap_or(Self::ZERO)` — nothing is unwrapped -/
def invModExpectD (_w _m : Nat) : Chk Unit := .ok ()

/-- `Uint::inv_mod2k_vartime(k)` BEFORE fix 8dd1192: round `i` of `while i < k` does
    `Uint::from_word(x_i).overflowing_shl_vartime(i).expect("shift within range")`, which is `none` for
    `i ≥ BITS`.  `fuel = k - i`. -/
def invMod2kVartimeOldD (w : Nat) : Nat → Nat → Chk Unit
  | 0, _ => .ok ()
  | fuel + 1, i => do
    check (decide (i < w)) "shift within range"
    invMod2kVartimeOldD w fuel (i + 1)

/-- AFTER the fix: `.unwrap_or(Self::ZERO)` — rounds beyond `BITS` contribute nothing -/
def invMod2kVartimeD (_w _k : Nat) : Chk Unit := .ok ()

/-- `BoxedUint::inv_mod` BEFORE fix fb50dbc: `debug_assert_eq!(self.bits_precision(), modulus.bits_precision())` -/
def boxedInvModPrecisionOldD (p : Profile) (selfLimbs modLimbs : Nat) : Chk Unit :=
  dassert p (selfLimbs == modLimbs) "inv_mod: precision mismatch"

/-- AFTER the fix: `assert_eq!` in both builds -/
def boxedInvModPrecisionD (_p : Profile) (selfLimbs modLimbs : Nat) : Chk Unit :=
  check (selfLimbs == modLimbs) "inv_mod: precision mismatch"

/-- `BoxedUint::from_be_hex`: limb count of the result. BEFORE fix 01d03c6 `Self { limbs: res.into() }` with
    `res.len() = bits_precision / 64` (zero limbs for a precision below 64) -/
def boxedFromBeHexLimbsOld (bitsPrecision : Nat) : Nat := bitsPrecision / 64
/-- AFTER: `Self::from(res)` pads an empty vector to one limb -/
def boxedFromBeHexLimbs (bitsPrecision : Nat) : Nat :=
  if bitsPrecision / 64 = 0 then 1 else bitsPrecision / 64

/-! ### the panic table: what the DOCUMENTATION says (transcribed from the doc comments) -/

/-- public operations whose documented panic condition C11's own probes use -/
inductive Op where
  /-- `Limb::shl(shift)` / `Limb::shr(shift)`, `<<`, `>>` on `Limb`: "Panics if `shift` overflows `Limb::BITS`" -/
  | limbShift (shift : Nat)
  /-- `Uint::shl/shr(_vartime)`, `BoxedUint::shl/shr`: "Panics if `shift >= Self::BITS`" -/
  | uintShift (bits shift : Nat)
  /-- `overflowing_/wrapping_/checked_` shift forms: no documented panic -/
  | uintShiftTotal (bits shift : Nat)
  /-- `Uint::inv_mod(&self, modulus)` → `ConstCtOption`: no documented panic -/
  | uintInvMod (bits modulus : Nat)
  /-- `Uint::inv_mod2k(k)`, `inv_mod2k_vartime(k)` → `ConstCtOption`: no documented panic -/
  | uintInvMod2k (bits k : Nat)
  /-- `BoxedUint::inv_mod`: "`self` and `modulus` must have the same number of limbs, or the function will panic" -/
  | boxedInvMod (selfLimbs modLimbs : Nat)
  /-- `BoxedUint::from_be_hex(hex, bits_precision)` → `CtOption`: no documented panic -/
  | boxedFromBeHex (hexLen bitsPrecision : Nat)
  /-- `BoxedUint::widen`: "Panics if `at_least_bits_precision` is smaller than the current precision" -/
  | boxedWiden (curBits newBits : Nat)
  /-- `BoxedUint::shorten`: "Panics if `at_least_bits_precision` is larger than the current precision" -/
  | boxedShorten (curBits newBits : Nat)
  /-- any method of a `BoxedUint` obtained from a public constructor (also a zero-limb one): none documented -/
  | boxedMethod (nlimbs : Nat)
  /-- DER decoding (`Result`): no documented panic -/
  | derDecode (arrayLen bytesLen : Nat)
  /-- `BoxedUint += rhs`: "Panics if ... rhs has a larger precision than self" -/
  | boxedAddAssign (selfLimbs rhsLimbs : Nat)
  /-- `set_bit_vartime` (through `BitOps`): none documented -/
  | setBitVartime (nlimbs index : Nat)

/-- the documented panic condition -/
def panics : Op → Bool
  | .limbShift s => decide (64 ≤ s)
  | .uintShift bits s => decide (bits ≤ s)
  | .uintShiftTotal _ _ => false
  | .uintInvMod _ _ => false
  | .uintInvMod2k _ _ => false
  | .boxedInvMod sl ml => sl != ml
  | .boxedFromBeHex _ _ => false
  | .boxedWiden cur new => decide (new < cur)
  | .boxedShorten cur new => decide (cur < new)
  | .boxedMethod _ => false
  | .derDecode _ _ => false
  | .boxedAddAssign sl rl => decide (sl < rl)
  | .setBitVartime _ _ => false

/-- panic class of a checked outcome -/
def isPanic {α : Type} : Chk α → Bool
  | .ok _ => false
  | .error _ => true

end CB.Panic
