/-
  CB.Model.Sqrt — integer square root of `Uint<LIMBS>` (src/uint/sqrt.rs) and `BoxedUint`
  (src/uint/boxed/sqrt.rs), modelled as the code computes it (property C20).

  Operands are little-endian limb lists; `n = a.length` is the limb count, `BITS = 64 * n`.
  The algorithms of OTHER properties that the sqrt code calls are value-level calls here:
    `bits()` / `overflowing_shl` / `shr1`           → `bitLen`, `2 ^ shift % B ^ n`, `/ 2`     (C05)
    `div_rem` / `wrapping_div_vartime`              → `v / x`                                    (C02)
    `wrapping_add` / `conditional_adc_assign`       → `(x + q) % B ^ n`                          (C04)
    `is_nonzero` / `select` / `gt` / `ct_eq` / `cmp_vartime` → `!= 0`, `if`, `>`, `==`           (C06)
    `wrapping_mul`                                  → `r * r % B ^ n`                            (C03)
  What is mirrored here is the sqrt code itself: the initial guess as computed
  (`ONE << ((bits + 1) >> 1)`), the FIXED number of rounds (`LOG2_BITS + k`, `k` regenerated from the
  source into `CB.Extracted`), the zero-divisor masking, the `(x_prev, x)` pair and the final
  `select(x_prev, x, x_prev > x)`, the vartime loop with its break condition, the boxed in-place
  variant with its persistent `nz_x` divisor, the zero handling of both vartime forms, and the
  checked / wrapping wrappers.
  Core Lean only (linked into `cbmodel`).
-/
import CB.Model.Basic
import CB.Model.Extracted
namespace CB.Sqrt

/-- `bits()`: `BITS - leading_zeros` = bit length of the value. -/
def bitLen (v : Nat) : Nat := if v = 0 then 0 else v.log2 + 1

/-- `Uint::LOG2_BITS` / `BitOps::log2_bits`: `u32::BITS - BITS.leading_zeros() - 1 = ⌊log₂ BITS⌋`
    (`n ≥ 1`; a zero-limb `Uint` does not compile this constant). -/
def log2Bits (n : Nat) : Nat := (64 * n).log2

/-- number of Newton rounds of `Uint::sqrt`: `LOG2_BITS + 2` as written (the `2` is extracted). -/
def sqrtRounds (n : Nat) : Nat := log2Bits n + Extracted.sqrtExtraRounds
/-- number of Newton rounds of `BoxedUint::sqrt`: `self.log2_bits() + 2`. -/
def sqrtRoundsBoxed (n : Nat) : Nat := log2Bits n + Extracted.sqrtExtraRoundsBoxed

/-- `(self.bits() + 1) >> 1` -/
def sqrtShift (v : Nat) : Nat := (bitLen v + 1) / 2

/-- the mathematical Newton step `⌊(x + ⌊v / x⌋) / 2⌋` (specification side of the step lemmas) -/
def newton (v x : Nat) : Nat := (x + v / x) / 2

/-- `k`-th Newton iterate from `x0` -/
def newtonIter (v x0 : Nat) : Nat → Nat
  | 0 => x0
  | k + 1 => newton v (newtonIter v x0 k)

/-! ### `Uint<LIMBS>` -/

/-- `Self::ONE.overflowing_shl(shift).expect("shift within range")`: `none` = the `expect` panics
    (`shift >= BITS`). -/
def sqrtInit (n v : Nat) : Option Nat :=
  let shift := sqrtShift v
  if shift < 64 * n then some (2 ^ shift % B ^ n) else none

/-- one round of the constant-time loop body of `Uint::sqrt` (returns the new `x`). -/
def sqrtCtStep (n v x : Nat) : Nat :=
  let xNonzero : Bool := x != 0                 -- x.is_nonzero()
  let d := if xNonzero then x else 1            -- Self::select(&Self::ONE, &x, x_nonzero)
  let q := v / d                                -- self.div_rem(&NonZero(d)).0
  let t := (x + q) % B ^ n / 2                  -- x.wrapping_add(&q).shr1()
  if xNonzero then t else 0                     -- Self::select(&Self::ZERO, &t, x_nonzero)

/-- `while i < rounds { x_prev = x; x = step(x); i += 1 }` → `(x_prev, x)` -/
def sqrtCtLoop (n v : Nat) : Nat → Nat → Nat → Nat × Nat
  | 0, xp, x => (xp, x)
  | r + 1, _, x => sqrtCtLoop n v r x (sqrtCtStep n v x)

/-- `Uint::sqrt`; `none` = panic. -/
def uintSqrt (a : List Nat) : Option (List Nat) :=
  let n := a.length
  let v := val a
  match sqrtInit n v with
  | none => none
  | some x0 =>
    let p := sqrtCtLoop n v (sqrtRounds n) x0 x0
    -- Self::select(&x_prev, &x, Uint::gt(&x_prev, &x))
    some (toLimbs n (if p.1 > p.2 then p.2 else p.1))

/-- the `while !x.is_zero()` loop shared by both vartime forms; `none` = fuel exhausted. -/
def sqrtVtLoop (n v : Nat) : Nat → Nat → Option Nat
  | 0, _ => none
  | f + 1, x =>
    if x = 0 then some x
    else
      let q := v / x                              -- self.wrapping_div_vartime(&x.to_nz().expect(..))
      let t := (x + q) % B ^ n                    -- x.wrapping_add(&q)
      let nx := t / 2                             -- t.shr1()
      if x > nx then sqrtVtLoop n v f nx          -- if !x.cmp_vartime(&next_x).is_gt() { break }
      else some x

/-- fuel given to the vartime loops: the precision in bits (theorem: never exhausted). -/
def sqrtFuel (n : Nat) : Nat := 64 * n

/-- `Uint::sqrt_vartime`; `none` = panic (or fuel exhausted: proved impossible). -/
def uintSqrtVartime (a : List Nat) : Option (List Nat) :=
  let n := a.length
  let v := val a
  if v = 0 then some (toLimbs n 0)               -- early `return Self::ZERO`
  else
    match sqrtInit n v with
    | none => none
    | some x0 =>
      match sqrtVtLoop n v (sqrtFuel n) x0 with
      | none => none
      | some x => some (toLimbs n x)

def uintWrappingSqrt (a : List Nat) : Option (List Nat) := uintSqrt a
def uintWrappingSqrtVartime (a : List Nat) : Option (List Nat) := uintSqrtVartime a

/-- the `CtOption::new(r, ct_eq(self, r.wrapping_mul(&r)))` wrapper: value and `is_some`. -/
def checkedOf (a : List Nat) (r : List Nat) : List Nat × Bool :=
  let s := val r * val r % B ^ a.length          -- r.wrapping_mul(&r)
  (r, s == val a)

def uintCheckedSqrt (a : List Nat) : Option (List Nat × Bool) := (uintSqrt a).map (checkedOf a)
def uintCheckedSqrtVartime (a : List Nat) : Option (List Nat × Bool) :=
  (uintSqrtVartime a).map (checkedOf a)

/-! ### `BoxedUint` -/

/-- `one_with_precision(p).overflowing_shl(shift).0`: zero when `shift >= p`; the flag is dropped. -/
def bsqrtInit (n v : Nat) : Nat :=
  let shift := sqrtShift v
  if shift < 64 * n then 2 ^ shift % B ^ n else 0

/-- one round of `BoxedUint::sqrt`: `(x, nz_x)` → `(x', nz_x')`. `nz_x` is only overwritten while
    `x` is non-zero (so it keeps the last non-zero iterate, not `ONE`). -/
def bsqrtCtStep (n v x nz : Nat) : Nat × Nat :=
  let xNonzero : Bool := x != 0                 -- x.is_nonzero()
  let nz' := if xNonzero then x else nz         -- nz_x.0.limbs[j].conditional_assign(&x.limbs[j], x_nonzero)
  let q := v / nz'                              -- self.div_rem(&nz_x).0
  let t := if xNonzero then (x + q) % B ^ n else x   -- x.conditional_adc_assign(&q, x_nonzero)
  (t / 2, nz')                                  -- x.shr1_assign()

def bsqrtCtLoop (n v : Nat) : Nat → Nat → Nat → Nat → Nat × Nat
  | 0, xp, x, _ => (xp, x)
  | r + 1, _, x, nz => bsqrtCtLoop n v r x (bsqrtCtStep n v x nz).1 (bsqrtCtStep n v x nz).2

/-- `BoxedUint::sqrt` -/
def boxedSqrt (a : List Nat) : List Nat :=
  let n := a.length
  let v := val a
  let x0 := bsqrtInit n v
  let p := bsqrtCtLoop n v (sqrtRoundsBoxed n) x0 x0 x0
  toLimbs n (if p.1 > p.2 then p.2 else p.1)     -- Self::ct_select(&x_prev, &x, Self::ct_gt(&x_prev, &x))

/-- `BoxedUint::sqrt_vartime`: no early return; zero is handled after the loop. `none` = fuel. -/
def boxedSqrtVartime (a : List Nat) : Option (List Nat) :=
  let n := a.length
  let v := val a
  match sqrtVtLoop n v (sqrtFuel n) (bsqrtInit n v) with
  | none => none
  | some x => some (toLimbs n (if v != 0 then x else 0))

def boxedWrappingSqrt (a : List Nat) : List Nat := boxedSqrt a
def boxedWrappingSqrtVartime (a : List Nat) : Option (List Nat) := boxedSqrtVartime a
def boxedCheckedSqrt (a : List Nat) : List Nat × Bool := checkedOf a (boxedSqrt a)
def boxedCheckedSqrtVartime (a : List Nat) : Option (List Nat × Bool) :=
  (boxedSqrtVartime a).map (checkedOf a)

end CB.Sqrt
