/-
  CB.Model.Mul — multiplication and squaring of crypto-bigint as the code computes them
  (property C03).  Core Lean only.

  Rust functions mirrored here
    src/primitives.rs        mac (in CB.Model.Basic), mul_wide, overflowing_add
    src/uint/mul.rs          schoolbook_multiplication, schoolbook_squaring, uint_mul_limbs,
                             uint_square_limbs, mul_limbs, square_limbs, and every API form built on
                             `split_mul` / `square_wide` (the size dispatch itself is in
                             CB.Model.Karatsuba, these forms take the `(lo, hi)` pair)
    src/uint/mul/karatsuba.rs  adc_mul_limbs, conditional_wrapping_neg_assign (the Karatsuba bodies
                             are in CB.Model.Karatsuba)
    src/limb/mul.rs          Limb::{mac, saturating_mul, wrapping_mul, mul_wide, checked_mul, *}
    src/int/mul.rs, src/int/sign.rs   sign-magnitude products of `Int`

  Buffers: `lo`/`hi` (fixed) and `out` (boxed) are ONE little-endian list of
  `lhs.len() + rhs.len()` limbs; `lo = take lhs.len()`, `hi = drop lhs.len()` — the
  `if k >= lhs.len() { hi[k - lhs.len()] } else { lo[k] }` addressing of the Rust is exactly that.
-/
import CB.Model.Uint
namespace CB.Mul

/-! ### multiply-accumulate rows -/

/-- inner `while j < rhs.len()` loop of one row: `(out[k], carry) = out[k].mac(xi, rhs[j], carry)`
    over the zipped window; returns the new window limbs and the final carry. -/
def macRow (xi : Nat) : List Nat → List Nat → Nat → List Nat × Nat
  | o :: os, y :: ys, c =>
    let r := mac o xi y c
    let t := macRow xi os ys r.2
    (r.1 :: t.1, t.2)
  | _, _, c => ([], c)

/-- one row of `schoolbook_multiplication` / `schoolbook_squaring` on the buffer from position `i` on:
    the mac loop, then `out[i + j] = carry` (an overwrite, not an addition). -/
def macRowSet (xi : Nat) : List Nat → List Nat → Nat → List Nat
  | o :: os, y :: ys, c =>
    let r := mac o xi y c
    r.1 :: macRowSet xi os ys r.2
  | _ :: os, [], c => c :: os
  | [], _, _ => []

/-- the outer `while i < lhs.len()` loop of `schoolbook_multiplication`; `out` is the buffer from
    position `i` on (limbs below `i` are final). -/
def schoolRows : List Nat → List Nat → List Nat → List Nat
  | [], _, out => out
  | x :: xs, ys, out =>
    match macRowSet x out ys 0 with
    | [] => []
    | o :: os => o :: schoolRows xs ys os

/-- `schoolbook_multiplication` on zero-initialised `lo`, `hi` (as `uint_mul_limbs` and `mul_limbs`
    call it): all `lhs.len() + rhs.len()` limbs. -/
def schoolbookMul (lhs rhs : List Nat) : List Nat :=
  schoolRows lhs rhs (uzero (lhs.length + rhs.length))

/-- `uint_mul_limbs`: `(lo, hi)` with `lo.len() = lhs.len()`, `hi.len() = rhs.len()`. -/
def uintMulLimbs (lhs rhs : List Nat) : List Nat × List Nat :=
  let p := schoolbookMul lhs rhs
  (p.take lhs.length, p.drop lhs.length)

/-! ### schoolbook squaring -/

/-- first loop of `schoolbook_squaring` (`i` from 1): row `i` multiplies `xi = limbs[i]` with
    `limbs[..i]` (= `pre`) into `out[i..2i)` and sets `out[2i] = carry`.  `out` is the buffer
    from position `i` on. -/
def sqRows : List Nat → List Nat → List Nat → List Nat
  | _, [], out => out
  | pre, xi :: rest, out =>
    match macRowSet xi out pre 0 with
    | [] => []
    | o :: os => o :: sqRows (pre ++ [xi]) rest os

/-- the doubling loops: `(l << 1) | carry`, new carry `l >> 63`.  The `lo` loop and the `hi` loop
    (`i < limbs.len() - 1`) share one running carry, so they are one pass over `2n - 1` limbs. -/
def shl1Loop : List Nat → Nat → List Nat × Nat
  | l :: ls, c =>
    let t := shl1Loop ls (l / HALF)
    (((l * 2) % B ||| c) :: t.1, t.2)
  | [], c => ([], c)

/-- the diagonal loop: `(out[2i], carry) = out[2i].mac(xi, xi, carry)`;
    `(out[2i+1], carry) = out[2i+1].overflowing_add(carry)`.  Returns the buffer and the final
    carry (which the Rust drops). -/
def sqDiagLoop : List Nat → List Nat → Nat → List Nat × Nat
  | x :: xs, o0 :: o1 :: os, c =>
    let r := mac o0 x x c
    let s := overflowingAdd o1 r.2
    let t := sqDiagLoop xs os s.2
    (r.1 :: s.1 :: t.1, t.2)
  | _, out, c => (out, c)

/-- `schoolbook_squaring` on zero-initialised `lo`, `hi` (`uint_square_limbs`, `square_limbs`).
    For `limbs.len() = 0` the Rust underflows `limbs.len() - 1` (never instantiated); the model
    returns `[]` there. -/
def schoolbookSquare (limbs : List Nat) : List Nat :=
  match limbs with
  | [] => []
  | x0 :: rest =>
    let n := limbs.length
    -- rows i = 1 .. n-1 act on out[1..]; out[0] stays 0
    let p1 := 0 :: sqRows [x0] rest (uzero (2 * n - 1))
    -- doubling of limbs 0 .. 2n-2, then `hi[n-1] = carry`
    let d := shl1Loop (p1.take (2 * n - 1)) 0
    let p2 := d.1 ++ [d.2]
    (sqDiagLoop limbs p2 0).1

/-- `uint_square_limbs`: `(lo, hi)`. -/
def uintSquareLimbs (limbs : List Nat) : List Nat × List Nat :=
  let p := schoolbookSquare limbs
  (p.take limbs.length, p.drop limbs.length)

/-! ### `adc_mul_limbs` and `conditional_wrapping_neg_assign` (boxed helpers, karatsuba.rs) -/

/-- one row of `adc_mul_limbs`: the mac loop with `carry2`, then
    `(out[i+j], carry) = out[i+j].adc(carry2, carry)` (the repaired epilogue, fix commit a99029b). -/
def macRowAdc (xi : Nat) : List Nat → List Nat → Nat → Nat → List Nat × Nat
  | o :: os, y :: ys, c2, c =>
    let r := mac o xi y c2
    let t := macRowAdc xi os ys r.2 c
    (r.1 :: t.1, t.2)
  | o :: os, [], c2, c =>
    let r := adc o c2 c
    (r.1 :: os, r.2)
  | [], _, _, c => ([], c)

def adcMulRows : List Nat → List Nat → List Nat → Nat → List Nat × Nat
  | [], _, out, c => (out, c)
  | x :: xs, ys, out, c =>
    let r := macRowAdc x out ys 0 c
    match r.1 with
    | [] => ([], r.2)
    | o :: os =>
      let t := adcMulRows xs ys os r.2
      (o :: t.1, t.2)

/-- `adc_mul_limbs(lhs, rhs, out)`: adds the schoolbook product to `out`
    (`out.len() = lhs.len() + rhs.len()`, else the Rust panics), returns `(out, carry)`. -/
def adcMulLimbs (lhs rhs out : List Nat) : List Nat × Nat := adcMulRows lhs rhs out 0

/-- `conditional_wrapping_neg_assign` loop: `r = select_word(l, !l) + carry` in `WideWord`. -/
def condNegLoop : List Nat → Nat → Nat → List Nat
  | l :: ls, choice, carry =>
    let r := selectWord l (wnot l) choice + carry
    (r % B) :: condNegLoop ls choice (r / B)
  | [], _, _ => []

def condNeg (limbs : List Nat) (choice : Nat) : List Nat :=
  condNegLoop limbs choice (selectWord 0 1 choice)

/-! ### API forms over a `(lo, hi)` pair (`src/uint/mul.rs`) -/

/-- `Uint::not` -/
def unot (a : List Nat) : List Nat := a.map wnot

/-- `Zero::is_zero` = `ct_eq(&ZERO)` -/
def uisZero (a : List Nat) : Nat := ueq a (uzero a.length)

/-- `widening_mul` / `widening_square` / `square`: `concat_mixed(lo, hi)` -/
def concatPair (p : List Nat × List Nat) : List Nat := p.1 ++ p.2
/-- `wrapping_mul` / `wrapping_square` -/
def wrappingOfPair (p : List Nat × List Nat) : List Nat := p.1
/-- `saturating_mul` / `saturating_square`: `select(res, MAX, overflow.is_nonzero())` -/
def saturatingOfPair (p : List Nat × List Nat) : List Nat :=
  uselect p.1 (umax p.1.length) (isNonzero p.2)
/-- `CheckedMul::checked_mul`: `CtOption::new(lo, hi.is_zero())` -/
def checkedOfPair (p : List Nat × List Nat) : List Nat × Nat := (p.1, uisZero p.2)
/-- `checked_square`: `ConstCtOption::new(lo, Self::eq(&hi, &Self::ZERO))` -/
def checkedSquareOfPair (p : List Nat × List Nat) : List Nat × Nat := (p.1, ueq p.2 (uzero p.2.length))

/-! ### `Limb` multiplications (`src/limb/mul.rs`) -/

/-- `Word::saturating_mul` (Rust primitive) -/
def limbSaturatingMul (a b : Nat) : Nat := if a * b < B then a * b else WMAX
/-- `Limb::wrapping_mul` -/
def limbWrappingMul (a b : Nat) : Nat := wmul a b
/-- `CheckedMul for Limb`: `(lo, hi.is_zero())` with `Limb::is_zero = ct_eq(0)` -/
def limbCheckedMul (a b : Nat) : Nat × Nat :=
  let r := mulWide a b
  (r.1, fromWordEq r.2 0)

/-! ### `Int` products (`src/int/mul.rs`, `src/int/sign.rs`) — limbs are two's complement -/

/-- `ConstChoice::from_word_msb` -/
def fromWordMsb (w : Nat) : Nat := fromWordLsb (w / HALF)
/-- `Int::is_negative`: msb of the most significant word (`0` limbs: zero word) -/
def intIsNegative (a : List Nat) : Nat := fromWordMsb (a.getLastD 0)
/-- `Int::abs_sign` -/
def intAbsSign (a : List Nat) : List Nat × Nat :=
  let s := intIsNegative a
  (wrappingNegIf a s, s)
/-- `Int::MAX.0`: all ones with the top bit clear -/
def intMaxBits : Nat → List Nat
  | 0 => []
  | 1 => [HALF - 1]
  | n + 1 => WMAX :: intMaxBits n
/-- `Int::MIN.0`: only the top bit set -/
def intMinBits : Nat → List Nat
  | 0 => []
  | 1 => [HALF]
  | n + 1 => 0 :: intMinBits n
/-- `Int::new_from_abs_sign`: value and `is_some` mask -/
def intNewFromAbsSign (abs : List Nat) (neg : Nat) : List Nat × Nat :=
  let magnitude := wrappingNegIf abs neg
  let fits := (ulte abs (intMaxBits abs.length)) ||| (neg &&& ueq abs (intMinBits abs.length))
  (magnitude, fits)
/-- `Int::split_mul` given the unsigned `split_mul`: `(lo, hi, negate)` -/
def intSplitMul (umul : List Nat → List Nat → List Nat × List Nat) (a b : List Nat) :
    List Nat × List Nat × Nat :=
  let la := intAbsSign a
  let rb := intAbsSign b
  let p := umul la.1 rb.1
  (p.1, p.2, la.2 ^^^ rb.2)
/-- `Int::widening_mul`: `product_abs.wrapping_neg_if(product_sign)` on the concatenation -/
def intWideningMul (umul : List Nat → List Nat → List Nat × List Nat) (a b : List Nat) : List Nat :=
  let la := intAbsSign a
  let rb := intAbsSign b
  wrappingNegIf (concatPair (umul la.1 rb.1)) (la.2 ^^^ rb.2)
/-- `CheckedMul for Int`: `new_from_abs_sign(lo, neg).and_then(|i| CtOption::new(i, hi.is_zero()))` -/
def intCheckedMul (umul : List Nat → List Nat → List Nat × List Nat) (a b : List Nat) : List Nat × Nat :=
  let s := intSplitMul umul a b
  let v := intNewFromAbsSign s.1 s.2.2
  (v.1, v.2 &&& uisZero s.2.1)

end CB.Mul
