/-
  CB.Model.Monty — Montgomery-form arithmetic of crypto-bigint as the code computes it (property C08).

  Mirrors
    src/modular/reduction.rs                 montgomery_reduction_inner / montgomery_reduction
    src/uint/{add_mod,sub_mod,neg_mod}.rs    add_mod, double_mod, sub_mod, sub_mod_with_carry, neg_mod
    src/uint/boxed/{add_mod,sub_mod,neg_mod}.rs   the boxed duplicates (different mask derivation)
    src/modular/div_by_2.rs                  div_by_2, div_by_2_boxed_assign
    src/modular/{add,sub,mul}.rs             thin wrappers
    src/modular/monty_form.rs, const_monty_form/macros.rs, boxed_monty_form.rs   parameter constructors
    src/modular/boxed_monty_form/mul.rs      almost_montgomery_mul(_by_one), add_mul_carry(_and_shift),
                                             conditional_sub, BoxedMontyMultiplier::{mul,square,mul_by_one}
  plus the operation-history state machine `MontyOp` / `step` and its denotation in ℤ/m (`stepSpec`).

  Value-level calls (refinement discharged by another property, see AGENT_GUIDE §1):
    wide multiplication `split_mul`/`square_wide`/`square`  (C03),
    `rem`/`rem_vartime`/`rem_wide_vartime`                  (C02),
    `inv_mod2k(_vartime|_full_vartime)(64)`                 (C10; here `inv64`, a Newton iteration),
    `leading_zeros(_vartime)`, `overflowing_shl1`, `shr1`, `set_bit`   (C05),
    `is_zero` of a BoxedUint                                 (C06).
  Core Lean only.
-/
import CB.Model.Uint
namespace CB.Monty
open CB

/-! ## Montgomery reduction (src/modular/reduction.rs) -/

/-- `Uint::bitand_limb`. -/
def bitandLimb (p : List Nat) (mask : Nat) : List Nat := p.map (· &&& mask)

/-- first inner loop `while j < nlimbs - i`: `(new_limb, carry) = lower[i + j].mac(u, modulus[j], carry)`
    over the still-live lower limbs `lower[i+1 ..]` and `modulus[1 ..]`.
    Returns the rewritten lower limbs, the carry, and the modulus limbs not yet consumed
    (`modulus[nlimbs - i ..]`, which the second loop applies to `upper`). -/
def lowerChain (u : Nat) : List Nat → List Nat → Nat → List Nat × Nat × List Nat
  | x :: xs, m :: ms, c =>
    let (w, c') := mac x u m c
    let (r, cf, mr) := lowerChain u xs ms c'
    (w :: r, cf, mr)
  | [], ms, c => ([], c, ms)
  | xs, [], c => (xs, c, [])

/-- second inner loop `while j < nlimbs`: `upper[i + j - nlimbs].mac(u, modulus[j], carry)` for the remaining
    modulus limbs, followed by `(new_sum, meta_carry) = upper[i].adc(carry, meta_carry)` on the next limb;
    the limbs after `upper[i]` are untouched. -/
def upperChain (u : Nat) : List Nat → List Nat → Nat → Nat → List Nat × Nat
  | x :: xs, m :: ms, c, mc =>
    let (w, c') := mac x u m c
    let (r, mc') := upperChain u xs ms c' mc
    (w :: r, mc')
  | x :: xs, [], c, mc =>
    let (s, mc') := adc x c mc
    (s :: xs, mc')
  | [], _, _, mc => ([], mc)

/-- outer loop of `montgomery_reduction_inner`, `fuel` = iterations left; `lower` holds `lower[i ..]`
    (limbs below `i` are never read again). Returns `(upper, meta_carry)`. -/
def redcLoop (k : Nat) (ms : List Nat) : Nat → List Nat → List Nat → Nat → List Nat × Nat
  | 0, _, upper, mc => (upper, mc)
  | fuel + 1, lower, upper, mc =>
    match lower with
    | [] => (upper, mc)
    | x :: lo =>
      let u := wmul x k                                    -- lower[i].wrapping_mul(mod_neg_inv)
      let c0 := (mac x u (ms.headD 0) 0).2                 -- (_, carry) = lower[i].mac(u, modulus[0], 0)
      let (lo', c1, msRest) := lowerChain u lo ms.tail c0
      let (upper', mc') := upperChain u upper msRest c1 mc
      redcLoop k ms fuel lo' upper' mc'

/-- `montgomery_reduction_inner(upper, lower, modulus, mod_neg_inv)`: new `upper` and `meta_carry`. -/
def redcInner (upper lower ms : List Nat) (k : Nat) : List Nat × Nat :=
  redcLoop k ms ms.length lower upper 0

/-- `Uint::sub_mod_with_carry(carry, rhs, p)` (src/uint/sub_mod.rs). -/
def subModWithCarry (a : List Nat) (carry : Nat) (rhs p : List Nat) : List Nat :=
  let (out, borrow) := usbb a rhs 0
  let mask := (wnot (wneg carry)) &&& borrow
  wrappingAdd out (bitandLimb p mask)

/-- `montgomery_reduction(&(lower, upper), modulus, mod_neg_inv)`. -/
def montgomeryReduction (lower upper ms : List Nat) (k : Nat) : List Nat :=
  let (up, mc) := redcInner upper lower ms k
  subModWithCarry up mc ms ms

/-! ## fixed-width modular helpers (src/uint/{add_mod,sub_mod,neg_mod}.rs, src/modular/div_by_2.rs) -/

/-- `Uint::add_mod`. -/
def addMod (a b p : List Nat) : List Nat :=
  let (w, carry) := uadc a b 0
  let (w2, borrow) := usbb w p 0
  let mask := (sbb carry 0 borrow).2
  wrappingAdd w2 (bitandLimb p mask)

/-- `Uint::overflowing_shl1` at value level (shifts are C05): `(2a mod 2^BITS, carry bit)`. -/
def shl1 (a : List Nat) : List Nat × Nat :=
  (toLimbs a.length (2 * val a), (2 * val a) / B ^ a.length)

/-- `Uint::double_mod`. -/
def doubleMod (a p : List Nat) : List Nat :=
  let (w, carry) := shl1 a
  let (w2, borrow) := usbb w p 0
  let mask := (sbb carry 0 borrow).2
  wrappingAdd w2 (bitandLimb p mask)

/-- `Uint::sub_mod`. -/
def subMod (a b p : List Nat) : List Nat :=
  let (out, mask) := usbb a b 0
  wrappingAdd out (bitandLimb p mask)

/-- `Uint::neg_mod`: `p - a`, every limb masked with `is_nonzero(a)`. -/
def negMod (a p : List Nat) : List Nat :=
  let z := isNonzero a
  (usbb p a 0).1.map (fun l => l &&& z)

/-- `div_by_2` (src/modular/div_by_2.rs); `.shr1().set_bit(BITS - 1, carry.is_nonzero())` at value level. -/
def divBy2 (a m : List Nat) : List Nat :=
  let odd := isOdd a
  let (ifOdd, carry) := uadc a m 0
  let carry := selectWord 0 carry odd
  let sel := uselect a ifOdd odd
  toLimbs a.length (val sel / 2 + (if carry = 0 then 0 else B ^ a.length / 2))

/-- `mul_montgomery_form`: `a.split_mul(b)` (value level, C03) then `montgomery_reduction`. -/
def mulMont (a b ms : List Nat) (k : Nat) : List Nat :=
  let prod := toLimbs (2 * ms.length) (val a * val b)
  montgomeryReduction (prod.take ms.length) (prod.drop ms.length) ms k

/-- `square_montgomery_form`. -/
def squareMont (a ms : List Nat) (k : Nat) : List Nat := mulMont a a ms k

/-- `MontyForm::retrieve` / `ConstMontyForm::retrieve`: reduce `(form, 0)`. -/
def retrieveMont (a ms : List Nat) (k : Nat) : List Nat :=
  montgomeryReduction a (uzero ms.length) ms k

/-! ## boxed helpers (src/uint/boxed/{add,add_mod,sub_mod,neg_mod}.rs, div_by_2_boxed_assign) -/

/-- a `Choice` built from `!w.is_zero()` turned into the limb mask `select(ZERO, MAX, choice)`. -/
def nzMask (w : Nat) : Nat := if w = 0 then 0 else WMAX

/-- `BoxedUint::conditional_adc_assign(rhs, choice)`: new value and the carry `Choice` (as 0/1). -/
def conditionalAdc (a rhs : List Nat) (mask : Nat) : List Nat × Nat :=
  let (r, c) := uadc a (bitandLimb rhs mask) 0
  (r, c % 2)

/-- `BoxedUint::add_mod_assign`. -/
def bAddMod (a b p : List Nat) : List Nat :=
  let (w, carry) := uadc a b 0
  let (w2, borrow) := usbb w p 0
  let borrow2 := (sbb carry 0 borrow).2
  (conditionalAdc w2 p (nzMask borrow2)).1

/-- `BoxedUint::double_mod`. -/
def bDoubleMod (a p : List Nat) : List Nat :=
  let (w, carry) := shl1 a
  let (w2, borrow) := usbb w p 0
  let borrow2 := (sbb carry 0 borrow).2
  (conditionalAdc w2 p (nzMask borrow2)).1

/-- `BoxedUint::sub_mod`. -/
def bSubMod (a b p : List Nat) : List Nat :=
  let (out, borrow) := usbb a b 0
  (conditionalAdc out p (nzMask borrow)).1

/-- `BoxedUint::sub_assign_mod_with_carry(carry, rhs, p)`. -/
def bSubAssignModWithCarry (a : List Nat) (carry : Nat) (rhs p : List Nat) : List Nat :=
  let (out, borrow) := usbb a rhs 0
  let mask := (wnot (wneg carry)) &&& borrow
  (conditionalAdc out p (nzMask mask)).1

/-- `BoxedUint::neg_mod`: `p - a`, every limb `conditional_assign(ZERO, is_zero(a))`. -/
def bNegMod (a p : List Nat) : List Nat :=
  let isZero := a.all (· == 0)
  (usbb p a 0).1.map (fun l => if isZero then 0 else l)

/-- `div_by_2_boxed_assign`: `conditional_adc_assign(modulus, is_odd)`, `shr1_assign`, `set_bit(top, carry)`. -/
def bDivBy2 (a m : List Nat) : List Nat :=
  let odd := isOdd a
  let (s, c) := conditionalAdc a m odd
  toLimbs a.length (val s / 2 + c * (B ^ a.length / 2))

/-! ## almost-Montgomery multiplication (src/modular/boxed_monty_form/mul.rs) -/

/-- `add_mul_carry(z, x, y)`: `z += x * y`, returns the new `z` and the carry. -/
def addMulCarry : List Nat → List Nat → Nat → Nat → List Nat × Nat
  | z :: zs, x :: xs, y, c =>
    ((mac z x y c).1 :: (addMulCarry zs xs y (mac z x y c).2).1, (addMulCarry zs xs y (mac z x y c).2).2)
  | _, _, _, c => ([], c)

/-- the shifting loop of `add_mul_carry_and_shift` over `z[1..]`, `x[1..]`: produces `z[0 .. n-1)`. -/
def shiftChain : List Nat → List Nat → Nat → Nat → List Nat × Nat
  | z :: zs, x :: xs, y, c =>
    ((mac z x y c).1 :: (shiftChain zs xs y (mac z x y c).2).1, (shiftChain zs xs y (mac z x y c).2).2)
  | _, _, _, c => ([], c)

/-- `add_mul_carry_and_shift(z, x, y)`: `(_, c) = z[0].mac(x[0], y, 0)`, then `z[i-1] = z[i].mac(x[i], y, c)`.
    Returns the `n - 1` shifted limbs (`z[n-1]` is written by the caller) and the carry. -/
def addMulCarryAndShift (z x : List Nat) (y : Nat) : List Nat × Nat :=
  let c0 := (mac (z.headD 0) (x.headD 0) y 0).2
  shiftChain z.tail x.tail y c0

/-- `conditional_sub(z, x, c)`: `z[i].sbb(c.if_true_word(x[i]), borrow)`. -/
def conditionalSub (z x : List Nat) (c : Nat) : List Nat :=
  (usbb z (bitandLimb x c) 0).1

/-- one iteration of the `while i < n` loop of `almost_montgomery_mul` given the result `(z1, c)` of the
    `add_mul_carry` phase: `(ts, c) = ts.overflowing_add(c); ts1 = c; t = z[0]·k;
    c = add_mul_carry_and_shift(z, m, t); (z[n-1], c) = ts.overflowing_add(c); ts = ts1.wrapping_add(c)`. -/
def ammReduce (m : List Nat) (k : Nat) (z1 : List Nat) (c ts : Nat) : List Nat × Nat :=
  let ts' := (overflowingAdd ts c).1
  let ts1 := (overflowingAdd ts c).2
  let t := wmul (z1.headD 0) k
  let sh := (addMulCarryAndShift z1 m t).1
  let c3 := (addMulCarryAndShift z1 m t).2
  let top := (overflowingAdd ts' c3).1
  let c4 := (overflowingAdd ts' c3).2
  (sh ++ [top], wadd ts1 c4)

/-- the `while i < n` loop of `almost_montgomery_mul` over the limbs of `y`; state `(z, ts)`. -/
def ammLoop (x m : List Nat) (k : Nat) : List Nat → List Nat → Nat → List Nat × Nat
  | [], z, ts => (z, ts)
  | y :: ys, z, ts =>
    ammLoop x m k ys
      (ammReduce m k (addMulCarry z x y 0).1 (addMulCarry z x y 0).2 ts).1
      (ammReduce m k (addMulCarry z x y 0).1 (addMulCarry z x y 0).2 ts).2

/-- `almost_montgomery_mul(z = 0, x, y, m, k)`. -/
def almostMontgomeryMul (x y m : List Nat) (k : Nat) : List Nat :=
  conditionalSub (ammLoop x m k y (uzero m.length) 0).1 m (fromWordLsb (ammLoop x m k y (uzero m.length) 0).2)

/-- the loop of `almost_montgomery_mul_by_one`: `add_mul_carry(z, x, 1)` only in the first iteration
    (`c = 0` otherwise). -/
def ammOneLoop (x m : List Nat) (k : Nat) : Nat → Bool → List Nat → Nat → List Nat × Nat
  | 0, _, z, ts => (z, ts)
  | fuel + 1, first, z, ts =>
    ammOneLoop x m k fuel false
      (ammReduce m k (if first then (addMulCarry z x 1 0).1 else z) (if first then (addMulCarry z x 1 0).2 else 0) ts).1
      (ammReduce m k (if first then (addMulCarry z x 1 0).1 else z) (if first then (addMulCarry z x 1 0).2 else 0) ts).2

/-- `almost_montgomery_mul_by_one(z = 0, x, m, k)`. -/
def almostMontgomeryMulByOne (x m : List Nat) (k : Nat) : List Nat :=
  conditionalSub (ammOneLoop x m k m.length true (uzero m.length) 0).1 m
    (fromWordLsb (ammOneLoop x m k m.length true (uzero m.length) 0).2)

/-- `BoxedMontyMultiplier::mul_assign`: AMM, then `sub_assign_mod_with_carry(0, m, m)`. -/
def bMul (a b m : List Nat) (k : Nat) : List Nat :=
  bSubAssignModWithCarry (almostMontgomeryMul a b m k) 0 m m

/-- `BoxedMontyMultiplier::square_assign`. -/
def bSquare (a m : List Nat) (k : Nat) : List Nat :=
  bSubAssignModWithCarry (almostMontgomeryMul a a m k) 0 m m

/-- `BoxedMontyMultiplier::mul_by_one` = `BoxedMontyForm::retrieve`: no final reduction. -/
def bRetrieve (a m : List Nat) (k : Nat) : List Nat := almostMontgomeryMulByOne a m k

/-! ## parameters -/

/-- `MontyParams` / `ConstMontyParams` / `BoxedMontyParams` fields. -/
structure Params where
  modulus : List Nat
  one : List Nat
  r2 : List Nat
  r3 : List Nat
  modNegInv : Nat
  modLeadingZeros : Nat
deriving DecidableEq, Repr

/-- `inv_mod2k(_vartime|_full_vartime)(Word::BITS)` limb 0 at value level: the inverse of an odd word
    modulo 2^64 by Newton iteration (`x ← x(2 − m x)`, 3 → 6 → 12 → 24 → 48 → 96 bits). C10 owns the real one. -/
def inv64 (m0 : Nat) : Nat :=
  let stp := fun x => (x * ((B + 2 - (m0 * x) % B) % B)) % B
  stp (stp (stp (stp (stp (m0 % B)))))

/-- bit length. -/
def bitLen (x : Nat) : Nat := if x = 0 then 0 else Nat.log2 x + 1

/-- `leading_zeros` of an `n`-limb value (value level, C05). -/
def leadingZeros (n x : Nat) : Nat := 64 * n - bitLen x

/-- `Uint::MAX.rem(modulus).add_mod(&Uint::ONE, modulus)` (fixed widths and `impl_modulus!`; since fix commit
    b15470f — before it the sum was a plain `wrapping_add`, see `CB/Lemmas/C08Old.lean`): the remainder at value
    level (C02), `add_mod` as the limb chain. -/
def oneOf (ms : List Nat) : List Nat :=
  addMod (toLimbs ms.length ((B ^ ms.length - 1) % val ms)) (uone ms.length) ms

/-- `BoxedUint::conditional_sbb_assign(rhs, choice)`: `self[i].sbb(rhs[i] & mask, borrow)`; the new value. -/
def conditionalSbb (a rhs : List Nat) (mask : Nat) : List Nat := (usbb a (bitandLimb rhs mask) 0).1

/-- boxed constructors: `one = max.rem(modulus).wrapping_add(&one()); one.conditional_sbb_assign(&modulus,
    !one.ct_lt(&modulus))` (the comparison at value level, C06). -/
def oneOfBoxed (ms : List Nat) : List Nat :=
  let o := wrappingAdd (toLimbs ms.length ((B ^ ms.length - 1) % val ms)) (uone ms.length)
  conditionalSbb o ms (if val o < val ms then 0 else WMAX)

/-- `one.square().rem(modulus ‖ 0).split().0` / `rem_wide_vartime(one.square_wide(), modulus)`. -/
def r2Of (ms one : List Nat) : List Nat := toLimbs ms.length ((val one * val one) % val ms)

/-- `Limb(Word::MIN.wrapping_sub(inv_mod.limbs[0].0))`. -/
def negInvOf (ms : List Nat) : Nat := wsub 0 (inv64 (ms.headD 0))

/-- `montgomery_reduction(&r2.square_wide(), &modulus, mod_neg_inv)`. -/
def r3Of (ms r2 : List Nat) (k : Nat) : List Nat := squareMont r2 ms k

/-- `MontyParams::new` (constant time) after its first statement (`one` given): clamp
    `from_u32_lt(z, BITS - 1).select_u32(BITS - 1, z)`. -/
def paramsNewWith (one ms : List Nat) : Params :=
  let r2 := r2Of ms one
  let k := negInvOf ms
  let z := leadingZeros ms.length (val ms)
  let z := if z < 63 then z else 63
  { modulus := ms, one := one, r2 := r2, r3 := r3Of ms r2 k, modNegInv := k, modLeadingZeros := z }

/-- `MontyParams::new`. -/
def paramsNew (ms : List Nat) : Params := paramsNewWith (oneOf ms) ms

/-- `MontyParams::new_vartime` after `one`: clamp `if z < BITS - 1 { z } else { BITS - 1 }`. -/
def paramsNewVartimeWith (one ms : List Nat) : Params :=
  let r2 := r2Of ms one
  let k := negInvOf ms
  let z := leadingZeros ms.length (val ms)
  let z := if z < 63 then z else 63
  { modulus := ms, one := one, r2 := r2, r3 := r3Of ms r2 k, modNegInv := k, modLeadingZeros := z }

/-- `MontyParams::new_vartime`. -/
def paramsNewVartime (ms : List Nat) : Params := paramsNewVartimeWith (oneOf ms) ms

/-- `impl_modulus!` after `ONE`: clamp `if z >= Word::BITS { Word::BITS - 1 } else { z }`. -/
def paramsConstWith (one ms : List Nat) : Params :=
  let r2 := r2Of ms one
  let k := negInvOf ms
  let z := leadingZeros ms.length (val ms)
  let z := if z ≥ 64 then 63 else z
  { modulus := ms, one := one, r2 := r2, r3 := r3Of ms r2 k, modNegInv := k, modLeadingZeros := z }

/-- `impl_modulus!`. -/
def paramsConst (ms : List Nat) : Params := paramsConstWith (oneOf ms) ms

/-- `BoxedMontyParams::new` / `new_vartime` after `one`: `r3 = BoxedMontyMultiplier::square(&r2)`, clamp
    `.min(Word::BITS - 1)`. -/
def paramsBoxedWith (one ms : List Nat) : Params :=
  let r2 := r2Of ms one
  let k := negInvOf ms
  let z := Nat.min (leadingZeros ms.length (val ms)) 63
  { modulus := ms, one := one, r2 := r2, r3 := bSquare r2 ms k, modNegInv := k, modLeadingZeros := z }

/-- `BoxedMontyParams::new` / `new_vartime`. -/
def paramsBoxed (ms : List Nat) : Params := paramsBoxedWith (oneOfBoxed ms) ms

/-- the constants by definition: `R mod m`, `R² mod m`, `R³ mod m`, `−m⁻¹ mod 2^64`, `min(lz, 63)`. -/
def paramsSpec (n m : Nat) : Params :=
  { modulus := toLimbs n m
    one := toLimbs n (B ^ n % m)
    r2 := toLimbs n (B ^ (2 * n) % m)
    r3 := toLimbs n (B ^ (3 * n) % m)
    modNegInv := (B - inv64 (m % B)) % B
    modLeadingZeros := Nat.min (leadingZeros n m) 63 }

/-! ## operation histories -/

/-- which representation the values currently live in. -/
inductive Rep where
  | const | dyn | boxed
deriving DecidableEq, Repr

/-- one step of a history; `i`, `j` are handles (indices into the store).
    Pure ops push their result; `…Assign` / multiplier-object forms overwrite `store[i]`. -/
inductive MontyOp where
  | new (v : Nat)
  | zero
  | one
  | add (i j : Nat)
  | sub (i j : Nat)
  | mul (i j : Nat)
  | neg (i : Nat)
  | double (i : Nat)
  | square (i : Nat)
  | div2 (i : Nat)
  | addAssign (i j : Nat)
  | subAssign (i j : Nat)
  | mulAssign (i j : Nat)       -- `MulAssign` and `MontyMultiplier::mul_assign`
  | squareAssign (i : Nat)      -- `SquareAssign` and `MontyMultiplier::square_assign`
  | div2Assign (i : Nat)
  | select (i j : Nat) (c : Bool)
  | copyFrom (i j : Nat)        -- `Monty::copy_montgomery_from`
  | conv                        -- const → dyn → boxed (parameters are carried over)
deriving Repr

structure State where
  rep : Rep
  params : Params
  store : List (List Nat)

def State.n (s : State) : Nat := s.params.modulus.length

/-- handle lookup (generators only emit valid handles; out of range reads as zero). -/
def State.get (s : State) (i : Nat) : List Nat := s.store.getD i (uzero s.n)

def opAdd (s : State) (a b : List Nat) : List Nat :=
  match s.rep with
  | .boxed => bAddMod a b s.params.modulus
  | _ => addMod a b s.params.modulus
def opSub (s : State) (a b : List Nat) : List Nat :=
  match s.rep with
  | .boxed => bSubMod a b s.params.modulus
  | _ => subMod a b s.params.modulus
/-- boxed `SubAssign` goes through `sub_assign_mod_with_carry(0, …)`, not `sub_mod`. -/
def opSubAssign (s : State) (a b : List Nat) : List Nat :=
  match s.rep with
  | .boxed => bSubAssignModWithCarry a 0 b s.params.modulus
  | _ => subMod a b s.params.modulus
def opNeg (s : State) (a : List Nat) : List Nat :=
  match s.rep with
  | .boxed => bNegMod a s.params.modulus
  | _ => negMod a s.params.modulus
def opDouble (s : State) (a : List Nat) : List Nat :=
  match s.rep with
  | .boxed => bDoubleMod a s.params.modulus
  | _ => doubleMod a s.params.modulus
def opMul (s : State) (a b : List Nat) : List Nat :=
  match s.rep with
  | .boxed => bMul a b s.params.modulus s.params.modNegInv
  | _ => mulMont a b s.params.modulus s.params.modNegInv
def opSquare (s : State) (a : List Nat) : List Nat :=
  match s.rep with
  | .boxed => bSquare a s.params.modulus s.params.modNegInv
  | _ => squareMont a s.params.modulus s.params.modNegInv
def opDiv2 (s : State) (a : List Nat) : List Nat :=
  match s.rep with
  | .boxed => bDivBy2 a s.params.modulus
  | _ => divBy2 a s.params.modulus
/-- `MontyForm::new` / `ConstMontyForm::new` / `BoxedMontyForm::new`: multiply by `r2`. -/
def opNew (s : State) (v : Nat) : List Nat := opMul s (toLimbs s.n v) s.params.r2
/-- `retrieve()`. -/
def opRetrieve (s : State) (a : List Nat) : List Nat :=
  match s.rep with
  | .boxed => bRetrieve a s.params.modulus s.params.modNegInv
  | _ => retrieveMont a s.params.modulus s.params.modNegInv

def State.push (s : State) (v : List Nat) : State := { s with store := s.store ++ [v] }
def State.put (s : State) (i : Nat) (v : List Nat) : State := { s with store := s.store.set i v }

def step (s : State) : MontyOp → State
  | .new v => s.push (opNew s v)
  | .zero => s.push (uzero s.n)
  | .one => s.push s.params.one
  | .add i j => s.push (opAdd s (s.get i) (s.get j))
  | .sub i j => s.push (opSub s (s.get i) (s.get j))
  | .mul i j => s.push (opMul s (s.get i) (s.get j))
  | .neg i => s.push (opNeg s (s.get i))
  | .double i => s.push (opDouble s (s.get i))
  | .square i => s.push (opSquare s (s.get i))
  | .div2 i => s.push (opDiv2 s (s.get i))
  | .addAssign i j => s.put i (opAdd s (s.get i) (s.get j))
  | .subAssign i j => s.put i (opSubAssign s (s.get i) (s.get j))
  | .mulAssign i j => s.put i (opMul s (s.get i) (s.get j))
  | .squareAssign i => s.put i (opSquare s (s.get i))
  | .div2Assign i => s.put i (opDiv2 s (s.get i))
  | .select i j c => s.push (uselect (s.get i) (s.get j) (if c then WMAX else 0))
  | .copyFrom i j => s.put i (s.get j)
  | .conv =>
    match s.rep with
    | .const => { s with rep := .dyn }
    | .dyn => { s with rep := .boxed }
    | .boxed => s

def run (s : State) (ops : List MontyOp) : State := ops.foldl step s

/-- index of the value an operation produced or overwrote (`conv`: the last value). -/
def affected (s : State) : MontyOp → Nat
  | .addAssign i _ | .subAssign i _ | .mulAssign i _ | .squareAssign i | .div2Assign i
  | .copyFrom i _ => i
  | .conv => s.store.length - 1
  | _ => s.store.length

/-! ### the denotation: the same history evaluated in ℤ/m (L0) -/

def sget (sp : List Nat) (i : Nat) : Nat := sp.getD i 0

/-- one step on residues (`m` odd, so `2⁻¹ = (m+1)/2`). -/
def stepSpec (m : Nat) (sp : List Nat) : MontyOp → List Nat
  | .new v => sp ++ [v % m]
  | .zero => sp ++ [0]
  | .one => sp ++ [1 % m]
  | .add i j => sp ++ [(sget sp i + sget sp j) % m]
  | .sub i j => sp ++ [(sget sp i + (m - sget sp j % m)) % m]
  | .mul i j => sp ++ [(sget sp i * sget sp j) % m]
  | .neg i => sp ++ [(m - sget sp i % m) % m]
  | .double i => sp ++ [(2 * sget sp i) % m]
  | .square i => sp ++ [(sget sp i * sget sp i) % m]
  | .div2 i => sp ++ [(sget sp i * ((m + 1) / 2)) % m]
  | .addAssign i j => sp.set i ((sget sp i + sget sp j) % m)
  | .subAssign i j => sp.set i ((sget sp i + (m - sget sp j % m)) % m)
  | .mulAssign i j => sp.set i ((sget sp i * sget sp j) % m)
  | .squareAssign i => sp.set i ((sget sp i * sget sp i) % m)
  | .div2Assign i => sp.set i ((sget sp i * ((m + 1) / 2)) % m)
  | .select i j c => sp ++ [if c then sget sp j else sget sp i]
  | .copyFrom i j => sp.set i (sget sp j)
  | .conv => sp

def runSpec (m : Nat) (sp : List Nat) (ops : List MontyOp) : List Nat := ops.foldl (stepSpec m) sp

/-- the canonical Montgomery representative the property demands for residue `x`. -/
def canon (n m x : Nat) : List Nat := toLimbs n ((x * B ^ n) % m)

end CB.Monty
