/-
  CB.Model.Radix — radix (2..36) string decoding / encoding of `Uint` and `BoxedUint`
  (src/uint/encoding.rs `radix_*`, src/uint/boxed/encoding.rs `from_str_radix_*`).

  Strings are lists of bytes (`Nat < 256`): the Rust code works on `src.as_bytes()`.
  Part 1 is the specification level `L0` (numerals as positional digit lists over `Nat`);
  part 2 is the limb-level model `L1`, loop for loop as the crate computes.
  Calls into other properties' algorithms are value-level:
    * `div2by1` inside `encode_limbs`            → `(carry·B + limb) / d`, `% d`   (exactness: C02)
    * `div_rem_vartime_in_place` (large divisor) → `val x / val d`, `val x % val d` (exactness: C02)
    * `BoxedUint::bits`                          → bit length of the value           (C05)
  Core Lean only: linked into `cbmodel`.
-/
import CB.Model.Basic
import CB.Model.Extracted
namespace CB.Radix
open CB

/-- `DecodeError` plus `panic` (documented panics, and index-out-of-bounds paths that the
theorems show unreachable). -/
inductive Err where
  | empty | invalidDigit | inputSize | precision | panic
  deriving DecidableEq, Repr

def radixMin : Nat := CB.Extracted.radixEncodingMin
def radixMax : Nat := CB.Extracted.radixEncodingMax
/-- `RADIX_ENCODING_LIMBS_LARGE` -/
def LARGE : Nat := CB.Extracted.radixEncodingLimbsLarge

/-! ## Part 1 — L0: numerals -/

/-- ASCII byte of a digit value `< 36`, lower case. -/
def digitChar (d : Nat) : Nat := if d < 10 then 48 + d else 97 + (d - 10)

/-- digit value of an ASCII alphanumeric (either case); `none` for every other byte -/
def charDigit? (b : Nat) : Option Nat :=
  if 48 ≤ b ∧ b ≤ 57 then some (b - 48)
  else if 97 ≤ b ∧ b ≤ 122 then some (b - 97 + 10)
  else if 65 ≤ b ∧ b ≤ 90 then some (b - 65 + 10)
  else none

/-- little-endian base-`r` digits of `x` (`[]` for 0); fuel `x` always suffices for `r ≥ 2` -/
def digitsLE (r : Nat) : Nat → Nat → List Nat
  | 0, _ => []
  | f + 1, x => if x = 0 then [] else (x % r) :: digitsLE r f (x / r)

/-- big-endian canonical digit list (no leading zero; `[]` for 0) -/
def digitsBE (r x : Nat) : List Nat := (digitsLE r x x).reverse

/-- value of a big-endian digit list -/
def ofDigits (r : Nat) (ds : List Nat) : Nat := ds.foldl (fun a d => a * r + d) 0

/-- THE canonical numeral: lower case, no leading zeros, `"0"` for zero -/
def specFormat (r x : Nat) : List Nat :=
  if x = 0 then [48] else (digitsBE r x).map digitChar

/-- digits of a numeral body `[0-9a-zA-Z_]*`: every byte is `_` or a digit `< r` -/
def bodyDigits (r : Nat) : List Nat → Option (List Nat)
  | [] => some []
  | b :: bs =>
    if b = 95 then bodyDigits r bs
    else match charDigit? b with
      | some d => if d < r then (bodyDigits r bs).map (d :: ·) else none
      | none => none

/-- optional leading `+` -/
def stripPlus (s : List Nat) : List Nat :=
  match s with
  | 43 :: t => t
  | _ => s

/-- grammar `[+]?[0-9a-zA-Z_]+`, no leading / trailing underscore, digits `< r`;
value of the numeral, or which of `Empty` / `InvalidDigit` applies -/
def specParse (r : Nat) (s : List Nat) : Except Err Nat :=
  let body := stripPlus s
  if body.isEmpty then .error .empty
  else if body.head? = some 95 ∨ body.getLast? = some 95 then .error .invalidDigit
  else match bodyDigits r body with
    | none => .error .invalidDigit
    | some ds => .ok (ofDigits r ds)

/-- parse into a target of `n` limbs: value, or `InputSize` exactly when it does not fit -/
def specParseFixed (r n : Nat) (s : List Nat) : Except Err Nat :=
  match specParse r s with
  | .error e => .error e
  | .ok v => if v < B ^ n then .ok v else .error .inputSize

/-- number of bits of `v` -/
def bitLen (v : Nat) : Nat := if v = 0 then 0 else Nat.log2 v + 1

/-- number of limbs needed for `v` (0 for 0) -/
def limbsNeeded (v : Nat) : Nat := (bitLen v + 63) / 64

/-- limb count of `BoxedUint::zero_with_precision(p)`: `p` rounded up to limbs, and at least one
limb (`From<Vec<Limb>>` pads an empty vector) -/
def precLimbs (p : Nat) : Nat := max 1 ((p + 63) / 64)

/-- parse with `bits_precision`: fits → value; fits the rounded-up limbs only → `Precision`;
else `InputSize` -/
def specParsePrec (r p : Nat) (s : List Nat) : Except Err Nat :=
  match specParse r s with
  | .error e => .error e
  | .ok v =>
    if v < 2 ^ p then .ok v
    else if v < B ^ precLimbs p then .error .precision
    else .error .inputSize

/-! ## Part 2 — L1: the code -/

/-- `Word::MAX.ilog(radix)`: largest `k` with `radix^k ≤ Word::MAX` -/
def ilogGo (r : Nat) : Nat → Nat → Nat → Nat
  | 0, _, k => k
  | f + 1, p, k => if p * r ≤ WMAX then ilogGo r f (p * r) (k + 1) else k
def ilog (r : Nat) : Nat := ilogGo r 64 1 0

/-- `u32::trailing_zeros` for a non-zero argument -/
def tzGo : Nat → Nat → Nat
  | 0, _ => 0
  | f + 1, x => if x % 2 = 1 then 0 else 1 + tzGo f (x / 2)
def trailingZeros (x : Nat) : Nat := if x = 0 then 32 else tzGo 32 x

/-- `u32::is_power_of_two` -/
def isPow2 (x : Nat) : Bool := x ≠ 0 && x == 2 ^ trailingZeros x

/-- `leading_zeros` of a `width`-bit word -/
def leadingZeros (width x : Nat) : Nat := width - bitLen x

/-- `Word::pow` (wrapping in release; the theorems show it never wraps here) -/
def wpow (r k : Nat) : Nat := (r ^ k) % B

/-! ### decoding -/

/-- the `while digits[0] == b'0' || digits[0] == b'_'` loop of `radix_preprocess_str` -/
def stripLeading : List Nat → List Nat
  | [] => []
  | b :: bs => if b = 48 ∨ b = 95 then stripLeading bs else b :: bs

/-- `radix_preprocess_str` -/
def preprocess (s : List Nat) : Except Err (List Nat) :=
  let digits := stripPlus s
  if digits.isEmpty then .error .empty
  else if digits.head? = some 95 ∨ digits.getLast? = some 95 then .error .invalidDigit
  else .ok (stripLeading digits)

/-- the `match digits[digits_pos]` shared by both decoders. `none` = underscore (`continue`);
a non-alphanumeric byte yields `radix` (rejected by the `digit >= radix` test). -/
def matchDigit (radix b : Nat) : Option Nat :=
  if 48 ≤ b ∧ b ≤ 57 then some (b - 48)
  else if 97 ≤ b ∧ b ≤ 122 then some (b + 10 - 97)
  else if 65 ≤ b ∧ b ≤ 90 then some (b + 10 - 65)
  else if b = 95 then none
  else some radix

/-- `DecodeByLimb` target: `cap = some n` is `SliceDecodeByLimb` over `n` limbs (fixed `Uint`,
boxed with precision), `none` is `VecDecodeByLimb`; `limbs` = `limbs_mut()` (the pushed limbs). -/
structure Target where
  cap : Option Nat
  limbs : List Nat

/-- `push_limb`: `none` = `false` -/
def Target.push (t : Target) (w : Nat) : Option Target :=
  match t.cap with
  | some n => if t.limbs.length < n then some { t with limbs := t.limbs ++ [w] } else none
  | none => some { t with limbs := t.limbs ++ [w] }

/-- inner `loop` of both decoders: read digits (skipping `_`) into `buf` until the input is
exhausted or `buf` holds `limbDigits` digits. An underscore as last byte would index out of
bounds (`panic`) — excluded by `preprocess`. Returns `(buf, unread)`. -/
def readBatch (radix limbDigits : Nat) : List Nat → List Nat → Except Err (List Nat × List Nat)
  | [], _ => .error .panic
  | b :: rest, buf =>
    match matchDigit radix b with
    | none => readBatch radix limbDigits rest buf
    | some d =>
      if d ≥ radix then .error .invalidDigit
      else
        let buf := buf ++ [d]
        if rest.isEmpty ∨ buf.length = limbDigits then .ok (buf, rest)
        else readBatch radix limbDigits rest buf

/-- `for limb in out.limbs_mut() { (*limb, carry) = Limb::ZERO.mac(*limb, limb_max, carry) }` -/
def macLimbs (m : Nat) : List Nat → Nat → List Nat × Nat
  | [], c => ([], c)
  | l :: ls, c =>
    let r := mac 0 l m c
    let rest := macLimbs m ls r.2
    (r.1 :: rest.1, rest.2)

/-- `for c in buf { carry = carry * radix + c }` on words -/
def combineDigits (radix : Nat) (buf : List Nat) : Nat :=
  buf.foldl (fun c d => wadd (wmul c radix) d) 0

/-- outer `while digits_pos < digits.len()` of `radix_decode_str_digits`; fuel = bytes left -/
def decodeDigitsLoop (radix : Nat) : Nat → List Nat → Nat → Target → Except Err Target
  | 0, digits, _, t => if digits.isEmpty then .ok t else .error .panic
  | f + 1, digits, limbDigits, t =>
    if digits.isEmpty then .ok t
    else match readBatch radix limbDigits digits [] with
      | .error e => .error e
      | .ok (buf, rest) =>
        -- "On the final loop, there may be fewer digits to process"
        let limbDigits := if buf.length < limbDigits then buf.length else limbDigits
        let limbMax := wpow radix limbDigits
        let carry := combineDigits radix buf
        let r := macLimbs limbMax t.limbs carry
        let t1 : Target := { t with limbs := r.1 }
        if r.2 ≠ 0 then
          match t1.push r.2 with
          | none => .error .inputSize
          | some t2 => decodeDigitsLoop radix f rest limbDigits t2
        else decodeDigitsLoop radix f rest limbDigits t1

/-- `radix_decode_str_digits` -/
def decodeDigits (radix : Nat) (s : List Nat) (t : Target) : Except Err Target :=
  match preprocess s with
  | .error e => .error e
  | .ok digits => decodeDigitsLoop radix digits.length digits (ilog radix) t

/-- `for c in buf[..buf_pos].iter().rev() { w = (w << shift) | c }` -/
def packDigits (shift : Nat) (buf : List Nat) : Nat :=
  buf.reverse.foldl (fun w c => ((w * 2 ^ shift) % B) ||| c) 0

/-- outer `while digits_pos > 0` of `radix_decode_str_aligned_digits`; the list is the digit
string REVERSED (the code walks it from the least significant end) -/
def decodeAlignedLoop (radix shift limbDigits : Nat) : Nat → List Nat → Target → Except Err Target
  | 0, rdigits, t => if rdigits.isEmpty then .ok t else .error .panic
  | f + 1, rdigits, t =>
    if rdigits.isEmpty then .ok t
    else match readBatch radix limbDigits rdigits [] with
      | .error e => .error e
      | .ok (buf, rest) =>
        if buf.length > 0 then
          match t.push (packDigits shift buf) with
          | none => .error .inputSize
          | some t2 => decodeAlignedLoop radix shift limbDigits f rest t2
        else decodeAlignedLoop radix shift limbDigits f rest t

/-- `radix_decode_str_aligned_digits` -/
def decodeAligned (radix : Nat) (s : List Nat) (t : Target) : Except Err Target :=
  match preprocess s with
  | .error e => .error e
  | .ok digits =>
    let shift := trailingZeros radix
    decodeAlignedLoop radix shift (64 / shift) digits.length digits.reverse t

/-- `radix_decode_str` -/
def decodeStr (radix : Nat) (s : List Nat) (t : Target) : Except Err Target :=
  if ¬ (radixMin ≤ radix ∧ radix ≤ radixMax) then .error .panic
  else if radix = 2 ∨ radix = 4 ∨ radix = 16 then decodeAligned radix s t
  else decodeDigits radix s t

/-- `Uint::<n>::from_str_radix_vartime` (and `num_traits::Num::from_str_radix`): limbs not pushed
stay zero -/
def uintFromStr (n radix : Nat) (s : List Nat) : Except Err (List Nat) :=
  match decodeStr radix s { cap := some n, limbs := [] } with
  | .error e => .error e
  | .ok t => .ok (t.limbs ++ List.replicate (n - t.limbs.length) 0)

/-- `BoxedUint::from_str_radix_vartime`: the pushed limbs; `From<Vec<Limb>>` pads an empty vector
(value zero) to one limb -/
def boxedFromStr (radix : Nat) (s : List Nat) : Except Err (List Nat) :=
  match decodeStr radix s { cap := none, limbs := [] } with
  | .error e => .error e
  | .ok t => .ok (if t.limbs.isEmpty then [0] else t.limbs)

/-- `BoxedUint::from_str_radix_with_precision_vartime` -/
def boxedFromStrPrec (radix prec : Nat) (s : List Nat) : Except Err (List Nat) :=
  let n := precLimbs prec
  match decodeStr radix s { cap := some n, limbs := [] } with
  | .error e => .error e
  | .ok t =>
    let limbs := t.limbs ++ List.replicate (n - t.limbs.length) 0
    if prec < bitLen (val limbs) then .error .precision else .ok limbs

/-! ### encoding -/

/-- `if digit < 10 { b'0' + digit } else { b'a' + (digit - 10) }` -/
def digitByte (d : Nat) : Nat := if d < 10 then 48 + d else 97 + (d - 10)

/-- state of `radix_encode_limbs_by_shifting`: `(digits, digits_bits, out_idx, out[out_idx..])` -/
abbrev ShiftState := Nat × Nat × Nat × List Nat

/-- the inner `for _ in 0..k`: emit `k` digits from the low end of `digits` -/
def emitShift (radixBits mask : Nat) : Nat → ShiftState → ShiftState
  | 0, st => st
  | k + 1, (digits, bits, outIdx, acc) =>
    let digit := (digits % 256) &&& mask
    emitShift radixBits mask k (digits / 2 ^ radixBits, bits - radixBits, outIdx - 1, digitByte digit :: acc)

/-- `for limb in limbs.iter().chain([&Limb::ZERO])` -/
def shiftLoop (radixBits mask : Nat) : List Nat → ShiftState → ShiftState
  | [], st => st
  | limb :: rest, (digits, bits, outIdx, acc) =>
    let bits := bits + 64
    let digits := (digits ||| ((limb * 2 ^ (bits % 64)) % (B * B)))
    let k := min (bits / radixBits) outIdx
    shiftLoop radixBits mask rest (emitShift radixBits mask k (digits, bits, outIdx, acc))

/-- `radix_encode_limbs_by_shifting` into a buffer of `outLen` bytes -/
def encodeByShifting (radix : Nat) (limbs : List Nat) (outLen : Nat) : List Nat :=
  let radixBits := trailingZeros radix
  let mask := (radix - 1) % 256
  let st := shiftLoop radixBits mask (limbs ++ [0]) (0, 0, outLen, [])
  List.replicate st.2.2.1 48 ++ st.2.2.2

/-- `RadixDivisionParams` (the reciprocal is represented by its divisor and shift) -/
structure DivParams where
  radix : Nat
  digitsLimb : Nat
  divLimb : Nat
  digitsLarge : Nat
  divLarge : List Nat
  deriving Repr

/-- `Reciprocal::shift()` = leading zeros of the limb divisor -/
def DivParams.shift (p : DivParams) : Nat := leadingZeros 64 p.divLimb
/-- `divisor_normalized` -/
def DivParams.dnorm (p : DivParams) : Nat := (p.divLimb * 2 ^ p.shift) % B
/-- `Reciprocal::divisor()` = `divisor_normalized >> shift` -/
def DivParams.divisor (p : DivParams) : Nat := p.dnorm / 2 ^ p.shift

/-- first loop of `radix_large_divisor`: `out` holds `top` limbs; multiply by `div_limb` until
`LARGE` limbs are in use -/
def largeDivPow (divLimb digitsLimb : Nat) : Nat → List Nat → Nat → List Nat × Nat
  | 0, out, dl => (out, dl)
  | f + 1, out, dl =>
    if out.length < LARGE then
      let r := macLimbs divLimb out 0
      let out := if r.2 ≠ 0 then r.1 ++ [r.2] else r.1
      largeDivPow divLimb digitsLimb f out (dl + digitsLimb)
    else (out, dl)

/-- second loop of `radix_large_divisor`: multiply by `radix` while no carry leaves the array -/
def largeDivFill (radix : Nat) : Nat → List Nat → Nat → List Nat × Nat
  | 0, out, dl => (out, dl)
  | f + 1, out, dl =>
    let r := macLimbs radix out 0
    if r.2 = 0 then largeDivFill radix f r.1 (dl + 1) else (out, dl)

/-- `radix_large_divisor` -/
def radixLargeDivisor (radix divLimb digitsLimb : Nat) : List Nat × Nat :=
  let a := largeDivPow divLimb digitsLimb (64 * LARGE + 1) [divLimb] digitsLimb
  let out := a.1 ++ List.replicate (LARGE - a.1.length) 0
  largeDivFill radix 64 out a.2

/-- body of the `const ALL` loop for one radix -/
def mkParams (radix : Nat) : DivParams :=
  let digitsLimb := ilog radix
  let divLimb := wpow radix digitsLimb
  let l := radixLargeDivisor radix divLimb digitsLimb
  { radix := radix, digitsLimb := digitsLimb, divLimb := divLimb, digitsLarge := l.2, divLarge := l.1 }

/-- `const ALL`: `radix` from 3 while `radix <= RADIX_ENCODING_MAX`, skipping powers of two -/
def allParamsGo : Nat → Nat → List DivParams
  | 0, _ => []
  | f + 1, radix =>
    if radix ≤ radixMax then
      if isPow2 radix then allParamsGo f (radix + 1)
      else mkParams radix :: allParamsGo f (radix + 1)
    else []
def allParams : List DivParams := allParamsGo (radixMax + 1) 3

/-- `RadixDivisionParams::for_radix`: index `radix + radix.leading_zeros() - 33` -/
def forRadix (radix : Nat) : Except Err DivParams :=
  if radix < radixMin ∨ radix > radixMax then .error .panic
  else
    let s := radix + leadingZeros 32 radix
    if s < 33 then .error .panic
    else match allParams[s - 33]? with
      | none => .error .panic
      | some p => if p.radix ≠ radix then .error .panic else .ok p

/-- `for limb in limbs { (*limb, carry) = ((*limb << lshift) | carry, *limb >> rshift) }` -/
def shlLimbs (l : Nat) : List Nat → Nat → List Nat × Nat
  | [], c => ([], c)
  | x :: xs, c =>
    let rest := shlLimbs l xs (x / 2 ^ ((64 - l) % 64))
    ((((x * 2 ^ l) % B) ||| c) :: rest.1, rest.2)

/-- `for limb in limbs.iter_mut().rev() { (limb, carry) = div2by1(carry, limb, reciprocal) }`
on the most-significant-first list; value-level quotient / remainder (exactness of `div2by1`: C02) -/
def divLimbsMS (dn : Nat) : List Nat → Nat → List Nat × Nat
  | [], c => ([], c)
  | x :: xs, c =>
    let t := c * B + x
    let rest := divLimbsMS dn xs (t % dn)
    (((t / dn) % B) :: rest.1, rest.2)

/-- `for _ in 0..k { (w, digit) = (w / radix, w % radix); out[--out_idx] = char(digit) }` -/
def emitDigits (radix : Nat) : Nat → Nat → List Nat → List Nat
  | 0, _, acc => acc
  | k + 1, w, acc => emitDigits radix k (w / radix) (digitByte ((w % radix) % 256) :: acc)

/-- the `loop` of `encode_limbs` (after the large-divisor part): `limbs` are the active
`limbs[..limb_count]`, `acc` is `out[out_idx..]`. Fuel = `out_idx + 1`. -/
def smallLoop (p : DivParams) : Nat → List Nat → Nat → Nat → List Nat → List Nat
  | 0, _, _, _, acc => acc
  | f + 1, limbs, hi, outIdx, acc =>
    let lshift := p.shift
    let st : List Nat × Nat × Nat :=
      if limbs.isEmpty then ([], 0, hi)
      else
        let sc : List Nat × Nat :=
          if lshift > 0 then
            let r := shlLimbs lshift limbs 0
            (r.1, r.2 ||| ((hi * 2 ^ lshift) % B))
          else (limbs, hi)
        let d := divLimbsMS p.dnorm sc.1.reverse sc.2
        let q := d.1.reverse
        let top := q.getLastD 0
        let word := d.2 / 2 ^ lshift
        -- `if limbs[limb_count - 1] < div_limb`
        if top < p.divisor then (q.dropLast, top, word) else (q, 0, word)
    let k := min p.digitsLimb outIdx
    let acc := emitDigits p.radix k st.2.2 acc
    let outIdx := outIdx - k
    if outIdx = 0 then acc else smallLoop p f st.1 st.2.1 outIdx acc

/-- the `while limb_count >= RADIX_ENCODING_LIMBS_LARGE` loop. `div_rem_vartime_in_place` is the
value-level quotient / remainder (C02); the recursive `encode_limbs(&mut remain, …)` gets exactly
`LARGE` limbs, so it never re-enters this branch and is `smallLoop`. Returns
`(limbs[..limb_count], out_idx, out[out_idx..])`. -/
def largeLoop (p : DivParams) : Nat → List Nat → Nat → List Nat → List Nat × Nat × List Nat
  | 0, limbs, outIdx, acc => (limbs, outIdx, acc)
  | f + 1, limbs, outIdx, acc =>
    if limbs.length ≥ LARGE then
      let x := val limbs
      let d := val p.divLarge
      let lc := limbs.length + 1 - LARGE
      let q := toLimbs lc (x / d)
      let q := if q.getLastD 0 = 0 then q.dropLast else q
      let remain := toLimbs LARGE (x % d)
      let nextIdx := outIdx - p.digitsLarge
      let len := outIdx - nextIdx
      let chunk := smallLoop p (len + 1) remain 0 len []
      largeLoop p f q nextIdx (chunk ++ acc)
    else (limbs, outIdx, acc)

/-- `RadixDivisionParams::encode_limbs` into `outLen` bytes -/
def encodeLimbs (p : DivParams) (limbs : List Nat) (outLen : Nat) : List Nat :=
  let st : List Nat × Nat × List Nat :=
    if limbs.length > LARGE then largeLoop p limbs.length limbs outLen [] else (limbs, outLen, [])
  smallLoop p (st.2.1 + 1) st.1 0 st.2.1 st.2.2

/-- `while skip + 1 < size && out[skip] == b'0'` -/
def skipZeros : List Nat → List Nat
  | b :: b2 :: rest => if b = 48 then skipZeros (b2 :: rest) else b :: b2 :: rest
  | l => l

/-- `radix_encode_limbs_mut_to_string` (= `Uint::to_string_radix_vartime`,
`BoxedUint::to_string_radix_vartime`). With zero limbs the release build returns `""`
(the `debug_assert!`s on non-empty buffers fire only with debug assertions). -/
def encodeToString (radix : Nat) (limbs : List Nat) : Except Err (List Nat) :=
  if ¬ (radixMin ≤ radix ∧ radix ≤ radixMax) then .error .panic
  else if isPow2 radix then
    let bits := trailingZeros radix
    let size := (limbs.length * 64 + bits - 1) / bits
    .ok (skipZeros (encodeByShifting radix limbs size))
  else match forRadix radix with
    | .error e => .error e
    | .ok p => .ok (skipZeros (encodeLimbs p limbs (limbs.length * (p.digitsLimb + 1))))

end CB.Radix
