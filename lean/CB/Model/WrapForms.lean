/-
  CB.Model.WrapForms — (C04, coverage round) the remaining forms of the `Checked<T>` / `Wrapping<T>` wrappers and
  of `Limb`:
    src/limb/add.rs 47-73, src/limb/sub.rs 56-82 (`+=` / `-=` of `Wrapping<Limb>`, `Checked<Limb>`),
    src/limb/neg.rs 14-19 (`WrappingNeg for Limb`),
    src/checked.rs 266-300 (`Checked<T>`: conditional_select, ct_eq, Default, From conversions),
    src/wrapping.rs 187-255 (`Wrapping<T>`: conditional_select, ct_eq, zero / is_zero, one / is_one, fmt forwarding).
  A `CtOption<T>` is the pair (carried value, `is_some` as 0/1): the value is present also under a false mask.
  `subtle` (2.6.1) is modelled by its source: `CtOption::conditional_select` selects value and mask with the same
  choice, `CtOption::ct_eq = (a & b & value_eq) | (!a & !b)`, `and_then` ANDs the masks.  Core Lean only.
-/
import CB.Model.AddSubForms
import CB.Model.NumTests
import CB.Model.Encoding
namespace CB.WrapForms
open CB CB.Cmp CB.AddSub CB.NumTests

/-- `CtOption<T>`: (value, is_some ∈ {0,1}) -/
abbrev CtOpt := List Nat × Nat

/-- `Choice::not`: `Choice(1u8 & (!self.0))` -/
def choiceNot8 (c : Nat) : Nat := 1 &&& (255 - c % 256)

/-- `u8::conditional_select(a, b, choice)`: `a ^ (mask & (a ^ b))`, `mask = -(choice as i8) as u8` -/
def selectU8 (a b c : Nat) : Nat := a ^^^ ((if c = 0 then 0 else 255) &&& (a ^^^ b))

/-- `CtOption::conditional_select(a, b, choice)` =
    `CtOption::new(T::conditional_select(&a.value, &b.value, choice), Choice::conditional_select(&a.is_some, &b.is_some, choice))`;
    `Checked<T>::conditional_select` forwards to it. -/
def ctoptSelect (a b : CtOpt) (c : Nat) : CtOpt :=
  (uselect a.1 b.1 (maskOfBit c), selectU8 a.2 b.2 c)

/-- `CtOption::ct_eq`; `Checked<T>::ct_eq` forwards to it. `T::ct_eq` of `Uint` is `Uint::eq` as a `Choice`. -/
def ctoptEq (a b : CtOpt) : Nat :=
  (a.2 &&& b.2 &&& choiceBit (ueq a.1 b.1)) ||| (choiceNot8 a.2 &&& choiceNot8 b.2)

/-- `Checked::<T>::default()`: `Self::new(T::default())` = `CtOption::new(ZERO, 1)`. -/
def checkedDefault (n : Nat) : CtOpt := (uzero n, 1)

/-- `From<Checked<T>> for CtOption<T>`, `From<CtOption<T>> for Checked<T>`: the field, unchanged. -/
def checkedToCtOption (a : CtOpt) : CtOpt := a
def checkedFromCtOption (a : CtOpt) : CtOpt := a
/-- `From<Checked<T>> for Option<T>`: `checked.0.into()` -/
def checkedToOption (a : CtOpt) : Option (List Nat) := if a.2 = 1 then some a.1 else none

/-- what an observer can see of a `CtOption` -/
def view (a : CtOpt) : Option Nat := if a.2 = 1 then some (val a.1) else none

/-! ### `Limb` -/

/-- `Wrapping<Limb> += rhs`: `*self = *self + other` = `Wrapping(self.0.wrapping_add(rhs.0))`. -/
def limbWrappingAddAssign (a b : Nat) : Nat := wadd a b
def limbWrappingSubAssign (a b : Nat) : Nat := wsub a b

/-- `Checked<Limb> += rhs`: `*self = *self + other` =
    `Checked(self.0.and_then(|a| rhs.0.and_then(|b| a.checked_add(&b))))`; `Limb::checked_add` =
    `CtOption::new(result, carry.is_zero())` on `overflowing_add`; `and_then` ANDs the masks. -/
def limbCheckedAddAssign (a b : Nat × Nat) : Nat × Nat :=
  ((adc a.1 b.1 0).1, choiceBit (fromWordEq (adc a.1 b.1 0).2 0) &&& b.2 &&& a.2)
/-- `Checked<Limb> -= rhs`; `Limb::checked_sub` = `CtOption::new(result, underflow.is_zero())` on `sbb`. -/
def limbCheckedSubAssign (a b : Nat × Nat) : Nat × Nat :=
  ((sbb a.1 b.1 0).1, choiceBit (fromWordEq (sbb a.1 b.1 0).2 0) &&& b.2 &&& a.2)

/-- `<Limb as WrappingNeg>::wrapping_neg`: `Self(self.0.wrapping_neg())`. -/
def limbWrappingNegTrait (a : Nat) : Nat := wneg a

/-! ### `Wrapping<T>` -/

/-- `Wrapping<T>::conditional_select`: `Wrapping(T::conditional_select(&a.0, &b.0, choice))`. -/
def wrappingSelect (a b : List Nat) (c : Nat) : List Nat := uselect a b (maskOfBit c)
/-- `Wrapping<T>::ct_eq`: `self.0.ct_eq(&other.0)`. -/
def wrappingCtEq (a b : List Nat) : Nat := ueq a b
/-- `Zero::zero` (crate and num-traits): `Wrapping(T::zero())`; `One::one`: `Wrapping(T::one())`. -/
def wrappingZero (n : Nat) : List Nat := uzero n
def wrappingOne (n : Nat) : List Nat := uone n
/-- `num_traits::Zero::is_zero` / `One::is_one`: `self.0.is_zero()` / `self.0.is_one()`. -/
def wrappingIsZero (a : List Nat) : Nat := isZeroNum a
def wrappingIsOne (a : List Nat) : Nat := isOneNum a

/-- `Display` / `UpperHex` / `LowerHex` / `Binary` for `Wrapping<T>`: `self.0.fmt(f)` — the inner value's text
    (the formatter, hence the `#` flag, is handed through). -/
def wrappingFmtHex (upper alt : Bool) (l : List Nat) : List Nat := Encoding.fmtHex upper alt l
def wrappingFmtBin (alt : Bool) (l : List Nat) : List Nat := Encoding.fmtBin alt l
def wrappingBoxedFmtHex (upper alt : Bool) (l : List Nat) : List Nat := Encoding.boxedFmtHex upper alt l
def wrappingBoxedFmtBin (alt : Bool) (l : List Nat) : List Nat := Encoding.boxedFmtBin alt l

end CB.WrapForms
